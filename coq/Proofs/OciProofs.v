(* C12 — proofs. *)
From Apko Require Import Base.Prelude Base.C12Lib Generated.C12Oci Model.Oci Spec.OciSpec.
From Coq Require Import Permutation Sorted.
Open Scope string_scope. Open Scope list_scope.

(* ---- append offset --------------------------------------------------------- *)
Lemma next_boundary_b_iff b n o : (0 < b)%Z ->
  next_boundary_b b n o = true <-> NextBoundary b n o.
Proof.
  intro Hb. unfold next_boundary_b, NextBoundary.
  rewrite !andb_true_iff, Z.eqb_eq, Z.leb_le, Z.ltb_lt. split.
  - intros [[Hm Hle] Hlt]. split; [apply Z.mod_divide; [lia|exact Hm]|]. split; [exact Hle|].
    intros m [k ->] Hn.
    apply Z.mod_divide in Hm; [|lia]. destruct Hm as [j ->].
    assert (j < k + 1)%Z by (apply (Z.mul_lt_mono_pos_r b); lia).
    apply Z.mul_le_mono_nonneg_r; lia.
  - intros [Hd [Hle Hmin]]. split; [split; [apply Z.mod_divide; [lia|exact Hd]|exact Hle]|].
    destruct Hd as [j ->].
    assert (H := Hmin ((j - 1) * b)%Z (Z.divide_factor_r _ _)).
    destruct (Z_lt_le_dec (j * b) (n + b)) as [L|G]; [exact L|]. exfalso.
    assert (j * b <= (j - 1) * b)%Z by (apply H; lia). lia.
Qed.

(* the translated program, evaluated on symbolic inputs; shape-independent
   arithmetic afterwards (quot/rem to equations, linear arithmetic) *)
Lemma append_offset_next_boundary pos size :
  (0 <= pos)%Z -> (0 <= size)%Z ->
  NextBoundary tar_block (pos + size) (append_offset pos size) /\
  (append_offset pos size < pos + size + tar_block)%Z.
Proof.
  intros Hp Hs.
  assert (B : next_boundary_b tar_block (pos + size) (append_offset pos size) = true).
  { unfold next_boundary_b, tar_block, append_offset.
    cbv [pad_program pad_out_var pad_pos_var pad_size_var exec aeval cmpeval ilookup
         String.eqb Ascii.eqb Bool.eqb].
    rewrite !andb_true_iff, Z.eqb_eq, Z.leb_le, Z.ltb_lt.
    repeat match goal with
           | |- context [if ?c then _ else _] => let E := fresh "E" in destruct c eqn:E
           end;
    repeat match goal with
           | H : negb _ = true |- _ => apply negb_true_iff in H
           | H : negb _ = false |- _ => apply negb_false_iff in H
           | H : (_ =? _)%Z = true |- _ => apply Z.eqb_eq in H
           | H : (_ =? _)%Z = false |- _ => apply Z.eqb_neq in H
           | H : (_ <? _)%Z = true |- _ => apply Z.ltb_lt in H
           | H : (_ <? _)%Z = false |- _ => apply Z.ltb_ge in H
           | H : (_ <=? _)%Z = true |- _ => apply Z.leb_le in H
           | H : (_ <=? _)%Z = false |- _ => apply Z.leb_gt in H
           end;
    Z.to_euclidean_division_equations; lia. }
  split; [apply next_boundary_b_iff; [reflexivity|exact B]|].
  unfold next_boundary_b in B. rewrite !andb_true_iff, Z.ltb_lt in B. tauto.
Qed.

Lemma append_offset_full pos size :
  (0 <= pos)%Z -> (0 <= size)%Z ->
  NextBoundary tar_block (pos + size) (append_offset pos size) /\
  (append_offset pos size < pos + size + tar_block)%Z /\
  block_size = tar_block.
Proof.
  intros Hp Hs. destruct (append_offset_next_boundary pos size Hp Hs) as [A B].
  split; [exact A|]. split; [exact B|reflexivity].
Qed.

Lemma unconditional_padding_refuted :
  exists pos size, (0 <= pos)%Z /\ (0 <= size)%Z /\
    ~ NextBoundary tar_block (pos + size) (pos + size + (tar_block - (pos + size) mod tar_block))%Z.
Proof.
  exists 1536%Z, 512%Z. split; [lia|]. split; [lia|].
  intros [_ [_ Hmin]]. unfold tar_block in Hmin.
  assert (D : (512 | 2048)%Z) by (exists 4%Z; reflexivity).
  assert (H := Hmin 2048%Z D).
  assert (E : ((1536 + 512) mod 512 = 0)%Z) by reflexivity.
  rewrite E in H. lia.
Qed.

(* ---- Go map ranges ------------------------------------------------------------ *)
Lemma alookup_app {V} k (a b : list (string * V)) :
  alookup k (a ++ b) = match alookup k a with Some v => Some v | None => alookup k b end.
Proof.
  induction a as [|[k' v'] a IH]; simpl; [reflexivity|].
  destruct (String.eqb k k'); [reflexivity|exact IH].
Qed.

Lemma akeys_app {V} (a b : list (string * V)) : akeys (a ++ b) = akeys a ++ akeys b.
Proof. unfold akeys. apply map_app. Qed.

Lemma range_map_self_aux {V} : forall (suf pre : list (string * V)),
  NoDup (akeys (pre ++ suf)) -> range_map (pre ++ suf) (akeys suf) = suf.
Proof.
  induction suf as [|[k v] suf IH]; intros pre ND; [reflexivity|].
  simpl. assert (E : alookup k (pre ++ (k, v) :: suf) = Some v).
  { apply in_alookup_nodup; [exact ND|]. apply in_or_app. right. left. reflexivity. }
  unfold range_map in *. simpl. rewrite E. simpl. f_equal.
  specialize (IH (pre ++ [(k, v)])). rewrite <- app_assoc in IH. simpl in IH. apply IH. exact ND.
Qed.
Lemma range_map_self {V} (m : list (string * V)) : NoDup (akeys m) -> range_map m (akeys m) = m.
Proof. intro ND. apply (range_map_self_aux m []). exact ND. Qed.

Lemma range_map_perm {V} (m : list (string * V)) ord :
  NoDup (akeys m) -> Permutation ord (akeys m) -> Permutation (range_map m ord) m.
Proof.
  intros ND P. rewrite <- (range_map_self m ND) at 2.
  unfold range_map. apply Permutation_flat_map. exact P.
Qed.

Lemma range_map_keys_nodup {V} (m : list (string * V)) ord :
  NoDup (akeys m) -> Permutation ord (akeys m) -> NoDup (akeys (range_map m ord)).
Proof.
  intros ND P. eapply Permutation_NoDup; [|exact ND].
  apply Permutation_sym. unfold akeys. apply Permutation_map. apply range_map_perm; assumption.
Qed.

(* ---- environment ---------------------------------------------------------------- *)
Lemma filter_perm {A} (f : A -> bool) (l l' : list A) :
  Permutation l l' -> Permutation (filter f l) (filter f l').
Proof.
  induction 1; simpl.
  - constructor.
  - destruct (f x); [constructor|]; assumption.
  - destruct (f x), (f y); try reflexivity. apply perm_swap.
  - etransitivity; eassumption.
Qed.

Lemma fold_add_default env : forall L acc,
  NoDup (akeys L) -> (forall k, In k (akeys acc) -> ~ In k (akeys L)) ->
  fold_left add_default L (env ++ acc) = env ++ acc ++ filter (unconfigured env) L.
Proof.
  induction L as [|[k v] L IH]; intros acc ND Dis; simpl.
  - rewrite app_nil_r. reflexivity.
  - inversion ND as [|? ? Nin ND']; subst.
    unfold add_default at 2. simpl fst. rewrite alookup_app. unfold unconfigured at 1. simpl fst.
    destruct (alookup k env) eqn:E.
    + apply IH; [exact ND'|]. intros k' Hk' Hin. apply (Dis k' Hk'). right. exact Hin.
    + assert (Eacc : alookup k acc = None).
      { apply alookup_none. intro H. apply (Dis k H). left. reflexivity. }
      rewrite Eacc. rewrite <- app_assoc. rewrite (IH (acc ++ [(k, v)]) ND').
      * rewrite <- app_assoc. reflexivity.
      * intros k' Hk'. rewrite akeys_app in Hk'. apply in_app_or in Hk'. destruct Hk' as [Hk'|Hk'].
        -- intro Hin. apply (Dis k' Hk'). right. exact Hin.
        -- simpl in Hk'. destruct Hk' as [<-|[]]. exact Nin.
Qed.

Lemma with_defaults_eq defaults dord env :
  NoDup (akeys defaults) -> Permutation dord (akeys defaults) ->
  with_defaults defaults dord env = env ++ filter (unconfigured env) (range_map defaults dord).
Proof.
  intros ND P. unfold with_defaults.
  rewrite <- (app_nil_r env) at 1. rewrite fold_add_default.
  - reflexivity.
  - apply range_map_keys_nodup; assumption.
  - intros k [].
Qed.

Lemma nodup_app_intro {A} (a b : list A) :
  NoDup a -> NoDup b -> (forall x, In x a -> ~ In x b) -> NoDup (a ++ b).
Proof.
  induction a as [|x a IH]; simpl; intros Na Nb Dis; [exact Nb|].
  inversion Na as [|? ? Nin Na']; subst. constructor.
  - intro H. apply in_app_or in H. destruct H as [H|H]; [contradiction|].
    apply (Dis x); [left; reflexivity|exact H].
  - apply IH; [exact Na'|exact Nb|]. intros y Hy. apply Dis. right. exact Hy.
Qed.

Lemma nodup_map_filter {A B} (g : A -> B) (f : A -> bool) (l : list A) :
  NoDup (List.map g l) -> NoDup (List.map g (filter f l)).
Proof.
  induction l as [|x l IH]; simpl; intro ND; [constructor|].
  inversion ND as [|? ? Nin ND']; subst.
  destruct (f x); simpl; [|apply IH; exact ND'].
  constructor; [|apply IH; exact ND'].
  intro H. apply Nin. apply in_map_iff in H. destruct H as [y [E Hy]].
  apply filter_In in Hy. apply in_map_iff. exists y. tauto.
Qed.

Lemma effective_keys_nodup defaults env :
  NoDup (akeys env) -> NoDup (akeys defaults) -> NoDup (akeys (effective_env defaults env)).
Proof.
  intros NE ND. unfold effective_env. rewrite akeys_app.
  apply nodup_app_intro; [exact NE|apply nodup_map_filter; exact ND|].
  intros k Hk Hf. unfold akeys in Hf. apply in_map_iff in Hf. destruct Hf as [[k' v] [E Hy]].
  simpl in E. subst k'. apply filter_In in Hy. destruct Hy as [_ Hu].
  unfold unconfigured in Hu. simpl in Hu.
  destruct (alookup k env) eqn:El; [discriminate|]. apply alookup_none in El. contradiction.
Qed.

Lemma env_entry_spec kv : env_entry kv = spec_env_entry kv.
Proof. reflexivity. Qed.

Lemma default_env_nodup : NoDup (akeys default_env).
Proof. vm_compute. repeat constructor; simpl; intuition discriminate. Qed.

Lemma sid_inj (l : list string) : forall x y, In x l -> In y l -> sid x = sid y -> x = y.
Proof. intros x y _ _ H. exact H. Qed.

Lemma render_env_ok env dord ord :
  NoDup (akeys env) ->
  Permutation dord (akeys default_env) ->
  Permutation ord (akeys (with_defaults default_env dord env)) ->
  EnvOk default_env env (render_env default_env dord env ord).
Proof.
  intros NE Pd Po. unfold render_env, EnvOk.
  split; [apply (isort_sorted (fun s => s))|].
  rewrite <- (isort_perm (fun s => s)).
  apply Permutation_map.
  assert (Ew := with_defaults_eq default_env dord env default_env_nodup Pd).
  assert (Pw : Permutation (with_defaults default_env dord env) (effective_env default_env env)).
  { rewrite Ew. unfold effective_env. apply Permutation_app_head. apply filter_perm.
    apply range_map_perm; [apply default_env_nodup|exact Pd]. }
  assert (Nw : NoDup (akeys (with_defaults default_env dord env))).
  { eapply Permutation_NoDup; [apply Permutation_sym; unfold akeys; apply Permutation_map; exact Pw|].
    apply effective_keys_nodup; [exact NE|apply default_env_nodup]. }
  etransitivity; [apply range_map_perm; assumption|exact Pw].
Qed.

(* two outputs meeting the specification are equal: the rendered environment
   does not depend on any iteration order *)
Lemma env_ok_unique defaults env out out' :
  EnvOk defaults env out -> EnvOk defaults env out' -> out = out'.
Proof.
  intros [S P] [S' P'].
  apply (sorted_perm_unique sid); try assumption.
  - apply sid_inj.
  - etransitivity; [exact P|apply Permutation_sym; exact P'].
Qed.

Lemma render_env_full env dord ord :
  NoDup (akeys env) ->
  Permutation dord (akeys default_env) ->
  Permutation ord (akeys (with_defaults default_env dord env)) ->
  EnvOk default_env env (render_env default_env dord env ord) /\
  (forall dord' ord', Permutation dord' (akeys default_env) ->
     Permutation ord' (akeys (with_defaults default_env dord' env)) ->
     render_env default_env dord' env ord' = render_env default_env dord env ord) /\
  env_entry_format = "%s=%s".
Proof.
  intros NE Pd Po. split; [apply render_env_ok; assumption|]. split; [|reflexivity].
  intros dord' ord' Pd' Po'. eapply env_ok_unique; apply render_env_ok; assumption.
Qed.

Lemma env_ok_b_iff defaults env out : env_ok_b defaults env out = true <-> EnvOk defaults env out.
Proof.
  unfold env_ok_b, EnvOk. rewrite andb_true_iff, sortedb_iff.
  rewrite (list_eqb_spec String.eqb String.eqb_eq). split; intros [S H]; (split; [exact S|]).
  - rewrite (isort_perm sid out), H. apply Permutation_sym, isort_perm.
  - apply (isort_unique_of_perm sid); [apply sid_inj|exact H].
Qed.
Lemma env_tags_iff defaults env out : env_tags defaults env out = [] <-> EnvOk defaults env out.
Proof.
  rewrite <- env_ok_b_iff. unfold env_tags. destruct (env_ok_b defaults env out).
  - tauto.
  - split; [|discriminate]. destruct (negb _); [discriminate|]. destruct (negb _); discriminate.
Qed.

(* ---- index ---------------------------------------------------------------------- *)
Lemma sorted_map_key {A B} (f : A -> B) (ka : A -> string) (kb : B -> string) (l : list A) :
  (forall x, kb (f x) = ka x) -> StronglySorted (kle ka) l -> StronglySorted (kle kb) (List.map f l).
Proof.
  intros E. induction 1 as [|x l S IH F]; simpl; constructor; [exact IH|].
  apply Forall_map. eapply Forall_impl; [|exact F]. intros y Hy. unfold kle in *. rewrite !E. exact Hy.
Qed.

Lemma fst_inj_of_nodup {V} (l : list (string * V)) :
  NoDup (akeys l) -> forall x y, In x l -> In y l -> fst x = fst y -> x = y.
Proof.
  intros ND [k v] [k' v'] Hx Hy E. simpl in E. subst k'.
  apply (in_alookup_nodup _ _ _ ND) in Hx. apply (in_alookup_nodup _ _ _ ND) in Hy. congruence.
Qed.

Lemma generate_index_ok {D} (imgs : list (string * D)) ord :
  NoDup (akeys imgs) -> Permutation ord (akeys imgs) ->
  IndexOk to_oci_platform imgs (generate_index imgs ord) /\
  (forall ord', Permutation ord' (akeys imgs) -> generate_index imgs ord' = generate_index imgs ord) /\
  List.length (generate_index imgs ord) = List.length imgs /\
  oci_platform_os = expected_os.
Proof.
  intros ND P. assert (Pr := range_map_perm imgs ord ND P).
  split; [|split; [|split]].
  - unfold IndexOk, generate_index. split; [|split].
    + eapply sorted_map_key; [|apply (isort_sorted fst)]. reflexivity.
    + rewrite map_map. simpl.
      rewrite (map_ext _ (fun x => x)); [|intros [k d]; reflexivity]. rewrite map_id.
      rewrite <- (isort_perm fst). exact Pr.
    + apply Forall_map. apply Forall_forall. intros [k d] _. simpl.
      split; [destruct (to_oci_platform k); reflexivity|reflexivity].
  - intros ord' P'. unfold generate_index. f_equal.
    apply (isort_unique_of_perm fst).
    + apply fst_inj_of_nodup. apply range_map_keys_nodup; assumption.
    + etransitivity; [apply range_map_perm; assumption|apply Permutation_sym; exact Pr].
  - unfold generate_index. rewrite map_length.
    rewrite <- (Permutation_length (isort_perm fst _)). apply Permutation_length. exact Pr.
  - reflexivity.
Qed.

(* ---- platform table: finite, decided over the whole generated tables --------- *)
Definition pair_eqb (a b : string * string) : bool := String.eqb (fst a) (fst b) && String.eqb (snd a) (snd b).
Lemma pair_eqb_eq a b : pair_eqb a b = true <-> a = b.
Proof.
  destruct a, b. unfold pair_eqb. simpl. rewrite andb_true_iff, !String.eqb_eq. split; [intros []; congruence|].
  intro H. inversion H. auto.
Qed.

(* every string the code or the specification knows as an architecture name *)
Definition known_arch_names : list string :=
  all_archs ++ List.map fst parse_arch_table ++ List.map snd parse_arch_table ++
  List.map fst to_apk_table ++ List.map snd to_apk_table ++ List.map fst oci_platform_table ++
  List.map fst apk_names ++ List.map snd apk_names.

Definition platform_row_ok (s : string) : bool :=
  pair_eqb (to_oci_platform (parse_architecture s)) (expected_platform s) &&
  pair_eqb (to_oci_platform s) (expected_platform s) &&
  String.eqb (parse_architecture s) (spec_canonical s) &&
  mem_s (spec_canonical s) all_archs &&
  String.eqb (parse_architecture (to_apk s)) (spec_canonical s) &&
  mem_s (to_apk s) (List.map fst apk_names).

Lemma platform_table_ok : forall s, In s known_arch_names ->
  to_oci_platform (parse_architecture s) = expected_platform s /\
  to_oci_platform s = expected_platform s /\
  parse_architecture s = spec_canonical s /\
  In (spec_canonical s) all_archs /\
  parse_architecture (to_apk s) = spec_canonical s /\
  In (to_apk s) (List.map fst apk_names).
Proof.
  assert (H : forallb platform_row_ok known_arch_names = true) by (vm_compute; reflexivity).
  rewrite forallb_forall in H. intros s Hs. specialize (H s Hs).
  unfold platform_row_ok in H. rewrite !andb_true_iff in H.
  destruct H as [[[[[H1 H2] H3] H4] H5] H6].
  apply pair_eqb_eq in H1, H2. apply String.eqb_eq in H3, H5.
  unfold mem_s in H4, H6. apply existsb_exists in H4, H6.
  destruct H4 as [x [Hx Ex]], H6 as [y [Hy Ey]]. apply String.eqb_eq in Ex, Ey. subst x y. tauto.
Qed.

Lemma platform_table_covers :
  (forall a, In a all_archs -> In a known_arch_names /\ spec_canonical a = a /\
      exists apk, In (apk, a) apk_names) /\
  (forall apk oci, In (apk, oci) apk_names -> In apk known_arch_names /\ In oci all_archs) /\
  oci_platform_os = expected_os.
Proof.
  split; [|split; [|reflexivity]].
  - assert (H : forallb (fun a => mem_s a known_arch_names && String.eqb (spec_canonical a) a &&
                                  existsb (fun p => String.eqb (snd p) a) apk_names) all_archs = true)
      by (vm_compute; reflexivity).
    rewrite forallb_forall in H. intros a Ha. specialize (H a Ha).
    rewrite !andb_true_iff in H. destruct H as [[H1 H2] H3].
    unfold mem_s in H1. apply existsb_exists in H1. destruct H1 as [x [Hx Ex]]. apply String.eqb_eq in Ex. subst x.
    apply String.eqb_eq in H2. apply existsb_exists in H3. destruct H3 as [[apk o] [Hp Ep]].
    simpl in Ep. apply String.eqb_eq in Ep. subst o. split; [exact Hx|]. split; [exact H2|]. exists apk. exact Hp.
  - assert (H : forallb (fun p => mem_s (fst p) known_arch_names && mem_s (snd p) all_archs) apk_names = true)
      by (vm_compute; reflexivity).
    rewrite forallb_forall in H. intros apk oci Hin. specialize (H _ Hin). cbn [fst snd] in H.
    rewrite andb_true_iff in H. destruct H as [H1 H2]. unfold mem_s in *.
    apply existsb_exists in H1, H2. destruct H1 as [x [Hx Ex]], H2 as [y [Hy Ey]].
    apply String.eqb_eq in Ex, Ey. subst. tauto.
Qed.

(* ---- config mapping ----------------------------------------------------------- *)
Lemma alookup_aset {V} k k' (v : V) m :
  alookup k (aset k' v m) = if String.eqb k k' then Some v else alookup k m.
Proof.
  induction m as [|[k2 v2] m IH]; simpl.
  - destruct (String.eqb k k'); reflexivity.
  - destruct (String.eqb_spec k' k2) as [->|N]; simpl.
    + destruct (String.eqb k k2); reflexivity.
    + destruct (String.eqb_spec k k2) as [->|N2].
      * destruct (String.eqb_spec k2 k'); [congruence|reflexivity].
      * exact IH.
Qed.

Lemma labels_lookup rfc ic created k :
  alookup k (vcs_annotations rfc image_annotation_stores (ic_vcs_url ic) created (ic_annotations ic)) =
  expected_label rfc ic created k.
Proof.
  unfold vcs_annotations, expected_label.
  change (key_of_store "url" image_annotation_stores) with source_key.
  change (key_of_store "hash" image_annotation_stores) with revision_key.
  change (key_of_store "created.Format(time.RFC3339)" image_annotation_stores) with created_key.
  change vcs_separator with "@"%char.
  rewrite alookup_aset. destruct (String.eqb k created_key); [reflexivity|].
  destruct (nonempty (ic_vcs_url ic)); [|reflexivity].
  destruct (cut_at "@" (ic_vcs_url ic)) as [[url hash]|]; [|reflexivity].
  rewrite !alookup_aset. reflexivity.
Qed.

Lemma index_labels_lookup rfc ic created k :
  alookup k (index_annotations rfc (ic_vcs_url ic) created (ic_annotations ic)) =
  expected_label rfc ic created k.
Proof.
  unfold index_annotations, vcs_annotations, expected_label.
  change (key_of_store "url" index_annotation_stores) with source_key.
  change (key_of_store "hash" index_annotation_stores) with revision_key.
  change (key_of_store "created.Format(time.RFC3339)" index_annotation_stores) with created_key.
  change vcs_separator with "@"%char.
  rewrite alookup_aset. destruct (String.eqb k created_key); [reflexivity|].
  destruct (nonempty (ic_vcs_url ic)); [|reflexivity].
  destruct (cut_at "@" (ic_vcs_url ic)) as [[url hash]|]; [|reflexivity].
  rewrite !alookup_aset. reflexivity.
Qed.

Definition shlex_failed (shlex : string -> option (list string)) (ic : image_config) : Prop :=
  (nonempty (ic_shell_fragment ic) = false /\ nonempty (ic_command ic) = true /\ shlex (ic_command ic) = None) \/
  (nonempty (ic_cmd ic) = true /\ shlex (ic_cmd ic) = None).

Lemma split_or_cases shlex s d :
  (exists l, split_or shlex s d = Ok l /\ WordsOk shlex s d l) \/
  (split_or shlex s d = Err /\ nonempty s = true /\ shlex s = None).
Proof.
  unfold split_or, WordsOk. destruct (nonempty s).
  - destruct (shlex s) as [l|]; [left; exists l; auto|right; auto].
  - left. exists d. auto.
Qed.

Lemma build_config_core_mirrors shlex rfc base ic created arch dord eord :
  NoDup (akeys (ic_env ic)) ->
  Permutation dord (akeys default_env) ->
  Permutation eord (akeys (with_defaults default_env dord (ic_env ic))) ->
  match build_config_core shlex rfc base ic created arch dord eord with
  | Ok cfg => ConfigMirrors shlex rfc (to_oci_platform arch) base ic created cfg
  | Err => shlex_failed shlex ic
  | _ => False
  end.
Proof.
  intros NE Pd Pe. unfold build_config_core.
  assert (Hep : (exists ep,
             (if nonempty (ic_shell_fragment ic)
              then Ok (shell_entrypoint_prefix ++ [ic_shell_fragment ic])
              else split_or shlex (ic_command ic) (oc_entrypoint base)) = Ok ep /\
             (if nonempty (ic_shell_fragment ic)
              then ep = ["/bin/sh"; "-c"; ic_shell_fragment ic]
              else WordsOk shlex (ic_command ic) (oc_entrypoint base) ep)) \/
           ((if nonempty (ic_shell_fragment ic)
              then Ok (shell_entrypoint_prefix ++ [ic_shell_fragment ic])
              else split_or shlex (ic_command ic) (oc_entrypoint base)) = Err /\
             nonempty (ic_shell_fragment ic) = false /\ nonempty (ic_command ic) = true /\ shlex (ic_command ic) = None)).
  { destruct (nonempty (ic_shell_fragment ic)).
    - left. eexists. split; reflexivity.
    - destruct (split_or_cases shlex (ic_command ic) (oc_entrypoint base)) as [[l [E W]]|[E [N S]]].
      + left. exists l. auto.
      + right. auto. }
  destruct Hep as [[ep [Eep Wep]]|[Eep F]].
  2:{ rewrite Eep. simpl. left. exact F. }
  rewrite Eep. simpl.
  destruct (split_or_cases shlex (ic_cmd ic) (oc_cmd base)) as [[l [E W]]|[E [N S]]].
  2:{ rewrite E. simpl. right. auto. }
  rewrite E. simpl.
  constructor; simpl; try reflexivity.
  - exact Wep.
  - exact W.
  - apply render_env_ok; assumption.
  - intro k. apply labels_lookup.
  - destruct (to_oci_platform arch); reflexivity.
Qed.

Lemma copy_for_build_fields ic :
  ic_shell_fragment (copy_for_build ic) = ic_shell_fragment ic /\
  ic_command (copy_for_build ic) = ic_command ic /\
  ic_cmd (copy_for_build ic) = ic_cmd ic /\
  ic_env (copy_for_build ic) = ic_env ic.
Proof. unfold copy_for_build. destruct merge_into_copies_vcs_url; repeat split; reflexivity. Qed.

Lemma build_config_mirrors shlex rfc base ic created arch dord eord :
  NoDup (akeys (ic_env ic)) ->
  Permutation dord (akeys default_env) ->
  Permutation eord (akeys (with_defaults default_env dord (ic_env ic))) ->
  match build_config shlex rfc base ic created arch dord eord with
  | Ok cfg => ConfigMirrors shlex rfc (to_oci_platform arch) base (copy_for_build ic) created cfg
  | Err => shlex_failed shlex ic
  | _ => False
  end.
Proof.
  intros NE Pd Pe. unfold build_config.
  destruct (copy_for_build_fields ic) as [F1 [F2 [F3 F4]]].
  assert (H := build_config_core_mirrors shlex rfc base (copy_for_build ic) created arch dord eord).
  rewrite F4 in H. specialize (H NE Pd Pe).
  destruct (build_config_core shlex rfc base (copy_for_build ic) created arch dord eord); try exact H.
  all: unfold shlex_failed in *; rewrite F1, F2, F3 in H; exact H.
Qed.

(* the VCS URL has a revision to record *)
Definition vcs_has_revision (ic : image_config) : bool :=
  nonempty (ic_vcs_url ic) && has_char "@"%char (ic_vcs_url ic).

Lemma expected_label_copy rfc ic created k :
  vcs_has_revision ic = false ->
  expected_label rfc (copy_for_build ic) created k = expected_label rfc ic created k.
Proof.
  unfold copy_for_build. destruct merge_into_copies_vcs_url; [reflexivity|].
  unfold vcs_has_revision, expected_label. cbn [erase_vcs ic_vcs_url ic_annotations].
  intro H. change (nonempty "") with false. cbv iota.
  destruct (nonempty (ic_vcs_url ic)); [|reflexivity]. simpl in H.
  apply cut_at_none in H. rewrite H. reflexivity.
Qed.

Lemma mirrors_copy shlex rfc plat base ic created cfg :
  vcs_has_revision ic = false ->
  ConfigMirrors shlex rfc plat base (copy_for_build ic) created cfg ->
  ConfigMirrors shlex rfc plat base ic created cfg.
Proof.
  intros Hv [He Hc Hw Hu Hs Hvol Henv Hl Hcr Hp Hos].
  constructor; try assumption.
  all: intro k; rewrite <- (expected_label_copy rfc ic created k Hv); apply Hl.
Qed.

Lemma build_config_mirrors_partial shlex rfc base ic created arch dord eord :
  NoDup (akeys (ic_env ic)) ->
  Permutation dord (akeys default_env) ->
  Permutation eord (akeys (with_defaults default_env dord (ic_env ic))) ->
  match build_config shlex rfc base ic created arch dord eord with
  | Ok cfg => ConfigMirrors shlex rfc (to_oci_platform arch) base (copy_for_build ic) created cfg /\
              (vcs_has_revision ic = false ->
               ConfigMirrors shlex rfc (to_oci_platform arch) base ic created cfg)
  | Err => shlex_failed shlex ic
  | _ => False
  end.
Proof.
  intros NE Pd Pe. assert (H := build_config_mirrors shlex rfc base ic created arch dord eord NE Pd Pe).
  destruct (build_config shlex rfc base ic created arch dord eord); try exact H.
  split; [exact H|]. intro Hv. apply mirrors_copy; assumption.
Qed.

Definition refuting_ic : image_config :=
  {| ic_shell_fragment := ""; ic_command := ""; ic_cmd := ""; ic_workdir := ""; ic_run_as := "";
     ic_stop_signal := ""; ic_volumes := []; ic_env := []; ic_annotations := [];
     ic_vcs_url := "https://github.com/o/r@abc" |}.

Lemma build_config_mirrors_refuted :
  merge_into_copies_vcs_url = false ->
  exists shlex rfc base ic created arch dord eord cfg,
    NoDup (akeys (ic_env ic)) /\
    Permutation dord (akeys default_env) /\
    Permutation eord (akeys (with_defaults default_env dord (ic_env ic))) /\
    build_config shlex rfc base ic created arch dord eord = Ok cfg /\
    alookup revision_key (oc_labels cfg) = None /\
    ~ ConfigMirrors shlex rfc (to_oci_platform arch) base ic created cfg.
Proof.
  intro Flag.
  exists (fun _ => None), (fun _ => "T"), empty_config, refuting_ic, 0%Z, "amd64",
    (akeys default_env), (akeys (with_defaults default_env (akeys default_env) [])).
  exists (match build_config_core (fun _ => None) (fun _ => "T") empty_config (erase_vcs refuting_ic) 0%Z "amd64"
                  (akeys default_env) (akeys (with_defaults default_env (akeys default_env) [])) with
          | Ok c => c | _ => empty_config end).
  split; [constructor|]. split; [reflexivity|]. split; [reflexivity|].
  split; [unfold build_config, copy_for_build; rewrite Flag; vm_compute; reflexivity|].
  split; [vm_compute; reflexivity|].
  intros [_ _ _ _ _ _ _ Hl _ _ _]. specialize (Hl revision_key). vm_compute in Hl. discriminate.
Qed.

Lemma build_config_mirrors_full shlex rfc base ic created arch dord eord :
  merge_into_copies_vcs_url = true ->
  NoDup (akeys (ic_env ic)) ->
  Permutation dord (akeys default_env) ->
  Permutation eord (akeys (with_defaults default_env dord (ic_env ic))) ->
  match build_config shlex rfc base ic created arch dord eord with
  | Ok cfg => ConfigMirrors shlex rfc (to_oci_platform arch) base ic created cfg
  | Err => shlex_failed shlex ic
  | _ => False
  end.
Proof.
  intros Flag NE Pd Pe.
  assert (H := build_config_mirrors shlex rfc base ic created arch dord eord NE Pd Pe).
  unfold copy_for_build in H. rewrite Flag in H. exact H.
Qed.

(* the validator decides the specification *)
Lemma tag_if_app_nil b t rest : tag_if (negb b) t ++ rest = [] <-> (b = true /\ rest = []).
Proof. destruct b; simpl; split; try tauto; try discriminate. intros [H _]. discriminate. Qed.

Lemma words_ok_b_iff shlex s d out : words_ok_b shlex s d out = true <-> WordsOk shlex s d out.
Proof.
  unfold words_ok_b, WordsOk. destruct (nonempty s).
  - destruct (shlex s) as [l|]; simpl; [|split; discriminate].
    rewrite (list_eqb_spec String.eqb String.eqb_eq). split; congruence.
  - apply (list_eqb_spec String.eqb String.eqb_eq).
Qed.

Lemma incl_b_iff a b : incl_b a b = true <-> (forall x, In x a -> In x b).
Proof.
  unfold incl_b. rewrite forallb_forall. split; intros H x Hx; specialize (H x Hx).
  - unfold mem_s in H. apply existsb_exists in H. destruct H as [y [Hy E]]. apply String.eqb_eq in E. subst. exact Hy.
  - unfold mem_s. apply existsb_exists. exists x. split; [exact H|apply String.eqb_refl].
Qed.

Lemma option_str_eqb_iff (a b : option string) : option_eqb String.eqb a b = true <-> a = b.
Proof.
  destruct a, b; simpl; try (split; congruence).
  rewrite String.eqb_eq. split; congruence.
Qed.

Lemma labels_check_iff rfc ic created cfg :
  forallb (fun k => option_eqb String.eqb (alookup k (oc_labels cfg)) (expected_label rfc ic created k))
          (label_keys ic cfg) = true <->
  (forall k, alookup k (oc_labels cfg) = expected_label rfc ic created k).
Proof.
  rewrite forallb_forall. split.
  - intros H k. destruct (in_dec string_dec k (label_keys ic cfg)) as [I|N].
    + apply option_str_eqb_iff. apply H. exact I.
    + unfold label_keys in N.
      assert (N1 : k <> created_key) by (intro; subst; apply N; simpl; auto).
      assert (N2 : k <> revision_key) by (intro; subst; apply N; simpl; auto).
      assert (N3 : k <> source_key) by (intro; subst; apply N; simpl; auto).
      assert (N4 : ~ In k (akeys (ic_annotations ic))).
      { intro I. apply N. simpl. right. right. right. apply in_or_app. left. exact I. }
      assert (N5 : ~ In k (akeys (oc_labels cfg))).
      { intro I. apply N. simpl. right. right. right. apply in_or_app. right. exact I. }
      apply alookup_none in N4, N5. rewrite N5. unfold expected_label.
      apply String.eqb_neq in N1, N2, N3. rewrite N1.
      destruct (if nonempty (ic_vcs_url ic) then cut_at "@" (ic_vcs_url ic) else None) as [[u h]|];
        [rewrite N2, N3|]; symmetry; exact N4.
  - intros H k _. apply option_str_eqb_iff. apply H.
Qed.

Lemma labels_tags_iff rfc ic created cfg :
  labels_tags rfc ic created cfg = [] <->
  (forall k, alookup k (oc_labels cfg) = expected_label rfc ic created k).
Proof.
  rewrite <- labels_check_iff. unfold labels_tags, labels_ok_b.
  destruct (forallb _ (label_keys ic cfg)); [tauto|].
  split; [|discriminate]. destruct (forallb _ _); discriminate.
Qed.

Lemma config_tags_iff shlex rfc plat base ic created cfg :
  config_tags shlex rfc plat base ic created cfg = [] <->
  ConfigMirrors shlex rfc plat base ic created cfg.
Proof.
  unfold config_tags.
  rewrite !tag_if_app_nil.
  assert (Happ : forall (a b : list string), a ++ b = [] <-> a = [] /\ b = []).
  { intros a b. split; [apply app_eq_nil|intros [-> ->]; reflexivity]. }
  rewrite Happ, env_tags_iff, Happ, labels_tags_iff, !tag_if_app_nil.
  assert (Hlast : forall b t, tag_if (negb b) t = [] <-> b = true).
  { intros b t. destruct b; simpl; split; congruence. }
  rewrite Hlast.
  rewrite !andb_true_iff, !String.eqb_eq, Z.eqb_eq, !incl_b_iff, words_ok_b_iff.
  split.
  - intros [He [Hc [Hw [Hu [Hs [[Hv1 Hv2] [Henv [Hl [Hcr [[Ha Hv] Hos]]]]]]]]]].
    constructor; try assumption.
    + destruct (nonempty (ic_shell_fragment ic)).
      * apply (list_eqb_spec String.eqb String.eqb_eq). exact He.
      * apply words_ok_b_iff. exact He.
    + intro v. split; [apply Hv1|apply Hv2].
    + destruct plat; simpl in *; congruence.
  - intros [He Hc Hw Hu Hs Hv Henv Hl Hcr Hp Hos].
    refine (conj _ (conj Hc (conj Hw (conj Hu (conj Hs (conj (conj _ _) (conj Henv (conj Hl (conj Hcr (conj (conj _ _) Hos)))))))))).
    + destruct (nonempty (ic_shell_fragment ic)).
      * apply (list_eqb_spec String.eqb String.eqb_eq). exact He.
      * apply words_ok_b_iff. exact He.
    + intros x. apply Hv.
    + intros x. apply Hv.
    + rewrite <- Hp. reflexivity.
    + rewrite <- Hp. reflexivity.
Qed.

(* ---- bundle completeness -------------------------------------------------------- *)
Lemma bundle_complete_partial ntags : forall archs,
  ntags <> 0 -> NoDup (List.map bundle_key archs) -> BundleComplete (bundle_included ntags archs).
Proof.
  intros archs Hn. induction archs as [|a archs IH]; simpl; intro ND; [constructor|].
  inversion ND as [|? ? Nin ND']; subst. constructor; [|apply IH; exact ND'].
  apply andb_true_iff. split.
  - apply negb_true_iff. apply Nat.eqb_neq. exact Hn.
  - apply negb_true_iff. destruct (existsb (String.eqb (bundle_key a)) (List.map bundle_key archs)) eqn:E; [|reflexivity].
    exfalso. apply existsb_exists in E. destruct E as [x [Hx Ex]]. apply String.eqb_eq in Ex. subst x. contradiction.
Qed.

Lemma bundle_complete_refuted :
  bundle_key_includes_variant = false ->
  exists ntags archs, ntags <> 0 /\ incl archs all_archs /\ NoDup archs /\
    ~ BundleComplete (bundle_included ntags archs) /\
    bundle_included ntags archs = [false; true].
Proof.
  intro Flag. exists 1, ["arm/v6"; "arm/v7"]. split; [discriminate|]. split.
  - intros x [<-|[<-|[]]]; vm_compute; tauto.
  - split; [repeat constructor; simpl; intuition discriminate|].
    assert (E : bundle_included 1 ["arm/v6"; "arm/v7"] = [false; true]).
    { unfold bundle_included, bundle_key. rewrite Flag. vm_compute. reflexivity. }
    split; [|exact E]. rewrite E. intro H. inversion H as [|? ? Hb _]. discriminate.
Qed.

Lemma nodup_map_inj_on {A B} (f : A -> B) (dom l : list A) :
  (forall x y, In x dom -> In y dom -> f x = f y -> x = y) ->
  incl l dom -> NoDup l -> NoDup (List.map f l).
Proof.
  intros Inj. induction l as [|x l IH]; simpl; intros Hin ND; [constructor|].
  inversion ND as [|? ? Nin ND']; subst. constructor.
  - intro H. apply in_map_iff in H. destruct H as [y [E Hy]].
    assert (y = x) by (apply Inj; [apply Hin; right; exact Hy|apply Hin; left; reflexivity|exact E]).
    subst. contradiction.
  - apply IH; [intros y Hy; apply Hin; right; exact Hy|exact ND'].
Qed.

Lemma bundle_key_with_variant_injective :
  forall x y, In x all_archs -> In y all_archs -> bundle_key_with true x = bundle_key_with true y -> x = y.
Proof.
  assert (H : forallb (fun x => forallb (fun y =>
              implb (String.eqb (bundle_key_with true x) (bundle_key_with true y)) (String.eqb x y)) all_archs) all_archs = true)
    by (vm_compute; reflexivity).
  rewrite forallb_forall in H. intros x y Hx Hy E. specialize (H x Hx). rewrite forallb_forall in H.
  specialize (H y Hy). rewrite E, String.eqb_refl in H. simpl in H. apply String.eqb_eq. exact H.
Qed.

Lemma bundle_complete_full ntags archs :
  bundle_key_includes_variant = true ->
  ntags <> 0 -> NoDup archs -> incl archs all_archs -> BundleComplete (bundle_included ntags archs).
Proof.
  intros Flag Hn ND Hin. apply bundle_complete_partial; [exact Hn|].
  unfold bundle_key. rewrite Flag.
  apply (nodup_map_inj_on _ all_archs); [apply bundle_key_with_variant_injective|exact Hin|exact ND].
Qed.
