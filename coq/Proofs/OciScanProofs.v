(* C12 — the header scan loop of BuildIndex over an abstract tar stream: the offset
   it computes is the offset of the first end-of-archive block. *)
From Apko Require Import Base.Prelude Base.C12Lib Generated.C12Oci Model.Oci Spec.OciSpec Proofs.OciProofs.
Open Scope string_scope. Open Scope list_scope.

Definition WfMember (m : member) : Prop := (1 <= m_hdr m)%Z /\ (0 <= m_size m)%Z.

Lemma padded_spec n : (0 <= n)%Z -> (512 | padded n)%Z /\ (n <= padded n)%Z /\ (padded n < n + 512)%Z.
Proof.
  intro H. unfold padded. split; [apply Z.divide_factor_r|].
  pose proof (Z.div_mod (n + 511) 512). pose proof (Z.mod_pos_bound (n + 511) 512). lia.
Qed.

Lemma member_len_spec m : WfMember m -> (512 | member_len m)%Z /\ (0 < member_len m)%Z.
Proof.
  intros [H1 H2]. destruct (padded_spec _ H2) as (D & L & _). unfold member_len. split.
  - apply Z.divide_add_r; [apply Z.divide_factor_l | exact D].
  - lia.
Qed.

Lemma next_boundary_unique b n o1 o2 : NextBoundary b n o1 -> NextBoundary b n o2 -> o1 = o2.
Proof. intros (D1 & L1 & M1) (D2 & L2 & M2). pose proof (M1 o2 D2 L2). pose proof (M2 o1 D1 L1). lia. Qed.

(* on a block boundary the translated arithmetic is "position + padded size" *)
Lemma append_offset_aligned pos size : (0 <= pos)%Z -> (0 <= size)%Z -> (512 | pos)%Z ->
  append_offset pos size = (pos + padded size)%Z.
Proof.
  intros Hp Hs [k Hk]. destruct (append_offset_next_boundary pos size Hp Hs) as [NB _].
  apply (next_boundary_unique tar_block (pos + size)); [exact NB|].
  destruct (padded_spec size Hs) as ([j Hj] & L & U). unfold tar_block. split; [|split].
  - exists (k + j)%Z. lia.
  - lia.
  - intros m [i ->] Hm. lia.
Qed.

(* ---- one iteration of the loop (the generated body, evaluated symbolically) ------------ *)
Lemma body_member s m t : s_rest s = m :: t ->
  exists s', run_body scan_body s = Cont s' /\ s_rest s' = t /\
    s_pos s' = (s_pos s + s_pend s + 512 * m_hdr m)%Z /\ s_pend s' = padded (m_size m) /\
    ilookup pad_pos_var (s_env s') = s_pos s' /\ ilookup pad_size_var (s_env s') = m_size m.
Proof.
  intro E. destruct s as [rest pos pend cur err env]. cbn [s_rest] in E. subst rest.
  eexists. split; [reflexivity|]. cbn. repeat split.
Qed.

Lemma body_eof s : s_rest s = [] -> exists s', run_body scan_body s = Brk s' /\ s_env s' = s_env s.
Proof.
  intro E. destruct s as [rest pos pend cur err env]. cbn [s_rest] in E. subst rest.
  eexists. split; [reflexivity|]. reflexivity.
Qed.

(* invariant: [off] = offset of the next member = end of everything read so far *)
Lemma scan_loop_inv : forall ms fuel s off,
  Forall WfMember ms -> (List.length ms < fuel)%nat -> s_rest s = ms ->
  (s_pos s + s_pend s = off)%Z -> (512 | off)%Z -> (0 <= off)%Z ->
  (0 <= ilookup pad_pos_var (s_env s))%Z -> (0 <= ilookup pad_size_var (s_env s))%Z ->
  (512 | ilookup pad_pos_var (s_env s))%Z ->
  (ilookup pad_pos_var (s_env s) + padded (ilookup pad_size_var (s_env s)) = off)%Z ->
  exists env, scan_loop fuel s = Ok env /\
    append_offset (ilookup pad_pos_var env) (ilookup pad_size_var env) = (off + stream_len ms)%Z.
Proof.
  induction ms as [|m ms IH]; intros fuel s off W F R P D N Pp Ps Dp I;
    (destruct fuel as [|fuel]; [simpl in F; lia|]); cbn [scan_loop].
  - destruct (body_eof s R) as (s' & -> & Ee). exists (s_env s'). split; [reflexivity|].
    rewrite Ee. rewrite append_offset_aligned by assumption. cbn [stream_len]. lia.
  - pose proof (Forall_inv W) as Wm. pose proof (Forall_inv_tail W) as W'. destruct (body_member s m ms R) as (s' & -> & R' & P' & Pe' & Ep & Es).
    destruct Wm as [H1 H2]. destruct (padded_spec _ H2) as (Dm & Lm & _).
    destruct (IH fuel s' (off + member_len m)%Z W') as (env & A & B).
    + simpl in F. lia.
    + exact R'.
    + rewrite P', Pe'. unfold member_len. lia.
    + apply Z.divide_add_r; [exact D | apply member_len_spec; split; assumption].
    + pose proof (member_len_spec m (conj H1 H2)). lia.
    + rewrite Ep, P'. lia.
    + rewrite Es. exact H2.
    + rewrite Ep, P'. rewrite P. apply Z.divide_add_r; [exact D | apply Z.divide_factor_l].
    + rewrite Ep, Es, P'. unfold member_len. lia.
    + exists env. split; [exact A|]. rewrite B. cbn [stream_len]. lia.
Qed.

(* FULL STATEMENT: for every member list (any number of members, any header extension
   blocks, any sizes) the offset BuildIndex seeks to is the offset of the first
   end-of-archive block; in particular the scan never fails, panics or runs out of fuel *)
Lemma scan_offset_is_end_of_archive ms : Forall WfMember ms -> scan_offset ms = Ok (stream_len ms).
Proof.
  intro W. unfold scan_offset, scan_start. change scan_rewinds with true. cbv iota.
  destruct (scan_loop_inv ms (S (S (List.length ms)))
              {| s_rest := ms; s_pos := 0; s_pend := 0; s_cur := None; s_err := ENone; s_env := [] |} 0%Z W) as (env & -> & B);
    try reflexivity; try (cbn; lia); try (cbn; apply Z.divide_0_r).
  cbn [rbind]. rewrite B. reflexivity.
Qed.

(* what the reader reports on the way (used by the correspondence with archive/tar) *)
Lemma stream_len_app a b : stream_len (a ++ b) = (stream_len a + stream_len b)%Z.
Proof. induction a as [|m a IH]; cbn [app stream_len]; [reflexivity | rewrite IH; lia]. Qed.

(* without the rewind the scan would see no member at all and the appended data would
   overwrite the archive from its start *)
Lemma no_rewind_offset_zero ms :
  (do env <- scan_loop (S (S (List.length ms)))
       {| s_rest := []; s_pos := stream_len ms + 1024; s_pend := 0; s_cur := None; s_err := ENone; s_env := [] |};
   Ok (append_offset (ilookup pad_pos_var env) (ilookup pad_size_var env))) = Ok 0%Z.
Proof. reflexivity. Qed.
