(* C12 — the header scan loop of BuildIndex over a tar stream of raw header records:
   archive/tar's position bookkeeping per record kind puts the file offset, after each
   Next(), at the start of that member's body; hence the offset BuildIndex computes is
   the offset of the first end-of-archive block. *)
From Apko Require Import Base.Prelude Base.C12Lib Generated.C12Oci Model.Oci Spec.OciSpec Proofs.OciProofs.
Open Scope string_scope. Open Scope list_scope.

Lemma padded_spec n : (0 <= n)%Z -> (512 | padded n)%Z /\ (n <= padded n)%Z /\ (padded n < n + 512)%Z.
Proof.
  intro H. unfold padded. split; [apply Z.divide_factor_r|].
  pose proof (Z.div_mod (n + 511) 512). pose proof (Z.mod_pos_bound (n + 511) 512). lia.
Qed.
Lemma padded_divide n : (512 | padded n)%Z.
Proof. unfold padded. apply Z.divide_factor_r. Qed.

Lemma rec_len_spec r : RawOk r -> (512 | rec_len r)%Z /\ (0 < rec_len r)%Z.
Proof.
  intro W. unfold rec_len, data_len. split.
  - apply Z.divide_add_r; [exists 1%Z; lia|]. destruct (r_kind r); [apply padded_divide|apply Z.divide_0_r|apply padded_divide|apply padded_divide].
  - unfold RawOk in W. destruct (r_kind r); try lia; (assert (0 <= r_size r)%Z as H by lia; destruct (padded_spec _ H) as (_ & L & _); lia).
Qed.

Lemma next_boundary_unique b n o1 o2 : NextBoundary b n o1 -> NextBoundary b n o2 -> o1 = o2.
Proof. intros (D1 & L1 & M1) (D2 & L2 & M2). pose proof (M1 o2 D2 L2). pose proof (M2 o1 D1 L1). lia. Qed.

(* the translated arithmetic on a position [q + extra] with q on a block boundary *)
Lemma append_offset_from_boundary q extra size : (0 <= q)%Z -> (512 | q)%Z -> (0 <= extra)%Z -> (0 <= size)%Z ->
  append_offset (q + extra) size = (q + padded (extra + size))%Z.
Proof.
  intros Hq [k Hk] He Hs. destruct (append_offset_next_boundary (q + extra) size ltac:(lia) Hs) as [NB _].
  apply (next_boundary_unique tar_block (q + extra + size)); [exact NB|].
  destruct (padded_spec (extra + size) ltac:(lia)) as ([j Hj] & L & U). unfold tar_block. split; [|split].
  - exists (k + j)%Z. lia.
  - lia.
  - intros m [i ->] Hm. lia.
Qed.

(* ---- one call of Next(): the position bookkeeping --------------------------------------
   [off] = pos + pend is the offset of the next header record. After a successful call the
   reader stands at the start of the returned member's body (first entry of body_starts),
   and pos + pend is again the offset of the record after that member. *)
Lemma rd_next_spec : forall rs pos pend, Forall RawOk rs ->
  match rd_next rs pos pend with
  | (NHdr z, rest, p, pe) =>
      body_starts (pos + pend) rs = (p, z) :: body_starts (p + pe) rest /\
      (pos + pend + stream_len rs = p + pe + stream_len rest)%Z /\
      (List.length rest < List.length rs)%nat /\ Forall RawOk rest
  | (NEOF, rest, p, pe) => body_starts (pos + pend) rs = [] /\ rest = []
  | (NErr, _, _, _) => False
  end.
Proof.
  induction rs as [|r t IH]; intros pos pend W; [cbn; auto|].
  pose proof (Forall_inv W) as Wr. pose proof (Forall_inv_tail W) as Wt.
  cbn [rd_next body_starts stream_len]. unfold RawOk in Wr. unfold rec_len, data_len.
  destruct (r_kind r) eqn:K.
  - replace (r_size r <? 0)%Z with false by (symmetry; apply Z.ltb_ge; lia).
    (split; [|split; [|split]]; [f_equal; try (f_equal; lia) | lia | cbn; lia | exact Wt]).
  - (split; [|split; [|split]]; [f_equal; try (f_equal; lia) | lia | cbn; lia | exact Wt]).
  - replace (r_size r <? 0)%Z with false by (symmetry; apply Z.ltb_ge; lia).
    replace (max_special_file_size <? r_size r)%Z with false by (symmetry; apply Z.ltb_ge; lia).
    cbn [orb]. specialize (IH (pos + pend + 512 + r_size r)%Z (padded (r_size r) - r_size r)%Z Wt).
    replace (pos + pend + 512 + r_size r + (padded (r_size r) - r_size r))%Z with (pos + pend + (512 + padded (r_size r)))%Z in IH by lia.
    destruct (rd_next t (pos + pend + 512 + r_size r) (padded (r_size r) - r_size r)) as [[[res rest] p] pe].
    destruct res; [|exact IH|exact IH].
    destruct IH as (B & L & N & Wr'). (split; [|split; [|split]]; [exact B | lia | cbn; lia | exact Wr']).
  - replace (r_size r <? 0)%Z with false by (symmetry; apply Z.ltb_ge; lia).
    replace (max_special_file_size <? r_size r)%Z with false by (symmetry; apply Z.ltb_ge; lia).
    cbn [orb]. (split; [|split; [|split]]; [f_equal; try (f_equal; lia) | lia | cbn; lia | exact Wt]).
Qed.

(* the observable bookkeeping: after the i-th successful Next() the file offset is the start
   of the i-th member's body, for every stream *)
Lemma reader_trace_from_spec : forall fuel rs pos pend, Forall RawOk rs -> (List.length rs < fuel)%nat ->
  reader_trace_from fuel rs pos pend = body_starts (pos + pend) rs.
Proof.
  induction fuel as [|fuel IH]; intros rs pos pend W F; [lia|].
  cbn [reader_trace_from]. pose proof (rd_next_spec rs pos pend W) as S1.
  destruct (rd_next rs pos pend) as [[[res rest] p] pe]. destruct res.
  - destruct S1 as (B & _ & N & W'). rewrite B. f_equal. apply IH; [exact W'|lia].
  - destruct S1 as [B _]. rewrite B. reflexivity.
  - contradiction.
Qed.

Lemma reader_trace_spec rs : Forall RawOk rs -> reader_trace rs = body_starts 0 rs.
Proof. intro W. unfold reader_trace. apply (reader_trace_from_spec _ rs 0%Z 0%Z W). lia. Qed.

(* ---- one iteration of the loop (the generated body, evaluated symbolically) ------------ *)
Lemma body_iteration s : Forall RawOk (s_rest s) ->
  match rd_next (s_rest s) (s_pos s) (s_pend s) with
  | (NHdr z, rest, p, pe) =>
      exists s', run_body scan_body s = Cont s' /\ s_rest s' = rest /\ s_pos s' = p /\ s_pend s' = pe /\
        ilookup pad_pos_var (s_env s') = p /\ ilookup pad_size_var (s_env s') = z
  | (NEOF, _, _, _) => exists s', run_body scan_body s = Brk s' /\ s_env s' = s_env s
  | (NErr, _, _, _) => False
  end.
Proof.
  intro W. pose proof (rd_next_spec _ (s_pos s) (s_pend s) W) as S1.
  destruct s as [rest0 pos pend cur err env]. cbn [s_rest s_pos s_pend] in *.
  destruct (rd_next rest0 pos pend) as [[[res rest] p] pe] eqn:E. destruct res.
  - eexists. split; [cbn; rewrite E; reflexivity|]. cbn. repeat split.
  - eexists. split; [cbn; rewrite E; reflexivity|]. reflexivity.
  - exact S1.
Qed.

Lemma last_cons_default {A} : forall (l : list A) x d, List.last (x :: l) d = List.last l x.
Proof.
  induction l as [|y l IH]; intros x d; [reflexivity|].
  change (List.last (x :: y :: l) d) with (List.last (y :: l) d). rewrite !IH. reflexivity.
Qed.

(* the scan ends with the position and size of the LAST member the reader returned
   (or the values it started with when there is none) *)
Lemma scan_loop_last : forall fuel s, Forall RawOk (s_rest s) -> (List.length (s_rest s) < fuel)%nat ->
  exists env, scan_loop fuel s = Ok env /\
    (ilookup pad_pos_var env, ilookup pad_size_var env) =
    List.last (body_starts (s_pos s + s_pend s) (s_rest s)) (ilookup pad_pos_var (s_env s), ilookup pad_size_var (s_env s)).
Proof.
  induction fuel as [|fuel IH]; intros s W F; [lia|].
  cbn [scan_loop]. pose proof (body_iteration s W) as BI. pose proof (rd_next_spec _ (s_pos s) (s_pend s) W) as S1.
  destruct (rd_next (s_rest s) (s_pos s) (s_pend s)) as [[[res rest] p] pe]. destruct res.
  - destruct BI as (s' & -> & R & P & Pe & Ep & Es). destruct S1 as (B & _ & N & W').
    destruct (IH s') as (env & A & L); [rewrite R; exact W'|rewrite R; lia|].
    exists env. split; [exact A|]. rewrite L, R, P, Pe, Ep, Es, B. rewrite last_cons_default. reflexivity.
  - destruct BI as (s' & -> & Ee). destruct S1 as [B _]. exists (s_env s'). split; [reflexivity|].
    rewrite B, Ee. reflexivity.
  - contradiction.
Qed.

(* ---- layout arithmetic: the end of the last member is the end of the stream ------------- *)
Lemma ends_ok_body_nonempty : forall rs off, rs <> [] -> EndsOk rs -> body_starts off rs <> [].
Proof.
  induction rs as [|r t IH]; intros off Hne E; [congruence|].
  cbn [body_starts]. destruct t as [|r2 t].
  - cbn [EndsOk] in E. destruct (r_kind r); try discriminate. contradiction.
  - assert (body_starts (off + rec_len r) (r2 :: t) <> []) by (apply IH; [discriminate|exact E]).
    destruct (r_kind r); try discriminate. assumption.
Qed.

Lemma last_cons_nonempty {A} (x : A) l d : l <> [] -> List.last (x :: l) d = List.last l d.
Proof. destruct l; [congruence|reflexivity]. Qed.

Lemma last_member_end : forall rs off d, rs <> [] -> Forall RawOk rs -> EndsOk rs ->
  (512 | off)%Z -> (0 <= off)%Z ->
  (let '(p, z) := List.last (body_starts off rs) d in append_offset p z) = (off + stream_len rs)%Z.
Proof.
  induction rs as [|r t IH]; intros off d Hne W E D N; [congruence|].
  pose proof (Forall_inv W) as Wr. pose proof (Forall_inv_tail W) as Wt.
  destruct (rec_len_spec r Wr) as [Dr Pr].
  destruct t as [|r2 t].
  - cbn [EndsOk] in E. cbn [body_starts stream_len List.last]. unfold rec_len, data_len in *. unfold RawOk in Wr.
    destruct (r_kind r) eqn:K; cbn [List.last].
    + replace (off + 512)%Z with (off + 512 + 0)%Z by lia.
      rewrite append_offset_from_boundary; try lia. * replace (0 + r_size r)%Z with (r_size r) by lia. lia. * apply Z.divide_add_r; [exact D|exists 1%Z; lia].
    + rewrite E. replace (off + 512)%Z with (off + 512 + 0)%Z by lia.
      rewrite append_offset_from_boundary; try lia. * change (padded (0 + 0)) with 0%Z. lia. * apply Z.divide_add_r; [exact D|exists 1%Z; lia].
    + contradiction.
    + rewrite append_offset_from_boundary; try lia. * rewrite Z.add_0_r. lia. * apply Z.divide_add_r; [exact D|exists 1%Z; lia].
  - assert (NE : body_starts (off + rec_len r) (r2 :: t) <> []) by (apply ends_ok_body_nonempty; [discriminate|exact E]).
    assert (IH' := fun d' => IH (off + rec_len r)%Z d' ltac:(discriminate) Wt E (Z.divide_add_r _ _ _ D Dr) ltac:(lia)).
    change (stream_len (r :: r2 :: t)) with (rec_len r + stream_len (r2 :: t))%Z.
    change (body_starts off (r :: r2 :: t)) with
      (let rest := body_starts (off + rec_len r) (r2 :: t) in
       match r_kind r with KExt => rest | KGlobal => (off + 512 + r_size r, 0)%Z :: rest | _ => (off + 512, r_size r)%Z :: rest end).
    cbv zeta. destruct (r_kind r); rewrite ?(last_cons_nonempty _ _ _ NE), IH'; lia.
Qed.

(* FULL STATEMENT: for every stream of header records archive/tar accepts (any number of
   members, PAX / GNU extension records with any data sizes, global headers, header-only
   members) whose last record is a member whose data is what hdr.Size says, the offset
   BuildIndex seeks to is the offset of the first end-of-archive block; in particular the
   scan never fails, panics or runs out of fuel *)
Lemma scan_offset_is_end_of_archive rs : Forall RawOk rs -> EndsOk rs -> scan_offset rs = Ok (stream_len rs).
Proof.
  intros W E. unfold scan_offset, scan_start. change scan_rewinds with true. cbv iota.
  destruct (scan_loop_last (S (S (List.length rs)))
              {| s_rest := rs; s_pos := 0; s_pend := 0; s_cur := None; s_err := ENone; s_env := [] |} W) as (env & -> & L);
    [cbn; lia|].
  cbn [rbind s_pos s_pend s_rest s_env] in *. f_equal.
  change (0 + 0)%Z with 0%Z in L.
  destruct rs as [|r t]; [cbn [body_starts List.last] in L; apply (f_equal (fun pz => append_offset (fst pz) (snd pz))) in L; cbn [fst snd] in L; rewrite L; reflexivity|].
  pose proof (last_member_end (r :: t) 0%Z (ilookup pad_pos_var [], ilookup pad_size_var []) ltac:(discriminate) W E (Z.divide_0_r _) ltac:(lia)) as M.
  rewrite <- L in M. exact M.
Qed.

Lemma stream_len_app a b : stream_len (a ++ b) = (stream_len a + stream_len b)%Z.
Proof. induction a as [|m a IH]; cbn [app stream_len]; [reflexivity | rewrite IH; lia]. Qed.

(* without the rewind the scan would see no member at all and the appended data would
   overwrite the archive from its start *)
Lemma no_rewind_offset_zero rs :
  (do env <- scan_loop (S (S (List.length rs)))
       {| s_rest := []; s_pos := stream_len rs + 1024; s_pend := 0; s_cur := None; s_err := ENone; s_env := [] |};
   Ok (append_offset (ilookup pad_pos_var env) (ilookup pad_size_var env))) = Ok 0%Z.
Proof. reflexivity. Qed.

(* outside the envelope: a last member of a header-only type whose size field is not zero
   makes the scan overshoot (the bytes hdr.Size counts are not in the archive), and a
   dangling extension header is overwritten *)
Lemma scan_offset_header_only_size :
  scan_offset [{| r_kind := KFile; r_size := 10 |}; {| r_kind := KHeaderOnly; r_size := 100 |}] = Ok 2048%Z /\
  stream_len [{| r_kind := KFile; r_size := 10 |}; {| r_kind := KHeaderOnly; r_size := 100 |}] = 1536%Z /\
  scan_offset [{| r_kind := KFile; r_size := 10 |}; {| r_kind := KExt; r_size := 10 |}] = Ok 1024%Z /\
  stream_len [{| r_kind := KFile; r_size := 10 |}; {| r_kind := KExt; r_size := 10 |}] = 2048%Z.
Proof. vm_compute. repeat split. Qed.
