(* C12 — proofs about the shlex model (Model/OciShlex.v) against Spec/OciShlexSpec.v. *)
From Apko Require Import Base.Prelude Model.OciShlex Spec.OciShlexSpec.
Open Scope string_scope. Open Scope list_scope.

(* ---- strings and character lists ---------------------------------------------------------- *)
Lemma sola_app a b : string_of_list_ascii (a ++ b) = (string_of_list_ascii a ++ string_of_list_ascii b)%string.
Proof. induction a as [|x a IH]; [reflexivity|]. cbn. rewrite IH. reflexivity. Qed.

Lemma word_of_cons c cur : word_of (c :: cur) = (word_of cur ++ String c "")%string.
Proof. unfold word_of. cbn [List.rev]. rewrite sola_app. reflexivity. Qed.

Lemma word_of_nonempty cur : cur <> [] -> word_of cur <> "".
Proof.
  destruct cur as [|c cur]; [congruence|]. intros _. rewrite word_of_cons.
  destruct (word_of cur); discriminate.
Qed.

Lemma word_of_rev w : word_of (List.rev (list_ascii_of_string w)) = w.
Proof. unfold word_of. rewrite rev_involutive. apply string_of_list_ascii_of_string. Qed.

Lemma sapp_nil_r (s : string) : (s ++ "")%string = s.
Proof. induction s as [|c s IH]; [reflexivity|]. cbn. rewrite IH. reflexivity. Qed.
Lemma sapp_assoc' (a b c : string) : ((a ++ b) ++ c = a ++ (b ++ c))%string.
Proof. induction a as [|x a IH]; [reflexivity|]. cbn [append]. rewrite IH. reflexivity. Qed.

(* ---- without quoting characters the tokens are the fields ----------------------------------- *)
Lemma quoting_char_false c : quoting_char c = false ->
  is_dquote c = false /\ is_squote c = false /\ is_escape c = false /\ is_comment c = false.
Proof.
  unfold quoting_char, is_dquote, is_squote, is_escape, is_comment.
  rewrite !orb_false_iff. tauto.
Qed.

Lemma lex_plain : forall u acc,
  all_chars (fun c => negb (quoting_char c)) u = true ->
  lex SStart [] acc u = Some (List.rev acc ++ fields_aux "" u) /\
  (forall cur, cur <> [] -> lex SWord cur acc u = Some (List.rev acc ++ fields_aux (word_of cur) u)).
Proof.
  induction u as [|c u IH]; intros acc H.
  - split; [cbn; rewrite app_nil_r; reflexivity|].
    intros cur Hc. cbn [lex fields_aux]. pose proof (word_of_nonempty cur Hc).
    destruct (word_of cur) eqn:E; [congruence|]. cbn [List.rev]. reflexivity.
  - cbn [all_chars] in H. apply andb_true_iff in H. destruct H as [Hq H].
    apply negb_true_iff in Hq. destruct (quoting_char_false c Hq) as (Q1 & Q2 & Q3 & Q4).
    split.
    + cbn [lex fields_aux]. change (blank c) with (is_space c). rewrite Q1, Q2, Q3, Q4.
      destruct (is_space c).
      * apply IH. exact H.
      * destruct (IH acc H) as [_ IH2]. rewrite (IH2 [c]) by discriminate. reflexivity.
    + intros cur Hc. cbn [lex fields_aux]. change (blank c) with (is_space c). rewrite Q1, Q2, Q3.
      pose proof (word_of_nonempty cur Hc).
      destruct (is_space c).
      * destruct (IH (word_of cur :: acc) H) as [IH1 _]. rewrite IH1.
        destruct (word_of cur) eqn:E; [congruence|]. cbn [List.rev]. rewrite <- app_assoc. reflexivity.
      * destruct (IH acc H) as [_ IH2]. rewrite (IH2 (c :: cur)) by discriminate.
        rewrite word_of_cons. reflexivity.
Qed.

Lemma lex_split_plain u :
  all_chars (fun c => negb (quoting_char c)) u = true -> lex_split u = Some (fields u).
Proof. intro H. destruct (lex_plain u [] H) as [E _]. exact E. Qed.

(* ---- what [fields] is ------------------------------------------------------------------------- *)
Lemma all_chars_app p a b : all_chars p (a ++ b)%string = all_chars p a && all_chars p b.
Proof. induction a as [|c a IH]; [reflexivity|]. cbn. rewrite IH, andb_assoc. reflexivity. Qed.

Lemma fields_aux_plain : forall s cur,
  (cur = "" \/ plain_word cur) -> Forall plain_word (fields_aux cur s).
Proof.
  induction s as [|c s IH]; intros cur Hc; cbn [fields_aux].
  - destruct cur; [constructor|]. destruct Hc as [Hc|Hc]; [discriminate|]. constructor; [exact Hc|constructor].
  - destruct (blank c) eqn:B.
    + destruct cur.
      * apply IH. left; reflexivity.
      * destruct Hc as [Hc|Hc]; [discriminate|]. constructor; [exact Hc|]. apply IH. left; reflexivity.
    + apply IH. right. split.
      * destruct cur; discriminate.
      * rewrite all_chars_app. cbn. rewrite B. cbn. rewrite andb_true_r.
        destruct Hc as [->|[_ Hc]]; [reflexivity|exact Hc].
Qed.

Lemma fields_plain s : Forall plain_word (fields s).
Proof. apply fields_aux_plain. left; reflexivity. Qed.

Lemma fields_aux_word : forall w cur rest,
  all_chars (fun c => negb (blank c)) w = true ->
  fields_aux cur (w ++ rest)%string = fields_aux (cur ++ w) rest.
Proof.
  induction w as [|c w IH]; intros cur rest H.
  - cbn. rewrite sapp_nil_r. reflexivity.
  - cbn [all_chars] in H. apply andb_true_iff in H. destruct H as [Hc H]. apply negb_true_iff in Hc.
    cbn [append fields_aux]. rewrite Hc. rewrite IH by exact H. rewrite sapp_assoc'. reflexivity.
Qed.

(* [fields] undoes joining plain words with single blanks *)
Lemma fields_join ws : Forall plain_word ws -> fields (String.concat " " ws) = ws.
Proof.
  unfold fields. induction 1 as [|w ws [Hne Hw] _ IH]; [reflexivity|].
  destruct ws as [|w2 ws].
  - cbn [String.concat]. rewrite <- (sapp_nil_r w) at 1. rewrite fields_aux_word by exact Hw.
    cbn. destruct w; [congruence|reflexivity].
  - change (String.concat " " (w :: w2 :: ws)) with (w ++ " " ++ String.concat " " (w2 :: ws))%string.
    rewrite fields_aux_word by exact Hw. cbn [append fields_aux]. cbn [blank N_of_ascii]. 
    change (blank " "%char) with true. cbv iota.
    cbn [append]. destruct w; [congruence|]. rewrite IH. reflexivity.
Qed.

(* ---- single-quoting passes every word list through ------------------------------------------- *)
Lemma squote_is : is_squote squote_char = true /\ is_space squote_char = false /\ is_dquote squote_char = false /\
                  is_escape squote_char = false /\ is_comment squote_char = false /\ is_escape backslash_char = true /\
                  is_space backslash_char = false /\ is_dquote backslash_char = false /\ is_squote backslash_char = false.
Proof. repeat split. Qed.

Lemma is_squote_eqb c : is_squote c = Ascii.eqb c squote_char.
Proof.
  unfold is_squote. destruct (Ascii.eqb_spec c squote_char) as [->|Hn]; [reflexivity|].
  apply N.eqb_neq. intro E. apply Hn. rewrite <- (ascii_N_embedding c), E. reflexivity.
Qed.

Lemma lex_quote_body : forall w cur acc rest,
  lex SSq cur acc (quote_body w ++ String squote_char rest)%string =
  lex SWord (List.rev (list_ascii_of_string w) ++ cur) acc rest.
Proof.
  induction w as [|c w IH]; intros cur acc rest.
  - cbn [quote_body append lex]. change (is_squote squote_char) with true. reflexivity.
  - cbn [quote_body]. rewrite <- is_squote_eqb. destruct (is_squote c) eqn:Q.
    + cbn [append lex]. change (is_squote squote_char) with true. cbv iota.
      change (is_space backslash_char) with false. change (is_dquote backslash_char) with false.
      change (is_squote backslash_char) with false. change (is_escape backslash_char) with true. cbv iota.
      change (is_space squote_char) with false. change (is_dquote squote_char) with false. cbv iota.
      rewrite IH. cbn [list_ascii_of_string List.rev]. rewrite <- app_assoc. cbn [app].
      rewrite is_squote_eqb in Q. apply Ascii.eqb_eq in Q. subst c. reflexivity.
    + cbn [append lex]. rewrite Q. rewrite IH. cbn [list_ascii_of_string List.rev]. rewrite <- app_assoc. reflexivity.
Qed.

Lemma lex_shell_quote w acc rest :
  lex SStart [] acc (shell_quote w ++ rest)%string = lex SWord (List.rev (list_ascii_of_string w)) acc rest.
Proof.
  unfold shell_quote. cbn [append lex].
  change (is_space squote_char) with false. change (is_dquote squote_char) with false.
  change (is_squote squote_char) with true. cbv iota.
  rewrite sapp_assoc'. cbn [append]. rewrite lex_quote_body. rewrite app_nil_r. reflexivity.
Qed.

Lemma lex_quote_words : forall ws acc,
  lex SStart [] acc (quote_words ws) = Some (List.rev acc ++ ws).
Proof.
  unfold quote_words. induction ws as [|w ws IH]; intro acc.
  - cbn. rewrite app_nil_r. reflexivity.
  - destruct ws as [|w2 ws].
    + cbn [List.map String.concat]. rewrite <- (sapp_nil_r (shell_quote w)). rewrite lex_shell_quote.
      cbn [lex]. rewrite word_of_rev. cbn [List.rev]. reflexivity.
    + change (String.concat " " (List.map shell_quote (w :: w2 :: ws)))
        with (shell_quote w ++ " " ++ String.concat " " (List.map shell_quote (w2 :: ws)))%string.
      rewrite lex_shell_quote. cbn [append lex]. change (is_space " "%char) with true. cbv iota.
      rewrite IH. rewrite word_of_rev. cbn [List.rev]. rewrite <- app_assoc. reflexivity.
Qed.

Lemma lex_split_quote_words ws : lex_split (quote_words ws) = Some ws.
Proof. apply (lex_quote_words ws []). Qed.

(* ---- errors -------------------------------------------------------------------------------- *)
(* no quote and no backslash: Split cannot fail *)
Definition opens_quote (c : ascii) : bool := is_dquote c || is_squote c || is_escape c.

Lemma lex_no_quote_total : forall u st cur acc,
  all_chars (fun c => negb (opens_quote c)) u = true ->
  (st = SStart \/ st = SWord \/ st = SComment) -> lex st cur acc u <> None.
Proof.
  induction u as [|c u IH]; intros st cur acc H HS.
  - destruct HS as [-> | [-> | ->]]; discriminate.
  - cbn [all_chars] in H. apply andb_true_iff in H. destruct H as [Hc H].
    apply negb_true_iff in Hc. unfold opens_quote in Hc. rewrite !orb_false_iff in Hc. destruct Hc as [[Q1 Q2] Q3].
    destruct HS as [-> | [-> | ->]]; cbn [lex]; rewrite ?Q1, ?Q2, ?Q3;
      repeat match goal with |- context [if ?b then _ else _] => destruct b end; apply IH; auto.
Qed.

(* an opening quote that is never closed: Split fails, whatever follows *)
Lemma lex_unterminated_squote : forall u cur acc,
  all_chars (fun c => negb (is_squote c)) u = true -> lex SSq cur acc u = None.
Proof.
  induction u as [|c u IH]; intros cur acc H; [reflexivity|].
  cbn [all_chars] in H. apply andb_true_iff in H. destruct H as [Hc H]. apply negb_true_iff in Hc.
  cbn [lex]. rewrite Hc. apply IH. exact H.
Qed.
Lemma lex_unterminated_dquote : forall u cur acc,
  all_chars (fun c => negb (is_dquote c)) u = true ->
  lex SDq cur acc u = None /\ lex SEscQ cur acc u = None.
Proof.
  induction u as [|c u IH]; intros cur acc H; [split; reflexivity|].
  cbn [all_chars] in H. apply andb_true_iff in H. destruct H as [Hc H]. apply negb_true_iff in Hc.
  split; cbn [lex]; [rewrite Hc; destruct (is_escape c)|]; apply IH; exact H.
Qed.

(* ---- UTF-8: ASCII strings are left alone ----------------------------------------------------- *)
Lemma sanitize_ascii s : ascii_only s = true -> utf8_sanitize s = s.
Proof.
  unfold utf8_sanitize, ascii_only. induction s as [|c s IH]; intro H; [reflexivity|].
  cbn [all_chars] in H. apply andb_true_iff in H. destruct H as [Hc H].
  cbn [sanitize_aux]. unfold utf8_len. rewrite Hc. rewrite IH by exact H. reflexivity.
Qed.
