(* C12 — proofs about the creation-time printers (Model/OciTime.v) against the
   calendar and the text form of Spec/OciTimeSpec.v. Stdlib only. *)
From Apko Require Import Base.Prelude Base.C12Lib Model.OciTime Spec.OciTimeSpec.
Open Scope string_scope. Local Open Scope Z_scope.

(* ---- the calendar of the Spec ---------------------------------------------------------- *)
Lemma is_leap_true y : is_leap y = true <-> (y mod 4 = 0 /\ (y mod 100 <> 0 \/ y mod 400 = 0)).
Proof.
  unfold is_leap. rewrite andb_true_iff, orb_true_iff, negb_true_iff, !Z.eqb_eq, Z.eqb_neq. tauto.
Qed.
Lemma is_leap_false y : is_leap y = false <-> (y mod 4 <> 0 \/ (y mod 100 = 0 /\ y mod 400 <> 0)).
Proof.
  unfold is_leap. rewrite andb_false_iff, orb_false_iff, negb_false_iff, !Z.eqb_eq, !Z.eqb_neq. tauto.
Qed.

(* what days_before_year is: 0 at 1970, and a year adds 365 or 366 days *)
Lemma days_before_year_1970 : days_before_year 1970 = 0.
Proof. reflexivity. Qed.
Lemma days_before_year_succ y :
  days_before_year (y + 1) = days_before_year y + (if is_leap y then 366 else 365).
Proof.
  unfold days_before_year, leaps_upto.
  destruct (is_leap y) eqn:L; [apply is_leap_true in L | apply is_leap_false in L];
    replace (y + 1 - 1) with y by lia; Z.to_euclidean_division_equations; lia.
Qed.

Lemma days_before_year_mono y1 y2 : y1 < y2 -> days_before_year (y1 + 1) <= days_before_year y2.
Proof.
  intro H. unfold days_before_year, leaps_upto. replace (y1 + 1 - 1) with y1 by lia.
  Z.to_euclidean_division_equations; lia.
Qed.

Lemma days_before_year_le y1 y2 : y1 <= y2 -> days_before_year y1 <= days_before_year y2.
Proof.
  intro H. unfold days_before_year, leaps_upto. Z.to_euclidean_division_equations; lia.
Qed.

Ltac month_tables :=
  repeat match goal with
    | |- context [days_before_month ?b ?k] =>
        let v := eval vm_compute in (days_before_month b k) in change (days_before_month b k) with v
    | |- context [days_in_month ?b ?k] =>
        let v := eval vm_compute in (days_in_month b k) in change (days_in_month b k) with v
    | H : context [days_before_month ?b ?k] |- _ =>
        let v := eval vm_compute in (days_before_month b k) in change (days_before_month b k) with v in H
    | H : context [days_in_month ?b ?k] |- _ =>
        let v := eval vm_compute in (days_in_month b k) in change (days_in_month b k) with v in H
    end.

Ltac month_cases m H :=
  let C := fresh "C" in
  assert (C : m = 1 \/ m = 2 \/ m = 3 \/ m = 4 \/ m = 5 \/ m = 6 \/ m = 7 \/ m = 8 \/ m = 9 \/ m = 10 \/ m = 11 \/ m = 12) by lia;
  repeat (destruct C as [C|C]); subst m.

(* a valid date lies inside its year *)
Lemma day_number_in_year y m d : valid_date y m d ->
  days_before_year y <= day_number y m d < days_before_year (y + 1).
Proof.
  intros [Hm Hd]. rewrite days_before_year_succ. unfold day_number.
  destruct (is_leap y); month_cases m Hm; month_tables; lia.
Qed.

(* later date <-> larger day number, on valid dates *)
Definition date_lt (a b : Z * Z * Z) : Prop :=
  let '(y1, m1, d1) := a in let '(y2, m2, d2) := b in
  y1 < y2 \/ (y1 = y2 /\ (m1 < m2 \/ (m1 = m2 /\ d1 < d2))).

Lemma day_number_mono y1 m1 d1 y2 m2 d2 : valid_date y1 m1 d1 -> valid_date y2 m2 d2 ->
  date_lt (y1, m1, d1) (y2, m2, d2) -> day_number y1 m1 d1 < day_number y2 m2 d2.
Proof.
  intros V1 V2 [H|[-> H]].
  - pose proof (day_number_in_year _ _ _ V1). pose proof (day_number_in_year _ _ _ V2).
    pose proof (days_before_year_mono _ _ H). lia.
  - destruct V1 as [Hm1 Hd1], V2 as [Hm2 Hd2]. unfold day_number.
    destruct H as [H|[-> H]]; [|lia].
    destruct (is_leap y2); month_cases m1 Hm1; month_cases m2 Hm2; month_tables; lia.
Qed.

Lemma date_lt_total a b : date_lt a b \/ a = b \/ date_lt b a.
Proof.
  destruct a as [[y1 m1] d1], b as [[y2 m2] d2]. unfold date_lt.
  destruct (Z.lt_trichotomy y1 y2) as [?|[->|?]]; auto.
  destruct (Z.lt_trichotomy m1 m2) as [?|[->|?]]; auto 6.
  destruct (Z.lt_trichotomy d1 d2) as [?|[->|?]]; auto 8.
Qed.

(* ---- civil_from_days computes the date with that day number ----------------------------- *)
Lemma yoe_bounds doe : 0 <= doe <= 146096 ->
  let yoe := (doe - doe / 1460 + doe / 36524 - doe / 146096) / 365 in
  let doy := doe - (365 * yoe + yoe / 4 - yoe / 100) in
  0 <= yoe <= 399 /\ 0 <= doy <= 365 /\
  (doy = 365 -> (yoe + 1) mod 4 = 0 /\ ((yoe + 1) mod 100 <> 0 \/ yoe = 399)).
Proof.
  intros H yoe doy. subst yoe doy.
  Z.to_euclidean_division_equations; lia.
Qed.

Lemma civil_from_days_spec z y m d :
  civil_from_days z = (y, m, d) -> valid_date y m d /\ day_number y m d = z.
Proof.
  unfold civil_from_days.
  set (z0 := z + 719468). set (era := z0 / 146097). set (doe := z0 mod 146097).
  assert (Hdoe : 0 <= doe <= 146096) by (subst doe; pose proof (Z.mod_pos_bound z0 146097); lia).
  assert (Hz : z = era * 146097 + doe - 719468) by (subst era doe z0; pose proof (Z.div_mod (z + 719468) 146097); lia).
  pose proof (yoe_bounds doe Hdoe) as HY. cbv zeta in HY.
  set (yoe := (doe - doe / 1460 + doe / 36524 - doe / 146096) / 365) in *.
  set (doy := doe - (365 * yoe + yoe / 4 - yoe / 100)) in *.
  destruct HY as (Hyoe & Hdoy & Hleap).
  set (mp := (5 * doy + 2) / 153).
  assert (Hmp : 153 * mp <= 5 * doy + 2 < 153 * mp + 153) by (subst mp; Z.to_euclidean_division_equations; lia).
  assert (Hc : mp = 0 \/ mp = 1 \/ mp = 2 \/ mp = 3 \/ mp = 4 \/ mp = 5 \/ mp = 6 \/ mp = 7 \/ mp = 8 \/ mp = 9 \/ mp = 10 \/ mp = 11) by lia.
  assert (Hdoe2 : doe = 365 * yoe + yoe / 4 - yoe / 100 + doy) by (subst doy; lia).
  clearbody mp doy yoe doe era. clear z0.
  intro E.
  repeat (destruct Hc as [Hc|Hc]);
  (subst mp; cbn in E; inversion E; subst y m d; clear E;
   unfold valid_date, day_number, days_before_year, leaps_upto;
   destruct (is_leap _) eqn:L; [apply is_leap_true in L | apply is_leap_false in L];
   month_tables;
   Z.to_euclidean_division_equations; lia).
Qed.

(* its inverse in closed form *)
Lemma days_from_civil_of_civil z : let '(y, m, d) := civil_from_days z in days_from_civil y m d = z.
Proof.
  unfold civil_from_days.
  set (z0 := z + 719468). set (era := z0 / 146097). set (doe := z0 mod 146097).
  assert (Hdoe : 0 <= doe <= 146096) by (subst doe; pose proof (Z.mod_pos_bound z0 146097); lia).
  assert (Hz : z = era * 146097 + doe - 719468) by (subst era doe z0; pose proof (Z.div_mod (z + 719468) 146097); lia).
  pose proof (yoe_bounds doe Hdoe) as HY. cbv zeta in HY.
  set (yoe := (doe - doe / 1460 + doe / 36524 - doe / 146096) / 365) in *.
  set (doy := doe - (365 * yoe + yoe / 4 - yoe / 100)) in *.
  destruct HY as (Hyoe & Hdoy & _).
  set (mp := (5 * doy + 2) / 153).
  assert (Hmp : 0 <= mp <= 11) by (subst mp; Z.to_euclidean_division_equations; lia).
  assert (Hdoe2 : doe = 365 * yoe + yoe / 4 - yoe / 100 + doy) by (subst doy; lia).
  clearbody mp doy yoe doe era. clear z0.
  unfold days_from_civil.
  destruct (mp <? 10) eqn:E1; [apply Z.ltb_lt in E1 | apply Z.ltb_ge in E1].
  - replace (mp + 3 <=? 2) with false by (symmetry; apply Z.leb_gt; lia).
    replace (mp + 3 - 3) with mp by lia. replace (yoe + era * 400 + 0) with (yoe + era * 400) by lia.
    replace ((yoe + era * 400) / 400) with era by (Z.to_euclidean_division_equations; lia).
    replace ((yoe + era * 400) mod 400) with yoe by (Z.to_euclidean_division_equations; lia).
    lia.
  - replace (mp - 9 <=? 2) with true by (symmetry; apply Z.leb_le; lia).
    replace (mp - 9 + 9) with mp by lia. replace (yoe + era * 400 + 1 - 1) with (yoe + era * 400) by lia.
    replace ((yoe + era * 400) / 400) with era by (Z.to_euclidean_division_equations; lia).
    replace ((yoe + era * 400) mod 400) with yoe by (Z.to_euclidean_division_equations; lia).
    lia.
Qed.

(* ---- the time of day ---------------------------------------------------------------------- *)
Definition clock (r : Z) : Z * Z * Z := (r / 3600, r mod 3600 / 60, r mod 60).
Lemma clock_spec r : 0 <= r < 86400 ->
  let '(h, mi, s) := clock r in 0 <= h < 24 /\ 0 <= mi < 60 /\ 0 <= s < 60 /\ 3600 * h + 60 * mi + s = r.
Proof. intro H. unfold clock. Z.to_euclidean_division_equations; lia. Qed.

(* the UTC year of an in-range second count is in [0, 9999] *)
Lemma year_in_range s y m d : rfc3339_min <= s <= rfc3339_max ->
  civil_from_days (s / 86400) = (y, m, d) -> 0 <= y <= 9999.
Proof.
  unfold rfc3339_min, rfc3339_max. intros H E.
  destruct (civil_from_days_spec _ _ _ _ E) as [V N].
  pose proof (day_number_in_year _ _ _ V) as B. rewrite N in B.
  assert (Hd : -719528 <= s / 86400 <= 2932896) by (Z.to_euclidean_division_equations; lia).
  assert (E0 : days_before_year 0 = -719528) by reflexivity.
  assert (E1 : days_before_year 10000 = 2932897) by reflexivity.
  split.
  - destruct (Z_lt_le_dec y 0) as [Hy|Hy]; [|exact Hy]. exfalso.
    destruct (Z.eq_dec (y + 1) 0) as [Ey|Ey].
    + rewrite Ey in B. lia.
    + pose proof (days_before_year_mono y 0 ltac:(lia)). lia.
  - destruct (Z_lt_le_dec 9999 y) as [Hy|Hy]; [|lia]. exfalso.
    destruct (Z.eq_dec y 10000) as [Ey|Ey].
    + rewrite Ey in B. lia.
    + pose proof (days_before_year_mono 9999 y ltac:(lia)). replace (9999 + 1) with 10000 in * by lia. lia.
Qed.

(* ---- digits ------------------------------------------------------------------------------- *)
Lemma digit_cases n : exists k, n mod 10 = k /\ 0 <= k <= 9.
Proof. exists (n mod 10). pose proof (Z.mod_pos_bound n 10). lia. Qed.

Ltac digit_split n :=
  let k := fresh "k" in let E := fresh "E" in let B := fresh "B" in
  destruct (digit_cases n) as (k & E & B);
  assert (k = 0 \/ k = 1 \/ k = 2 \/ k = 3 \/ k = 4 \/ k = 5 \/ k = 6 \/ k = 7 \/ k = 8 \/ k = 9) as C by lia;
  unfold digit; rewrite E; clear E B;
  repeat (destruct C as [C|C]); subst k.

Lemma digit_is_digit n : is_digit (digit n) = true.
Proof. digit_split n; reflexivity. Qed.
Lemma digit_val_digit n : digit_val (digit n) = n mod 10.
Proof. unfold digit_val. digit_split n; reflexivity. Qed.

Lemma digit_compare a b : Ascii.compare (digit a) (digit b) = (a mod 10 ?= b mod 10).
Proof.
  unfold digit. pose proof (Z.mod_pos_bound a 10 ltac:(lia)). pose proof (Z.mod_pos_bound b 10 ltac:(lia)).
  set (x := a mod 10) in *. set (y := b mod 10) in *.
  unfold Ascii.compare. rewrite !N_ascii_embedding by lia.
  rewrite <- (N2Z.inj_compare (48 + Z.to_N x) (48 + Z.to_N y)).
  rewrite !N2Z.inj_add, !Z2N.id by lia. apply Z.add_compare_mono_l.
Qed.

(* the explicit forms of appendInt's fast paths *)
Definition pad2 (n : Z) : string := String (digit (n / 10)) (String (digit n) "").
Definition pad4 (n : Z) : string :=
  String (digit (n / 1000)) (String (digit (n / 100)) (String (digit (n / 10)) (String (digit n) ""))).

Lemma append_int_2 n : 0 <= n < 100 -> go_append_int n 2 = pad2 n.
Proof.
  intro H. unfold go_append_int. rewrite Z.abs_eq by lia.
  replace (n <? 0) with false by (symmetry; apply Z.ltb_ge; lia).
  replace (n <? 100) with true by (symmetry; apply Z.ltb_lt; lia). reflexivity.
Qed.
Lemma append_int_4 n : 0 <= n < 10000 -> go_append_int n 4 = pad4 n.
Proof.
  intro H. unfold go_append_int. rewrite Z.abs_eq by lia.
  replace (n <? 0) with false by (symmetry; apply Z.ltb_ge; lia).
  replace (n <? 10000) with true by (symmetry; apply Z.ltb_lt; lia). reflexivity.
Qed.

Lemma sapp_assoc (a b c : string) : ((a ++ b) ++ c = a ++ (b ++ c))%string.
Proof. induction a as [|x a IH]; [reflexivity|]. cbn [append]. rewrite IH. reflexivity. Qed.

(* the timestamp of an in-range second count, character by character *)
Definition stamp (y m d h mi s : Z) : string :=
  pad4 y ++ "-" ++ pad2 m ++ "-" ++ pad2 d ++ "T" ++ pad2 h ++ ":" ++ pad2 mi ++ ":" ++ pad2 s ++ "Z".

Lemma format_explicit s : rfc3339_min <= s <= rfc3339_max ->
  exists y m d h mi ss,
    civil_from_days (s / 86400) = (y, m, d) /\ clock (s mod 86400) = (h, mi, ss) /\
    0 <= y <= 9999 /\ valid_date y m d /\ day_number y m d = s / 86400 /\
    0 <= h < 24 /\ 0 <= mi < 60 /\ 0 <= ss < 60 /\ 3600 * h + 60 * mi + ss = s mod 86400 /\
    format_rfc3339 s = stamp y m d h mi ss.
Proof.
  intro R. destruct (civil_from_days (s / 86400)) as [[y m] d] eqn:E.
  pose proof (year_in_range s y m d R E) as Hy.
  destruct (civil_from_days_spec _ _ _ _ E) as [V N].
  pose proof (clock_spec (s mod 86400) (Z.mod_pos_bound s 86400 ltac:(lia))) as CS.
  destruct (clock (s mod 86400)) as [[h mi] ss] eqn:EC. destruct CS as (Hh & Hmi & Hs & Hsum).
  exists y, m, d, h, mi, ss. repeat (split; [solve [assumption|reflexivity]|]).
  unfold format_rfc3339, go_format_rfc3339, fmt_date_time. rewrite Z.add_0_r, E.
  unfold clock in EC. inversion EC; subst h mi ss.
  destruct V as [Hm Hd].
  assert (days_in_month (is_leap y) m <= 31) by (unfold days_in_month; repeat match goal with |- context [if ?c then _ else _] => destruct c end; lia).
  rewrite (append_int_4 y) by lia. rewrite !append_int_2 by lia.
  unfold stamp, fmt_zone. cbn [Z.eqb]. rewrite !sapp_assoc. reflexivity.
Qed.

(* ---- shape -------------------------------------------------------------------------------- *)
Lemma stamp_shape y m d h mi s : rfc3339_utc_shape (stamp y m d h mi s) = true.
Proof.
  unfold stamp, pad4, pad2. cbn [append list_ascii_of_string rfc3339_utc_shape forallb].
  rewrite !digit_is_digit. reflexivity.
Qed.

Lemma stamp_length y m d h mi s : String.length (stamp y m d h mi s) = 20%nat.
Proof. reflexivity. Qed.

(* ---- round trip ---------------------------------------------------------------------------- *)
Lemma pad_digits_4 n : 0 <= n <= 9999 ->
  1000 * ((n / 1000) mod 10) + 100 * ((n / 100) mod 10) + 10 * ((n / 10) mod 10) + n mod 10 = n.
Proof. intro H. Z.to_euclidean_division_equations; lia. Qed.
Lemma pad_digits_2 n : 0 <= n < 100 -> 10 * ((n / 10) mod 10) + n mod 10 = n.
Proof. intro H. Z.to_euclidean_division_equations; lia. Qed.

Lemma parse_stamp y m d h mi s :
  0 <= y <= 9999 -> valid_date y m d -> 0 <= h < 24 -> 0 <= mi < 60 -> 0 <= s < 60 ->
  parse_rfc3339 (stamp y m d h mi s) = Some (86400 * day_number y m d + 3600 * h + 60 * mi + s).
Proof.
  intros Hy V Hh Hmi Hs. unfold parse_rfc3339. rewrite stamp_shape.
  unfold stamp, pad4, pad2. cbn [append list_ascii_of_string].
  rewrite !digit_val_digit.
  assert (Hd31 : days_in_month (is_leap y) m <= 31) by (unfold days_in_month; repeat match goal with |- context [if ?c then _ else _] => destruct c end; lia).
  destruct V as [Hm Hd].
  rewrite (pad_digits_4 y Hy), (pad_digits_2 m) by lia. rewrite (pad_digits_2 d), (pad_digits_2 h), (pad_digits_2 mi), (pad_digits_2 s) by lia.
  replace (valid_date_b y m d) with true
    by (symmetry; unfold valid_date_b; rewrite !andb_true_iff, !Z.leb_le; lia).
  replace (h <? 24) with true by (symmetry; apply Z.ltb_lt; lia).
  replace (mi <? 60) with true by (symmetry; apply Z.ltb_lt; lia).
  replace (s <? 60) with true by (symmetry; apply Z.ltb_lt; lia).
  reflexivity.
Qed.

Lemma rfc3339_roundtrip s : rfc3339_min <= s <= rfc3339_max -> parse_rfc3339 (format_rfc3339 s) = Some s.
Proof.
  intro R. destruct (format_explicit s R) as (y & m & d & h & mi & ss & _ & _ & Hy & V & N & Hh & Hmi & Hs & Hsum & ->).
  rewrite parse_stamp by assumption. f_equal. rewrite N. pose proof (Z.div_mod s 86400). lia.
Qed.

Lemma rfc3339_shape s : rfc3339_min <= s <= rfc3339_max ->
  rfc3339_utc_shape (format_rfc3339 s) = true /\ String.length (format_rfc3339 s) = 20%nat.
Proof.
  intro R. destruct (format_explicit s R) as (y & m & d & h & mi & ss & _ & _ & _ & _ & _ & _ & _ & _ & _ & ->).
  split; [apply stamp_shape | apply stamp_length].
Qed.

(* ---- order ---------------------------------------------------------------------------------- *)
Lemma compare_cons_same c a b : String.compare (String c a) (String c b) = String.compare a b.
Proof. cbn [String.compare]. rewrite ascii_compare_refl. reflexivity. Qed.
Lemma compare_app_same p a b : String.compare (p ++ a) (p ++ b) = String.compare a b.
Proof. induction p as [|c p IH]; [reflexivity|]. cbn [append]. rewrite compare_cons_same. exact IH. Qed.

Lemma pad2_lt a b t t' : 0 <= a < 100 -> 0 <= b < 100 -> a < b -> String.compare (pad2 a ++ t) (pad2 b ++ t') = Lt.
Proof.
  intros Ha Hb L. unfold pad2. cbn [append String.compare]. rewrite !digit_compare.
  destruct (Z.compare_spec ((a / 10) mod 10) ((b / 10) mod 10)) as [E|E|E]; [|reflexivity|exfalso; Z.to_euclidean_division_equations; lia].
  destruct (Z.compare_spec (a mod 10) (b mod 10)) as [E'|E'|E']; [|reflexivity|]; exfalso; Z.to_euclidean_division_equations; lia.
Qed.

Lemma pad4_lt a b t t' : 0 <= a <= 9999 -> 0 <= b <= 9999 -> a < b -> String.compare (pad4 a ++ t) (pad4 b ++ t') = Lt.
Proof.
  intros Ha Hb L. unfold pad4. cbn [append String.compare]. rewrite !digit_compare.
  destruct (Z.compare_spec ((a / 1000) mod 10) ((b / 1000) mod 10)) as [E1|E1|E1]; [|reflexivity|exfalso; Z.to_euclidean_division_equations; lia].
  destruct (Z.compare_spec ((a / 100) mod 10) ((b / 100) mod 10)) as [E2|E2|E2]; [|reflexivity|exfalso; Z.to_euclidean_division_equations; lia].
  destruct (Z.compare_spec ((a / 10) mod 10) ((b / 10) mod 10)) as [E3|E3|E3]; [|reflexivity|exfalso; Z.to_euclidean_division_equations; lia].
  destruct (Z.compare_spec (a mod 10) (b mod 10)) as [E4|E4|E4]; [|reflexivity|]; exfalso; Z.to_euclidean_division_equations; lia.
Qed.

Definition stamp_lt (a b : Z * Z * Z * Z * Z * Z) : Prop :=
  let '(y1, m1, d1, h1, i1, s1) := a in let '(y2, m2, d2, h2, i2, s2) := b in
  y1 < y2 \/ (y1 = y2 /\ (m1 < m2 \/ (m1 = m2 /\ (d1 < d2 \/ (d1 = d2 /\ (h1 < h2 \/ (h1 = h2 /\ (i1 < i2 \/ (i1 = i2 /\ s1 < s2))))))))).

Lemma stamp_order y1 m1 d1 h1 i1 s1 y2 m2 d2 h2 i2 s2 :
  0 <= y1 <= 9999 -> 0 <= m1 < 100 -> 0 <= d1 < 100 -> 0 <= h1 < 100 -> 0 <= i1 < 100 -> 0 <= s1 < 100 ->
  0 <= y2 <= 9999 -> 0 <= m2 < 100 -> 0 <= d2 < 100 -> 0 <= h2 < 100 -> 0 <= i2 < 100 -> 0 <= s2 < 100 ->
  stamp_lt (y1, m1, d1, h1, i1, s1) (y2, m2, d2, h2, i2, s2) ->
  str_lt (stamp y1 m1 d1 h1 i1 s1) (stamp y2 m2 d2 h2 i2 s2).
Proof.
  intros ? ? ? ? ? ? ? ? ? ? ? ? H. unfold str_lt, stamp.
  destruct H as [H|[<- H]]; [apply pad4_lt; assumption|]. rewrite 2 compare_app_same.
  destruct H as [H|[<- H]]; [apply pad2_lt; assumption|]. rewrite 2 compare_app_same.
  destruct H as [H|[<- H]]; [apply pad2_lt; assumption|]. rewrite 2 compare_app_same.
  destruct H as [H|[<- H]]; [apply pad2_lt; assumption|]. rewrite 2 compare_app_same.
  destruct H as [H|[<- H]]; [apply pad2_lt; assumption|]. rewrite 2 compare_app_same.
  apply pad2_lt; assumption.
Qed.

Lemma rfc3339_monotone s1 s2 : rfc3339_min <= s1 -> s2 <= rfc3339_max -> s1 < s2 ->
  str_lt (format_rfc3339 s1) (format_rfc3339 s2).
Proof.
  intros L1 L2 Hlt.
  destruct (format_explicit s1 ltac:(lia)) as (y1 & m1 & d1 & h1 & i1 & c1 & E1 & _ & Hy1 & V1 & N1 & Hh1 & Hi1 & Hc1 & Hs1 & ->).
  destruct (format_explicit s2 ltac:(lia)) as (y2 & m2 & d2 & h2 & i2 & c2 & E2 & _ & Hy2 & V2 & N2 & Hh2 & Hi2 & Hc2 & Hs2 & ->).
  assert (D31 : forall y m, days_in_month (is_leap y) m <= 31) by (intros; unfold days_in_month; repeat match goal with |- context [if ?c then _ else _] => destruct c end; lia).
  pose proof (D31 y1 m1). pose proof (D31 y2 m2). destruct V1 as [Hm1 Hd1] eqn:EV1, V2 as [Hm2 Hd2] eqn:EV2.
  apply stamp_order; try lia.
  assert (Hdays : s1 / 86400 <= s2 / 86400) by (apply Z.div_le_mono; lia).
  pose proof (Z.div_mod s1 86400 ltac:(lia)). pose proof (Z.div_mod s2 86400 ltac:(lia)).
  destruct (date_lt_total (y1, m1, d1) (y2, m2, d2)) as [DL|[DE|DG]].
  - unfold date_lt in DL. unfold stamp_lt. lia.
  - inversion DE; subst y2 m2 d2. unfold stamp_lt.
    assert (s1 / 86400 = s2 / 86400) by congruence.
    assert (3600 * h1 + 60 * i1 + c1 < 3600 * h2 + 60 * i2 + c2) by lia. lia.
  - exfalso. pose proof (day_number_mono _ _ _ _ _ _ V2 V1 DG). lia.
Qed.

(* ---- outside the range: what Go does ------------------------------------------------------ *)
Lemma year_range_iff s : (0 <= wall_year s 0 <= 9999) <-> rfc3339_min <= s <= rfc3339_max.
Proof.
  unfold wall_year. rewrite Z.add_0_r. destruct (civil_from_days (s / 86400)) as [[y m] d] eqn:E. cbn [fst].
  split; [|intro R; exact (year_in_range s y m d R E)].
  intro Hy. destruct (civil_from_days_spec _ _ _ _ E) as [V N].
  pose proof (day_number_in_year _ _ _ V) as B. rewrite N in B.
  assert (E0 : days_before_year 0 = -719528) by reflexivity.
  assert (E1 : days_before_year 10000 = 2932897) by reflexivity.
  assert (L0 : days_before_year 0 <= days_before_year y) by (apply days_before_year_le; lia).
  assert (L1 : days_before_year (y + 1) <= days_before_year 10000) by (apply days_before_year_le; lia).
  unfold rfc3339_min, rfc3339_max. Z.to_euclidean_division_equations; lia.
Qed.

(* the config's `created` / history `created` of a UTC whole-second time: the same
   string as the annotation inside the range, a marshalling ERROR outside *)
Lemma marshal_utc s :
  go_marshal_time s 0 0 = if (rfc3339_min <=? s) && (s <=? rfc3339_max) then Some (format_rfc3339 s) else None.
Proof.
  unfold go_marshal_time. cbn [Z.eqb orb]. rewrite andb_true_r.
  destruct ((rfc3339_min <=? s) && (s <=? rfc3339_max)) eqn:R.
  - apply andb_true_iff in R. rewrite !Z.leb_le in R. apply year_range_iff in R.
    replace (0 <=? wall_year s 0) with true by (symmetry; apply Z.leb_le; lia).
    replace (wall_year s 0 <=? 9999) with true by (symmetry; apply Z.leb_le; lia).
    cbn [andb]. unfold format_rfc3339, go_format_rfc3339. reflexivity.
  - destruct ((0 <=? wall_year s 0) && (wall_year s 0 <=? 9999)) eqn:Y; [|reflexivity].
    apply andb_true_iff in Y. rewrite !Z.leb_le in Y. apply year_range_iff in Y.
    apply andb_false_iff in R. rewrite !Z.leb_gt in R. lia.
Qed.

Lemma rfc3339_out_of_range_witnesses :
  format_rfc3339 (rfc3339_max + 1) = "10000-01-01T00:00:00Z" /\
  format_rfc3339 (rfc3339_min - 1) = "-0001-12-31T23:59:59Z" /\
  rfc3339_utc_shape (format_rfc3339 (rfc3339_max + 1)) = false /\
  rfc3339_utc_shape (format_rfc3339 (rfc3339_min - 1)) = false /\
  parse_rfc3339 (format_rfc3339 (rfc3339_max + 1)) = None /\
  str_lt (format_rfc3339 (rfc3339_max + 1)) (format_rfc3339 rfc3339_max) /\
  str_lt (format_rfc3339 (rfc3339_min - 1)) (format_rfc3339 (rfc3339_min - 1 - 31536000)).
Proof. vm_compute. repeat (split; try reflexivity). Qed.
