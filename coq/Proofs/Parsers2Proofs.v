(* C15, session 4 — proofs about Model/Parsers2.v: the include chain on a file tree (cycles through any
   spelling diverge; without a cycle one unit of fuel per file suffices; the repair ends on every tree),
   the guard theorems of the newly covered index / slice sites, and work bounds. *)
From Coq Require Import Lia ZifyN ZifyNat Relations.Relation_Operators.
From Apko Require Import Base.Prelude Base.C16Lib Model.Formats Model.Parsers Model.Parsers2 Spec.ParsersSpec
  Proofs.ParsersProofs Proofs.ReadersProofs.
Open Scope string_scope. Open Scope list_scope.

(* ======================================================================================== *)
(* 1. the include chain                                                                        *)
Section ChainProofs.
Variable resolve : string -> option string.
Variable content : string -> option (string * string).
Notation chain_r := (chain_r resolve content).
Notation chain_r_fixed := (chain_r_fixed resolve content).
Notation rnext := (rnext resolve content).

Lemma rbind_ok_oof {A B} (r : res A) (k : A -> res B) :
  rbind r k <> OutOfFuel -> r <> OutOfFuel.
Proof. intros H E. rewrite E in H. apply H. reflexivity. Qed.

(* more fuel does not change a result *)
Lemma chain_r_mono : forall f rp r, chain_r f rp = r -> r <> OutOfFuel -> forall f', (f <= f')%nat -> chain_r f' rp = r.
Proof.
  induction f as [|f IH]; intros rp r H N f' L; [cbn in H; congruence|].
  destruct f' as [|f']; [lia|]. cbn [Parsers2.chain_r] in *.
  destruct (content rp) as [[m inc]|]; [|exact H].
  destruct (inc =? ""); [exact H|]. destruct (resolve inc) as [rp'|]; [|exact H].
  destruct (chain_r f rp') as [l| | |] eqn:R.
  - rewrite (IH rp' (Ok l) R) by (try discriminate; lia). exact H.
  - rewrite (IH rp' Err R) by (try discriminate; lia). exact H.
  - rewrite (IH rp' Panic R) by (try discriminate; lia). exact H.
  - cbn [rbind] in H. congruence.
Qed.
Lemma chain_r_det f1 f2 rp : chain_r f1 rp <> OutOfFuel -> chain_r f2 rp <> OutOfFuel -> chain_r f1 rp = chain_r f2 rp.
Proof.
  intros H1 H2. destruct (Nat.le_ge_cases f1 f2) as [L|L].
  - symmetry. apply (chain_r_mono f1 rp _ eq_refl H1 f2 L).
  - apply (chain_r_mono f2 rp _ eq_refl H2 f1 L).
Qed.
Lemma chain_r_never_panics : forall f rp, chain_r f rp <> Panic.
Proof.
  induction f as [|f IH]; intro rp; cbn [Parsers2.chain_r]; [discriminate|].
  destruct (content rp) as [[m inc]|]; [|discriminate]. destruct (inc =? ""); [discriminate|].
  destruct (resolve inc) as [rp'|]; [|discriminate].
  specialize (IH rp'). destruct (chain_r f rp'); cbn [rbind]; congruence.
Qed.

(* one step down the chain costs one unit of fuel *)
Lemma chain_r_step f rp rp' : rnext rp rp' -> chain_r (S f) rp <> OutOfFuel -> chain_r f rp' <> OutOfFuel.
Proof.
  intros (m & inc & C & N & R) H. cbn [Parsers2.chain_r] in H. rewrite C in H.
  apply String.eqb_neq in N. rewrite N, R in H. eapply rbind_ok_oof; exact H.
Qed.
Lemma chain_r_zero rp : chain_r 0 rp = OutOfFuel. Proof. reflexivity. Qed.
Lemma chain_r_tc rp rq : clos_trans _ rnext rp rq ->
  forall f, chain_r f rp <> OutOfFuel -> exists f', (f' < f)%nat /\ chain_r f' rq <> OutOfFuel.
Proof.
  induction 1 as [x y S1|x y z _ IH1 _ IH2]; intros f H.
  - destruct f as [|f]; [exfalso; apply H; reflexivity|]. exists f. split; [lia|]. eapply chain_r_step; eauto.
  - destruct (IH1 f H) as (f1 & L1 & H1). destruct (IH2 f1 H1) as (f2 & L2 & H2). exists f2. split; [lia|exact H2].
Qed.
(* a resolved path that leads back to itself is loaded without end *)
Lemma chain_r_cycle_diverges rq : clos_trans _ rnext rq rq -> forall f, chain_r f rq = OutOfFuel.
Proof.
  intros C f. induction f as [f IH] using lt_wf_ind.
  destruct (chain_r f rq) as [l| | |] eqn:E; try reflexivity; exfalso.
  - destruct (chain_r_tc rq rq C f) as (f' & L & H); [rewrite E; discriminate|]. apply H, IH, L.
  - destruct (chain_r_tc rq rq C f) as (f' & L & H); [rewrite E; discriminate|]. apply H, IH, L.
  - exact (chain_r_never_panics f rq E).
Qed.
(* ... and so is every path from which such a path is reached *)
Lemma chain_r_reach_cycle_diverges rp rq :
  clos_refl_trans _ rnext rp rq -> clos_trans _ rnext rq rq -> forall f, chain_r f rp = OutOfFuel.
Proof.
  intros R C. apply Operators_Properties.clos_rt_rt1n_iff in R.
  induction R as [x|x y z S1 R IH]; intro f; [apply chain_r_cycle_diverges, C|].
  destruct f as [|f]; [reflexivity|].
  destruct (chain_r (S f) x) as [l| | |] eqn:E; try reflexivity; exfalso.
  - apply (chain_r_step f x y S1); [rewrite E; discriminate|apply IH, C].
  - apply (chain_r_step f x y S1); [rewrite E; discriminate|apply IH, C].
  - exact (chain_r_never_panics (S f) x E).
Qed.

(* the repair: same result as today's code whenever today's code returns one ... *)
Lemma in_existsb_eqb x l : In x l -> existsb (String.eqb x) l = true.
Proof. intro I. apply existsb_exists. exists x. split; [exact I|apply String.eqb_refl]. Qed.
Lemma existsb_eqb_in x l : existsb (String.eqb x) l = true -> In x l.
Proof. intro E. apply existsb_exists in E. destruct E as (y & I & Ey). apply String.eqb_eq in Ey. subst. exact I. Qed.

Lemma chain_r_fixed_agree : forall f seen rp r,
  chain_r f rp = r -> r <> OutOfFuel -> (forall s, In s seen -> clos_trans _ rnext s rp) ->
  chain_r_fixed f seen rp = r.
Proof.
  induction f as [|f IH]; intros seen rp r H N A; [cbn in H; congruence|].
  cbn [Parsers2.chain_r_fixed].
  destruct (existsb (String.eqb rp) seen) eqn:E.
  { exfalso. apply existsb_eqb_in in E. rewrite (chain_r_cycle_diverges rp (A rp E) (S f)) in H. congruence. }
  cbn [Parsers2.chain_r] in H. destruct (content rp) as [[m inc]|] eqn:C; [|exact H].
  destruct (inc =? "") eqn:Ei; [exact H|]. destruct (resolve inc) as [rp'|] eqn:R; [|exact H].
  assert (S1 : rnext rp rp') by (exists m, inc; repeat split; [exact C|apply String.eqb_neq, Ei|exact R]).
  destruct (chain_r f rp') as [l| | |] eqn:Q.
  - rewrite (IH (rp :: seen) rp' (Ok l) Q); [exact H|discriminate|].
    intros s [<-|I]; [apply t_step, S1|apply t_trans with rp; [apply A, I|apply t_step, S1]].
  - rewrite (IH (rp :: seen) rp' Err Q); [exact H|discriminate|].
    intros s [<-|I]; [apply t_step, S1|apply t_trans with rp; [apply A, I|apply t_step, S1]].
  - exfalso. exact (chain_r_never_panics f rp' Q).
  - cbn [rbind] in H. congruence.
Qed.
(* ... and whatever it returns on a path that today's code finishes is today's result *)
Lemma chain_r_fixed_to_chain : forall f seen rp r,
  (forall s, In s seen -> clos_trans _ rnext s rp) -> (exists f0, chain_r f0 rp <> OutOfFuel) ->
  chain_r_fixed f seen rp = r -> r <> OutOfFuel -> chain_r f rp = r.
Proof.
  induction f as [|f IH]; intros seen rp r A (f0 & T) H N; [cbn in H; congruence|].
  cbn [Parsers2.chain_r_fixed] in H.
  destruct (existsb (String.eqb rp) seen) eqn:E.
  { exfalso. apply existsb_eqb_in in E. apply T, chain_r_cycle_diverges, A, E. }
  cbn [Parsers2.chain_r]. destruct (content rp) as [[m inc]|] eqn:C; [|exact H].
  destruct (inc =? "") eqn:Ei; [exact H|]. destruct (resolve inc) as [rp'|] eqn:R; [|exact H].
  assert (S1 : rnext rp rp') by (exists m, inc; repeat split; [exact C|apply String.eqb_neq, Ei|exact R]).
  assert (T' : exists f1, chain_r f1 rp' <> OutOfFuel).
  { destruct f0 as [|f0]; [exfalso; apply T; reflexivity|]. exists f0. eapply chain_r_step; eauto. }
  assert (A' : forall s, In s (rp :: seen) -> clos_trans _ rnext s rp').
  { intros s [<-|I]; [apply t_step, S1|apply t_trans with rp; [apply A, I|apply t_step, S1]]. }
  destruct (chain_r_fixed f (rp :: seen) rp') as [l| | |] eqn:Q.
  - rewrite (IH (rp :: seen) rp' (Ok l) A' T' Q); [exact H|discriminate].
  - rewrite (IH (rp :: seen) rp' Err A' T' Q); [exact H|discriminate].
  - rewrite (IH (rp :: seen) rp' Panic A' T' Q); [exact H|discriminate].
  - cbn [rbind] in H. congruence.
Qed.
Lemma chain_r_fixed_ok : forall f seen rp l, chain_r_fixed f seen rp = Ok l -> chain_r f rp = Ok l.
Proof.
  induction f as [|f IH]; intros seen rp l H; [discriminate|]. cbn [Parsers2.chain_r Parsers2.chain_r_fixed] in *.
  destruct (existsb _ seen); [discriminate|]. destruct (content rp) as [[m inc]|]; [|discriminate].
  destruct (inc =? ""); [exact H|]. destruct (resolve inc) as [rp'|]; [|discriminate].
  destruct (chain_r_fixed f (rp :: seen) rp') as [r| | |] eqn:R; try discriminate. rewrite (IH _ _ _ R). exact H.
Qed.

(* the repair ends: every step adds a new resolved path taken from a finite supply *)
Variable univ : list string.
Hypothesis univ_ok : forall rp rp', rnext rp rp' -> In rp' univ.
Lemma chain_r_fixed_returns x : forall f seen rp,
  NoDup seen -> incl seen (x :: univ) -> In rp (x :: univ) -> (List.length (x :: univ) + 1 <= f + List.length seen)%nat ->
  Returns (chain_r_fixed f seen rp).
Proof.
  induction f as [|f IH]; intros seen rp ND IN Irp L.
  - exfalso. pose proof (NoDup_incl_length ND IN). lia.
  - cbn [Parsers2.chain_r_fixed]. destruct (existsb (String.eqb rp) seen) eqn:E; [apply returns_err|].
    destruct (content rp) as [[m inc]|] eqn:C; [|apply returns_err].
    destruct (inc =? "") eqn:Ei; [apply returns_ok|]. destruct (resolve inc) as [rp'|] eqn:R; [|apply returns_err].
    apply returns_bind; [|intros; apply returns_ok]. apply IH.
    + constructor; [|exact ND]. intro I. apply in_existsb_eqb in I. congruence.
    + intros y [<-|I]; [exact Irp|apply IN, I].
    + right. apply (univ_ok rp rp'). exists m, inc. repeat split; [exact C|apply String.eqb_neq, Ei|exact R].
    + cbn [List.length] in *. lia.
Qed.
Lemma chain_r_fixed_start_returns rp : Returns (chain_r_fixed (S (S (List.length univ))) [] rp).
Proof.
  apply (chain_r_fixed_returns rp); [constructor|intros y []|left; reflexivity|cbn [List.length]; lia].
Qed.
(* today's code: when it returns at all, it does so with one unit of fuel per possible successor, plus two *)
Lemma chain_r_bound f rp r : chain_r f rp = r -> r <> OutOfFuel -> chain_r (S (S (List.length univ))) rp = r.
Proof.
  intros H N. set (g := S (S (List.length univ))).
  destruct (chain_r_fixed_start_returns rp) as [_ NF]. fold g in NF.
  assert (X : chain_r g rp = chain_r_fixed g [] rp).
  { apply (chain_r_fixed_to_chain g [] rp); [intros s []|exists f; congruence|reflexivity|exact NF]. }
  rewrite <- H. apply chain_r_det; [rewrite X; exact NF|congruence].
Qed.
End ChainProofs.

(* ---- the abstract chain of session 3 is the instance "every path resolves to itself" --------- *)
Lemma load_chain_is_chain_r fs : forall fuel p,
  load_chain fuel fs p = chain_r (fun q => Some q) (fun q => match alookup q fs with Some inc => Some (q, inc) | None => None end) fuel p.
Proof.
  induction fuel as [|f IH]; intro p; [reflexivity|]. cbn [load_chain Parsers2.chain_r].
  destruct (alookup p fs) as [inc|]; [|reflexivity]. destruct (inc =? ""); [reflexivity|]. rewrite IH. reflexivity.
Qed.

(* ---- on a file tree ----------------------------------------------------------------------------- *)
Lemma file_content_in fs rp m inc : file_content fs rp = Some (m, inc) -> exists d, In (d, (m, Some inc)) (cf_files fs).
Proof.
  unfold file_content, walk. destruct (rp =? ""); [discriminate|].
  destruct (walk_comps fs _ _) as [d|]; [|discriminate]. destruct (is_dir fs d); [discriminate|].
  unfold file_at. destruct (find _ (cf_files fs)) as [[d' [m' inc']]|] eqn:F; [|discriminate].
  cbn [snd]. destruct inc' as [i|]; [|discriminate]. intro H. inversion H; subst. exists d'. apply (find_some _ _ F).
Qed.
Lemma successors_ok fs incs rp rp' : rnext (resolve_path fs incs) (file_content fs) rp rp' -> In rp' (successors fs incs).
Proof.
  intros (m & inc & C & N & R). destruct (file_content_in fs rp m inc C) as (d & I).
  unfold successors. apply in_flat_map. exists (d, (m, Some inc)). split; [exact I|]. cbn [snd]. rewrite R. left. reflexivity.
Qed.
Lemma successors_length fs incs : (List.length (successors fs incs) <= List.length (cf_files fs))%nat.
Proof.
  unfold successors. induction (cf_files fs) as [|f l IH]; [apply le_n|]. cbn [flat_map]. rewrite app_length. cbn [List.length].
  destruct (snd (snd f)) as [inc|]; [destruct (resolve_path fs incs inc)|]; cbn [List.length]; lia.
Qed.
Lemma chain_r_fixed_mono resolve content : forall f seen rp r,
  chain_r_fixed resolve content f seen rp = r -> r <> OutOfFuel -> forall f', (f <= f')%nat -> chain_r_fixed resolve content f' seen rp = r.
Proof.
  induction f as [|f IH]; intros seen rp r H N f' L; [cbn in H; congruence|].
  destruct f' as [|f']; [lia|]. cbn [Parsers2.chain_r_fixed] in *.
  destruct (existsb _ seen); [exact H|]. destruct (content rp) as [[m inc]|]; [|exact H].
  destruct (inc =? ""); [exact H|]. destruct (resolve inc) as [rp'|]; [|exact H].
  destruct (chain_r_fixed resolve content f (rp :: seen) rp') as [l| | |] eqn:R.
  - rewrite (IH _ rp' (Ok l) R) by (try discriminate; lia). exact H.
  - rewrite (IH _ rp' Err R) by (try discriminate; lia). exact H.
  - rewrite (IH _ rp' Panic R) by (try discriminate; lia). exact H.
  - cbn [rbind] in H. congruence.
Qed.

(* the repair ends on every tree, every list of include paths and every request *)
Lemma load_config_returns fs incs p : Returns (load_config (S (S (List.length (cf_files fs)))) fs incs p).
Proof.
  unfold load_config, chain_fixed. destruct (resolve_path fs incs p) as [rp|]; [|apply returns_err].
  pose proof (chain_r_fixed_start_returns _ _ (successors fs incs) (successors_ok fs incs) rp) as [NP NF].
  pose proof (successors_length fs incs) as L.
  set (r := chain_r_fixed (resolve_path fs incs) (file_content fs) (S (S (List.length (successors fs incs)))) [] rp) in *.
  rewrite (chain_r_fixed_mono _ _ _ [] rp r eq_refl NF) by lia. split; assumption.
Qed.
(* today's loader: a result at any fuel is the result at fuel |files| + 2 *)
Lemma load_config_unfixed_bound fs incs p fuel r :
  load_config_unfixed fuel fs incs p = r -> r <> OutOfFuel -> load_config_unfixed (S (S (List.length (cf_files fs)))) fs incs p = r.
Proof.
  unfold load_config_unfixed, chain. destruct (resolve_path fs incs p) as [rp|]; [|auto]. intros H N.
  pose proof (chain_r_bound _ _ (successors fs incs) (successors_ok fs incs) fuel rp r H N) as B.
  apply (chain_r_mono _ _ _ rp r B N). pose proof (successors_length fs incs). lia.
Qed.
Lemma load_config_conservative fs incs p fuel r :
  load_config_unfixed fuel fs incs p = r -> r <> OutOfFuel -> load_config fuel fs incs p = r.
Proof.
  unfold load_config_unfixed, load_config, chain, chain_fixed. destruct (resolve_path fs incs p) as [rp|]; [|auto].
  intros H N. apply chain_r_fixed_agree; [exact H|exact N|intros s []].
Qed.
Lemma load_config_ok fs incs p fuel l : load_config fuel fs incs p = Ok l -> load_config_unfixed fuel fs incs p = Ok l.
Proof.
  unfold load_config_unfixed, load_config, chain, chain_fixed. destruct (resolve_path fs incs p) as [rp|]; [|auto].
  apply chain_r_fixed_ok.
Qed.
(* today's loader: a result at any fuel is the result at fuel |files| + 2 *)
Lemma load_config_bound fs incs p fuel r :
  load_config fuel fs incs p = r -> r <> OutOfFuel -> load_config (S (S (List.length (cf_files fs)))) fs incs p = r.
Proof.
  intros H N. destruct (load_config_returns fs incs p) as [_ NF].
  unfold load_config, chain_fixed in *. destruct (resolve_path fs incs p) as [rp|]; [|exact H].
  destruct (Nat.le_ge_cases fuel (S (S (List.length (cf_files fs))))) as [L|L].
  - apply (chain_r_fixed_mono _ _ fuel [] rp r H N _ L).
  - rewrite <- H. symmetry. apply (chain_r_fixed_mono _ _ _ [] rp _ eq_refl NF _ L).
Qed.
(* a request from which a cycle of resolved paths is reached is refused: the loader returns, and what it
   returns cannot be a configuration (a configuration would be one of the loader before the fix, which never returns) *)
Lemma load_config_cycle_is_error fs incs p rp rq :
  resolve_path fs incs p = Some rp ->
  clos_refl_trans _ (rnext (resolve_path fs incs) (file_content fs)) rp rq ->
  clos_trans _ (rnext (resolve_path fs incs) (file_content fs)) rq rq ->
  load_config (S (S (List.length (cf_files fs)))) fs incs p = Err.
Proof.
  intros R RT C. destruct (load_config_returns fs incs p) as [NP NF].
  destruct (load_config (S (S (List.length (cf_files fs)))) fs incs p) as [l| | |] eqn:E; try reflexivity; try congruence.
  exfalso. apply load_config_ok in E. unfold load_config_unfixed, chain in E. rewrite R in E.
  rewrite (chain_r_reach_cycle_diverges _ _ rp rq RT C) in E. discriminate.
Qed.
(* a request from which a cycle of resolved paths is reached is loaded without end *)
Lemma load_config_unfixed_cycle fs incs p rp rq :
  resolve_path fs incs p = Some rp ->
  clos_refl_trans _ (rnext (resolve_path fs incs) (file_content fs)) rp rq ->
  clos_trans _ (rnext (resolve_path fs incs) (file_content fs)) rq rq ->
  forall fuel, load_config_unfixed fuel fs incs p = OutOfFuel.
Proof.
  intros R S C fuel. unfold load_config_unfixed, chain. rewrite R. eapply chain_r_reach_cycle_diverges; eauto.
Qed.

(* ---- witnesses: one file reached through different spellings -------------------------------------- *)
Definition w_dirs : list (list string) := [["w"]; ["w"; "sub"]; ["w"; "inc"]].
(* /w/a.yaml says `include: ./a.yaml` *)
Definition fs_dot : cfs := mkCfs ["w"] w_dirs [(["w"; "a.yaml"], ("a", Some "./a.yaml"))].
(* /w/a.yaml says `include: sub/../a.yaml` (and /w/sub exists) *)
Definition fs_updown : cfs := mkCfs ["w"] w_dirs [(["w"; "a.yaml"], ("a", Some "sub/../a.yaml"))].
(* /w/inc/a.yaml says `include: a.yaml`, found through the include path "inc" *)
Definition fs_incpath : cfs := mkCfs ["w"] w_dirs [(["w"; "inc"; "a.yaml"], ("a", Some "a.yaml"))].
(* /w/a.yaml -> ./b.yaml, /w/b.yaml -> sub/../a.yaml *)
Definition fs_two : cfs := mkCfs ["w"] w_dirs [(["w"; "a.yaml"], ("a", Some "./b.yaml")); (["w"; "b.yaml"], ("b", Some "sub/../a.yaml"))].
(* the same with an absolute path on one side *)
Definition fs_abs : cfs := mkCfs ["w"] w_dirs [(["w"; "a.yaml"], ("a", Some "/w/b.yaml")); (["w"; "b.yaml"], ("b", Some "a.yaml"))].

Ltac rnext_step m inc := exists m, inc; split; [vm_compute; reflexivity|split; [discriminate|vm_compute; reflexivity]].
Lemma spelling_dot_diverges fuel : load_config_unfixed fuel fs_dot [] "a.yaml" = OutOfFuel.
Proof.
  apply (load_config_unfixed_cycle fs_dot [] "a.yaml" "a.yaml" "./a.yaml"); [vm_compute; reflexivity| |].
  - apply rt_step. rnext_step "a" "./a.yaml".
  - apply t_step. rnext_step "a" "./a.yaml".
Qed.
Lemma spelling_updown_diverges fuel : load_config_unfixed fuel fs_updown [] "a.yaml" = OutOfFuel.
Proof.
  apply (load_config_unfixed_cycle fs_updown [] "a.yaml" "a.yaml" "sub/../a.yaml"); [vm_compute; reflexivity| |].
  - apply rt_step. rnext_step "a" "sub/../a.yaml".
  - apply t_step. rnext_step "a" "sub/../a.yaml".
Qed.
Lemma spelling_incpath_diverges fuel : load_config_unfixed fuel fs_incpath ["inc"] "inc/a.yaml" = OutOfFuel.
Proof.
  apply (load_config_unfixed_cycle fs_incpath ["inc"] "inc/a.yaml" "inc/a.yaml" "inc/a.yaml"); [vm_compute; reflexivity|apply rt_refl|].
  apply t_step. rnext_step "a" "a.yaml".
Qed.
Lemma spelling_two_diverges fuel : load_config_unfixed fuel fs_two [] "a.yaml" = OutOfFuel.
Proof.
  apply (load_config_unfixed_cycle fs_two [] "a.yaml" "a.yaml" "./b.yaml"); [vm_compute; reflexivity| |].
  - apply rt_step. rnext_step "a" "./b.yaml".
  - apply t_trans with "sub/../a.yaml"; apply t_step; [rnext_step "b" "sub/../a.yaml"|rnext_step "a" "./b.yaml"].
Qed.
Lemma spelling_abs_diverges fuel : load_config_unfixed fuel fs_abs [] "a.yaml" = OutOfFuel.
Proof.
  apply (load_config_unfixed_cycle fs_abs [] "a.yaml" "a.yaml" "a.yaml"); [vm_compute; reflexivity|apply rt_refl|].
  apply t_trans with "/w/b.yaml"; apply t_step; [rnext_step "a" "/w/b.yaml"|rnext_step "b" "a.yaml"].
Qed.

(* ======================================================================================== *)
(* 2. the sites                                                                                *)
Lemma vidx_lt len i : (i < len)%nat -> vidx len i = Ok tt.
Proof. intro H. unfold vidx. apply Nat.ltb_lt in H. rewrite H. reflexivity. Qed.
Lemma lidx_lt {A} (l : list A) i : (0 <= i < Z.of_nat (List.length l))%Z -> exists x, lidx l i = Ok x.
Proof.
  intro H. unfold lidx. destruct (i <? 0)%Z eqn:E; [apply Z.ltb_lt in E; lia|].
  destruct (nth_error l (Z.to_nat i)) as [x|] eqn:N; [eauto|]. apply nth_error_None in N. lia.
Qed.

Lemma lidx_0 {A} (x : A) l : lidx (x :: l) 0 = Ok x. Proof. reflexivity. Qed.
Lemma lidx_1 {A} (x y : A) l : lidx (x :: y :: l) 1 = Ok y. Proof. reflexivity. Qed.

Lemma alpine_version_skel_returns matched : Returns (alpine_version_skel matched).
Proof. destruct matched; vm_compute; split; discriminate. Qed.
Lemma fetch_offline_skel_returns names : Returns (fetch_offline_skel names).
Proof. unfold fetch_offline_skel. destruct (fold_left _ names None); [apply returns_ok|apply returns_err]. Qed.
Lemma etag_skel_returns present vals : Returns (etag_skel present vals).
Proof.
  unfold etag_skel. destruct present; [|apply returns_ok]. cbn [negb]. destruct vals as [|v vals]; [apply returns_ok|].
  cbn [List.length Nat.eqb]. rewrite lidx_0. cbn [rbind]. destruct (v =? ""); apply returns_ok.
Qed.
Lemma resolve_apk_select_returns n : Returns (resolve_apk_select n).
Proof.
  unfold resolve_apk_select. destruct (n <? 2)%nat eqn:E; [apply returns_err|]. apply Nat.ltb_ge in E.
  rewrite !vidx_lt by lia. cbn [rbind]. destruct (n =? 3)%nat eqn:E3; [|apply returns_ok]. apply Nat.eqb_eq in E3.
  rewrite !vidx_lt by lia. cbn [rbind]. apply returns_ok.
Qed.
(* Split hands ResolveApk two or three parts *)
Lemma split_parts_2_or_3 ms n : split_parts ms = Ok n -> n = 2%nat \/ n = 3%nat.
Proof.
  unfold split_parts. change (fst split_appends) with 2%nat. change (snd split_appends) with 1%nat.
  destruct ms as [|[] rest]; try discriminate.
  - destruct rest as [|[] ?]; try discriminate; intro H; inversion H; auto.
  - intro H; inversion H; auto.
Qed.
Lemma control_value_line_returns wanted line : Returns (control_value_line wanted line).
Proof.
  unfold control_value_line. destruct (List.length (split_on "=" line) =? 2)%nat eqn:E; [|apply returns_ok]. cbn [negb].
  apply Nat.eqb_eq in E. destruct (lidx_lt (split_on "=" line) 0) as (k & K); [lia|]. rewrite K. cbn [rbind].
  destruct (wanted (trim_space k)); [|apply returns_ok]. cbn [negb].
  destruct (lidx_lt (split_on "=" line) 1) as (v & V); [lia|]. rewrite V. apply returns_ok.
Qed.
Lemma map_res_returns {A B} (f : A -> res B) l : (forall x, Returns (f x)) -> Returns (map_res f l).
Proof.
  intro H. induction l as [|x l IH]; cbn [map_res]; [apply returns_ok|].
  apply returns_bind; [apply H|]. intros. apply returns_bind; [exact IH|]. intros. apply returns_ok.
Qed.
Lemma control_values_returns wanted text : Returns (control_values wanted text).
Proof.
  unfold control_values. apply returns_bind; [apply map_res_returns; intro; apply control_value_line_returns|]. intros. apply returns_ok.
Qed.
Lemma busybox_version_skel_returns n : Returns (busybox_version_skel n).
Proof.
  unfold busybox_version_skel. destruct (n =? 1)%nat eqn:E; [|apply returns_err]. apply Nat.eqb_eq in E. subst n. vm_compute. split; discriminate.
Qed.
Lemma env_auth_skel_returns env : Returns (env_auth_skel env).
Proof.
  unfold env_auth_skel. destruct (List.length (split_on ":" env) =? 4)%nat eqn:E; [|apply returns_ok]. cbn [negb]. apply Nat.eqb_eq in E.
  destruct (lidx_lt (split_on ":" env) 0) as (x0 & X0); [lia|]. rewrite X0. cbn [rbind].
  destruct (x0 =? "basic"); [|apply returns_ok]. cbn [negb].
  destruct (lidx_lt (split_on ":" env) 1) as (x1 & X1); [lia|]. destruct (lidx_lt (split_on ":" env) 2) as (x2 & X2); [lia|].
  destruct (lidx_lt (split_on ":" env) 3) as (x3 & X3); [lia|]. rewrite X1, X2, X3. apply returns_ok.
Qed.
Lemma annotation_skel_returns s : Returns (annotation_skel s).
Proof.
  unfold annotation_skel, split_n2. destruct (cut_char ":" s) as [[a b]|]; cbn [List.length Nat.eqb negb]; [|apply returns_err].
  rewrite lidx_0, lidx_1. cbn [rbind]. destruct (b =? ""); [apply returns_err|apply returns_ok].
Qed.
Lemma conflict_name_returns c : Returns (conflict_name c).
Proof.
  unfold conflict_name. destruct (has_prefix "!" c) eqn:H; [|apply returns_ok].
  destruct c as [|a c]; [discriminate|]. unfold gslice_from. cbn [String.length]. cbn. apply returns_ok.
Qed.
Lemma wrap64_id z : (- two63z <= z < two63z)%Z -> wrap64 z = z.
Proof. intro H. unfold wrap64, two63z in *. rewrite Z.mod_small by lia. lia. Qed.
Lemma layer_cutoff_returns len budget : (0 <= budget < two63z)%Z -> Returns (layer_cutoff len budget).
Proof.
  intro H. unfold layer_cutoff. destruct (budget <? len)%Z eqn:E; [|apply returns_ok]. apply Z.ltb_lt in E.
  rewrite wrap64_id by (unfold two63z in *; lia).
  destruct (Z.max (budget - 1) 0 <=? len)%Z eqn:C; [apply returns_ok|]. apply Z.leb_gt in C. lia.
Qed.
Lemma layer_cutoff_min_int_panics : layer_cutoff 1 (- two63z) = Panic.
Proof. vm_compute. reflexivity. Qed.
Lemma split_on_length_ge2 c s : has_char c s = true -> (2 <= List.length (split_on c s))%nat.
Proof.
  induction s as [|a s IH]; cbn [has_char split_on]; [discriminate|].
  destruct (Ascii.eqb a c) eqn:E.
  - intros _. cbn [List.length]. pose proof (split_on_nonnil c s). destruct (split_on c s); [congruence|cbn [List.length]; lia].
  - cbn [orb]. intro H. specialize (IH H).
    destruct (split_on c s); cbn [List.length] in *; lia.
Qed.
Lemma repo_abbr_returns uri : has_char ch_slash uri = true -> Returns (repo_abbr uri).
Proof.
  intro H. unfold repo_abbr. pose proof (split_on_length_ge2 ch_slash uri H).
  destruct (Z.of_nat (List.length (split_on ch_slash uri)) - 2 <? 0)%Z eqn:E; [apply Z.ltb_lt in E; lia|apply returns_ok].
Qed.
Lemma repo_abbr_no_slash_panics : repo_abbr "repo" = Panic.
Proof. vm_compute. reflexivity. Qed.

(* ======================================================================================== *)
(* 3. RemoveLabel's loop: every turn drops at least the "@" and the space                      *)
Lemma cut_char_length c s a b : cut_char c s = Some (a, b) -> (String.length a + String.length b + 1 = String.length s)%nat.
Proof.
  revert a b. induction s as [|x s IH]; intros a b; cbn [cut_char]; [discriminate|].
  destruct (Ascii.eqb x c).
  - intro H. inversion H; subst. cbn [String.length]. lia.
  - destruct (cut_char c s) as [[a' b']|]; [|discriminate]. intro H. inversion H; subst. cbn [String.length]. specialize (IH a' b eq_refl). lia.
Qed.
Lemma remove_label_loop_returns : forall fuel s, (String.length s <= fuel)%nat -> Returns (remove_label_loop fuel s).
Proof.
  induction fuel as [|f IH]; intros s L.
  - destruct s; [apply returns_ok|cbn [String.length] in L; lia].
  - cbn [remove_label_loop]. destruct (has_prefix "@" s); [|apply returns_ok]. cbn [negb].
    unfold split_n2. destruct (cut_char " " s) as [[a b]|] eqn:C; cbn [List.length Nat.ltb Nat.leb]; [|apply returns_err].
    rewrite lidx_1. cbn [rbind]. apply IH. pose proof (cut_char_length _ _ _ _ C). lia.
Qed.
Lemma remove_label_returns s : Returns (remove_label (String.length s) s).
Proof. unfold remove_label. destruct (s =? ""); [apply returns_err|apply remove_label_loop_returns, le_n]. Qed.

(* ======================================================================================== *)
(* 4. work bounds: the scanner loops run once per line, and there are at most |input| + 1 lines;
      strings.Fields looks at every byte once                                                 *)
Lemma split_on_length c s : (List.length (split_on c s) <= S (String.length s))%nat.
Proof.
  induction s as [|a s IH]; cbn [split_on String.length List.length]; [lia|].
  destruct (Ascii.eqb a c); [cbn [List.length]; lia|]. destruct (split_on c s); cbn [List.length] in *; lia.
Qed.
Lemma drop_last_empty_length l : (List.length (drop_last_empty l) <= List.length l)%nat.
Proof.
  induction l as [|x l IH]; [apply le_n|]. cbn [drop_last_empty]. destruct x; [destruct l; cbn [List.length] in *; lia|cbn [List.length]; lia].
Qed.
Lemma take_short_length max l : (List.length (fst (take_short max l)) <= List.length l)%nat.
Proof.
  induction l as [|x l IH]; [apply le_n|]. cbn [take_short]. destruct (nlen x + 1 <=? max)%N; [|cbn; lia].
  destruct (take_short max l) as [r t]. cbn [fst List.length] in *. lia.
Qed.
Lemma scan_lines_bounded max s : (List.length (fst (scan_lines max s)) <= S (String.length s))%nat.
Proof.
  unfold scan_lines, raw_lines. pose proof (take_short_length max (drop_last_empty (split_on ch_nl s))).
  pose proof (drop_last_empty_length (split_on ch_nl s)). pose proof (split_on_length ch_nl s). lia.
Qed.
Lemma space_mask_length s : forall k, List.length (space_mask s k) = String.length s.
Proof.
  induction s as [|a s IH]; intro k; [reflexivity|]. cbn [space_mask String.length].
  destruct k; [destruct (space_len (String a s))|]; cbn [List.length]; rewrite IH; reflexivity.
Qed.
Lemma fields_mask_length s : forall m, (List.length (fields_mask s m) <= String.length s)%nat.
Proof.
  induction s as [|c s IH]; intro m; [destruct m; cbn; lia|].
  destruct m as [|b m]; [cbn; lia|]. destruct b; [cbn [fields_mask String.length]; specialize (IH m); lia|].
  cbn [fields_mask String.length]. destruct s as [|c' s']; [specialize (IH m); cbn [List.length]; cbn in IH; destruct m; cbn; lia|].
  destruct m as [|b' m']; [cbn; lia|]. destruct b'.
  - specialize (IH (true :: m')). cbn [List.length]. lia.
  - specialize (IH (false :: m')). destruct (fields_mask (String c' s') (false :: m')); cbn [List.length] in *; lia.
Qed.
Lemma go_fields_length s : (List.length (go_fields s) <= String.length s)%nat.
Proof. apply fields_mask_length. Qed.

(* ======================================================================================== *)
(* 5. tarfs FS.open: every recursive call raises the hop counter, so maxHops + 2 calls are enough  *)
Lemma tarfs_incr_hard : (1 <= fst tarfs_hop_incr)%Z. Proof. vm_compute. discriminate. Qed.
Lemma tarfs_incr_sym : (1 <= snd tarfs_hop_incr)%Z. Proof. vm_compute. discriminate. Qed.
Lemma tarfs_open_returns idx : forall fuel name hops,
  (1 <= fuel)%nat -> (tarfs_max_hops + 2 - hops <= Z.of_nat fuel)%Z -> Returns (tarfs_open fuel idx name hops).
Proof.
  pose proof tarfs_incr_hard as Hh. pose proof tarfs_incr_sym as Hs.
  induction fuel as [|f IH]; intros name hops H1 L; [lia|].
  cbn [tarfs_open]. destruct (tarfs_max_hops <? hops)%Z eqn:E; [apply returns_err|]. apply Z.ltb_ge in E.
  destruct (alookup name idx) as [e|]; [|apply returns_err].
  destruct (tn_kind e =? 1)%Z; [apply IH; lia|]. destruct (tn_kind e =? 2)%Z; [apply IH; lia|apply returns_ok].
Qed.
Lemma tarfs_open_name_returns es name : Returns (tarfs_open_name es name).
Proof.
  unfold tarfs_open_name, tarfs_fuel. assert (M : (0 <= tarfs_max_hops)%Z) by (vm_compute; discriminate).
  apply tarfs_open_returns; [apply Nat2Z.inj_le; rewrite Z2Nat.id; lia|rewrite Z2Nat.id; lia].
Qed.
(* more fuel changes nothing once the chase has ended *)
Lemma tarfs_open_mono idx : forall fuel name hops r, tarfs_open fuel idx name hops = r -> r <> OutOfFuel ->
  forall fuel', (fuel <= fuel')%nat -> tarfs_open fuel' idx name hops = r.
Proof.
  induction fuel as [|f IH]; intros name hops r H N fuel' L; [cbn in H; congruence|].
  destruct fuel' as [|f']; [lia|]. cbn [tarfs_open] in *. destruct (tarfs_max_hops <? hops)%Z; [exact H|].
  destruct (alookup name idx) as [e|]; [|exact H].
  destruct (tn_kind e =? 1)%Z; [apply (IH _ _ _ H N); lia|]. destruct (tn_kind e =? 2)%Z; [apply (IH _ _ _ H N); lia|exact H].
Qed.

(* ======================================================================================== *)
(* 6. the loops over tar entries: at most |stream| / 512 + 1 turns                              *)
Lemma div_shrink n n' : (n' + 512 <= n)%N -> (N.to_nat (n' / 512) < N.to_nat (n / 512))%nat.
Proof.
  intro K. assert (H : (n' / 512 < n / 512)%N).
  { apply N.div_lt_upper_bound; [lia|]. assert (E : (n = 512 * (n / 512) + n mod 512)%N) by (apply N.div_mod; lia).
    pose proof (N.mod_lt n 512). lia. }
  lia.
Qed.
Lemma tar_loop_returns next body le : consumes next ->
  forall fuel n turns, (N.to_nat (n / tar_block) < fuel)%nat -> Returns (tar_loop next body le true fuel n turns).
Proof.
  intro C. induction fuel as [|f IH]; intros n turns L; [exfalso; exact (Nat.nlt_0_r _ L)|].
  cbn [tar_loop]. destruct (next n) as [n'| |] eqn:E.
  - destruct (body n'); [|apply returns_err]. apply IH. pose proof (div_shrink n n' (C n n' E)) as K. unfold tar_block in *. lia.
  - rewrite Bool.orb_true_r. apply returns_ok.
  - apply returns_err.
Qed.
Lemma tar_loop_turns next body le : consumes next ->
  forall fuel n turns k, tar_loop next body le true fuel n turns = Ok k -> (k <= turns + S (N.to_nat (n / tar_block)))%nat.
Proof.
  intro C. induction fuel as [|f IH]; intros n turns k H; [discriminate|].
  cbn [tar_loop] in H. destruct (next n) as [n'| |] eqn:E.
  - destruct (body n'); [|discriminate]. apply IH in H. pose proof (div_shrink n n' (C n n' E)) as K. unfold tar_block in *. lia.
  - rewrite Bool.orb_true_r in H. inversion H. set (q := N.to_nat (n / tar_block)). clearbody q. lia.
  - discriminate.
Qed.
Lemma tar_sites_all_leave : forall site, In site tar_next_loops -> snd (snd site) = true.
Proof. intros site I. repeat (destruct I as [<-|I]; [reflexivity|]). destruct I. Qed.
Lemma site_loop_returns site next body n : In site tar_next_loops -> consumes next -> Returns (site_loop site next body n).
Proof.
  intros I C. unfold site_loop. rewrite (tar_sites_all_leave site I). apply tar_loop_returns; [exact C|]. unfold tar_fuel. apply Nat.lt_succ_diag_r.
Qed.
(* a loop that does not leave on an error turns forever on a reader that keeps handing it the error *)
Lemma tar_loop_ignoring_errors_diverges body le : forall fuel n turns, tar_loop (fun _ => TErr) body le false fuel n turns = OutOfFuel.
Proof. induction fuel as [|f IH]; intros; [reflexivity|]. cbn [tar_loop]. apply IH. Qed.
