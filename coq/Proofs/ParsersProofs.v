(* C15 — the modelled readers never panic. *)
From Apko Require Import Base.Prelude Base.C16Lib Model.Formats Model.Parsers Spec.ParsersSpec.
Open Scope string_scope. Open Scope list_scope.

Lemma rbind_np {A B} (r : res A) (f : A -> res B) :
  r <> Panic -> (forall a, r = Ok a -> f a <> Panic) -> rbind r f <> Panic.
Proof. destruct r; simpl; intros H1 H2; try congruence. apply H2. reflexivity. Qed.
Lemma rbind_nf {A B} (r : res A) (f : A -> res B) :
  r <> OutOfFuel -> (forall a, r = Ok a -> f a <> OutOfFuel) -> rbind r f <> OutOfFuel.
Proof. destruct r; simpl; intros H1 H2; try congruence. apply H2. reflexivity. Qed.
Lemma from_opt_np {A} (o : option A) : from_opt o <> Panic.
Proof. destruct o; discriminate. Qed.
Lemma from_opt_nf {A} (o : option A) : from_opt o <> OutOfFuel.
Proof. destruct o; discriminate. Qed.

Lemma gslice_ok s lo hi : (lo <= hi)%nat -> (hi <= String.length s)%nat -> exists r, gslice s lo hi = Ok r.
Proof.
  intros H1 H2. unfold gslice. apply Nat.leb_le in H1. apply Nat.leb_le in H2. rewrite H1, H2. simpl. eauto.
Qed.
Lemma gslice_from_ok s lo : (lo <= String.length s)%nat -> exists r, gslice_from s lo = Ok r.
Proof. intro H. unfold gslice_from. apply Nat.leb_le in H. rewrite H. eauto. Qed.
Lemma gslice_to_ok s hi : (hi <= String.length s)%nat -> exists r, gslice_to s hi = Ok r.
Proof. intro H. unfold gslice_to. apply Nat.leb_le in H. rewrite H. eauto. Qed.
Lemma gslice_nf s lo hi : gslice s lo hi <> OutOfFuel.
Proof. unfold gslice. destruct (_ && _); discriminate. Qed.
Lemma gslice_from_nf s lo : gslice_from s lo <> OutOfFuel.
Proof. unfold gslice_from. destruct (_ <=? _)%nat; discriminate. Qed.
Lemma gslice_to_nf s lo : gslice_to s lo <> OutOfFuel.
Proof. unfold gslice_to. destruct (_ <=? _)%nat; discriminate. Qed.

Lemma has_prefix_len p s : has_prefix p s = true -> (String.length p <= String.length s)%nat.
Proof.
  revert s. induction p as [|a p IH]; intros s H; simpl; [lia|].
  destruct s as [|b s]; simpl in H; [discriminate|]. apply andb_true_iff in H. destruct H as [_ H].
  apply IH in H. simpl. lia.
Qed.

(* a line of at least two bytes splits without a panic *)
Lemma idx_split_np l : idx_split l <> Panic.
Proof.
  unfold idx_split. destruct (String.length l <? 2)%nat eqn:E; [discriminate|].
  apply Nat.ltb_ge in E.
  destruct (gslice_ok l 1 2 ltac:(lia) E) as [c Hc]. rewrite Hc. simpl.
  destruct (negb (c =? ":")); [discriminate|].
  destruct (gslice_to_ok l 1 ltac:(lia)) as [t Ht]. rewrite Ht. simpl.
  destruct (gslice_from_ok l 2 E) as [v Hv]. rewrite Hv. simpl. discriminate.
Qed.
Lemma idx_split_nf l : idx_split l <> OutOfFuel.
Proof.
  unfold idx_split. destruct (String.length l <? 2)%nat; [discriminate|].
  destruct (gslice l 1 2) eqn:E1; simpl; try discriminate; [|exfalso; eapply gslice_nf; eauto].
  destruct (negb (a =? ":")); [discriminate|].
  destruct (gslice_to l 1) eqn:E2; simpl; try discriminate; [|exfalso; eapply gslice_to_nf; eauto].
  destruct (gslice_from l 2) eqn:E3; simpl; try discriminate. exfalso; eapply gslice_from_nf; eauto.
Qed.
Lemma inst_split_np l : inst_split l <> Panic.
Proof.
  unfold inst_split. destruct (String.length l <? 2)%nat eqn:E; simpl; [discriminate|].
  apply Nat.ltb_ge in E.
  destruct (gslice_ok l 1 2 ltac:(lia) E) as [c Hc]. rewrite Hc. simpl.
  destruct (negb (c =? ":")); [discriminate|].
  destruct (gslice_to_ok l 1 ltac:(lia)) as [t Ht]. rewrite Ht. simpl.
  destruct (gslice_from_ok l 2 E) as [v Hv]. rewrite Hv. simpl. discriminate.
Qed.
Lemma inst_split_nf l : inst_split l <> OutOfFuel.
Proof.
  unfold inst_split. destruct (String.length l <? 2)%nat; simpl; [discriminate|].
  destruct (gslice l 1 2) eqn:E1; simpl; try discriminate; [|exfalso; eapply gslice_nf; eauto].
  destruct (negb (a =? ":")); [discriminate|].
  destruct (gslice_to l 1) eqn:E2; simpl; try discriminate; [|exfalso; eapply gslice_to_nf; eauto].
  destruct (gslice_from l 2) eqn:E3; simpl; try discriminate. exfalso; eapply gslice_from_nf; eauto.
Qed.

Section Codec.
Variable dec : string -> option (list N).

Ltac field_step :=
  match goal with
  | |- (if ?c then _ else _) <> _ => destruct c eqn:?
  end.

Lemma pkg_field_np with_r tok val p : pkg_field dec with_r tok val p <> Panic.
Proof.
  unfold pkg_field.
  repeat (field_step; [ first [ discriminate
                              | apply rbind_np; [apply from_opt_np | intros; discriminate] ] | ]).
  field_step; [|discriminate]. field_step; [|discriminate].
  match goal with H : has_prefix "Q1" val = true |- _ => apply has_prefix_len in H; simpl in H end.
  destruct (gslice_from_ok val 2 ltac:(assumption)) as [v Hv]. rewrite Hv. simpl.
  apply rbind_np; [apply from_opt_np | intros; discriminate].
Qed.
Lemma pkg_field_nf with_r tok val p : pkg_field dec with_r tok val p <> OutOfFuel.
Proof.
  unfold pkg_field.
  repeat (field_step; [ first [ discriminate
                              | apply rbind_nf; [apply from_opt_nf | intros; discriminate] ] | ]).
  field_step; [|discriminate]. field_step; [|discriminate].
  apply rbind_nf; [apply gslice_from_nf|]. intros. apply rbind_nf; [apply from_opt_nf | intros; discriminate].
Qed.

Lemma idx_lines_np ls : forall cur acc, idx_lines dec ls cur acc <> Panic.
Proof.
  induction ls as [|l ls IH]; intros cur acc; simpl; [discriminate|].
  destruct (String.length l =? 0)%nat; [apply IH|].
  apply rbind_np; [apply idx_split_np|]. intros tv _.
  apply rbind_np; [apply pkg_field_np|]. intros r _. apply IH.
Qed.
Lemma idx_lines_nf ls : forall cur acc, idx_lines dec ls cur acc <> OutOfFuel.
Proof.
  induction ls as [|l ls IH]; intros cur acc; simpl; [discriminate|].
  destruct (String.length l =? 0)%nat; [apply IH|].
  apply rbind_nf; [apply idx_split_nf|]. intros tv _.
  apply rbind_nf; [apply pkg_field_nf|]. intros r _. apply IH.
Qed.

Lemma parse_index_max_returns max s : Returns (parse_index_max dec max s).
Proof.
  unfold parse_index_max. destruct (scan_lines max s) as [lines tl]. split.
  - apply rbind_np; [apply idx_lines_np|]. intros. destruct (_ && _); discriminate.
  - apply rbind_nf; [apply idx_lines_nf|]. intros. destruct (_ && _); discriminate.
Qed.

Lemma parse_perms_np s : parse_perms s <> Panic.
Proof.
  unfold parse_perms. destruct (split_on ":" s) as [|a [|b [|c [|d l]]]]; try discriminate.
  apply rbind_np; [apply from_opt_np|]. intros. apply rbind_np; [apply from_opt_np|]. intros.
  apply rbind_np; [apply from_opt_np|]. intros. discriminate.
Qed.
Lemma parse_perms_nf s : parse_perms s <> OutOfFuel.
Proof.
  unfold parse_perms. destruct (split_on ":" s) as [|a [|b [|c [|d l]]]]; try discriminate.
  apply rbind_nf; [apply from_opt_nf|]. intros. apply rbind_nf; [apply from_opt_nf|]. intros.
  apply rbind_nf; [apply from_opt_nf|]. intros. discriminate.
Qed.

Lemma inst_field_np tok val st : inst_field dec tok val st <> Panic.
Proof.
  unfold inst_field. apply rbind_np; [apply pkg_field_np|]. intros r _.
  destruct r; [discriminate|].
  destruct (tok =? "F"); [discriminate|].
  destruct (tok =? "M").
  { destruct (i_ldir st) as [[k n]|]; [|discriminate].
    apply rbind_np; [apply parse_perms_np|]. intros [[u g] m] _. discriminate. }
  destruct (tok =? "R"); [discriminate|].
  destruct (tok =? "a"); [|discriminate].
  destruct (i_lfile st); [|discriminate].
  apply rbind_np; [apply parse_perms_np|]. intros [[u g] m] _. discriminate.
Qed.
Lemma inst_field_nf tok val st : inst_field dec tok val st <> OutOfFuel.
Proof.
  unfold inst_field. apply rbind_nf; [apply pkg_field_nf|]. intros r _.
  destruct r; [discriminate|].
  destruct (tok =? "F"); [discriminate|].
  destruct (tok =? "M").
  { destruct (i_ldir st) as [[k n]|]; [|discriminate].
    apply rbind_nf; [apply parse_perms_nf|]. intros [[u g] m] _. discriminate. }
  destruct (tok =? "R"); [discriminate|].
  destruct (tok =? "a"); [|discriminate].
  destruct (i_lfile st); [|discriminate].
  apply rbind_nf; [apply parse_perms_nf|]. intros [[u g] m] _. discriminate.
Qed.

Lemma inst_lines_np ls : forall st acc, inst_lines dec ls st acc <> Panic.
Proof.
  induction ls as [|l ls IH]; intros st acc; simpl; [discriminate|].
  destruct (l =? ""); [apply IH|].
  apply rbind_np; [apply inst_split_np|]. intros tv _.
  apply rbind_np; [apply inst_field_np|]. intros r _. apply IH.
Qed.
Lemma inst_lines_nf ls : forall st acc, inst_lines dec ls st acc <> OutOfFuel.
Proof.
  induction ls as [|l ls IH]; intros st acc; simpl; [discriminate|].
  destruct (l =? ""); [apply IH|].
  apply rbind_nf; [apply inst_split_nf|]. intros tv _.
  apply rbind_nf; [apply inst_field_nf|]. intros r _. apply IH.
Qed.
Lemma parse_installed_max_returns max s : Returns (parse_installed_max dec max s).
Proof.
  unfold parse_installed_max. destruct (scan_lines max s) as [lines tl]. split.
  - apply rbind_np; [apply inst_lines_np|]. intros. destruct (_ && _); discriminate.
  - apply rbind_nf; [apply inst_lines_nf|]. intros. destruct (_ && _); discriminate.
Qed.
End Codec.

(* ---- passwd / group ---------------------------------------------------------- *)
Lemma parse_user_returns l : Returns (parse_user l).
Proof.
  unfold parse_user. destruct (split_on ":" (trim_space l)) as [|a [|b [|c [|d [|e [|f [|g [|h t]]]]]]]]; try (split; discriminate).
  split.
  - apply rbind_np; [apply from_opt_np|]. intros. apply rbind_np; [apply from_opt_np|]. intros. discriminate.
  - apply rbind_nf; [apply from_opt_nf|]. intros. apply rbind_nf; [apply from_opt_nf|]. intros. discriminate.
Qed.
Lemma parse_group_returns l : Returns (parse_group l).
Proof.
  unfold parse_group. destruct (split_on ":" (trim_space l)) as [|a [|b [|c [|d [|e t]]]]]; try (split; discriminate).
  split.
  - apply rbind_np; [apply from_opt_np|]. intros. discriminate.
  - apply rbind_nf; [apply from_opt_nf|]. intros. discriminate.
Qed.
Lemma map_res_returns {A B} (f : A -> res B) : (forall x, Returns (f x)) -> forall l, Returns (map_res f l).
Proof.
  intros Hf l. induction l as [|x l [I1 I2]]; simpl; [split; discriminate|]. destruct (Hf x) as [F1 F2]. split.
  - apply rbind_np; [exact F1|]. intros. apply rbind_np; [exact I1|]. intros. discriminate.
  - apply rbind_nf; [exact F2|]. intros. apply rbind_nf; [exact I2|]. intros. discriminate.
Qed.
Lemma load_file_returns {A} (parse : string -> res A) max s : (forall x, Returns (parse x)) -> Returns (load_file parse max s).
Proof.
  intro Hp. unfold load_file. destruct (scan_lines max s) as [lines tl].
  destruct (map_res_returns parse Hp lines) as [M1 M2]. split.
  - apply rbind_np; [exact M1|]. intros. destruct tl; discriminate.
  - apply rbind_nf; [exact M2|]. intros. destruct tl; discriminate.
Qed.

(* ---- skeletons ------------------------------------------------------------------ *)
Lemma parse_version_skel_returns matched n : Returns (parse_version_skel matched n).
Proof.
  assert (E : submatch_len version_regex = 14%nat) by (vm_compute; reflexivity).
  unfold parse_version_skel. rewrite E. destruct matched; [|split; discriminate].
  destruct n; simpl; split; discriminate.
Qed.
Lemma resolve_pin_skel_returns matched : Returns (resolve_pin_skel matched).
Proof.
  assert (E : submatch_len package_name_regex = 7%nat) by (vm_compute; reflexivity).
  unfold resolve_pin_skel. rewrite E. destruct matched; simpl; split; discriminate.
Qed.
Lemma cached_package_slice_returns chk : Returns (cached_package_slice chk).
Proof.
  unfold cached_package_slice. destruct (has_prefix "Q1" chk) eqn:E; simpl; [|split; discriminate].
  apply has_prefix_len in E. simpl in E. destruct (gslice_from_ok chk 2 E) as [v Hv]. rewrite Hv. split; discriminate.
Qed.

Lemma install_hidden_test_returns started name : Returns (install_hidden_test started name).
Proof. unfold install_hidden_test. destruct started; split; discriminate. Qed.
Lemma standardize_path_returns p : Returns (standardize_path p).
Proof. unfold standardize_path. split; discriminate. Qed.
Lemma make_groups_returns b : Returns (make_groups b).
Proof. unfold make_groups. destruct (b <? 0)%Z; split; discriminate. Qed.

(* sortTarHeaders: a directory entry whose cleaned name is "." is its own child:
   no amount of fuel suffices (the Go code recurses until the stack overflows) *)
Definition dot_dir : hdr := mkHdr "./" true 493 0 0 "".
Lemma sort_children_dot_diverges fuel :
  sort_children fuel (dir_children [dot_dir]) (all_headers [dot_dir]) ["."] = OutOfFuel.
Proof. induction fuel as [|f IH]; [reflexivity|]. cbn -[sort_children] in *. simpl. rewrite IH. reflexivity. Qed.
