(* C13 — the order of the steps of buildImage (read from the source by
   goextract) and what the pipeline model amounts to under that order. *)
From Apko Require Import Base.Prelude Model.C13Fs Model.Accounts Model.PathMut Model.C13Build Generated.C13Consts.
Open Scope string_scope. Open Scope list_scope.

Definition c13_step (s : string) : bool :=
  String.eqb s "mutateAccounts" || String.eqb s "WriteEtcApkoConfig" || String.eqb s "mutatePaths".

(* among the steps C13 speaks about, the source's order is: accounts, the
   image's own config file, declared path mutations *)
Lemma steps_order_pinned :
  filter c13_step build_image_steps = ["mutateAccounts"; "WriteEtcApkoConfig"; "mutatePaths"].
Proof. reflexivity. Qed.

Lemma fbind_ret : forall {A} (r : fres A), fbind r (fun x => FOk x) = r.
Proof. intros A []; reflexivity. Qed.

(* the other steps (supervision tree, busybox links, device nodes) are the
   identity in the model, wherever they stand *)
Lemma build_step_other : forall maxl users groups muts n st,
  c13_step n = false -> build_step maxl users groups muts n st = FOk st.
Proof.
  intros maxl users groups muts n [f ra] H. unfold c13_step in H.
  apply orb_false_iff in H. destruct H as [H H3]. apply orb_false_iff in H. destruct H as [H1 H2].
  unfold build_step. rewrite H1, H2, H3. reflexivity.
Qed.
Lemma build_steps_filter : forall maxl users groups muts names st,
  build_steps maxl users groups muts names st = build_steps maxl users groups muts (filter c13_step names) st.
Proof.
  intros maxl users groups muts names. induction names as [|n t IH]; intro st; [reflexivity|].
  cbn [build_steps filter]. destruct (c13_step n) eqn:E.
  - cbn [build_steps]. destruct (build_step maxl users groups muts n st); cbn [fbind]; auto.
  - rewrite (build_step_other _ _ _ _ _ _ E). cbn [fbind]. apply IH.
Qed.

(* with the order found in the source, the pipeline is: mutateAccounts on the
   tree the packages produced, then etc/apko.json, then mutatePaths *)
Lemma build_image_unfold : forall maxl f users groups ra muts,
  build_image maxl f users groups ra muts =
  fdo r <- mutate_accounts maxl f users groups ra;
  fdo f2 <- write_apko_config maxl (fst r);
  fdo f3 <- mutate_paths maxl f2 muts;
  FOk (f3, snd r).
Proof.
  intros. unfold build_image. rewrite build_steps_filter, steps_order_pinned.
  cbn [build_steps]. unfold build_step at 1. cbn [String.eqb Ascii.eqb Bool.eqb].
  destruct (mutate_accounts maxl f users groups ra) as [[f1 ra1]| | |]; cbn [fbind fst snd]; try reflexivity.
  unfold build_step at 1. cbn [String.eqb Ascii.eqb Bool.eqb].
  destruct (write_apko_config maxl f1) as [f2| | |]; cbn [fbind]; try reflexivity.
  unfold build_step at 1. cbn [String.eqb Ascii.eqb Bool.eqb].
  destruct (mutate_paths maxl f2 muts) as [f3| | |]; cbn [fbind]; reflexivity.
Qed.
