(* C13 — the order of the steps of buildImage (read from the source by
   goextract) and what the pipeline model amounts to under that order. *)
From Apko Require Import Base.Prelude Model.C13Fs Model.Accounts Model.PathMut Model.C13Build Generated.C13Consts.
Open Scope string_scope. Open Scope list_scope.

Definition c13_step (s : string) : bool :=
  String.eqb s "mutateAccounts" || String.eqb s "WriteEtcApkoConfig" || String.eqb s "mutatePaths".

(* among the steps C13 speaks about, the source's order is: accounts, the
   image's own config file, declared path mutations *)
Lemma steps_order_pinned :
  filter c13_step build_image_steps = ["mutateAccounts"; "WriteEtcApkoConfig"; "mutatePaths"].
Proof. reflexivity. Qed.

Lemma fbind_ret : forall {A} (r : fres A), fbind r (fun x => FOk x) = r.
Proof. intros A []; reflexivity. Qed.

(* the other steps (supervision tree, busybox links, device nodes) are the
   identity in the model, wherever they stand *)
Lemma build_step_other : forall maxl users groups muts n st,
  c13_step n = false -> build_step maxl users groups muts n st = FOk st.
Proof.
  intros maxl users groups muts n [f ra] H. unfold c13_step in H.
  apply orb_false_iff in H. destruct H as [H H3]. apply orb_false_iff in H. destruct H as [H1 H2].
  unfold build_step. rewrite H1, H2, H3. reflexivity.
Qed.
Lemma build_steps_filter : forall maxl users groups muts names st,
  build_steps maxl users groups muts names st = build_steps maxl users groups muts (filter c13_step names) st.
Proof.
  intros maxl users groups muts names. induction names as [|n t IH]; intro st; [reflexivity|].
  cbn [build_steps filter]. destruct (c13_step n) eqn:E.
  - cbn [build_steps]. destruct (build_step maxl users groups muts n st); cbn [fbind]; auto.
  - rewrite (build_step_other _ _ _ _ _ _ E). cbn [fbind]. apply IH.
Qed.

(* with the order found in the source, the pipeline is: mutateAccounts on the
   tree the packages produced, then etc/apko.json, then mutatePaths *)
Lemma build_image_unfold : forall maxl f users groups ra muts,
  build_image maxl f users groups ra muts =
  fdo r <- mutate_accounts maxl f users groups ra;
  fdo f2 <- write_apko_config maxl (fst r);
  fdo f3 <- mutate_paths maxl f2 muts;
  FOk (f3, snd r).
Proof.
  intros. unfold build_image. rewrite build_steps_filter, steps_order_pinned.
  cbn [build_steps]. unfold build_step at 1. cbn [String.eqb Ascii.eqb Bool.eqb].
  destruct (mutate_accounts maxl f users groups ra) as [[f1 ra1]| | |]; cbn [fbind fst snd]; try reflexivity.
  unfold build_step at 1. cbn [String.eqb Ascii.eqb Bool.eqb].
  destruct (write_apko_config maxl f1) as [f2| | |]; cbn [fbind]; try reflexivity.
  unfold build_step at 1. cbn [String.eqb Ascii.eqb Bool.eqb].
  destruct (mutate_paths maxl f2 muts) as [f3| | |]; cbn [fbind]; reflexivity.
Qed.

(* ---- base-image builds ------------------------------------------------------------------ *)
Lemma build_steps_b_false : forall maxl users groups muts names st,
  build_steps_b maxl false users groups muts names st = build_steps maxl users groups muts names st.
Proof.
  intros maxl users groups muts names. induction names as [|n t IH]; intro st; [reflexivity|].
  cbn [build_steps_b build_steps]. unfold build_step_b. rewrite andb_false_r. cbn [andb].
  destruct (build_step maxl users groups muts n st); cbn [fbind]; auto.
Qed.
(* without a base image the guarded pipeline is the pipeline *)
Lemma build_image_b_false : forall maxl f users groups ra muts,
  build_image_b maxl false f users groups ra muts = build_image maxl f users groups ra muts.
Proof. intros. unfold build_image_b, build_image. apply build_steps_b_false. Qed.

(* with a base image the accounts step is skipped (the guard read from the source):
   the configured users and groups play no part, run-as is not resolved *)
Lemma build_step_b_other : forall maxl b users groups muts n st,
  c13_step n = false -> build_step_b maxl b users groups muts n st = FOk st.
Proof.
  intros maxl b users groups muts n st H. unfold build_step_b.
  assert (E : String.eqb n "mutateAccounts" = false).
  { unfold c13_step in H. apply orb_false_iff in H. destruct H as [H _]. apply orb_false_iff in H. apply H. }
  rewrite E. cbn [andb]. apply build_step_other. exact H.
Qed.
Lemma build_steps_b_filter : forall maxl b users groups muts names st,
  build_steps_b maxl b users groups muts names st = build_steps_b maxl b users groups muts (filter c13_step names) st.
Proof.
  intros maxl b users groups muts names. induction names as [|n t IH]; intro st; [reflexivity|].
  cbn [build_steps_b filter]. destruct (c13_step n) eqn:E.
  - cbn [build_steps_b]. destruct (build_step_b maxl b users groups muts n st); cbn [fbind]; auto.
  - rewrite (build_step_b_other _ _ _ _ _ _ _ E). cbn [fbind]. apply IH.
Qed.
Lemma build_image_b_true : forall maxl f users groups ra muts,
  build_image_b maxl true f users groups ra muts =
  fdo f2 <- write_apko_config maxl f;
  fdo f3 <- mutate_paths maxl f2 muts;
  FOk (f3, ra).
Proof.
  intros. unfold build_image_b. rewrite build_steps_b_filter, steps_order_pinned.
  cbn [build_steps_b]. unfold build_step_b at 1. change accounts_skipped_with_base_image with true.
  cbn [String.eqb Ascii.eqb Bool.eqb andb fbind].
  unfold build_step_b at 1. cbn [String.eqb Ascii.eqb Bool.eqb andb]. unfold build_step at 1. cbn [String.eqb Ascii.eqb Bool.eqb].
  destruct (write_apko_config maxl f) as [f2| | |]; cbn [fbind]; try reflexivity.
  unfold build_step_b at 1. cbn [String.eqb Ascii.eqb Bool.eqb andb]. unfold build_step at 1. cbn [String.eqb Ascii.eqb Bool.eqb].
  destruct (mutate_paths maxl f2 muts) as [f3| | |]; cbn [fbind]; reflexivity.
Qed.

(* what is then left of etc/passwd and etc/group: the accounts step being skipped,
   a node is changed only by etc/apko.json's Create/Chmod and by the declared path
   mutations; in particular with no mutation touching them the two files are the
   base image's, bit for bit *)
Lemma build_image_b_true_no_paths : forall maxl f users groups ra f' ra',
  build_image_b maxl true f users groups ra [] = FOk (f', ra') ->
  ra' = ra /\ write_apko_config maxl f = FOk f'.
Proof.
  intros maxl f users groups ra f' ra' H. rewrite build_image_b_true in H.
  destruct (write_apko_config maxl f) as [f2| | |]; cbn [fbind mutate_paths] in H; try discriminate. inversion H. auto.
Qed.
