(* C13 — exactness: WHICH nodes a mutation touches, and what a list of
   mutations applied in order leaves on a node.
   - [reach]: the set of nodes the walk of a recursive directory mutation
     chmods/chowns: the directory, everything below it through entries that are
     not symbolic links, and the TARGETS of the symbolic-link entries met on the
     way (fs.WalkDir does not descend a link, but the callback's Chmod/Chown
     resolve it);
   - a node outside [reach] is bit for bit what it was, a node inside carries
     exactly the declared mode and owner;
   - empty-file at path level;
   - [touched] / [touched_seq]: the nodes one mutation / a list may change; a node
     that no LATER mutation touches keeps what an earlier one gave it (order). *)
From Apko Require Import Base.Prelude Model.C13Fs Model.Accounts Model.PathMut Generated.C13Consts
  Spec.AccountsSpec Spec.PathMutSpec Proofs.AccountsProofs Proofs.PathMutProofs Proofs.PathMutResolve
  Proofs.PathMutFrame Proofs.PathMutFuel Proofs.PathMutKinds Proofs.PathMutWf.
Open Scope nat_scope. Open Scope string_scope. Open Scope list_scope.

Section Exact.
Variable maxl : nat.

(* ---- Chmod+Chown of one path, exactly ----------------------------------------------------------- *)
Lemma perms_direct_exact : forall f p perm u g f',
  perms_direct maxl f p perm u g = FOk f' ->
  exists i a, gn maxl f p = FOk i /\ get f i = Some a /\
    f' = set_nth (set_nth f i (with_perm a perm)) i (with_owner (with_perm a perm) u g).
Proof.
  intros f p perm u g f' H. unfold perms_direct in H.
  apply fbind_ok in H. destruct H as (f1 & Hcm & Hco).
  unfold chmod in Hcm. apply fbind_ok in Hcm. destruct Hcm as (i & Hgn & Hu1).
  apply upd_res_inv in Hu1. destruct Hu1 as (n & Hget & ->).
  unfold chown in Hco. apply fbind_ok in Hco. destruct Hco as (i' & Hgn' & Hu2).
  assert (Hsh1 : fs_same_shape f (set_nth f i (with_perm n perm))).
  { eapply set_nth_same_shape; eauto. repeat split. }
  unfold gn in *. rewrite <- (getnode_same_shape _ _ _ _ Hsh1) in Hgn'.
  rewrite Hgn in Hgn'. inversion Hgn'; subst i'. clear Hgn'.
  apply upd_res_inv in Hu2. destruct Hu2 as (n1 & Hget1 & ->).
  rewrite (get_set_nth_eq _ _ _ _ Hget) in Hget1. inversion Hget1; subst n1.
  exists i, n. auto.
Qed.
Lemma perms_direct_node : forall f p perm u g f' i a,
  perms_direct maxl f p perm u g = FOk f' -> gn maxl f p = FOk i -> get f i = Some a ->
  get f' i = Some (with_owner (with_perm a perm) u g) /\ (forall j, j <> i -> get f' j = get f j).
Proof.
  intros f p perm u g f' i a H Gi Ga. destruct (perms_direct_exact _ _ _ _ _ _ H) as (i' & a' & Gi' & Ga' & ->).
  rewrite Gi in Gi'. inversion Gi'; subst i'. rewrite Ga in Ga'. inversion Ga'; subst a'.
  assert (G1 : get (set_nth f i (with_perm a perm)) i = Some (with_perm a perm)) by (eapply get_set_nth_eq; eauto).
  split; [eapply get_set_nth_eq; eauto|]. intros j Hj. rewrite !get_set_nth_neq by auto. reflexivity.
Qed.

Lemma walk_ok_gn : forall perm u g fuel f p isdir f', walk maxl fuel f p isdir perm u g = FOk f' -> exists i, gn maxl f p = FOk i.
Proof.
  intros perm u g [|fuel] f p isdir f' H; [discriminate|]. simpl in H. apply fbind_ok_r in H. destruct H as (f1 & H1 & _).
  destruct (perms_direct_exact _ _ _ _ _ _ H1) as (i & _ & Gi & _). eauto.
Qed.

(* ---- the set of nodes a recursive walk reaches --------------------------------------------------- *)
Inductive reach (f : fs) : path -> nat -> nat -> Prop :=
| reach_self : forall p i, reach f p i i
| reach_child : forall p i n nm c cn j,
    get f i = Some n -> is_dir n = true -> lookup nm (nchildren n) = Some c ->
    get f c = Some cn -> nkind cn <> KSym -> reach f (child_path p nm) c j -> reach f p i j
| reach_link : forall p i n nm c cn j,
    get f i = Some n -> is_dir n = true -> lookup nm (nchildren n) = Some c ->
    get f c = Some cn -> nkind cn = KSym -> gn maxl f (child_path p nm) = FOk j -> reach f p i j.

Lemma below_reach : forall f i j, below f i j -> forall p, reach f p i j.
Proof.
  intros f i j H. induction H as [i|i n nm c cn j Hi Hd Hl Hc Hk Hb IH]; intro p; [constructor|].
  eapply reach_child; eauto.
Qed.

Lemma reach_transport : forall f g p i j,
  same_listing f g -> (forall d cs, getnode d g cs = getnode d f cs) -> reach f p i j -> reach g p i j.
Proof.
  intros f g p i j (_ & S) R H. induction H as [p i|p i n nm c cn j Hi Hd Hl Hc Hk Hb IH|p i n nm c cn j Hi Hd Hl Hc Hk Hg]; [constructor| |].
  - pose proof (S i) as Si. pose proof (S c) as Sc. rewrite Hi in Si. rewrite Hc in Sc.
    destruct (get g i) as [n'|] eqn:Gi; [|contradiction]. destruct (get g c) as [cn'|] eqn:Gc; [|contradiction].
    destruct Si as (K1 & E1). destruct Sc as (K2 & _).
    eapply (reach_child g p i n' nm c cn'); eauto.
    + unfold is_dir in *. rewrite <- K1. exact Hd.
    + rewrite <- E1. exact Hl.
    + rewrite <- K2. exact Hk.
  - pose proof (S i) as Si. pose proof (S c) as Sc. rewrite Hi in Si. rewrite Hc in Sc.
    destruct (get g i) as [n'|] eqn:Gi; [|contradiction]. destruct (get g c) as [cn'|] eqn:Gc; [|contradiction].
    destruct Si as (K1 & E1). destruct Sc as (K2 & _).
    eapply (reach_link g p i n' nm c cn'); eauto.
    + unfold is_dir in *. rewrite <- K1. exact Hd.
    + rewrite <- E1. exact Hl.
    + rewrite <- K2. exact Hk.
    + unfold gn in *. rewrite R. exact Hg.
Qed.

(* nothing outside [reach] is touched by the walk: such a node is what it was *)
Lemma walk_exact : forall perm u g fuel f p isdir f' i,
  no_shadow f -> walk maxl fuel f p isdir perm u g = FOk f' -> gn maxl f p = FOk i ->
  forall j, j <> i -> (isdir = true -> ~ reach f p i j) -> get f' j = get f j.
Proof.
  intros perm u g. induction fuel as [|fuel IH]; intros f p isdir f' i NS H Gi j Hji Hnr; [discriminate|]. simpl in H.
  apply fbind_ok_r in H. destruct H as (f1 & H1 & H).
  destruct (perms_direct_changes maxl (fun _ => True) (fun _ _ => True) _ _ _ _ _ _ I I H1) as (i' & Gi' & Gi1 & _ & R1 & _).
  assert (i' = i) by congruence. subst i'.
  pose proof (perms_direct_listing maxl _ _ _ _ _ _ H1) as S1.
  assert (E1 : get f1 j = get f j).
  { destruct (perms_direct_exact _ _ _ _ _ _ H1) as (i0 & a & G0 & Ga & _). rewrite Gi in G0. inversion G0; subst i0.
    apply (proj2 (perms_direct_node _ _ _ _ _ _ _ _ H1 Gi Ga)). exact Hji. }
  destruct isdir; [|inversion H; subst; exact E1].
  specialize (Hnr eq_refl).
  apply fbind_ok_r in H. destruct H as (dn & Hdn & H). unfold gnode in Hdn. rewrite Gi1 in Hdn. cbn [fbind] in Hdn.
  destruct (get f1 i) as [dn1|] eqn:Gd1; [|discriminate]. inversion Hdn; subst dn1. clear Hdn.
  destruct (negb (is_dir dn)) eqn:Hdir; [discriminate|]. apply negb_false_iff in Hdir.
  assert (Hni : exists ni, get f i = Some ni /\ nchildren ni = nchildren dn /\ nkind ni = nkind dn).
  { pose proof (proj2 S1 i) as S1i. rewrite Gd1 in S1i. destruct (get f i) as [ni|]; [|contradiction]. destruct S1i. eauto. }
  destruct Hni as (ni & Gni & Ecd & Ekd).
  assert (Dni : is_dir ni = true) by (unfold is_dir in *; rewrite Ekd; exact Hdir).
  rewrite <- E1.
  assert (X : forall cs fa, same_listing f fa -> (forall d cs0, getnode d fa cs0 = getnode d f cs0) ->
              (forall nm c, In (nm, c) cs -> In (nm, c) (nchildren dn)) ->
              (fix each (f0 : fs) (cs0 : list (string * nat)) {struct cs0} : fres fs :=
                 match cs0 with
                 | [] => FOk f0
                 | (nm, c) :: t =>
                     match get f0 c with
                     | Some cn => fdo f'0 <- walk maxl fuel f0 (child_path p nm) (is_dir cn) perm u g; each f'0 t
                     | None => FErr
                     end
                 end) fa cs = FOk f' -> get f' j = get fa j).
  { induction cs as [|[nm c] t IHt]; intros fa Sa Ra Hsub Hx.
    - inversion Hx; subst. reflexivity.
    - destruct (get fa c) as [cna|] eqn:Gca; [|discriminate]. apply fbind_ok_r in Hx. destruct Hx as (fb & Hw & Hx).
      destruct (walk_changes maxl (fun _ => True) (fun _ _ => True) perm u g I I _ _ _ _ _ Hw) as (_ & _ & Rw & _).
      pose proof (walk_listing maxl _ _ _ _ _ _ _ _ Hw) as Lw.
      rewrite (IHt fb (same_listing_trans _ _ _ Sa Lw) (fun d cs0 => eq_trans (Rw d cs0) (Ra d cs0))
                 (fun nm0 c0 Hin => Hsub nm0 c0 (or_intror Hin)) Hx).
      (* the walk of this entry leaves j alone *)
      destruct (walk_ok_gn _ _ _ _ _ _ _ _ Hw) as (c' & Gc').
      assert (Hin : In (nm, c) (nchildren ni)) by (rewrite Ecd; apply Hsub; left; reflexivity).
      assert (Hlk : lookup nm (nchildren ni) = Some c) by (eapply NS; eauto).
      destruct Sa as (La & Sa'). pose proof (Sa' c) as Sc. rewrite Gca in Sc.
      destruct (get f c) as [cn|] eqn:Gc; [|contradiction]. destruct Sc as (Kc & _).
      pose proof (Sa' i) as Si. rewrite Gni in Si.
      destruct (get fa i) as [nia|] eqn:Gnia; [|contradiction]. destruct Si as (_ & Eci).
      assert (NSa : no_shadow fa) by (eapply no_shadow_same_listing; [split; [exact La | exact Sa'] | exact NS]).
      assert (Gcf : gn maxl f (child_path p nm) = FOk c') by (unfold gn in *; rewrite <- Ra; exact Gc').
      destruct (kind_eqb (nkind cn) KSym) eqn:Ks.
      + (* a symbolic-link entry: only what it resolves to is changed *)
        assert (Kcn : nkind cn = KSym) by (destruct (nkind cn); simpl in Ks; try discriminate; reflexivity).
        assert (Hfl : is_dir cna = false) by (unfold is_dir; rewrite <- Kc, Kcn; reflexivity).
        rewrite Hfl in Hw.
        apply (IH fa (child_path p nm) false fb c' NSa Hw Gc'); [|discriminate].
        intro E. subst j. apply Hnr. eapply reach_link; eauto.
      + assert (Kcn : nkind cn <> KSym) by (intro E; rewrite E in Ks; discriminate).
        assert (c' = c).
        { assert (G : gn maxl fa (child_path p nm) = FOk c).
          { unfold gn, child_path. cbn [p_comps]. eapply getnode_snoc; eauto.
            - rewrite Ra. exact Gi.
            - rewrite <- Eci. exact Hlk.
            - rewrite <- Kc. exact Kcn. }
          congruence. }
        subst c'.
        apply (IH fa (child_path p nm) (is_dir cna) fb c NSa Hw Gc').
        * intro E. subst j. apply Hnr. eapply reach_child; eauto. constructor.
        * intros _ Hr. apply Hnr. eapply reach_child; eauto.
          eapply reach_transport; [apply same_listing_sym; split; [exact La | exact Sa'] | | exact Hr].
          intros d cs0. symmetry. apply Ra. }
  apply (X (nchildren dn) f1 S1 R1 (fun _ _ Hin => Hin) H).
Qed.

(* ... and every node of [reach] ends with the declared mode and owner *)
Theorem walk_covers_reach : forall perm u g fuel f p isdir f' i,
  walk maxl fuel f p isdir perm u g = FOk f' -> gn maxl f p = FOk i ->
  (forall n, get f i = Some n -> isdir = is_dir n) ->
  forall j, reach f p i j -> has_attrs_at perm u g f' j.
Proof.
  intros perm u g. induction fuel as [|fuel IH]; intros f p isdir f' i H Gi Hflag j Hb; [discriminate|]. simpl in H.
  apply fbind_ok_r in H. destruct H as (f1 & H1 & H).
  destruct (perms_direct_changes maxl (fun q => q = perm) (fun a b => a = u /\ b = g) _ _ _ _ _ _ eq_refl (conj eq_refl eq_refl) H1)
    as (i' & Gi' & Gi1 & C1 & R1 & L1).
  assert (i' = i) by congruence. subst i'.
  pose proof (perms_direct_listing maxl _ _ _ _ _ _ H1) as S1.
  assert (Hi1 : has_attrs_at perm u g f1 i).
  { destruct (PathMutProofs.perms_direct_post maxl _ _ _ _ _ _ H1) as (n & Hs & A). unfold stat, gnode in Hs. rewrite Gi1 in Hs. cbn [fbind] in Hs.
    destruct (get f1 i) as [x|] eqn:Gx; [|discriminate]. inversion Hs; subst x. exists n. split; [exact Gx | exact A]. }
  destruct isdir.
  - apply fbind_ok_r in H. destruct H as (dn & Hdn & H). unfold gnode in Hdn. rewrite Gi1 in Hdn. cbn [fbind] in Hdn.
    destruct (get f1 i) as [dn1|] eqn:Gd1; [|discriminate]. inversion Hdn; subst dn1. clear Hdn.
    destruct (negb (is_dir dn)); [discriminate|].
    assert (Hni : exists ni, get f i = Some ni /\ nchildren ni = nchildren dn).
    { pose proof (proj2 S1 i) as S1i. rewrite Gd1 in S1i. destruct (get f i) as [ni|]; [|contradiction]. destruct S1i. eauto. }
    destruct Hni as (ni & Gni & Ecd).
    assert (X : forall cs fa, same_listing f fa -> (forall d cs0, getnode d fa cs0 = getnode d f cs0) ->
              (fix each (f0 : fs) (cs0 : list (string * nat)) {struct cs0} : fres fs :=
                 match cs0 with
                 | [] => FOk f0
                 | (nm, c) :: t =>
                     match get f0 c with
                     | Some cn => fdo f'0 <- walk maxl fuel f0 (child_path p nm) (is_dir cn) perm u g; each f'0 t
                     | None => FErr
                     end
                 end) fa cs = FOk f' ->
              (forall k, has_attrs_at perm u g fa k -> has_attrs_at perm u g f' k) /\
              (forall nm c cn k, In (nm, c) cs -> lookup nm (nchildren dn) = Some c -> get f c = Some cn ->
                 (nkind cn <> KSym /\ reach f (child_path p nm) c k \/ nkind cn = KSym /\ gn maxl f (child_path p nm) = FOk k) ->
                 has_attrs_at perm u g f' k)).
    { induction cs as [|[nm c] t IHt]; intros fa Sa Ra Hx.
      - inversion Hx; subst. split; [auto | intros ? ? ? ? []].
      - destruct (get fa c) as [cna|] eqn:Gca; [|discriminate]. apply fbind_ok_r in Hx. destruct Hx as (fb & Hw & Hx).
        destruct (walk_changes maxl (fun q => q = perm) (fun a b => a = u /\ b = g) perm u g eq_refl (conj eq_refl eq_refl) _ _ _ _ _ Hw) as (Sw & Cw & Rw & _).
        pose proof (walk_listing maxl _ _ _ _ _ _ _ _ Hw) as Lw.
        destruct (IHt fb (same_listing_trans _ _ _ Sa Lw) (fun d cs0 => eq_trans (Rw d cs0) (Ra d cs0)) Hx) as (K1 & K2).
        split; [intros k Hk; apply K1; eapply has_attrs_kept; eauto|].
        intros nm' c' cn' k [E|Hin] Hlk Hgc Hcase; [|eapply K2; eauto].
        inversion E; subst nm' c'. apply K1.
        destruct Sa as (La & Sa'). pose proof (Sa' c) as Sc. rewrite Hgc, Gca in Sc. destruct Sc as (Kc & _).
        pose proof (Sa' i) as Si. rewrite Gni in Si.
        destruct (get fa i) as [nia|] eqn:Gnia; [|contradiction]. destruct Si as (_ & Eci).
        destruct Hcase as [(Hks & Hbk)|(Hks & Hgk)].
        + assert (Gc : gn maxl fa (child_path p nm) = FOk c).
          { unfold gn, child_path. cbn [p_comps]. eapply getnode_snoc; eauto.
            - rewrite Ra. exact Gi.
            - rewrite <- Eci, Ecd. exact Hlk.
            - rewrite <- Kc. exact Hks. }
          eapply (IH fa (child_path p nm) (is_dir cna) fb c Hw Gc).
          * intros x Hxg. rewrite Gca in Hxg. inversion Hxg. reflexivity.
          * eapply reach_transport; [split; [exact La | exact Sa'] | exact Ra | exact Hbk].
        + (* the link's target: the callback chmods through the link *)
          assert (Hfl : is_dir cna = false) by (unfold is_dir; rewrite <- Kc, Hks; reflexivity).
          rewrite Hfl in Hw. destruct fuel as [|fuel']; [discriminate|]. simpl in Hw.
          apply fbind_ok_r in Hw. destruct Hw as (fc & Hp & Hw). inversion Hw; subst fc.
          destruct (perms_direct_changes maxl (fun _ => True) (fun _ _ => True) _ _ _ _ _ _ I I Hp) as (k' & Gk' & Gk1 & _ & _ & _).
          assert (k' = k) by (unfold gn in *; rewrite Ra in Gk'; congruence). subst k'.
          destruct (PathMutProofs.perms_direct_post maxl _ _ _ _ _ _ Hp) as (n & Hs & A). unfold stat, gnode in Hs. rewrite Gk1 in Hs. cbn [fbind] in Hs.
          destruct (get fb k) as [x|] eqn:Gx; [|discriminate]. inversion Hs; subst x. exists n. split; [exact Gx | exact A]. }
    destruct (X (nchildren dn) f1 S1 R1 H) as (K1 & K2).
    inversion Hb as [|? ? n nm c cn ? Hgi Hdi Hl Hc Hk Hbc|? ? n nm c cn ? Hgi Hdi Hl Hc Hk Hgk]; subst.
    + apply K1. exact Hi1.
    + rewrite Gni in Hgi. inversion Hgi; subst n.
      eapply (K2 nm c cn); eauto; [apply lookup_in|]; rewrite <- Ecd; exact Hl.
    + rewrite Gni in Hgi. inversion Hgi; subst n.
      eapply (K2 nm c cn); eauto; [apply lookup_in|]; rewrite <- Ecd; exact Hl.
  - inversion H; subst f'.
    inversion Hb as [|? ? n nm c cn ? Hgi Hdi Hl Hc Hk Hbc|? ? n nm c cn ? Hgi Hdi Hl Hc Hk Hgk]; subst; [exact Hi1| |];
      pose proof (Hflag n Hgi) as Hfl; rewrite Hdi in Hfl; discriminate.
Qed.

(* ---- the recursive directory mutation, exactly ---------------------------------------------------- *)
Theorem directory_recursive_exact : forall f m f',
  no_shadow f -> m_type m = "directory" -> m_recursive m = true -> mutate_one maxl f m = FOk f' ->
  let p := path_of (m_path m) in
  exists f0 t, mkdirall maxl f p (m_perm m) = FOk f0 /\ gn maxl f0 p = FOk t /\
    fs_ext f f0 /\ (forall i n, List.length f <= i -> get f0 i = Some n -> fresh_dir (m_perm m) n) /\
    (forall j, reach f0 p t j -> has_attrs_at (m_perm m) (m_uid m) (m_gid m) f' j) /\
    (forall j, ~ reach f0 p t j -> get f' j = get f0 j) /\
    (forall j, below f0 t j -> reach f0 p t j).
Proof.
  intros f m f' NS Hty Hrec H p. unfold mutate_one in H.
  assert (Hfn : assoc (m_type m) path_mutators = Some "mutateDirectory") by (rewrite Hty; reflexivity).
  rewrite Hfn in H. change (mutator_named maxl "mutateDirectory") with (Some (mutate_directory maxl)) in H. cbv iota beta in H.
  apply fbind_ok_r in H. destruct H as (f1 & Hpm & H). rewrite Hty in H. cbn [String.eqb Ascii.eqb Bool.eqb] in H.
  unfold mutate_permissions in H. fold p in H.
  destruct (perms_direct_changes maxl (fun q => q = m_perm m) (fun a b => a = m_uid m /\ b = m_gid m) _ _ _ _ _ _ eq_refl (conj eq_refl eq_refl) H)
    as (t' & Gt1 & _ & Ct & _ & _).
  unfold mutate_directory in Hpm. fold p in Hpm. apply fbind_ok_r in Hpm. destruct Hpm as (f0 & Hmk & Hpm). rewrite Hrec in Hpm.
  apply fbind_ok_r in Hpm. destruct Hpm as (sn & Hs & Hw).
  unfold stat, gnode in Hs. destruct (gn maxl f0 p) as [i| | |] eqn:Gi; try discriminate. cbn [fbind] in Hs.
  destruct (get f0 i) as [x|] eqn:Gx; [|discriminate]. inversion Hs; subst x.
  destruct (mkdirall_spec _ _ _ _ _ Hmk) as (Ext & _ & Fresh).
  assert (NS0 : no_shadow f0) by (eapply (g_mkdirall maxl no_shadow (no_shadow_growth maxl)); eauto).
  destruct (walk_changes maxl (fun _ => True) (fun _ _ => True) _ _ _ I I _ _ _ _ _ Hw) as (_ & _ & Rw & _).
  assert (t' = i) by (unfold gn in *; rewrite Rw in Gt1; congruence). subst t'.
  exists f0, i. split; [exact Hmk|]. split; [exact Gi|]. split; [exact Ext|]. split; [exact Fresh|]. split; [|split].
  - intros j Hb. eapply has_attrs_kept; [exact Ct|].
    eapply walk_covers_reach; eauto. intros n Hn. rewrite Gx in Hn. inversion Hn. reflexivity.
  - intros j Hnr. assert (Hji : j <> i) by (intro E; subst j; apply Hnr; constructor).
    transitivity (get f1 j).
    + destruct (perms_direct_exact _ _ _ _ _ _ H) as (i0 & a & G0 & Ga & _). rewrite Gt1 in G0. inversion G0; subst i0.
      apply (proj2 (perms_direct_node _ _ _ _ _ _ _ _ H Gt1 Ga)). exact Hji.
    + eapply walk_exact; eauto.
  - intros j Hb. apply below_reach. exact Hb.
Qed.

(* ---- empty-file, at path level ---------------------------------------------------------------------- *)
Lemma fs_same_shape_direct_idx : forall f g p, fs_same_shape f g -> direct_idx maxl f p = direct_idx maxl g p.
Proof.
  intros f g p Hs. unfold direct_idx, gnode, gn. rewrite !(getnode_same_shape _ _ _ _ Hs).
  destruct (pbase p) as [b|]; [|reflexivity].
  destruct (getnode maxl g (p_comps (pdir p))) as [d| | |]; try reflexivity. cbn [fbind].
  pose proof (Hs d) as Hd. destruct (get f d) as [x|], (get g d) as [y|]; try contradiction; try reflexivity.
  destruct Hd as (_ & _ & E). cbn [fbind]. rewrite E. reflexivity.
Qed.
Lemma upd_same_shape : forall f i (h : node -> node), (forall n, same_shape n (h n)) -> fs_same_shape f (upd f i h).
Proof.
  intros f i h Hh. unfold upd. destruct (get f i) as [n|] eqn:Hn.
  - eapply set_nth_same_shape; eauto.
  - intro j. destruct (get f j); [repeat split | exact I].
Qed.
Lemma direct_idx_ext : forall f g p c, fs_ext f g -> direct_idx maxl f p = FOk c -> direct_idx maxl g p = FOk c.
Proof.
  intros f g p c He H. unfold direct_idx in *. destruct (pbase p) as [b|]; [|unfold gn in *; eapply getnode_ext; eauto].
  unfold gnode, gn in *. destruct (getnode maxl f (p_comps (pdir p))) as [d| | |] eqn:Hd; try discriminate. cbn [fbind] in H.
  rewrite (getnode_ext _ _ _ _ _ He Hd). cbn [fbind].
  destruct (get f d) as [dn|] eqn:Gd; [|discriminate]. destruct (He d dn Gd) as (dn' & Gd' & (_ & _ & _ & _ & _ & _ & _ & Hch)).
  rewrite Gd'. cbn [fbind] in *. destruct (lookup b (nchildren dn)) as [c0|] eqn:Hl; [|discriminate]. inversion H; subst c0.
  rewrite (Hch b c Hl). reflexivity.
Qed.

(* the first step of openFile *)
Lemma openfile_first : forall k f p perm f2 o,
  openfile maxl k f p perm = FOk (f2, o) ->
  exists d dn b, gn maxl f (pdir p) = FOk d /\ get f d = Some dn /\ pbase p = Some b /\
    ((lookup b (nchildren dn) = None /\ f2 = fst (new_child f d b (mkNode KFile perm 0 0 "" "" [] "")) /\ o = List.length f) \/
     (exists cn, lookup b (nchildren dn) = Some o /\ get f o = Some cn /\ nkind cn <> KDir /\ nkind cn <> KSym /\ f2 = f) \/
     (exists c cn, lookup b (nchildren dn) = Some c /\ get f c = Some cn /\ nkind cn = KSym /\ fs_ext f f2)).
Proof.
  intros k f p perm f2 o H.
  assert (X : match k with O => True | S k' => forall f' p' , openfile maxl k' f' p' perm = FOk (f2, o) -> fs_ext f' f2 end).
  { destruct k; [exact I|]. intros f' p' Hx. eapply openfile_ext; eauto. }
  destruct k as [|k]; simpl in H;
    apply fbind_ok_r in H; destruct H as (d & Hd & H);
    (destruct (get f d) as [dn|] eqn:Hgd; [|discriminate]);
    (destruct (pbase p) as [b|] eqn:Hb; [|discriminate]);
    (destruct (negb (is_dir dn)); [discriminate|]);
    exists d, dn, b; (split; [exact Hd|]); (split; [exact Hgd|]); (split; [reflexivity|]);
    destruct (lookup b (nchildren dn)) as [c|] eqn:Hl.
  - destruct (get f c) as [cn|] eqn:Hc; [|discriminate]. destruct (nkind cn) eqn:K; try discriminate;
      inversion H; subst; right; left; exists cn; rewrite K; repeat split; auto; discriminate.
  - inversion H; subst. left. auto.
  - destruct (get f c) as [cn|] eqn:Hc; [|discriminate]. destruct (nkind cn) eqn:K; try discriminate.
    + inversion H; subst; right; left; exists cn; rewrite K; repeat split; auto; discriminate.
    + right; right. exists c, cn. repeat split; auto. eapply X; eauto.
    + inversion H; subst; right; left; exists cn; rewrite K; repeat split; auto; discriminate.
  - inversion H; subst. left. auto.
Qed.

(* the path mutateEmptyFile works on: the declared path without its trailing
   slash — because the source cleans it (fix 10a6051, read by goextract), or because
   there is none *)
Lemma empty_file_target_eq : forall s,
  forallb tidy (p_comps (path_of s)) = true -> (empty_file_path_cleaned = true \/ p_trail (path_of s) = false) ->
  empty_file_target s = mkPath (p_abs (path_of s)) (p_comps (path_of s)) false.
Proof.
  intros s Ht Hc. unfold empty_file_target. destruct empty_file_path_cleaned.
  - unfold pclean. rewrite (clean_tidy _ _ Ht). reflexivity.
  - destruct Hc as [Hc|Hc]; [discriminate|]. destruct (path_of s) as [a c t]. cbn in *. subst t. reflexivity.
Qed.

Theorem empty_file_path : forall f m f',
  m_type m = "empty-file" -> mutate_one maxl f m = FOk f' ->
  let p0 := path_of (m_path m) in
  let p := mkPath (p_abs p0) (p_comps p0) false in
  forallb tidy (p_comps p0) = true -> (empty_file_path_cleaned = true \/ p_trail p0 = false) ->
  (forall l, direct maxl f' p = FOk l -> nkind l <> KSym) ->
  exists t n, gn maxl f' p0 = FOk t /\ direct_idx maxl f' p = FOk t /\ get f' t = Some n /\
    ndata n = "" /\ edata n = nback n /\ (tarfs_trunc_detaches = true -> edata n = "") /\
    nperm n = m_perm m /\ nuid n = m_uid m /\ ngid n = m_gid m /\
    nkind n <> KDir /\ nkind n <> KSym /\
    (List.length f <= t -> nkind n = KFile) /\
    (forall n0, get f t = Some n0 -> nkind n = nkind n0).
Proof.
  intros f m f' Hty H p0 p Htidy0 Hclean Hnosym. unfold mutate_one in H.
  assert (Htidy : forallb tidy (p_comps p) = true) by exact Htidy0.
  assert (Htrail : p_trail p = false) by reflexivity.
  assert (Hfn : assoc (m_type m) path_mutators = Some "mutateEmptyFile") by (rewrite Hty; reflexivity).
  rewrite Hfn in H. change (mutator_named maxl "mutateEmptyFile") with (Some (mutate_empty_file maxl)) in H. cbv iota beta in H.
  apply fbind_ok_r in H. destruct H as (f1 & Hpm & H). rewrite Hty in H. cbn [String.eqb Ascii.eqb Bool.eqb] in H.
  unfold mutate_permissions in H. fold p0 in H.
  (* Chmod/Chown resolve the declared path by its components: a trailing slash does not matter *)
  change (perms_direct maxl f1 p0 (m_perm m) (m_uid m) (m_gid m)) with (perms_direct maxl f1 p (m_perm m) (m_uid m) (m_gid m)) in H.
  unfold mutate_empty_file in Hpm. rewrite (empty_file_target_eq _ Htidy0 Hclean) in Hpm. fold p0 in Hpm. fold p in Hpm.
  apply fbind_ok_r in Hpm. destruct Hpm as (f0 & Hmk & Hcw).
  unfold ensure_parent in Hmk. destruct (mkdirall_spec _ _ _ _ _ Hmk) as (Ext0 & Len0 & Fresh0).
  unfold create_write in Hcw. apply fbind_ok_r in Hcw. destruct Hcw as ([f2 o] & Ho & Hcw). inversion Hcw; subst f1. clear Hcw.
  destruct (openfile_first _ _ _ _ _ _ Ho) as (d & dn & b & Gd & Gdn & Hb & Hcases).
  assert (Hne : p_comps p <> []).
  { intro E. unfold pbase in Hb. rewrite E in Hb. discriminate. }
  destruct (tidy_split p Htidy Htrail Hne) as (ps & b' & Ecs & Edir & Eb). rewrite Hb in Eb. inversion Eb; subst b'. clear Eb.
  (* the entry stored under the path once openFile is done, and its kind *)
  assert (Hent : exists c cn2, direct_idx maxl f2 p = FOk c /\ get f2 c = Some cn2 /\
                   (nkind cn2 = KSym \/ (c = o /\ nkind cn2 <> KDir /\ nkind cn2 <> KSym /\
                                         (List.length f <= o -> nkind cn2 = KFile) /\
                                         (forall n0, get f o = Some n0 -> nkind cn2 = nkind n0)))).
  { destruct Hcases as [(Hl & -> & ->)|[(cn & Hl & Gc & K1 & K2 & ->)|(c & cn & Hl & Gc & K & Ext2)]].
    - exists (List.length f0), (mkNode KFile create_perm 0 0 "" "" [] ""). split; [|split].
      + unfold direct_idx. rewrite Hb. unfold gnode, gn in *.
        rewrite (getnode_ext _ _ _ _ _ (new_child_ext f0 d b _ dn Gdn Hl) Gd). cbn [fbind].
        rewrite (new_child_get_parent f0 d b _ dn Gdn). cbn [fbind with_children nchildren]. rewrite lookup_app, Hl, lookup_single. reflexivity.
      + eapply new_child_get_new; eauto.
      + right. split; [reflexivity|]. split; [discriminate|]. split; [discriminate|]. split; [reflexivity|].
        intros n0 G0. apply get_lt in G0. lia.
    - exists o, cn. split; [|split; [exact Gc|]].
      + unfold direct_idx. rewrite Hb. unfold gnode. rewrite Gd. cbn [fbind]. rewrite Gdn. cbn [fbind]. rewrite Hl. reflexivity.
      + right. split; [reflexivity|]. split; [exact K1|]. split; [exact K2|]. split.
        * intro Hle. exfalso. destruct (Fresh0 o cn Hle Gc) as (Kd & _). contradiction.
        * intros n0 G0. destruct (Ext0 o n0 G0) as (n0' & G0' & (Kk & _)). rewrite Gc in G0'. inversion G0'; subst n0'. exact Kk.
    - destruct (Ext2 c cn Gc) as (cn2 & Gc2 & (Kk & _)). exists c, cn2. split; [|split; [exact Gc2|left; congruence]].
      eapply direct_idx_ext; [exact Ext2|]. unfold direct_idx. rewrite Hb. unfold gnode. rewrite Gd. cbn [fbind]. rewrite Gdn. cbn [fbind]. rewrite Hl. reflexivity. }
  destruct Hent as (c & cn2 & Hdi2 & Gc2 & Hk).
  set (f1 := upd f2 o (fun n => trunc_write n "")) in *.
  assert (Sh : fs_same_shape f2 f1) by (apply upd_same_shape; intro n; repeat split).
  assert (Hdi1 : direct_idx maxl f1 p = FOk c) by (rewrite <- (fs_same_shape_direct_idx _ _ _ Sh); exact Hdi2).
  pose proof (perms_direct_keeps_entry maxl _ _ _ _ _ _ _ _ H Hdi1) as Hdi'.
  destruct (perms_direct_exact _ _ _ _ _ _ H) as (t & a & Gt1 & Ga & Ef').
  destruct (perms_direct_node _ _ _ _ _ _ _ _ H Gt1 Ga) as (Gt' & Gother).
  destruct (perms_direct_changes maxl (fun _ => True) (fun _ _ => True) _ _ _ _ _ _ I I H) as (t0 & Gt0 & Gtf' & (_ & Ck) & _ & _).
  assert (t0 = t) by congruence. subst t0.
  (* kind of the entry in the final tree *)
  assert (Gc1 : exists cn1, get f1 c = Some cn1 /\ nkind cn1 = nkind cn2 /\ (c = o -> cn1 = trunc_write cn2 "")).
  { unfold f1. destruct (Nat.eq_dec o c) as [->|Hne'].
    - exists (trunc_write cn2 ""). split; [exact (get_upd_eq f2 c _ cn2 Gc2)|]. split; [reflexivity | auto].
    - exists cn2. split; [rewrite get_upd_neq; auto|]. split; [reflexivity | intro E; congruence]. }
  destruct Gc1 as (cn1 & Gc1 & Kc1 & Eo).
  destruct (Ck c cn1 Gc1) as (cn' & Gc' & (Kc' & _)).
  destruct Hk as [Ksym|(-> & K1 & K2 & Knew & Kold)].
  - exfalso. apply (Hnosym cn'); [|congruence].
    eapply direct_of_idx; eauto. rewrite Hb. discriminate.
  - (* the path resolves to the opened node *)
    assert (Gf1 : gn maxl f1 p = FOk o).
    { unfold direct_idx in Hdi1. rewrite Hb in Hdi1. unfold gnode in Hdi1.
      destruct (gn maxl f1 (pdir p)) as [d1| | |] eqn:Gd1; try discriminate. cbn [fbind] in Hdi1.
      destruct (get f1 d1) as [dn1|] eqn:Gdn1; [|discriminate]. cbn [fbind] in Hdi1.
      destruct (lookup b (nchildren dn1)) as [c0|] eqn:Hl1; [|discriminate]. inversion Hdi1; subst c0.
      unfold gn in *. rewrite Ecs. rewrite Edir in Gd1. eapply getnode_snoc; eauto. congruence. }
    assert (t = o) by congruence. subst t.
    rewrite Gc1 in Ga. inversion Ga; subst a. rewrite (Eo eq_refl) in Gt'.
    exists o, (with_owner (with_perm (trunc_write cn2 "") (m_perm m)) (m_uid m) (m_gid m)).
    split; [exact Gtf'|]. split; [exact Hdi'|]. split; [exact Gt'|].
    cbn [with_owner with_perm trunc_write ndata nback nperm nuid ngid nkind edata].
    split; [reflexivity|]. split; [reflexivity|].
    split; [intro E; unfold edata; cbn [with_owner with_perm trunc_write ndata nback]; rewrite E; reflexivity|].
    repeat split; auto.
Qed.

(* ---- which nodes a mutation may change, and lists applied in order ---------------------------------- *)
Definition same_attrs (a b : node) : Prop :=
  nkind b = nkind a /\ nperm b = nperm a /\ nuid b = nuid a /\ ngid b = ngid a /\ ndata b = ndata a /\ ntarget b = ntarget a.
Lemma same_attrs_refl : forall a, same_attrs a a. Proof. intro a. repeat split. Qed.
Lemma same_attrs_trans : forall a b c, same_attrs a b -> same_attrs b c -> same_attrs a c.
Proof. intros a b c (A1&A2&A3&A4&A5&A6) (B1&B2&B3&B4&B5&B6). repeat split; congruence. Qed.
Lemma node_ext_same_attrs : forall a b, node_ext a b -> same_attrs a b.
Proof. intros a b (K & P & U & G & T & D & _). repeat split; assumption. Qed.

(* [touched f m j]: j is what m's path resolves to afterwards; or the file an
   empty-file mutation opened; or a node the walk of a recursive directory
   mutation reaches *)
Definition touched (f : fs) (m : mutation) (j : nat) : Prop :=
  let p := path_of (m_path m) in
  (exists f', mutate_one maxl f m = FOk f' /\ gn maxl f' p = FOk j) \/
  (m_type m = "empty-file" /\ exists f1 f2, ensure_parent maxl f (empty_file_target (m_path m)) = FOk f1 /\
                                            openfile maxl maxl f1 (empty_file_target (m_path m)) create_perm = FOk (f2, j)) \/
  (m_type m = "directory" /\ m_recursive m = true /\
   exists f0 t, mkdirall maxl f p (m_perm m) = FOk f0 /\ gn maxl f0 p = FOk t /\ reach f0 p t j).

Lemma touched_simple : forall f m j, simple m = true -> touched f m j ->
  exists f', mutate_one maxl f m = FOk f' /\ gn maxl f' (path_of (m_path m)) = FOk j.
Proof.
  intros f m j Hs [H|[(Hty & _)|(Hty & Hrec & _)]]; [exact H| |]; unfold simple in Hs; rewrite Hty in Hs; try rewrite Hrec in Hs; discriminate.
Qed.

Theorem mutate_one_untouched : forall f m f' j a,
  no_shadow f -> mutate_one maxl f m = FOk f' -> get f j = Some a -> ~ touched f m j ->
  exists a', get f' j = Some a' /\ same_attrs a a'.
Proof.
  intros f m f' j a NS H Gj Hnt.
  destruct (mutate_one_frame maxl _ _ _ H) as (t & S & Gt & (_ & C) & Hs).
  assert (Hjt : j <> t) by (intro E; subst j; apply Hnt; left; eauto).
  destruct (simple m) eqn:Hsim.
  - rewrite (Hs eq_refl) in C. destruct (C j a Gj) as (b & Gb & (K & T & _ & _ & _ & _ & F)). exists b. split; [exact Gb|].
    destruct F as (P & U & G & D); [intros [E|[]]; congruence|]. repeat split; assumption.
  - clear C Hs S. destruct (mutate_one_cases maxl _ _ _ H) as (pm & f1 & Hpm & Hfin & Hc).
    assert (Hperm : mutate_permissions maxl f1 m = FOk f').
    { destruct Hfin as [[E _]|E]; [|exact E]. exfalso. apply String.eqb_eq in E. unfold simple in Hsim. rewrite E in Hsim. discriminate. }
    unfold mutate_permissions in Hperm.
    destruct (perms_direct_changes maxl (fun _ => True) (fun _ _ => True) _ _ _ _ _ _ I I Hperm) as (t1 & Gt1 & Gt1' & _).
    assert (t1 = t) by congruence. subst t1.
    destruct (perms_direct_exact _ _ _ _ _ _ Hperm) as (t0 & x & G0 & Gx & _). rewrite Gt1 in G0. inversion G0; subst t0.
    pose proof (proj2 (perms_direct_node _ _ _ _ _ _ _ _ Hperm Gt1 Gx) j Hjt) as Ej. rewrite Ej.
    destruct Hc as [[Hty ->]|[[Hty ->]|[[Hty _]|[[Hty _]|[Hty _]]]]];
      try (exfalso; unfold simple in Hsim; rewrite Hty in Hsim; discriminate).
    + (* recursive directory *)
      assert (Hrec : m_recursive m = true).
      { unfold simple in Hsim. rewrite Hty in Hsim. destruct (m_recursive m); [reflexivity | discriminate]. }
      destruct (directory_recursive_exact _ _ _ NS Hty Hrec H) as (f0 & tt & Hmk & Gtt & Ext & _ & _ & Hout & _).
      destruct (Ext j a Gj) as (a0 & Ga0 & Ne).
      assert (Hnr : ~ reach f0 (path_of (m_path m)) tt j).
      { intro Hr. apply Hnt. right; right. split; [exact Hty|]. split; [exact Hrec|]. eauto. }
      exists a0. split; [rewrite <- Ej, (Hout j Hnr); exact Ga0 | apply node_ext_same_attrs; exact Ne].
    + (* empty-file *)
      unfold mutate_empty_file in Hpm. apply fbind_ok_r in Hpm. destruct Hpm as (fa & Hmk & Hcw).
      unfold create_write in Hcw. apply fbind_ok_r in Hcw. destruct Hcw as ([fb o] & Ho & Hcw). inversion Hcw; subst f1. clear Hcw.
      assert (Hjo : j <> o).
      { intro E; subst j. apply Hnt. right; left. split; [exact Hty|]. eauto. }
      unfold ensure_parent in Hmk. destruct (mkdirall_spec _ _ _ _ _ Hmk) as (Ext0 & _ & _).
      destruct (openfile_ext _ _ _ _ _ _ _ Ho) as (Ext1 & _).
      destruct (Ext0 j a Gj) as (a0 & Ga0 & Ne0). destruct (Ext1 j a0 Ga0) as (a1 & Ga1 & Ne1).
      exists a1. split; [rewrite get_upd_neq by auto; exact Ga1|].
      eapply same_attrs_trans; apply node_ext_same_attrs; eauto.
Qed.

Fixpoint touched_seq (f : fs) (ms : list mutation) (j : nat) : Prop :=
  match ms with
  | [] => False
  | m :: t => touched f m j \/ exists f1, mutate_one maxl f m = FOk f1 /\ touched_seq f1 t j
  end.

Theorem mutate_paths_untouched : forall ms f f' j a,
  no_shadow f -> mutate_paths maxl f ms = FOk f' -> get f j = Some a -> ~ touched_seq f ms j ->
  exists a', get f' j = Some a' /\ same_attrs a a'.
Proof.
  induction ms as [|m t IH]; intros f f' j a NS H Gj Hnt; simpl in H.
  - inversion H; subst. exists a. split; [exact Gj | apply same_attrs_refl].
  - apply fbind_ok_r in H. destruct H as (f1 & H1 & H). cbn [touched_seq] in Hnt.
    destruct (mutate_one_untouched _ _ _ _ _ NS H1 Gj) as (a1 & G1 & A1); [tauto|].
    destruct (IH f1 f' j a1 (mutate_one_no_shadow maxl _ _ _ NS H1) H G1) as (a' & G' & A'); [intro Hx; apply Hnt; right; eauto|].
    exists a'. split; [exact G' | eapply same_attrs_trans; eauto].
Qed.

(* for simple mutations the touched nodes are the [targets] of Proofs/PathMutFrame.v *)
Lemma touched_seq_simple : forall ms f j, forallb simple ms = true -> touched_seq f ms j -> In j (targets maxl f ms).
Proof.
  induction ms as [|m t IH]; intros f j Hs H; [contradiction|]. cbn [forallb] in Hs. apply andb_true_iff in Hs. destruct Hs as [Hm Ht].
  cbn [touched_seq] in H. cbn [targets]. destruct H as [H|(f1 & H1 & H)].
  - destruct (touched_simple _ _ _ Hm H) as (f' & H1 & Gj). rewrite H1, Gj. left. reflexivity.
  - rewrite H1. apply in_or_app. right. apply IH; assumption.
Qed.

Lemma mutate_paths_app_gen : forall a b f,
  mutate_paths maxl f (a ++ b) = fdo f1 <- mutate_paths maxl f a; mutate_paths maxl f1 b.
Proof.
  induction a as [|m t IH]; intros b f; [reflexivity|]. simpl.
  destruct (mutate_one maxl f m); simpl; auto.
Qed.

(* the mutations of a list are applied IN ORDER: the node that m's path resolved
   to right after m carries m's declared mode and owner then, and still at the
   end unless a LATER mutation of the list touches that node *)
Theorem mutations_in_order : forall ms1 m ms2 f f',
  no_shadow f -> mutate_paths maxl f (ms1 ++ m :: ms2) = FOk f' ->
  exists fk t, mutate_paths maxl f (ms1 ++ [m]) = FOk fk /\ mutate_paths maxl fk ms2 = FOk f' /\
    gn maxl fk (path_of (m_path m)) = FOk t /\
    has_attrs_at (m_perm m) (m_uid m) (m_gid m) fk t /\
    (~ touched_seq fk ms2 t -> has_attrs_at (m_perm m) (m_uid m) (m_gid m) f' t).
Proof.
  intros ms1 m ms2 f f' NS H.
  replace (ms1 ++ m :: ms2) with ((ms1 ++ [m]) ++ ms2) in H by (rewrite <- app_assoc; reflexivity).
  rewrite mutate_paths_app_gen in H. apply fbind_ok_r in H. destruct H as (fk & Hk & H2).
  destruct (mutate_paths_app maxl _ _ _ _ Hk) as (f1 & H1 & Hm).
  destruct (mutate_one_post maxl _ _ _ Hm) as (n & Hs & P & U & G).
  unfold stat, gnode in Hs. destruct (gn maxl fk (path_of (m_path m))) as [t| | |] eqn:Gt; try discriminate. cbn [fbind] in Hs.
  destruct (get fk t) as [x|] eqn:Gx; [|discriminate]. inversion Hs; subst x.
  exists fk, t. split; [exact Hk|]. split; [exact H2|]. split; [exact Gt|].
  split; [exists n; auto|]. intro Hnt.
  assert (NSk : no_shadow fk) by (eapply mutate_paths_no_shadow; eauto).
  destruct (mutate_paths_untouched _ _ _ _ _ NSk H2 Gx Hnt) as (n' & Gn' & (_ & P' & U' & G' & _)).
  exists n'. split; [exact Gn'|]. repeat split; congruence.
Qed.

End Exact.

(* was finding C13-F6, fixed by 10a6051 (target := filepath.Clean(mut.Path)):
   {type: empty-file, path: /x/y/} creates the FILE /x/y with the declared mode
   and owner; nothing is nested in it; the validator is satisfied *)
Lemma empty_file_trailing_slash_fixed :
  exists m f', m_type m = "empty-file" /\ m_path m = "/x/y/" /\ p_trail (path_of (m_path m)) = true /\
    mutate_paths 40 (empty_fs 493) [m] = FOk f' /\
    (exists n, stat 40 f' (path_of (m_path m)) = FOk n /\ nkind n = KFile /\ edata n = "" /\
               nperm n = m_perm m /\ nuid n = m_uid m /\ ngid n = m_gid m) /\
    stat 40 f' (path_of "/x/y/y") = FNotExist /\
    realised_tags m (mkStep None (match stat 40 f' (path_of (m_path m)) with FOk n => Some (sinfo_of n) | _ => None end) 0 None []) = [].
Proof.
  exists (mkMut "empty-file" "/x/y/" "" 416 5 6 false). eexists.
  split; [reflexivity|]. split; [reflexivity|]. split; [reflexivity|]. split; [vm_compute; reflexivity|].
  split; [eexists; split; [vm_compute; reflexivity|]; repeat split|]. split; vm_compute; reflexivity.
Qed.

(* HYPOTHETICAL shape (the source before fix 10a6051, not today's): the declared
   path handed as written to filepath.Dir / filepath.Base.  With a trailing slash
   Dir keeps every component and Base repeats the last one: /x/y becomes a
   DIRECTORY carrying the declared mode and owner and the file is /x/y/y with
   Create's own mode, owned by root; the validator's narrow tag fires. *)
Definition mutate_empty_file_uncleaned (maxl : nat) (f : fs) (m : mutation) : fres fs :=
  let p := path_of (m_path m) in
  fdo f1 <- ensure_parent maxl f p; fdo f2 <- create_write maxl f1 p ""; mutate_permissions maxl f2 m.
Lemma hypothetical_uncleaned_empty_file_nests :
  exists m f', m_type m = "empty-file" /\ m_path m = "/x/y/" /\
    mutate_empty_file_uncleaned 40 (empty_fs 493) m = FOk f' /\
    (exists n, stat 40 f' (path_of (m_path m)) = FOk n /\ nkind n = KDir /\ nperm n = m_perm m /\ nuid n = m_uid m) /\
    (exists n, stat 40 f' (path_of "/x/y/y") = FOk n /\ nkind n = KFile /\ nperm n = create_perm /\ nuid n = 0%N) /\
    realised_tags m (mkStep None (match stat 40 f' (path_of (m_path m)) with FOk n => Some (sinfo_of n) | _ => None end) 0 None [])
      = ["viol:empty-file-trailing-slash-nests-file"].
Proof.
  exists (mkMut "empty-file" "/x/y/" "" 416 5 6 false). eexists.
  split; [reflexivity|]. split; [reflexivity|]. split; [vm_compute; reflexivity|].
  split; [eexists; split; [vm_compute; reflexivity|]; repeat split|].
  split; [eexists; split; [vm_compute; reflexivity|]; repeat split|].
  vm_compute. reflexivity.
Qed.
(* the hypothetical shape IS the model whenever the source does not clean the path *)
Lemma uncleaned_is_model : empty_file_path_cleaned = false -> forall maxl f m, m_type m = "empty-file" ->
  mutate_one maxl f m = mutate_empty_file_uncleaned maxl f m.
Proof.
  intros E maxl f m Hty. unfold mutate_one.
  assert (Hfn : assoc (m_type m) path_mutators = Some "mutateEmptyFile") by (rewrite Hty; reflexivity).
  rewrite Hfn. change (mutator_named maxl "mutateEmptyFile") with (Some (mutate_empty_file maxl)). cbv iota beta.
  rewrite Hty. cbn [String.eqb Ascii.eqb Bool.eqb].
  unfold mutate_empty_file, mutate_empty_file_uncleaned, empty_file_target. rewrite E.
  destruct (ensure_parent maxl f (path_of (m_path m))); reflexivity.
Qed.
