(* C13 — frame properties of the path mutations: what a mutation (and a whole
   sequence) may change in the nodes that existed before it. *)
From Apko Require Import Base.Prelude Model.C13Fs Model.PathMut Generated.C13Consts Proofs.PathMutResolve.
Open Scope nat_scope. Open Scope string_scope. Open Scope list_scope.

(* [changes AP AO S f g]: going from f to g,
   - no node disappears, no node changes kind or link target; a backing package
     entry stays or (should truncation detach it) is let go of;
   - a mode that changed became one allowed by AP, an owner that changed one
     allowed by AO, a content that changed became empty;
   - outside the index set S mode, owner and content are untouched.
   (Directory listings are not constrained here.) *)
Definition keeps (AP : N -> Prop) (AO : N -> N -> Prop) (touched : Prop) (a b : node) : Prop :=
  nkind b = nkind a /\ ntarget b = ntarget a /\ (nback b = nback a \/ nback b = "") /\
  (nperm b = nperm a \/ AP (nperm b)) /\
  ((nuid b = nuid a /\ ngid b = ngid a) \/ AO (nuid b) (ngid b)) /\
  (ndata b = ndata a \/ ndata b = "") /\
  (~ touched -> nperm b = nperm a /\ nuid b = nuid a /\ ngid b = ngid a /\ ndata b = ndata a).
Definition changes (AP : N -> Prop) (AO : N -> N -> Prop) (S : list nat) (f g : fs) : Prop :=
  List.length f <= List.length g /\
  forall i a, get f i = Some a -> exists b, get g i = Some b /\ keeps AP AO (In i S) a b.

Lemma keeps_refl : forall AP AO t a, keeps AP AO t a a.
Proof. intros. unfold keeps. repeat split; auto. Qed.
Lemma changes_refl : forall AP AO S f, changes AP AO S f f.
Proof. intros AP AO S f. split; [lia|]. intros i a H. exists a. split; [exact H | apply keeps_refl]. Qed.

Lemma keeps_trans : forall AP AO (t1 t2 : Prop) a b c,
  keeps AP AO t1 a b -> keeps AP AO t2 b c -> keeps AP AO (t1 \/ t2) a c.
Proof.
  intros AP AO t1 t2 a b c (K1 & T1 & B1 & P1 & O1 & D1 & F1) (K2 & T2 & B2 & P2 & O2 & D2 & F2).
  unfold keeps. split; [congruence|]. split; [congruence|].
  split; [destruct B2 as [B2|B2]; [rewrite B2; exact B1 | right; exact B2]|].
  split; [destruct P2 as [P2|P2]; [rewrite P2; exact P1 | right; exact P2]|].
  split; [destruct O2 as [[U2 G2]|O2]; [rewrite U2, G2; exact O1 | right; exact O2]|].
  split; [destruct D2 as [D2|D2]; [rewrite D2; exact D1 | right; exact D2]|].
  intro Hn. assert (N1 : ~ t1) by tauto. assert (N2 : ~ t2) by tauto.
  destruct (F1 N1) as (A1 & A2 & A3 & A4). destruct (F2 N2) as (C1 & C2 & C3 & C4). repeat split; congruence.
Qed.
Lemma changes_trans : forall AP AO S1 S2 f g h,
  changes AP AO S1 f g -> changes AP AO S2 g h -> changes AP AO (S1 ++ S2) f h.
Proof.
  intros AP AO S1 S2 f g h (L1 & H1) (L2 & H2). split; [lia|].
  intros i a Hi. destruct (H1 i a Hi) as (b & Gb & Kb). destruct (H2 i b Gb) as (c & Gc & Kc).
  exists c. split; [exact Gc|].
  pose proof (keeps_trans _ _ _ _ _ _ _ Kb Kc) as (K & T & B & P & O & D & F).
  unfold keeps. split; [exact K|]. split; [exact T|]. split; [exact B|]. split; [exact P|]. split; [exact O|]. split; [exact D|].
  intro Hn. apply F. rewrite in_app_iff in Hn. tauto.
Qed.
Lemma keeps_weaken : forall (AP AP' : N -> Prop) (AO AO' : N -> N -> Prop) (t t' : Prop) a b,
  (forall p, AP p -> AP' p) -> (forall u g, AO u g -> AO' u g) -> (t -> t') ->
  keeps AP AO t a b -> keeps AP' AO' t' a b.
Proof.
  intros AP AP' AO AO' t t' a b HP HO Ht (K & T & B & P & O & D & F). unfold keeps.
  split; [exact K|]. split; [exact T|]. split; [exact B|].
  split; [destruct P; auto|]. split; [destruct O as [O|O]; auto|]. split; [exact D|].
  intro Hn. apply F. tauto.
Qed.
Lemma changes_weaken : forall (AP AP' : N -> Prop) (AO AO' : N -> N -> Prop) S S' f g,
  (forall p, AP p -> AP' p) -> (forall u g, AO u g -> AO' u g) -> (forall i, In i S -> In i S') ->
  changes AP AO S f g -> changes AP' AO' S' f g.
Proof.
  intros AP AP' AO AO' S S' f g HP HO HS (L & H). split; [exact L|].
  intros i a Hi. destruct (H i a Hi) as (b & Gb & Kb). exists b. split; [exact Gb|].
  exact (keeps_weaken AP AP' AO AO' (In i S) (In i S') a b HP HO (HS i) Kb).
Qed.

(* operations that only add nodes and entries change nothing *)
Lemma ext_changes : forall AP AO f g, List.length f <= List.length g -> fs_ext f g -> changes AP AO [] f g.
Proof.
  intros AP AO f g L H. split; [exact L|]. intros i a Hi. destruct (H i a Hi) as (b & Gb & (K & P & U & G & T & D & B & _)).
  exists b. split; [exact Gb|]. unfold keeps. repeat split; auto.
Qed.

Section Ops.
Variable maxl : nat.

Lemma mkdirall_changes : forall AP AO f p perm f',
  mkdirall maxl f p perm = FOk f' -> changes AP AO [] f f'.
Proof. intros AP AO f p perm f' H. destruct (mkdirall_spec _ _ _ _ _ H) as (E & L & _). apply ext_changes; auto. Qed.

Lemma chmod_changes : forall (AP : N -> Prop) AO f p perm f',
  AP perm -> chmod maxl f p perm = FOk f' ->
  exists i, gn maxl f p = FOk i /\ changes AP AO [i] f f' /\
            (forall d cs, getnode d f' cs = getnode d f cs) /\ List.length f' = List.length f.
Proof.
  intros AP AO f p perm f' HA H. unfold chmod in H. apply fbind_ok_r in H. destruct H as (i & Hg & H).
  unfold upd_res in H. destruct (get f i) as [n|] eqn:Hn; [|discriminate]. inversion H; subst f'. clear H.
  exists i. split; [exact Hg|]. split; [|split].
  - split; [rewrite set_nth_length; lia|]. intros j a Hj. destruct (Nat.eq_dec i j) as [<-|Hne].
    + rewrite Hn in Hj. inversion Hj; subst a. exists (with_perm n perm). split; [eapply get_set_eq; eauto|].
      unfold keeps. cbn. split; [reflexivity|]. split; [reflexivity|]. split; [try (destruct tarfs_trunc_detaches); auto|].
      split; [auto|]. split; [auto|]. split; [auto|]. intro X. exfalso. apply X. left. reflexivity.
    + exists a. split; [rewrite get_set_neq; auto | apply keeps_refl].
  - intros d cs. rewrite !getnode_walk. revert cs. generalize root_ino. generalize (@nil string). revert d.
    assert (G : forall j, match get (set_nth f i (with_perm n perm)) j, get f j with
                          | Some a, Some b => nkind a = nkind b /\ ntarget a = ntarget b /\ nchildren a = nchildren b
                          | None, None => True | _, _ => False end).
    { intro j. destruct (Nat.eq_dec i j) as [<-|Hne].
      - rewrite (get_set_eq f i n _ Hn), Hn. repeat split.
      - rewrite (get_set_neq f i j _ Hne). destruct (get f j); [repeat split | exact I]. }
    induction d as [|d IHd]; intros trav cur cs; revert cur trav;
      (induction cs as [|q ps IH]; intros cur trav; [reflexivity|]); simpl;
      pose proof (G cur) as Gc; destruct (get (set_nth f i (with_perm n perm)) cur) as [a|], (get f cur) as [b|]; try contradiction; try reflexivity;
      destruct Gc as (_ & _ & Ec); rewrite Ec; (destruct (lookup q (nchildren b)) as [c|]; [|reflexivity]);
      pose proof (G c) as Gcc; destruct (get (set_nth f i (with_perm n perm)) c) as [ca|], (get f c) as [cb|]; try contradiction; try reflexivity;
      destruct Gcc as (Ek & Et & _); rewrite Ek, ?Et; destruct (nkind cb); auto.
    rewrite !getnode_walk, IHd. destruct (walk_from d f root_ino [] (link_comps trav (ntarget cb))); auto.
  - apply set_nth_length.
Qed.

Lemma chown_changes : forall AP (AO : N -> N -> Prop) f p u g f',
  AO u g -> chown maxl f p u g = FOk f' ->
  exists i, gn maxl f p = FOk i /\ changes AP AO [i] f f' /\
            (forall d cs, getnode d f' cs = getnode d f cs) /\ List.length f' = List.length f.
Proof.
  intros AP AO f p u g f' HA H. unfold chown in H. apply fbind_ok_r in H. destruct H as (i & Hg & H).
  unfold upd_res in H. destruct (get f i) as [n|] eqn:Hn; [|discriminate]. inversion H; subst f'. clear H.
  exists i. split; [exact Hg|]. split; [|split].
  - split; [rewrite set_nth_length; lia|]. intros j a Hj. destruct (Nat.eq_dec i j) as [<-|Hne].
    + rewrite Hn in Hj. inversion Hj; subst a. exists (with_owner n u g). split; [eapply get_set_eq; eauto|].
      unfold keeps. cbn. split; [reflexivity|]. split; [reflexivity|]. split; [try (destruct tarfs_trunc_detaches); auto|].
      split; [auto|]. split; [auto|]. split; [auto|]. intro X. exfalso. apply X. left. reflexivity.
    + exists a. split; [rewrite get_set_neq; auto | apply keeps_refl].
  - intros d cs. rewrite !getnode_walk. revert cs. generalize root_ino. generalize (@nil string). revert d.
    assert (G : forall j, match get (set_nth f i (with_owner n u g)) j, get f j with
                          | Some a, Some b => nkind a = nkind b /\ ntarget a = ntarget b /\ nchildren a = nchildren b
                          | None, None => True | _, _ => False end).
    { intro j. destruct (Nat.eq_dec i j) as [<-|Hne].
      - rewrite (get_set_eq f i n _ Hn), Hn. repeat split.
      - rewrite (get_set_neq f i j _ Hne). destruct (get f j); [repeat split | exact I]. }
    induction d as [|d IHd]; intros trav cur cs; revert cur trav;
      (induction cs as [|q ps IH]; intros cur trav; [reflexivity|]); simpl;
      pose proof (G cur) as Gc; destruct (get (set_nth f i (with_owner n u g)) cur) as [a|], (get f cur) as [b|]; try contradiction; try reflexivity;
      destruct Gc as (_ & _ & Ec); rewrite Ec; (destruct (lookup q (nchildren b)) as [c|]; [|reflexivity]);
      pose proof (G c) as Gcc; destruct (get (set_nth f i (with_owner n u g)) c) as [ca|], (get f c) as [cb|]; try contradiction; try reflexivity;
      destruct Gcc as (Ek & Et & _); rewrite Ek, ?Et; destruct (nkind cb); auto.
    rewrite !getnode_walk, IHd. destruct (walk_from d f root_ino [] (link_comps trav (ntarget cb))); auto.
  - apply set_nth_length.
Qed.

(* Chmod then Chown of one path: exactly one node, the one the path resolves to
   (before and after alike) *)
Lemma perms_direct_changes : forall (AP : N -> Prop) (AO : N -> N -> Prop) f p perm u g f',
  AP perm -> AO u g -> perms_direct maxl f p perm u g = FOk f' ->
  exists i, gn maxl f p = FOk i /\ gn maxl f' p = FOk i /\ changes AP AO [i] f f' /\
            (forall d cs, getnode d f' cs = getnode d f cs) /\ List.length f' = List.length f.
Proof.
  intros AP AO f p perm u g f' HP HO H. unfold perms_direct in H. apply fbind_ok_r in H. destruct H as (f1 & H1 & H2).
  destruct (chmod_changes AP AO _ _ _ _ HP H1) as (i & G1 & C1 & S1 & L1).
  destruct (chown_changes AP AO _ _ _ _ _ HO H2) as (i' & G2 & C2 & S2 & L2).
  assert (i' = i). { unfold gn in *. rewrite S1, G1 in G2. inversion G2. reflexivity. } subst i'.
  exists i. split; [exact G1|]. split; [unfold gn in *; rewrite S2, S1; exact G1|]. split; [|split].
  - eapply changes_weaken; [| | |eapply changes_trans; eauto]; auto. intros j Hj. apply in_app_iff in Hj. destruct Hj; auto.
  - intros d cs. rewrite S2, S1. reflexivity.
  - lia.
Qed.

(* openFile with O_CREATE only adds (a missing file, under its parent) *)
Lemma openfile_ext : forall k f p perm f' i,
  openfile maxl k f p perm = FOk (f', i) -> fs_ext f f' /\ List.length f <= List.length f'.
Proof.
  induction k as [|k IH]; intros f p perm f' i H; simpl in H;
    apply fbind_ok_r in H; destruct H as (d & Hd & H);
    (destruct (get f d) as [dn|] eqn:Hgd; [|discriminate]);
    (destruct (pbase p) as [b|]; [|discriminate]);
    (destruct (negb (is_dir dn)); [discriminate|]);
    destruct (lookup b (nchildren dn)) as [c|] eqn:Hl.
  - destruct (get f c) as [cn|]; [|discriminate]. destruct (nkind cn); try discriminate; inversion H; subst; split; auto using fs_ext_refl.
  - inversion H; subst. split; [eapply (new_child_ext f d b _ dn); eauto|].
    pose proof (new_child_length f d b (mkNode KFile perm 0 0 "" "" [] "")) as L. unfold new_child in L. cbn [fst] in L. rewrite L. lia.
  - destruct (get f c) as [cn|]; [|discriminate]. destruct (nkind cn); try discriminate.
    + inversion H; subst; split; auto using fs_ext_refl.
    + eapply IH; eauto.
    + inversion H; subst; split; auto using fs_ext_refl.
  - inversion H; subst. split; [eapply (new_child_ext f d b _ dn); eauto|].
    pose proof (new_child_length f d b (mkNode KFile perm 0 0 "" "" [] "")) as L. unfold new_child in L. cbn [fst] in L. rewrite L. lia.
Qed.

(* Create + writing nothing: at most one node loses its content *)
Lemma create_write_empty_changes : forall AP AO f p f',
  create_write maxl f p "" = FOk f' -> exists o, changes AP AO [o] f f'.
Proof.
  intros AP AO f p f' H. unfold create_write in H. apply fbind_ok_r in H. destruct H as ([f1 o] & Ho & H).
  inversion H; subst f'. clear H. destruct (openfile_ext _ _ _ _ _ _ Ho) as (E & L). exists o.
  change [o] with ([] ++ [o]).
  apply (changes_trans AP AO [] [o] f f1); [apply ext_changes; eauto|].
  split; [rewrite upd_length; lia|]. intros j a Hj. destruct (Nat.eq_dec o j) as [<-|Hne].
  - exists (trunc_write a ""). split; [exact (get_upd_eq f1 o (fun n => trunc_write n "") a Hj)|].
    unfold keeps. cbn. split; [reflexivity|]. split; [reflexivity|]. split; [try (destruct tarfs_trunc_detaches); auto|].
    split; [auto|]. split; [auto|]. split; [auto|]. intro X. exfalso. apply X. left. reflexivity.
  - exists a. split; [rewrite get_upd_neq; auto | apply keeps_refl].
Qed.

(* changing only a directory listing changes no node's attributes *)
Lemma upd_children_changes : forall AP AO f d (h : node -> list (string * nat)),
  changes AP AO [] f (upd f d (fun n => with_children n (h n))).
Proof.
  intros AP AO f d h. split; [rewrite upd_length; lia|]. intros j a Hj. destruct (Nat.eq_dec d j) as [<-|Hne].
  - exists (with_children a (h a)). split; [exact (get_upd_eq f d (fun n => with_children n (h n)) a Hj)|]. unfold keeps. cbn. repeat split; auto.
  - exists a. split; [rewrite get_upd_neq; auto | apply keeps_refl].
Qed.

Lemma new_child_changes : forall AP AO f d nm n dn,
  get f d = Some dn -> lookup nm (nchildren dn) = None -> changes AP AO [] f (fst (new_child f d nm n)).
Proof.
  intros. apply ext_changes; [rewrite new_child_length; lia | eapply new_child_ext; eauto].
Qed.
Lemma symlink_changes : forall AP AO f tgt p f', symlink maxl f tgt p = FOk f' -> changes AP AO [] f f'.
Proof.
  intros AP AO f tgt p f' H. unfold symlink in H. apply fbind_ok_r in H. destruct H as (d & Hd & H).
  destruct (get f d) as [dn|] eqn:Hgd; [|discriminate]. destruct (pbase p) as [b|]; [|discriminate].
  destruct (negb (is_dir dn)); [discriminate|]. destruct (lookup b (nchildren dn)) eqn:Hl; [discriminate|].
  inversion H; subst. eapply new_child_changes; eauto.
Qed.
Lemma remove_changes : forall AP AO f p f', remove maxl f p = FOk f' -> changes AP AO [] f f'.
Proof.
  intros AP AO f p f' H. unfold remove in H. apply fbind_ok_r in H. destruct H as (d & Hd & H).
  destruct (get f d) as [dn|]; [|discriminate]. destruct (pbase p) as [b|]; [|discriminate].
  destruct (lookup b (nchildren dn)); [|discriminate]. inversion H; subst.
  apply (upd_children_changes AP AO f d (fun n => remove_child b (nchildren n))).
Qed.
Lemma link_changes : forall AP AO f old new f', link maxl f old new = FOk f' -> changes AP AO [] f f'.
Proof.
  intros AP AO f old new f' H. unfold link in H. apply fbind_ok_r in H. destruct H as (d & Hd & H).
  destruct (gn maxl f old) as [t| | |]; try discriminate.
  destruct (get f d) as [dn|]; [|discriminate]. destruct (pbase new) as [b|]; [|discriminate].
  destruct (negb (is_dir dn)); [discriminate|]. destruct (lookup b (nchildren dn)); [discriminate|].
  inversion H; subst. unfold add_child.
  apply (upd_children_changes AP AO f d (fun n => nchildren n ++ [(b, t)])).
Qed.

(* the recursive walk: only Chmod+Chown pairs, so resolution never changes *)
Lemma walk_changes : forall (AP : N -> Prop) (AO : N -> N -> Prop) perm u g, AP perm -> AO u g ->
  forall fuel f p isdir f',
  walk maxl fuel f p isdir perm u g = FOk f' ->
  exists S, changes AP AO S f f' /\ (forall d cs, getnode d f' cs = getnode d f cs) /\ List.length f' = List.length f.
Proof.
  intros AP AO perm u g HP HO. induction fuel as [|fuel IH]; intros f p isdir f' H; [discriminate|]. simpl in H.
  apply fbind_ok_r in H. destruct H as (f1 & H1 & H).
  destruct (perms_direct_changes AP AO _ _ _ _ _ _ HP HO H1) as (i & _ & _ & C1 & S1 & L1).
  destruct isdir.
  - apply fbind_ok_r in H. destruct H as (dn & _ & H). destruct (negb (is_dir dn)); [discriminate|].
    revert H. generalize (nchildren dn). intro cs.
    assert (X : forall cs fa, (exists Sa, changes AP AO Sa f fa /\ (forall d cs, getnode d fa cs = getnode d f cs) /\ List.length fa = List.length f) ->
              (fix each (f0 : fs) (cs0 : list (string * nat)) {struct cs0} : fres fs :=
                 match cs0 with
                 | [] => FOk f0
                 | (nm, c) :: t =>
                     match get f0 c with
                     | Some cn => fdo f'0 <- walk maxl fuel f0 (child_path p nm) (is_dir cn) perm u g; each f'0 t
                     | None => FErr
                     end
                 end) fa cs = FOk f' ->
              exists S, changes AP AO S f f' /\ (forall d cs, getnode d f' cs = getnode d f cs) /\ List.length f' = List.length f).
    { clear cs. induction cs as [|[nm c] t IHt]; intros fa (Sa & Ca & Ra & La) Hx.
      - inversion Hx; subst. eauto.
      - destruct (get fa c) as [cn|]; [|discriminate]. apply fbind_ok_r in Hx. destruct Hx as (fb & Hw & Hx).
        destruct (IH _ _ _ _ Hw) as (Sb & Cb & Rb & Lb).
        apply (IHt fb); [|exact Hx]. exists (Sa ++ Sb). split; [eapply changes_trans; eauto|].
        split; [intros d cs; rewrite Rb, Ra; reflexivity | lia]. }
    apply X. eauto.
  - inversion H; subst. eauto.
Qed.

(* ---- one mutation ------------------------------------------------------------------------ *)
Definition AP_of (m : mutation) : N -> Prop := fun p => p = m_perm m.
Definition AO_of (m : mutation) : N -> N -> Prop := fun u g => u = m_uid m /\ g = m_gid m.

Definition simple (m : mutation) : bool :=
  negb (String.eqb (m_type m) "empty-file") && negb (String.eqb (m_type m) "directory" && m_recursive m).

(* Every old node keeps its kind, link target and backing entry; a mode / owner
   that changed is the declared one; content only ever becomes empty.  For a
   mutation that is neither empty-file nor a recursive directory, the ONLY old
   node whose mode, owner or content may differ is the one its path resolves
   to afterwards. *)
Lemma assoc_in : forall k l v, assoc k l = Some v -> In (k, v) l.
Proof.
  induction l as [|[a b] t IH]; intros v H; simpl in H; [discriminate|].
  destruct (String.eqb_spec a k) as [->|_]; [inversion H; left; reflexivity | right; auto].
Qed.

Theorem mutate_one_frame : forall f m f',
  mutate_one maxl f m = FOk f' ->
  exists t S, gn maxl f' (path_of (m_path m)) = FOk t /\ changes (AP_of m) (AO_of m) (t :: S) f f' /\
              (simple m = true -> S = []).
Proof.
  intros f m f' H. unfold mutate_one in H.
  destruct (assoc (m_type m) path_mutators) as [fn|] eqn:Hfn; [|discriminate].
  assert (HP : AP_of m (m_perm m)) by reflexivity. assert (HO : AO_of m (m_uid m) (m_gid m)) by (split; reflexivity).
  apply assoc_in in Hfn. unfold path_mutators in Hfn. simpl in Hfn.
  destruct Hfn as [E|[E|[E|[E|[E|[]]]]]]; inversion E as [[Hty Hf]]; clear E; subst fn.
  - (* directory *)
    change (mutator_named maxl "mutateDirectory") with (Some (mutate_directory maxl)) in H. cbv iota beta in H.
    apply fbind_ok_r in H. destruct H as (f1 & Hpm & H). symmetry in Hty.
    assert (Hnp : String.eqb (m_type m) "permissions" = false) by (rewrite Hty; reflexivity). rewrite Hnp in H.
    unfold mutate_permissions in H.
    destruct (perms_direct_changes (AP_of m) (AO_of m) _ _ _ _ _ _ HP HO H) as (t & _ & Gt & Ct & _ & _).
    unfold mutate_directory in Hpm. apply fbind_ok_r in Hpm. destruct Hpm as (f0 & Hmk & Hpm).
    pose proof (mkdirall_changes (AP_of m) (AO_of m) _ _ _ _ Hmk) as C0.
    destruct (m_recursive m) eqn:Hrec.
    + apply fbind_ok_r in Hpm. destruct Hpm as (n & _ & Hw).
      destruct (walk_changes _ _ _ _ _ HP HO _ _ _ _ _ Hw) as (Sw & Cw & _ & _).
      exists t, Sw. split; [exact Gt|]. split.
      * eapply changes_weaken with (S := ([] ++ Sw) ++ [t]); [intros ? X; exact X | intros ? ? X; exact X | |eapply changes_trans; [eapply changes_trans; eauto|eauto]].
        intros j Hj. cbn [app] in Hj. rewrite ?in_app_iff in Hj. simpl in *. tauto.
      * unfold simple. rewrite Hty, Hrec. discriminate.
    + inversion Hpm; subst f1. exists t, []. split; [exact Gt|]. split; [|reflexivity].
      eapply changes_weaken with (S := [] ++ [t]); [intros ? X; exact X | intros ? ? X; exact X | |eapply changes_trans; eauto]. auto.  - (* empty-file *)
    change (mutator_named maxl "mutateEmptyFile") with (Some (mutate_empty_file maxl)) in H. cbv iota beta in H.
    apply fbind_ok_r in H. destruct H as (f1 & Hpm & H). symmetry in Hty.
    assert (Hnp : String.eqb (m_type m) "permissions" = false) by (rewrite Hty; reflexivity). rewrite Hnp in H.
    unfold mutate_permissions in H.
    destruct (perms_direct_changes (AP_of m) (AO_of m) _ _ _ _ _ _ HP HO H) as (t & _ & Gt & Ct & _ & _).
    unfold mutate_empty_file in Hpm. apply fbind_ok_r in Hpm. destruct Hpm as (f0 & Hmk & Hcw).
    unfold ensure_parent in Hmk. pose proof (mkdirall_changes (AP_of m) (AO_of m) _ _ _ _ Hmk) as C0.
    destruct (create_write_empty_changes (AP_of m) (AO_of m) _ _ _ Hcw) as (o & Co).
    exists t, [o]. split; [exact Gt|]. split.
    + eapply changes_weaken with (S := ([] ++ [o]) ++ [t]); [intros ? X; exact X | intros ? ? X; exact X | |eapply changes_trans; [eapply changes_trans; eauto|eauto]].
      intros j Hj. cbn [app] in Hj. rewrite ?in_app_iff in Hj. simpl in *. tauto.
    + unfold simple. rewrite Hty. discriminate.  - (* hardlink *)
    change (mutator_named maxl "mutateHardLink") with (Some (mutate_hard_link maxl)) in H. cbv iota beta in H.
    apply fbind_ok_r in H. destruct H as (f1 & Hpm & H). symmetry in Hty.
    assert (Hnp : String.eqb (m_type m) "permissions" = false) by (rewrite Hty; reflexivity). rewrite Hnp in H.
    unfold mutate_permissions in H.
    destruct (perms_direct_changes (AP_of m) (AO_of m) _ _ _ _ _ _ HP HO H) as (t & _ & Gt & Ct & _ & _).
    unfold mutate_hard_link in Hpm. apply fbind_ok_r in Hpm. destruct Hpm as (f0 & Hmk & Hpm).
    unfold ensure_parent in Hmk. pose proof (mkdirall_changes (AP_of m) (AO_of m) _ _ _ _ Hmk) as C0.
    apply fbind_ok_r in Hpm. destruct Hpm as (f2 & Hrm & Hln).
    assert (C2 : changes (AP_of m) (AO_of m) [] f0 f2).
    { destruct (gn maxl f0 (path_of (m_path m))); try discriminate; try (inversion Hrm; subst; apply changes_refl).
      eapply remove_changes; eauto. }
    pose proof (link_changes (AP_of m) (AO_of m) _ _ _ _ Hln) as C3.
    exists t, []. split; [exact Gt|]. split; [|reflexivity].
    eapply changes_weaken with (S := (([] ++ []) ++ []) ++ [t]); [intros ? X; exact X | intros ? ? X; exact X | |
      eapply changes_trans; [eapply changes_trans; [eapply changes_trans; eauto|eauto]|eauto]]. auto.  - (* symlink *)
    change (mutator_named maxl "mutateSymLink") with (Some (mutate_sym_link maxl)) in H. cbv iota beta in H.
    apply fbind_ok_r in H. destruct H as (f1 & Hpm & H). symmetry in Hty.
    assert (Hnp : String.eqb (m_type m) "permissions" = false) by (rewrite Hty; reflexivity). rewrite Hnp in H.
    unfold mutate_permissions in H.
    destruct (perms_direct_changes (AP_of m) (AO_of m) _ _ _ _ _ _ HP HO H) as (t & _ & Gt & Ct & _ & _).
    unfold mutate_sym_link in Hpm. apply fbind_ok_r in Hpm. destruct Hpm as (f0 & Hmk & Hsl).
    unfold ensure_parent in Hmk. pose proof (mkdirall_changes (AP_of m) (AO_of m) _ _ _ _ Hmk) as C0.
    pose proof (symlink_changes (AP_of m) (AO_of m) _ _ _ _ Hsl) as C1.
    exists t, []. split; [exact Gt|]. split; [|reflexivity].
    eapply changes_weaken with (S := ([] ++ []) ++ [t]); [intros ? X; exact X | intros ? ? X; exact X | |eapply changes_trans; [eapply changes_trans; eauto|eauto]]. auto.  - (* permissions *)
    change (mutator_named maxl "mutatePermissions") with (Some (mutate_permissions maxl)) in H. cbv iota beta in H.
    apply fbind_ok_r in H. destruct H as (f1 & Hpm & H). symmetry in Hty.
    rewrite Hty in H. simpl in H. inversion H; subst f1. clear H.
    unfold mutate_permissions in Hpm.
    destruct (perms_direct_changes (AP_of m) (AO_of m) _ _ _ _ _ _ HP HO Hpm) as (t & _ & Gt & Ct & _ & _).
    exists t, []. split; [exact Gt|]. split; [exact Ct | reflexivity].
Qed.

(* ---- a whole sequence ------------------------------------------------------------------------ *)
(* what each mutation's own path resolved to right after it was applied *)
Fixpoint targets (f : fs) (ms : list mutation) : list nat :=
  match ms with
  | [] => []
  | m :: t =>
      match mutate_one maxl f m with
      | FOk f1 => (match gn maxl f1 (path_of (m_path m)) with FOk i => [i] | _ => [] end) ++ targets f1 t
      | _ => []
      end
  end.

Definition AP_seq (ms : list mutation) : N -> Prop := fun p => exists m, In m ms /\ p = m_perm m.
Definition AO_seq (ms : list mutation) : N -> N -> Prop := fun u g => exists m, In m ms /\ u = m_uid m /\ g = m_gid m.

Theorem mutate_paths_frame : forall ms f f',
  mutate_paths maxl f ms = FOk f' ->
  (exists S, changes (AP_seq ms) (AO_seq ms) S f f') /\
  (forallb simple ms = true -> changes (AP_seq ms) (AO_seq ms) (targets f ms) f f').
Proof.
  induction ms as [|m t IH]; intros f f' H; simpl in H.
  - inversion H; subst. split; [exists []; apply changes_refl | intros _; apply changes_refl].
  - apply fbind_ok_r in H. destruct H as (f1 & H1 & H2).
    destruct (mutate_one_frame _ _ _ H1) as (tg & S1 & Gt & C1 & Hs).
    destruct (IH _ _ H2) as ((S2 & C2) & C2s).
    assert (W1 : forall S, changes (AP_of m) (AO_of m) S f f1 -> changes (AP_seq (m :: t)) (AO_seq (m :: t)) S f f1).
    { intros S C. eapply changes_weaken; [| | |exact C]; auto.
      - intros p ->. exists m. split; [left; reflexivity | reflexivity].
      - intros u g [-> ->]. exists m. split; [left; reflexivity | split; reflexivity]. }
    assert (W2 : forall S, changes (AP_seq t) (AO_seq t) S f1 f' -> changes (AP_seq (m :: t)) (AO_seq (m :: t)) S f1 f').
    { intros S C. eapply changes_weaken; [| | |exact C]; auto.
      - intros p (x & Hx & ->). exists x. split; [right; exact Hx | reflexivity].
      - intros u g (x & Hx & -> & ->). exists x. split; [right; exact Hx | split; reflexivity]. }
    split.
    + exists ((tg :: S1) ++ S2). eapply changes_trans; [apply W1; exact C1 | apply W2; exact C2].
    + intro Hsim. cbn [forallb] in Hsim. apply andb_true_iff in Hsim. destruct Hsim as [Hm Ht].
      cbn [targets]. rewrite H1, Gt. rewrite (Hs Hm) in C1.
      eapply changes_trans; [apply W1; exact C1 | apply W2; apply C2s; exact Ht].
Qed.

End Ops.
