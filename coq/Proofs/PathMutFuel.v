(* C13 — the fuel given to [walk] (fs.WalkDir) and [dump] is enough on every
   well-formed heap.  Well-formed = what MkdirAll / Mkdir / OpenFile / Symlink /
   Remove / Chmod / Chown / Link-of-a-non-directory keep true of a tree grown from
   the empty one: a directory entry leading to a DIRECTORY leads to a node
   allocated later than its parent (so the directory structure has no cycle),
   and no name occurs twice in one listing.  A hard-linked directory — the one
   thing that breaks it — makes the Go code itself recurse forever. *)
From Apko Require Import Base.Prelude Model.C13Fs Model.PathMut Generated.C13Consts Proofs.PathMutResolve Proofs.PathMutFrame.
Open Scope nat_scope. Open Scope string_scope. Open Scope list_scope.

Definition dir_edges_up (f : fs) : Prop :=
  forall i n nm c cn, get f i = Some n -> In (nm, c) (nchildren n) -> get f c = Some cn -> nkind cn = KDir -> i < c.
Definition no_shadow (f : fs) : Prop :=
  forall i n nm c, get f i = Some n -> In (nm, c) (nchildren n) -> lookup nm (nchildren n) = Some c.
Definition wf (f : fs) : Prop := dir_edges_up f /\ no_shadow f.

Lemma lookup_in : forall nm cs c, lookup nm cs = Some c -> In (nm, c) cs.
Proof.
  induction cs as [|[k v] t IH]; intros c H; simpl in H; [discriminate|].
  destruct (String.eqb_spec k nm) as [->|_]; [inversion H; left; reflexivity | right; auto].
Qed.

Lemma wf_empty : forall p, wf (empty_fs p).
Proof.
  intro p. split.
  - intros i n nm c cn Hi Hin. destruct i as [|[|i]]; simpl in Hi; inversion Hi; subst; contradiction.
  - intros i n nm c Hi Hin. destruct i as [|[|i]]; simpl in Hi; inversion Hi; subst; contradiction.
Qed.

(* two heaps with the same kinds and listings are well-formed together *)
Definition same_listing (f g : fs) : Prop :=
  List.length f = List.length g /\
  forall i, match get f i, get g i with
            | Some a, Some b => nkind a = nkind b /\ nchildren a = nchildren b
            | None, None => True
            | _, _ => False
            end.
Lemma wf_same_listing : forall f g, same_listing f g -> wf f -> wf g.
Proof.
  intros f g (L & H) (U & N). split.
  - intros i n nm c cn Hi Hin Hc Hk. pose proof (H i) as Hi'. pose proof (H c) as Hc'. rewrite Hi in Hi'. rewrite Hc in Hc'.
    destruct (get f i) as [a|] eqn:Ha; [|contradiction]. destruct (get f c) as [ca|] eqn:Hca; [|contradiction].
    destruct Hi' as (_ & E). destruct Hc' as (K & _). eapply (U i a nm c ca); eauto; congruence.
  - intros i n nm c Hi Hin. pose proof (H i) as Hi'. rewrite Hi in Hi'. destruct (get f i) as [a|] eqn:Ha; [|contradiction].
    destruct Hi' as (_ & E). rewrite <- E in *. eapply N; eauto.
Qed.

(* a fresh last node under directory [d], name not yet used *)
Lemma wf_new_child : forall f d nm n dn,
  wf f -> get f d = Some dn -> lookup nm (nchildren dn) = None -> nchildren n = [] ->
  wf (fst (new_child f d nm n)).
Proof.
  intros f d nm n dn (U & N) Hd Hl Hn. set (g := fst (new_child f d nm n)).
  assert (Gd : get g d = Some (with_children dn (nchildren dn ++ [(nm, List.length f)]))) by (eapply new_child_get_parent; eauto).
  assert (Gn : get g (List.length f) = Some n) by (eapply new_child_get_new; eauto).
  assert (Go : forall i, i <> d -> i <> List.length f -> get g i = get f i) by (intros; apply new_child_get_other; auto).
  assert (Ld : d < List.length f) by (eapply get_lt; eauto).
  split.
  - intros i x k c cx Hi Hin Hc Hk.
    destruct (Nat.eq_dec i (List.length f)) as [->|Hne1].
    + rewrite Gn in Hi. inversion Hi; subst x. rewrite Hn in Hin. contradiction.
    + destruct (Nat.eq_dec i d) as [->|Hne2].
      * rewrite Gd in Hi. inversion Hi; subst x. cbn [with_children nchildren] in Hin. apply in_app_or in Hin.
        destruct Hin as [Hin|[E|[]]]; [|inversion E; subst; exact Ld].
        destruct (Nat.eq_dec c (List.length f)) as [->|Hc1]; [exact Ld|].
        destruct (Nat.eq_dec c d) as [->|Hc2].
        -- rewrite Gd in Hc. inversion Hc; subst cx. eapply (U d dn k d dn); eauto.
        -- rewrite Go in Hc by auto. eapply (U d dn k c cx); eauto.
      * rewrite Go in Hi by auto.
        destruct (Nat.eq_dec c (List.length f)) as [->|Hc1]; [eapply get_lt; eauto|].
        destruct (Nat.eq_dec c d) as [->|Hc2].
        -- rewrite Gd in Hc. inversion Hc; subst cx. eapply (U i x k d dn); eauto.
        -- rewrite Go in Hc by auto. eapply (U i x k c cx); eauto.
  - intros i x k c Hi Hin.
    destruct (Nat.eq_dec i (List.length f)) as [->|Hne1].
    + rewrite Gn in Hi. inversion Hi; subst x. rewrite Hn in Hin. contradiction.
    + destruct (Nat.eq_dec i d) as [->|Hne2].
      * rewrite Gd in Hi. inversion Hi; subst x. cbn [with_children nchildren] in *. rewrite lookup_app.
        apply in_app_or in Hin. destruct Hin as [Hin|[E|[]]].
        -- rewrite (N d dn k c Hd Hin). reflexivity.
        -- inversion E; subst. rewrite Hl. apply lookup_single.
      * rewrite Go in Hi by auto. eapply N; eauto.
Qed.

(* ---- getNode never reports "out of fuel" ---------------------------------------------------- *)
Lemma walk_from_no_fuel : forall d f ps cur trav, walk_from d f cur trav ps <> FFuel.
Proof.
  induction d as [|d IHd]; intros f; induction ps as [|p ps IH]; intros cur trav; simpl; try discriminate;
    (destruct (get f cur) as [n|]; [|discriminate]);
    (destruct (lookup p (nchildren n)) as [c|]; [|discriminate]);
    (destruct (get f c) as [cn|]; [|discriminate]);
    destruct (nkind cn); auto; try discriminate.
  rewrite getnode_walk. destruct (walk_from d f root_ino [] (link_comps trav (ntarget cn))) eqn:E; auto; try discriminate.
  exfalso. eapply IHd; eauto.
Qed.
Lemma getnode_no_fuel : forall d f cs, getnode d f cs <> FFuel.
Proof. intros. rewrite getnode_walk. apply walk_from_no_fuel. Qed.

Section Fuel.
Variable maxl : nat.

Lemma perms_direct_no_fuel : forall f p perm u g, perms_direct maxl f p perm u g <> FFuel.
Proof.
  intros f p perm u g. unfold perms_direct, chmod, chown, gn, upd_res.
  destruct (getnode maxl f (p_comps p)) as [i| | |] eqn:E; simpl; try discriminate; [|exfalso; eapply getnode_no_fuel; eauto].
  destruct (get f i) as [n|]; simpl; [|discriminate].
  destruct (getnode maxl (set_nth f i (with_perm n perm)) (p_comps p)) as [j| | |] eqn:E2; simpl; try discriminate;
    [|exfalso; eapply getnode_no_fuel; eauto].
  destruct (get (set_nth f i (with_perm n perm)) j); discriminate.
Qed.

(* Chmod+Chown keep kinds and listings *)
Lemma perms_direct_listing : forall f p perm u g f',
  perms_direct maxl f p perm u g = FOk f' -> same_listing f f'.
Proof.
  intros f p perm u g f' H. unfold perms_direct in H. apply fbind_ok_r in H. destruct H as (f1 & H1 & H2).
  assert (X : forall (h : node -> node) fa i fb, (forall n, nkind (h n) = nkind n /\ nchildren (h n) = nchildren n) ->
              upd_res fa i h = FOk fb -> same_listing fa fb).
  { intros h fa i fb Hh Hu. unfold upd_res in Hu. destruct (get fa i) as [n|] eqn:Hn; [|discriminate]. inversion Hu; subst fb.
    split; [symmetry; apply set_nth_length|]. intro j. destruct (Nat.eq_dec i j) as [<-|Hne].
    - rewrite Hn, (get_set_eq fa i n _ Hn). destruct (Hh n). auto.
    - rewrite (get_set_neq fa i j _ Hne). destruct (get fa j); auto. }
  unfold chmod in H1. apply fbind_ok_r in H1. destruct H1 as (i & _ & H1).
  unfold chown in H2. apply fbind_ok_r in H2. destruct H2 as (j & _ & H2).
  pose proof (X (fun n => with_perm n perm) _ _ _ (fun n => conj eq_refl eq_refl) H1) as (L1 & S1).
  pose proof (X (fun n => with_owner n u g) _ _ _ (fun n => conj eq_refl eq_refl) H2) as (L2 & S2).
  split; [congruence|]. intro k. pose proof (S1 k) as A. pose proof (S2 k) as B.
  destruct (get f k), (get f1 k), (get f' k); try contradiction; auto.
  destruct A, B. split; congruence.
Qed.
Lemma same_listing_trans : forall f g h, same_listing f g -> same_listing g h -> same_listing f h.
Proof.
  intros f g h (L1 & S1) (L2 & S2). split; [congruence|]. intro k. pose proof (S1 k) as A. pose proof (S2 k) as B.
  destruct (get f k), (get g k), (get h k); try contradiction; auto. destruct A, B. split; congruence.
Qed.
Lemma same_listing_refl : forall f, same_listing f f.
Proof. intro f. split; [reflexivity|]. intro k. destruct (get f k); auto. Qed.

Lemma walk_listing : forall perm u g fuel f p isdir f',
  walk maxl fuel f p isdir perm u g = FOk f' -> same_listing f f'.
Proof.
  intros perm u g. induction fuel as [|fuel IH]; intros f p isdir f' H; [discriminate|]. simpl in H.
  apply fbind_ok_r in H. destruct H as (f1 & H1 & H). pose proof (perms_direct_listing _ _ _ _ _ _ H1) as S1.
  destruct isdir; [|inversion H; subst; exact S1].
  apply fbind_ok_r in H. destruct H as (dn & _ & H). destruct (negb (is_dir dn)); [discriminate|].
  revert H. generalize (nchildren dn). intros cs H.
  eapply same_listing_trans; [exact S1|]. clear S1 H1. revert f1 H.
  induction cs as [|[nm c] t IHt]; intros fa Hx.
  - inversion Hx; subst. apply same_listing_refl.
  - destruct (get fa c) as [cn|]; [|discriminate]. apply fbind_ok_r in Hx. destruct Hx as (fb & Hw & Hx).
    eapply same_listing_trans; [eapply IH; eauto | eapply IHt; eauto].
Qed.

(* the walk below a directory node [i]: fuel beyond the number of nodes allocated
   after [i] is never used up *)
Lemma walk_no_fuel : forall perm u g fuel f p isdir,
  wf f -> 1 <= fuel ->
  (isdir = true -> forall i, gn maxl f p = FOk i -> List.length f - i < fuel) ->
  walk maxl fuel f p isdir perm u g <> FFuel.
Proof.
  intros perm u g. induction fuel as [|fuel IH]; intros f p isdir Hwf Hf Hb; [lia|]. simpl.
  destruct (perms_direct maxl f p perm u g) as [f1| | |] eqn:H1; simpl; try discriminate;
    [|exfalso; eapply perms_direct_no_fuel; eauto].
  destruct isdir; [|discriminate].
  pose proof (perms_direct_listing _ _ _ _ _ _ H1) as S1.
  assert (Wf1 : wf f1) by (eapply wf_same_listing; eauto).
  destruct (perms_direct_changes maxl (fun _ => True) (fun _ _ => True) _ _ _ _ _ _ I I H1) as (i & Gi & Gi1 & _ & _ & L1).
  specialize (Hb eq_refl i Gi).
  unfold gnode. rewrite Gi1. cbn [fbind]. destruct (get f1 i) as [dn|] eqn:Hdn; simpl; [|discriminate].
  destruct (negb (is_dir dn)); [discriminate|].
  (* every remaining child is listed by node i *)
  assert (Hsub : forall nm c, In (nm, c) (nchildren dn) -> In (nm, c) (nchildren dn)) by auto.
  revert Hsub. generalize (nchildren dn) at 1 3. intros cs Hsub.
  assert (X : forall fa, same_listing f1 fa -> (forall d cs0, getnode d fa cs0 = getnode d f1 cs0) ->
              (fix each (f0 : fs) (cs0 : list (string * nat)) {struct cs0} : fres fs :=
                 match cs0 with
                 | [] => FOk f0
                 | (nm, c) :: t =>
                     match get f0 c with
                     | Some cn => fdo f'0 <- walk maxl fuel f0 (child_path p nm) (is_dir cn) perm u g; each f'0 t
                     | None => FErr
                     end
                 end) fa cs <> FFuel); [|apply X; [apply same_listing_refl | reflexivity]].
  induction cs as [|[nm c] t IHt]; intros fa Sa Ra; [discriminate|].
  assert (Wfa : wf fa) by (eapply wf_same_listing; eauto).
  destruct (get fa c) as [cn|] eqn:Hcn; [|discriminate].
  destruct (walk maxl fuel fa (child_path p nm) (is_dir cn) perm u g) as [fb| | |] eqn:Hw; simpl; try discriminate.
  - apply IHt; [intros; apply Hsub; right; assumption | |].
    + eapply same_listing_trans; [exact Sa | eapply walk_listing; eauto].
    + intros d cs0. destruct (walk_changes maxl (fun _ => True) (fun _ _ => True) perm u g I I _ _ _ _ _ Hw) as (_ & _ & R & _).
      rewrite R. apply Ra.
  - exfalso. revert Hw. apply IH; [exact Wfa | |].
    + apply get_lt in Hdn. lia.
    + intros Hd j Gj.
      (* the child is a directory listed under i: it was allocated after i *)
      destruct Sa as (La & Sa). pose proof (Sa i) as Si. pose proof (Sa c) as Sc. rewrite Hdn in Si. rewrite Hcn in Sc.
      destruct (get fa i) as [dna|] eqn:Hdna; [|contradiction]. destruct (get f1 c) as [cn1|] eqn:Hcn1; [|contradiction].
      destruct Si as (_ & Ech). destruct Sc as (Ek & _).
      assert (Hin : In (nm, c) (nchildren dna)) by (rewrite <- Ech; apply Hsub; left; reflexivity).
      assert (Hkd : nkind cn = KDir). { unfold is_dir in Hd. destruct (nkind cn); simpl in Hd; try discriminate; reflexivity. }
      destruct Wfa as (Ua & Na).
      assert (Hlk : lookup nm (nchildren dna) = Some c) by (eapply Na; eauto).
      assert (Hic : i < c) by (eapply (Ua i dna nm c cn); eauto).
      assert (Gc : gn maxl fa (child_path p nm) = FOk c).
      { unfold gn, child_path. cbn [p_comps]. eapply getnode_snoc; eauto.
        - rewrite Ra. exact Gi1.
        - rewrite Hkd. discriminate. }
      rewrite Gc in Gj. inversion Gj; subst j. apply get_lt in Hdn. lia.
Qed.

(* mutateDirectory's own choice of fuel *)
Theorem walk_fuel_suffices : forall f p isdir perm u g,
  wf f -> walk maxl (S (List.length f)) f p isdir perm u g <> FFuel.
Proof. intros. apply walk_no_fuel; auto; [lia|]. intros _ i _. lia. Qed.

(* MkdirAll keeps a heap well-formed and never runs out of fuel *)
Lemma mkdirall_from_wf : forall perm ps f cur trav f',
  wf f -> mkdirall_from maxl f cur trav ps perm = FOk f' -> wf f'.
Proof.
  intros perm. induction ps as [|q ps IH]; intros f cur trav f' W H; simpl in H.
  - inversion H; subst; exact W.
  - destruct (get f cur) as [n|] eqn:Hc; [|discriminate].
    destruct (lookup q (nchildren n)) as [c|] eqn:Hl.
    + destruct (get f c) as [cn|]; [|discriminate]. destruct (nkind cn); try discriminate.
      * eapply IH; eauto.
      * apply fbind_ok_r in H. destruct H as (c' & _ & H). destruct (get f c'); [|discriminate].
        destruct (is_dir n0); [|discriminate]. eapply IH; eauto.
    + destruct (String.eqb q "." || String.eqb q ".."); [discriminate|].
      eapply IH; [|exact H]. apply (wf_new_child f cur q (new_dir perm) n W Hc Hl). reflexivity.
Qed.
Lemma mkdirall_from_no_fuel : forall perm ps f cur trav, mkdirall_from maxl f cur trav ps perm <> FFuel.
Proof.
  intros perm. induction ps as [|q ps IH]; intros f cur trav; simpl; [discriminate|].
  destruct (get f cur) as [n|]; [|discriminate].
  destruct (lookup q (nchildren n)) as [c|].
  - destruct (get f c) as [cn|]; [|discriminate]. destruct (nkind cn); try discriminate; auto.
    destruct (getnode maxl f (link_comps trav (ntarget cn))) as [c'| | |] eqn:E; simpl; try discriminate.
    + destruct (get f c'); [|discriminate]. destruct (is_dir n0); [auto | discriminate].
    + exfalso. eapply getnode_no_fuel; eauto.
  - destruct (String.eqb q "." || String.eqb q ".."); [discriminate | auto].
Qed.

(* mutateDirectory, recursive or not, never answers "out of fuel" on a well-formed tree *)
Theorem mutate_directory_no_fuel : forall f m, wf f -> mutate_directory maxl f m <> FFuel.
Proof.
  intros f m W. unfold mutate_directory, mkdirall.
  destruct (mkdirall_from maxl f root_ino [] (p_comps (path_of (m_path m))) (m_perm m)) as [f1| | |] eqn:E; simpl; try discriminate.
  - destruct (m_recursive m); [|discriminate].
    unfold stat, gnode, gn. destruct (getnode maxl f1 (p_comps (path_of (m_path m)))) as [i| | |] eqn:G; simpl; try discriminate.
    + destruct (get f1 i); simpl; [|discriminate]. apply walk_fuel_suffices. eapply mkdirall_from_wf; eauto.
    + exfalso. eapply getnode_no_fuel; eauto.
  - exfalso. eapply mkdirall_from_no_fuel; eauto.
Qed.

End Fuel.

(* ---- dump: more fuel shows nothing more ------------------------------------------------------- *)
Lemma dump_from_enough : forall f, dir_edges_up f ->
  forall fuel k i pth, get f i <> None -> List.length f - i < fuel ->
  dump_from (fuel + k) f i pth = dump_from fuel f i pth.
Proof.
  intros f U. induction fuel as [|fuel IH]; intros k i pth Hi Hb; [lia|]. simpl.
  destruct (get f i) as [n|] eqn:Hn; [|reflexivity]. f_equal.
  apply map_ext_in. intros [nm c] Hin.
  destruct (get f c) as [cn|] eqn:Hc; [|reflexivity]. f_equal.
  destruct (kind_eqb (nkind cn) KDir) eqn:Hk; [|reflexivity].
  assert (Hkd : nkind cn = KDir) by (destruct (nkind cn); simpl in Hk; try discriminate; reflexivity).
  assert (Hic : i < c) by (eapply (U i n nm c cn); eauto).
  apply IH; [rewrite Hc; discriminate|]. apply get_lt in Hc. lia.
Qed.
Theorem dump_fuel_suffices : forall f k, f <> [] -> dir_edges_up f ->
  dump_from (S (List.length f) + k) f root_ino "" = dump f.
Proof.
  intros f k Hne U. unfold dump. apply dump_from_enough; auto.
  - unfold get, root_ino. destruct f; [contradiction | discriminate].
  - unfold root_ino. lia.
Qed.
