(* C13 — the KIND half of the mutations' post-conditions: after a successful
   mutation of each type, what sits at its path. *)
From Apko Require Import Base.Prelude Model.C13Fs Model.PathMut Generated.C13Consts
  Spec.AccountsSpec Spec.PathMutSpec Proofs.AccountsProofs Proofs.PathMutProofs Proofs.PathMutResolve Proofs.PathMutFrame Proofs.PathMutFuel.
Open Scope nat_scope. Open Scope string_scope. Open Scope list_scope.

(* the symlink-nesting budget decides only WHETHER a path resolves, never to what *)
Lemma walk_from_depth_indep : forall d1 f d2 ps cur trav a b,
  walk_from d1 f cur trav ps = FOk a -> walk_from d2 f cur trav ps = FOk b -> a = b.
Proof.
  induction d1 as [|d1 IHd]; intros f d2; induction ps as [|p ps IH]; intros cur trav a b H1 H2; simpl in *;
    try (inversion H1; inversion H2; congruence);
    (destruct (get f cur) as [n|]; [|discriminate]);
    (destruct (lookup p (nchildren n)) as [c|]; [|discriminate]);
    (destruct (get f c) as [cn|]; [|discriminate]);
    destruct (nkind cn); try discriminate; eauto.
  destruct d2 as [|d2]; [discriminate|].
  destruct (getnode d1 f (link_comps trav (ntarget cn))) as [x| | |] eqn:E1; try discriminate.
  destruct (getnode d2 f (link_comps trav (ntarget cn))) as [y| | |] eqn:E2; try discriminate.
  rewrite getnode_walk in E1, E2. rewrite (IHd _ _ _ _ _ _ _ E1 E2) in H1. eauto.
Qed.
Lemma getnode_depth_indep : forall d1 d2 f cs a b, getnode d1 f cs = FOk a -> getnode d2 f cs = FOk b -> a = b.
Proof. intros d1 d2 f cs a b H1 H2. rewrite getnode_walk in *. eapply walk_from_depth_indep; eauto. Qed.

Section Kinds.
Variable maxl : nat.

(* wherever the path MkdirAll walked resolves afterwards, there is a directory *)
Lemma mkdirall_from_dir : forall perm ps f cur trav f',
  (exists n, get f cur = Some n /\ is_dir n = true) ->
  mkdirall_from maxl f cur trav ps perm = FOk f' ->
  forall k j, walk_from k f' cur trav ps = FOk j -> exists jn, get f' j = Some jn /\ is_dir jn = true.
Proof.
  intros perm. induction ps as [|q ps IH]; intros f cur trav f' (n & Hc & Hd) H k j Hw.
  - simpl in H, Hw. inversion H; subst f'. inversion Hw; subst j. eauto.
  - destruct (mkdirall_from_spec _ _ _ _ _ _ _ H) as (E & _ & _). simpl in H. rewrite Hc in H.
    destruct (E cur n Hc) as (n' & Hc' & (_ & _ & _ & _ & _ & _ & _ & Hch)).
    simpl in Hw. rewrite Hc' in Hw.
    destruct (lookup q (nchildren n)) as [c|] eqn:Hl.
    + rewrite (Hch q c Hl) in Hw.
      destruct (get f c) as [cn|] eqn:Hcn; [|discriminate].
      destruct (E c cn Hcn) as (cn' & Hcn' & (Hk & _ & _ & _ & Ht & _)). rewrite Hcn', Hk in Hw.
      destruct (nkind cn) eqn:Hkc; try discriminate.
      * eapply (IH f c); eauto. exists cn. split; [exact Hcn|]. unfold is_dir. rewrite Hkc. reflexivity.
      * apply fbind_ok_r in H. destruct H as (c' & Hg & H).
        destruct (get f c') as [tn|] eqn:Htn; [|discriminate]. destruct (is_dir tn) eqn:Hdt; [|discriminate].
        destruct k as [|k]; [discriminate|]. rewrite Ht in Hw.
        destruct (getnode k f' (link_comps trav (ntarget cn))) as [c''| | |] eqn:Hg'; try discriminate.
        assert (c'' = c'). { eapply getnode_depth_indep; [exact Hg'|]. eapply getnode_ext; eauto. }
        subst c''. eapply (IH f c'); eauto.
    + destruct (String.eqb q "." || String.eqb q ".."); [discriminate|].
      set (f1 := fst (new_child f cur q (new_dir perm))) in *.
      change (add_child (f ++ [new_dir perm]) cur q (List.length f)) with f1 in H.
      destruct (mkdirall_from_spec _ _ _ _ _ _ _ H) as (E1 & _ & _).
      assert (G1 : get f1 cur = Some (with_children n (nchildren n ++ [(q, List.length f)]))) by (eapply new_child_get_parent; eauto).
      assert (G2 : get f1 (List.length f) = Some (new_dir perm)) by (eapply new_child_get_new; eauto).
      destruct (E1 _ _ G1) as (x & Gx & (_ & _ & _ & _ & _ & _ & _ & Hx)). rewrite Hc' in Gx. inversion Gx; subst x.
      assert (L : lookup q (nchildren n') = Some (List.length f)).
      { apply Hx. cbn [with_children nchildren]. rewrite lookup_app, Hl. apply lookup_single. }
      rewrite L in Hw. destruct (E1 _ _ G2) as (y & Gy & (Ky & _)). rewrite Gy, Ky in Hw. cbn [new_dir nkind] in Hw.
      eapply (IH f1 (List.length f)); eauto.
Qed.

(* ---- directory ---------------------------------------------------------------------------- *)
Theorem directory_kind : forall f m f',
  (exists rn, get f root_ino = Some rn /\ is_dir rn = true) ->
  m_type m = "directory" -> mutate_one maxl f m = FOk f' ->
  exists t n, gn maxl f' (path_of (m_path m)) = FOk t /\ get f' t = Some n /\ nkind n = KDir /\
              nperm n = m_perm m /\ nuid n = m_uid m /\ ngid n = m_gid m.
Proof.
  intros f m f' Hroot Hty H. pose proof H as H0. unfold mutate_one in H.
  assert (Hfn : assoc (m_type m) path_mutators = Some "mutateDirectory") by (rewrite Hty; reflexivity).
  rewrite Hfn in H. change (mutator_named maxl "mutateDirectory") with (Some (mutate_directory maxl)) in H. cbv iota beta in H.
  apply fbind_ok_r in H. destruct H as (f1 & Hpm & H). rewrite Hty in H. cbn [String.eqb Ascii.eqb Bool.eqb] in H.
  unfold mutate_permissions in H.
  destruct (perms_direct_changes maxl (fun _ => True) (fun _ _ => True) _ _ _ _ _ _ I I H) as (t & G1 & Gt & Ct & _ & _).
  unfold mutate_directory in Hpm. apply fbind_ok_r in Hpm. destruct Hpm as (f0 & Hmk & Hpm).
  assert (G0 : gn maxl f0 (path_of (m_path m)) = FOk t /\ forall j a, get f0 j = Some a -> exists b, get f1 j = Some b /\ nkind b = nkind a).
  { destruct (m_recursive m).
    - apply fbind_ok_r in Hpm. destruct Hpm as (sn & _ & Hw).
      destruct (walk_changes maxl (fun _ => True) (fun _ _ => True) _ _ _ I I _ _ _ _ _ Hw) as (Sw & Cw & Rw & _).
      split; [unfold gn in *; rewrite <- Rw; exact G1|].
      intros j a Hj. destruct Cw as (_ & Cw). destruct (Cw j a Hj) as (b & Gb & (K & _)). eauto.
    - inversion Hpm; subst f1. split; [exact G1 | eauto]. }
  destruct G0 as (G0 & K01).
  unfold mkdirall in Hmk. unfold gn in G0. rewrite getnode_walk in G0.
  destruct (mkdirall_from_dir _ _ _ _ _ _ Hroot Hmk _ _ G0) as (jn & Gj & Dj).
  destruct (K01 t jn Gj) as (b & Gb & Kb). destruct Ct as (_ & Ct). destruct (Ct t b Gb) as (c & Gc & (Kc & _)).
  destruct (mutate_one_post maxl f m f' H0) as (n & Hs & A1 & A2 & A3).
  unfold stat, gnode in Hs. rewrite Gt in Hs. cbn [fbind] in Hs. rewrite Gc in Hs. inversion Hs; subst n.
  exists t, c. repeat split; auto. rewrite Kc, Kb. unfold is_dir in Dj. destruct (nkind jn); simpl in Dj; try discriminate; reflexivity.
Qed.

(* ---- symlink and hardlink: the entry stored under the path itself ---------------------------- *)
(* index of the entry stored under a path, final symlink not resolved (cf. [direct]) *)
Definition direct_idx (f : fs) (p : path) : fres nat :=
  match pbase p with
  | None => gn maxl f p
  | Some b =>
      fdo dn <- gnode maxl f (pdir p);
      match lookup b (nchildren dn) with None => FNotExist | Some c => FOk c end
  end.
Lemma direct_of_idx : forall f p i n, pbase p <> None -> direct_idx f p = FOk i -> get f i = Some n -> direct maxl f p = FOk n.
Proof.
  intros f p i n Hb H Hn. unfold direct_idx in H. unfold direct. destruct (pbase p) as [b|]; [|contradiction].
  destruct (gnode maxl f (pdir p)) as [dn| | |]; simpl in *; try discriminate.
  destruct (lookup b (nchildren dn)) as [c|]; [|discriminate]. inversion H; subst c. rewrite Hn. reflexivity.
Qed.

(* Chmod+Chown of some path: listings, kinds, targets and resolution stay *)
Lemma perms_direct_keeps_entry : forall f q perm u g f' p i,
  perms_direct maxl f q perm u g = FOk f' -> direct_idx f p = FOk i -> direct_idx f' p = FOk i.
Proof.
  intros f q perm u g f' p i H Hd.
  destruct (perms_direct_changes maxl (fun _ => True) (fun _ _ => True) _ _ _ _ _ _ I I H) as (t & _ & _ & _ & R & _).
  destruct (perms_direct_listing maxl _ _ _ _ _ _ H) as (_ & SL).
  unfold direct_idx in *. destruct (pbase p) as [b|]; [|unfold gn in *; rewrite R; exact Hd].
  unfold gnode, gn in *. rewrite R. destruct (getnode maxl f (p_comps (pdir p))) as [d| | |]; simpl in *; try discriminate.
  pose proof (SL d) as Sd. destruct (get f d) as [dn|], (get f' d) as [dn'|]; try contradiction; try discriminate.
  destruct Sd as (_ & E). cbn [fbind] in *. rewrite <- E. exact Hd.
Qed.

Lemma add_child_ext : forall f d nm c dn, get f d = Some dn -> lookup nm (nchildren dn) = None -> fs_ext f (add_child f d nm c).
Proof.
  intros f d nm c dn Hd Hl i x Hi. unfold add_child. destruct (Nat.eq_dec i d) as [->|Hne].
  - rewrite Hd in Hi. inversion Hi; subst x. eexists. split; [exact (get_upd_eq f d _ dn Hd)|].
    repeat split; auto. cbn [with_children nchildren]. intros k v H. rewrite lookup_app, H. reflexivity.
  - exists x. split; [rewrite get_upd_neq; auto | apply node_ext_refl].
Qed.

Theorem symlink_kind : forall f m f',
  m_type m = "symlink" -> mutate_one maxl f m = FOk f' ->
  exists n, direct maxl f' (path_of (m_path m)) = FOk n /\ nkind n = KSym /\ ntarget n = m_source m.
Proof.
  intros f m f' Hty H. unfold mutate_one in H.
  assert (Hfn : assoc (m_type m) path_mutators = Some "mutateSymLink") by (rewrite Hty; reflexivity).
  rewrite Hfn in H. change (mutator_named maxl "mutateSymLink") with (Some (mutate_sym_link maxl)) in H. cbv iota beta in H.
  apply fbind_ok_r in H. destruct H as (f1 & Hpm & H). rewrite Hty in H. cbn [String.eqb Ascii.eqb Bool.eqb] in H.
  unfold mutate_permissions in H. set (p := path_of (m_path m)) in *.
  unfold mutate_sym_link in Hpm. fold p in Hpm. apply fbind_ok_r in Hpm. destruct Hpm as (f0 & _ & Hsl).
  unfold symlink in Hsl. apply fbind_ok_r in Hsl. destruct Hsl as (d & Hd & Hsl).
  destruct (get f0 d) as [dn|] eqn:Hgd; [|discriminate]. destruct (pbase p) as [b|] eqn:Hb; [|discriminate].
  destruct (negb (is_dir dn)); [discriminate|]. destruct (lookup b (nchildren dn)) eqn:Hl; [discriminate|].
  inversion Hsl; subst f1. clear Hsl.
  set (lk := mkNode KSym 511 0 0 (m_source m) "" [] "") in *.
  assert (Hi : direct_idx (fst (new_child f0 d b lk)) p = FOk (List.length f0)).
  { unfold direct_idx. rewrite Hb. unfold gnode, gn in *.
    rewrite (getnode_ext _ _ _ _ _ (new_child_ext f0 d b lk dn Hgd Hl) Hd). cbn [fbind].
    rewrite (new_child_get_parent f0 d b lk dn Hgd). cbn [fbind with_children nchildren]. rewrite lookup_app, Hl, lookup_single. reflexivity. }
  pose proof (perms_direct_keeps_entry _ _ _ _ _ _ _ _ H Hi) as Hi'.
  destruct (perms_direct_changes maxl (fun _ => True) (fun _ _ => True) _ _ _ _ _ _ I I H) as (t & _ & _ & (_ & Ct) & _ & _).
  destruct (Ct _ _ (new_child_get_new f0 d b lk dn Hgd)) as (n & Gn & (K & T & _)).
  exists n. split; [eapply direct_of_idx; eauto; rewrite Hb; discriminate|]. split; [exact K | exact T].
Qed.

(* hardlink: the entry at the path and the source are one and the same node *)
Theorem hardlink_same_node : forall f m f',
  m_type m = "hardlink" -> mutate_one maxl f m = FOk f' ->
  exists t, direct_idx f' (path_of (m_path m)) = FOk t /\ gn maxl f' (path_of (m_source m)) = FOk t.
Proof.
  intros f m f' Hty H. unfold mutate_one in H.
  assert (Hfn : assoc (m_type m) path_mutators = Some "mutateHardLink") by (rewrite Hty; reflexivity).
  rewrite Hfn in H. change (mutator_named maxl "mutateHardLink") with (Some (mutate_hard_link maxl)) in H. cbv iota beta in H.
  apply fbind_ok_r in H. destruct H as (f1 & Hpm & H). rewrite Hty in H. cbn [String.eqb Ascii.eqb Bool.eqb] in H.
  unfold mutate_permissions in H. set (p := path_of (m_path m)) in *.
  unfold mutate_hard_link in Hpm. fold p in Hpm. apply fbind_ok_r in Hpm. destruct Hpm as (f0 & _ & Hpm).
  apply fbind_ok_r in Hpm. destruct Hpm as (f2 & _ & Hln).
  unfold link in Hln. apply fbind_ok_r in Hln. destruct Hln as (d & Hd & Hln).
  destruct (gn maxl f2 (path_of (m_source m))) as [t| | |] eqn:Hs; try discriminate.
  destruct (get f2 d) as [dn|] eqn:Hgd; [|discriminate]. destruct (pbase p) as [b|] eqn:Hb; [|discriminate].
  destruct (negb (is_dir dn)); [discriminate|]. destruct (lookup b (nchildren dn)) eqn:Hl; [discriminate|].
  inversion Hln; subst f1. clear Hln.
  pose proof (add_child_ext f2 d b t dn Hgd Hl) as E.
  assert (Hi : direct_idx (add_child f2 d b t) p = FOk t).
  { unfold direct_idx. rewrite Hb. unfold gnode, gn in *. rewrite (getnode_ext _ _ _ _ _ E Hd). cbn [fbind].
    unfold add_child. rewrite (get_upd_eq f2 d _ dn Hgd). cbn [fbind with_children nchildren].
    rewrite lookup_app, Hl, lookup_single. reflexivity. }
  exists t. split; [eapply perms_direct_keeps_entry; eauto|].
  destruct (perms_direct_changes maxl (fun _ => True) (fun _ _ => True) _ _ _ _ _ _ I I H) as (x & _ & _ & _ & R & _).
  unfold gn in *. rewrite R. eapply getnode_ext; eauto.
Qed.

(* empty-file: some regular entry (never a directory or a link) was opened and its
   own buffer is empty afterwards; what a reader then sees is the backing
   package entry, if there is one (finding C13-F4) *)
Theorem empty_file_emptied : forall f m f1,
  mutate_empty_file maxl f m = FOk f1 ->
  exists o n, get f1 o = Some n /\ ndata n = "" /\ edata n = nback n /\ nkind n <> KDir /\ nkind n <> KSym /\
              (tarfs_trunc_detaches = true -> nback n = "").
Proof.
  intros f m f1 H. unfold mutate_empty_file in H. apply fbind_ok_r in H. destruct H as (f0 & _ & H).
  unfold create_write in H. apply fbind_ok_r in H. destruct H as ([f2 o] & Ho & H). inversion H; subst f1. clear H.
  assert (X : forall k fa p perm fb i, openfile maxl k fa p perm = FOk (fb, i) ->
              exists n, get fb i = Some n /\ nkind n <> KDir /\ nkind n <> KSym).
  { induction k as [|k IH]; intros fa p perm fb i Hx; simpl in Hx;
      apply fbind_ok_r in Hx; destruct Hx as (d & Hd & Hx);
      (destruct (get fa d) as [dn|] eqn:Hgd; [|discriminate]);
      (destruct (pbase p) as [b|]; [|discriminate]);
      (destruct (negb (is_dir dn)); [discriminate|]);
      destruct (lookup b (nchildren dn)) as [c|] eqn:Hl.
    - destruct (get fa c) as [cn|] eqn:Hc; [|discriminate]. destruct (nkind cn) eqn:K; try discriminate;
        inversion Hx; subst; exists cn; rewrite K; repeat split; auto; discriminate.
    - inversion Hx; subst. eexists. split; [exact (new_child_get_new fa d b _ dn Hgd)|]. split; discriminate.
    - destruct (get fa c) as [cn|] eqn:Hc; [|discriminate]. destruct (nkind cn) eqn:K; try discriminate.
      + inversion Hx; subst; exists cn; rewrite K; repeat split; auto; discriminate.
      + eapply IH; eauto.
      + inversion Hx; subst; exists cn; rewrite K; repeat split; auto; discriminate.
    - inversion Hx; subst. eexists. split; [exact (new_child_get_new fa d b _ dn Hgd)|]. split; discriminate. }
  destruct (X _ _ _ _ _ _ Ho) as (n & Gn & K1 & K2).
  exists o, (trunc_write n ""). split; [exact (get_upd_eq f2 o _ n Gn)|]. repeat split; auto.
  all: try (intro E; unfold trunc_write; cbn [nback]; rewrite E; reflexivity).
Qed.

(* ---- recursive: the walk reaches the whole subtree ---------------------------------------------- *)
(* [below f i j]: j is i itself, or is reached from directory i through a chain of
   directory entries none of which is a symbolic link (what fs.WalkDir descends) *)
Inductive below (f : fs) : nat -> nat -> Prop :=
| below_refl : forall i, below f i i
| below_head : forall i n nm c cn j,
    get f i = Some n -> is_dir n = true -> lookup nm (nchildren n) = Some c ->
    get f c = Some cn -> nkind cn <> KSym -> below f c j -> below f i j.

Lemma below_same_listing : forall f g i j, same_listing f g -> below f i j -> below g i j.
Proof.
  intros f g i j (_ & S) H. induction H as [i|i n nm c cn j Hi Hd Hl Hc Hk Hb IH]; [constructor|].
  pose proof (S i) as Si. pose proof (S c) as Sc. rewrite Hi in Si. rewrite Hc in Sc.
  destruct (get g i) as [n'|] eqn:Gi; [|contradiction]. destruct (get g c) as [cn'|] eqn:Gc; [|contradiction].
  destruct Si as (K1 & E1). destruct Sc as (K2 & _).
  eapply (below_head g i n' nm c cn'); eauto.
  - unfold is_dir in *. rewrite <- K1. exact Hd.
  - rewrite <- E1. exact Hl.
  - rewrite <- K2. exact Hk.
Qed.
Lemma same_listing_sym : forall f g, same_listing f g -> same_listing g f.
Proof.
  intros f g (L & S). split; [congruence|]. intro k. pose proof (S k) as A.
  destruct (get f k), (get g k); try contradiction; auto. destruct A. split; congruence.
Qed.

Definition has_attrs_at (perm u g : N) (f : fs) (j : nat) : Prop :=
  exists b, get f j = Some b /\ nperm b = perm /\ nuid b = u /\ ngid b = g.

Lemma has_attrs_kept : forall perm u g S f f' j,
  changes (fun p => p = perm) (fun a b => a = u /\ b = g) S f f' -> has_attrs_at perm u g f j -> has_attrs_at perm u g f' j.
Proof.
  intros perm u g S f f' j (_ & C) (b & Gb & P & U & G). destruct (C j b Gb) as (c & Gc & (_ & _ & _ & Pc & Oc & _)).
  exists c. split; [exact Gc|]. split; [destruct Pc; congruence|]. destruct Oc as [[A B]|[A B]]; split; congruence.
Qed.

Theorem walk_covers : forall perm u g fuel f p isdir f' i,
  walk maxl fuel f p isdir perm u g = FOk f' -> gn maxl f p = FOk i ->
  (forall n, get f i = Some n -> isdir = is_dir n) ->
  forall j, below f i j -> has_attrs_at perm u g f' j.
Proof.
  intros perm u g. induction fuel as [|fuel IH]; intros f p isdir f' i H Gi Hflag j Hb; [discriminate|]. simpl in H.
  apply fbind_ok_r in H. destruct H as (f1 & H1 & H).
  destruct (perms_direct_changes maxl (fun q => q = perm) (fun a b => a = u /\ b = g) _ _ _ _ _ _ eq_refl (conj eq_refl eq_refl) H1)
    as (i' & Gi' & Gi1 & C1 & R1 & L1).
  assert (i' = i) by congruence. subst i'.
  pose proof (perms_direct_listing maxl _ _ _ _ _ _ H1) as S1.
  assert (Hi1 : has_attrs_at perm u g f1 i).
  { destruct (PathMutProofs.perms_direct_post maxl _ _ _ _ _ _ H1) as (n & Hs & A). unfold stat, gnode in Hs. rewrite Gi1 in Hs. cbn [fbind] in Hs.
    destruct (get f1 i) as [x|] eqn:Gx; [|discriminate]. inversion Hs; subst x. exists n. split; [exact Gx | exact A]. }
  destruct isdir.
  - apply fbind_ok_r in H. destruct H as (dn & Hdn & H). unfold gnode in Hdn. rewrite Gi1 in Hdn. cbn [fbind] in Hdn.
    destruct (get f1 i) as [dn1|] eqn:Gd1; [|discriminate]. inversion Hdn; subst dn1. clear Hdn.
    destruct (negb (is_dir dn)); [discriminate|].
    assert (Hni : exists ni, get f i = Some ni /\ nchildren ni = nchildren dn).
    { pose proof (proj2 S1 i) as S1i. rewrite Gd1 in S1i. destruct (get f i) as [ni|]; [|contradiction]. destruct S1i. eauto. }
    destruct Hni as (ni & Gni & Ecd).
    (* the loop over the listing of i *)
    assert (X : forall cs fa, same_listing f fa -> (forall d cs0, getnode d fa cs0 = getnode d f cs0) ->
              (fix each (f0 : fs) (cs0 : list (string * nat)) {struct cs0} : fres fs :=
                 match cs0 with
                 | [] => FOk f0
                 | (nm, c) :: t =>
                     match get f0 c with
                     | Some cn => fdo f'0 <- walk maxl fuel f0 (child_path p nm) (is_dir cn) perm u g; each f'0 t
                     | None => FErr
                     end
                 end) fa cs = FOk f' ->
              (forall k, has_attrs_at perm u g fa k -> has_attrs_at perm u g f' k) /\
              (forall nm c cn k, In (nm, c) cs -> lookup nm (nchildren dn) = Some c -> get f c = Some cn -> nkind cn <> KSym ->
                                 below f c k -> has_attrs_at perm u g f' k)).
    { induction cs as [|[nm c] t IHt]; intros fa Sa Ra Hx.
      - inversion Hx; subst. split; [auto | intros ? ? ? ? []].
      - destruct (get fa c) as [cna|] eqn:Gca; [|discriminate]. apply fbind_ok_r in Hx. destruct Hx as (fb & Hw & Hx).
        destruct (walk_changes maxl (fun q => q = perm) (fun a b => a = u /\ b = g) perm u g eq_refl (conj eq_refl eq_refl) _ _ _ _ _ Hw) as (Sw & Cw & Rw & _).
        pose proof (walk_listing maxl _ _ _ _ _ _ _ _ Hw) as Lw.
        destruct (IHt fb (same_listing_trans _ _ _ Sa Lw) (fun d cs0 => eq_trans (Rw d cs0) (Ra d cs0)) Hx) as (K1 & K2).
        split; [intros k Hk; apply K1; eapply has_attrs_kept; eauto|].
        intros nm' c' cn' k [E|Hin] Hlk Hgc Hks Hbk; [|eapply K2; eauto].
        inversion E; subst nm' c'. apply K1.
        (* the recursive walk of this entry *)
        destruct Sa as (La & Sa'). pose proof (Sa' c) as Sc. rewrite Hgc, Gca in Sc. destruct Sc as (Kc & _).
        pose proof (Sa' i) as Si. rewrite Gni in Si.
        destruct (get fa i) as [nia|] eqn:Gnia; [|contradiction]. destruct Si as (_ & Eci).
        assert (Gc : gn maxl fa (child_path p nm) = FOk c).
        { unfold gn, child_path. cbn [p_comps]. eapply getnode_snoc; eauto.
          - rewrite Ra. exact Gi.
          - rewrite <- Eci, Ecd. exact Hlk.
          - rewrite <- Kc. exact Hks. }
        eapply (IH fa (child_path p nm) (is_dir cna) fb c Hw Gc).
        + intros x Hxg. rewrite Gca in Hxg. inversion Hxg. reflexivity.
        + eapply below_same_listing; [split; [exact La | exact Sa'] | exact Hbk]. }
    destruct (X (nchildren dn) f1 S1 R1 H) as (K1 & K2).
    inversion Hb as [|? n nm c cn ? Hgi Hdi Hl Hc Hk Hbc]; subst.
    + apply K1. exact Hi1.
    + rewrite Gni in Hgi. inversion Hgi; subst n.
      eapply (K2 nm c cn); eauto; [|rewrite <- Ecd; exact Hl]. apply lookup_in. rewrite <- Ecd. exact Hl.
  - inversion H; subst f'. inversion Hb as [|? n nm c cn ? Hgi Hdi Hl Hc Hk Hbc]; subst; [exact Hi1|].
    pose proof (Hflag n Hgi) as Hfl. rewrite Hdi in Hfl. discriminate.
Qed.

(* a recursive directory mutation: every entry below the directory, reached through
   directories and not itself a symbolic link, ends with the declared mode and owner *)
Theorem directory_recursive_covers : forall f m f',
  m_type m = "directory" -> m_recursive m = true -> mutate_one maxl f m = FOk f' ->
  exists f0 t, mkdirall maxl f (path_of (m_path m)) (m_perm m) = FOk f0 /\ gn maxl f0 (path_of (m_path m)) = FOk t /\
    forall j, below f0 t j -> has_attrs_at (m_perm m) (m_uid m) (m_gid m) f' j.
Proof.
  intros f m f' Hty Hrec H. unfold mutate_one in H.
  assert (Hfn : assoc (m_type m) path_mutators = Some "mutateDirectory") by (rewrite Hty; reflexivity).
  rewrite Hfn in H. change (mutator_named maxl "mutateDirectory") with (Some (mutate_directory maxl)) in H. cbv iota beta in H.
  apply fbind_ok_r in H. destruct H as (f1 & Hpm & H). rewrite Hty in H. cbn [String.eqb Ascii.eqb Bool.eqb] in H.
  unfold mutate_permissions in H.
  destruct (perms_direct_changes maxl (fun q => q = m_perm m) (fun a b => a = m_uid m /\ b = m_gid m) _ _ _ _ _ _ eq_refl (conj eq_refl eq_refl) H)
    as (t & _ & _ & Ct & _ & _).
  unfold mutate_directory in Hpm. apply fbind_ok_r in Hpm. destruct Hpm as (f0 & Hmk & Hpm). rewrite Hrec in Hpm.
  apply fbind_ok_r in Hpm. destruct Hpm as (sn & Hs & Hw).
  unfold stat, gnode in Hs. destruct (gn maxl f0 (path_of (m_path m))) as [i| | |] eqn:Gi; try discriminate. cbn [fbind] in Hs.
  destruct (get f0 i) as [x|] eqn:Gx; [|discriminate]. inversion Hs; subst x.
  exists f0, i. split; [exact Hmk|]. split; [exact Gi|].
  intros j Hb. eapply has_attrs_kept; [exact Ct|].
  eapply walk_covers; eauto. intros n Hn. rewrite Gx in Hn. inversion Hn. reflexivity.
Qed.

End Kinds.
