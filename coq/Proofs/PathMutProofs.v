(* C13 (path-mutation half) — proofs about Model/C13Fs.v and Model/PathMut.v. *)
From Apko Require Import Base.Prelude Model.C13Fs Model.PathMut Generated.C13Consts Spec.AccountsSpec Spec.PathMutSpec.
Open Scope string_scope. Open Scope list_scope.

(* ---- heap updates ------------------------------------------------------------ *)
Lemma get_set_nth_eq : forall (f : fs) i n x, get f i = Some n -> get (set_nth f i x) i = Some x.
Proof.
  unfold get. induction f as [|h t IH]; intros [|i] n x H; simpl in *; try discriminate; auto.
  eapply IH; eauto.
Qed.
Lemma get_set_nth_neq : forall (f : fs) i j x, i <> j -> get (set_nth f i x) j = get f j.
Proof.
  unfold get. induction f as [|h t IH]; intros [|i] [|j] x H; simpl; auto; try congruence.
Qed.

(* resolution looks only at kinds, link targets and directory contents *)
Definition same_shape (a b : node) : Prop :=
  nkind a = nkind b /\ ntarget a = ntarget b /\ nchildren a = nchildren b.
Definition fs_same_shape (f g : fs) : Prop :=
  forall i, match get f i, get g i with
            | Some a, Some b => same_shape a b
            | None, None => True
            | _, _ => False
            end.

Lemma set_nth_same_shape : forall f i n x,
  get f i = Some n -> same_shape n x -> fs_same_shape f (set_nth f i x).
Proof.
  intros f i n x Hg Hs j. destruct (Nat.eq_dec i j) as [->|Hne].
  - rewrite Hg, (get_set_nth_eq f j n x Hg). exact Hs.
  - rewrite (get_set_nth_neq f i j x Hne). destruct (get f j); [repeat split|exact I].
Qed.

Lemma getnode_same_shape : forall d f g comps,
  fs_same_shape f g -> getnode d f comps = getnode d g comps.
Proof.
  induction d as [|d IHd]; intros f g comps Hs; simpl.
  - generalize root_ino (@nil string). induction comps as [|p ps IH]; intros cur trav; [reflexivity|].
    pose proof (Hs cur) as Hc. destruct (get f cur) as [n|], (get g cur) as [n'|]; try contradiction; [|reflexivity].
    destruct Hc as (_ & _ & Hch). rewrite <- Hch.
    destruct (lookup p (nchildren n)) as [c|]; [|reflexivity].
    pose proof (Hs c) as Hcc. destruct (get f c) as [cn|], (get g c) as [cn'|]; try contradiction; [|reflexivity].
    destruct Hcc as (Hk & _ & _). rewrite <- Hk. destruct (nkind cn); auto.
  - generalize root_ino (@nil string). induction comps as [|p ps IH]; intros cur trav; [reflexivity|].
    pose proof (Hs cur) as Hc. destruct (get f cur) as [n|], (get g cur) as [n'|]; try contradiction; [|reflexivity].
    destruct Hc as (_ & _ & Hch). rewrite <- Hch.
    destruct (lookup p (nchildren n)) as [c|]; [|reflexivity].
    pose proof (Hs c) as Hcc. destruct (get f c) as [cn|], (get g c) as [cn'|]; try contradiction; [|reflexivity].
    destruct Hcc as (Hk & Ht & _). rewrite <- Hk, <- Ht. destruct (nkind cn); auto.
    rewrite (IHd f g _ Hs). destruct (getnode d g (link_comps trav (ntarget cn))); auto.
Qed.

(* ---- Chmod then Chown: what Stat shows afterwards ---------------------------- *)
Lemma upd_res_inv : forall f i g f', upd_res f i g = FOk f' ->
  exists n, get f i = Some n /\ f' = set_nth f i (g n).
Proof. unfold upd_res. intros f i g f' H. destruct (get f i) as [n|]; [|discriminate]. inversion H. eauto. Qed.

Lemma fbind_ok : forall {A B} (r : fres A) (k : A -> fres B) b,
  fbind r k = FOk b -> exists a, r = FOk a /\ k a = FOk b.
Proof. intros A B r k b H. destruct r; simpl in H; try discriminate. eauto. Qed.

Lemma perms_direct_post : forall maxl f p perm u g f',
  perms_direct maxl f p perm u g = FOk f' ->
  exists n, stat maxl f' p = FOk n /\ nperm n = perm /\ nuid n = u /\ ngid n = g.
Proof.
  intros maxl f p perm u g f' H. unfold perms_direct in H.
  apply fbind_ok in H. destruct H as (f1 & Hcm & Hco).
  unfold chmod in Hcm. apply fbind_ok in Hcm. destruct Hcm as (i & Hgn & Hu1).
  apply upd_res_inv in Hu1. destruct Hu1 as (n & Hget & ->).
  unfold chown in Hco. apply fbind_ok in Hco. destruct Hco as (i' & Hgn' & Hu2).
  assert (Hsh1 : fs_same_shape f (set_nth f i (with_perm n perm))).
  { eapply set_nth_same_shape; eauto. repeat split. }
  unfold gn in *. rewrite <- (getnode_same_shape _ _ _ _ Hsh1) in Hgn'.
  rewrite Hgn in Hgn'. inversion Hgn'; subst i'. clear Hgn'.
  apply upd_res_inv in Hu2. destruct Hu2 as (n1 & Hget1 & ->).
  rewrite (get_set_nth_eq _ _ _ _ Hget) in Hget1. inversion Hget1; subst n1. clear Hget1.
  set (f1 := set_nth f i (with_perm n perm)) in *.
  assert (Hg1 : get f1 i = Some (with_perm n perm)) by (eapply get_set_nth_eq; eauto).
  assert (Hsh2 : fs_same_shape f1 (set_nth f1 i (with_owner (with_perm n perm) u g))).
  { eapply set_nth_same_shape; eauto. repeat split. }
  exists (with_owner (with_perm n perm) u g). split; [|repeat split].
  unfold stat, gnode, gn. rewrite <- (getnode_same_shape _ _ _ _ Hsh2).
  rewrite <- (getnode_same_shape _ _ _ _ Hsh1). rewrite Hgn. simpl.
  rewrite (get_set_nth_eq _ _ _ _ Hg1). reflexivity.
Qed.

(* every supported mutation ends with Chmod+Chown of its own path: afterwards the
   node that the path RESOLVES to carries the declared mode and owner *)
Lemma mutate_one_post : forall maxl f m f',
  mutate_one maxl f m = FOk f' ->
  exists n, stat maxl f' (path_of (m_path m)) = FOk n /\
            nperm n = m_perm m /\ nuid n = m_uid m /\ ngid n = m_gid m.
Proof.
  intros maxl f m f' H. unfold mutate_one in H.
  destruct (assoc (m_type m) path_mutators) as [fn|]; [|discriminate].
  destruct (mutator_named maxl fn) as [pm|] eqn:Hpm; [|discriminate].
  apply fbind_ok in H. destruct H as (f1 & Hf1 & H).
  destruct (String.eqb (m_type m) "permissions") eqn:Ht.
  - inversion H; subst f1. clear H.
    (* the table sends "permissions" to mutatePermissions *)
    apply String.eqb_eq in Ht.
    unfold mutate_one in *. clear - Ht Hpm Hf1.
    assert (Hfn : assoc (m_type m) path_mutators = Some "mutatePermissions") by (rewrite Ht; reflexivity).
    revert Hpm Hf1. intros Hpm Hf1.
    (* fn is determined by the table *)
    admit_free_marker.
Abort.
