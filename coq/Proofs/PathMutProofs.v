(* C13 (path-mutation half) — proofs about Model/C13Fs.v and Model/PathMut.v. *)
From Apko Require Import Base.Prelude Model.C13Fs Model.Accounts Model.PathMut Generated.C13Consts Spec.AccountsSpec Spec.PathMutSpec Proofs.AccountsProofs.
Open Scope string_scope. Open Scope list_scope.

(* ---- heap updates ------------------------------------------------------------ *)
Lemma get_set_nth_eq : forall (f : fs) i n x, get f i = Some n -> get (set_nth f i x) i = Some x.
Proof.
  unfold get. induction f as [|h t IH]; intros [|i] n x H; simpl in *; try discriminate; auto.
  eapply IH; eauto.
Qed.
Lemma get_set_nth_neq : forall (f : fs) i j x, i <> j -> get (set_nth f i x) j = get f j.
Proof.
  unfold get. induction f as [|h t IH]; intros [|i] [|j] x H; simpl; auto; try congruence.
Qed.

(* resolution looks only at kinds, link targets and directory contents *)
Definition same_shape (a b : node) : Prop :=
  nkind a = nkind b /\ ntarget a = ntarget b /\ nchildren a = nchildren b.
Definition fs_same_shape (f g : fs) : Prop :=
  forall i, match get f i, get g i with
            | Some a, Some b => same_shape a b
            | None, None => True
            | _, _ => False
            end.

Lemma set_nth_same_shape : forall f i n x,
  get f i = Some n -> same_shape n x -> fs_same_shape f (set_nth f i x).
Proof.
  intros f i n x Hg Hs j. destruct (Nat.eq_dec i j) as [->|Hne].
  - rewrite Hg, (get_set_nth_eq f j n x Hg). exact Hs.
  - rewrite (get_set_nth_neq f i j x Hne). destruct (get f j); [repeat split|exact I].
Qed.

Lemma getnode_same_shape : forall d f g comps,
  fs_same_shape f g -> getnode d f comps = getnode d g comps.
Proof.
  induction d as [|d IHd]; intros f g comps Hs; simpl.
  - match goal with |- ?F root_ino [] comps = ?G root_ino [] comps =>
      cut (forall ps cur trav, F cur trav ps = G cur trav ps); [intro HH; apply HH|] end.
    induction ps as [|p ps IH]; intros cur trav; [reflexivity|]. simpl.
    pose proof (Hs cur) as Hc. destruct (get f cur) as [n|], (get g cur) as [n'|]; try contradiction; [|reflexivity].
    destruct Hc as (_ & _ & Hch). rewrite <- Hch.
    destruct (lookup p (nchildren n)) as [c|]; [|reflexivity].
    pose proof (Hs c) as Hcc. destruct (get f c) as [cn|], (get g c) as [cn'|]; try contradiction; [|reflexivity].
    destruct Hcc as (Hk & _ & _). rewrite <- Hk. destruct (nkind cn); auto.
  - match goal with |- ?F root_ino [] comps = ?G root_ino [] comps =>
      cut (forall ps cur trav, F cur trav ps = G cur trav ps); [intro HH; apply HH|] end.
    induction ps as [|p ps IH]; intros cur trav; [reflexivity|]. simpl.
    pose proof (Hs cur) as Hc. destruct (get f cur) as [n|], (get g cur) as [n'|]; try contradiction; [|reflexivity].
    destruct Hc as (_ & _ & Hch). rewrite <- Hch.
    destruct (lookup p (nchildren n)) as [c|]; [|reflexivity].
    pose proof (Hs c) as Hcc. destruct (get f c) as [cn|], (get g c) as [cn'|]; try contradiction; [|reflexivity].
    destruct Hcc as (Hk & Ht & _). rewrite <- Hk, <- Ht. destruct (nkind cn); auto.
    rewrite (IHd f g _ Hs). destruct (getnode d g (link_comps trav (ntarget cn))); auto.
Qed.

(* ---- Chmod then Chown: what Stat shows afterwards ---------------------------- *)
Lemma upd_res_inv : forall f i g f', upd_res f i g = FOk f' ->
  exists n, get f i = Some n /\ f' = set_nth f i (g n).
Proof. unfold upd_res. intros f i g f' H. destruct (get f i) as [n|]; [|discriminate]. inversion H. eauto. Qed.

Lemma fbind_ok : forall {A B} (r : fres A) (k : A -> fres B) b,
  fbind r k = FOk b -> exists a, r = FOk a /\ k a = FOk b.
Proof. intros A B r k b H. destruct r; simpl in H; try discriminate. eauto. Qed.

Lemma perms_direct_post : forall maxl f p perm u g f',
  perms_direct maxl f p perm u g = FOk f' ->
  exists n, stat maxl f' p = FOk n /\ nperm n = perm /\ nuid n = u /\ ngid n = g.
Proof.
  intros maxl f p perm u g f' H. unfold perms_direct in H.
  apply fbind_ok in H. destruct H as (f1 & Hcm & Hco).
  unfold chmod in Hcm. apply fbind_ok in Hcm. destruct Hcm as (i & Hgn & Hu1).
  apply upd_res_inv in Hu1. destruct Hu1 as (n & Hget & ->).
  unfold chown in Hco. apply fbind_ok in Hco. destruct Hco as (i' & Hgn' & Hu2).
  assert (Hsh1 : fs_same_shape f (set_nth f i (with_perm n perm))).
  { eapply set_nth_same_shape; eauto. repeat split. }
  unfold gn in *. rewrite <- (getnode_same_shape _ _ _ _ Hsh1) in Hgn'.
  rewrite Hgn in Hgn'. inversion Hgn'; subst i'. clear Hgn'.
  apply upd_res_inv in Hu2. destruct Hu2 as (n1 & Hget1 & ->).
  rewrite (get_set_nth_eq _ _ _ _ Hget) in Hget1. inversion Hget1; subst n1. clear Hget1.
  set (f1 := set_nth f i (with_perm n perm)) in *.
  assert (Hg1 : get f1 i = Some (with_perm n perm)) by (eapply get_set_nth_eq; eauto).
  assert (Hsh2 : fs_same_shape f1 (set_nth f1 i (with_owner (with_perm n perm) u g))).
  { eapply set_nth_same_shape; eauto. repeat split. }
  exists (with_owner (with_perm n perm) u g). split; [|repeat split].
  unfold stat, gnode, gn. rewrite <- (getnode_same_shape _ _ _ _ Hsh2).
  rewrite <- (getnode_same_shape _ _ _ _ Hsh1). rewrite Hgn. simpl.
  rewrite (get_set_nth_eq _ _ _ _ Hg1). reflexivity.
Qed.

(* every supported mutation ends with Chmod+Chown of its own path: afterwards the
   node that the path RESOLVES to carries the declared mode and owner *)
Lemma mutate_one_post : forall maxl f m f',
  mutate_one maxl f m = FOk f' ->
  exists n, stat maxl f' (path_of (m_path m)) = FOk n /\
            nperm n = m_perm m /\ nuid n = m_uid m /\ ngid n = m_gid m.
Proof.
  intros maxl f m f' H. unfold mutate_one in H.
  destruct (assoc (m_type m) path_mutators) as [fn|] eqn:Hfn; [|discriminate].
  destruct (mutator_named maxl fn) as [pm|] eqn:Hpm; [|discriminate].
  apply fbind_ok in H. destruct H as (f1 & Hf1 & H).
  destruct (String.eqb (m_type m) "permissions") eqn:Ht.
  - inversion H; subst f1. clear H.
    apply String.eqb_eq in Ht. rewrite Ht in Hfn.
    vm_compute in Hfn. inversion Hfn; subst fn. clear Hfn.
    unfold mutator_named in Hpm. simpl in Hpm. inversion Hpm; subst pm. clear Hpm.
    unfold mutate_permissions in Hf1. eapply perms_direct_post; eauto.
  - unfold mutate_permissions in H. eapply perms_direct_post; eauto.
Qed.

Lemma mutate_paths_app : forall maxl ms f m f',
  mutate_paths maxl f (ms ++ [m]) = FOk f' ->
  exists f1, mutate_paths maxl f ms = FOk f1 /\ mutate_one maxl f1 m = FOk f'.
Proof.
  intros maxl. induction ms as [|a t IH]; intros f m f' H; simpl in *.
  - apply fbind_ok in H. destruct H as (f1 & H1 & H2). inversion H2; subst. eauto.
  - apply fbind_ok in H. destruct H as (f1 & H1 & H2). rewrite H1. simpl. eauto.
Qed.

Lemma last_mutation_post : forall maxl f ms m f',
  mutate_paths maxl f (ms ++ [m]) = FOk f' ->
  exists n, stat maxl f' (path_of (m_path m)) = FOk n /\
            nperm n = m_perm m /\ nuid n = m_uid m /\ ngid n = m_gid m.
Proof.
  intros maxl f ms m f' H. apply mutate_paths_app in H. destruct H as (f1 & _ & H).
  eapply mutate_one_post; eauto.
Qed.

(* unsupported types are rejected *)
Lemma unknown_type_rejected : forall maxl f m,
  assoc (m_type m) path_mutators = None -> mutate_one maxl f m = FErr.
Proof. intros maxl f m H. unfold mutate_one. rewrite H. reflexivity. Qed.

(* ---- the layer: which modes survive tar.FileInfoHeader ----------------------- *)
Lemma layer_mode_le : forall p, (layer_mode p <= 511)%N.
Proof.
  intro p. unfold layer_mode.
  destruct (N.eq_dec (N.land p 511) 0) as [E|E]; [rewrite E; discriminate|].
  apply N.lt_succ_r. change (N.succ 511) with (2 ^ 9)%N.
  apply N.log2_lt_pow2; [destruct (N.land p 511); [congruence|reflexivity]|].
  eapply N.le_lt_trans; [apply N.log2_land|].
  apply N.min_lt_iff. right. reflexivity.
Qed.
Lemma layer_mode_exact_iff : forall p, layer_mode p = p <-> (p <= 511)%N.
Proof.
  intro p. split.
  - intro H. rewrite <- H. apply layer_mode_le.
  - intro H. unfold layer_mode. change 511%N with (N.ones 9). rewrite N.land_ones.
    apply N.mod_small. change (2 ^ 9)%N with 512%N. lia.
Qed.

(* C13-F1, on the model: a sticky directory loses the bit in the layer *)
Lemma special_bits_refuted :
  exists m f', m_perm m = 1023%N (* 0o1777 *) /\
    mutate_paths 40 (empty_fs 493) [m] = FOk f' /\
    (exists n, stat 40 f' (path_of (m_path m)) = FOk n /\ nperm n = m_perm m) /\
    exists l, In l (layer_of f') /\ d_path l = "tmp" /\ d_perm l = 511%N /\ d_perm l <> m_perm m.
Proof.
  exists (mkMut "directory" "/tmp" "" 1023 0 0 false).
  eexists. split; [reflexivity|]. split; [vm_compute; reflexivity|].
  split.
  - eexists. split; [vm_compute; reflexivity|]. reflexivity.
  - eexists. split; [left; reflexivity|]. vm_compute. repeat split; discriminate.
Qed.

(* C13-F2, on the model: the owner declared on a symlink mutation lands on the
   link's target; the link itself stays 0:0 *)
Lemma symlink_owner_refuted :
  exists f m f', m_type m = "symlink" /\ mutate_paths 40 f [m] = FOk f' /\
    (exists l, direct 40 f' (path_of (m_path m)) = FOk l /\ nkind l = KSym /\ ntarget l = m_source m /\
               nuid l = 0%N /\ nuid l <> m_uid m) /\
    (exists t, stat 40 f' (path_of (m_source m)) = FOk t /\ nuid t = m_uid m /\ ngid t = m_gid m /\ nperm t = m_perm m) /\
    realised_tags m (mkStep (match direct 40 f' (path_of (m_path m)) with FOk n => Some (dentry_of "" n) | _ => None end)
                            None 0 None []) = ["viol:symlink-owner-not-applied"].
Proof.
  exists [mkNode KDir 493 0 0 "" "" [("plain", 1%nat)] ""; mkNode KDir 488 1 2 "" "" [] ""].
  exists (mkMut "symlink" "/lnk" "plain" 448 9 9 false). eexists.
  split; [reflexivity|]. split; [vm_compute; reflexivity|].
  split; [eexists; split; [vm_compute; reflexivity|]; repeat split; discriminate|].
  split; [eexists; split; [vm_compute; reflexivity|]; repeat split|].
  vm_compute. reflexivity.
Qed.

(* a dangling source makes the symlink mutation fail (after creating the link) *)
Lemma symlink_dangling_fails :
  mutate_paths 40 (empty_fs 493) [mkMut "symlink" "/dl" "nowhere" 511 0 0 false] = FNotExist.
Proof. vm_compute. reflexivity. Qed.

(* the layer validator decides its statement *)
Lemma tag_if_nil : forall b t, tag_if b t = [] <-> b = false.
Proof. intros [] t; simpl; split; congruence. Qed.
Lemma app_nil_iff : forall {A} (a b : list A), a ++ b = [] <-> a = [] /\ b = [].
Proof. intros A [|x a] b; simpl; split; try tauto; try (intros [H _]; discriminate); discriminate. Qed.

Lemma layer_tags_iff : forall m l, layer_tags m l = [] <-> LayerRealised m l.
Proof.
  intros m l. unfold layer_tags, LayerRealised.
  rewrite app_nil_iff, !tag_if_nil, !negb_false_iff, andb_true_iff, !N.eqb_eq. tauto.
Qed.

(* the per-mutation validator is sound and complete for the readable statement *)
Lemma has_attrs_b_iff : forall m s, has_attrs_b m s = true <-> has_attrs m s.
Proof. intros. unfold has_attrs_b, has_attrs. rewrite !andb_true_iff, !N.eqb_eq. tauto. Qed.
Lemma d_has_attrs_b_iff : forall m d, d_has_attrs_b m d = true <-> d_has_attrs m d.
Proof. intros. unfold d_has_attrs_b, d_has_attrs. rewrite !andb_true_iff, !N.eqb_eq. tauto. Qed.
Lemma kind_eqb_iff' : forall a b, kind_eqb a b = true <-> a = b.
Proof. intros [] []; simpl; split; congruence. Qed.

Lemma realised_tags_permissions : forall m o, m_type m = "permissions" ->
  (realised_tags m o = [] <-> Realised m o).
Proof.
  intros m o Ht. unfold realised_tags, Realised. rewrite Ht. cbn [String.eqb Ascii.eqb Bool.eqb].
  simpl. rewrite tag_if_nil, negb_false_iff. destruct (so_stat o) as [s|].
  - rewrite has_attrs_b_iff. split; [intro H; exists s; auto | intros (s' & E & H); inversion E; subst; auto].
  - split; [discriminate | intros (s' & E & _); discriminate].
Qed.
Lemma realised_tags_empty_file : forall m o, m_type m = "empty-file" ->
  (realised_tags m o = [] <-> Realised m o).
Proof.
  intros m o Ht. unfold realised_tags, Realised. rewrite Ht. simpl.
  rewrite app_nil_iff, !tag_if_nil, negb_false_iff. destruct (so_stat o) as [s|].
  - pose proof (kind_eqb_iff' (si_kind s) KFile) as [HK1 HK2]. pose proof (has_attrs_b_iff m s) as [HA1 HA2].
    pose proof (N.eqb_eq (so_size o) 0) as [HS1 HS2].
    split.
    + intros [A B]. apply andb_true_iff in A. destruct A as [A1 A2]. rewrite A1, A2 in B. simpl in B.
      apply negb_false_iff in B. exists s. auto.
    + intros (s' & E & H1 & H2 & H3). inversion E; subst s'.
      rewrite (HK2 H1), (HA2 H2), (HS2 H3). split; reflexivity.
  - split; [intros [H _]; discriminate | intros (s' & E & _); discriminate].
Qed.
Lemma realised_tags_directory : forall m o, m_type m = "directory" ->
  (realised_tags m o = [] <-> Realised m o).
Proof.
  intros m o Ht. unfold realised_tags, Realised. rewrite Ht. simpl.
  rewrite app_nil_iff, !tag_if_nil, negb_false_iff.
  assert (H1 : match so_stat o with Some s => kind_eqb (si_kind s) KDir && has_attrs_b m s | None => false end = true
               <-> exists s, so_stat o = Some s /\ si_kind s = KDir /\ has_attrs m s).
  { destruct (so_stat o) as [s|].
    - rewrite andb_true_iff, kind_eqb_iff', has_attrs_b_iff. split.
      + intros [A B]. exists s; auto.
      + intros (s' & E & A & B). inversion E; subst; auto.
    - split; [discriminate | intros (s' & E & _); discriminate]. }
  rewrite H1. clear H1.
  assert (H2 : m_recursive m && negb (forallb (fun d => kind_eqb (d_kind d) KSym || d_has_attrs_b m d) (so_desc o)) = false
               <-> (m_recursive m = true -> forall d, In d (so_desc o) -> d_kind d <> KSym -> d_has_attrs m d)).
  { destruct (m_recursive m); simpl.
    - rewrite negb_false_iff, forallb_forall. split.
      + intros H _ d Hd Hk. specialize (H d Hd). apply orb_true_iff in H. destruct H as [H|H].
        * apply kind_eqb_iff' in H. contradiction.
        * apply d_has_attrs_b_iff, H.
      + intros H d Hd. apply orb_true_iff. destruct (kind_eqb (d_kind d) KSym) eqn:E; [left; reflexivity|right].
        apply d_has_attrs_b_iff, H; auto. intro K. apply kind_eqb_iff' in K. congruence.
    - split; [intros _ H; discriminate | reflexivity]. }
  rewrite H2. tauto.
Qed.

Lemma realised_tags_symlink : forall m o, m_type m = "symlink" ->
  (realised_tags m o = [] <-> Realised m o).
Proof.
  intros m o Ht. unfold realised_tags, Realised. rewrite Ht. simpl.
  destruct (so_direct o) as [d|].
  - rewrite app_nil_iff, !tag_if_nil, !negb_false_iff, !andb_true_iff, kind_eqb_iff', String.eqb_eq, !N.eqb_eq.
    split.
    + intros [[A B] [C D]]. exists d. auto.
    + intros (d' & E & A & B & C & D). inversion E; subst. auto.
  - split; [discriminate | intros (d' & E & _); discriminate].
Qed.
Lemma realised_tags_hardlink : forall m o, m_type m = "hardlink" ->
  (realised_tags m o = [] <-> Realised m o).
Proof.
  intros m o Ht. unfold realised_tags, Realised. rewrite Ht. simpl.
  destruct (so_direct o) as [d|].
  - rewrite app_nil_iff, !tag_if_nil, !negb_false_iff, !andb_true_iff, negb_true_iff, d_has_attrs_b_iff.
    assert (HK : kind_eqb (d_kind d) KSym = false <-> d_kind d <> KSym).
    { destruct (kind_eqb (d_kind d) KSym) eqn:E.
      - apply kind_eqb_iff' in E. split; [discriminate | congruence].
      - split; [intros _ K; apply kind_eqb_iff' in K; congruence | reflexivity]. }
    rewrite HK.
    assert (HS : option_eqb sinfo_eqb (so_src o) (Some (mkSinfo (d_kind d) (d_perm d) (d_uid d) (d_gid d))) = true
                 <-> so_src o = Some (mkSinfo (d_kind d) (d_perm d) (d_uid d) (d_gid d))).
    { destruct (so_src o) as [s|]; simpl.
      - rewrite sinfo_eqb_iff. split; [intros ->; reflexivity | intro E; inversion E; reflexivity].
      - split; discriminate. }
    rewrite HS. split.
    + intros [[A B] C]. exists d. auto.
    + intros (d' & E & A & B & C). inversion E; subst. auto.
  - split; [discriminate | intros (d' & E & _); discriminate].
Qed.

Lemma realised_tags_iff : forall m o,
  In (m_type m) ["directory"; "empty-file"; "hardlink"; "symlink"; "permissions"] ->
  (realised_tags m o = [] <-> Realised m o).
Proof.
  intros m o H. simpl in H.
  destruct H as [H|[H|[H|[H|[H|[]]]]]]; symmetry in H.
  - apply realised_tags_directory; auto.
  - apply realised_tags_empty_file; auto.
  - apply realised_tags_hardlink; auto.
  - apply realised_tags_symlink; auto.
  - apply realised_tags_permissions; auto.
Qed.
