(* C13 — path resolution in the heap model (Model/C13Fs.v): getNode as a
   top-level walk, resolution of [a ++ b], monotonicity under operations that
   only ADD nodes and directory entries, and what MkdirAll / Mkdir leave behind. *)
From Apko Require Import Base.Prelude Model.C13Fs.
Open Scope string_scope. Open Scope list_scope.

(* ---- getNode's inner loop as a function of its own ------------------------------ *)
Fixpoint walk_from (d : nat) (f : fs) (cur : nat) (trav ps : list string) : fres nat :=
  match ps with
  | [] => FOk cur
  | p :: ps' =>
      match get f cur with
      | None => FErr
      | Some n =>
          match lookup p (nchildren n) with
          | None => FNotExist
          | Some c =>
              match get f c with
              | None => FErr
              | Some cn =>
                  match nkind cn with
                  | KSym =>
                      match d with
                      | O => FErr
                      | S d' =>
                          match getnode d' f (link_comps trav (ntarget cn)) with
                          | FOk c' => walk_from d f c' (trav ++ [p]) ps'
                          | FNotExist => FNotExist
                          | FErr => FErr
                          | FFuel => FFuel
                          end
                      end
                  | _ => walk_from d f c (trav ++ [p]) ps'
                  end
              end
          end
      end
  end.

Lemma getnode_walk : forall d f cs, getnode d f cs = walk_from d f root_ino [] cs.
Proof.
  intros d f cs. destruct d as [|d]; simpl.
  - match goal with |- ?F root_ino [] cs = _ =>
      cut (forall ps cur trav, F cur trav ps = walk_from 0 f cur trav ps); [intro HH; apply HH|] end.
    induction ps as [|p ps IH]; intros cur trav; [reflexivity|]. simpl.
    destruct (get f cur) as [n|]; [|reflexivity].
    destruct (lookup p (nchildren n)) as [c|]; [|reflexivity].
    destruct (get f c) as [cn|]; [|reflexivity].
    destruct (nkind cn); auto.
  - match goal with |- ?F root_ino [] cs = _ =>
      cut (forall ps cur trav, F cur trav ps = walk_from (S d) f cur trav ps); [intro HH; apply HH|] end.
    induction ps as [|p ps IH]; intros cur trav; [reflexivity|]. simpl.
    destruct (get f cur) as [n|]; [|reflexivity].
    destruct (lookup p (nchildren n)) as [c|]; [|reflexivity].
    destruct (get f c) as [cn|]; [|reflexivity].
    destruct (nkind cn); auto.
    destruct (getnode d f (link_comps trav (ntarget cn))); auto.
Qed.

Lemma walk_from_app : forall d f a b cur trav,
  walk_from d f cur trav (a ++ b) =
  match walk_from d f cur trav a with
  | FOk c => walk_from d f c (trav ++ a) b
  | FNotExist => FNotExist | FErr => FErr | FFuel => FFuel
  end.
Proof.
  intros d f a. induction a as [|p a IH]; intros b cur trav; simpl.
  - rewrite app_nil_r. reflexivity.
  - destruct (get f cur) as [n|]; [|reflexivity].
    destruct (lookup p (nchildren n)) as [c|]; [|reflexivity].
    destruct (get f c) as [cn|]; [|reflexivity].
    assert (E : forall x, walk_from d f x (trav ++ [p]) (a ++ b) =
                match walk_from d f x (trav ++ [p]) a with
                | FOk c0 => walk_from d f c0 (trav ++ p :: a) b
                | FNotExist => FNotExist | FErr => FErr | FFuel => FFuel end).
    { intro x. rewrite IH. rewrite <- app_assoc. reflexivity. }
    destruct (nkind cn); auto.
    destruct d as [|d']; [reflexivity|].
    destruct (getnode d' f (link_comps trav (ntarget cn))); auto.
Qed.

(* the last step onto an entry that is not a symbolic link *)
Lemma walk_from_step : forall d f cur trav nm n c cn,
  get f cur = Some n -> lookup nm (nchildren n) = Some c -> get f c = Some cn -> nkind cn <> KSym ->
  walk_from d f cur trav [nm] = FOk c.
Proof.
  intros d f cur trav nm n c cn Hg Hl Hc Hk. simpl. rewrite Hg, Hl, Hc.
  destruct (nkind cn); try reflexivity. contradiction.
Qed.

Lemma getnode_snoc : forall d f ps nm cur n c cn,
  getnode d f ps = FOk cur -> get f cur = Some n -> lookup nm (nchildren n) = Some c ->
  get f c = Some cn -> nkind cn <> KSym ->
  getnode d f (ps ++ [nm]) = FOk c.
Proof.
  intros d f ps nm cur n c cn H Hg Hl Hc Hk. rewrite getnode_walk in *.
  rewrite walk_from_app, H. eapply walk_from_step; eauto.
Qed.

(* ---- growing a filesystem: nodes are only added, directories only gain entries ---- *)
Definition node_ext (a b : node) : Prop :=
  nkind b = nkind a /\ nperm b = nperm a /\ nuid b = nuid a /\ ngid b = ngid a /\
  ntarget b = ntarget a /\ ndata b = ndata a /\ nback b = nback a /\
  (forall nm c, lookup nm (nchildren a) = Some c -> lookup nm (nchildren b) = Some c).
Definition fs_ext (f g : fs) : Prop :=
  forall i n, get f i = Some n -> exists n', get g i = Some n' /\ node_ext n n'.

Lemma node_ext_refl : forall n, node_ext n n.
Proof. intro n. repeat split; auto. Qed.
Lemma fs_ext_refl : forall f, fs_ext f f.
Proof. intros f i n H. exists n. split; [exact H | apply node_ext_refl]. Qed.
Lemma node_ext_trans : forall a b c, node_ext a b -> node_ext b c -> node_ext a c.
Proof.
  intros a b c (K1 & P1 & U1 & G1 & T1 & D1 & B1 & C1) (K2 & P2 & U2 & G2 & T2 & D2 & B2 & C2).
  repeat split; try congruence. intros nm x H. apply C2, C1, H.
Qed.
Lemma fs_ext_trans : forall f g h, fs_ext f g -> fs_ext g h -> fs_ext f h.
Proof.
  intros f g h H1 H2 i n Hi. destruct (H1 i n Hi) as (n1 & G1 & E1). destruct (H2 i n1 G1) as (n2 & G2 & E2).
  exists n2. split; [exact G2 | eapply node_ext_trans; eauto].
Qed.

(* whatever resolved before still resolves, to the same node *)
Lemma walk_from_ext : forall d f g, fs_ext f g ->
  forall ps cur trav i, walk_from d f cur trav ps = FOk i -> walk_from d g cur trav ps = FOk i.
Proof.
  induction d as [|d IHd]; intros f g He.
  - induction ps as [|p ps IH]; intros cur trav i H; [exact H|]. simpl in *.
    destruct (get f cur) as [n|] eqn:Hc; [|discriminate].
    destruct (He cur n Hc) as (n' & Hc' & (_ & _ & _ & _ & _ & _ & _ & Hch)). rewrite Hc'.
    destruct (lookup p (nchildren n)) as [c|] eqn:Hl; [|discriminate]. rewrite (Hch p c Hl).
    destruct (get f c) as [cn|] eqn:Hcn; [|discriminate].
    destruct (He c cn Hcn) as (cn' & Hcn' & (Hk & _)). rewrite Hcn', Hk.
    destruct (nkind cn); try discriminate; eauto.
  - induction ps as [|p ps IH]; intros cur trav i H; [exact H|]. simpl in *.
    destruct (get f cur) as [n|] eqn:Hc; [|discriminate].
    destruct (He cur n Hc) as (n' & Hc' & (_ & _ & _ & _ & _ & _ & _ & Hch)). rewrite Hc'.
    destruct (lookup p (nchildren n)) as [c|] eqn:Hl; [|discriminate]. rewrite (Hch p c Hl).
    destruct (get f c) as [cn|] eqn:Hcn; [|discriminate].
    destruct (He c cn Hcn) as (cn' & Hcn' & (Hk & _ & _ & _ & Ht & _)). rewrite Hcn', Hk, Ht.
    destruct (nkind cn); eauto.
    destruct (getnode d f (link_comps trav (ntarget cn))) as [c'| | |] eqn:Hg; try discriminate.
    rewrite getnode_walk in Hg. rewrite getnode_walk, (IHd f g He _ _ _ _ Hg). eauto.
Qed.
Lemma getnode_ext : forall d f g cs i, fs_ext f g -> getnode d f cs = FOk i -> getnode d g cs = FOk i.
Proof. intros d f g cs i He H. rewrite getnode_walk in *. eapply walk_from_ext; eauto. Qed.

(* ---- heap bookkeeping --------------------------------------------------------------- *)
Lemma get_app_old : forall (f : fs) x i n, get f i = Some n -> get (f ++ x) i = Some n.
Proof. unfold get. intros f x i n H. rewrite nth_error_app1; [exact H|]. apply nth_error_Some. congruence. Qed.
Lemma get_app_new : forall (f : fs) n, get (f ++ [n]) (List.length f) = Some n.
Proof. unfold get. intros f n. rewrite nth_error_app2, Nat.sub_diag; auto. Qed.
Lemma get_lt : forall (f : fs) i n, get f i = Some n -> i < List.length f.
Proof. unfold get. intros f i n H. apply nth_error_Some. congruence. Qed.
Lemma get_ge : forall (f : fs) i, List.length f <= i -> get f i = None.
Proof. unfold get. intros f i H. apply nth_error_None. exact H. Qed.

Lemma get_set_eq : forall (f : fs) i n x, get f i = Some n -> get (set_nth f i x) i = Some x.
Proof.
  unfold get. induction f as [|h t IH]; intros [|i] n x H; simpl in *; try discriminate; auto.
  eapply IH; eauto.
Qed.
Lemma get_set_neq : forall (f : fs) i j x, i <> j -> get (set_nth f i x) j = get f j.
Proof. unfold get. induction f as [|h t IH]; intros [|i] [|j] x H; simpl; auto; congruence. Qed.
Lemma set_nth_length : forall {A} (l : list A) i x, List.length (set_nth l i x) = List.length l.
Proof. induction l as [|h t IH]; intros [|i] x; simpl; auto. Qed.

Lemma get_upd_eq : forall f i g n, get f i = Some n -> get (upd f i g) i = Some (g n).
Proof. intros f i g n H. unfold upd. rewrite H. eapply get_set_eq; eauto. Qed.
Lemma get_upd_neq : forall f i j g, i <> j -> get (upd f i g) j = get f j.
Proof. intros f i j g H. unfold upd. destruct (get f i); [apply get_set_neq; exact H | reflexivity]. Qed.
Lemma upd_length : forall f i g, List.length (upd f i g) = List.length f.
Proof. intros f i g. unfold upd. destruct (get f i); [apply set_nth_length | reflexivity]. Qed.

Lemma lookup_app : forall nm a b,
  lookup nm (a ++ b) = match lookup nm a with Some c => Some c | None => lookup nm b end.
Proof.
  induction a as [|[k v] t IH]; intro b; simpl; [reflexivity|].
  destruct (String.eqb k nm); auto.
Qed.
Lemma lookup_single : forall nm c, lookup nm [(nm, c)] = Some c.
Proof. intros. simpl. rewrite String.eqb_refl. reflexivity. Qed.

(* new_child: a fresh last node hung under directory [d] as [nm] *)
Lemma new_child_get_new : forall f d nm n dn,
  get f d = Some dn -> get (fst (new_child f d nm n)) (List.length f) = Some n.
Proof.
  intros f d nm n dn Hd. unfold new_child, add_child. cbn [fst].
  rewrite get_upd_neq; [apply get_app_new|]. apply get_lt in Hd. lia.
Qed.
Lemma new_child_get_parent : forall f d nm n dn,
  get f d = Some dn ->
  get (fst (new_child f d nm n)) d = Some (with_children dn (nchildren dn ++ [(nm, List.length f)])).
Proof.
  intros f d nm n dn Hd. unfold new_child, add_child. cbn [fst].
  erewrite get_upd_eq; [reflexivity|]. apply get_app_old. exact Hd.
Qed.
Lemma new_child_get_other : forall f d nm n i,
  i <> d -> i <> List.length f -> get (fst (new_child f d nm n)) i = get f i.
Proof.
  intros f d nm n i H1 H2. unfold new_child, add_child. cbn [fst].
  rewrite get_upd_neq by auto. unfold get.
  destruct (Nat.lt_ge_cases i (List.length f)) as [L|L].
  - apply nth_error_app1. exact L.
  - rewrite (proj2 (nth_error_None f i) L). apply nth_error_None. rewrite app_length. simpl. lia.
Qed.
Lemma new_child_length : forall f d nm n, List.length (fst (new_child f d nm n)) = S (List.length f).
Proof. intros. unfold new_child, add_child. cbn [fst]. rewrite upd_length, app_length. simpl. lia. Qed.

Lemma new_child_ext : forall f d nm n dn,
  get f d = Some dn -> lookup nm (nchildren dn) = None -> fs_ext f (fst (new_child f d nm n)).
Proof.
  intros f d nm n dn Hd Hl i x Hi. destruct (Nat.eq_dec i d) as [->|Hne].
  - rewrite Hd in Hi. inversion Hi; subst x. eexists. split; [eapply new_child_get_parent; eauto|].
    repeat split; auto. cbn [with_children nchildren]. intros k c H. rewrite lookup_app, H. reflexivity.
  - exists x. split; [|apply node_ext_refl]. rewrite new_child_get_other; auto. apply get_lt in Hi. lia.
Qed.

(* resolving [ps ++ [nm]] after hanging a fresh non-link node under what [ps] resolves to *)
Lemma getnode_new_child : forall maxl f ps d dn nm n,
  getnode maxl f ps = FOk d -> get f d = Some dn -> lookup nm (nchildren dn) = None -> nkind n <> KSym ->
  getnode maxl (fst (new_child f d nm n)) (ps ++ [nm]) = FOk (List.length f).
Proof.
  intros maxl f ps d dn nm n Hg Hd Hl Hk.
  eapply getnode_snoc.
  - eapply getnode_ext; [eapply new_child_ext; eauto | exact Hg].
  - eapply new_child_get_parent; eauto.
  - cbn [with_children nchildren]. rewrite lookup_app, Hl. apply lookup_single.
  - eapply new_child_get_new; eauto.
  - exact Hk.
Qed.

(* ---- tidy component lists: filepath.Clean / Dir / Base are what one expects ---------- *)
Definition tidy (s : string) : bool := negb (String.eqb s ".") && negb (String.eqb s "..").

Lemma clean_stack_tidy : forall rooted ps stack,
  forallb tidy ps = true -> clean_stack rooted stack ps = rev stack ++ ps.
Proof.
  intros rooted. induction ps as [|p ps IH]; intros stack H; simpl.
  - rewrite app_nil_r. reflexivity.
  - cbn [forallb] in H. apply andb_true_iff in H. destruct H as [Hp Hps].
    unfold tidy in Hp. apply andb_true_iff in Hp. destruct Hp as [H1 H2].
    apply negb_true_iff in H1, H2. rewrite H1, H2, (IH _ Hps). simpl. rewrite <- app_assoc. reflexivity.
Qed.
Lemma clean_tidy : forall rooted ps, forallb tidy ps = true -> clean rooted ps = ps.
Proof. intros. unfold clean. rewrite clean_stack_tidy; auto. Qed.

Lemma forallb_removelast : forall {A} (p : A -> bool) l, forallb p l = true -> forallb p (removelast l) = true.
Proof.
  induction l as [|a [|b t] IH]; intro H; auto. cbn [forallb] in H. apply andb_true_iff in H. destruct H as [Ha Ht].
  change (removelast (a :: b :: t)) with (a :: removelast (b :: t)). cbn [forallb]. rewrite Ha. simpl. apply IH. exact Ht.
Qed.

(* a tidy path without trailing slash: Dir is everything but the last
   component, Base is the last component *)
Lemma tidy_split : forall p, forallb tidy (p_comps p) = true -> p_trail p = false -> p_comps p <> [] ->
  exists ps b, p_comps p = ps ++ [b] /\ p_comps (pdir p) = ps /\ pbase p = Some b.
Proof.
  intros p Ht Htr Hne. destruct (exists_last Hne) as (ps & b & E).
  exists ps, b. split; [exact E|]. split.
  - unfold pdir. cbn [p_comps]. rewrite Htr, E, removelast_last. apply clean_tidy.
    rewrite E, forallb_app in Ht. apply andb_true_iff in Ht. apply Ht.
  - unfold pbase. rewrite E, rev_unit.
    rewrite E, forallb_app in Ht. apply andb_true_iff in Ht. destruct Ht as [_ Hb]. cbn [forallb] in Hb.
    rewrite andb_true_r in Hb. unfold tidy in Hb. apply andb_true_iff in Hb. destruct Hb as [H1 H2].
    apply negb_true_iff in H1, H2. rewrite H1, H2. reflexivity.
Qed.

(* filepath.Clean of an absolute path has no "." or ".." left *)
Lemma clean_stack_rooted_tidy : forall ps stack,
  forallb tidy stack = true -> forallb tidy (clean_stack true stack ps) = true.
Proof.
  induction ps as [|p ps IH]; intros stack H; simpl.
  - rewrite forallb_forall in *. intros x Hx. apply H. apply in_rev. exact Hx.
  - destruct (String.eqb p ".") eqn:E1; [apply IH; exact H|].
    destruct (String.eqb p "..") eqn:E2.
    + destruct stack as [|t st]; [apply IH; reflexivity|].
      cbn [forallb] in H. apply andb_true_iff in H. destruct H as [Ht Hst].
      destruct (String.eqb t "..") eqn:E3.
      * unfold tidy in Ht. rewrite E3 in Ht. rewrite andb_false_r in Ht. discriminate.
      * apply IH. exact Hst.
    + apply IH. cbn [forallb]. rewrite H. unfold tidy. rewrite E1, E2. reflexivity.
Qed.
Lemma pclean_abs_tidy : forall p, p_abs p = true -> forallb tidy (p_comps (pclean p)) = true.
Proof. intros p H. unfold pclean, clean. cbn [p_comps]. rewrite H. apply clean_stack_rooted_tidy. reflexivity. Qed.

(* ---- MkdirAll: only adds; what it adds are directories with the given mode, owned by root ---- *)
Definition fresh_dir (perm : N) (n : node) : Prop :=
  nkind n = KDir /\ nperm n = perm /\ nuid n = 0%N /\ ngid n = 0%N /\ ntarget n = "" /\ ndata n = "" /\ nback n = "".

Lemma fbind_ok_r : forall {A B} (r : fres A) (k : A -> fres B) b,
  fbind r k = FOk b -> exists a, r = FOk a /\ k a = FOk b.
Proof. intros A B r k b H. destruct r; simpl in H; try discriminate. eauto. Qed.

Lemma mkdirall_from_spec : forall maxl perm ps f cur trav f',
  mkdirall_from maxl f cur trav ps perm = FOk f' ->
  fs_ext f f' /\ List.length f <= List.length f' /\
  (forall i n, List.length f <= i -> get f' i = Some n -> fresh_dir perm n).
Proof.
  intros maxl perm. induction ps as [|p ps IH]; intros f cur trav f' H; simpl in H.
  - inversion H; subst f'. split; [apply fs_ext_refl|]. split; [lia|].
    intros i n Hi Hg. rewrite (get_ge f i Hi) in Hg. discriminate.
  - destruct (get f cur) as [n|] eqn:Hc; [|discriminate].
    destruct (lookup p (nchildren n)) as [c|] eqn:Hl.
    + destruct (get f c) as [cn|] eqn:Hcn; [|discriminate].
      destruct (nkind cn); try discriminate.
      * eapply IH; eauto.
      * apply fbind_ok_r in H. destruct H as (c' & _ & H).
        destruct (get f c') as [tn|]; [|discriminate]. destruct (is_dir tn); [|discriminate]. eapply IH; eauto.
    + destruct (String.eqb p "." || String.eqb p ".."); [discriminate|].
      set (f1 := fst (new_child f cur p (new_dir perm))) in *.
      change (add_child (f ++ [new_dir perm]) cur p (List.length f)) with f1 in H.
      assert (Ef1 : f1 = fst (new_child f cur p (new_dir perm))) by reflexivity.
      destruct (IH _ _ _ _ H) as (He & Hlen & Hnew).
      assert (He1 : fs_ext f f1) by (rewrite Ef1; eapply new_child_ext; eauto).
      assert (Hl1 : List.length f1 = S (List.length f)) by (rewrite Ef1; apply new_child_length).
      split; [eapply (fs_ext_trans f f1 f'); eauto|]. split; [lia|].
      intros i x Hi Hg. destruct (Nat.eq_dec i (List.length f)) as [->|Hne].
      * assert (G1 : get f1 (List.length f) = Some (new_dir perm)) by (rewrite Ef1; eapply new_child_get_new; eauto).
        destruct (He _ _ G1) as (x' & G' & (K & P & U & G & T & D & B & _)). rewrite Hg in G'. inversion G'; subst x'.
        unfold fresh_dir. cbn in *. repeat split; assumption.
      * apply (Hnew i x); [lia | exact Hg].
Qed.

Lemma mkdirall_spec : forall maxl f p perm f',
  mkdirall maxl f p perm = FOk f' ->
  fs_ext f f' /\ List.length f <= List.length f' /\
  (forall i n, List.length f <= i -> get f' i = Some n -> fresh_dir perm n).
Proof. intros maxl f p perm f' H. unfold mkdirall in H. eapply mkdirall_from_spec; eauto. Qed.

(* ---- Mkdir: the new directory is what its path resolves to afterwards ---------------- *)
Lemma mkdir_spec : forall maxl f p perm f',
  forallb tidy (p_comps p) = true -> p_trail p = false -> p_comps p <> [] ->
  mkdir maxl f p perm = FOk f' ->
  fs_ext f f' /\ List.length f' = S (List.length f) /\
  gn maxl f' p = FOk (List.length f) /\ get f' (List.length f) = Some (new_dir perm).
Proof.
  intros maxl f p perm f' Ht Htr Hne H.
  destruct (tidy_split p Ht Htr Hne) as (ps & b & Ecs & Edir & Eb).
  unfold mkdir in H. apply fbind_ok_r in H. destruct H as (d & Hd & H).
  destruct (get f d) as [dn|] eqn:Hgd; [|discriminate]. rewrite Eb in H.
  destruct (negb (is_dir dn)); [discriminate|].
  destruct (lookup b (nchildren dn)) eqn:Hl; [discriminate|]. inversion H; subst f'. clear H.
  split; [eapply new_child_ext; eauto|]. split; [apply new_child_length|]. split.
  - unfold gn in *. rewrite Ecs. rewrite Edir in Hd. eapply getnode_new_child; eauto. discriminate.
  - eapply new_child_get_new; eauto.
Qed.
