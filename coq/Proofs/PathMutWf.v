(* C13 — well-formedness of the heap is kept by EVERY operation of the model,
   hence by every mutation, by mutatePaths over any list, by mutateAccounts and
   by the whole pipeline; theorems about sequences therefore need a hypothesis
   on the initial tree only.

   [wf f] = [dir_edges_up f] /\ [no_shadow f] (Proofs/PathMutFuel.v).
   - [no_shadow] (no name twice in a listing) is kept by every operation without
     any condition;
   - [dir_edges_up] (an entry leading to a directory leads to a later-allocated
     node: the directory structure is a tree) is kept by every operation except
     Link of a DIRECTORY — memfs/tarfs accept that, and the heap then holds a
     hard-linked directory (fs.WalkDir may never end on it). *)
From Apko Require Import Base.Prelude Model.C13Fs Model.Accounts Model.PathMut Model.C13Build Generated.C13Consts
  Proofs.PathMutResolve Proofs.PathMutFrame Proofs.PathMutFuel.
Open Scope nat_scope. Open Scope string_scope. Open Scope list_scope.

(* ---- the two halves, separately ------------------------------------------------------------ *)
Lemma no_shadow_same_listing : forall f g, same_listing f g -> no_shadow f -> no_shadow g.
Proof.
  intros f g (L & H) N i n nm c Hi Hin. pose proof (H i) as Hi'. rewrite Hi in Hi'.
  destruct (get f i) as [a|] eqn:Ha; [|contradiction]. destruct Hi' as (_ & E). rewrite <- E in *. eapply N; eauto.
Qed.
Lemma dir_edges_same_listing : forall f g, same_listing f g -> dir_edges_up f -> dir_edges_up g.
Proof.
  intros f g (L & H) U i n nm c cn Hi Hin Hc Hk. pose proof (H i) as Hi'. pose proof (H c) as Hc'. rewrite Hi in Hi'. rewrite Hc in Hc'.
  destruct (get f i) as [a|] eqn:Ha; [|contradiction]. destruct (get f c) as [ca|] eqn:Hca; [|contradiction].
  destruct Hi' as (_ & E). destruct Hc' as (K & _). eapply (U i a nm c ca); eauto; congruence.
Qed.

(* an update that keeps kind and listing of the one node it touches *)
Lemma upd_same_listing : forall f i (h : node -> node),
  (forall n, nkind (h n) = nkind n /\ nchildren (h n) = nchildren n) -> same_listing f (upd f i h).
Proof.
  intros f i h Hh. split; [symmetry; apply upd_length|]. intro j. destruct (Nat.eq_dec i j) as [<-|Hne].
  - destruct (get f i) as [n|] eqn:Hn.
    + rewrite (get_upd_eq f i h n Hn). destruct (Hh n). auto.
    + unfold upd. rewrite Hn, Hn. exact I.
  - rewrite (get_upd_neq f i j h Hne). destruct (get f j); auto.
Qed.
Lemma upd_res_same_listing : forall f i (h : node -> node) f',
  (forall n, nkind (h n) = nkind n /\ nchildren (h n) = nchildren n) -> upd_res f i h = FOk f' -> same_listing f f'.
Proof.
  intros f i h f' Hh H. unfold upd_res in H. destruct (get f i) as [n|] eqn:Hn; [|discriminate]. inversion H; subst f'.
  pose proof (upd_same_listing f i h Hh) as S. unfold upd in S. rewrite Hn in S. exact S.
Qed.

(* a fresh last node (without entries of its own) under directory [d], name not yet used *)
Lemma no_shadow_new_child : forall f d nm n dn,
  no_shadow f -> get f d = Some dn -> lookup nm (nchildren dn) = None -> nchildren n = [] ->
  no_shadow (fst (new_child f d nm n)).
Proof.
  intros f d nm n dn N Hd Hl Hn. set (g := fst (new_child f d nm n)).
  assert (Gd : get g d = Some (with_children dn (nchildren dn ++ [(nm, List.length f)]))) by (eapply new_child_get_parent; eauto).
  assert (Gn : get g (List.length f) = Some n) by (eapply new_child_get_new; eauto).
  assert (Go : forall i, i <> d -> i <> List.length f -> get g i = get f i) by (intros; apply new_child_get_other; auto).
  intros i x k c Hi Hin.
  destruct (Nat.eq_dec i (List.length f)) as [->|Hne1].
  - rewrite Gn in Hi. inversion Hi; subst x. rewrite Hn in Hin. contradiction.
  - destruct (Nat.eq_dec i d) as [->|Hne2].
    + rewrite Gd in Hi. inversion Hi; subst x. cbn [with_children nchildren] in *. rewrite lookup_app.
      apply in_app_or in Hin. destruct Hin as [Hin|[E|[]]].
      * rewrite (N d dn k c Hd Hin). reflexivity.
      * inversion E; subst. rewrite Hl. apply lookup_single.
    + rewrite Go in Hi by auto. eapply N; eauto.
Qed.
Lemma dir_edges_new_child : forall f d nm n dn,
  dir_edges_up f -> get f d = Some dn -> nchildren n = [] -> dir_edges_up (fst (new_child f d nm n)).
Proof.
  intros f d nm n dn U Hd Hn. set (g := fst (new_child f d nm n)).
  assert (Gd : get g d = Some (with_children dn (nchildren dn ++ [(nm, List.length f)]))) by (eapply new_child_get_parent; eauto).
  assert (Gn : get g (List.length f) = Some n) by (eapply new_child_get_new; eauto).
  assert (Go : forall i, i <> d -> i <> List.length f -> get g i = get f i) by (intros; apply new_child_get_other; auto).
  assert (Ld : d < List.length f) by (eapply get_lt; eauto).
  intros i x k c cx Hi Hin Hc Hk.
  destruct (Nat.eq_dec i (List.length f)) as [->|Hne1].
  - rewrite Gn in Hi. inversion Hi; subst x. rewrite Hn in Hin. contradiction.
  - destruct (Nat.eq_dec i d) as [->|Hne2].
    + rewrite Gd in Hi. inversion Hi; subst x. cbn [with_children nchildren] in Hin. apply in_app_or in Hin.
      destruct Hin as [Hin|[E|[]]]; [|inversion E; subst; exact Ld].
      destruct (Nat.eq_dec c (List.length f)) as [->|Hc1]; [exact Ld|].
      destruct (Nat.eq_dec c d) as [->|Hc2].
      * rewrite Gd in Hc. inversion Hc; subst cx. eapply (U d dn k d dn); eauto.
      * rewrite Go in Hc by auto. eapply (U d dn k c cx); eauto.
    + rewrite Go in Hi by auto.
      destruct (Nat.eq_dec c (List.length f)) as [->|Hc1]; [eapply get_lt; eauto|].
      destruct (Nat.eq_dec c d) as [->|Hc2].
      * rewrite Gd in Hc. inversion Hc; subst cx. eapply (U i x k d dn); eauto.
      * rewrite Go in Hc by auto. eapply (U i x k c cx); eauto.
Qed.

(* an entry added to a listing that does not have the name: the linked node may be any *)
Lemma no_shadow_add_child : forall f d nm c dn,
  no_shadow f -> get f d = Some dn -> lookup nm (nchildren dn) = None -> no_shadow (add_child f d nm c).
Proof.
  intros f d nm c dn N Hd Hl i x k v Hi Hin. unfold add_child in Hi. destruct (Nat.eq_dec d i) as [<-|Hne].
  - rewrite (get_upd_eq f d _ dn Hd) in Hi. inversion Hi; subst x. cbn [with_children nchildren] in *.
    rewrite lookup_app. apply in_app_or in Hin. destruct Hin as [Hin|[E|[]]].
    + rewrite (N d dn k v Hd Hin). reflexivity.
    + inversion E; subst. rewrite Hl. apply lookup_single.
  - rewrite get_upd_neq in Hi by exact Hne. eapply N; eauto.
Qed.
(* ... and the tree shape is kept when the linked node is not a directory *)
Lemma dir_edges_add_child : forall f d nm c dn,
  dir_edges_up f -> get f d = Some dn -> (forall cn, get f c = Some cn -> nkind cn <> KDir) ->
  dir_edges_up (add_child f d nm c).
Proof.
  intros f d nm c dn U Hd Hk i x k v vx Hi Hin Hv Hvk. unfold add_child in *.
  assert (Kv : exists vx0, get f v = Some vx0 /\ nkind vx0 = nkind vx).
  { destruct (Nat.eq_dec d v) as [<-|Hne].
    - rewrite (get_upd_eq f d _ dn Hd) in Hv. inversion Hv; subst vx. exists dn. split; [exact Hd | reflexivity].
    - rewrite get_upd_neq in Hv by exact Hne. eauto. }
  destruct Kv as (vx0 & Gv0 & Kv0).
  destruct (Nat.eq_dec d i) as [<-|Hne].
  - rewrite (get_upd_eq f d _ dn Hd) in Hi. inversion Hi; subst x. cbn [with_children nchildren] in Hin.
    apply in_app_or in Hin. destruct Hin as [Hin|[E|[]]].
    + eapply (U d dn k v vx0); eauto. congruence.
    + inversion E; subst. exfalso. eapply Hk; eauto. congruence.
  - rewrite get_upd_neq in Hi by exact Hne. eapply (U i x k v vx0); eauto. congruence.
Qed.

(* entries taken out of a listing *)
Lemma lookup_remove_other : forall b nm cs, nm <> b -> lookup nm (remove_child b cs) = lookup nm cs.
Proof.
  intros b nm. induction cs as [|[k v] t IH]; intro Hne; [reflexivity|]. simpl.
  destruct (String.eqb_spec k b) as [->|Hkb].
  - destruct (String.eqb_spec b nm) as [E|_]; [congruence | apply IH; exact Hne].
  - simpl. destruct (String.eqb k nm); [reflexivity | apply IH; exact Hne].
Qed.
Lemma in_remove_child : forall b nm c cs, In (nm, c) (remove_child b cs) -> In (nm, c) cs /\ nm <> b.
Proof.
  intros b nm c. induction cs as [|[k v] t IH]; intro H; [contradiction|]. simpl in H.
  destruct (String.eqb_spec k b) as [->|Hkb].
  - destruct (IH H). split; [right; assumption | assumption].
  - destruct H as [E|H]; [inversion E; subst; split; [left; reflexivity | exact Hkb]|].
    destruct (IH H). split; [right; assumption | assumption].
Qed.
Lemma no_shadow_remove_child : forall f d b, no_shadow f ->
  no_shadow (upd f d (fun n => with_children n (remove_child b (nchildren n)))).
Proof.
  intros f d b N i x k v Hi Hin. destruct (Nat.eq_dec d i) as [<-|Hne].
  - destruct (get f d) as [dn|] eqn:Hd; [|unfold upd in Hi; rewrite Hd in Hi; congruence].
    rewrite (get_upd_eq f d _ dn Hd) in Hi. inversion Hi; subst x. cbn [with_children nchildren] in *.
    destruct (in_remove_child _ _ _ _ Hin) as (Hin' & Hkb). rewrite lookup_remove_other by exact Hkb. eapply N; eauto.
  - rewrite get_upd_neq in Hi by exact Hne. eapply N; eauto.
Qed.
Lemma dir_edges_remove_child : forall f d b, dir_edges_up f ->
  dir_edges_up (upd f d (fun n => with_children n (remove_child b (nchildren n)))).
Proof.
  intros f d b U i x k v vx Hi Hin Hv Hvk.
  assert (Kv : exists vx0, get f v = Some vx0 /\ nkind vx0 = nkind vx).
  { destruct (Nat.eq_dec d v) as [<-|Hne].
    - destruct (get f d) as [dn|] eqn:Hd; [|unfold upd in Hv; rewrite Hd in Hv; congruence].
      rewrite (get_upd_eq f d _ dn Hd) in Hv. inversion Hv; subst vx. exists dn. split; reflexivity.
    - rewrite get_upd_neq in Hv by exact Hne. eauto. }
  destruct Kv as (vx0 & Gv0 & Kv0).
  destruct (Nat.eq_dec d i) as [<-|Hne].
  - destruct (get f d) as [dn|] eqn:Hd; [|unfold upd in Hi; rewrite Hd in Hi; congruence].
    rewrite (get_upd_eq f d _ dn Hd) in Hi. inversion Hi; subst x. cbn [with_children nchildren] in Hin.
    destruct (in_remove_child _ _ _ _ Hin) as (Hin' & _). eapply (U d dn k v vx0); eauto. congruence.
  - rewrite get_upd_neq in Hi by exact Hne. eapply (U i x k v vx0); eauto. congruence.
Qed.

Section Ops.
Variable maxl : nat.

(* ---- the operations of the filesystem model --------------------------------------------------- *)
Lemma mkdirall_from_no_shadow : forall perm ps f cur trav f',
  no_shadow f -> mkdirall_from maxl f cur trav ps perm = FOk f' -> no_shadow f'.
Proof.
  intros perm. induction ps as [|q ps IH]; intros f cur trav f' W H; simpl in H.
  - inversion H; subst; exact W.
  - destruct (get f cur) as [n|] eqn:Hc; [|discriminate].
    destruct (lookup q (nchildren n)) as [c|] eqn:Hl.
    + destruct (get f c) as [cn|]; [|discriminate]. destruct (nkind cn); try discriminate.
      * eapply IH; eauto.
      * apply fbind_ok_r in H. destruct H as (c' & _ & H). destruct (get f c'); [|discriminate].
        destruct (is_dir n0); [|discriminate]. eapply IH; eauto.
    + destruct (String.eqb q "." || String.eqb q ".."); [discriminate|].
      eapply IH; [|exact H]. apply (no_shadow_new_child f cur q (new_dir perm) n W Hc Hl). reflexivity.
Qed.
Lemma mkdirall_from_dir_edges : forall perm ps f cur trav f',
  dir_edges_up f -> mkdirall_from maxl f cur trav ps perm = FOk f' -> dir_edges_up f'.
Proof.
  intros perm. induction ps as [|q ps IH]; intros f cur trav f' W H; simpl in H.
  - inversion H; subst; exact W.
  - destruct (get f cur) as [n|] eqn:Hc; [|discriminate].
    destruct (lookup q (nchildren n)) as [c|] eqn:Hl.
    + destruct (get f c) as [cn|]; [|discriminate]. destruct (nkind cn); try discriminate.
      * eapply IH; eauto.
      * apply fbind_ok_r in H. destruct H as (c' & _ & H). destruct (get f c'); [|discriminate].
        destruct (is_dir n0); [|discriminate]. eapply IH; eauto.
    + destruct (String.eqb q "." || String.eqb q ".."); [discriminate|].
      eapply IH; [|exact H]. apply (dir_edges_new_child f cur q (new_dir perm) n W Hc). reflexivity.
Qed.

(* [P] stands for either half *)
Definition kept_by_growth (P : fs -> Prop) : Prop :=
  (forall f g, same_listing f g -> P f -> P g) /\
  (forall f d nm n dn, P f -> get f d = Some dn -> lookup nm (nchildren dn) = None -> nchildren n = [] ->
                       P (fst (new_child f d nm n))) /\
  (forall perm ps f cur trav f', P f -> mkdirall_from maxl f cur trav ps perm = FOk f' -> P f').
Lemma no_shadow_growth : kept_by_growth no_shadow.
Proof.
  split; [exact no_shadow_same_listing|]. split; [exact no_shadow_new_child | exact mkdirall_from_no_shadow].
Qed.
Lemma dir_edges_growth : kept_by_growth dir_edges_up.
Proof.
  split; [exact dir_edges_same_listing|]. split; [|exact mkdirall_from_dir_edges].
  intros f d nm n dn U Hd _ Hn. eapply dir_edges_new_child; eauto.
Qed.

Section Growth.
Variable P : fs -> Prop.
Hypothesis HP : kept_by_growth P.

Lemma g_mkdirall : forall f p perm f', P f -> mkdirall maxl f p perm = FOk f' -> P f'.
Proof. intros f p perm f' W H. destruct HP as (_ & _ & M). eapply M; eauto. Qed.

Lemma g_mkdir : forall f p perm f', P f -> mkdir maxl f p perm = FOk f' -> P f'.
Proof.
  intros f p perm f' W H. unfold mkdir in H. apply fbind_ok_r in H. destruct H as (d & _ & H).
  destruct (get f d) as [dn|] eqn:Hd; [|discriminate]. destruct (pbase p) as [b|]; [|discriminate].
  destruct (negb (is_dir dn)); [discriminate|]. destruct (lookup b (nchildren dn)) eqn:Hl; [discriminate|].
  inversion H; subst f'. destruct HP as (_ & N & _). eapply N; eauto.
Qed.

Lemma g_chmod : forall f p perm f', P f -> chmod maxl f p perm = FOk f' -> P f'.
Proof.
  intros f p perm f' W H. unfold chmod in H. apply fbind_ok_r in H. destruct H as (i & _ & H).
  destruct HP as (S & _). eapply S; [|exact W]. eapply upd_res_same_listing; [|exact H]. intro n. split; reflexivity.
Qed.
Lemma g_chown : forall f p u g f', P f -> chown maxl f p u g = FOk f' -> P f'.
Proof.
  intros f p u g f' W H. unfold chown in H. apply fbind_ok_r in H. destruct H as (i & _ & H).
  destruct HP as (S & _). eapply S; [|exact W]. eapply upd_res_same_listing; [|exact H]. intro n. split; reflexivity.
Qed.
Lemma g_perms_direct : forall f p perm u g f', P f -> perms_direct maxl f p perm u g = FOk f' -> P f'.
Proof.
  intros f p perm u g f' W H. unfold perms_direct in H. apply fbind_ok_r in H. destruct H as (f1 & H1 & H2).
  eapply g_chown; [|exact H2]. eapply g_chmod; eauto.
Qed.
Lemma g_walk : forall perm u g fuel f p isdir f', P f -> walk maxl fuel f p isdir perm u g = FOk f' -> P f'.
Proof. intros perm u g fuel f p isdir f' W H. destruct HP as (S & _). eapply S; [eapply walk_listing; eauto | exact W]. Qed.

Lemma g_openfile : forall k f p perm f' i, P f -> openfile maxl k f p perm = FOk (f', i) -> P f'.
Proof.
  induction k as [|k IH]; intros f p perm f' i W H; simpl in H;
    apply fbind_ok_r in H; destruct H as (d & Hd & H);
    (destruct (get f d) as [dn|] eqn:Hgd; [|discriminate]);
    (destruct (pbase p) as [b|]; [|discriminate]);
    (destruct (negb (is_dir dn)); [discriminate|]);
    destruct (lookup b (nchildren dn)) as [c|] eqn:Hl.
  - destruct (get f c) as [cn|]; [|discriminate]. destruct (nkind cn); try discriminate; inversion H; subst; exact W.
  - inversion H; subst. destruct HP as (_ & N & _). apply (N f d b _ dn W Hgd Hl). reflexivity.
  - destruct (get f c) as [cn|]; [|discriminate]. destruct (nkind cn); try discriminate.
    + inversion H; subst; exact W.
    + eapply IH; eauto.
    + inversion H; subst; exact W.
  - inversion H; subst. destruct HP as (_ & N & _). apply (N f d b _ dn W Hgd Hl). reflexivity.
Qed.
Lemma g_read_or_create : forall f p perm f' txt, P f -> read_or_create maxl f p perm = FOk (f', txt) -> P f'.
Proof.
  intros f p perm f' txt W H. unfold read_or_create in H. apply fbind_ok_r in H. destruct H as ([f1 i] & Ho & H).
  destruct (get f1 i); [|discriminate]. inversion H; subst. eapply g_openfile; eauto.
Qed.
Lemma g_create_write : forall f p content f', P f -> create_write maxl f p content = FOk f' -> P f'.
Proof.
  intros f p content f' W H. unfold create_write in H. apply fbind_ok_r in H. destruct H as ([f1 i] & Ho & H).
  inversion H; subst f'. destruct HP as (S & _). eapply S; [|eapply g_openfile; eauto].
  apply upd_same_listing. intro n. split; reflexivity.
Qed.
Lemma g_symlink : forall f tgt p f', P f -> symlink maxl f tgt p = FOk f' -> P f'.
Proof.
  intros f tgt p f' W H. unfold symlink in H. apply fbind_ok_r in H. destruct H as (d & _ & H).
  destruct (get f d) as [dn|] eqn:Hd; [|discriminate]. destruct (pbase p) as [b|]; [|discriminate].
  destruct (negb (is_dir dn)); [discriminate|]. destruct (lookup b (nchildren dn)) eqn:Hl; [discriminate|].
  inversion H; subst f'. destruct HP as (_ & N & _). eapply N; eauto.
Qed.

(* the mutators that only create / chmod *)
Lemma g_ensure_parent : forall f p f', P f -> ensure_parent maxl f p = FOk f' -> P f'.
Proof. intros f p f' W H. unfold ensure_parent in H. eapply g_mkdirall; eauto. Qed.
Lemma g_mutate_permissions : forall f m f', P f -> mutate_permissions maxl f m = FOk f' -> P f'.
Proof. intros f m f' W H. unfold mutate_permissions in H. eapply g_perms_direct; eauto. Qed.
Lemma g_mutate_directory : forall f m f', P f -> mutate_directory maxl f m = FOk f' -> P f'.
Proof.
  intros f m f' W H. unfold mutate_directory in H. apply fbind_ok_r in H. destruct H as (f1 & H1 & H).
  pose proof (g_mkdirall _ _ _ _ W H1) as W1. destruct (m_recursive m); [|inversion H; subst; exact W1].
  apply fbind_ok_r in H. destruct H as (n & _ & H). eapply g_walk; eauto.
Qed.
Lemma g_mutate_empty_file : forall f m f', P f -> mutate_empty_file maxl f m = FOk f' -> P f'.
Proof.
  intros f m f' W H. unfold mutate_empty_file in H. apply fbind_ok_r in H. destruct H as (f1 & H1 & H).
  eapply g_create_write; [|exact H]. eapply g_ensure_parent; eauto.
Qed.
Lemma g_mutate_sym_link : forall f m f', P f -> mutate_sym_link maxl f m = FOk f' -> P f'.
Proof.
  intros f m f' W H. unfold mutate_sym_link in H. apply fbind_ok_r in H. destruct H as (f1 & H1 & H).
  eapply g_symlink; [|exact H]. eapply g_ensure_parent; eauto.
Qed.

(* the accounts step and etc/apko.json *)
Lemma g_ensure_home : forall f e f', P f -> ensure_home maxl f e = FOk f' -> P f'.
Proof.
  intros f e f' W H. unfold ensure_home in H. destruct (String.eqb (ue_home e) no_home); [inversion H; subst; exact W|].
  destruct (stat maxl f (home_path (ue_home e))) as [n| | |]; try discriminate.
  - destruct (is_dir n); [inversion H; subst; exact W | discriminate].
  - apply fbind_ok_r in H. destruct H as (f1 & H1 & H). apply fbind_ok_r in H. destruct H as (f2 & H2 & H).
    eapply g_chown; [|exact H]. eapply g_mkdir; [|exact H2]. eapply g_mkdirall; eauto.
Qed.
Lemma g_ensure_homes : forall es f f', P f -> ensure_homes maxl f es = FOk f' -> P f'.
Proof.
  induction es as [|e t IH]; intros f f' W H; simpl in H; [inversion H; subst; exact W|].
  apply fbind_ok_r in H. destruct H as (f1 & H1 & H). eapply IH; [|exact H]. eapply g_ensure_home; eauto.
Qed.
Lemma g_mutate_groups : forall f groups f', P f -> mutate_groups maxl f groups = FOk f' -> P f'.
Proof.
  intros f groups f' W H. unfold mutate_groups in H. destruct groups as [|g0 gs]; [inversion H; subst; exact W|].
  apply fbind_ok_r in H. destruct H as ([f1 txt] & H1 & H). destruct (parse_groups txt); [|discriminate].
  eapply g_create_write; [|exact H]. eapply g_read_or_create; eauto.
Qed.
Lemma g_mutate_users : forall f users ra f' ra', P f -> mutate_users maxl f users ra = FOk (f', ra') -> P f'.
Proof.
  intros f users ra f' ra' W H. unfold mutate_users in H. apply fbind_ok_r in H. destruct H as ([f1 txt] & H1 & H).
  destruct (parse_users txt) as [old|]; [|discriminate].
  apply fbind_ok_r in H. destruct H as (f2 & H2 & H). apply fbind_ok_r in H. destruct H as (f3 & H3 & H).
  inversion H; subst. eapply g_create_write; [|exact H3]. eapply g_ensure_homes; [|exact H2]. eapply g_read_or_create; eauto.
Qed.
Lemma g_mutate_accounts : forall f users groups ra f' ra', P f -> mutate_accounts maxl f users groups ra = FOk (f', ra') -> P f'.
Proof.
  intros f users groups ra f' ra' W H. unfold mutate_accounts in H.
  destruct (mutate_groups maxl f groups) as [f1| | |] eqn:Hg; try discriminate.
  eapply g_mutate_users; [|exact H]. eapply g_mutate_groups; eauto.
Qed.
Lemma g_write_apko_config : forall f f', P f -> write_apko_config maxl f = FOk f' -> P f'.
Proof.
  intros f f' W H. unfold write_apko_config in H. apply fbind_ok_r in H. destruct H as (f1 & H1 & H).
  eapply g_chmod; [|exact H]. eapply g_create_write; eauto.
Qed.
End Growth.

(* ---- Remove and Link ---------------------------------------------------------------------------- *)
Lemma remove_no_shadow : forall f p f', no_shadow f -> remove maxl f p = FOk f' -> no_shadow f'.
Proof.
  intros f p f' W H. unfold remove in H. apply fbind_ok_r in H. destruct H as (d & _ & H).
  destruct (get f d) as [dn|]; [|discriminate]. destruct (pbase p) as [b|]; [|discriminate].
  destruct (lookup b (nchildren dn)); [|discriminate]. inversion H; subst. apply no_shadow_remove_child. exact W.
Qed.
Lemma remove_dir_edges : forall f p f', dir_edges_up f -> remove maxl f p = FOk f' -> dir_edges_up f'.
Proof.
  intros f p f' W H. unfold remove in H. apply fbind_ok_r in H. destruct H as (d & _ & H).
  destruct (get f d) as [dn|]; [|discriminate]. destruct (pbase p) as [b|]; [|discriminate].
  destruct (lookup b (nchildren dn)); [|discriminate]. inversion H; subst. apply dir_edges_remove_child. exact W.
Qed.
Lemma link_no_shadow : forall f old new f', no_shadow f -> link maxl f old new = FOk f' -> no_shadow f'.
Proof.
  intros f old new f' W H. unfold link in H. apply fbind_ok_r in H. destruct H as (d & _ & H).
  destruct (gn maxl f old) as [t| | |]; try discriminate.
  destruct (get f d) as [dn|] eqn:Hd; [|discriminate]. destruct (pbase new) as [b|]; [|discriminate].
  destruct (negb (is_dir dn)); [discriminate|]. destruct (lookup b (nchildren dn)) eqn:Hl; [discriminate|].
  inversion H; subst. eapply no_shadow_add_child; eauto.
Qed.
(* Link of something that is not a directory keeps the tree shape *)
Lemma link_dir_edges : forall f old new f',
  dir_edges_up f -> (forall t tn, gn maxl f old = FOk t -> get f t = Some tn -> nkind tn <> KDir) ->
  link maxl f old new = FOk f' -> dir_edges_up f'.
Proof.
  intros f old new f' W Hk H. unfold link in H. apply fbind_ok_r in H. destruct H as (d & _ & H).
  destruct (gn maxl f old) as [t| | |] eqn:Ht; try discriminate.
  destruct (get f d) as [dn|] eqn:Hd; [|discriminate]. destruct (pbase new) as [b|]; [|discriminate].
  destruct (negb (is_dir dn)); [discriminate|]. destruct (lookup b (nchildren dn)) eqn:Hl; [discriminate|].
  inversion H; subst. eapply dir_edges_add_child; eauto.
Qed.

Lemma mutate_hard_link_no_shadow : forall f m f', no_shadow f -> mutate_hard_link maxl f m = FOk f' -> no_shadow f'.
Proof.
  intros f m f' W H. unfold mutate_hard_link in H. apply fbind_ok_r in H. destruct H as (f1 & H1 & H).
  apply fbind_ok_r in H. destruct H as (f2 & H2 & H).
  pose proof (g_ensure_parent _ no_shadow_growth _ _ _ W H1) as W1.
  assert (W2 : no_shadow f2).
  { destruct (gn maxl f1 (path_of (m_path m))); try discriminate; try (inversion H2; subst; exact W1).
    eapply remove_no_shadow; eauto. }
  eapply link_no_shadow; eauto.
Qed.

(* the source of a hardlink mutation, at the moment Link is called *)
Definition hardlink_source_not_dir (f : fs) (m : mutation) : Prop :=
  forall f1 f2 t tn,
    ensure_parent maxl f (path_of (m_path m)) = FOk f1 ->
    (match gn maxl f1 (path_of (m_path m)) with FOk _ => remove maxl f1 (path_of (m_path m)) | FFuel => FFuel | _ => FOk f1 end) = FOk f2 ->
    gn maxl f2 (path_of (m_source m)) = FOk t -> get f2 t = Some tn -> nkind tn <> KDir.

Lemma mutate_hard_link_dir_edges : forall f m f',
  dir_edges_up f -> hardlink_source_not_dir f m -> mutate_hard_link maxl f m = FOk f' -> dir_edges_up f'.
Proof.
  intros f m f' W Hsrc H. unfold mutate_hard_link in H. apply fbind_ok_r in H. destruct H as (f1 & H1 & H).
  apply fbind_ok_r in H. destruct H as (f2 & H2 & H).
  pose proof (g_ensure_parent _ dir_edges_growth _ _ _ W H1) as W1.
  assert (W2 : dir_edges_up f2).
  { destruct (gn maxl f1 (path_of (m_path m))); try discriminate; try (inversion H2; subst; exact W1).
    eapply remove_dir_edges; eauto. }
  eapply link_dir_edges; [exact W2| |exact H]. intros t tn Gt Gn. eapply Hsrc; eauto.
Qed.

(* ---- one mutation, a list of mutations ------------------------------------------------------------ *)
Lemma mutate_one_cases : forall f m f', mutate_one maxl f m = FOk f' ->
  exists pm f1, pm f m = FOk f1 /\
    (String.eqb (m_type m) "permissions" = true /\ f' = f1 \/ mutate_permissions maxl f1 m = FOk f') /\
    ((m_type m = "directory" /\ pm = mutate_directory maxl) \/ (m_type m = "empty-file" /\ pm = mutate_empty_file maxl) \/
     (m_type m = "hardlink" /\ pm = mutate_hard_link maxl) \/ (m_type m = "symlink" /\ pm = mutate_sym_link maxl) \/
     (m_type m = "permissions" /\ pm = mutate_permissions maxl)).
Proof.
  intros f m f' H. unfold mutate_one in H.
  destruct (assoc (m_type m) path_mutators) as [fn|] eqn:Hfn; [|discriminate].
  apply assoc_in in Hfn. unfold path_mutators in Hfn. simpl in Hfn.
  assert (Fin : forall f1, (if String.eqb (m_type m) "permissions" then FOk f1 else mutate_permissions maxl f1 m) = FOk f' ->
                 String.eqb (m_type m) "permissions" = true /\ f' = f1 \/ mutate_permissions maxl f1 m = FOk f').
  { intros f1 Hx. destruct (String.eqb (m_type m) "permissions"); [left; inversion Hx; auto | right; exact Hx]. }
  destruct Hfn as [E|[E|[E|[E|[E|[]]]]]]; injection E as Hty Hf; subst fn; symmetry in Hty;
    cbn [mutator_named String.eqb Ascii.eqb Bool.eqb] in H; apply fbind_ok_r in H; destruct H as (f1 & Hpm & H).
  - exists (mutate_directory maxl), f1. split; [exact Hpm|]. split; [apply Fin; exact H | tauto].
  - exists (mutate_empty_file maxl), f1. split; [exact Hpm|]. split; [apply Fin; exact H | tauto].
  - exists (mutate_hard_link maxl), f1. split; [exact Hpm|]. split; [apply Fin; exact H | tauto].
  - exists (mutate_sym_link maxl), f1. split; [exact Hpm|]. split; [apply Fin; exact H | tauto].
  - exists (mutate_permissions maxl), f1. split; [exact Hpm|]. split; [apply Fin; exact H | tauto].
Qed.

Theorem mutate_one_no_shadow : forall f m f', no_shadow f -> mutate_one maxl f m = FOk f' -> no_shadow f'.
Proof.
  intros f m f' W H. destruct (mutate_one_cases _ _ _ H) as (pm & f1 & Hpm & Hfin & Hc).
  assert (W1 : no_shadow f1).
  { destruct Hc as [[_ ->]|[[_ ->]|[[_ ->]|[[_ ->]|[_ ->]]]]].
    - eapply g_mutate_directory; eauto using no_shadow_growth.
    - eapply g_mutate_empty_file; eauto using no_shadow_growth.
    - eapply mutate_hard_link_no_shadow; eauto.
    - eapply g_mutate_sym_link; eauto using no_shadow_growth.
    - eapply g_mutate_permissions; eauto using no_shadow_growth. }
  destruct Hfin as [[_ ->]|Hp]; [exact W1|]. eapply g_mutate_permissions; eauto using no_shadow_growth.
Qed.

Theorem mutate_one_dir_edges : forall f m f',
  dir_edges_up f -> (m_type m = "hardlink" -> hardlink_source_not_dir f m) -> mutate_one maxl f m = FOk f' -> dir_edges_up f'.
Proof.
  intros f m f' W Hh H. destruct (mutate_one_cases _ _ _ H) as (pm & f1 & Hpm & Hfin & Hc).
  assert (W1 : dir_edges_up f1).
  { destruct Hc as [[_ ->]|[[_ ->]|[[Hty ->]|[[_ ->]|[_ ->]]]]].
    - eapply g_mutate_directory; eauto using dir_edges_growth.
    - eapply g_mutate_empty_file; eauto using dir_edges_growth.
    - eapply mutate_hard_link_dir_edges; eauto.
    - eapply g_mutate_sym_link; eauto using dir_edges_growth.
    - eapply g_mutate_permissions; eauto using dir_edges_growth. }
  destruct Hfin as [[_ ->]|Hp]; [exact W1|]. eapply g_mutate_permissions; eauto using dir_edges_growth.
Qed.

Theorem mutate_paths_no_shadow : forall ms f f', no_shadow f -> mutate_paths maxl f ms = FOk f' -> no_shadow f'.
Proof.
  induction ms as [|m t IH]; intros f f' W H; simpl in H; [inversion H; subst; exact W|].
  apply fbind_ok_r in H. destruct H as (f1 & H1 & H). eapply IH; [|exact H]. eapply mutate_one_no_shadow; eauto.
Qed.

(* every hardlink mutation of the list, at its turn, links something that is not a directory *)
Fixpoint no_dir_hardlinks (f : fs) (ms : list mutation) : Prop :=
  match ms with
  | [] => True
  | m :: t => (m_type m = "hardlink" -> hardlink_source_not_dir f m) /\
              (forall f1, mutate_one maxl f m = FOk f1 -> no_dir_hardlinks f1 t)
  end.
Lemma no_hardlinks_no_dir_hardlinks : forall ms f,
  forallb (fun m => negb (String.eqb (m_type m) "hardlink")) ms = true -> no_dir_hardlinks f ms.
Proof.
  induction ms as [|m t IH]; intros f H; [exact I|]. cbn [forallb] in H. apply andb_true_iff in H. destruct H as [Hm Ht].
  split; [|intros f1 _; apply IH; exact Ht]. intro E. rewrite E in Hm. discriminate.
Qed.

Theorem mutate_paths_wf : forall ms f f', wf f -> no_dir_hardlinks f ms -> mutate_paths maxl f ms = FOk f' -> wf f'.
Proof.
  induction ms as [|m t IH]; intros f f' W Hn H; simpl in H; [inversion H; subst; exact W|].
  apply fbind_ok_r in H. destruct H as (f1 & H1 & H). destruct Hn as (Hm & Ht). destruct W as (U & N).
  eapply IH; [|exact (Ht f1 H1)|exact H]. split; [eapply mutate_one_dir_edges; eauto | eapply mutate_one_no_shadow; eauto].
Qed.

(* the accounts step, etc/apko.json and the whole pipeline *)
Theorem mutate_accounts_wf : forall f users groups ra f' ra', wf f -> mutate_accounts maxl f users groups ra = FOk (f', ra') -> wf f'.
Proof.
  intros f users groups ra f' ra' (U & N) H.
  split; [eapply (g_mutate_accounts _ dir_edges_growth); eauto | eapply (g_mutate_accounts _ no_shadow_growth); eauto].
Qed.
Theorem write_apko_config_wf : forall f f', wf f -> write_apko_config maxl f = FOk f' -> wf f'.
Proof.
  intros f f' (U & N) H.
  split; [eapply (g_write_apko_config _ dir_edges_growth); eauto | eapply (g_write_apko_config _ no_shadow_growth); eauto].
Qed.

End Ops.
