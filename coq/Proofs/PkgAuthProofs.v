(* C05 — proofs about Model/PkgAuth.v against Spec/PkgAuthSpec.v. *)
From Apko Require Import Base.Prelude Model.PkgAuth Spec.PkgAuthSpec.
Open Scope string_scope. Open Scope list_scope.

Lemma bytes_eqb_eq a b : bytes_eqb a b = true <-> a = b.
Proof. apply list_eqb_spec. intros; apply N.eqb_eq. Qed.

Lemma assoc_b_in {A} x (l : list (list N * A)) v : assoc_b x l = Some v -> In (x, v) l.
Proof.
  induction l as [|[k w] l IH]; simpl; [discriminate|].
  destruct (bytes_eqb x k) eqn:E; intro H.
  - apply bytes_eqb_eq in E; subst. inversion H; subst. left; reflexivity.
  - right; apply IH; exact H.
Qed.
Lemma assoc_s_in {A} x (l : list (string * A)) v : assoc_s x l = Some v -> In (x, v) l.
Proof.
  induction l as [|[k w] l IH]; simpl; [discriminate|].
  destruct (String.eqb x k) eqn:E; intro H.
  - apply String.eqb_eq in E; subst. inversion H; subst. left; reflexivity.
  - right; apply IH; exact H.
Qed.


Section WithOracles.
  Variable sha1 : list N -> list N.
  Variable sha256 : list N -> list N.
  Variable b64 : string -> option (list N).
  Notation Chain := (Chain sha1 sha256 b64).
  Notation h_sum := (h_sum b64).
  Notation file_ok := (file_ok sha1).

  Lemma file_ok_b_iff f : file_ok_b sha1 f = true <-> file_ok f.
  Proof.
    unfold file_ok_b, PkgAuthSpec.file_ok. destruct (f_kind f); destruct (f_sum f) as [| |d]; split; intro H;
      try reflexivity; try discriminate; try (intro K; discriminate K).
    - intros _. split; [discriminate | intros d H'; discriminate].
    - destruct (H eq_refl) as [H' _]. congruence.
    - intros _. split; [discriminate|]. intros d' E. inversion E; subst. apply bytes_eqb_eq; exact H.
    - destruct (H eq_refl) as [_ H']. apply bytes_eqb_eq. apply H'. reflexivity.
  Qed.

  Lemma chain_tags_iff sfx h x : chain_tags sha1 sha256 b64 sfx h x = [] <-> Chain h x.
  Proof.
    unfold chain_tags, PkgAuthSpec.Chain.
    assert (control_ok_b sha1 b64 h x = true <-> h_sum h = Some (sha1 (c_raw (x_ctl x)))) as C.
    { unfold control_ok_b. destruct (h_sum h) as [w|]; simpl; [|split; discriminate].
      rewrite bytes_eqb_eq. split; intro H; [subst; reflexivity | inversion H; reflexivity]. }
    assert (datahash_ok_b sha256 x = true <->
            forall dh, In dh (c_datahash (x_ctl x)) -> dh <> "" -> dh = hex (sha256 (d_raw (x_dat x)))) as Dh.
    { unfold datahash_ok_b. rewrite forallb_forall. split; intros H dh Hin.
      - intro NE. specialize (H dh Hin). apply orb_true_iff in H. destruct H as [H|H]; apply String.eqb_eq in H; congruence.
      - apply orb_true_iff. destruct (String.eqb dh "") eqn:E; [left; reflexivity|right].
        apply String.eqb_eq. apply H; [exact Hin|]. intro K; subst. discriminate. }
    assert (files_ok_b sha1 x = true <-> forall f, In f (d_files (x_dat x)) -> file_ok f) as F.
    { unfold files_ok_b. rewrite forallb_forall. split; intros H f Hf; apply file_ok_b_iff; apply H; exact Hf. }
    destruct (control_ok_b sha1 b64 h x) eqn:E1; destruct (datahash_ok_b sha256 x) eqn:E2; destruct (files_ok_b sha1 x) eqn:E3;
      simpl; split; intro H; try discriminate; try reflexivity.
    - split; [apply C; reflexivity|]. split; [apply Dh; reflexivity | apply F; reflexivity].
    - destruct H as (_ & _ & H). apply F in H. discriminate.
    - destruct H as (_ & H & _). apply Dh in H. discriminate.
    - destruct H as (_ & H & _). apply Dh in H. discriminate.
    - destruct H as (H & _). apply C in H. discriminate.
    - destruct H as (H & _). apply C in H. discriminate.
    - destruct H as (H & _). apply C in H. discriminate.
    - destruct H as (H & _). apply C in H. discriminate.
  Qed.

  (* ---- the three checks ------------------------------------------------------- *)
  Lemma check_sums_ok fs : check_sums sha1 fs = true -> forall f, In f fs -> file_ok f.
  Proof.
    induction fs as [|g fs IH]; simpl; intros H f Hf; [destruct Hf|].
    assert (check_sums sha1 fs = true /\ file_ok g) as [H1 H2].
    { unfold PkgAuthSpec.file_ok. destruct (f_kind g) eqn:K.
      - destruct (f_sum g) as [| |d] eqn:S; try discriminate.
        + split; [exact H|]. intros _. split; [discriminate | intros d E; discriminate].
        + apply andb_true_iff in H. destruct H as [Ha Hb]. split; [exact Hb|]. intros _.
          split; [discriminate|]. intros d' E. inversion E; subst. apply bytes_eqb_eq; exact Ha.
      - split; [exact H | intro X; discriminate X].
      - split; [exact H | intro X; discriminate X]. }
    destruct Hf as [->|Hf]; [exact H2 | apply IH; assumption].
  Qed.

  Lemma check_sums_mismatch fs f d :
    In f fs -> f_kind f = FReg -> f_sum f = SumSome d -> d <> sha1 (f_body f) -> check_sums sha1 fs = false.
  Proof.
    intros Hf K S NE. destruct (check_sums sha1 fs) eqn:C; [|reflexivity].
    destruct (check_sums_ok fs C f Hf K) as [_ H]. exfalso. apply NE. apply H. exact S.
  Qed.

  Lemma verify_expanded_spec h ch dh c :
    verify_expanded b64 h ch dh c = true ->
    h_sum h = Some ch /\ forall v, In v (c_datahash c) -> v <> "" -> v = hex dh.
  Proof.
    unfold verify_expanded. destruct (h_sum h) as [w|]; [|discriminate]. intro H.
    apply andb_true_iff in H. destruct H as [H1 H2]. apply bytes_eqb_eq in H1; subst.
    split; [reflexivity|]. intros v Hv NE. rewrite forallb_forall in H2. specialize (H2 v Hv).
    apply orb_true_iff in H2. destruct H2 as [E|E]; apply String.eqb_eq in E; congruence.
  Qed.

  (* ---- the on-disk cache -------------------------------------------------------- *)
  (* the population invariant: every entry is stored under the digest of its own
     bytes, and every data section stored passed the per-file check *)
  Definition cache_ok (k : cache) : Prop :=
    (forall s c, In (s, c) (k_ctl k) -> s = sha1 (c_raw c)) /\
    (forall n d, In (n, d) (k_dat k) -> n = hex (sha256 (d_raw d)) /\ check_sums sha1 (d_files d) = true).

  Lemma empty_cache_ok : cache_ok empty_cache.
  Proof. split; intros ? ? H; destruct H. Qed.

  (* a hit hands back what is stored under the expected names; nothing is hashed *)
  Lemma cached_package_by_name k h x :
    cached_package b64 k h = Some x ->
    h_q1 h = true /\ exists sum dh,
      h_sum h = Some sum /\ In (sum, x_ctl x) (k_ctl k) /\
      c_datahash (x_ctl x) = [dh] /\ In (dh, x_dat x) (k_dat k) /\ x_ctl_hash x = sum.
  Proof.
    unfold cached_package. destruct (h_q1 h); [|discriminate].
    destruct (h_sum h) as [sum|]; [|discriminate].
    destruct (assoc_b sum (k_ctl k)) as [c|] eqn:A; [|discriminate].
    destruct (c_datahash c) as [|dh [|? ?]] eqn:Dh; try discriminate.
    destruct (assoc_s dh (k_dat k)) as [d|] eqn:Ad; [|discriminate].
    destruct (is_hex dh); [|discriminate]. intro H. inversion H; subst; simpl.
    split; [reflexivity|]. exists sum, dh. apply assoc_b_in in A. apply assoc_s_in in Ad. auto.
  Qed.

  Lemma cached_package_chain k h x : cache_ok k -> cached_package b64 k h = Some x -> Chain h x.
  Proof.
    intros [Kc Kd] H. apply cached_package_by_name in H.
    destruct H as (_ & sum & dh & Hs & Ic & Dh & Id & _).
    specialize (Kc _ _ Ic). destruct (Kd _ _ Id) as [Kn Kf].
    split; [rewrite Hs, Kc; reflexivity|]. split.
    - intros v Hv _. rewrite Dh in Hv. destruct Hv as [<-|[]]. exact Kn.
    - apply check_sums_ok. exact Kf.
  Qed.

  (* "an existing destination wins" is harmless when it holds the same member:
     what collision resistance gives a content-addressed store *)
  Definition dst_same (k : cache) (a : apkfile) : Prop :=
    (forall c', In (sha1 (c_raw (a_ctl a)), c') (k_ctl k) -> c' = a_ctl a) /\
    (forall d', In (hex (sha256 (d_raw (a_dat a))), d') (k_dat k) -> d' = a_dat a).

  Lemma cache_package_spec k a :
    cache_ok k -> dst_same k a -> check_sums sha1 (d_files (a_dat a)) = true ->
    let ch := sha1 (c_raw (a_ctl a)) in let dh := sha256 (d_raw (a_dat a)) in
    forall k' x, cache_package k (a_ctl a) (a_dat a) ch dh = (k', x) ->
      cache_ok k' /\ x_ctl x = a_ctl a /\ x_dat x = a_dat a /\ x_ctl_hash x = ch.
  Proof.
    intros [Kc Kd] [Sc Sd] Cs ch dh k' x H. unfold cache_package in H. fold ch dh in H.
    inversion H; subst k' x; clear H. simpl.
    assert (match assoc_b ch (match assoc_b ch (k_ctl k) with Some _ => k_ctl k | None => (ch, a_ctl a) :: k_ctl k end)
            with Some c' => c' | None => a_ctl a end = a_ctl a) as E1.
    { destruct (assoc_b ch (k_ctl k)) as [c'|] eqn:A.
      - rewrite A. apply Sc. apply assoc_b_in. exact A.
      - simpl. assert (bytes_eqb ch ch = true) as R by (apply bytes_eqb_eq; reflexivity). rewrite R. reflexivity. }
    assert (match assoc_s (hex dh) (match assoc_s (hex dh) (k_dat k) with Some _ => k_dat k | None => (hex dh, a_dat a) :: k_dat k end)
            with Some d' => d' | None => a_dat a end = a_dat a) as E2.
    { destruct (assoc_s (hex dh) (k_dat k)) as [d'|] eqn:A.
      - rewrite A. apply Sd. apply assoc_s_in. exact A.
      - simpl. rewrite String.eqb_refl. reflexivity. }
    split; [|auto]. split; simpl.
    - intros s c Hin. destruct (assoc_b ch (k_ctl k)); [apply Kc; exact Hin|].
      destruct Hin as [Hin|Hin]; [inversion Hin; subst; reflexivity | apply Kc; exact Hin].
    - intros n d Hin. destruct (assoc_s (hex dh) (k_dat k)); [apply Kd; exact Hin|].
      destruct Hin as [Hin|Hin]; [inversion Hin; subst; split; [reflexivity | exact Cs] | apply Kd; exact Hin].
  Qed.

  Definition opt_cache_ok (k : option cache) : Prop := match k with Some kc => cache_ok kc | None => True end.
  Definition opt_dst_same (k : option cache) (s : option apkfile) : Prop :=
    match k, s with Some kc, Some a => dst_same kc a | _, _ => True end.

  (* ---- expandPackage ------------------------------------------------------------- *)
  Lemma expand_uncached_chain k h served x k' :
    opt_cache_ok k -> opt_dst_same k served ->
    expand_uncached sha1 sha256 b64 k h served = (XOk x, k') -> Chain h x /\ opt_cache_ok k'.
  Proof.
    intros Ok Same. unfold expand_uncached.
    destruct (match k with Some kc => cached_package b64 kc h | None => None end) as [x0|] eqn:Hit.
    - intro H. injection H as Hx Hk. subst x0 k'. split; [|exact Ok].
      destruct k as [kc|]; [|discriminate]. eapply cached_package_chain; eauto.
    - destruct served as [a|]; [|discriminate].
      destruct (check_sums sha1 (d_files (a_dat a))) eqn:Cs; cbn [negb]; [|discriminate].
      destruct (verify_expanded b64 h (sha1 (c_raw (a_ctl a))) (sha256 (d_raw (a_dat a))) (a_ctl a)) eqn:V; cbn [negb]; [|discriminate].
      apply verify_expanded_spec in V. destruct V as [V1 V2].
      destruct k as [kc|].
      + destruct (cache_package kc (a_ctl a) (a_dat a) (sha1 (c_raw (a_ctl a))) (sha256 (d_raw (a_dat a)))) as [kc' x1] eqn:CP.
        intro H. inversion H; subst.
        destruct (cache_package_spec kc a Ok Same Cs _ _ CP) as (Ok' & E1 & E2 & _).
        split; [|exact Ok']. unfold PkgAuthSpec.Chain. rewrite E1, E2.
        split; [exact V1|]. split; [exact V2 | apply check_sums_ok; exact Cs].
      + intro H. inversion H; subst. split; [|exact I]. unfold PkgAuthSpec.Chain; simpl.
        split; [exact V1|]. split; [exact V2 | apply check_sums_ok; exact Cs].
  Qed.

  Lemma expand_uncached_keeps_cache_ok k h served r k' :
    opt_cache_ok k -> opt_dst_same k served ->
    expand_uncached sha1 sha256 b64 k h served = (r, k') -> opt_cache_ok k'.
  Proof.
    intros Ok Same H. destruct r as [x|e]; [eapply expand_uncached_chain; eauto|].
    unfold expand_uncached in H.
    destruct (match k with Some kc => cached_package b64 kc h | None => None end); [discriminate|].
    destruct served as [a|]; [|inversion H; subst; exact Ok].
    destruct (negb (check_sums sha1 (d_files (a_dat a)))); [inversion H; subst; exact Ok|].
    destruct (negb (verify_expanded b64 h _ _ (a_ctl a))); [inversion H; subst; exact Ok|].
    destruct k as [kc|]; [|discriminate].
    destruct (cache_package kc _ _ _ _); discriminate.
  Qed.

  (* a per-file mismatch aborts the fetch path *)
  Lemma expand_uncached_file_mismatch k h a f d :
    (match k with Some kc => cached_package b64 kc h | None => None end) = None ->
    In f (d_files (a_dat a)) -> f_kind f = FReg -> f_sum f = SumSome d -> d <> sha1 (f_body f) ->
    expand_uncached sha1 sha256 b64 k h (Some a) = (XErr ESums, k).
  Proof.
    intros Miss Hf K S NE. unfold expand_uncached. rewrite Miss.
    rewrite (check_sums_mismatch _ f d Hf K S NE). reflexivity.
  Qed.

  (* Chain depends on the handle only through the checksum it records *)
  Lemma chain_same_sum h h' x : h_sum h = h_sum h' -> Chain h x -> Chain h' x.
  Proof. unfold PkgAuthSpec.Chain. intros E (A & B & C). rewrite <- E. auto. Qed.

  (* the process memo: every stored success satisfies the chain for the request
     (URL, checksum string) it is stored under *)
  Definition memo_inv (m : memo) : Prop :=
    forall key r x, assoc_k key m = Some r -> r = XOk x ->
      exists h0, memo_key h0 = key /\ Chain h0 x.

  Lemma key_eqb_eq a b : key_eqb a b = true <-> a = b.
  Proof.
    unfold key_eqb. destruct a as [a1 a2], b as [b1 b2]; simpl.
    rewrite andb_true_iff, !String.eqb_eq. split; [intros [-> ->]; reflexivity | intro H; inversion H; auto].
  Qed.

  Lemma expand_package_chain m k h served r k' m' :
    memo_inv m -> opt_cache_ok k -> opt_dst_same k served ->
    expand_package sha1 sha256 b64 m k h served = (r, k', m') ->
    (forall x, r = XOk x -> Chain h x) /\ opt_cache_ok k' /\ memo_inv m'.
  Proof.
    intros MI Ok Same. unfold expand_package. destruct k as [kc|].
    - destruct (assoc_k (memo_key h) m) as [r0|] eqn:A.
      + intro H. inversion H; subst. split; [|split; assumption].
        intros x E. destruct (MI _ _ x A E) as (h0 & K0 & C0).
        eapply chain_same_sum; [|exact C0]. unfold memo_key in K0. inversion K0 as [[Hu Hc]].
        unfold PkgAuth.h_sum. rewrite Hc. reflexivity.
      + destruct (expand_uncached sha1 sha256 b64 (Some kc) h served) as [r1 k1] eqn:EU.
        intro H. inversion H; subst.
        assert (forall x, r = XOk x -> Chain h x) as CH.
        { intros x E; subst. eapply expand_uncached_chain; eauto. }
        split; [exact CH|]. split; [eapply expand_uncached_keeps_cache_ok; eauto|].
        (* only a success is stored (fix 6e5c862: a failed expansion is forgotten) *)
        destruct r as [xr|er]; [|exact MI].
        intros u r2 x A2 E2. simpl in A2. destruct (key_eqb u (memo_key h)) eqn:Eu.
        * apply key_eqb_eq in Eu; subst u. inversion A2; subst. exists h. split; [reflexivity | apply CH; assumption].
        * eapply MI; eauto.
    - destruct (expand_uncached sha1 sha256 b64 None h served) as [r1 k1] eqn:EU.
      intro H. inversion H; subst. split; [|split; [eapply expand_uncached_keeps_cache_ok; eauto | exact MI]].
      intros x E; subst. eapply expand_uncached_chain; eauto.
  Qed.

  (* under collision resistance, stated as hypotheses on the oracles, the chain
     pins the installed members to the ones the index entry describes *)
  Lemma chain_pins_bytes h x g :
    (forall a b, sha1 a = sha1 b -> a = b) ->
    (forall a b, hex (sha256 a) = hex (sha256 b) -> a = b) ->
    (forall c c', c_raw c = c_raw c' -> c_datahash c = c_datahash c') ->
    h_sum h = Some (sha1 (c_raw (a_ctl g))) ->
    (exists dh, In dh (c_datahash (a_ctl g)) /\ dh <> "" /\ dh = hex (sha256 (d_raw (a_dat g)))) ->
    Chain h x ->
    c_raw (x_ctl x) = c_raw (a_ctl g) /\ d_raw (x_dat x) = d_raw (a_dat g).
  Proof.
    intros CR1 CR2 Fun Hs (dh & Hin & NE & Hd) (A & B & _).
    assert (c_raw (x_ctl x) = c_raw (a_ctl g)) as E.
    { apply CR1. rewrite Hs in A. inversion A. reflexivity. }
    split; [exact E|]. apply CR2. rewrite <- Hd. symmetry. apply B; [|exact NE].
    rewrite (Fun _ _ E). exact Hin.
  Qed.
End WithOracles.

(* ---- installation ------------------------------------------------------------- *)
Definition reg_files (fs : list dfile) : list (string * list N) :=
  List.flat_map (fun f => match f_kind f with FReg => [(f_name f, f_body f)] | _ => [] end) fs.

(* whatever is installed is the data section's own regular files *)
Lemma install_files_view lazy : forall fs out, install_files lazy fs = Some out -> out = reg_files fs.
Proof.
  induction fs as [|f fs IH]; simpl; intros out H; [inversion H; reflexivity|].
  destruct (match f_kind f, f_sum f with
            | FDir, _ => true | FReg, SumBad => false | FReg, SumNone => negb lazy | FReg, SumSome _ => true
            | FSym, SumSome _ => true | FSym, SumNone => negb lazy | FSym, SumBad => negb lazy end); [|discriminate].
  destruct (install_files lazy fs) as [o|]; [|discriminate]. inversion H; subst.
  rewrite (IH o eq_refl). destruct (f_kind f); reflexivity.
Qed.

(* lazy install: a regular file or symlink without a recorded checksum aborts *)
Lemma lazy_missing_aborts : forall fs f,
  In f fs -> (f_kind f = FReg \/ f_kind f = FSym) -> f_sum f = SumNone -> install_files true fs = None.
Proof.
  induction fs as [|g fs IH]; intros f Hf K S; [destruct Hf|]. simpl.
  destruct Hf as [->|Hf].
  - rewrite S. destruct K as [K|K]; rewrite K; reflexivity.
  - rewrite (IH f Hf K S). destruct (f_kind g); destruct (f_sum g); reflexivity.
Qed.

(* streaming install: a missing checksum is recomputed; only an undecodable
   record on a regular file aborts *)
Lemma streaming_installs : forall fs,
  (forall f, In f fs -> f_kind f = FReg -> f_sum f <> SumBad) ->
  install_files false fs = Some (reg_files fs).
Proof.
  induction fs as [|g fs IH]; intros H; [reflexivity|]. simpl.
  rewrite IH by (intros f Hf; apply H; right; exact Hf).
  pose proof (H g (or_introl eq_refl)) as Hg.
  destruct (f_kind g) eqn:K; destruct (f_sum g) eqn:S; simpl; try reflexivity.
  exfalso. apply (Hg eq_refl). reflexivity.
Qed.

(* ---- the two earlier memo keys (fixed findings C05-F1 / C05-F2), as regression
   witnesses: two different requests that the earlier key shapes identified, the
   second of which a fresh expansion refuses, while the pair key keeps them apart *)
Definition idf (b : list N) : list N := b.
Definition wit_b64 (s : string) : option (list N) :=
  if String.eqb s "1" then Some [1]%N else if String.eqb s "2" then Some [2]%N else None.
Definition wit_apk : apkfile :=
  {| a_ctl := {| c_raw := [1]%N; c_desc := ""; c_datahash := [] |}; a_dat := {| d_raw := [1]%N; d_files := [] |} |}.
Definition wit_h1 : handle := {| h_url := "a@b"; h_chk := "1" |}.
Definition wit_h2 : handle := {| h_url := "a"; h_chk := "b@1" |}.     (* same URL++"@"++checksum as wit_h1 *)
Definition wit_h3 : handle := {| h_url := "a@b"; h_chk := "2" |}.     (* same URL as wit_h1 *)

Lemma pair_key_separates :
  (h_url wit_h1 ++ "@" ++ h_chk wit_h1 = h_url wit_h2 ++ "@" ++ h_chk wit_h2)%string /\
  h_url wit_h1 = h_url wit_h3 /\
  exists r1 k1 m1,
    expand_package idf idf wit_b64 [] (Some empty_cache) wit_h1 (Some wit_apk) = (r1, k1, m1) /\
    (exists x, r1 = XOk x) /\
    fst (fst (expand_package idf idf wit_b64 m1 k1 wit_h2 (Some wit_apk))) = XErr EVerify /\
    fst (fst (expand_package idf idf wit_b64 m1 k1 wit_h3 (Some wit_apk))) = XErr EVerify.
Proof.
  split; [reflexivity|]. split; [reflexivity|]. eexists _, _, _. split; [vm_compute; reflexivity|].
  split; [eexists; reflexivity|]. split; vm_compute; reflexivity.
Qed.
