(* C05 — proofs about Model/PkgAuth.v against Spec/PkgAuthSpec.v. *)
From Apko Require Import Base.Prelude Generated.C05Sum Model.PkgAuth Spec.PkgAuthSpec.
Open Scope string_scope. Open Scope list_scope.

Lemma bytes_eqb_eq a b : bytes_eqb a b = true <-> a = b.
Proof. apply list_eqb_spec. intros; apply N.eqb_eq. Qed.
Lemma bytes_eqb_refl a : bytes_eqb a a = true.
Proof. apply bytes_eqb_eq. reflexivity. Qed.

Lemma assoc_b_in {A} x (l : list (list N * A)) v : assoc_b x l = Some v -> In (x, v) l.
Proof.
  induction l as [|[k w] l IH]; simpl; [discriminate|].
  destruct (bytes_eqb x k) eqn:E; intro H.
  - apply bytes_eqb_eq in E; subst. inversion H; subst. left; reflexivity.
  - right; apply IH; exact H.
Qed.
Lemma assoc_s_in {A} x (l : list (string * A)) v : assoc_s x l = Some v -> In (x, v) l.
Proof.
  induction l as [|[k w] l IH]; simpl; [discriminate|].
  destruct (String.eqb x k) eqn:E; intro H.
  - apply String.eqb_eq in E; subst. inversion H; subst. left; reflexivity.
  - right; apply IH; exact H.
Qed.

(* AdvertiseCachedFile: afterwards the name holds the old content if there was
   one, else the new content; nothing else changes *)
Lemma adv_s_in {A} n (v : A) l m w : In (m, w) (adv_s n v l) -> In (m, w) l \/ (m = n /\ w = v /\ assoc_s n l = None).
Proof.
  unfold adv_s. destruct (assoc_s n l) eqn:E; [left; assumption|].
  intros [H|H]; [inversion H; subst; right; auto | left; exact H].
Qed.
Lemma adv_b_in {A} n (v : A) l m w : In (m, w) (adv_b n v l) -> In (m, w) l \/ (m = n /\ w = v /\ assoc_b n l = None).
Proof.
  unfold adv_b. destruct (assoc_b n l) eqn:E; [left; assumption|].
  intros [H|H]; [inversion H; subst; right; auto | left; exact H].
Qed.
Lemma adv_s_get {A} n (v : A) l : exists w, assoc_s n (adv_s n v l) = Some w /\ (In (n, w) l \/ w = v).
Proof.
  unfold adv_s. destruct (assoc_s n l) as [w|] eqn:E.
  - exists w. rewrite E. split; [reflexivity | left; apply assoc_s_in; exact E].
  - exists v. simpl. rewrite String.eqb_refl. split; [reflexivity | right; reflexivity].
Qed.
Lemma adv_b_get {A} n (v : A) l : exists w, assoc_b n (adv_b n v l) = Some w /\ (In (n, w) l \/ w = v).
Proof.
  unfold adv_b. destruct (assoc_b n l) as [w|] eqn:E.
  - exists w. rewrite E. split; [reflexivity | left; apply assoc_b_in; exact E].
  - exists v. simpl. rewrite bytes_eqb_refl. split; [reflexivity | right; reflexivity].
Qed.

(* ---- the .PKGINFO text: every line counts, whatever its length -------------------------- *)
Fixpoint no_char (c : ascii) (s : string) : Prop :=
  match s with EmptyString => True | String d r => d <> c /\ no_char c r end.
Fixpoint join_with (sep : ascii) (ls : list string) : string :=
  match ls with
  | [] => EmptyString
  | [a] => a
  | a :: r => (a ++ String sep (join_with sep r))%string
  end.

Lemma sapp_assoc a b c : ((a ++ b) ++ c)%string = (a ++ (b ++ c))%string.
Proof. induction a as [|x a IH]; simpl; [reflexivity | rewrite IH; reflexivity]. Qed.
Lemma rev_str_app s : forall acc, rev_str s acc = (rev_str s "" ++ acc)%string.
Proof.
  induction s as [|c s IH]; intro acc; [reflexivity|]. simpl. rewrite IH, (IH (String c "")).
  rewrite sapp_assoc. reflexivity.
Qed.
Lemma append_nil_r s : (s ++ "")%string = s.
Proof. induction s as [|c s IH]; simpl; [reflexivity | rewrite IH; reflexivity]. Qed.

Lemma split_acc_part sep l : no_char sep l -> forall cur acc,
  split_acc sep l cur acc = List.rev_append acc [(rev_str cur "" ++ l)%string] /\
  forall r, split_acc sep (l ++ String sep r) cur acc = split_acc sep r "" ((rev_str cur "" ++ l)%string :: acc).
Proof.
  induction l as [|d l IH]; intros NC cur acc.
  - simpl. rewrite append_nil_r, Ascii.eqb_refl. split; [reflexivity | intro r; reflexivity].
  - destruct NC as [ND NC]. simpl. assert (Ascii.eqb d sep = false) as E by (apply Ascii.eqb_neq; exact ND). rewrite E.
    destruct (IH NC (String d cur) acc) as [A B]. simpl in A, B.
    assert ((rev_str cur (String d "") ++ l)%string = (rev_str cur "" ++ String d l)%string) as R.
    { rewrite (rev_str_app cur (String d "")), sapp_assoc. reflexivity. }
    rewrite R in A, B. split; [exact A | exact B].
Qed.

Lemma split_join sep : forall ls, ls <> [] -> (forall l, In l ls -> no_char sep l) ->
  forall acc, split_acc sep (join_with sep ls) "" acc = List.rev_append acc ls.
Proof.
  induction ls as [|a ls IH]; intros NE NC acc; [contradiction NE; reflexivity|].
  destruct ls as [|b ls].
  - simpl. apply (proj1 (split_acc_part sep a (NC a (or_introl eq_refl)) "" acc)).
  - change (join_with sep (a :: b :: ls)) with (a ++ String sep (join_with sep (b :: ls)))%string.
    rewrite (proj2 (split_acc_part sep a (NC a (or_introl eq_refl)) "" acc)). simpl rev_str. simpl append at 1.
    rewrite IH; [reflexivity | discriminate | intros l Hl; apply NC; right; exact Hl].
Qed.

(* controlValue on ANY text made of lines (no bound on their number or length): the
   values are those of every line of the form key=value, in order *)
Lemma control_values_lines key ls :
  ls <> [] -> (forall l, In l ls -> no_char "010"%char l) ->
  control_values (join_with "010"%char ls) key = List.flat_map (line_value key) ls.
Proof. intros NE NC. unfold control_values, split_on. rewrite (split_join _ ls NE NC []). reflexivity. Qed.

(* so a datahash line is found wherever it stands and whatever surrounds it *)
Lemma control_values_finds key ls l v :
  ls <> [] -> (forall l, In l ls -> no_char "010"%char l) ->
  In l ls -> line_value key l = [v] -> In v (control_values (join_with "010"%char ls) key).
Proof.
  intros NE NC Hl Hv. rewrite (control_values_lines key ls NE NC). apply in_flat_map. exists l. split; [exact Hl|].
  rewrite Hv. left; reflexivity.
Qed.

(* ---- the deciders of Spec ------------------------------------------------------- *)
Lemma fkind_eqb_eq a b : fkind_eqb a b = true <-> a = b.
Proof. destruct a, b; simpl; split; intro H; try reflexivity; try discriminate. Qed.
Lemma recsum_eqb_eq a b : recsum_eqb a b = true <-> a = b.
Proof.
  destruct a as [| |x], b as [| |y]; simpl; split; intro H; try reflexivity; try discriminate.
  - apply bytes_eqb_eq in H. subst. reflexivity.
  - inversion H. apply bytes_eqb_refl.
Qed.
Lemma dfile_eqb_eq a b : dfile_eqb a b = true <-> a = b.
Proof.
  unfold dfile_eqb. destruct a as [n1 k1 b1 s1 l1 p1], b as [n2 k2 b2 s2 l2 p2]; simpl.
  rewrite !andb_true_iff, !String.eqb_eq, fkind_eqb_eq, bytes_eqb_eq, recsum_eqb_eq, Bool.eqb_true_iff.
  split; [intros (((((-> & ->) & ->) & ->) & ->) & ->); reflexivity | intro H; inversion H; auto 10].
Qed.
Lemma control_eqb_eq a b : control_eqb a b = true <-> a = b.
Proof.
  unfold control_eqb. destruct a as [r1 d1 h1], b as [r2 d2 h2]; simpl.
  rewrite !andb_true_iff, String.eqb_eq, bytes_eqb_eq, (list_eqb_spec String.eqb String.eqb_eq).
  split; [intros ((-> & ->) & ->); reflexivity | intro H; inversion H; auto].
Qed.
Lemma option_eqb_eq {A} (eqb : A -> A -> bool) (H : forall x y, eqb x y = true <-> x = y) a b :
  option_eqb eqb a b = true <-> a = b.
Proof.
  destruct a, b; simpl; split; intro E; try reflexivity; try discriminate.
  - apply H in E. subst. reflexivity.
  - inversion E. apply H. reflexivity.
Qed.

Section WithOracles.
  Variable sha1 : list N -> list N.
  Variable sha256 : list N -> list N.
  Variable b64 : string -> option (list N).
  Variable first_name : list N -> option string.
  Variable ctl_view : list N -> option (string * string).
  Variable gunzip : list N -> option (list N).
  Variable untar : list N -> option (list dfile).
  Notation Chain := (Chain sha1 sha256 b64 ctl_view gunzip untar).
  Notation h_sum := (h_sum b64).
  Notation file_ok := (file_ok sha1).
  Notation mk_ctl := (mk_ctl ctl_view).
  Notation dat_view := (dat_view gunzip untar).
  Notation cut := (cut first_name).
  Notation cut_with := (cut_with first_name).
  Notation sig2 := (sig2 first_name).
  Notation expand_apk := (expand_apk sha1 sha256 first_name ctl_view gunzip untar).
  Notation expand_apk_with := (expand_apk_with sha1 sha256 first_name ctl_view gunzip untar).
  Notation cached_package := (cached_package b64 ctl_view gunzip untar).
  Notation cache_package := (cache_package untar).
  Notation expand_uncached := (expand_uncached sha1 sha256 b64 first_name ctl_view gunzip untar).
  Notation expand_package := (expand_package sha1 sha256 b64 first_name ctl_view gunzip untar).

  Lemma mk_ctl_raw raw c : mk_ctl raw = Some c -> c_raw c = raw.
  Proof. unfold PkgAuth.mk_ctl. destruct (ctl_view raw) as [[d dhs]|]; [|discriminate]. intro H; inversion H; reflexivity. Qed.
  Lemma mk_ctl_fix raw c : mk_ctl raw = Some c -> mk_ctl (c_raw c) = Some c.
  Proof. intro H. rewrite (mk_ctl_raw _ _ H). exact H. Qed.

  Lemma file_ok_b_iff f : file_ok_b sha1 f = true <-> file_ok f.
  Proof.
    unfold file_ok_b, PkgAuthSpec.file_ok. destruct (f_kind f); destruct (f_sum f) as [| |d]; split; intro H;
      try reflexivity; try discriminate; try (intro K; discriminate K).
    - intros _. split; [discriminate | intros d H'; discriminate].
    - destruct (H eq_refl) as [H' _]. congruence.
    - intros _. split; [discriminate|]. intros d' E. inversion E; subst. apply bytes_eqb_eq; exact H.
    - destruct (H eq_refl) as [_ H']. apply bytes_eqb_eq. apply H'. reflexivity.
  Qed.

  Lemma chain_tags_iff sfx h x : chain_tags sha1 sha256 b64 ctl_view gunzip untar sfx h x = [] <-> Chain h x.
  Proof.
    unfold chain_tags, PkgAuthSpec.Chain.
    assert (control_ok_b sha1 b64 h x = true <-> h_sum h = Some (sha1 (c_raw (x_ctl x)))) as C.
    { unfold control_ok_b. apply option_eqb_eq. exact bytes_eqb_eq. }
    assert (control_file_ok_b ctl_view x = true <->
            x_ctl_file x = c_raw (x_ctl x) /\ mk_ctl (c_raw (x_ctl x)) = Some (x_ctl x)) as Cf.
    { unfold control_file_ok_b. rewrite andb_true_iff, bytes_eqb_eq, (option_eqb_eq control_eqb control_eqb_eq). reflexivity. }
    assert (datahash_ok_b sha256 x = true <->
            forall dh, In dh (c_datahash (x_ctl x)) -> dh <> "" -> dh = hex (sha256 (d_raw (x_dat x)))) as Dh.
    { unfold datahash_ok_b. rewrite forallb_forall. split; intros H dh Hin.
      - intro NE. specialize (H dh Hin). apply orb_true_iff in H. destruct H as [H|H]; apply String.eqb_eq in H; congruence.
      - apply orb_true_iff. destruct (String.eqb dh "") eqn:E; [left; reflexivity|right].
        apply String.eqb_eq. apply H; [exact Hin|]. intro K; subst. discriminate. }
    assert (covered_b gunzip untar x = true <-> dat_view (d_raw (x_dat x)) = Some (d_files (x_dat x))) as Cv.
    { unfold covered_b. apply option_eqb_eq. apply list_eqb_spec. exact dfile_eqb_eq. }
    assert (files_ok_b sha1 x = true <-> forall f, In f (d_files (x_dat x)) -> file_ok f) as F.
    { unfold files_ok_b. rewrite forallb_forall. split; intros H f Hf; apply file_ok_b_iff; apply H; exact Hf. }
    destruct (control_ok_b sha1 b64 h x) eqn:E1; destruct (control_file_ok_b ctl_view x) eqn:E2;
      destruct (datahash_ok_b sha256 x) eqn:E3; destruct (covered_b gunzip untar x) eqn:E4; destruct (files_ok_b sha1 x) eqn:E5;
      simpl; split; intro H; try discriminate; try reflexivity;
      try (destruct H as (H1 & H2 & H3 & H4 & H5 & H6);
           first [ apply C in H1; discriminate H1
                 | (assert (false = true) as K by (apply Cf; split; assumption); discriminate K)
                 | apply Dh in H4; discriminate H4
                 | apply Cv in H5; discriminate H5
                 | apply F in H6; discriminate H6 ]).
    destruct (proj1 Cf eq_refl) as [A B].
    split; [apply C; reflexivity|]. split; [exact A|]. split; [exact B|].
    split; [apply Dh; reflexivity|]. split; [apply Cv; reflexivity | apply F; reflexivity].
  Qed.

  (* ---- the cut ---------------------------------------------------------------------
     ExpandApk accounts for every byte of the served stream: signature member (if
     any), the ONE member hashed as control section, and ALL remaining members as
     data section; nothing may follow. *)
  Lemma cut_covers a s u :
    cut_with a s = Some u ->
    s_trail s = [] /\
    List.concat (s_members s) = u_sig u ++ u_ctl u ++ u_dat u /\
    exists pre rest, s_members s = pre ++ u_ctl u :: rest /\
                     ((pre = [] /\ u_sig u = []) \/ pre = [u_sig u]) /\
                     u_dat u = List.concat rest /\ rest <> [].
  Proof.
    unfold PkgAuth.cut_with. destruct (s_trail s) as [|? ?]; [|discriminate].
    destruct (s_members s) as [|m0 rest]; [discriminate|].
    destruct (first_name m0) as [n|]; [|discriminate].
    destruct (String.prefix sign_prefix n).
    - destruct rest as [|m1 [|m2 more]]; [discriminate| |].
      + destruct a; [|discriminate]. intro H; inversion H; subst; simpl.
        split; [reflexivity|]. split; [rewrite app_nil_r; reflexivity|].
        exists [], [m1]. simpl. rewrite app_nil_r. split; [reflexivity|]. split; [left; auto|]. split; [reflexivity | discriminate].
      + intro H; inversion H; subst; simpl. split; [reflexivity|]. split; [reflexivity|].
        exists [m0], (m2 :: more). split; [reflexivity|]. split; [right; reflexivity|]. split; [reflexivity | discriminate].
    - destruct rest as [|m1 more]; [discriminate|]. intro H; inversion H; subst; simpl.
      split; [reflexivity|]. split; [reflexivity|]. exists [], (m1 :: more). split; [reflexivity|]. split; [left; auto|].
      split; [reflexivity | discriminate].
  Qed.

  (* the data branch of the loop always ran (since fix 3bc1979) *)
  Lemma cut_full s u : cut s = Some u -> u_full u = true.
  Proof.
    unfold PkgAuth.cut, PkgAuth.cut_with. destruct (s_trail s) as [|? ?]; [|discriminate].
    destruct (s_members s) as [|m0 rest]; [discriminate|].
    destruct (first_name m0) as [n|]; [|discriminate].
    destruct (String.prefix sign_prefix n) eqn:P.
    - destruct rest as [|m1 [|m2 more]]; [discriminate|discriminate|].
      intro H; inversion H; reflexivity.
    - destruct rest as [|m1 more]; [discriminate|]. intro H; inversion H; reflexivity.
  Qed.

  (* the shape of C05-F3 is refused *)
  Lemma cut_refuses_sig2 s : sig2 s = true -> cut s = None.
  Proof.
    unfold PkgAuth.cut, PkgAuth.cut_with, PkgAuth.sig2. destruct (s_trail s) as [|? ?]; [|reflexivity].
    destruct (s_members s) as [|m0 [|m1 [|m2 more]]]; try discriminate.
    destruct (first_name m0) as [n|]; [|discriminate]. intros ->. reflexivity.
  Qed.

  (* ---- the three checks ------------------------------------------------------- *)
  Lemma check_sums_ok fs : check_sums sha1 fs = true -> forall f, In f fs -> file_ok f.
  Proof.
    induction fs as [|g fs IH]; simpl; intros H f Hf; [destruct Hf|].
    assert (check_sums sha1 fs = true /\ file_ok g) as [H1 H2].
    { unfold PkgAuthSpec.file_ok. destruct (f_kind g) eqn:K;
        try (split; [exact H | intro X; discriminate X]).
      destruct (f_sum g) as [| |d] eqn:S; try discriminate.
      + split; [exact H|]. intros _. split; [discriminate | intros d E; discriminate].
      + apply andb_true_iff in H. destruct H as [Ha Hb]. split; [exact Hb|]. intros _.
        split; [discriminate|]. intros d' E. inversion E; subst. apply bytes_eqb_eq; exact Ha. }
    destruct Hf as [->|Hf]; [exact H2 | apply IH; assumption].
  Qed.

  Lemma check_sums_mismatch fs f d :
    In f fs -> f_kind f = FReg -> f_sum f = SumSome d -> d <> sha1 (f_body f) -> check_sums sha1 fs = false.
  Proof.
    intros Hf K S NE. destruct (check_sums sha1 fs) eqn:C; [|reflexivity].
    destruct (check_sums_ok fs C f Hf K) as [_ H]. exfalso. apply NE. apply H. exact S.
  Qed.

  Lemma verify_expanded_spec h ch dh c :
    verify_expanded b64 h ch dh c = true ->
    h_sum h = Some ch /\ forall v, In v (c_datahash c) -> v <> "" -> v = hex dh.
  Proof.
    unfold verify_expanded. destruct (h_sum h) as [w|]; [|discriminate]. intro H.
    apply andb_true_iff in H. destruct H as [H1 H2]. apply bytes_eqb_eq in H1; subst.
    split; [reflexivity|]. intros v Hv NE. rewrite forallb_forall in H2. specialize (H2 v Hv).
    apply orb_true_iff in H2. destruct H2 as [E|E]; apply String.eqb_eq in E; congruence.
  Qed.

  (* ---- ExpandApk ---------------------------------------------------------------------
     what comes out is decoded from, and hashed over, exactly the bytes of the cut *)
  Lemma expand_apk_spec a s e :
    expand_apk_with a s = FOk e ->
    exists u, cut_with a s = Some u /\
      c_raw (e_ctl e) = u_ctl u /\ mk_ctl (u_ctl u) = Some (e_ctl e) /\ e_ch e = sha1 (u_ctl u) /\
      e_gz e = u_dat u /\ gunzip (u_dat u) = Some (e_tar e) /\ untar (e_tar e) = Some (e_files e) /\
      (u_full u = true -> e_dh e = sha256 (u_dat u) /\ check_sums sha1 (e_files e) = true) /\
      (u_full u = false -> e_dh e = sha1 (u_dat u)) /\
      index_ok (e_files e) = true.
  Proof.
    unfold PkgAuth.expand_apk_with. destruct (cut_with a s) as [u|]; [|discriminate].
    destruct (gunzip (u_dat u)) as [t|] eqn:G; [|discriminate].
    destruct (untar t) as [fs|] eqn:U; [|discriminate].
    destruct (u_full u && negb (check_sums sha1 fs)) eqn:Ck; [discriminate|].
    destruct (index_ok fs) eqn:IO; cbn [negb]; [|discriminate].
    destruct (mk_ctl (u_ctl u)) as [c|] eqn:M; [|discriminate].
    intro H; inversion H; subst; clear H; simpl. exists u. split; [reflexivity|].
    split; [eapply mk_ctl_raw; exact M|]. split; [exact M|]. split; [reflexivity|].
    split; [reflexivity|]. split; [exact G|]. split; [exact U|].
    split; [|split; [|exact IO]]; destruct (u_full u); simpl in Ck.
    - intros _. split; [reflexivity|]. destruct (check_sums sha1 fs); [reflexivity | discriminate Ck].
    - discriminate.
    - discriminate.
    - reflexivity.
  Qed.

  (* ---- the on-disk cache -------------------------------------------------------- *)
  (* the population invariant: every member is stored under the digest of its own
     bytes; every data section stored passed the per-file check; every uncompressed
     tar is the decompression of bytes with the digest in its name, and of the
     compressed file of the same name when there is one *)
  Definition sums_pass (t : list N) : Prop := forall fs, untar t = Some fs -> check_sums sha1 fs = true.
  Definition cache_ok (k : cache) : Prop :=
    (forall s c, In (s, c) (k_ctl k) -> s = sha1 c) /\
    (forall n g, In (n, g) (k_gz k) -> n = hex (sha256 g) /\ forall t, gunzip g = Some t -> sums_pass t) /\
    (forall n t, In (n, t) (k_tar k) -> exists g, n = hex (sha256 g) /\ gunzip g = Some t /\ sums_pass t) /\
    (forall n t g, In (n, t) (k_tar k) -> assoc_s n (k_gz k) = Some g -> gunzip g = Some t).

  Lemma empty_cache_ok : cache_ok empty_cache.
  Proof. split; [|split; [|split]]; [intros ? ? H | intros ? ? H | intros ? ? H | intros ? ? ? H]; destruct H. Qed.

  (* "an existing destination wins" is harmless when it holds the same bytes:
     what collision resistance gives a content-addressed store (dst_same_of_cr) *)
  Definition dst_same (k : cache) (e : fetched) : Prop :=
    (forall c', In (e_ch e, c') (k_ctl k) -> c' = c_raw (e_ctl e)) /\
    (forall g', In (hex (e_dh e), g') (k_gz k) -> g' = e_gz e) /\
    (forall t', In (hex (e_dh e), t') (k_tar k) -> t' = e_tar e).

  (* a hit hands back what is stored under the expected names; nothing is hashed *)
  Lemma cached_package_by_name k h x k' :
    cached_package k h = (Some x, k') ->
    h_q1 h = true /\ exists sum dh t,
      h_sum h = Some sum /\ In (sum, x_ctl_file x) (k_ctl k) /\ mk_ctl (x_ctl_file x) = Some (x_ctl x) /\
      c_datahash (x_ctl x) = [dh] /\ assoc_s dh (k_gz k) = Some (d_raw (x_dat x)) /\ x_ctl_hash x = sum /\
      untar t = Some (d_files (x_dat x)) /\
      ((In (dh, t) (k_tar k) /\ k' = k) \/
       (assoc_s dh (k_tar k) = None /\ gunzip (d_raw (x_dat x)) = Some t /\
        k' = {| k_ctl := k_ctl k; k_gz := k_gz k; k_tar := (dh, t) :: k_tar k |})).
  Proof.
    unfold PkgAuth.cached_package. destruct (h_q1 h); [|discriminate].
    destruct (h_sum h) as [sum|]; [|discriminate].
    destruct (assoc_b sum (k_ctl k)) as [craw|] eqn:A; [|discriminate].
    destruct (mk_ctl craw) as [c|] eqn:M; [|discriminate].
    destruct (c_datahash c) as [|dh [|? ?]] eqn:Dh; try discriminate.
    destruct (assoc_s dh (k_gz k)) as [gz|] eqn:Ag; [|discriminate].
    destruct (is_hex dh); [|discriminate].
    apply assoc_b_in in A.
    destruct (assoc_s dh (k_tar k)) as [t|] eqn:At.
    - destruct (untar t) as [fs|] eqn:U; [|discriminate]. destruct (index_ok fs); [|discriminate]. intro H; inversion H; subst; simpl.
      split; [reflexivity|]. exists sum, dh, t. apply assoc_s_in in At. repeat split; auto.
    - destruct (gunzip gz) as [t|] eqn:G; [|discriminate].
      destruct (untar t) as [fs|] eqn:U; [|discriminate]. destruct (index_ok fs); [|discriminate]. intro H; inversion H; subst; simpl.
      split; [reflexivity|]. exists sum, dh, t. repeat split; auto.
  Qed.

  (* whatever cachedPackage leaves behind (a rebuilt .dat.tar) keeps the invariant *)
  Lemma cached_package_keeps_ok k h r k' : cache_ok k -> cached_package k h = (r, k') -> cache_ok k'.
  Proof.
    intros Ok0. unfold PkgAuth.cached_package.
    destruct (h_q1 h); [|intro H; inversion H; subst; exact Ok0].
    destruct (h_sum h) as [sum|]; [|intro H; inversion H; subst; exact Ok0].
    destruct (assoc_b sum (k_ctl k)) as [craw|]; [|intro H; inversion H; subst; exact Ok0].
    destruct (mk_ctl craw) as [c|]; [|intro H; inversion H; subst; exact Ok0].
    destruct (c_datahash c) as [|dh [|? ?]]; try (intro H; inversion H; subst; exact Ok0).
    destruct (assoc_s dh (k_gz k)) as [gz|] eqn:Ag; [|intro H; inversion H; subst; exact Ok0].
    destruct (is_hex dh); [|intro H; inversion H; subst; exact Ok0].
    destruct (assoc_s dh (k_tar k)) as [t|]; [intro H; inversion H; subst; exact Ok0|].
    destruct (gunzip gz) as [t|] eqn:G; [|intro H; inversion H; subst; exact Ok0].
    destruct Ok0 as (Kc & Kg & Kt & Kp). intro H; inversion H; subst; clear H. pose proof (assoc_s_in _ _ _ Ag) as Ig. destruct (Kg _ _ Ig) as [Kn Ks].
    split; [exact Kc|]. split; [exact Kg|]. simpl. split.
    - intros n t' [E|Hin]; [|apply Kt; exact Hin].
      injection E as En Et. subst n t'. exists gz. split; [exact Kn|]. split; [exact G | apply Ks; exact G].
    - intros n t' g [E|Hin] Hg; [|eapply Kp; eauto]. injection E as En Et. subst n t'. rewrite Ag in Hg. injection Hg as <-. exact G.
  Qed.

  Lemma cached_package_chain k h x k' : cache_ok k -> cached_package k h = (Some x, k') -> Chain h x.
  Proof.
    intros (Kc & Kg & Kt & Kp) H. apply cached_package_by_name in H.
    destruct H as (_ & sum & dh & t & Hs & Ic & M & Dh & Ag & _ & U & T).
    specialize (Kc _ _ Ic). destruct (Kg _ _ (assoc_s_in _ _ _ Ag)) as [Kn Ks].
    pose proof (mk_ctl_raw _ _ M) as R.
    split; [rewrite Hs, Kc, R; reflexivity|]. split; [symmetry; exact R|]. split; [eapply mk_ctl_fix; exact M|].
    split; [intros v Hv _; rewrite Dh in Hv; destruct Hv as [<-|[]]; exact Kn|].
    assert (gunzip (d_raw (x_dat x)) = Some t) as G.
    { destruct T as [[It _]|(_ & G & _)]; [eapply Kp; eauto | exact G]. }
    split; [unfold PkgAuth.dat_view; rewrite G; exact U | apply check_sums_ok; eapply Ks; eauto].
  Qed.

  Lemma adv_s_other {A} n (v : A) l m : m <> n -> assoc_s m (adv_s n v l) = assoc_s m l.
  Proof.
    intro NE. unfold adv_s. destruct (assoc_s n l); [reflexivity|]. simpl.
    destruct (String.eqb m n) eqn:E; [apply String.eqb_eq in E; contradiction | reflexivity].
  Qed.

  (* cachePackage of a package that went through the data branch of ExpandApk *)
  Lemma cache_package_spec k e :
    cache_ok k -> dst_same k e ->
    e_ch e = sha1 (c_raw (e_ctl e)) -> e_dh e = sha256 (e_gz e) ->
    gunzip (e_gz e) = Some (e_tar e) -> untar (e_tar e) = Some (e_files e) -> check_sums sha1 (e_files e) = true ->
    index_ok (e_files e) = true ->
    forall k' x, cache_package k e = (k', x) ->
      cache_ok k' /\
      x = Some {| x_ctl := e_ctl e; x_ctl_file := c_raw (e_ctl e);
                  x_dat := {| d_raw := e_gz e; d_files := e_files e |}; x_ctl_hash := e_ch e |}.
  Proof.
    intros (Kc & Kg & Kt & Kp) (Sc & Sg & St) Hch Hdh G U Cs IO k' x H. unfold PkgAuth.cache_package in H.
    set (n := hex (e_dh e)) in *.
    assert (sums_pass (e_tar e)) as SP by (intros fs E; rewrite U in E; inversion E; subst; exact Cs).
    destruct (adv_b_get (e_ch e) (c_raw (e_ctl e)) (k_ctl k)) as (cw & Ac & Hc).
    destruct (adv_s_get n (e_gz e) (k_gz k)) as (gw & Ag & Hg).
    destruct (adv_s_get n (e_tar e) (k_tar k)) as (tw & At & Ht).
    assert (cw = c_raw (e_ctl e)) as -> by (destruct Hc as [Hc|Hc]; [apply Sc; exact Hc | exact Hc]).
    assert (gw = e_gz e) as -> by (destruct Hg as [Hg|Hg]; [apply Sg; exact Hg | exact Hg]).
    assert (tw = e_tar e) as -> by (destruct Ht as [Ht|Ht]; [apply St; exact Ht | exact Ht]).
    inversion H; subst k' x; clear H. cbn [k_ctl k_gz k_tar]. rewrite Ac, Ag, At, U, IO. split; [|reflexivity].
    split; [|split; [|split]].
    - intros s c Hin. apply adv_b_in in Hin. destruct Hin as [Hin|(-> & -> & _)]; [apply Kc; exact Hin | exact Hch].
    - intros m g Hin. apply adv_s_in in Hin. destruct Hin as [Hin|(-> & -> & _)]; [apply Kg; exact Hin|].
      split; [unfold n; rewrite Hdh; reflexivity|]. intros t Ht'. rewrite G in Ht'. inversion Ht'; subst. exact SP.
    - intros m t Hin. apply adv_s_in in Hin. destruct Hin as [Hin|(-> & -> & _)]; [apply Kt; exact Hin|].
      exists (e_gz e). split; [unfold n; rewrite Hdh; reflexivity|]. split; [exact G | exact SP].
    - intros m t g Hin Hgz. cbn [k_ctl k_gz k_tar] in Hin, Hgz. destruct (String.eqb m n) eqn:E.
      + apply String.eqb_eq in E; subst m. rewrite Ag in Hgz. inversion Hgz; subst g.
        apply adv_s_in in Hin. destruct Hin as [Hin|(_ & -> & _)]; [rewrite (St _ Hin)|]; exact G.
      + assert (m <> n) as NE by (intro K; subst; rewrite String.eqb_refl in E; discriminate).
        rewrite (adv_s_other _ _ _ _ NE) in Hgz.
        apply adv_s_in in Hin. destruct Hin as [Hin|(K & _)]; [eapply Kp; eauto | contradiction].
  Qed.

  Definition opt_cache_ok (k : option cache) : Prop := match k with Some kc => cache_ok kc | None => True end.
  Definition opt_dst_same (k : option cache) (s : option stream) : Prop :=
    match k, s with Some kc, Some st => forall e, expand_apk st = FOk e -> dst_same kc e | _, _ => True end.

  (* a .dat.tar rebuilt during the lookup does not disturb "same destination" *)
  Lemma dst_same_after_lookup k h r k' e :
    cached_package k h = (r, k') -> gunzip (e_gz e) = Some (e_tar e) -> dst_same k e -> dst_same k' e.
  Proof.
    intros H G DS. unfold PkgAuth.cached_package in H.
    destruct (h_q1 h); [|inversion H; subst; exact DS].
    destruct (h_sum h) as [sum|]; [|inversion H; subst; exact DS].
    destruct (assoc_b sum (k_ctl k)) as [craw|]; [|inversion H; subst; exact DS].
    destruct (mk_ctl craw) as [c|]; [|inversion H; subst; exact DS].
    destruct (c_datahash c) as [|dh [|? ?]]; try (inversion H; subst; exact DS).
    destruct (assoc_s dh (k_gz k)) as [gz|] eqn:Ag; [|inversion H; subst; exact DS].
    destruct (is_hex dh); [|inversion H; subst; exact DS].
    destruct (assoc_s dh (k_tar k)) as [t|]; [inversion H; subst; exact DS|].
    destruct (gunzip gz) as [t|] eqn:Gz; [|inversion H; subst; exact DS].
    destruct DS as (Sc & Sg & St). inversion H; subst; clear H. split; [exact Sc|]. split; [exact Sg|]. simpl.
    intros t' [E|Hin]; [|apply St; exact Hin]. injection E as En Et. subst t'.
    apply assoc_s_in in Ag. rewrite En in Ag. rewrite (Sg _ Ag) in Gz. rewrite G in Gz. injection Gz as <-. reflexivity.
  Qed.

  (* ---- expandPackage ------------------------------------------------------------- *)
  Lemma expand_uncached_chain k h served x k' :
    opt_cache_ok k -> opt_dst_same k served ->
    expand_uncached k h served = (XOk x, k') -> Chain h x /\ opt_cache_ok k'.
  Proof.
    intros Ok Same. unfold PkgAuth.expand_uncached.
    destruct (match k with
              | Some kc => let (x0, kc1) := cached_package kc h in (x0, Some kc1)
              | None => (None, None) end) as [hit k1] eqn:L.
    assert (opt_cache_ok k1 /\ (forall x0, hit = Some x0 -> Chain h x0) /\
            (forall kc1 s e, k1 = Some kc1 -> served = Some s -> expand_apk s = FOk e -> dst_same kc1 e)) as (Ok1 & Hit & Same1).
    { destruct k as [kc|].
      - destruct (cached_package kc h) as [x0 kc1] eqn:CP. inversion L; subst.
        split; [eapply cached_package_keeps_ok; eauto|]. split.
        + intros x1 ->. eapply cached_package_chain; eauto.
        + intros kc2 s e E1 -> EA. inversion E1; subst. destruct (expand_apk_spec _ _ _ EA) as (u & _ & _ & _ & _ & Eg & G & _).
          eapply dst_same_after_lookup; [exact CP | rewrite Eg; exact G | apply Same; exact EA].
      - inversion L; subst. split; [exact I|]. split; [intros ? K; discriminate K | intros ? ? ? K; discriminate K]. }
    destruct hit as [x0|].
    - intro H. inversion H; subst. split; [apply Hit; reflexivity | exact Ok1].
    - destruct served as [s|]; [|discriminate].
      destruct (expand_apk s) as [e|c] eqn:EA; [|discriminate].
      destruct (verify_expanded b64 h (e_ch e) (e_dh e) (e_ctl e)) eqn:V; cbn [negb]; [|discriminate].
      apply verify_expanded_spec in V. destruct V as [V1 V2].
      destruct (expand_apk_spec _ _ _ EA) as (u & Cu & Er & M & Ech & Eg & G & U & Full & _ & IO).
      destruct (Full (cut_full _ _ Cu)) as [Edh Cs].
      assert (Chain h {| x_ctl := e_ctl e; x_ctl_file := c_raw (e_ctl e);
                         x_dat := {| d_raw := e_gz e; d_files := e_files e |}; x_ctl_hash := e_ch e |}) as CH.
      { unfold PkgAuthSpec.Chain; simpl. split; [rewrite V1, Ech, Er; reflexivity|]. split; [reflexivity|].
        split; [rewrite Er; exact M|]. split; [intros v Hv NE; rewrite (V2 v Hv NE), Edh, Eg; reflexivity|].
        split; [unfold PkgAuth.dat_view; rewrite Eg, G; exact U | apply check_sums_ok; exact Cs]. }
      destruct k1 as [kc1|].
      + destruct (cache_package kc1 e) as [kc' xo] eqn:CP.
        assert (cache_ok kc' /\ xo = Some {| x_ctl := e_ctl e; x_ctl_file := c_raw (e_ctl e);
                  x_dat := {| d_raw := e_gz e; d_files := e_files e |}; x_ctl_hash := e_ch e |}) as [Ok' ->].
        { eapply cache_package_spec; try exact CP; try assumption.
          - eapply Same1; eauto.
          - rewrite Ech, Er; reflexivity.
          - rewrite Edh, Eg; reflexivity.
          - rewrite Eg; exact G. }
        intro H; inversion H; subst. split; [exact CH | exact Ok'].
      + intro H; inversion H; subst. split; [exact CH | exact I].
  Qed.

  Lemma expand_uncached_keeps_cache_ok k h served r k' :
    opt_cache_ok k -> opt_dst_same k served ->
    expand_uncached k h served = (r, k') -> opt_cache_ok k'.
  Proof.
    intros Ok Same H. destruct r as [x|e]; [eapply expand_uncached_chain; eauto|].
    unfold PkgAuth.expand_uncached in H.
    destruct (match k with
              | Some kc => let (x0, kc1) := cached_package kc h in (x0, Some kc1)
              | None => (None, None) end) as [hit k1] eqn:L.
    assert (opt_cache_ok k1) as Ok1.
    { destruct k as [kc|]; [|inversion L; subst; exact I].
      destruct (cached_package kc h) as [x0 kc1] eqn:CP. inversion L; subst. eapply cached_package_keeps_ok; eauto. }
    destruct hit; [discriminate|].
    destruct served as [s|]; [|inversion H; subst; exact Ok1].
    destruct (expand_apk s) as [e0|c] eqn:EA; [|inversion H; subst; exact Ok1].
    destruct (negb (verify_expanded b64 h (e_ch e0) (e_dh e0) (e_ctl e0))); [inversion H; subst; exact Ok1|].
    destruct k1 as [kc1|]; [|discriminate].
    (* cachePackage ran and re-opening the tar failed: the cache was written all the same *)
    destruct (cache_package kc1 e0) as [kc' xo] eqn:CP. inversion H; subst; clear H.
    destruct (expand_apk_spec _ _ _ EA) as (u & Cu & Er & M & Ech & Eg & G & U & Full & _ & IO).
    destruct (Full (cut_full _ _ Cu)) as [Edh Cs].
    assert (dst_same kc1 e0) as DS.
    { destruct k as [kc|]; [|discriminate L]. destruct (cached_package kc h) as [x0 kc2] eqn:CP0. inversion L; subst.
      eapply dst_same_after_lookup; [exact CP0 | rewrite Eg; exact G | apply Same; exact EA]. }
    eapply cache_package_spec; try exact CP; try assumption.
    - rewrite Ech, Er; reflexivity.
    - rewrite Edh, Eg; reflexivity.
    - rewrite Eg; exact G.
  Qed.

  (* a per-file mismatch aborts the fetch path (when the data branch of ExpandApk ran) *)
  Lemma expand_apk_file_mismatch s u t fs f d :
    cut s = Some u -> u_full u = true -> gunzip (u_dat u) = Some t -> untar t = Some fs ->
    In f fs -> f_kind f = FReg -> f_sum f = SumSome d -> d <> sha1 (f_body f) ->
    expand_apk s = FErr ESums.
  Proof.
    intros Cu Fu G U Hf K S NE. unfold PkgAuth.expand_apk, PkgAuth.expand_apk_with. unfold PkgAuth.cut in Cu. rewrite Cu, G, U, Fu.
    rewrite (check_sums_mismatch _ f d Hf K S NE). reflexivity.
  Qed.

  (* Chain depends on the handle only through the checksum it records *)
  Lemma chain_same_sum h h' x : h_sum h = h_sum h' -> Chain h x -> Chain h' x.
  Proof. unfold PkgAuthSpec.Chain. intros E (A & B). rewrite <- E. auto. Qed.

  (* the process memo: every stored success satisfies the chain for the request
     (URL, checksum string) it is stored under *)
  Definition memo_inv (m : memo) : Prop :=
    forall key r x, assoc_k key m = Some r -> r = XOk x ->
      exists h0, memo_key h0 = key /\ Chain h0 x.

  Lemma key_eqb_eq a b : key_eqb a b = true <-> a = b.
  Proof.
    unfold key_eqb. destruct a as [a1 a2], b as [b1 b2]; simpl.
    rewrite andb_true_iff, !String.eqb_eq. split; [intros [-> ->]; reflexivity | intro H; inversion H; auto].
  Qed.

  Lemma expand_package_chain m k h served r k' m' :
    memo_inv m -> opt_cache_ok k -> opt_dst_same k served ->
    expand_package m k h served = (r, k', m') ->
    (forall x, r = XOk x -> Chain h x) /\ opt_cache_ok k' /\ memo_inv m'.
  Proof.
    intros MI Ok Same. unfold PkgAuth.expand_package. destruct k as [kc|].
    - destruct (assoc_k (memo_key h) m) as [r0|] eqn:A.
      + intro H. inversion H; subst. split; [|split; assumption].
        intros x E. destruct (MI _ _ x A E) as (h0 & K0 & C0).
        eapply chain_same_sum; [|exact C0]. unfold memo_key in K0. inversion K0 as [[Hu Hc]].
        unfold PkgAuth.h_sum. rewrite Hc. reflexivity.
      + destruct (expand_uncached (Some kc) h served) as [r1 k1] eqn:EU.
        intro H. inversion H; subst.
        assert (forall x, r = XOk x -> Chain h x) as CH.
        { intros x E; subst. eapply expand_uncached_chain; eauto. }
        split; [exact CH|]. split; [eapply expand_uncached_keeps_cache_ok; eauto|].
        (* only a success is stored (fix 6e5c862: a failed expansion is forgotten) *)
        destruct r as [xr|er]; [|exact MI].
        intros u r2 x A2 E2. simpl in A2. destruct (key_eqb u (memo_key h)) eqn:Eu.
        * apply key_eqb_eq in Eu; subst u. inversion A2; subst. exists h. split; [reflexivity | apply CH; assumption].
        * eapply MI; eauto.
    - destruct (expand_uncached None h served) as [r1 k1] eqn:EU.
      intro H. inversion H; subst. split; [|split; [eapply expand_uncached_keeps_cache_ok; eauto | exact MI]].
      intros x E; subst. eapply expand_uncached_chain; eauto.
  Qed.

  (* ---- what the hashes cover --------------------------------------------------------
     ExpandApk accounts for every byte served: [signature member] ++ the ONE member
     hashed as control section ++ ALL remaining members, hashed together as data
     section; nothing may follow them. What it hands on is decoded from exactly
     those bytes. *)
  Lemma hashes_cover_members s e :
    expand_apk s = FOk e ->
    s_trail s = [] /\
    (exists pre rest, s_members s = pre ++ c_raw (e_ctl e) :: rest /\ (pre = [] \/ exists sg, pre = [sg]) /\
                      rest <> [] /\ e_gz e = List.concat rest) /\
    e_ch e = sha1 (c_raw (e_ctl e)) /\ mk_ctl (c_raw (e_ctl e)) = Some (e_ctl e) /\
    dat_view (e_gz e) = Some (e_files e) /\ gunzip (e_gz e) = Some (e_tar e) /\
    e_dh e = sha256 (e_gz e) /\ check_sums sha1 (e_files e) = true.
  Proof.
    intro H. destruct (expand_apk_spec _ _ _ H) as (u & Cu & Er & M & Ech & Eg & G & U & Full & _).
    destruct (cut_covers _ _ _ Cu) as (T & _ & pre & rest & Hm & Hp & Hd & Hn).
    split; [exact T|]. split.
    - exists pre, rest. rewrite Er, Eg. split; [exact Hm|]. split; [|split; assumption].
      destruct Hp as [[-> _]| ->]; [left; reflexivity | right; eexists; reflexivity].
    - split; [rewrite Ech, Er; reflexivity|]. split; [rewrite Er; exact M|].
      split; [unfold PkgAuth.dat_view; rewrite Eg, G; exact U|]. split; [rewrite Eg; exact G|].
      rewrite Eg. apply Full. eapply cut_full; eauto.
  Qed.

  (* ---- collision resistance, stated as hypotheses on the oracles ------------------- *)
  Section CR.
    Hypothesis cr1 : forall a b, sha1 a = sha1 b -> a = b.
    Hypothesis cr256 : forall a b, hex (sha256 a) = hex (sha256 b) -> a = b.

    (* content addressing: an existing destination of cachePackage holds the same bytes *)
    Lemma dst_same_of_cr k s e : cache_ok k -> expand_apk s = FOk e -> dst_same k e.
    Proof.
      intros (Kc & Kg & Kt & _) H.
      destruct (hashes_cover_members _ _ H) as (_ & _ & Ech & _ & _ & G & Edh & _).
      split; [|split].
      - intros c' Hin. apply Kc in Hin. symmetry. apply cr1. rewrite <- Ech. exact Hin.
      - intros g' Hin. apply Kg in Hin. destruct Hin as [Hn _]. symmetry. apply cr256. rewrite <- Edh. exact Hn.
      - intros t' Hin. apply Kt in Hin. destruct Hin as (g & Hn & Hg & _).
        assert (e_gz e = g) as E by (apply cr256; rewrite <- Edh; exact Hn).
        rewrite <- E in Hg. rewrite G in Hg. injection Hg as <-. reflexivity.
    Qed.

    Lemma opt_dst_same_of_cr k served : opt_cache_ok k -> opt_dst_same k served.
    Proof.
      destruct k as [kc|], served as [s|]; simpl; try (intros; exact I).
      intros Ok e H. eapply dst_same_of_cr; eauto.
    Qed.

    (* the chain pins the installed members to the ones the index entry describes:
       [gc] = the control member whose SHA-1 the handle records, [gd] = the data
       bytes whose SHA-256 a non-empty datahash of [gc] records *)
    Lemma chain_pins_bytes h x gc cg dh gd :
      h_sum h = Some (sha1 gc) -> mk_ctl gc = Some cg -> In dh (c_datahash cg) -> dh <> "" -> dh = hex (sha256 gd) ->
      Chain h x ->
      x_ctl x = cg /\ x_ctl_file x = gc /\ d_raw (x_dat x) = gd /\ dat_view gd = Some (d_files (x_dat x)).
    Proof.
      intros Hs M Hin NE Hd (A & B & C & D & E & _).
      assert (c_raw (x_ctl x) = gc) as R by (apply cr1; rewrite Hs in A; injection A as <-; reflexivity).
      rewrite R in C, B. rewrite M in C. injection C as C. subst cg.
      assert (d_raw (x_dat x) = gd) as Rd by (apply cr256; rewrite <- Hd; symmetry; apply D; assumption).
      rewrite Rd in E. auto.
    Qed.
  End CR.
End WithOracles.

(* ---- installation ------------------------------------------------------------- *)
(* whatever is installed under a name is the body of a regular entry of that name, or
   the name is a hard-link entry's and the bytes are those of an earlier name *)
Lemma install_files_sound lazy (P : list N -> Prop) : forall fs seen out,
  install_files lazy seen fs = Some out ->
  (forall n b, In (n, b) seen -> P b) ->
  (forall f, In f fs -> f_kind f = FReg -> P (f_body f)) ->
  forall n b, In (n, b) out ->
    exists f, In f fs /\ f_name f = n /\ ((f_kind f = FReg /\ f_body f = b) \/ (f_kind f = FLink /\ P b)).
Proof.
  induction fs as [|f fs IH]; simpl; intros seen out H Hs Hr n b Hin; [inversion H; subst; destruct Hin|].
  assert (forall g, In g fs -> f_kind g = FReg -> P (f_body g)) as Hr' by (intros g Hg; apply Hr; right; exact Hg).
  assert (forall seen' out', install_files lazy seen' fs = Some out' -> (forall n b, In (n, b) seen' -> P b) -> In (n, b) out' ->
            exists f0, In f0 (f :: fs) /\ f_name f0 = n /\ ((f_kind f0 = FReg /\ f_body f0 = b) \/ (f_kind f0 = FLink /\ P b))) as Tail.
  { intros seen' out' H' Hs' Hin'. destruct (IH _ _ H' Hs' Hr' _ _ Hin') as (f0 & I0 & R0). exists f0. split; [right; exact I0 | exact R0]. }
  destruct (f_kind f) eqn:K.
  - (* regular *)
    destruct (match f_sum f with SumBad => false | SumNone => negb lazy | SumSome _ => true end); [|discriminate].
    destruct (install_files lazy ((f_name f, f_body f) :: seen) fs) as [o|] eqn:R; [|discriminate]. inversion H; subst.
    destruct Hin as [E|Hin].
    + inversion E; subst. exists f. split; [left; reflexivity|]. split; [reflexivity | left; auto].
    + eapply Tail; [exact R | | exact Hin]. intros n' b' [E|I']; [inversion E; subst; apply Hr; [left; reflexivity | exact K] | eapply Hs; eauto].
  - destruct (match f_sum f with SumSome _ => true | _ => negb lazy end); [|discriminate]. eapply Tail; eauto.
  - eapply Tail; eauto.
  - (* hard link *)
    destruct (assoc_s (f_link f) seen) as [bt|] eqn:A; [|discriminate].
    destruct (install_files lazy ((f_name f, bt) :: seen) fs) as [o|] eqn:R; [|discriminate]. inversion H; subst.
    assert (P bt) as Pb by (eapply Hs; apply assoc_s_in; exact A).
    destruct Hin as [E|Hin].
    + inversion E; subst. exists f. split; [left; reflexivity|]. split; [reflexivity | right; auto].
    + eapply Tail; [exact R | | exact Hin]. intros n' b' [E|I']; [inversion E; subst; exact Pb | eapply Hs; eauto].
  - discriminate.
Qed.

(* the two install paths: whenever the lazy install succeeds the streaming install
   succeeds with the same bytes ... *)
Lemma lazy_implies_streaming : forall fs seen out,
  install_files true seen fs = Some out -> install_files false seen fs = Some out.
Proof.
  induction fs as [|f fs IH]; simpl; intros seen out H; [exact H|].
  destruct (f_kind f).
  - destruct (f_sum f); simpl in *; try discriminate.
    destruct (install_files true ((f_name f, f_body f) :: seen) fs) as [o|] eqn:R; [|discriminate].
    rewrite (IH _ _ R). exact H.
  - destruct (f_sum f); simpl in *; try discriminate. apply IH; exact H.
  - apply IH; exact H.
  - destruct (assoc_s (f_link f) seen) as [bt|]; [|discriminate].
    destruct (install_files true ((f_name f, bt) :: seen) fs) as [o|] eqn:R; [|discriminate].
    rewrite (IH _ _ R). exact H.
  - discriminate.
Qed.

(* ... and when only the streaming install succeeds, a regular file or a symlink
   lacks a (decodable) recorded checksum: the lazy install refuses what the streaming
   install recomputes (regular file) or never looks at (symlink) *)
Lemma streaming_only : forall fs seen out,
  install_files false seen fs = Some out -> install_files true seen fs = None ->
  exists f, In f fs /\ ((f_kind f = FReg /\ f_sum f = SumNone) \/ (f_kind f = FSym /\ forall d, f_sum f <> SumSome d)).
Proof.
  induction fs as [|f fs IH]; simpl; intros seen out H L; [discriminate|].
  assert (forall seen' out', install_files false seen' fs = Some out' -> install_files true seen' fs = None ->
            exists f0, In f0 (f :: fs) /\ ((f_kind f0 = FReg /\ f_sum f0 = SumNone) \/ (f_kind f0 = FSym /\ forall d, f_sum f0 <> SumSome d))) as Tail.
  { intros seen' out' H' L'. destruct (IH _ _ H' L') as (f0 & I0 & R0). exists f0. split; [right; exact I0 | exact R0]. }
  destruct (f_kind f) eqn:K.
  - destruct (f_sum f) eqn:S; simpl in *; try discriminate.
    + exists f. split; [left; reflexivity | left; auto].
    + destruct (install_files false ((f_name f, f_body f) :: seen) fs) as [o|] eqn:R; [|discriminate].
      destruct (install_files true ((f_name f, f_body f) :: seen) fs) as [o'|] eqn:R'; [discriminate|]. eapply Tail; eauto.
  - destruct (f_sum f) eqn:S; simpl in *.
    + exists f. split; [left; reflexivity | right; split; [exact K | intros d E; rewrite S in E; discriminate]].
    + exists f. split; [left; reflexivity | right; split; [exact K | intros d E; rewrite S in E; discriminate]].
    + eapply Tail; eauto.
  - eapply Tail; eauto.
  - destruct (assoc_s (f_link f) seen) as [bt|]; [|discriminate].
    destruct (install_files false ((f_name f, bt) :: seen) fs) as [o|] eqn:R; [|discriminate].
    destruct (install_files true ((f_name f, bt) :: seen) fs) as [o'|] eqn:R'; [discriminate|]. eapply Tail; eauto.
  - discriminate.
Qed.

(* lazy install: a regular file or symlink without a recorded checksum aborts *)
Lemma lazy_missing_aborts : forall fs seen f,
  In f fs -> (f_kind f = FReg \/ f_kind f = FSym) -> f_sum f = SumNone -> install_files true seen fs = None.
Proof.
  induction fs as [|g fs IH]; intros seen f Hf K S; [destruct Hf|]. simpl.
  destruct Hf as [->|Hf].
  - rewrite S. destruct K as [K|K]; rewrite K; reflexivity.
  - destruct (f_kind g); try reflexivity.
    + destruct (f_sum g); simpl; try reflexivity. rewrite (IH _ f Hf K S). reflexivity.
    + destruct (f_sum g); simpl; try reflexivity. apply (IH _ f Hf K S).
    + apply (IH _ f Hf K S).
    + destruct (assoc_s (f_link g) seen); [|reflexivity]. rewrite (IH _ f Hf K S). reflexivity.
Qed.

(* streaming install: a missing checksum of a regular file is recomputed — the
   outcome is the one for the package that records the right checksum there *)
Section Fill.
  Variable sha1 : list N -> list N.
  Definition fill (f : dfile) : dfile :=
    match f_kind f, f_sum f with
    | FReg, SumNone => {| f_name := f_name f; f_kind := FReg; f_body := f_body f; f_sum := SumSome (sha1 (f_body f)); f_link := f_link f; f_sparse := f_sparse f |}
    | _, _ => f
    end.
  Lemma fill_proj f :
    f_kind (fill f) = f_kind f /\ f_name (fill f) = f_name f /\ f_body (fill f) = f_body f /\ f_link (fill f) = f_link f /\
    (f_sum (fill f) = f_sum f \/ (f_kind f = FReg /\ f_sum f = SumNone /\ f_sum (fill f) = SumSome (sha1 (f_body f)))).
  Proof. unfold fill. destruct (f_kind f) eqn:K, (f_sum f) eqn:S; simpl; rewrite ?K, ?S; auto 10. Qed.
  Lemma streaming_recomputes : forall fs seen,
    install_files false seen (List.map fill fs) = install_files false seen fs.
  Proof.
    induction fs as [|f fs IH]; intros seen; [reflexivity|]. simpl.
    destruct (fill_proj f) as (Pk & Pn & Pb & Pl & Ps). rewrite Pk, Pn, Pb, Pl.
    destruct Ps as [Ps|(K & S & Ps)]; rewrite Ps.
    - destruct (f_kind f); destruct (f_sum f); simpl; rewrite ?IH; try reflexivity;
        destruct (assoc_s (f_link f) seen); rewrite ?IH; reflexivity.
    - rewrite K, S. simpl. rewrite IH. reflexivity.
  Qed.
  (* ... and the per-file check of ExpandApk passes for the filled package exactly when
     it passes for the original: a missing record is never compared *)
  Lemma fill_check_sums : forall fs, check_sums sha1 (List.map fill fs) = check_sums sha1 fs.
  Proof.
    induction fs as [|f fs IH]; [reflexivity|]. simpl.
    destruct (fill_proj f) as (Pk & Pn & Pb & Pl & Ps). rewrite Pk, Pb.
    destruct Ps as [Ps|(K & S & Ps)]; rewrite Ps.
    - rewrite IH. reflexivity.
    - rewrite K, S, IH, bytes_eqb_refl. reflexivity.
  Qed.
End Fill.

(* hard links and symlinks: checkSums never looks at them, so the per-file records
   authenticate nothing about them — two data sections that differ only in where
   their links point pass or fail the per-file check together *)
Definition same_but_links (a b : dfile) : Prop :=
  f_kind a = f_kind b /\ f_name a = f_name b /\ f_body a = f_body b /\ f_sum a = f_sum b.
Lemma check_sums_ignores_links sha1 : forall fs gs,
  Forall2 same_but_links fs gs -> check_sums sha1 fs = check_sums sha1 gs.
Proof.
  induction 1 as [|a b fs gs (K & _ & B & S) _ IH]; [reflexivity|]. simpl. rewrite <- K, <- B, <- S, IH. reflexivity.
Qed.

(* ---- end to end -------------------------------------------------------------------- *)
Section EndToEnd.
  Variable sha1 : list N -> list N.
  Variable sha256 : list N -> list N.
  Variable b64 : string -> option (list N).
  Variable first_name : list N -> option string.
  Variable ctl_view : list N -> option (string * string).
  Variable gunzip : list N -> option (list N).
  Variable untar : list N -> option (list dfile).
  Hypothesis cr1 : forall a b, sha1 a = sha1 b -> a = b.
  Hypothesis cr256 : forall a b, hex (sha256 a) = hex (sha256 b) -> a = b.

  (* [gc]: the control member whose SHA-1 the handle records; [gd]: the data bytes whose
     SHA-256 a non-empty datahash inside [gc] records. Whatever path the package took
     (fetched without a cache, fetched into a cold cache, warm cache hit, process memo):
     what is installed is the install of exactly [gd]'s entries. *)
  Lemma end_to_end m k h served x k' m' lazy out gc cg dh gd :
    memo_inv sha1 sha256 b64 ctl_view gunzip untar m -> opt_cache_ok sha1 sha256 gunzip untar k ->
    expand_package sha1 sha256 b64 first_name ctl_view gunzip untar m k h served = (XOk x, k', m') ->
    install lazy x = Some out ->
    h_sum b64 h = Some (sha1 gc) -> mk_ctl ctl_view gc = Some cg ->
    In dh (c_datahash cg) -> dh <> "" -> dh = hex (sha256 gd) ->
    (x_ctl x = cg /\ x_ctl_file x = gc /\ d_raw (x_dat x) = gd) /\
    (exists fs, dat_view gunzip untar gd = Some fs /\ d_files (x_dat x) = fs /\
       (forall f, In f fs -> file_ok sha1 f) /\
       install_files lazy [] (data_section fs) = Some out /\
       forall n b, In (n, b) out ->
         exists f, In f fs /\ f_kind f = FReg /\ f_body f = b /\
                   (f_name f = n \/ exists l, In l fs /\ f_kind l = FLink /\ f_name l = n)) /\
    opt_cache_ok sha1 sha256 gunzip untar k' /\ memo_inv sha1 sha256 b64 ctl_view gunzip untar m'.
  Proof.
    intros MI Ok EP Inst Hs M Hin NE Hd.
    destruct (expand_package_chain sha1 sha256 b64 first_name ctl_view gunzip untar m k h served (XOk x) k' m' MI Ok
                (opt_dst_same_of_cr sha1 sha256 first_name ctl_view gunzip untar cr1 cr256 k served Ok) EP) as (CH & Ok' & MI').
    specialize (CH x eq_refl).
    destruct (chain_pins_bytes sha1 sha256 b64 ctl_view gunzip untar cr1 cr256 h x gc cg dh gd Hs M Hin NE Hd CH) as (E1 & E2 & E3 & E4).
    split; [auto|]. split; [|auto].
    exists (d_files (x_dat x)). split; [exact E4|]. split; [reflexivity|].
    destruct CH as (_ & _ & _ & _ & _ & Fok). split; [exact Fok|]. split; [exact Inst|].
    intros n b Hb. unfold install in Inst.
    assert (forall g, In g (data_section (d_files (x_dat x))) -> In g (d_files (x_dat x))) as Sub.
    { generalize (d_files (x_dat x)). induction l as [|a l IH]; simpl; [auto|].
      destruct (hidden a); [intros g Hg; right; apply IH; exact Hg | auto]. }
    destruct (install_files_sound lazy
                (fun b0 => exists f, In f (data_section (d_files (x_dat x))) /\ f_kind f = FReg /\ f_body f = b0)
                _ _ _ Inst) with (n := n) (b := b) as (f & If & Nf & Rf); [intros ? ? [] | | exact Hb |].
    - intros f Hf K. exists f. auto.
    - destruct Rf as [[K B]|[K (g & Ig & Kg & Bg)]].
      + exists f. split; [apply Sub; exact If|]. auto.
      + exists g. split; [apply Sub; exact Ig|]. split; [exact Kg|]. split; [exact Bg|].
        right. exists f. split; [apply Sub; exact If|]. auto.
  Qed.
End EndToEnd.

(* ---- concrete oracles for witnesses and examples ---------------------------------------- *)
Definition idf (b : list N) : list N := b.
Definition wit_b64 (s : string) : option (list N) :=
  if String.eqb s "1" then Some [1]%N else if String.eqb s "2" then Some [2]%N else if String.eqb s "9" then Some [9]%N else None.
(* member [9] starts with a .SIGN.* entry, every other member with .PKGINFO *)
Definition wit_first (r : list N) : option string := if bytes_eqb r [9]%N then Some ".SIGN.RSA.k" else Some ".PKGINFO".
Definition wit_ctl (r : list N) : option (string * string) := Some ("", "").
Definition wit_gunzip (r : list N) : option (list N) := Some r.
(* tar [6] holds one regular file whose body [7] disagrees with its recorded checksum [8] *)
Definition wit_untar (t : list N) : option (list dfile) :=
  if bytes_eqb t [6]%N then Some [{| f_name := "f"; f_kind := FReg; f_body := [7]%N; f_sum := SumSome [8]%N; f_link := ""; f_sparse := false |}]
  else Some [].
Notation wit_expand_package := (expand_package idf idf wit_b64 wit_first wit_ctl wit_gunzip wit_untar).
Notation wit_Chain := (Chain idf idf wit_b64 wit_ctl wit_gunzip wit_untar).

(* the two earlier memo keys (fixed findings C05-F1 / C05-F2), as regression
   witnesses: two different requests that the earlier key shapes identified, the
   second of which a fresh expansion refuses, while the pair key keeps them apart *)
Definition wit_apk : stream := {| s_members := [[1]; [1]]%N; s_trail := [] |}.
Definition wit_h1 : handle := {| h_url := "a@b"; h_chk := "1" |}.
Definition wit_h2 : handle := {| h_url := "a"; h_chk := "b@1" |}.     (* same URL++"@"++checksum as wit_h1 *)
Definition wit_h3 : handle := {| h_url := "a@b"; h_chk := "2" |}.     (* same URL as wit_h1 *)

Lemma pair_key_separates :
  (h_url wit_h1 ++ "@" ++ h_chk wit_h1 = h_url wit_h2 ++ "@" ++ h_chk wit_h2)%string /\
  h_url wit_h1 = h_url wit_h3 /\
  exists r1 k1 m1,
    wit_expand_package [] (Some empty_cache) wit_h1 (Some wit_apk) = (r1, k1, m1) /\
    (exists x, r1 = XOk x) /\
    fst (fst (wit_expand_package m1 k1 wit_h2 (Some wit_apk))) = XErr EVerify /\
    fst (fst (wit_expand_package m1 k1 wit_h3 (Some wit_apk))) = XErr EVerify.
Proof.
  split; [reflexivity|]. split; [reflexivity|]. eexists _, _, _. split; [vm_compute; reflexivity|].
  split; [eexists; reflexivity|]. split; vm_compute; reflexivity.
Qed.

(* fixed finding C05-F3 as a regression witness: two members, the first starting with a
   .SIGN.* entry. The cut of today refuses the stream; the cut as it was before fix
   3bc1979 ([expand_apk_with ... true], hypothetical now) took the first member for the
   control section and the second for the data section, hashed it with SHA-1 instead of
   SHA-256 and handed on a regular file whose body disagrees with its recorded checksum. *)
Definition wit_sig2 : stream := {| s_members := [[9]; [6]]%N; s_trail := [] |}.
Definition sha256' (b : list N) : list N := 0%N :: b.     (* any function other than the SHA-1 stand-in *)
Lemma old_cut_unchecked :
  sig2 wit_first wit_sig2 = true /\
  expand_apk idf sha256' wit_first wit_ctl wit_gunzip wit_untar wit_sig2 = FErr EExpand /\
  exists e, expand_apk_with idf sha256' wit_first wit_ctl wit_gunzip wit_untar true wit_sig2 = FOk e /\
    c_raw (e_ctl e) = [9]%N /\ e_gz e = [6]%N /\
    e_dh e = idf (e_gz e) /\ e_dh e <> sha256' (e_gz e) /\ check_sums idf (e_files e) = false.
Proof.
  split; [vm_compute; reflexivity|]. split; [vm_compute; reflexivity|]. eexists. split; [vm_compute; reflexivity|].
  repeat split; try (vm_compute; reflexivity). vm_compute. discriminate.
Qed.

(* since fix 3bc1979 every stream of that shape is refused, whatever the handle says *)
Lemma sig2_refused sha1 sha256 b64 first_name ctl_view gunzip untar k h s :
  sig2 first_name s = true ->
  (match k with Some kc => fst (cached_package b64 ctl_view gunzip untar kc h) | None => None end) = None ->
  fst (expand_uncached sha1 sha256 b64 first_name ctl_view gunzip untar k h (Some s)) = XErr EExpand.
Proof.
  intros S2 Miss. unfold expand_uncached.
  assert (expand_apk sha1 sha256 first_name ctl_view gunzip untar s = FErr EExpand) as E.
  { unfold expand_apk, expand_apk_with. fold (cut first_name s). rewrite (cut_refuses_sig2 _ _ S2). reflexivity. }
  destruct k as [kc|].
  - destruct (cached_package b64 ctl_view gunzip untar kc h) as [x kc1]. simpl in Miss. subst x. rewrite E. reflexivity.
  - rewrite E. reflexivity.
Qed.

(* without a cache: no hypothesis at all *)
Lemma expand_package_no_cache_chain sha1 sha256 b64 first_name ctl_view gunzip untar m h served x k' m' :
  expand_package sha1 sha256 b64 first_name ctl_view gunzip untar m None h served = (XOk x, k', m') ->
  Chain sha1 sha256 b64 ctl_view gunzip untar h x.
Proof.
  intros H. unfold expand_package in H.
  destruct (expand_uncached sha1 sha256 b64 first_name ctl_view gunzip untar None h served) as [r k1] eqn:E. inversion H; subst.
  eapply (expand_uncached_chain sha1 sha256 b64 first_name ctl_view gunzip untar None); eauto; exact I.
Qed.

Lemma installed_bytes lazy x out n b :
  install lazy x = Some out -> In (n, b) out ->
  exists f, In f (data_section (d_files (x_dat x))) /\ f_name f = n /\
    ((f_kind f = FReg /\ f_body f = b) \/
     (f_kind f = FLink /\ exists g, In g (data_section (d_files (x_dat x))) /\ f_kind g = FReg /\ f_body g = b)).
Proof.
  intros H Hin.
  eapply (install_files_sound lazy (fun b0 => exists g, In g (data_section (d_files (x_dat x))) /\ f_kind g = FReg /\ f_body g = b0));
    [exact H | intros ? ? [] | intros g Hg K; exists g; auto | exact Hin].
Qed.

Lemma file_mismatch_aborts sha1 sha256 first_name ctl_view gunzip untar s u t fs f d :
  cut first_name s = Some u -> gunzip (u_dat u) = Some t -> untar t = Some fs ->
  In f fs -> f_kind f = FReg -> f_sum f = SumSome d -> d <> sha1 (f_body f) ->
  expand_apk sha1 sha256 first_name ctl_view gunzip untar s = FErr ESums.
Proof. intros Cu. eapply expand_apk_file_mismatch; [exact Cu | eapply cut_full; exact Cu]. Qed.

Lemma install_paths x :
  (forall out, install true x = Some out -> install false x = Some out) /\
  (forall out, install false x = Some out -> install true x = None ->
     exists f, In f (data_section (d_files (x_dat x))) /\
       ((f_kind f = FReg /\ f_sum f = SumNone) \/ (f_kind f = FSym /\ forall d, f_sum f <> SumSome d))).
Proof. split; [intros out; apply lazy_implies_streaming | intros out; apply streaming_only]. Qed.

Lemma cache_hit_authentic sha1 sha256 b64 ctl_view gunzip untar k h x k' :
  cache_ok sha1 sha256 gunzip untar k -> cached_package b64 ctl_view gunzip untar k h = (Some x, k') ->
  Chain sha1 sha256 b64 ctl_view gunzip untar h x /\ cache_ok sha1 sha256 gunzip untar k'.
Proof. intros. split; [eapply cached_package_chain; eauto | eapply cached_package_keeps_ok; eauto]. Qed.

(* ---- what is installed was hashed ------------------------------------------------------ *)
Lemma data_section_incl : forall fs g, In g (data_section fs) -> In g fs.
Proof.
  induction fs as [|a l IH]; simpl; [auto|].
  destruct (hidden a); [intros g Hg; right; apply IH; exact Hg | auto].
Qed.

Lemma installed_hashed_b_iff sha1 x out : installed_hashed_b sha1 x out = true <-> Installed_hashed sha1 x out.
Proof.
  unfold installed_hashed_b, Installed_hashed. rewrite forallb_forall. split.
  - intros H n b Hin. specialize (H _ Hin). apply existsb_exists in H. destruct H as (f & Hf & E).
    apply andb_true_iff in E. destruct E as [E Ok]. apply andb_true_iff in E. destruct E as [K B].
    exists f. split; [exact Hf|]. split; [apply fkind_eqb_eq; exact K|]. split; [apply bytes_eqb_eq; exact B|].
    apply file_ok_b_iff. exact Ok.
  - intros H [n b] Hin. destruct (H n b Hin) as (f & Hf & K & B & Ok). apply existsb_exists. exists f. split; [exact Hf|].
    simpl. rewrite K, B, bytes_eqb_refl. simpl. apply file_ok_b_iff. exact Ok.
Qed.

(* the chain and a successful install (either path) give it *)
Lemma chain_installed_hashed sha1 sha256 b64 ctl_view gunzip untar h x lazy out :
  Chain sha1 sha256 b64 ctl_view gunzip untar h x -> install lazy x = Some out -> Installed_hashed sha1 x out.
Proof.
  intros (_ & _ & _ & _ & _ & Fok) Inst n b Hin.
  destruct (installed_bytes lazy x out n b Inst Hin) as (f & If & _ & [[K B]|[_ (g & Ig & Kg & Bg)]]).
  - exists f. pose proof (data_section_incl _ _ If) as I. auto.
  - exists g. pose proof (data_section_incl _ _ Ig) as I. auto.
Qed.

(* ---- the sources of a fetch ---------------------------------------------------------------- *)
Lemma fetch_sources http has_cache offline whole origin s :
  fetch http has_cache offline whole origin = Some s -> whole = Some s \/ (origin = Some s /\ (http && has_cache && offline = false)).
Proof.
  unfold fetch. destruct http, has_cache; simpl; try (intro H; right; split; [exact H | reflexivity]).
  destruct whole as [w|]; [intro H; left; exact H|]. destruct offline; [discriminate|]. intro H; right; auto.
Qed.
Lemma fetch_offline whole origin : fetch true true true whole origin = whole.
Proof. unfold fetch. simpl. destruct whole; reflexivity. Qed.
Lemma fetch_whole_first offline w origin : fetch true true offline (Some w) origin = Some w.
Proof. reflexivity. Qed.

(* ---- sparse entries (fixed finding C05-F4): whatever the path — fetched with or without a
   cache, warm hit with or without the uncompressed tar — an expansion that succeeds holds
   no sparse entry: the tar index refuses the archive *)
Lemma index_ok_no_sparse fs : index_ok fs = true -> forall f, In f fs -> f_sparse f = false.
Proof.
  unfold index_ok. intros H f Hf. destruct (f_sparse f) eqn:E; [|reflexivity].
  assert (existsb f_sparse fs = true) as X by (apply existsb_exists; exists f; auto). rewrite X in H. discriminate H.
Qed.

Lemma expand_uncached_no_sparse sha1 sha256 b64 first_name ctl_view gunzip untar k h served x k' :
  expand_uncached sha1 sha256 b64 first_name ctl_view gunzip untar k h served = (XOk x, k') ->
  forall f, In f (d_files (x_dat x)) -> f_sparse f = false.
Proof.
  intro H. apply index_ok_no_sparse. revert H. unfold expand_uncached.
  destruct (match k with
            | Some kc => let (x0, kc1) := cached_package b64 ctl_view gunzip untar kc h in (x0, Some kc1)
            | None => (None, None) end) as [hit k1] eqn:L.
  destruct hit as [x0|].
  - intro H. inversion H; subst. destruct k as [kc|]; [|discriminate L].
    destruct (cached_package b64 ctl_view gunzip untar kc h) as [xo kc1] eqn:CP. inversion L; subst. clear L H.
    unfold cached_package in CP. destruct (h_q1 h); [|discriminate].
    destruct (h_sum b64 h) as [sum|]; [|discriminate].
    destruct (assoc_b sum (k_ctl kc)) as [craw|]; [|discriminate].
    destruct (mk_ctl ctl_view craw) as [c|]; [|discriminate].
    destruct (c_datahash c) as [|dh [|? ?]]; try discriminate.
    destruct (assoc_s dh (k_gz kc)) as [gz|]; [|discriminate].
    destruct (is_hex dh); [|discriminate].
    destruct (assoc_s dh (k_tar kc)) as [t|].
    + destruct (untar t) as [fs|]; [|discriminate]. destruct (index_ok fs) eqn:IO; [|discriminate]. inversion CP; subst. exact IO.
    + destruct (gunzip gz) as [t|]; [|discriminate].
      destruct (untar t) as [fs|]; [|discriminate]. destruct (index_ok fs) eqn:IO; [|discriminate]. inversion CP; subst. exact IO.
  - destruct served as [s|]; [|discriminate].
    destruct (expand_apk sha1 sha256 first_name ctl_view gunzip untar s) as [e|c] eqn:EA; [|discriminate].
    destruct (negb (verify_expanded b64 h (e_ch e) (e_dh e) (e_ctl e))); [discriminate|].
    destruct (expand_apk_spec sha1 sha256 first_name ctl_view gunzip untar _ _ _ EA) as (u & _ & _ & _ & _ & _ & _ & _ & _ & _ & IO).
    destruct k1 as [kc1|].
    + destruct (cache_package untar kc1 e) as [kc' xo] eqn:CP. destruct xo as [x1|]; [|discriminate].
      intro H. inversion H; subst. unfold cache_package in CP. inversion CP as [[Hk Hx]]. clear CP H Hk.
      destruct (untar _) as [fs|]; [|discriminate]. destruct (index_ok fs) eqn:IO2; [|discriminate]. inversion Hx; subst. exact IO2.
    + intro H. inversion H; subst. exact IO.
Qed.

(* end to end whatever the source of the bytes: origin over a local path or http, a whole .apk
   pre-populated in the cache directory (online or OFFLINE) *)
Lemma end_to_end_every_source sha1 sha256 b64 first_name ctl_view gunzip untar
  (cr1 : forall a b, sha1 a = sha1 b -> a = b) (cr256 : forall a b, hex (sha256 a) = hex (sha256 b) -> a = b)
  http offline whole origin m k h x k' m' lazy out gc cg dh gd :
  memo_inv sha1 sha256 b64 ctl_view gunzip untar m -> opt_cache_ok sha1 sha256 gunzip untar k ->
  expand_package sha1 sha256 b64 first_name ctl_view gunzip untar m k h
    (fetch http (match k with Some _ => true | None => false end) offline whole origin) = (XOk x, k', m') ->
  install lazy x = Some out ->
  h_sum b64 h = Some (sha1 gc) -> mk_ctl ctl_view gc = Some cg ->
  In dh (c_datahash cg) -> dh <> "" -> dh = hex (sha256 gd) ->
  (x_ctl x = cg /\ x_ctl_file x = gc /\ d_raw (x_dat x) = gd) /\
  Installed_hashed sha1 x out /\
  (exists fs, dat_view gunzip untar gd = Some fs /\ d_files (x_dat x) = fs /\ install_files lazy [] (data_section fs) = Some out).
Proof.
  intros MI Ok EP Inst Hs M Hin NE Hd.
  destruct (end_to_end sha1 sha256 b64 first_name ctl_view gunzip untar cr1 cr256 _ _ _ _ _ _ _ _ _ _ _ _ _ MI Ok EP Inst Hs M Hin NE Hd)
    as (A & (fs & Dv & Ef & Fok & Ins & _) & _).
  split; [exact A|]. split.
  - intros n b Hb. destruct (installed_bytes lazy x out n b Inst Hb) as (f & If & _ & [[K B]|[_ (g & Ig & Kg & Bg)]]).
    + exists f. pose proof (data_section_incl _ _ If) as I. split; [exact I|]. split; [exact K|]. split; [exact B|]. apply Fok. rewrite <- Ef. exact I.
    + exists g. pose proof (data_section_incl _ _ Ig) as I. split; [exact I|]. split; [exact Kg|]. split; [exact Bg|]. apply Fok. rewrite <- Ef. exact I.
  - exists fs. auto.
Qed.

(* ---- checksumFromHeader ------------------------------------------------------------------ *)
Lemma hexdig_nib n : (n < 16)%N -> hexdig (nib n) = Some n.
Proof.
  intro H.
  assert (n = 0 \/ n = 1 \/ n = 2 \/ n = 3 \/ n = 4 \/ n = 5 \/ n = 6 \/ n = 7 \/ n = 8 \/ n = 9 \/ n = 10 \/
          n = 11 \/ n = 12 \/ n = 13 \/ n = 14 \/ n = 15)%N as C by lia.
  repeat (destruct C as [->|C]; [reflexivity|]). subst; reflexivity.
Qed.

(* hex.DecodeString inverts hex.EncodeToString on every byte string *)
Lemma unhex_hex : forall d, (forall x, In x d -> (x < 256)%N) -> unhex (hex d) = Some d.
Proof.
  induction d as [|x d IH]; intro H; [reflexivity|]. cbn [hex unhex].
  assert (x < 256)%N as Hx by (apply H; left; reflexivity).
  rewrite (hexdig_nib (x / 16)) by (apply N.div_lt_upper_bound; lia).
  rewrite (hexdig_nib (x mod 16)) by (apply N.mod_lt; lia).
  rewrite IH by (intros y Hy; apply H; right; exact Hy).
  rewrite <- (N.div_mod x 16) by lia. reflexivity.
Qed.

Lemma hex_not_b64_form d : String.prefix checksum_b64_prefix (hex d) = false.
Proof.
  destruct d as [|x d]; [reflexivity|]. unfold checksum_b64_prefix. simpl hex. cbn [String.prefix].
  assert (nib (x / 16) <> "Q"%char) as NQ.
  { unfold nib. destruct (x / 16)%N as [|p]; [discriminate|].
    do 4 (destruct p as [p|p|]; try discriminate). }
  destruct (Ascii.ascii_dec "Q"%char (nib (x / 16))) as [E|E]; [exfalso; apply NQ; symmetry; exact E | reflexivity].
Qed.

Section ChecksumFromHeader.
  Variable b64 : string -> option (list N).
  Notation checksum_from_header := (checksum_from_header b64).

  (* a header without the record (no PAX records at all, or none under that key) has no
     checksum: not an error, not a match *)
  Lemma checksum_absent recs :
    (forall k v, In (k, v) recs -> k <> pax_checksum_key) -> checksum_from_header recs = SumNone.
  Proof.
    intro H. unfold PkgAuth.checksum_from_header.
    destruct (assoc_s pax_checksum_key recs) as [v|] eqn:A; [|reflexivity].
    apply assoc_s_in in A. exfalso. exact (H _ _ A eq_refl).
  Qed.

  (* the digest handed on is exactly the decoded value of that record: base64 of what follows
     the prefix, or hex of the whole value; nothing else of the header takes part *)
  Lemma checksum_decoded recs d :
    checksum_from_header recs = SumSome d ->
    exists v, assoc_s pax_checksum_key recs = Some v /\
      ((String.prefix checksum_b64_prefix v = true /\ b64 (drop_prefix checksum_b64_prefix v) = Some d) \/
       (String.prefix checksum_b64_prefix v = false /\ unhex v = Some d)).
  Proof.
    unfold PkgAuth.checksum_from_header. destruct (assoc_s pax_checksum_key recs) as [v|]; [|discriminate].
    intro H. exists v. split; [reflexivity|].
    destruct (String.prefix checksum_b64_prefix v).
    - left. split; [reflexivity|]. destruct (b64 (drop_prefix checksum_b64_prefix v)); [inversion H; reflexivity | discriminate].
    - right. split; [reflexivity|]. destruct (unhex v); [inversion H; reflexivity | discriminate].
  Qed.

  (* the record apk-tools writes — lower-case hex of the SHA-1 — is read back as those bytes *)
  Lemma checksum_of_hex_record recs d :
    (forall x, In x d -> (x < 256)%N) -> assoc_s pax_checksum_key recs = Some (hex d) ->
    checksum_from_header recs = SumSome d.
  Proof.
    intros Hb A. unfold PkgAuth.checksum_from_header. rewrite A, hex_not_b64_form, (unhex_hex d Hb). reflexivity.
  Qed.
End ChecksumFromHeader.

(* the three copies of checksumFromHeader in the source (the one checkSums verifies with, the
   streaming installer's, the lazy installer's) read the same record and the same prefix: the
   model's single function stands for all of them *)
Lemma checksum_sites_agree :
  List.length checksum_sites = 3%nat /\
  forall s k p, In (s, (k, p)) checksum_sites -> k = pax_checksum_key /\ p = checksum_b64_prefix.
Proof.
  split; [reflexivity|]. intros s k p H. unfold checksum_sites in H. simpl in H.
  repeat (destruct H as [H|H]; [inversion H; subst; split; reflexivity|]). destruct H.
Qed.
