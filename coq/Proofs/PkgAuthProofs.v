(* C05 — proofs about Model/PkgAuth.v against Spec/PkgAuthSpec.v. *)
From Apko Require Import Base.Prelude Model.PkgAuth Spec.PkgAuthSpec.
Open Scope string_scope. Open Scope list_scope.

Lemma bytes_eqb_eq a b : bytes_eqb a b = true <-> a = b.
Proof. apply list_eqb_spec. intros; apply N.eqb_eq. Qed.

Lemma assoc_b_in {A} x (l : list (list N * A)) v : assoc_b x l = Some v -> In (x, v) l.
Proof.
  induction l as [|[k w] l IH]; simpl; [discriminate|].
  destruct (bytes_eqb x k) eqn:E; intro H.
  - apply bytes_eqb_eq in E; subst. inversion H; subst. left; reflexivity.
  - right; apply IH; exact H.
Qed.
Lemma assoc_s_in {A} x (l : list (string * A)) v : assoc_s x l = Some v -> In (x, v) l.
Proof.
  induction l as [|[k w] l IH]; simpl; [discriminate|].
  destruct (String.eqb x k) eqn:E; intro H.
  - apply String.eqb_eq in E; subst. inversion H; subst. left; reflexivity.
  - right; apply IH; exact H.
Qed.

Section WithOracles.
  Variable sha1 : list N -> list N.
  Variable sha256 : list N -> list N.
  Notation Chain := (Chain sha1 sha256).
  Notation file_ok := (file_ok sha1).

  Lemma file_ok_b_iff f : file_ok_b sha1 f = true <-> file_ok f.
  Proof.
    unfold file_ok_b, PkgAuthSpec.file_ok. destruct (f_kind f); destruct (f_sum f) as [| |d]; split; intro H;
      try reflexivity; try discriminate; try (intro K; discriminate K).
    - intros _. split; [discriminate | intros d H'; discriminate].
    - destruct (H eq_refl) as [H' _]. congruence.
    - intros _. split; [discriminate|]. intros d' E. inversion E; subst. apply bytes_eqb_eq; exact H.
    - destruct (H eq_refl) as [_ H']. apply bytes_eqb_eq. apply H'. reflexivity.
  Qed.

  Lemma chain_tags_iff sfx h x : chain_tags sha1 sha256 sfx h x = [] <-> Chain h x.
  Proof.
    unfold chain_tags, PkgAuthSpec.Chain.
    assert (control_ok_b sha1 h x = true <-> h_sum h = Some (sha1 (c_raw (x_ctl x)))) as C.
    { unfold control_ok_b. destruct (h_sum h) as [w|]; simpl; [|split; discriminate].
      rewrite bytes_eqb_eq. split; intro H; [subst; reflexivity | inversion H; reflexivity]. }
    assert (datahash_ok_b sha256 x = true <->
            forall dh, In dh (c_datahash (x_ctl x)) -> dh <> "" -> dh = hex (sha256 (d_raw (x_dat x)))) as Dh.
    { unfold datahash_ok_b. rewrite forallb_forall. split; intros H dh Hin.
      - intro NE. specialize (H dh Hin). apply orb_true_iff in H. destruct H as [H|H]; apply String.eqb_eq in H; congruence.
      - apply orb_true_iff. destruct (String.eqb dh "") eqn:E; [left; reflexivity|right].
        apply String.eqb_eq. apply H; [exact Hin|]. intro K; subst. discriminate. }
    assert (files_ok_b sha1 x = true <-> forall f, In f (d_files (x_dat x)) -> file_ok f) as F.
    { unfold files_ok_b. rewrite forallb_forall. split; intros H f Hf; apply file_ok_b_iff; apply H; exact Hf. }
    destruct (control_ok_b sha1 h x) eqn:E1; destruct (datahash_ok_b sha256 x) eqn:E2; destruct (files_ok_b sha1 x) eqn:E3;
      simpl; split; intro H; try discriminate; try reflexivity.
    - split; [apply C; reflexivity|]. split; [apply Dh; reflexivity | apply F; reflexivity].
    - destruct H as (_ & _ & H). apply F in H. discriminate.
    - destruct H as (_ & H & _). apply Dh in H. discriminate.
    - destruct H as (_ & H & _). apply Dh in H. discriminate.
    - destruct H as (H & _). apply C in H. discriminate.
    - destruct H as (H & _). apply C in H. discriminate.
    - destruct H as (H & _). apply C in H. discriminate.
    - destruct H as (H & _). apply C in H. discriminate.
  Qed.
End WithOracles.
