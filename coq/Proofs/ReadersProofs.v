(* C15 — the readers added in session 3 never panic; a line beyond the scanner's
   token limit is an error, never a silently shortened result. *)
From Apko Require Import Base.Prelude Base.C16Lib Model.Formats Model.Parsers Spec.ParsersSpec Proofs.ParsersProofs.
Open Scope string_scope. Open Scope list_scope.

Lemma returns_ok {A} (a : A) : Returns (Ok a).
Proof. split; discriminate. Qed.
Lemma returns_err {A} : Returns (@Err A).
Proof. split; discriminate. Qed.
Lemma returns_bind {A B} (r : res A) (f : A -> res B) :
  Returns r -> (forall a, r = Ok a -> Returns (f a)) -> Returns (rbind r f).
Proof.
  intros [H1 H2] H. split.
  - apply rbind_np; [exact H1|]. intros a E. apply (H a E).
  - apply rbind_nf; [exact H2|]. intros a E. apply (H a E).
Qed.

(* ---- readReleaseData --------------------------------------------------------- *)
Lemma release_lines_returns ls : forall kv, Returns (release_lines ls kv).
Proof.
  induction ls as [|l ls IH]; intro kv; cbn [release_lines]; [apply returns_ok|].
  destruct (l =? ""); [apply IH|].
  destruct (has_prefix release_comment_prefix l); [apply IH|].
  destruct (cut_char _ l) as [[b a]|]; [apply IH|apply returns_err].
Qed.
Lemma read_release_max_returns max s : Returns (read_release_max max s).
Proof.
  unfold read_release_max. destruct (scan_lines max s) as [lines tl].
  apply returns_bind; [apply release_lines_returns|]. intros kv _.
  destruct (tl && _); [apply returns_err|apply returns_ok].
Qed.

(* ---- strings.Fields: what the callers rely on, proved of the model ----------------- *)
Lemma fields_mask_nonempty s : forall m, Forall (fun f => f <> "") (fields_mask s m).
Proof.
  induction s as [|c s IH]; intro m; [destruct m; constructor|].
  destruct m as [|b m]; [constructor|]. destruct b; [apply IH|].
  cbn [fields_mask]. destruct s as [|c' s']; [constructor; [discriminate|apply IH]|].
  destruct m as [|b' m']; [constructor; [discriminate|apply IH]|].
  destruct b'; [constructor; [discriminate|apply IH]|].
  specialize (IH (false :: m')). destruct (fields_mask (String c' s') (false :: m')) as [|f fs].
  - constructor; [discriminate|constructor].
  - inversion IH; subst. constructor; [discriminate|assumption].
Qed.
Lemma go_fields_nonempty s : Forall (fun f => f <> "") (go_fields s).
Proof. apply fields_mask_nonempty. Qed.
(* a string whose first byte is not white space: the first field starts with that byte *)
Lemma fields_mask_head c s m : exists f fs, fields_mask (String c s) (false :: m) = String c f :: fs.
Proof.
  cbn [fields_mask]. destruct s as [|c' s']; [eauto|]. destruct m as [|b' m']; [eauto|].
  destruct b'; [eauto|]. destruct (fields_mask (String c' s') (false :: m')); eauto.
Qed.
Lemma go_fields_head c s : space_len (String c s) = O -> exists f fs, go_fields (String c s) = String c f :: fs.
Proof.
  intro H. unfold go_fields. cbn [space_mask]. rewrite H. apply fields_mask_head.
Qed.
Lemma has_prefix_cons p s : has_prefix p s = true -> p = "" \/ exists c p' s', p = String c p' /\ s = String c s'.
Proof.
  destruct p as [|a p]; [auto|]. destruct s as [|b s]; cbn [has_prefix]; [discriminate|].
  intro H. apply andb_true_iff in H. destruct H as [H _]. apply Ascii.eqb_eq in H. subst. right. eauto.
Qed.

Lemma lidx_ok {A} (l : list A) (i : nat) : (i < List.length l)%nat -> exists x, lidx l (Z.of_nat i) = Ok x.
Proof.
  intro H. unfold lidx. destruct (Z.of_nat i <? 0)%Z eqn:E; [apply Z.ltb_lt in E; lia|].
  rewrite Nat2Z.id. destruct (nth_error l i) eqn:N; [eauto|]. apply nth_error_None in N. lia.
Qed.

Lemma repo_line_returns repo : Returns (repo_line repo).
Proof.
  unfold repo_line. destruct (has_prefix repo_line_pin_prefix repo) eqn:P; [|apply returns_ok].
  destruct (List.length (go_fields repo) <? 2)%nat eqn:L; [apply returns_err|]. apply Nat.ltb_ge in L.
  (* the line starts with "@", which is no white space: parts[0] starts with "@" *)
  assert (H0 : exists f fs, go_fields repo = String "@" f :: fs).
  { destruct repo as [|c r]; [discriminate P|]. change repo_line_pin_prefix with "@" in P.
    cbn [has_prefix] in P. apply andb_true_iff in P. destruct P as [P _]. apply Ascii.eqb_eq in P. subst c.
    apply go_fields_head. reflexivity. }
  destruct H0 as (f & fs & E). rewrite E in *. cbn [List.length] in L.
  destruct fs as [|u fs]; [cbn in L; lia|].
  change (lidx (String "@" f :: u :: fs) 0) with (Ok (A:=string) (String "@" f)). cbn [rbind].
  change (gslice_from (String "@" f) 1) with (Ok (A:=string) f). cbn [rbind].
  change (lidx (String "@" f :: u :: fs) 1) with (Ok (A:=string) u). cbn [rbind]. apply returns_ok.
Qed.

(* ---- unify's constraint splitter ------------------------------------------------------ *)
Lemma index_any_bound chars s i : index_any chars s = Some i -> (i < String.length s)%nat.
Proof.
  revert i. induction s as [|c s IH]; intros i H; cbn [index_any] in H; [discriminate|].
  destruct (has_char c chars); [inversion H; subst; cbn; lia|].
  destruct (index_any chars s) as [j|]; [|discriminate]. inversion H; subst. specialize (IH j eq_refl). cbn. lia.
Qed.
Lemma unify_split_returns orig : Returns (unify_split orig).
Proof.
  unfold unify_split. apply returns_bind.
  - destruct (index_any c15_unify_constraint_delims orig) as [i|] eqn:E; [|apply returns_ok].
    apply index_any_bound in E.
    destruct (gslice_to_ok orig i ltac:(lia)) as [n Hn]. destruct (gslice_from_ok orig i ltac:(lia)) as [v Hv].
    rewrite Hn, Hv. apply returns_ok.
  - intros nv _. apply returns_bind; [|intros; apply returns_ok].
    destruct (index_any c15_unify_pin_delims orig) as [i|] eqn:E; [|apply returns_ok].
    apply index_any_bound in E. destruct (gslice_from_ok orig i ltac:(lia)) as [v Hv]. rewrite Hv. apply returns_ok.
Qed.
Lemma vidx_ok len i : (i < len)%nat -> vidx len i = Ok tt.
Proof. intro H. unfold vidx. apply Nat.ltb_lt in H. rewrite H. reflexivity. Qed.
Lemma unify_inputs_returns n_orig n_inputs : (1 <= n_inputs)%nat -> Returns (unify_inputs n_orig n_inputs).
Proof.
  intro H. unfold unify_inputs. destruct (n_orig =? 0)%nat; [apply returns_ok|].
  rewrite vidx_ok by lia. cbn [rbind]. apply Nat.leb_le in H. rewrite H. apply returns_ok.
Qed.
Lemma unify_inputs_empty_panics n_orig : (1 <= n_orig)%nat -> unify_inputs n_orig 0 = Panic.
Proof. intro H. unfold unify_inputs. destruct n_orig; [lia|reflexivity]. Qed.
Lemma lock_provided_skel_returns n_parts len0 : Returns (lock_provided_skel n_parts len0).
Proof.
  unfold lock_provided_skel. destruct (n_parts =? 0)%nat eqn:E; [apply returns_ok|]. apply Nat.eqb_neq in E.
  rewrite vidx_ok by lia. cbn [rbind]. destruct (len0 <? 2)%nat eqn:L; [apply returns_ok|]. apply Nat.ltb_ge in L.
  rewrite !vidx_ok by lia. apply returns_ok.
Qed.

(* ---- checksumFromHeader ------------------------------------------------------------------ *)
Lemma returns_from_opt {A} (o : option A) : Returns (from_opt o).
Proof. destruct o; [apply returns_ok|apply returns_err]. Qed.
Lemma checksum_from_header_with_returns b64 hex prefix trim pax : Returns (checksum_from_header_with b64 hex prefix trim pax).
Proof.
  unfold checksum_from_header_with. destruct pax as [v|]; [|apply returns_ok].
  destruct (has_prefix prefix v); (apply returns_bind; [apply returns_from_opt|intros; apply returns_ok]).
Qed.

(* ---- ExpandApk: the section indices, for EVERY number of members --------------------------- *)
Definition row_safe (sig_guarded : bool) (r : Z * (Z * Z * Z)) : bool :=
  let '(n, (sg, ct, pk)) := r in
  ((0 <=? ct) && (ct <? n) && (0 <=? pk) && (pk <? n) && (sg <? n) && ((0 <=? sg) || sig_guarded))%Z.
Definition table_safe (tbl : list (Z * (Z * Z * Z))) (default_err sig_guarded : bool) : bool :=
  forallb (row_safe sig_guarded) tbl && default_err.
Lemma zidx_ok len i : (0 <= i < len)%Z -> zidx len i = Ok tt.
Proof. intro H. unfold zidx. destruct (0 <=? i)%Z eqn:A; [|apply Z.leb_gt in A; lia]. destruct (i <? len)%Z eqn:B; [reflexivity|apply Z.ltb_ge in B; lia]. Qed.
Lemma expand_select_safe tbl de sgd : table_safe tbl de sgd = true -> forall n, Returns (expand_select_with tbl de sgd n).
Proof.
  unfold table_safe. intros H n. apply andb_true_iff in H. destruct H as [H D]. subst de.
  unfold expand_select_with, tbl_lookup. destruct (find _ tbl) as [[n' [[sg ct] pk]]|] eqn:F; [|apply returns_err].
  apply find_some in F. destruct F as [I E]. cbn [fst] in E. apply Z.eqb_eq in E. subst n'.
  rewrite forallb_forall in H. specialize (H _ I). cbn [row_safe] in H. cbn [snd rbind].
  repeat (apply andb_true_iff in H; destruct H as [H ?]).
  repeat match goal with
         | X : (_ <=? _)%Z = true |- _ => apply Z.leb_le in X
         | X : (_ <? _)%Z = true |- _ => apply Z.ltb_lt in X
         end.
  rewrite (zidx_ok n ct) by lia. rewrite (zidx_ok n pk) by lia. cbn [rbind].
  destruct (0 <=? sg)%Z eqn:S0.
  - apply Z.leb_le in S0. cbn [orb]. rewrite (zidx_ok n sg) by lia. apply returns_ok.
  - cbn [orb] in *. match goal with X : sgd = true |- _ => rewrite X end. cbn [negb]. apply returns_ok.
Qed.
Lemma expand_table_safe : table_safe expand_switch expand_switch_default_errors expand_sig_guarded = true.
Proof. vm_compute. reflexivity. Qed.
Lemma expand_select_returns n : Returns (expand_select n).
Proof. apply expand_select_safe, expand_table_safe. Qed.

Lemma expand_loop_returns ms g : forall first sid maxs count, Returns (expand_loop ms g first sid maxs count).
Proof.
  induction ms as [|m ms IH]; intros first sid maxs count; cbn [expand_loop].
  - apply returns_bind.
    + destruct (sid =? 0)%Z; [|apply returns_ok]. destruct first as [[]|]; first [apply returns_ok|apply returns_err].
    + intros maxs' _. destruct g; [apply returns_err|apply returns_ok].
  - apply returns_bind.
    + destruct (sid =? 0)%Z; [|apply returns_ok]. destruct first as [[]|]; first [apply returns_ok|apply returns_err].
    + intros maxs' _. destruct (maxs' <=? sid + 1 + 1)%Z.
      * destruct (_ || g); [apply returns_err|apply returns_ok].
      * destruct (mkind_bad m); [apply returns_err|apply IH].
Qed.
Lemma expand_apk_returns ms g : Returns (expand_apk ms g).
Proof.
  unfold expand_apk. apply returns_bind; [apply expand_loop_returns|]. intros n _.
  destruct (arm_refuses _ _ _); [apply returns_err|].
  apply returns_bind; [apply expand_select_returns|]. intros sg _. destruct (sections_ok ms n); [apply returns_ok|apply returns_err].
Qed.
(* the loop never collects more members than the stream limit: len(gzipStreams) <= 3 *)
Lemma expand_loop_count ms g : forall first sid maxs count n,
  Z.of_nat count = (sid + 1)%Z -> (sid + 1 < maxs)%Z -> (maxs <= Z.of_nat (snd expand_max_streams))%Z ->
  expand_loop ms g first sid maxs count = Ok n -> (n <= snd expand_max_streams)%nat.
Proof.
  change (snd expand_max_streams) with 3%nat.
  induction ms as [|m ms IH]; intros first sid maxs count n Hc Hs Hm H; cbn [expand_loop] in H.
  - destruct (if (sid =? 0)%Z then _ else _) as [maxs'| | |]; cbn [rbind] in H; try discriminate.
    destruct g; [discriminate|]. inversion H; subst. lia.
  - destruct (if (sid =? 0)%Z then _ else _) as [maxs'| | |] eqn:E; cbn [rbind] in H; try discriminate.
    assert (Hm' : (maxs <= maxs' <= 3)%Z).
    { destruct (sid =? 0)%Z; [|inversion E; subst; lia]. destruct first as [[]|]; inversion E; subst; change (snd expand_max_streams) with 3%nat; lia. }
    destruct (maxs' <=? sid + 1 + 1)%Z eqn:R.
    + destruct (_ || g); [discriminate|]. inversion H; subst. lia.
    + destruct (mkind_bad m); [discriminate|]. apply Z.leb_gt in R.
      eapply (IH _ (sid + 1)%Z maxs' (S count) n); [lia|lia|lia|exact H].
Qed.
Lemma expand_count_bound ms g n :
  expand_loop ms g None (-1)%Z (Z.of_nat (fst expand_max_streams)) O = Ok n -> (n <= 3)%nat.
Proof.
  intro H. change 3%nat with (snd expand_max_streams).
  apply (expand_loop_count ms g None (-1)%Z (Z.of_nat (fst expand_max_streams)) O n); [reflexivity|reflexivity|vm_compute; congruence|exact H].
Qed.

(* ---- Split / ParsePackageInfo --------------------------------------------------------------- *)
Lemma split_parts_ge1 ms n : split_parts ms = Ok n -> (1 <= n)%nat.
Proof.
  unfold split_parts. change (fst split_appends) with 2%nat. change (snd split_appends) with 1%nat.
  destruct ms as [|[] rest]; try discriminate.
  - destruct rest as [|[] ?]; try discriminate; intro H; inversion H; lia.
  - intro H; inversion H; lia.
Qed.
Lemma pkginfo_select_returns n : (1 <= n)%nat -> Returns (pkginfo_select n).
Proof.
  intro H. unfold pkginfo_select. rewrite vidx_ok by lia. cbn [rbind].
  destruct (n =? 3)%nat eqn:E; [|apply returns_ok]. apply Nat.eqb_eq in E. subst. apply returns_ok.
Qed.
Lemma pkginfo_after_split ms n : split_parts ms = Ok n -> Returns (pkginfo_select n).
Proof. intro H. apply pkginfo_select_returns. eapply split_parts_ge1; eauto. Qed.
Lemma split_parts_returns ms : Returns (split_parts ms).
Proof.
  unfold split_parts. destruct ms as [|[] rest]; try apply returns_err; try apply returns_ok.
  destruct rest as [|[] ?]; try apply returns_err; apply returns_ok.
Qed.

(* ---- parseRepositoryIndex, ParseArchitectures ----------------------------------------------- *)
Lemma sig_name_skel_returns matched : Returns (sig_name_skel matched).
Proof.
  unfold sig_name_skel. destruct (negb _) eqn:E; [apply returns_err|].
  apply negb_false_iff, Nat.eqb_eq in E. rewrite E. apply returns_ok.
Qed.
(* the library contract used by b[readBytes:], as a fact about the model of bytes.Reader.Len *)
Lemma reader_len_le size pos : (reader_len size pos <= size)%N.
Proof. unfold reader_len. destruct (size <=? pos)%N; lia. Qed.
Lemma index_data_slice_returns size pos : Returns (index_data_slice size pos).
Proof.
  unfold index_data_slice. pose proof (reader_len_le size pos).
  destruct (_ && _)%Z eqn:E; [apply returns_ok|]. exfalso. apply andb_false_iff in E.
  destruct E as [E|E]; [apply Z.leb_gt in E|apply Z.leb_gt in E]; lia.
Qed.
Lemma parse_archs_skel_returns n : Returns (parse_archs_skel n).
Proof.
  unfold parse_archs_skel. destruct (n =? 1)%nat eqn:E; [|apply returns_ok].
  apply Nat.eqb_eq in E. subst. apply returns_ok.
Qed.

(* ---- the scanner's token limit: a line that does not fit is an error ------------------------------
   [too_long max s]: some line of s (a segment between newlines) does not fit in max bytes
   together with its terminator. *)
Definition too_long (max : N) (s : string) : Prop := exists l, In l (raw_lines s) /\ (max < nlen l + 1)%N.
Lemma take_short_true max ls : snd (take_short max ls) = true <-> exists l, In l ls /\ (max < nlen l + 1)%N.
Proof.
  induction ls as [|x ls IH]; cbn [take_short].
  - split; [discriminate|]. intros (l & [] & _).
  - destruct (nlen x + 1 <=? max)%N eqn:E.
    + destruct (take_short max ls) as [r t]. cbn [snd] in *. rewrite IH. apply N.leb_le in E. split.
      * intros (l & I & L). exists l. split; [right; exact I|exact L].
      * intros (l & [->|I] & L); [lia|]. exists l. auto.
    + cbn [snd]. apply N.leb_gt in E. split; [|reflexivity]. intros _. exists x. split; [left; reflexivity|exact E].
Qed.
Lemma too_long_scan max s : too_long max s <-> snd (scan_lines max s) = true.
Proof. unfold too_long, scan_lines. symmetry. apply take_short_true. Qed.

Lemma long_line_index dec max s : index_checks_scanner_err = true -> too_long max s -> parse_index_max dec max s = Err.
Proof.
  intros F H. apply too_long_scan in H. unfold parse_index_max. destruct (scan_lines max s) as [lines tl]. cbn [snd] in H. subst tl.
  rewrite F. pose proof (idx_lines_np dec lines empty_pkg []). pose proof (idx_lines_nf dec lines empty_pkg []).
  destruct (idx_lines dec lines empty_pkg []); cbn [rbind andb]; congruence.
Qed.
Lemma long_line_installed dec max s : installed_checks_scanner_err = true -> too_long max s -> parse_installed_max dec max s = Err.
Proof.
  intros F H. apply too_long_scan in H. unfold parse_installed_max. destruct (scan_lines max s) as [lines tl]. cbn [snd] in H. subst tl.
  rewrite F. pose proof (inst_lines_np dec lines empty_ist []). pose proof (inst_lines_nf dec lines empty_ist []).
  destruct (inst_lines dec lines empty_ist []); cbn [rbind andb]; congruence.
Qed.
Lemma long_line_load_file {A} (parse : string -> res A) max s : (forall x, Returns (parse x)) -> too_long max s -> load_file parse max s = Err.
Proof.
  intros Hp H. apply too_long_scan in H. unfold load_file. destruct (scan_lines max s) as [lines tl]. cbn [snd] in H. subst tl.
  destruct (map_res_returns parse Hp lines) as [M1 M2]. destruct (map_res parse lines); cbn [rbind]; congruence.
Qed.
Lemma long_line_release max s : release_checks_scanner_err = true -> too_long max s -> read_release_max max s = Err.
Proof.
  intros F H. apply too_long_scan in H. unfold read_release_max. destruct (scan_lines max s) as [lines tl]. cbn [snd] in H. subst tl.
  rewrite F. destruct (release_lines_returns lines []) as [R1 R2].
  destruct (release_lines lines []); cbn [rbind andb]; congruence.
Qed.
(* the hypothesis is satisfiable: one line of max bytes *)
Fixpoint srepeat (c : ascii) (n : nat) : string := match n with O => EmptyString | S k => String c (srepeat c k) end.
Lemma nlen_srepeat c n : nlen (srepeat c n) = N.of_nat n.
Proof. induction n as [|n IH]; cbn [srepeat nlen]; [reflexivity|]. rewrite IH. lia. Qed.
Lemma has_char_srepeat c d n : c <> d -> has_char c (srepeat d n) = false.
Proof.
  intro H. induction n as [|n IH]; cbn [srepeat has_char]; [reflexivity|]. rewrite IH, orb_false_r.
  apply Ascii.eqb_neq. congruence.
Qed.
Lemma too_long_example max : (1 <= max)%N -> too_long max (srepeat "x" (N.to_nat max)).
Proof.
  intro H. exists (srepeat "x" (N.to_nat max)). split; [|rewrite nlen_srepeat; lia].
  unfold raw_lines. rewrite split_on_single by (apply has_char_srepeat; discriminate).
  destruct (N.to_nat max) as [|k] eqn:E; [lia|]. left. reflexivity.
Qed.
Lemma parse_perms_returns s : Returns (parse_perms s).
Proof. split; [apply parse_perms_np|apply parse_perms_nf]. Qed.

(* ---- the include chain of ImageConfiguration.Load ------------------------------------------- *)
Lemma load_chain_self_diverges p fuel : p <> "" -> load_chain fuel [(p, p)] p = OutOfFuel.
Proof.
  intro H. induction fuel as [|f IH]; [reflexivity|]. cbn [load_chain alookup]. rewrite String.eqb_refl.
  apply String.eqb_neq in H. rewrite H, IH. reflexivity.
Qed.
Lemma load_chain_two_diverges fuel : load_chain fuel [("a", "b"); ("b", "a")] "a" = OutOfFuel /\ load_chain fuel [("a", "b"); ("b", "a")] "b" = OutOfFuel.
Proof.
  induction fuel as [|f [IHa IHb]]; [split; reflexivity|]. split.
  - change (load_chain (S f) [("a", "b"); ("b", "a")] "a") with (do r <- load_chain f [("a", "b"); ("b", "a")] "b"; Ok ("a" :: r)). rewrite IHb. reflexivity.
  - change (load_chain (S f) [("a", "b"); ("b", "a")] "b") with (do r <- load_chain f [("a", "b"); ("b", "a")] "a"; Ok ("b" :: r)). rewrite IHa. reflexivity.
Qed.
Lemma alookup_key {A} k (m : list (string * A)) v : alookup k m = Some v -> In k (map fst m).
Proof.
  induction m as [|[k' v'] m IH]; cbn [alookup map fst In]; [discriminate|].
  destruct (k' =? k) eqn:E; [apply String.eqb_eq in E; auto|auto].
Qed.
Lemma load_chain_fixed_returns fs : forall fuel seen path,
  NoDup seen -> incl seen (map fst fs) -> (List.length fs + 1 <= fuel + List.length seen)%nat ->
  Returns (load_chain_fixed fuel fs seen path).
Proof.
  induction fuel as [|f IH]; intros seen path ND IN L.
  - cbn [load_chain_fixed]. exfalso. pose proof (NoDup_incl_length ND IN) as B. rewrite map_length in B. lia.
  - cbn [load_chain_fixed]. destruct (alookup path fs) as [inc|] eqn:A; [|apply returns_err].
    destruct (existsb (String.eqb path) seen) eqn:E; [apply returns_err|].
    destruct (inc =? ""); [apply returns_ok|].
    apply returns_bind; [|intros; apply returns_ok]. apply IH.
    + constructor; [|exact ND]. intro I. assert (X : existsb (String.eqb path) seen = true).
      { apply existsb_exists. exists path. split; [exact I|apply String.eqb_refl]. }
      congruence.
    + intros x [<-|I]; [eapply alookup_key; eauto|apply IN, I].
    + cbn [List.length]. lia.
Qed.
Lemma load_chain_fixed_same fs : forall fuel seen path l,
  load_chain fuel fs path = Ok l -> (forall x, In x l -> ~ In x seen) -> NoDup l -> load_chain_fixed fuel fs seen path = Ok l.
Proof.
  induction fuel as [|f IH]; intros seen path l H NI ND; [discriminate|].
  cbn [load_chain load_chain_fixed] in *. destruct (alookup path fs) as [inc|]; [|discriminate].
  assert (Hp : In path l) by (destruct (inc =? ""); [inversion H; left; reflexivity|destruct (load_chain f fs inc); try discriminate; inversion H; left; reflexivity]).
  assert (E : existsb (String.eqb path) seen = false).
  { destruct (existsb (String.eqb path) seen) eqn:X; [|reflexivity]. apply existsb_exists in X. destruct X as (y & I & Ey).
    apply String.eqb_eq in Ey. subst y. exfalso. exact (NI path Hp I). }
  rewrite E. destruct (inc =? ""); [exact H|].
  destruct (load_chain f fs inc) as [r| | |] eqn:R; try discriminate. cbn [rbind] in H. inversion H; subst l.
  inversion ND as [|? ? Hn Hr]; subst.
  rewrite (IH (path :: seen) inc r R); [reflexivity| |exact Hr].
  intros x Ix [<-|I]; [exact (Hn Ix)|]. apply (NI x); [right; exact Ix|exact I].
Qed.
Lemma load_chain_fixed_ok fs : forall fuel seen path l, load_chain_fixed fuel fs seen path = Ok l -> load_chain fuel fs path = Ok l.
Proof.
  induction fuel as [|f IH]; intros seen path l H; [discriminate|]. cbn [load_chain load_chain_fixed] in *.
  destruct (alookup path fs) as [inc|]; [|discriminate]. destruct (existsb _ seen); [discriminate|].
  destruct (inc =? ""); [exact H|]. destruct (load_chain_fixed f fs (path :: seen) inc) as [r| | |] eqn:R; try discriminate.
  rewrite (IH _ _ _ R). exact H.
Qed.
