(* C01 proofs, part 2: the generated date folds, the repositories file along the
   generated build steps, InstallPackages under the limit of its goroutine group. *)
From Apko Require Import Base.Prelude Base.C01Lib Model.Repro Spec.ReproSpec Proofs.ReproProofs
  Model.BuildSteps Proofs.BuildStepsProofs Model.Repro2.
From Coq Require Import Permutation Sorted Lia ZArith.
Open Scope string_scope. Open Scope list_scope.

(* ====================================================================== *)
(* 1. date folds                                                            *)
(* ====================================================================== *)
Lemma after_max acc new : (if after new acc then new else acc) = Z.max acc new.
Proof. unfold after. destruct (Z.ltb_spec acc new); lia. Qed.

(* a fold whose round keeps the later of the running value and the new one, that
   starts from the configured date and whose running value is what is used, is
   the running maximum of Repro.multi_arch_bde / pkg_bde *)
Lemma fold_run_running_max (c : fold_code) :
  (forall init acc new, fold_step c init acc new = Some (Z.max acc new)) ->
  code_get "init" c = "init" ->
  forall sde l, fold_run c sde l = Some (multi_arch_bde sde l).
Proof.
  intros Hs Hi sde l. unfold fold_run, multi_arch_bde. rewrite Hi. simpl.
  assert (G : forall acc, fold_left (fun a new => match a with Some acc => fold_step c sde acc new | None => None end) l (Some acc) =
                          Some (fold_left (fun m b => if after b m then b else m) l acc)).
  { induction l as [|b l IH]; intros acc; simpl; [reflexivity|]. rewrite Hs, <- after_max. apply IH. }
  apply G.
Qed.

Lemma fold_result_running_max (c : fold_code) :
  (forall init acc new, fold_step c init acc new = Some (Z.max acc new)) ->
  code_get "init" c = "init" -> code_get "result" c = "acc" ->
  forall sde l, fold_result c sde l = Some (multi_arch_bde sde l).
Proof.
  intros Hs Hi Hr sde l. unfold fold_result. rewrite (fold_run_running_max c Hs Hi), Hr. reflexivity.
Qed.

Lemma multi_arch_bde_is_pkg_bde sde l : multi_arch_bde sde l = pkg_bde sde l.
Proof. reflexivity. Qed.

(* the order-independence and "latest" facts for every such fold *)
Lemma running_max_fold_spec (c : fold_code) :
  (forall init acc new, fold_step c init acc new = Some (Z.max acc new)) ->
  code_get "init" c = "init" -> code_get "result" c = "acc" ->
  forall sde l l', Permutation l l' ->
    fold_result c sde l = fold_result c sde l' /\
    exists m, fold_result c sde l = Some m /\ IsLatest m (sde :: l) /\ (Forall (fun b => b = sde) l -> m = sde).
Proof.
  intros Hs Hi Hr sde l l' Pm. rewrite !(fold_result_running_max c Hs Hi Hr).
  split; [f_equal; apply multi_arch_bde_perm; exact Pm|].
  exists (multi_arch_bde sde l). split; [reflexivity|].
  split; [apply multi_arch_bde_latest | apply multi_arch_bde_fixed].
Qed.

(* a fold that compares the new value with the CONFIGURED date instead of the
   running one depends on the order: the last finisher wins *)
Lemma last_finisher_depends_on_order :
  exists sde c c', Permutation c c' /\ multi_arch_date last_finisher_fold sde c <> multi_arch_date last_finisher_fold sde c'.
Proof.
  exists 0%Z, [1700000077; 1700050077]%Z, [1700050077; 1700000077]%Z. split; [apply perm_swap|].
  vm_compute. discriminate.
Qed.

(* GetBuildDateEpoch over such a fold is Repro.build_date_epoch *)
Lemma build_date_running_max (c : fold_code) :
  (forall init acc new, fold_step c init acc new = Some (Z.max acc new)) ->
  code_get "init" c = "init" -> code_get "result" c = "acc" ->
  code_get "over" c = "installed" -> code_get "env_set_returns" c = "init" ->
  forall flag env times, build_date c flag env times = Some (build_date_epoch flag env times).
Proof.
  intros Hs Hi Hr Ho He flag env times. unfold build_date, build_date_epoch. rewrite Ho, He. simpl.
  destruct env as [v|]; [reflexivity|]. rewrite (fold_result_running_max c Hs Hi Hr). reflexivity.
Qed.

(* ====================================================================== *)
(* 2. /etc/apk/repositories along the generated steps                       *)
(* ====================================================================== *)
Lemma exec_cons (S : Type) (sem : string -> S -> res S) n r s :
  exec S sem (n :: r) s = rbind (sem n s) (fun x => exec S sem r x).
Proof. reflexivity. Qed.

(* once the list is written, no later step of the build changes it *)
Lemma exec_repos_fixed c srcs l : repo_set c srcs = Some l ->
  forall t, exec (list string) (repos_sem c srcs) t l = Ok l.
Proof.
  intros H. induction t as [|n t IH]; [reflexivity|]. rewrite exec_cons. unfold repos_sem at 1.
  destruct (String.eqb n "bc.apk.SetRepositories"); [rewrite H|]; simpl; exact IH.
Qed.

Lemma exec_repos_after_set c srcs l : repo_set c srcs = Some l ->
  forall t st, In "bc.apk.SetRepositories" t -> exec (list string) (repos_sem c srcs) t st = Ok l.
Proof.
  intros H. induction t as [|n t IH]; intros st Hin; [destruct Hin|]. rewrite exec_cons. unfold repos_sem at 1.
  destruct (String.eqb n "bc.apk.SetRepositories") eqn:E.
  - rewrite H. simpl. apply exec_repos_fixed. exact H.
  - simpl. apply IH. destruct Hin as [Hn|Hin]; [|exact Hin]. subst n. rewrite String.eqb_refl in E. discriminate.
Qed.

(* every configuration is one of the enumerated valuations of the condition texts *)
Lemma set_before_serialise_all defs :
  forallb (fun v => set_before_serialise defs (val_fun v)) (all_vals (dedup (conds_of defs))) = true ->
  forall cond, set_before_serialise defs cond = true.
Proof.
  intros H cond. rewrite forallb_forall in H.
  specialize (H _ (val_of_in cond (dedup (conds_of defs)))).
  unfold set_before_serialise, build_trace in *.
  assert (E : trace 8 defs cond [([], entry_point)] =
              trace 8 defs (val_fun (val_of cond (dedup (conds_of defs)))) [([], entry_point)]).
  { apply trace_ext.
    - intros c Hc. symmetry. apply val_of_fun. apply in_dedup. exact Hc.
    - intros c Hc. destruct Hc. }
  rewrite E. exact H.
Qed.

(* whatever the build-time file was (the temp path of a base image's index
   included), a build that serialises a layer serialises the list of [srcs] *)
Theorem final_repos_is_runtime defs srcs :
  forallb (fun v => set_before_serialise defs (val_fun v)) (all_vals (dedup (conds_of defs))) = true ->
  forall cond c l, repo_set c srcs = Some l ->
  forall st, final_repos defs srcs cond c st = None \/ final_repos defs srcs cond c st = Some (Ok l).
Proof.
  intros H cond c l Hl st. pose proof (set_before_serialise_all defs H cond) as B.
  unfold final_repos, set_before_serialise in *.
  destruct (split_at_serialiser (fst (build_trace defs cond))) as [[[before s] aft]|]; [|left; reflexivity].
  right. f_equal. apply exec_repos_after_set; [exact Hl|]. apply in_list_spec. exact B.
Qed.

Corollary final_repos_independent defs srcs :
  forallb (fun v => set_before_serialise defs (val_fun v)) (all_vals (dedup (conds_of defs))) = true ->
  forall cond c l, repo_set c srcs = Some l ->
  forall st st', final_repos defs srcs cond c st = final_repos defs srcs cond c st'.
Proof.
  intros H cond c l Hl st st'.
  assert (N : forall s, final_repos defs srcs cond c s = None <-> split_at_serialiser (fst (build_trace defs cond)) = None).
  { intros s. unfold final_repos. destruct (split_at_serialiser (fst (build_trace defs cond))) as [[[b x] a]|]; split; intro; try discriminate; reflexivity. }
  destruct (final_repos_is_runtime defs srcs H cond c l Hl st) as [E|E];
  destruct (final_repos_is_runtime defs srcs H cond c l Hl st') as [E'|E']; rewrite E, E'; try reflexivity.
  - apply N in E. apply (N st') in E. rewrite E in E'. discriminate.
  - apply N in E'. apply (N st) in E'. rewrite E' in E. discriminate.
Qed.

(* the union of fields whose elements are those of the runtime lists is the model's runtime list *)
Lemma repo_set_runtime c srcs l : srcs <> [] -> repo_union c srcs = Some l ->
  (forall x, In x l <-> In x (rc_runtime c ++ rc_xruntime c)) ->
  repo_set c srcs = Some (canon_runtime_repos (rc_runtime c) (rc_xruntime c)).
Proof.
  intros Hn Hu Hin. unfold repo_set, canon_runtime_repos. destruct srcs; [contradiction|].
  rewrite Hu. simpl. f_equal. apply set_list_ext. exact Hin.
Qed.

Lemma repo_set_build c srcs l : srcs <> [] -> repo_union c srcs = Some l ->
  (forall x, In x l <-> In x (rc_build c ++ rc_runtime c ++ rc_xbuild c ++ rc_xruntime c)) ->
  repo_set c srcs = Some (canon_build_repos (rc_build c) (rc_runtime c) (rc_xbuild c) (rc_xruntime c)).
Proof.
  intros Hn Hu Hin. unfold repo_set, canon_build_repos. destruct srcs; [contradiction|].
  rewrite Hu. simpl. f_equal. apply set_list_ext. exact Hin.
Qed.

(* ====================================================================== *)
(* 3. InstallPackages under the limit                                       *)
(* ====================================================================== *)
Lemma nat_mem_false x l : nat_mem x l = false -> ~ In x l.
Proof.
  unfold nat_mem. intros H Hin. assert (T : existsb (Nat.eqb x) l = true).
  { apply existsb_exists. exists x. split; [exact Hin | apply Nat.eqb_refl]. }
  rewrite T in H. discriminate.
Qed.

Lemma missing_index : forall n (l : list nat), List.length l < n -> exists i, i < n /\ ~ In i l.
Proof.
  induction n as [|n IH]; intros l H; [lia|].
  destruct (in_dec Nat.eq_dec n l) as [Hin|Hn]; [|exists n; split; [lia | exact Hn]].
  pose proof (remove_length_lt Nat.eq_dec l n Hin) as L.
  destruct (IH (remove Nat.eq_dec n l)) as [i [Hi Hni]]; [lia|].
  exists i. split; [lia|]. intros Hc. apply Hni. apply in_in_remove; [lia | exact Hc].
Qed.

Section LimitProofs.
  Variables (P E St : Type).
  Variable expand : P -> option E.
  Variable install : St -> nat -> P -> E -> option St.
  Variable pkgs : list P.
  Variable limit : option nat.

  Notation stepI := (step P E St expand install pkgs).
  Notation N := (List.length pkgs).
  Notation lstepI := (lstep P E St expand install pkgs).
  Notation lrunI := (lrun P E St expand install pkgs).
  Notation lvalidI := (lvalid P E St expand install pkgs limit).
  Notation enabledI := (enabled P St pkgs limit).
  Notation aliveI := (alive P St pkgs).
  Notation activeI := (active P St pkgs).

  Lemma step_Step_done s : i_done St (stepI s Step) = i_done St s.
  Proof.
    simpl. destruct (i_state St s); [|reflexivity]. destruct (nth_error pkgs (i_next St s)); [|reflexivity].
    destruct (nat_mem (i_next St s) (i_done St s)); [|reflexivity].
    destruct (expand p); [|reflexivity]. destruct (install s0 (i_next St s) p e); reflexivity.
  Qed.

  (* a turn of a dead installer changes nothing *)
  Lemma step_Step_dead s : aliveI s = false -> stepI s Step = s.
  Proof.
    unfold alive. simpl. destruct (i_state St s) as [fs|]; [|reflexivity].
    intros H. apply Nat.ltb_ge in H. apply nth_error_None in H. rewrite H. reflexivity.
  Qed.

  Lemma alive_Done s i : aliveI (stepI s (Done i)) = aliveI s.
  Proof. reflexivity. Qed.

  Lemma run_done_list sched : forall s, i_done St (fold_left stepI sched s) = rev (dones sched) ++ i_done St s.
  Proof.
    induction sched as [|e t IH]; intros s; [reflexivity|]. simpl fold_left. rewrite IH.
    destruct e as [i|].
    - simpl. rewrite <- app_assoc. reflexivity.
    - rewrite step_Step_done. reflexivity.
  Qed.

  Lemma lrun_erase es : forall s, l_ist St (lrunI s es) = fold_left stepI (erase es) (l_ist St s).
  Proof.
    induction es as [|e t IH]; intros s; [reflexivity|]. unfold lrun in *. simpl fold_left. rewrite IH.
    destruct e; reflexivity.
  Qed.

  Lemma lvalid_app a : forall s b, lvalidI s (a ++ b) = lvalidI s a && lvalidI (lrunI s a) b.
  Proof.
    induction a as [|e a IH]; intros s b; [reflexivity|]. simpl. rewrite IH. unfold lrun. simpl. apply andb_assoc.
  Qed.

  (* what stays true of every state of a run *)
  Definition LInv (s : lstate St) : Prop :=
    NoDup (i_done St (l_ist St s)) /\ (forall i, In i (i_done St (l_ist St s)) -> i < l_started St s) /\ l_started St s <= N /\
    (forall L, limit = Some L -> 1 <= L -> activeI s <= L).

  Lemma linv_init fs : LInv (linit St fs).
  Proof.
    unfold LInv, linit, active. simpl. split; [constructor|]. split; [intros i []|]. split; [lia|].
    intros L _ HL. destruct (alive P St pkgs (init St fs)); lia.
  Qed.

  Lemma linv_step s e : LInv s -> enabledI s e = true -> LInv (lstepI s e).
  Proof.
    intros [Hnd [Hlt [Hle Hact]]] En. destruct e as [|i|]; unfold LInv; simpl in *.
    - apply andb_true_iff in En. destruct En as [E1 E2]. apply Nat.ltb_lt in E1.
      split; [exact Hnd|]. split; [intros i Hi; specialize (Hlt i Hi); lia|]. split; [lia|].
      intros L HL H1. specialize (Hact L HL H1). rewrite HL in E2. apply Nat.ltb_lt in E2.
      unfold active in *. cbn [l_started l_ist] in *. destruct (aliveI (l_ist St s)); lia.
    - apply andb_true_iff in En. destruct En as [E1 E2]. apply Nat.ltb_lt in E1. apply negb_true_iff in E2.
      split; [constructor; [apply nat_mem_false; exact E2 | exact Hnd]|].
      split; [intros j [Hj|Hj]; [subst; exact E1 | exact (Hlt j Hj)]|]. split; [exact Hle|].
      intros L HL H1. specialize (Hact L HL H1). unfold active in *. simpl in *.
      change (alive P St pkgs {| i_done := i :: i_done St (l_ist St s); i_next := i_next St (l_ist St s); i_state := i_state St (l_ist St s) |})
        with (aliveI (l_ist St s)). lia.
    - fold (stepI (l_ist St s) Step). rewrite step_Step_done.
      split; [exact Hnd|]. split; [exact Hlt|]. split; [exact Hle|].
      intros L HL H1. specialize (Hact L HL H1). unfold active in *. simpl. fold (stepI (l_ist St s) Step). rewrite step_Step_done.
      destruct (aliveI (l_ist St s)) eqn:A.
      + destruct (aliveI (stepI (l_ist St s) Step)); lia.
      + rewrite (step_Step_dead _ A), A. exact Hact.
  Qed.

  Lemma linv_run es : forall s, LInv s -> lvalidI s es = true -> LInv (lrunI s es).
  Proof.
    induction es as [|e t IH]; intros s I V; [exact I|]. simpl in V. apply andb_true_iff in V. destruct V as [V1 V2].
    unfold lrun. simpl. apply IH; [apply linv_step; assumption | exact V2].
  Qed.

  (* NoDup below a bound: no more elements than the bound *)
  Lemma done_le_started s : LInv s -> List.length (i_done St (l_ist St s)) <= l_started St s.
  Proof.
    intros [Hnd [Hlt _]]. rewrite <- (seq_length (l_started St s) 0).
    apply NoDup_incl_length; [exact Hnd|]. intros i Hi. apply in_seq. specialize (Hlt i Hi). lia.
  Qed.

  (* (a) containment: a complete run under the limit is one of the schedules of
     c01_install_schedule — its completions are a permutation of 0..N-1 — and the
     installer state is the one of the erased schedule *)
  Theorem limited_run_is_schedule fs es :
    lvalidI (linit St fs) es = true -> all_finished P St pkgs (lrunI (linit St fs) es) = true ->
    Permutation (dones (erase es)) (seq 0 N) /\
    l_ist St (lrunI (linit St fs) es) = run P E St expand install pkgs fs (erase es).
  Proof.
    intros V F. pose proof (linv_run es _ (linv_init fs) V) as I.
    assert (R : l_ist St (lrunI (linit St fs) es) = run P E St expand install pkgs fs (erase es)) by (apply lrun_erase).
    split; [|exact R].
    destruct I as [Hnd [Hlt [Hle _]]]. unfold all_finished in F. apply Nat.eqb_eq in F.
    rewrite R in Hnd, Hlt, F. unfold run in Hnd, Hlt, F. rewrite run_done_list in Hnd, Hlt, F. simpl in Hnd, Hlt, F.
    rewrite app_nil_r in Hnd, Hlt, F.
    apply perm_trans with (rev (dones (erase es))); [apply Permutation_rev|].
    apply NoDup_Permutation_bis; [exact Hnd | rewrite seq_length; lia |].
    intros i Hi. apply in_seq. specialize (Hlt i Hi). lia.
  Qed.

  (* (b) what the limit removes: expansion i cannot finish before enough earlier
     ones have — at most L goroutines of the group run, one of them the installer
     while it is alive *)
  Theorem limited_done_bound fs es1 i es2 L :
    limit = Some L -> 1 <= L -> lvalidI (linit St fs) (es1 ++ LDone i :: es2) = true ->
    i + (if aliveI (l_ist St (lrunI (linit St fs) es1)) then 1 else 0) < List.length (dones (erase es1)) + L.
  Proof.
    intros HL H1 V. rewrite lvalid_app in V. apply andb_true_iff in V. destruct V as [V1 V2].
    pose proof (linv_run es1 _ (linv_init fs) V1) as I.
    simpl in V2. apply andb_true_iff in V2. destruct V2 as [V2 _]. apply andb_true_iff in V2. destruct V2 as [E1 _].
    apply Nat.ltb_lt in E1. pose proof (done_le_started _ I) as D. destruct I as [_ [_ [_ Hact]]].
    specialize (Hact L HL H1). unfold active in Hact.
    assert (Len : List.length (i_done St (l_ist St (lrunI (linit St fs) es1))) = List.length (dones (erase es1))).
    { rewrite lrun_erase, run_done_list. simpl. rewrite app_nil_r, rev_length. reflexivity. }
    rewrite Len in *. destruct (aliveI (l_ist St (lrunI (linit St fs) es1))); lia.
  Qed.

  (* the same bound at the START of an expansion (what a server sees as the arrival of its request) *)
  Theorem limited_start_bound fs es1 es2 L :
    limit = Some L -> lvalidI (linit St fs) (es1 ++ LStart :: es2) = true ->
    l_started St (lrunI (linit St fs) es1) + (if aliveI (l_ist St (lrunI (linit St fs) es1)) then 1 else 0)
      < List.length (dones (erase es1)) + L.
  Proof.
    intros HL V. rewrite lvalid_app in V. apply andb_true_iff in V. destruct V as [V1 V2].
    pose proof (linv_run es1 _ (linv_init fs) V1) as I.
    simpl in V2. apply andb_true_iff in V2. destruct V2 as [V2 _]. apply andb_true_iff in V2. destruct V2 as [_ E2].
    rewrite HL in E2. apply Nat.ltb_lt in E2. pose proof (done_le_started _ I) as D. unfold active in E2.
    assert (Len : List.length (i_done St (l_ist St (lrunI (linit St fs) es1))) = List.length (dones (erase es1))).
    { rewrite lrun_erase, run_done_list. simpl. rewrite app_nil_r, rev_length. reflexivity. }
    rewrite Len in *. destruct (aliveI (l_ist St (lrunI (linit St fs) es1))); lia.
  Qed.

  (* (c) progress: with no limit, or a limit of at least two (the installer's slot
     and one more), an unfinished run always has a start or a completion enabled —
     the expansions never wait for the installer *)
  Theorem limited_progress fs es :
    (limit = None \/ exists L, limit = Some L /\ 2 <= L) ->
    lvalidI (linit St fs) es = true -> all_finished P St pkgs (lrunI (linit St fs) es) = false ->
    exists e, e <> LStep /\ enabledI (lrunI (linit St fs) es) e = true.
  Proof.
    intros HL V F. pose proof (linv_run es _ (linv_init fs) V) as I. set (s := lrunI (linit St fs) es) in *.
    pose proof (done_le_started _ I) as D. destruct I as [Hnd [Hlt [Hle Hact]]].
    unfold all_finished in F. apply Nat.eqb_neq in F.
    destruct (Nat.eq_dec (List.length (i_done St (l_ist St s))) (l_started St s)) as [Eq|Ne].
    - exists LStart. split; [discriminate|]. simpl. apply andb_true_iff. split; [apply Nat.ltb_lt; lia|].
      destruct HL as [HL|[L [HL H2]]]; rewrite HL; [reflexivity|]. apply Nat.ltb_lt. unfold active.
      destruct (aliveI (l_ist St s)); lia.
    - destruct (missing_index (l_started St s) (i_done St (l_ist St s))) as [i [Hi Hn]]; [lia|].
      exists (LDone i). split; [discriminate|]. simpl. apply andb_true_iff. split; [apply Nat.ltb_lt; exact Hi|].
      apply negb_true_iff. destruct (nat_mem i (i_done St (l_ist St s))) eqn:M; [|reflexivity].
      exfalso. apply Hn. unfold nat_mem in M. apply existsb_exists in M. destruct M as [x [Hx Ex]].
      apply Nat.eqb_eq in Ex. subst. exact Hx.
  Qed.
End LimitProofs.

(* a limit of one would be taken by the installer, which waits for an expansion that is never started *)
Lemma limit_one_deadlocks :
  let s := linit (list string) ([] : list string) in
  let pkgs := ["a"] in
  let expand := fun p : string => Some p in
  let install := fun (st : list string) (_ : nat) (p e : string) => Some (st ++ [e]) in
  all_finished string (list string) pkgs s = false /\
  enabled string (list string) pkgs (Some 1) s LStart = false /\
  (forall i, enabled string (list string) pkgs (Some 1) s (LDone i) = false) /\
  lstep string string (list string) expand install pkgs s LStep = s.
Proof. simpl. repeat split; reflexivity. Qed.

(* GOMAXPROCS is at least one: g.SetLimit(GOMAXPROCS + k) with k >= 1 (or no limit) is a limit that cannot block *)
Definition limit_extra_ok (extra : option nat) : bool := match extra with Some k => Nat.leb 1 k | None => true end.
Lemma install_limit_good extra jobs : limit_extra_ok extra = true -> 1 <= jobs ->
  install_limit extra jobs = None \/ exists L, install_limit extra jobs = Some L /\ 2 <= L.
Proof.
  unfold limit_extra_ok, install_limit. destruct extra as [k|]; intros H J; [|left; reflexivity].
  apply Nat.leb_le in H. cbn [option_map]. right. exists (jobs + k). split; [reflexivity | lia].
Qed.

(* ====================================================================== *)
(* 4. wave 3                                                                *)
(* ====================================================================== *)
Lemma file_after_fresh {A} flags (old new : list A) : opens_fresh flags = true -> file_after flags old new = new.
Proof. intro H. unfold file_after. rewrite H. reflexivity. Qed.

Lemma file_after_keeps_tail : exists (old new : list nat) flags, opens_fresh flags = false /\ file_after flags old new <> new.
Proof. exists [1; 2; 3], [9], ["O_CREATE"; "O_RDWR"]. split; [reflexivity|]. vm_compute. discriminate. Qed.

Lemma upd_length {A} (v : A) : forall l i, List.length (upd i v l) = List.length l.
Proof. induction l as [|x l IH]; intros [|i]; simpl; auto. Qed.

Lemma upd_nth_same {A} (v : A) : forall l i, i < List.length l -> nth_error (upd i v l) i = Some v.
Proof. induction l as [|x l IH]; intros [|i] H; simpl in *; try lia; [reflexivity | apply IH; lia]. Qed.

Lemma upd_nth_other {A} (v : A) : forall l i j, i <> j -> nth_error (upd i v l) j = nth_error l j.
Proof. induction l as [|x l IH]; intros [|i] [|j] H; simpl; try reflexivity; [contradiction | apply IH; lia]. Qed.

Lemma list_ext_nth_error {A} : forall l l' : list A, List.length l = List.length l' ->
  (forall j, j < List.length l -> nth_error l j = nth_error l' j) -> l = l'.
Proof.
  induction l as [|x l IH]; intros [|y l'] HL H; simpl in HL; try discriminate; [reflexivity|].
  pose proof (H 0 ltac:(simpl; lia)) as H0. simpl in H0. inversion H0; subst. f_equal.
  apply IH; [lia|]. intros j Hj. apply (H (S j)). simpl. lia.
Qed.

Section ByPosition.
  Variable A : Type.
  Variable results : list (option A).
  Let stepP := fun (l : list (option A)) i => match nth_error results i with Some r => upd i r l | None => l end.

  Lemma by_position_inv : forall sched acc, List.length acc = List.length results ->
    List.length (fold_left stepP sched acc) = List.length results /\
    forall j, j < List.length results -> (In j sched \/ nth_error acc j = nth_error results j) ->
              nth_error (fold_left stepP sched acc) j = nth_error results j.
  Proof.
    induction sched as [|i t IH]; intros acc HL; simpl.
    - split; [exact HL|]. intros j _ [[]|H]. exact H.
    - assert (HL1 : List.length (stepP acc i) = List.length results).
      { unfold stepP. destruct (nth_error results i); [rewrite upd_length|]; exact HL. }
      destruct (IH (stepP acc i) HL1) as [L N]. split; [exact L|].
      intros j Hj H. apply N; [exact Hj|].
      destruct (Nat.eq_dec i j) as [->|Ne].
      + right. unfold stepP. destruct (nth_error results j) as [r|] eqn:E.
        * apply upd_nth_same. rewrite HL. exact Hj.
        * apply nth_error_None in E. lia.
      + destruct H as [[H|H]|H]; [contradiction | left; exact H | right].
        unfold stepP. destruct (nth_error results i); [rewrite upd_nth_other by exact Ne|]; exact H.
  Qed.

  (* every completion order of the goroutines gives the repository order *)
  Theorem by_position_schedule sched : (forall j, j < List.length results -> In j sched) ->
    by_position results sched = results.
  Proof.
    intro Hall. unfold by_position.
    destruct (by_position_inv sched (repeat None (List.length results)) (repeat_length _ _)) as [L N].
    apply list_ext_nth_error; [exact L|]. intros j Hj.
    assert (Hj' : j < List.length results) by (rewrite <- L; exact Hj).
    apply N; [exact Hj'|]. left. apply Hall. exact Hj'.
  Qed.
End ByPosition.

Corollary indexes_by_position_schedule {A} (results : list (option A)) sched sched' :
  Permutation sched (seq 0 (List.length results)) -> Permutation sched' (seq 0 (List.length results)) ->
  indexes_by_position results sched = indexes_by_position results sched' /\
  indexes_by_position results sched = drop_holes results.
Proof.
  intros P P'. unfold indexes_by_position.
  assert (G : forall s, Permutation s (seq 0 (List.length results)) -> by_position results s = results).
  { intros s Ps. apply by_position_schedule. intros j Hj. eapply Permutation_in; [apply Permutation_sym; exact Ps|]. apply in_seq. lia. }
  rewrite (G _ P), (G _ P'). split; reflexivity.
Qed.

Lemma indexes_by_arrival_depends_on_order :
  exists (results : list (option string)) sched sched', Permutation sched sched' /\
    indexes_by_arrival results sched <> indexes_by_arrival results sched'.
Proof.
  exists [Some "primary"; Some "mirror"], [0; 1], [1; 0]. split; [apply perm_swap|]. vm_compute. discriminate.
Qed.

(* ====================================================================== *)
(* 5. round 2: arbitrary other steps, SetRepositories last                  *)
(* ====================================================================== *)
Lemma exec_app (S : Type) (sem : string -> S -> res S) a : forall b s,
  exec S sem (a ++ b) s = rbind (exec S sem a s) (fun x => exec S sem b x).
Proof.
  induction a as [|n a IH]; intros b s; [reflexivity|]. simpl app. rewrite !exec_cons.
  destruct (sem n s) as [x| | |]; simpl; [apply IH | reflexivity | reflexivity | reflexivity].
Qed.

Lemma filter_last_split {A} (f : A -> bool) : forall l m x, filter f l = m ++ [x] ->
  exists pre post, l = pre ++ x :: post /\ filter f post = [].
Proof.
  induction l as [|a l IH]; intros m x H; simpl in H; [destruct m; discriminate|].
  destruct (f a) eqn:Fa.
  - destruct m as [|a' m'].
    + simpl in H. injection H as Ha Hl. subst a. exists [], l. split; [reflexivity | exact Hl].
    + simpl in H. injection H as Ha Hl. subst a'. destruct (IH m' x Hl) as [pre [post [E1 E2]]].
      exists (a :: pre), post. split; [rewrite E1; reflexivity | exact E2].
  - destruct (IH m x H) as [pre [post [E1 E2]]]. exists (a :: pre), post. split; [rewrite E1; reflexivity | exact E2].
Qed.

Lemma set_last_before_serialise_all defs :
  forallb (fun v => set_last_before_serialise defs (val_fun v)) (all_vals (dedup (conds_of defs))) = true ->
  forall cond, set_last_before_serialise defs cond = true.
Proof.
  intros H cond. rewrite forallb_forall in H.
  specialize (H _ (val_of_in cond (dedup (conds_of defs)))).
  unfold set_last_before_serialise, build_trace in *.
  assert (E : trace 8 defs cond [([], entry_point)] =
              trace 8 defs (val_fun (val_of cond (dedup (conds_of defs)))) [([], entry_point)]).
  { apply trace_ext.
    - intros c Hc. symmetry. apply val_of_fun. apply in_dedup. exact Hc.
    - intros c Hc. destruct Hc. }
  rewrite E. exact H.
Qed.

(* the steps after SetRepositories, up to the serialiser, are pure calls: they leave the file alone *)
Lemma exec_pure_tail other c srcs : forall post (l : list string),
  filter mutating post = [] -> (forall n, In n post -> in_list n serialisers = false) ->
  (forall n, In n post -> n <> "bc.apk.SetRepositories") ->
  exec (list string) (repos_sem_any other c srcs) post l = Ok l.
Proof.
  induction post as [|n post IH]; intros l F S NS; [reflexivity|]. rewrite exec_cons.
  simpl in F. destruct (mutating n) eqn:M; [discriminate|].
  unfold mutating in M. rewrite (S n (or_introl eq_refl)) in M. simpl in M. rewrite andb_true_r in M.
  apply negb_false_iff in M. unfold repos_sem_any at 1.
  destruct (String.eqb n "bc.apk.SetRepositories") eqn:E; [apply String.eqb_eq in E; exfalso; exact (NS n (or_introl eq_refl) E)|].
  rewrite M. simpl. apply IH; [exact F | intros k Hk; apply S; right; exact Hk | intros k Hk; apply NS; right; exact Hk].
Qed.

Theorem final_repos_any_is_runtime defs srcs :
  forallb (fun v => set_last_before_serialise defs (val_fun v)) (all_vals (dedup (conds_of defs))) = true ->
  forall other cond c l, repo_set c srcs = Some l ->
  forall st r, final_repos_any other defs srcs cond c st = Some (Ok r) -> r = l.
Proof.
  intros H other cond c l Hl st r. pose proof (set_last_before_serialise_all defs H cond) as B.
  unfold final_repos_any, set_last_before_serialise in *.
  destruct (split_at_serialiser (fst (build_trace defs cond))) as [[[before s] aft]|] eqn:ES; [|discriminate].
  apply split_at_serialiser_spec in ES. destruct ES as [_ [_ NoSer]].
  destruct (rev (filter mutating before)) as [|lastm rest] eqn:ER; [discriminate|].
  apply String.eqb_eq in B. subst lastm.
  assert (EF : filter mutating before = rev rest ++ ["bc.apk.SetRepositories"]).
  { rewrite <- (rev_involutive (filter mutating before)), ER. reflexivity. }
  destruct (filter_last_split mutating before _ _ EF) as [pre [post [EB FP]]]. subst before.
  intros E. inversion E as [E1]. clear E. rewrite exec_app in E1.
  destruct (exec (list string) (repos_sem_any other c srcs) pre st) as [s1| | |]; cbn [rbind] in E1; try discriminate.
  rewrite exec_cons in E1. unfold repos_sem_any at 1 in E1. rewrite String.eqb_refl, Hl in E1. cbn [rbind] in E1.
  rewrite exec_pure_tail in E1.
  - inversion E1. reflexivity.
  - exact FP.
  - intros n Hn. apply NoSer. apply in_or_app. right. right. exact Hn.
  - intros n Hn En. subst n.
    assert (M : mutating "bc.apk.SetRepositories" = true) by reflexivity.
    assert (Hin : In "bc.apk.SetRepositories" (filter mutating post)) by (apply filter_In; split; assumption).
    rewrite FP in Hin. destruct Hin.
Qed.
