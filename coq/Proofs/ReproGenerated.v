(* C01 — what holds of the code goextract read from the source THIS run
   (Generated/C01Calls.v, Generated/C10Steps.v): the two date folds are running
   maxima, the repository lists are the unions the model names, every build that
   serialises a layer has rewritten /etc/apk/repositories before, the limit of
   InstallPackages' goroutine group leaves room beside the installer.  Each of
   these fails to check when the source changes what it compares / writes /
   allows, which makes the property theorems built on them unprovable. *)
From Apko Require Import Base.Prelude Base.C01Lib Model.Repro Spec.ReproSpec Proofs.ReproProofs
  Model.BuildSteps Proofs.BuildStepsProofs Model.Repro2 Proofs.Repro2Proofs
  Generated.C01Calls Generated.C10Steps.
From Apko Require Generated.C08Caches.
From Coq Require Import Permutation Lia ZArith.
Open Scope string_scope. Open Scope list_scope.

(* ---- date folds -------------------------------------------------------------- *)
Lemma multiarch_fold_step : forall init acc new, fold_step c01_multiarch_fold init acc new = Some (Z.max acc new).
Proof.
  intros init acc new. cbv - [Z.ltb Z.max]. destruct (Z.ltb_spec acc new); f_equal; lia.
Qed.
Lemma multiarch_fold_init : code_get "init" c01_multiarch_fold = "init". Proof. reflexivity. Qed.
Lemma multiarch_fold_result : code_get "result" c01_multiarch_fold = "acc". Proof. reflexivity. Qed.

Lemma bde_fold_step : forall init acc new, fold_step c01_bde_fold init acc new = Some (Z.max acc new).
Proof.
  intros init acc new. cbv - [Z.ltb Z.max]. destruct (Z.ltb_spec acc new); f_equal; lia.
Qed.
Lemma bde_fold_init : code_get "init" c01_bde_fold = "init". Proof. reflexivity. Qed.
Lemma bde_fold_result : code_get "result" c01_bde_fold = "acc". Proof. reflexivity. Qed.
Lemma bde_fold_over : code_get "over" c01_bde_fold = "installed". Proof. reflexivity. Qed.
Lemma bde_fold_env : code_get "env_set_returns" c01_bde_fold = "init". Proof. reflexivity. Qed.

Theorem multiarch_generated sde completed completed' : Permutation completed completed' ->
  multi_arch_date c01_multiarch_fold sde completed = multi_arch_date c01_multiarch_fold sde completed' /\
  exists m, multi_arch_date c01_multiarch_fold sde completed = Some m /\ IsLatest m (sde :: completed) /\
            (Forall (fun b => b = sde) completed -> m = sde).
Proof.
  exact (running_max_fold_spec c01_multiarch_fold multiarch_fold_step multiarch_fold_init multiarch_fold_result sde completed completed').
Qed.

Lemma bde_generated_is_model flag env times :
  build_date c01_bde_fold flag env times = Some (build_date_epoch flag env times).
Proof.
  exact (build_date_running_max c01_bde_fold bde_fold_step bde_fold_init bde_fold_result bde_fold_over bde_fold_env flag env times).
Qed.

Theorem bde_generated flag env times times' : Permutation times times' ->
  build_date c01_bde_fold flag env times = build_date c01_bde_fold flag env times' /\
  exists m, build_date c01_bde_fold flag env times = Some m /\
    (forall v, env = Some v -> m = resolve_sde flag env) /\
    (env = None -> IsLatest m (flag :: times)).
Proof.
  intros Pm. rewrite !bde_generated_is_model. split; [f_equal; apply build_date_epoch_perm; exact Pm|].
  exists (build_date_epoch flag env times). split; [reflexivity|]. exact (build_date_epoch_spec flag env times).
Qed.

(* ---- repository lists ----------------------------------------------------------- *)
Lemma setrepos_sources_runtime c :
  repo_set c c10_setrepos_sources = Some (canon_runtime_repos (rc_runtime c) (rc_xruntime c)).
Proof.
  eapply repo_set_runtime; [discriminate | cbn; reflexivity |].
  intros x. rewrite !in_app_iff. cbn. tauto.
Qed.

Lemma init_sources_build c :
  repo_set c c01_init_repo_sources = Some (canon_build_repos (rc_build c) (rc_runtime c) (rc_xbuild c) (rc_xruntime c)).
Proof.
  eapply repo_set_build; [discriminate | cbn; reflexivity |].
  intros x. rewrite !in_app_iff. cbn. tauto.
Qed.

(* initializeApk: the sorted union, then — on a base image — the path of its index *)
Lemma init_repos_generated c base :
  init_repos c01_init_repo_sources c01_init_repo_appends c base =
  Some (canon_build_repos (rc_build c) (rc_runtime c) (rc_xbuild c) (rc_xruntime c) ++
        match base with Some p => [p] | None => [] end).
Proof. unfold init_repos. rewrite init_sources_build. destruct base; reflexivity. Qed.

(* every valuation of the condition texts of the generated step lists: a build that
   serialises has called SetRepositories before *)
Lemma c10_set_before_serialise :
  forallb (fun v => set_before_serialise c10_steps (val_fun v)) (all_vals (dedup (conds_of c10_steps))) = true.
Proof. vm_compute. reflexivity. Qed.

Theorem repositories_generated cond c tmp tmp' st st' :
  init_repos c01_init_repo_sources c01_init_repo_appends c (Some tmp) = Some st ->
  init_repos c01_init_repo_sources c01_init_repo_appends c (Some tmp') = Some st' ->
  In tmp st /\
  final_repos c10_steps c10_setrepos_sources cond c st = final_repos c10_steps c10_setrepos_sources cond c st' /\
  (final_repos c10_steps c10_setrepos_sources cond c st = None \/
   final_repos c10_steps c10_setrepos_sources cond c st = Some (Ok (canon_runtime_repos (rc_runtime c) (rc_xruntime c)))).
Proof.
  intros H H'. rewrite init_repos_generated in H. inversion H; subst st. clear H H'.
  split; [apply in_or_app; right; left; reflexivity|].
  split; [exact (final_repos_independent c10_steps c10_setrepos_sources c10_set_before_serialise cond c _ (setrepos_sources_runtime c) _ _)|].
  exact (final_repos_is_runtime c10_steps c10_setrepos_sources c10_set_before_serialise cond c _ (setrepos_sources_runtime c) _).
Qed.

(* without the rewrite (an empty postBuildSetApk) the temp path stays: the step matters *)
Lemma repositories_need_the_rewrite :
  exists defs c tmp tmp' st st',
    init_repos c01_init_repo_sources c01_init_repo_appends c (Some tmp) = Some st /\
    init_repos c01_init_repo_sources c01_init_repo_appends c (Some tmp') = Some st' /\
    final_repos defs c10_setrepos_sources (fun _ => true) c st <> final_repos defs c10_setrepos_sources (fun _ => true) c st'.
Proof.
  exists [("bc.BuildLayers", [([], "bc.buildImage"); ([], "writeTar")])],
         {| rc_build := []; rc_runtime := ["/r"]; rc_xbuild := []; rc_xruntime := [] |}, "/tmp/a/APKINDEX", "/tmp/b/APKINDEX".
  eexists. eexists. split; [vm_compute; reflexivity|]. split; [vm_compute; reflexivity|]. vm_compute. discriminate.
Qed.

(* ---- the limit of InstallPackages' goroutine group ----------------------------------- *)
Lemma install_limit_extra_ok : limit_extra_ok c01_install_limit_extra = true.
Proof. reflexivity. Qed.

(* ---- wave 3 ---------------------------------------------------------------------------- *)
(* ImageLayoutToLayer opens the layer file truncating (or new) at every call site *)
Lemma layer_file_opens_fresh : forallb opens_fresh c01_layer_file_open = true.
Proof. reflexivity. Qed.

Theorem layer_file_generated : forall fl, In fl c01_layer_file_open ->
  forall (A : Type) (old old' new : list A), file_after fl old new = new /\ file_after fl old new = file_after fl old' new.
Proof.
  intros fl Hin A old old' new. pose proof layer_file_opens_fresh as H. rewrite forallb_forall in H. specialize (H fl Hin).
  rewrite !(file_after_fresh fl _ new H). split; reflexivity.
Qed.

(* BuildIndex, since fix 8ccf1a0 (was finding C01-F3), opens the output tarball truncating as well *)
Lemma index_file_opens_fresh : forallb opens_fresh c01_index_file_open = true.
Proof. reflexivity. Qed.

Theorem index_file_generated : forall fl, In fl c01_index_file_open ->
  forall (A : Type) (old old' new : list A), file_after fl old new = new /\ file_after fl old new = file_after fl old' new.
Proof.
  intros fl Hin A old old' new. pose proof index_file_opens_fresh as H. rewrite forallb_forall in H. specialize (H fl Hin).
  rewrite !(file_after_fresh fl _ new H). split; reflexivity.
Qed.

(* hypothetical, the flags BEFORE the fix (os.O_CREATE|os.O_RDWR): what a longer earlier out.tar held behind the new archive stays *)
Definition index_file_open_before_8ccf1a0 : list (list string) := [["O_CREATE"; "O_RDWR"]].
Lemma index_file_kept_tail_before_fix :
  exists fl, In fl index_file_open_before_8ccf1a0 /\ exists old new : list nat, file_after fl old new <> new.
Proof.
  exists ["O_CREATE"; "O_RDWR"]. split; [left; reflexivity|]. exists [1; 2; 3], [9]. vm_compute. discriminate.
Qed.

(* the process-wide caches of the resolver hand out copies (read by C08's generator) *)
Lemma caches_hand_out_copies :
  forallb (String.eqb "maps.Clone") C08Caches.dq_get_returns = true /\
  forallb (String.eqb "clone") C08Caches.resolver_get_returns = true.
Proof. split; reflexivity. Qed.

(* ---- round 2: SetRepositories is the LAST step that may change the filesystem before the serialiser ------- *)
Lemma c10_set_last_before_serialise :
  forallb (fun v => set_last_before_serialise c10_steps (val_fun v)) (all_vals (dedup (conds_of c10_steps))) = true.
Proof. vm_compute. reflexivity. Qed.

Theorem repositories_generated_any other cond c st r :
  final_repos_any other c10_steps c10_setrepos_sources cond c st = Some (Ok r) ->
  r = canon_runtime_repos (rc_runtime c) (rc_xruntime c).
Proof.
  exact (final_repos_any_is_runtime c10_steps c10_setrepos_sources c10_set_last_before_serialise other cond c _ (setrepos_sources_runtime c) st r).
Qed.
