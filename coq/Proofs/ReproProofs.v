(* C01 proofs. *)
From Apko Require Import Base.Prelude Base.C01Lib Model.Repro Spec.ReproSpec.
From Coq Require Import Permutation Sorted.
Open Scope string_scope. Open Scope list_scope.

Local Ltac perm_in P := first [ eapply Permutation_in; [exact P|] | eapply Permutation_in; [apply Permutation_sym; exact P|] ].

(* ====================================================================== *)
(* canonicalisers                                                           *)
(* ====================================================================== *)

(* ---- package list (sets.List) ---------------------------------------- *)
Lemma canon_packages_set_invariant p e p' e' :
  (forall x, In x (p ++ e) <-> In x (p' ++ e')) -> canon_packages p e = canon_packages p' e'.
Proof. intro H. apply set_list_ext. exact H. Qed.

Lemma canon_packages_perm p e p' e' :
  Permutation p p' -> Permutation e e' -> canon_packages p e = canon_packages p' e'.
Proof. intros Pp Pe. apply set_list_perm_invariant. apply Permutation_app; assumption. Qed.

(* extras given in the configuration instead of on the command line, or both: same set *)
Lemma canon_packages_split p e : canon_packages p e = canon_packages (p ++ e) [].
Proof. unfold canon_packages. rewrite app_nil_r. reflexivity. Qed.

Lemma canon_packages_spec p e :
  StrictlySortedStrings (canon_packages p e) /\ forall x, In x (canon_packages p e) <-> In x p \/ In x e.
Proof.
  split; [apply set_list_strict|]. intro x. unfold canon_packages. rewrite set_list_In. apply in_app_iff.
Qed.

(* ---- world (SetWorld) -------------------------------------------------- *)
Lemma canon_world_perm p e b p' e' b' :
  Permutation p p' -> Permutation e e' -> Permutation b b' ->
  canon_world p e b = canon_world p' e' b'.
Proof.
  intros Pp Pe Pb. unfold canon_world. rewrite (canon_packages_perm p e p' e' Pp Pe).
  apply ssort_perm_invariant. apply Permutation_app_head. exact Pb.
Qed.

Lemma canon_world_spec p e b :
  SortedStrings (canon_world p e b) /\
  forall x, In x (canon_world p e b) <-> In x p \/ In x e \/ In x b.
Proof.
  split; [apply ssort_sorted|]. intro x. unfold canon_world. rewrite ssort_In, in_app_iff.
  destruct (canon_packages_spec p e) as [_ H]. rewrite H. tauto.
Qed.

Lemma world_file_perm p e b p' e' b' :
  Permutation p p' -> Permutation e e' -> Permutation b b' -> world_file p e b = world_file p' e' b'.
Proof. intros. unfold world_file. f_equal. apply canon_world_perm; assumption. Qed.

(* whatever sort SetWorld uses, if it returns a sorted permutation it returns canon_world *)
Lemma set_world_any_sort (sort : list string -> list string) l :
  Permutation (sort l) l -> SortedStrings (sort l) -> sort l = ssort l.
Proof. apply any_string_sort_is_ssort. Qed.

(* ---- repositories, keyring --------------------------------------------- *)
Lemma canon_build_repos_perm b r xb xr b' r' xb' xr' :
  Permutation b b' -> Permutation r r' -> Permutation xb xb' -> Permutation xr xr' ->
  canon_build_repos b r xb xr = canon_build_repos b' r' xb' xr'.
Proof. intros. apply set_list_perm_invariant. repeat apply Permutation_app; assumption. Qed.

Lemma canon_runtime_repos_perm r xr r' xr' :
  Permutation r r' -> Permutation xr xr' -> canon_runtime_repos r xr = canon_runtime_repos r' xr'.
Proof. intros. apply set_list_perm_invariant. apply Permutation_app; assumption. Qed.

Lemma canon_runtime_repos_spec r xr :
  StrictlySortedStrings (canon_runtime_repos r xr) /\
  forall x, In x (canon_runtime_repos r xr) <-> In x r \/ In x xr.
Proof.
  split; [apply set_list_strict|]. intro x. unfold canon_runtime_repos. rewrite set_list_In. apply in_app_iff.
Qed.

Lemma repositories_file_perm r xr r' xr' :
  Permutation r r' -> Permutation xr xr' -> repositories_file r xr = repositories_file r' xr'.
Proof. intros. unfold repositories_file. f_equal. apply canon_runtime_repos_perm; assumption. Qed.

Lemma canon_keyring_perm k x k' x' :
  Permutation k k' -> Permutation x x' -> canon_keyring k x = canon_keyring k' x'.
Proof. intros. apply set_list_perm_invariant. apply Permutation_app; assumption. Qed.

Lemma canon_keyring_spec k x :
  StrictlySortedStrings (canon_keyring k x) /\ forall y, In y (canon_keyring k x) <-> In y k \/ In y x.
Proof.
  split; [apply set_list_strict|]. intro y. unfold canon_keyring. rewrite set_list_In. apply in_app_iff.
Qed.

(* ---- environment -------------------------------------------------------- *)
Lemma canon_env_order_invariant : OrderInvariant canon_env.
Proof. intros l l' P. unfold canon_env. apply ssort_perm_invariant. apply Permutation_map. exact P. Qed.

Lemma canon_env_spec ord :
  SortedStrings (canon_env ord) /\ Permutation (canon_env ord) (List.map env_entry ord).
Proof. split; [apply ssort_sorted | apply Permutation_sym, ssort_perm]. Qed.

Lemma filter_perm {A} (f : A -> bool) l l' : Permutation l l' -> Permutation (List.filter f l) (List.filter f l').
Proof.
  induction 1; simpl.
  - constructor.
  - destruct (f x); [apply perm_skip|]; assumption.
  - destruct (f x), (f y); try reflexivity. apply perm_swap.
  - eapply perm_trans; eassumption.
Qed.

(* the two defaults may be visited in either order, and the resulting map may
   be ranged over in any order: same Env *)
Lemma canon_env_defaults defaults defaults' env ord ord' :
  Permutation defaults defaults' ->
  Permutation ord (env_with_defaults defaults env) ->
  Permutation ord' (env_with_defaults defaults' env) ->
  canon_env ord = canon_env ord'.
Proof.
  intros Pd P P'. apply canon_env_order_invariant.
  eapply perm_trans; [exact P|]. eapply perm_trans; [|apply Permutation_sym; exact P'].
  unfold env_with_defaults. apply Permutation_app_head. apply filter_perm. exact Pd.
Qed.

(* ---- architectures, directory listings, installed-db directory keys ---- *)
Lemma canon_archs_order_invariant : OrderInvariant canon_archs.
Proof. intros l l' P. apply ssort_perm_invariant. exact P. Qed.
Lemma canon_readdir_order_invariant : OrderInvariant canon_readdir.
Proof. intros l l' P. apply ssort_perm_invariant. exact P. Qed.
Lemma canon_dir_entries_order_invariant : OrderInvariant canon_dir_entries.
Proof. intros l l' P. apply ssort_perm_invariant. exact P. Qed.

(* map keys are distinct, so the listing is strictly increasing and has the same names *)
Lemma ssort_keys_spec ord : NoDup ord ->
  StrictlySortedStrings (ssort ord) /\ forall x, In x (ssort ord) <-> In x ord.
Proof.
  intro N. split; [|intro x; apply ssort_In].
  apply sorted_nodup_strict; [apply ssort_sorted|]. eapply Permutation_NoDup; [apply ssort_perm|exact N].
Qed.

(* sort.Slice is not stable and its algorithm is not modelled: any function
   that returns a sorted permutation gives exactly this listing *)
Lemma any_sort_gives_canon (sort : list string -> list string) ord :
  Permutation (sort ord) ord -> SortedStrings (sort ord) -> sort ord = ssort ord.
Proof. apply any_string_sort_is_ssort. Qed.

(* ---- layer groups -------------------------------------------------------- *)
Lemma group_leb_total a b : group_leb a b = true \/ group_leb b a = true.
Proof.
  unfold group_leb. destruct (N.lt_trichotomy (g_size a) (g_size b)) as [H|[H|H]].
  - right. apply orb_true_iff. left. apply N.ltb_lt. exact H.
  - rewrite H, !N.eqb_refl, N.ltb_irrefl. simpl. apply sleb_total.
  - left. apply orb_true_iff. left. apply N.ltb_lt. exact H.
Qed.

Lemma group_leb_cases a b : group_leb a b = true <->
  (g_size b < g_size a)%N \/ (g_size a = g_size b /\ sleb (g_tiebreaker a) (g_tiebreaker b) = true).
Proof.
  unfold group_leb. rewrite orb_true_iff, andb_true_iff, N.ltb_lt, N.eqb_eq. tauto.
Qed.

Lemma group_leb_trans a b c : group_leb a b = true -> group_leb b c = true -> group_leb a c = true.
Proof.
  rewrite !group_leb_cases. intros [H1|[E1 T1]] [H2|[E2 T2]].
  - left. lia.
  - left. lia.
  - left. lia.
  - right. split; [congruence|]. eapply sleb_trans; eassumption.
Qed.

Lemma group_leb_antisym_key a b : group_leb a b = true -> group_leb b a = true ->
  g_size a = g_size b /\ g_tiebreaker a = g_tiebreaker b.
Proof.
  rewrite !group_leb_cases. intros [H1|[E1 T1]] [H2|[E2 T2]]; try lia.
  split; [exact E1|]. apply sleb_antisym; assumption.
Qed.

(* whatever order the byOrigin map yields its groups in, the sorted list of
   groups is the same, provided tiebreakers identify groups *)
Lemma canon_groups_perm ord ord' :
  (forall a b, In a ord -> In b ord -> g_tiebreaker a = g_tiebreaker b -> a = b) ->
  Permutation ord ord' -> canon_groups ord = canon_groups ord'.
Proof.
  intros Inj P. unfold canon_groups.
  apply isort_perm_invariant_on; [apply group_leb_total | apply group_leb_trans | | exact P].
  intros a b Ia Ib H1 H2. apply Inj; try assumption. apply (group_leb_antisym_key a b H1 H2).
Qed.

Lemma canon_groups_sorted ord : StronglySorted (lep group_leb) (canon_groups ord).
Proof. apply isort_sorted; [apply group_leb_total | apply group_leb_trans]. Qed.

Lemma canon_groups_any_sort (sort : list group -> list group) ord :
  (forall a b, In a ord -> In b ord -> g_tiebreaker a = g_tiebreaker b -> a = b) ->
  Permutation (sort ord) ord -> StronglySorted (lep group_leb) (sort ord) -> sort ord = canon_groups ord.
Proof.
  intros Inj P S. apply any_sort_is_isort_on; try assumption;
    [apply group_leb_total | apply group_leb_trans|].
  intros a b Ia Ib H1 H2. apply Inj; try assumption. apply (group_leb_antisym_key a b H1 H2).
Qed.

(* the tiebreaker is the greatest package name of the group *)
Lemma smax_ub a b : sleb a (smax a b) = true /\ sleb b (smax a b) = true.
Proof.
  unfold smax. destruct (sleb a b) eqn:E; split; auto using sleb_refl.
  destruct (sleb_total a b) as [H|H]; [congruence|exact H].
Qed.
Lemma smax_either a b : smax a b = a \/ smax a b = b.
Proof. unfold smax. destruct (sleb a b); auto. Qed.

Lemma fold_smax_spec l : forall a,
  (fold_left smax l a = a \/ In (fold_left smax l a) l) /\
  sleb a (fold_left smax l a) = true /\ Forall (fun x => sleb x (fold_left smax l a) = true) l.
Proof.
  induction l as [|x l IH]; intro a; simpl.
  - split; [left; reflexivity|]. split; [apply sleb_refl | constructor].
  - destruct (IH (smax a x)) as [H1 [H2 H3]]. destruct (smax_ub a x) as [Ua Ux]. split; [|split].
    + destruct H1 as [H1|H1]; [|right; right; exact H1].
      rewrite H1. destruct (smax_either a x) as [E|E]; rewrite E; [left; reflexivity | right; left; reflexivity].
    + eapply sleb_trans; eassumption.
    + constructor; [eapply sleb_trans; eassumption | exact H3].
Qed.

Lemma sleb_empty x : sleb "" x = true.
Proof. destruct x; reflexivity. Qed.

Lemma tiebreaker_in pkgs : pkgs <> [] -> In (tiebreaker_of pkgs) pkgs.
Proof.
  intro NE. unfold tiebreaker_of. destruct (fold_smax_spec pkgs "") as [[H|H] [_ F]]; [|exact H].
  destruct pkgs as [|x t]; [contradiction|]. rewrite H in *. inversion F as [|? ? Hx _]; subst.
  assert (x = "") by (apply sleb_antisym; [exact Hx | apply sleb_empty]). subst. left. reflexivity.
Qed.

Lemma tiebreaker_perm pkgs pkgs' : Permutation pkgs pkgs' -> tiebreaker_of pkgs = tiebreaker_of pkgs'.
Proof.
  intro P. unfold tiebreaker_of.
  destruct (fold_smax_spec pkgs "") as [M [_ F]]. destruct (fold_smax_spec pkgs' "") as [M' [_ F']].
  rewrite Forall_forall in F, F'.
  apply sleb_antisym.
  - destruct M as [M|M]; [rewrite M; apply sleb_empty|]. apply F'. perm_in P. exact M.
  - destruct M' as [M'|M']; [rewrite M'; apply sleb_empty|]. apply F. perm_in P. exact M'.
Qed.

(* groups are non-empty and pairwise disjoint sets of package names (every
   installed package is in exactly one group), hence distinct tiebreakers *)
Lemma tiebreakers_identify_groups (gs : list group) :
  (forall g, In g gs -> g_pkgs g <> [] /\ g_tiebreaker g = tiebreaker_of (g_pkgs g)) ->
  (forall a b x, In a gs -> In b gs -> In x (g_pkgs a) -> In x (g_pkgs b) -> a = b) ->
  forall a b, In a gs -> In b gs -> g_tiebreaker a = g_tiebreaker b -> a = b.
Proof.
  intros WF Disj a b Ia Ib E. destruct (WF a Ia) as [Na Ta]. destruct (WF b Ib) as [Nb Tb].
  apply (Disj a b (g_tiebreaker a)); try assumption.
  - rewrite Ta. apply tiebreaker_in. exact Na.
  - rewrite E, Tb. apply tiebreaker_in. exact Nb.
Qed.

Lemma canon_group_pkgs_order_invariant : OrderInvariant canon_group_pkgs.
Proof. intros l l' P. apply ssort_perm_invariant. exact P. Qed.

(* ====================================================================== *)
(* build date                                                               *)
(* ====================================================================== *)
Lemma fold_after_spec times : forall sde,
  IsLatest (fold_left (fun b t => if after t b then t else b) times sde) (sde :: times).
Proof.
  unfold IsLatest, after. induction times as [|t ts IH]; intro sde; simpl.
  - split; [left; reflexivity|]. constructor; [lia|constructor].
  - destruct (IH (if (sde <? t)%Z then t else sde)) as [I F].
    inversion F as [|? ? F1 F2]; subst. split.
    + destruct I as [I|I]; [|right; right; exact I].
      rewrite <- I. destruct (sde <? t)%Z; [right; left; reflexivity | left; reflexivity].
    + destruct (sde <? t)%Z eqn:E; [apply Z.ltb_lt in E | apply Z.ltb_ge in E];
        (constructor; [lia|]); (constructor; [lia|exact F2]).
Qed.

Lemma IsLatest_unique m m' l l' : Permutation l l' -> IsLatest m l -> IsLatest m' l' -> m = m'.
Proof.
  intros P [I F] [I' F']. rewrite Forall_forall in F, F'.
  assert (m' <= m)%Z by (apply F; perm_in P; exact I').
  assert (m <= m')%Z by (apply F'; perm_in P; exact I). lia.
Qed.

Lemma pkg_bde_latest sde times : IsLatest (pkg_bde sde times) (sde :: times).
Proof. apply fold_after_spec. Qed.

Lemma pkg_bde_perm sde times times' : Permutation times times' -> pkg_bde sde times = pkg_bde sde times'.
Proof.
  intro P. eapply IsLatest_unique; [apply perm_skip; exact P | apply pkg_bde_latest | apply pkg_bde_latest].
Qed.

Lemma build_date_epoch_spec flag env times :
  (forall v, env = Some v -> build_date_epoch flag env times = resolve_sde flag env) /\
  (env = None -> IsLatest (build_date_epoch flag env times) (flag :: times)).
Proof.
  split.
  - intros v ->. reflexivity.
  - intros ->. apply pkg_bde_latest.
Qed.

Lemma build_date_epoch_perm flag env times times' :
  Permutation times times' -> build_date_epoch flag env times = build_date_epoch flag env times'.
Proof. intro P. unfold build_date_epoch. destruct env; [reflexivity|]. apply pkg_bde_perm. exact P. Qed.

Lemma multi_arch_bde_latest sde completed : IsLatest (multi_arch_bde sde completed) (sde :: completed).
Proof. apply fold_after_spec. Qed.

Lemma multi_arch_bde_perm sde c c' : Permutation c c' -> multi_arch_bde sde c = multi_arch_bde sde c'.
Proof.
  intro P. eapply IsLatest_unique; [apply perm_skip; exact P | apply multi_arch_bde_latest | apply multi_arch_bde_latest].
Qed.

(* with SOURCE_DATE_EPOCH set every architecture reports it, so the index date is it *)
Lemma multi_arch_bde_fixed sde c : Forall (fun b => b = sde) c -> multi_arch_bde sde c = sde.
Proof.
  intro F. destruct (multi_arch_bde_latest sde c) as [I _]. rewrite Forall_forall in F.
  destruct I as [I|I]; [symmetry; exact I | apply F; exact I].
Qed.

(* ====================================================================== *)
(* keyring writes                                                           *)
(* ====================================================================== *)
Lemma lookup_upsert k k' v m :
  lookup k (upsert k' v m) = if String.eqb k k' then Some v else lookup k m.
Proof.
  induction m as [|[k0 v0] m IH]; simpl.
  - reflexivity.
  - destruct (String.eqb k' k0) eqn:E0; simpl.
    + apply String.eqb_eq in E0. subst k0. destruct (String.eqb k k'); reflexivity.
    + destruct (String.eqb k k0) eqn:E1.
      * apply String.eqb_eq in E1. subst k0.
        destruct (String.eqb k k') eqn:E2; [|reflexivity].
        apply String.eqb_eq in E2. subst. rewrite String.eqb_refl in E0. discriminate.
      * exact IH.
Qed.

Lemma upsert_keys_in k v m x : In x (List.map fst (upsert k v m)) <-> x = k \/ In x (List.map fst m).
Proof.
  induction m as [|[k0 v0] m IH]; simpl.
  - intuition.
  - destruct (String.eqb k k0) eqn:E; simpl.
    + apply String.eqb_eq in E. subst. intuition.
    + rewrite IH. intuition.
Qed.

Lemma upsert_keys_nodup k v m : NoDup (List.map fst m) -> NoDup (List.map fst (upsert k v m)).
Proof.
  induction m as [|[k0 v0] m IH]; simpl; intro N.
  - constructor; [intros []|constructor].
  - inversion N as [|? ? N1 N2]; subst. destruct (String.eqb k k0) eqn:E; simpl.
    + apply String.eqb_eq in E. subst. constructor; assumption.
    + constructor; [|apply IH; exact N2]. rewrite upsert_keys_in. intros [->|H]; [|contradiction].
      rewrite String.eqb_refl in E. discriminate.
Qed.

Definition kw_step (m : list (string * string)) (kv : string * string) := upsert (fst kv) (snd kv) m.

Lemma writes_keys_nodup s : forall m, NoDup (List.map fst m) -> NoDup (List.map fst (fold_left kw_step s m)).
Proof. induction s as [|kv s IH]; intros m N; simpl; [exact N|]. apply IH. apply upsert_keys_nodup. exact N. Qed.

Lemma writes_keys_in s : forall m x,
  In x (List.map fst (fold_left kw_step s m)) <-> In x (List.map fst s) \/ In x (List.map fst m).
Proof.
  induction s as [|kv s IH]; intros m x; simpl; [tauto|].
  rewrite IH. unfold kw_step at 1. rewrite upsert_keys_in. intuition.
Qed.

(* with distinct basenames, the directory holds exactly what was written *)
Lemma writes_lookup s : NoDup (List.map fst s) -> forall m k,
  lookup k (fold_left kw_step s m) =
  match lookup k s with Some v => Some v | None => lookup k m end.
Proof.
  induction s as [|[k0 v0] s IH]; intros N m k; simpl; [reflexivity|].
  inversion N as [|? ? N1 N2]; subst. rewrite (IH N2). unfold kw_step at 1. simpl. rewrite lookup_upsert.
  destruct (String.eqb k k0) eqn:E; [|reflexivity].
  apply String.eqb_eq in E. subst k0.
  destruct (lookup k s) eqn:L; [|reflexivity]. exfalso. apply N1.
  clear - L. induction s as [|[k1 v1] s IH]; simpl in *; [discriminate|].
  destruct (String.eqb k k1) eqn:E; [apply String.eqb_eq in E; left; symmetry; exact E | right; apply IH; exact L].
Qed.

Lemma lookup_in_iff s : NoDup (List.map fst s) -> forall k v, lookup k s = Some v <-> In (k, v) s.
Proof.
  induction s as [|[k0 v0] s IH]; intros N k v; simpl; [split; [discriminate|intros []]|].
  inversion N as [|? ? N1 N2]; subst. destruct (String.eqb k k0) eqn:E.
  - apply String.eqb_eq in E. subst k0. split.
    + intro H. inversion H. left. reflexivity.
    + intros [H|H]; [inversion H; reflexivity|]. exfalso. apply N1. apply in_map_iff. exists (k, v). split; [reflexivity|exact H].
  - rewrite (IH N2). split; [intro H; right; exact H|]. intros [H|H]; [|exact H].
    inversion H; subst. rewrite String.eqb_refl in E. discriminate.
Qed.

Lemma lookup_perm s s' : NoDup (List.map fst s) -> Permutation s s' -> forall k, lookup k s = lookup k s'.
Proof.
  intros N P k. assert (N' : NoDup (List.map fst s')) by (eapply Permutation_NoDup; [apply Permutation_map; exact P|exact N]).
  destruct (lookup k s) eqn:L.
  - apply (lookup_in_iff s N) in L. symmetry. apply (lookup_in_iff s' N'). perm_in P. exact L.
  - destruct (lookup k s') eqn:L'; [|reflexivity].
    apply (lookup_in_iff s' N') in L'. assert (In (k, s0) s) by (perm_in P; exact L').
    apply (lookup_in_iff s N) in H. congruence.
Qed.

Lemma keys_dir_schedule s s' :
  NoDup (List.map fst s) -> Permutation s s' -> keys_dir s = keys_dir s'.
Proof.
  intros N P. unfold keys_dir, keyring_writes. fold kw_step.
  assert (N' : NoDup (List.map fst s')) by (eapply Permutation_NoDup; [apply Permutation_map; exact P|exact N]).
  assert (K : ssort (List.map fst (fold_left kw_step s [])) = ssort (List.map fst (fold_left kw_step s' []))).
  { apply ssort_perm_invariant. apply NoDup_Permutation; try (apply writes_keys_nodup; constructor).
    intro x. rewrite !writes_keys_in. simpl. split; intros [H|[]]; left;
      (eapply Permutation_in; [|exact H]); [apply Permutation_map; exact P | apply Permutation_sym, Permutation_map; exact P]. }
  rewrite K. apply map_ext. intro k. f_equal.
  rewrite (writes_lookup s N), (writes_lookup s' N'). simpl. rewrite (lookup_perm s s' N P k). reflexivity.
Qed.

(* what lands in the image is the configured content of each key *)
Lemma keys_dir_content s : NoDup (List.map fst s) -> forall k d,
  In (k, d) (keys_dir s) <-> (exists v, d = Some v /\ In (k, v) s).
Proof.
  intros N k d. unfold keys_dir, keyring_writes. fold kw_step. rewrite in_map_iff. split.
  - intros [k' [E I]]. inversion E; subst. apply (proj1 (ssort_In _ _)) in I. apply (proj1 (writes_keys_in _ _ _)) in I. simpl in I.
    destruct I as [I|[]]. rewrite (writes_lookup s N). simpl.
    apply in_map_iff in I. destruct I as [[k1 v1] [E1 I1]]. simpl in E1. subst k1.
    pose proof (proj2 (lookup_in_iff s N k v1) I1) as L. rewrite L. exists v1. split; [reflexivity|exact I1].
  - intros [v [-> I]]. exists k. split.
    + f_equal. rewrite (writes_lookup s N). simpl. rewrite (proj2 (lookup_in_iff s N k v) I). reflexivity.
    + apply (proj2 (ssort_In _ _)). apply (proj2 (writes_keys_in _ _ _)). left. apply in_map_iff. exists (k, v). split; [reflexivity|exact I].
Qed.

(* two keyring entries with the same basename and different content: the
   image depends on which goroutine writes last *)
Lemma keys_dir_collision_refuted :
  exists s s', Permutation s s' /\ keys_dir s <> keys_dir s'.
Proof.
  exists [("k.rsa.pub", "A"); ("k.rsa.pub", "B")], [("k.rsa.pub", "B"); ("k.rsa.pub", "A")].
  split; [apply perm_swap|]. vm_compute. discriminate.
Qed.

(* ====================================================================== *)
(* InstallPackages: every completion order, every interleaving              *)
(* ====================================================================== *)
Lemma skipn_nth_error {A} (l : list A) : forall n x, nth_error l n = Some x -> skipn n l = x :: skipn (S n) l.
Proof.
  induction l as [|y l IH]; intros [|n] x H; simpl in *; try discriminate.
  - inversion H. reflexivity.
  - apply IH. exact H.
Qed.

Section InstallProofs.
  Variables (P E St : Type).
  Variable expand : P -> option E.
  Variable install : St -> nat -> P -> E -> option St.
  Variable pkgs : list P.
  Variable fs0 : St.

  Notation stepI := (step P E St expand install pkgs).
  Notation seqI := (seq_install P E St expand install).
  Notation N := (List.length pkgs).

  Definition Inv (s : ist St) : Prop :=
    match i_state St s with
    | Some fs => i_next St s <= N /\ seqI 0 pkgs fs0 = seqI (i_next St s) (skipn (i_next St s) pkgs) fs
    | None => seqI 0 pkgs fs0 = None
    end.

  Lemma inv_init : Inv (init St fs0).
  Proof. unfold Inv, init. simpl. split; [lia | reflexivity]. Qed.

  Lemma step_inv s e : Inv s -> Inv (stepI s e).
  Proof.
    unfold Inv. destruct e as [i|]; simpl; [tauto|].
    destruct (i_state St s) as [fs|] eqn:Es; [|rewrite Es; tauto].
    intros [Hle Hseq]. destruct (nth_error pkgs (i_next St s)) as [p|] eqn:En; [|rewrite Es; split; assumption].
    destruct (nat_mem (i_next St s) (i_done St s)); [|rewrite Es; split; assumption].
    rewrite (skipn_nth_error pkgs _ _ En) in Hseq. simpl in Hseq.
    destruct (expand p) as [e|]; simpl; [|exact Hseq].
    destruct (install fs (i_next St s) p e) as [fs'|]; simpl; [|exact Hseq].
    split; [|exact Hseq]. apply Nat.le_succ_l. apply nth_error_Some. congruence.
  Qed.

  Lemma run_inv sched : forall s, Inv s -> Inv (fold_left stepI sched s).
  Proof. induction sched as [|e t IH]; intros s H; simpl; [exact H|]. apply IH. apply step_inv. exact H. Qed.

  Lemma step_done_mono s e i : In i (i_done St s) -> In i (i_done St (stepI s e)).
  Proof.
    destruct e as [j|]; simpl; [right; assumption|].
    destruct (i_state St s); [|tauto]. destruct (nth_error pkgs (i_next St s)); [|tauto].
    destruct (nat_mem (i_next St s) (i_done St s)); [|tauto].
    destruct (expand p); simpl; [|tauto]. destruct (install s0 (i_next St s) p e); simpl; tauto.
  Qed.

  Lemma run_done sched : forall s i, In i (i_done St s) \/ In i (dones sched) -> In i (i_done St (fold_left stepI sched s)).
  Proof.
    induction sched as [|e t IH]; intros s i H; simpl.
    - destruct H as [H|[]]. exact H.
    - apply IH. destruct H as [H|H]; [left; apply step_done_mono; exact H|].
      destruct e as [j|]; simpl in H; [|right; exact H].
      destruct H as [H|H]; [left; simpl; left; exact H | right; exact H].
  Qed.

  Definition AllDone (s : ist St) : Prop := forall i, i < N -> In i (i_done St s).

  Lemma nat_mem_true x l : In x l -> nat_mem x l = true.
  Proof. intro H. unfold nat_mem. apply existsb_exists. exists x. split; [exact H | apply Nat.eqb_refl]. Qed.

  Lemma none_stays k : forall t, i_state St t = None -> i_state St (fold_left stepI (repeat Step k) t) = None.
  Proof.
    induction k as [|k IHk]; intros t Ht; simpl; [exact Ht|]. apply IHk. rewrite Ht. exact Ht.
  Qed.

  (* one turn of the installer when everything is expanded: it fails, is past the end, or advances *)
  Lemma step_progress s : AllDone s ->
    i_state St (stepI s Step) = None \/ N <= i_next St (stepI s Step) \/ i_next St (stepI s Step) = S (i_next St s).
  Proof.
    intro AD. simpl. destruct (i_state St s) as [fs|] eqn:Es; [|left; exact Es].
    destruct (nth_error pkgs (i_next St s)) as [p|] eqn:En.
    - assert (Hlt : i_next St s < N) by (apply nth_error_Some; congruence).
      rewrite (nat_mem_true _ _ (AD _ Hlt)).
      destruct (expand p) as [e|]; simpl; [|left; reflexivity].
      destruct (install fs (i_next St s) p e); simpl; [right; right; reflexivity | left; reflexivity].
    - right. left. apply nth_error_None in En. exact En.
  Qed.

  Lemma drain k : forall s, AllDone s ->
    i_state St (fold_left stepI (repeat Step k) s) = None \/
    N <= i_next St (fold_left stepI (repeat Step k) s) \/
    i_next St s + k <= i_next St (fold_left stepI (repeat Step k) s).
  Proof.
    induction k as [|k IH]; intros s AD.
    - right. right. simpl. lia.
    - assert (AD' : AllDone (stepI s Step)) by (intros i Hi; apply step_done_mono; apply AD; exact Hi).
      change (fold_left stepI (repeat Step (S k)) s) with (fold_left stepI (repeat Step k) (stepI s Step)).
      destruct (step_progress s AD) as [H|[H|H]].
      + left. apply none_stays. exact H.
      + destruct (IH _ AD') as [G|[G|G]]; [left; exact G | right; left; exact G | right; left; lia].
      + destruct (IH _ AD') as [G|[G|G]]; [left; exact G | right; left; exact G | right; right; lia].
  Qed.

  Theorem install_schedule_independent sched :
    (forall i, i < N -> In i (dones sched)) ->
    outcome P E St expand install pkgs fs0 sched = seqI 0 pkgs fs0.
  Proof.
    intro Hall. unfold outcome, finish, run.
    set (s := fold_left stepI sched (init St fs0)).
    assert (AD : AllDone s) by (intros i Hi; apply run_done; right; apply Hall; exact Hi).
    assert (I : Inv (fold_left stepI (repeat Step N) s)) by (apply run_inv, run_inv, inv_init).
    destruct (drain N s AD) as [G|G]; unfold Inv in I.
    - rewrite G in I. rewrite G. symmetry. exact I.
    - destruct (i_state St (fold_left stepI (repeat Step N) s)) as [fs|] eqn:Es; [|symmetry; exact I].
      destruct I as [Hle Hseq].
      assert (En : i_next St (fold_left stepI (repeat Step N) s) = N) by (destruct G; lia).
      rewrite En, skipn_all in Hseq. simpl in Hseq. symmetry. exact Hseq.
  Qed.

  (* the natural reading: the completion order is any permutation of 0..N-1,
     interleaved with any number of installer turns *)
  Corollary install_schedule_perm sched :
    Permutation (dones sched) (seq 0 N) ->
    outcome P E St expand install pkgs fs0 sched = seqI 0 pkgs fs0.
  Proof.
    intro Pm. apply install_schedule_independent. intros i Hi.
    eapply Permutation_in; [apply Permutation_sym; exact Pm|]. apply in_seq. lia.
  Qed.

  Corollary install_two_schedules sched sched' :
    Permutation (dones sched) (seq 0 N) -> Permutation (dones sched') (seq 0 N) ->
    outcome P E St expand install pkgs fs0 sched = outcome P E St expand install pkgs fs0 sched'.
  Proof. intros H H'. rewrite (install_schedule_perm _ H), (install_schedule_perm _ H'). reflexivity. Qed.
End InstallProofs.

(* ====================================================================== *)
(* output tarball member order (finding C01-F2)                             *)
(* ====================================================================== *)
Lemma tarball_order_refuted :
  exists imgs imgs' manifests, Permutation imgs imgs' /\ tar_members imgs manifests <> tar_members imgs' manifests.
Proof.
  exists [("cfgA", ["l1"; "l2"]); ("cfgB", ["l1"; "l3"])], [("cfgB", ["l1"; "l3"]); ("cfgA", ["l1"; "l2"])], ["mA"; "mB"].
  split; [apply perm_swap|]. vm_compute. discriminate.
Qed.

(* a single image (one architecture): there is only one order *)
Lemma tarball_order_single img imgs' manifests :
  Permutation [img] imgs' -> tar_members [img] manifests = tar_members imgs' manifests.
Proof. intro P. apply Permutation_length_1_inv in P. subst. reflexivity. Qed.

(* whatever the order, the SET of members is the same when layers are distinct per image
   (stated for the member multiset of the configs, which is what index and manifests refer to) *)
Lemma perms_complete {A} (l : list A) : forall l', Permutation l l' -> In l' (perms l).
Proof.
  assert (Ins : forall (x : A) l1 l2, In (l1 ++ x :: l2) (inserts x (l1 ++ l2))).
  { intros x l1. induction l1 as [|y l1 IH]; intro l2; simpl.
    - destruct l2; simpl; left; reflexivity.
    - right. apply in_map. apply IH. }
  induction l as [|x l IH]; intros l' P.
  - apply Permutation_nil in P. subst. left. reflexivity.
  - assert (Ix : In x l') by (eapply Permutation_in; [exact P | left; reflexivity]).
    destruct (in_split _ _ Ix) as [l1 [l2 ->]].
    apply Permutation_cons_app_inv in P. simpl. apply in_flat_map. exists (l1 ++ l2). split; [apply IH; exact P | apply Ins].
Qed.
