(* C01 proofs. *)
From Apko Require Import Base.Prelude Base.C01Lib Model.Repro Spec.ReproSpec.
From Coq Require Import Permutation Sorted.
Open Scope string_scope. Open Scope list_scope.

Local Ltac perm_in P := first [ eapply Permutation_in; [exact P|] | eapply Permutation_in; [apply Permutation_sym; exact P|] ].

(* ====================================================================== *)
(* canonicalisers                                                           *)
(* ====================================================================== *)

(* ---- package list (sets.List) ---------------------------------------- *)
Lemma canon_packages_set_invariant p e p' e' :
  (forall x, In x (p ++ e) <-> In x (p' ++ e')) -> canon_packages p e = canon_packages p' e'.
Proof. intro H. apply set_list_ext. exact H. Qed.

Lemma canon_packages_perm p e p' e' :
  Permutation p p' -> Permutation e e' -> canon_packages p e = canon_packages p' e'.
Proof. intros Pp Pe. apply set_list_perm_invariant. apply Permutation_app; assumption. Qed.

(* extras given in the configuration instead of on the command line, or both: same set *)
Lemma canon_packages_split p e : canon_packages p e = canon_packages (p ++ e) [].
Proof. unfold canon_packages. rewrite app_nil_r. reflexivity. Qed.

Lemma canon_packages_spec p e :
  StrictlySortedStrings (canon_packages p e) /\ forall x, In x (canon_packages p e) <-> In x p \/ In x e.
Proof.
  split; [apply set_list_strict|]. intro x. unfold canon_packages. rewrite set_list_In. apply in_app_iff.
Qed.

(* ---- world (SetWorld) -------------------------------------------------- *)
Lemma canon_world_perm p e b p' e' b' :
  Permutation p p' -> Permutation e e' -> Permutation b b' ->
  canon_world p e b = canon_world p' e' b'.
Proof.
  intros Pp Pe Pb. unfold canon_world. rewrite (canon_packages_perm p e p' e' Pp Pe).
  apply ssort_perm_invariant. apply Permutation_app_head. exact Pb.
Qed.

Lemma canon_world_spec p e b :
  SortedStrings (canon_world p e b) /\
  forall x, In x (canon_world p e b) <-> In x p \/ In x e \/ In x b.
Proof.
  split; [apply ssort_sorted|]. intro x. unfold canon_world. rewrite ssort_In, in_app_iff.
  destruct (canon_packages_spec p e) as [_ H]. rewrite H. tauto.
Qed.

Lemma world_file_perm p e b p' e' b' :
  Permutation p p' -> Permutation e e' -> Permutation b b' -> world_file p e b = world_file p' e' b'.
Proof. intros. unfold world_file. f_equal. apply canon_world_perm; assumption. Qed.

(* whatever sort SetWorld uses, if it returns a sorted permutation it returns canon_world *)
Lemma set_world_any_sort (sort : list string -> list string) l :
  Permutation (sort l) l -> SortedStrings (sort l) -> sort l = ssort l.
Proof. apply any_string_sort_is_ssort. Qed.

(* ---- repositories, keyring --------------------------------------------- *)
Lemma canon_build_repos_perm b r xb xr b' r' xb' xr' :
  Permutation b b' -> Permutation r r' -> Permutation xb xb' -> Permutation xr xr' ->
  canon_build_repos b r xb xr = canon_build_repos b' r' xb' xr'.
Proof. intros. apply set_list_perm_invariant. repeat apply Permutation_app; assumption. Qed.

Lemma canon_runtime_repos_perm r xr r' xr' :
  Permutation r r' -> Permutation xr xr' -> canon_runtime_repos r xr = canon_runtime_repos r' xr'.
Proof. intros. apply set_list_perm_invariant. apply Permutation_app; assumption. Qed.

Lemma canon_runtime_repos_spec r xr :
  StrictlySortedStrings (canon_runtime_repos r xr) /\
  forall x, In x (canon_runtime_repos r xr) <-> In x r \/ In x xr.
Proof.
  split; [apply set_list_strict|]. intro x. unfold canon_runtime_repos. rewrite set_list_In. apply in_app_iff.
Qed.

Lemma repositories_file_perm r xr r' xr' :
  Permutation r r' -> Permutation xr xr' -> repositories_file r xr = repositories_file r' xr'.
Proof. intros. unfold repositories_file. f_equal. apply canon_runtime_repos_perm; assumption. Qed.

Lemma canon_keyring_perm k x k' x' :
  Permutation k k' -> Permutation x x' -> canon_keyring k x = canon_keyring k' x'.
Proof. intros. apply set_list_perm_invariant. apply Permutation_app; assumption. Qed.

Lemma canon_keyring_spec k x :
  StrictlySortedStrings (canon_keyring k x) /\ forall y, In y (canon_keyring k x) <-> In y k \/ In y x.
Proof.
  split; [apply set_list_strict|]. intro y. unfold canon_keyring. rewrite set_list_In. apply in_app_iff.
Qed.

(* ---- environment -------------------------------------------------------- *)
Lemma canon_env_order_invariant : OrderInvariant canon_env.
Proof. intros l l' P. unfold canon_env. apply ssort_perm_invariant. apply Permutation_map. exact P. Qed.

Lemma canon_env_spec ord :
  SortedStrings (canon_env ord) /\ Permutation (canon_env ord) (List.map env_entry ord).
Proof. split; [apply ssort_sorted | apply Permutation_sym, ssort_perm]. Qed.

Lemma filter_perm {A} (f : A -> bool) l l' : Permutation l l' -> Permutation (List.filter f l) (List.filter f l').
Proof.
  induction 1; simpl.
  - constructor.
  - destruct (f x); [apply perm_skip|]; assumption.
  - destruct (f x), (f y); try reflexivity. apply perm_swap.
  - eapply perm_trans; eassumption.
Qed.

(* the two defaults may be visited in either order, and the resulting map may
   be ranged over in any order: same Env *)
Lemma canon_env_defaults defaults defaults' env ord ord' :
  Permutation defaults defaults' ->
  Permutation ord (env_with_defaults defaults env) ->
  Permutation ord' (env_with_defaults defaults' env) ->
  canon_env ord = canon_env ord'.
Proof.
  intros Pd P P'. apply canon_env_order_invariant.
  eapply perm_trans; [exact P|]. eapply perm_trans; [|apply Permutation_sym; exact P'].
  unfold env_with_defaults. apply Permutation_app_head. apply filter_perm. exact Pd.
Qed.

(* ---- architectures, directory listings, installed-db directory keys ---- *)
Lemma canon_archs_order_invariant : OrderInvariant canon_archs.
Proof. intros l l' P. apply ssort_perm_invariant. exact P. Qed.
Lemma canon_readdir_order_invariant : OrderInvariant canon_readdir.
Proof. intros l l' P. apply ssort_perm_invariant. exact P. Qed.
Lemma canon_dir_entries_order_invariant : OrderInvariant canon_dir_entries.
Proof. intros l l' P. apply ssort_perm_invariant. exact P. Qed.

(* map keys are distinct, so the listing is strictly increasing and has the same names *)
Lemma ssort_keys_spec ord : NoDup ord ->
  StrictlySortedStrings (ssort ord) /\ forall x, In x (ssort ord) <-> In x ord.
Proof.
  intro N. split; [|intro x; apply ssort_In].
  apply sorted_nodup_strict; [apply ssort_sorted|]. eapply Permutation_NoDup; [apply ssort_perm|exact N].
Qed.

(* sort.Slice is not stable and its algorithm is not modelled: any function
   that returns a sorted permutation gives exactly this listing *)
Lemma any_sort_gives_canon (sort : list string -> list string) ord :
  Permutation (sort ord) ord -> SortedStrings (sort ord) -> sort ord = ssort ord.
Proof. apply any_string_sort_is_ssort. Qed.

(* ---- layer groups -------------------------------------------------------- *)
Lemma group_leb_total a b : group_leb a b = true \/ group_leb b a = true.
Proof.
  unfold group_leb. destruct (N.lt_trichotomy (g_size a) (g_size b)) as [H|[H|H]].
  - right. apply orb_true_iff. left. apply N.ltb_lt. exact H.
  - rewrite H, !N.eqb_refl, N.ltb_irrefl. simpl. apply sleb_total.
  - left. apply orb_true_iff. left. apply N.ltb_lt. exact H.
Qed.

Lemma group_leb_cases a b : group_leb a b = true <->
  (g_size b < g_size a)%N \/ (g_size a = g_size b /\ sleb (g_tiebreaker a) (g_tiebreaker b) = true).
Proof.
  unfold group_leb. rewrite orb_true_iff, andb_true_iff, N.ltb_lt, N.eqb_eq. tauto.
Qed.

Lemma group_leb_trans a b c : group_leb a b = true -> group_leb b c = true -> group_leb a c = true.
Proof.
  rewrite !group_leb_cases. intros [H1|[E1 T1]] [H2|[E2 T2]].
  - left. lia.
  - left. lia.
  - left. lia.
  - right. split; [congruence|]. eapply sleb_trans; eassumption.
Qed.

Lemma group_leb_antisym_key a b : group_leb a b = true -> group_leb b a = true ->
  g_size a = g_size b /\ g_tiebreaker a = g_tiebreaker b.
Proof.
  rewrite !group_leb_cases. intros [H1|[E1 T1]] [H2|[E2 T2]]; try lia.
  split; [exact E1|]. apply sleb_antisym; assumption.
Qed.

(* whatever order the byOrigin map yields its groups in, the sorted list of
   groups is the same, provided tiebreakers identify groups *)
Lemma canon_groups_perm ord ord' :
  (forall a b, In a ord -> In b ord -> g_tiebreaker a = g_tiebreaker b -> a = b) ->
  Permutation ord ord' -> canon_groups ord = canon_groups ord'.
Proof.
  intros Inj P. unfold canon_groups.
  apply isort_perm_invariant_on; [apply group_leb_total | apply group_leb_trans | | exact P].
  intros a b Ia Ib H1 H2. apply Inj; try assumption. apply (group_leb_antisym_key a b H1 H2).
Qed.

Lemma canon_groups_sorted ord : StronglySorted (lep group_leb) (canon_groups ord).
Proof. apply isort_sorted; [apply group_leb_total | apply group_leb_trans]. Qed.

Lemma canon_groups_any_sort (sort : list group -> list group) ord :
  (forall a b, In a ord -> In b ord -> g_tiebreaker a = g_tiebreaker b -> a = b) ->
  Permutation (sort ord) ord -> StronglySorted (lep group_leb) (sort ord) -> sort ord = canon_groups ord.
Proof.
  intros Inj P S. apply any_sort_is_isort_on; try assumption;
    [apply group_leb_total | apply group_leb_trans|].
  intros a b Ia Ib H1 H2. apply Inj; try assumption. apply (group_leb_antisym_key a b H1 H2).
Qed.

(* the tiebreaker is the greatest package name of the group *)
Lemma smax_ub a b : sleb a (smax a b) = true /\ sleb b (smax a b) = true.
Proof.
  unfold smax. destruct (sleb a b) eqn:E; split; auto using sleb_refl.
  destruct (sleb_total a b) as [H|H]; [congruence|exact H].
Qed.
Lemma smax_either a b : smax a b = a \/ smax a b = b.
Proof. unfold smax. destruct (sleb a b); auto. Qed.

Lemma fold_smax_spec l : forall a,
  (fold_left smax l a = a \/ In (fold_left smax l a) l) /\
  sleb a (fold_left smax l a) = true /\ Forall (fun x => sleb x (fold_left smax l a) = true) l.
Proof.
  induction l as [|x l IH]; intro a; simpl.
  - split; [left; reflexivity|]. split; [apply sleb_refl | constructor].
  - destruct (IH (smax a x)) as [H1 [H2 H3]]. destruct (smax_ub a x) as [Ua Ux]. split; [|split].
    + destruct H1 as [H1|H1]; [|right; right; exact H1].
      rewrite H1. destruct (smax_either a x) as [E|E]; rewrite E; [left; reflexivity | right; left; reflexivity].
    + eapply sleb_trans; eassumption.
    + constructor; [eapply sleb_trans; eassumption | exact H3].
Qed.

Lemma sleb_empty x : sleb "" x = true.
Proof. destruct x; reflexivity. Qed.

Lemma tiebreaker_in pkgs : pkgs <> [] -> In (tiebreaker_of pkgs) pkgs.
Proof.
  intro NE. unfold tiebreaker_of. destruct (fold_smax_spec pkgs "") as [[H|H] [_ F]]; [|exact H].
  destruct pkgs as [|x t]; [contradiction|]. rewrite H in *. inversion F as [|? ? Hx _]; subst.
  assert (x = "") by (apply sleb_antisym; [exact Hx | apply sleb_empty]). subst. left. reflexivity.
Qed.

Lemma tiebreaker_perm pkgs pkgs' : Permutation pkgs pkgs' -> tiebreaker_of pkgs = tiebreaker_of pkgs'.
Proof.
  intro P. unfold tiebreaker_of.
  destruct (fold_smax_spec pkgs "") as [M [_ F]]. destruct (fold_smax_spec pkgs' "") as [M' [_ F']].
  rewrite Forall_forall in F, F'.
  apply sleb_antisym.
  - destruct M as [M|M]; [rewrite M; apply sleb_empty|]. apply F'. perm_in P. exact M.
  - destruct M' as [M'|M']; [rewrite M'; apply sleb_empty|]. apply F. perm_in P. exact M'.
Qed.

(* groups are non-empty and pairwise disjoint sets of package names (every
   installed package is in exactly one group), hence distinct tiebreakers *)
Lemma tiebreakers_identify_groups (gs : list group) :
  (forall g, In g gs -> g_pkgs g <> [] /\ g_tiebreaker g = tiebreaker_of (g_pkgs g)) ->
  (forall a b x, In a gs -> In b gs -> In x (g_pkgs a) -> In x (g_pkgs b) -> a = b) ->
  forall a b, In a gs -> In b gs -> g_tiebreaker a = g_tiebreaker b -> a = b.
Proof.
  intros WF Disj a b Ia Ib E. destruct (WF a Ia) as [Na Ta]. destruct (WF b Ib) as [Nb Tb].
  apply (Disj a b (g_tiebreaker a)); try assumption.
  - rewrite Ta. apply tiebreaker_in. exact Na.
  - rewrite E, Tb. apply tiebreaker_in. exact Nb.
Qed.

Lemma canon_group_pkgs_order_invariant : OrderInvariant canon_group_pkgs.
Proof. intros l l' P. apply ssort_perm_invariant. exact P. Qed.
