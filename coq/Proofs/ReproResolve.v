(* C01 — the install_if loop of GetPackageWithDependencies, stated over the ONE
   model of the resolver (Model/Resolver.v: iif_loop / iif_visit, versioned
   install_if entries `name=version` included) with the lemmas of the resolver's
   own proofs (C02/C14, imported, not edited): the loop has no iteration-order
   parameter, ends within its fuel, never panics or fails, and returns the
   dependency list it was given followed by packages whose names are new. *)
From Apko Require Import Base.Prelude Model.Resolver Spec.ResolveSpec Proofs.ResolveProofs
  Proofs.ResolveProofs2 Proofs.ResolveNoPanic.
Open Scope string_scope. Open Scope list_scope. Open Scope nat_scope.

(* the invariant of the loop (names of the list = keys of `added`, pairwise distinct) holds at its end *)
Lemma iif_loop_state R : forall fuel i deps added r, iif_state_ok R deps added ->
  iif_loop fuel R i deps added = Ok r -> exists added', iif_state_ok R r added'.
Proof.
  induction fuel as [|f IH]; intros i deps added r H E; cbn [iif_loop] in E.
  - destruct (nth_error deps i); [discriminate | inversion E; subst; exists added; exact H].
  - destruct (nth_error deps i) as [j|]; [|inversion E; subst; exists added; exact H].
    destruct (iif_visit R j added) as [news added'] eqn:EV.
    eapply IH; [|exact E]. eapply iif_visit_state_ok; eassumption.
Qed.

Theorem iif_loop_one_order R l added : iif_state_ok R l added ->
  exists r extra, iif_loop (fuel_bound R) R 0 l added = Ok r /\ r = l ++ extra /\ NoDup (List.map (nm R) r).
Proof.
  intros H.
  pose proof (iif_loop_fuel R (fuel_bound R) 0 l added H) as NF.
  pose proof (iif_loop_np R (fuel_bound R) 0 l added) as NP.
  pose proof (iif_loop_not_err R (fuel_bound R) 0 l added) as NE.
  destruct (iif_loop (fuel_bound R) R 0 l added) as [r| | |] eqn:E; try congruence.
  - destruct (iif_loop_prefix R _ _ _ _ _ E) as [extra Hx].
    destruct (iif_loop_state R _ _ _ _ _ H E) as [added' [H1 H2]].
    exists r, extra. split; [reflexivity|]. split; [exact Hx|]. rewrite <- H1. exact H2.
  - exfalso. apply NF; [|reflexivity]. unfold fuel_bound. lia.
Qed.

(* as GetPackageWithDependencies calls it: on the de-duplicated dependency list *)
Corollary iif_loop_after_dedup U ds :
  let R := new_resolver U in
  exists r extra, iif_loop (fuel_bound R) R 0 (fst (dedup_by_name R ds)) (snd (dedup_by_name R ds)) = Ok r /\
    r = fst (dedup_by_name R ds) ++ extra /\ NoDup (List.map (nm R) r).
Proof.
  intros R. destruct (dedup_by_name R ds) as [l added] eqn:ED. cbn [fst snd].
  apply iif_loop_one_order. eapply dedup_state_ok. exact ED.
Qed.
