(* C02: inside the envelope a successful result is CLOSED (all four clauses).
   Part A (this file): facts of the envelope.  Parts B-D (one dependency
   evaluated, the invariant of the dependency walk, the top level) are in
   Proofs/ResolveClosure2.v. *)
From Apko Require Import Base.Prelude Base.Regex Generated.Regexes Generated.VersionConsts Generated.C03Version
  Model.Version Model.Resolver Spec.ResolveSpec
  Proofs.ResolveProofs Proofs.ResolveProofs2 Proofs.C14Proofs Proofs.ResolveTheorems Proofs.ResolveEnvelope.
Open Scope string_scope. Open Scope list_scope. Open Scope nat_scope.

(* ================= Part A ================================================== *)
Record env_facts (R : resolver) : Prop := {
  ef_no_self_provide : forall k pv, In k (r_pkgs R) -> In pv (k_provs k) -> s_name pv <> k_name k;
  ef_no_iif : forall k, In k (r_pkgs R) -> k_iifs k = [];
  ef_no_self_dep : forall k d, In k (r_pkgs R) -> In d (k_deps k) -> d_neg d = None ->
     my_provides k (s_name (d_pos d)) || my_provides k (s_raw (d_pos d)) = false;
  ef_single : forall n l, alookup n (r_names R) = Some l -> exists x, l = [x];
  ef_real : forall k d, In k (r_pkgs R) -> In d (k_deps k) -> d_neg d = None -> versioned_on_real_b R (d_pos d) = true
}.

Lemma envelope_facts U W : envelope_b U W = true -> env_facts (new_resolver U).
Proof.
  unfold envelope_b, envelope_c. set (R := new_resolver U). intros H.
  apply andb_true_iff in H. destruct H as [H _].
  apply andb_true_iff in H. destruct H as [H A3].
  apply andb_true_iff in H. destruct H as [H A2].
  apply andb_true_iff in H. destruct H as [A5 A1].
  rewrite forallb_forall in A1, A2, A3, A5. constructor.
  - intros k pv Hk Hpv E. specialize (A5 k Hk). rewrite forallb_forall in A5. specialize (A5 pv Hpv).
    rewrite E, String.eqb_refl in A5. discriminate.
  - intros k Hk. specialize (A1 k Hk). unfold env_pkg_b in A1. apply andb_true_iff in A1. destruct A1 as [A1 _].
    destruct (k_iifs k); [reflexivity | discriminate].
  - intros k d Hk Hd Hn. specialize (A1 k Hk). unfold env_pkg_b in A1. apply andb_true_iff in A1. destruct A1 as [_ A1].
    rewrite forallb_forall in A1. specialize (A1 d Hd). rewrite Hn in A1. apply negb_true_iff in A1. exact A1.
  - intros n l E. apply alookup_In in E. specialize (A2 _ E). simpl in A2. destruct l as [|x [|y t]]; try discriminate.
    exists x. reflexivity.
  - intros k d Hk Hd Hn. specialize (A3 k Hk). rewrite forallb_forall in A3. specialize (A3 d Hd). rewrite Hn in A3. exact A3.
Qed.

Lemma valid_new U j : valid (new_resolver U) j <-> j < List.length U.
Proof. unfold valid, new_resolver; cbn [r_pkgs]. rewrite map_length. tauto. Qed.

Lemma getp_in R j : valid R j -> In (getp R j) (r_pkgs R).
Proof. intros V. unfold getp. apply nth_In. exact V. Qed.

(* names are unique *)
Lemma uniq U i j : env_facts (new_resolver U) -> valid (new_resolver U) i -> valid (new_resolver U) j ->
  nm (new_resolver U) i = nm (new_resolver U) j -> i = j.
Proof.
  intros EF Vi Vj E. apply valid_new in Vi. apply valid_new in Vj.
  destruct (own_listed U i Vi) as [l [E1 Hi]]. destruct (own_listed U j Vj) as [l' [E2 Hj]].
  rewrite E in E1. rewrite E1 in E2. inversion E2; subst l'.
  destruct (ef_single _ EF _ _ E1) as [x ->]. destruct Hi as [<-|[]]. destruct Hj as [<-|[]]. reflexivity.
Qed.

(* every provider is listed under the name it provides *)
Lemma fold_left_establish {A B} (P : A -> Prop) (f : A -> B -> A) (l : list B) (x : B) :
  In x l -> (forall a, P (f a x)) -> (forall a b, P a -> P (f a b)) -> forall a, P (fold_left f l a).
Proof.
  induction l as [|b l IH]; intros Hin Hx Hk a; [contradiction|]. simpl. destruct Hin as [->|Hin].
  - apply fold_left_inv; [apply Hx | intros a' b' _; apply Hk].
  - apply IH; assumption.
Qed.

Lemma own_names_keys ks i k : nth_error ks i = Some k -> In (k_name k) (List.map fst (own_names ks)).
Proof.
  intros H. destruct (own_names_lists ks i k H) as [l [E _]]. apply alookup_In in E.
  apply in_map_iff. exists (k_name k, l). split; [reflexivity | exact E].
Qed.

Lemma provides_listed ks i k pv : nth_error ks i = Some k -> In pv (k_provs k) ->
  listed (build_names ks) (s_name pv) i.
Proof.
  intros Hi Hpv. unfold build_names, add_provides.
  destruct (own_names_lists ks i k Hi) as [ids [Eids Hin]].
  apply (fold_left_establish (fun m => listed m (s_name pv) i) _ _ (k_name k)).
  - apply own_names_keys with (i := i). exact Hi.
  - intros m. rewrite Eids.
    apply (fold_left_establish (fun m => listed m (s_name pv) i) _ _ i Hin).
    + intros m'. rewrite Hi. apply (fold_left_establish (fun m => listed m (s_name pv) i) _ _ pv Hpv).
      * intros m''. apply nm_add_has.
      * intros m'' pv' H. apply nm_add_keeps. exact H.
    + intros m' i' H. destruct (nth_error ks i'); [|exact H].
      apply fold_left_inv; [exact H|]. intros m'' pv' _ H'. apply nm_add_keeps. exact H'.
  - intros m key H. destruct (alookup key (own_names ks)); [|exact H].
    apply fold_left_inv; [exact H|]. intros m' i' _ H'. destruct (nth_error ks i'); [|exact H'].
    apply fold_left_inv; [exact H'|]. intros m'' pv' _ H''. apply nm_add_keeps. exact H''.
Qed.

Lemma provider_listed U j pv : valid (new_resolver U) j -> In pv (k_provs (getp (new_resolver U) j)) ->
  listed (r_names (new_resolver U)) (s_name pv) j.
Proof.
  intros V Hpv. apply valid_new in V. unfold new_resolver at 1; cbn [r_names].
  unfold getp, new_resolver in Hpv; cbn [r_pkgs] in Hpv.
  assert (E : nth_error (List.map cook_pkg U) j = Some (nth j (List.map cook_pkg U) dummy_cpkg)).
  { apply nth_error_nth'. rewrite map_length. exact V. }
  eapply provides_listed; eassumption.
Qed.

(* a package named n or providing n is THE provider of n *)
Lemma the_provider U n x j : env_facts (new_resolver U) -> alookup n (r_names (new_resolver U)) = Some [x] ->
  valid (new_resolver U) j ->
  (k_name (getp (new_resolver U) j) = n \/ provides_name (getp (new_resolver U) j) n) -> j = x.
Proof.
  intros EF E V [H|[pv [Hpv H]]].
  - pose proof V as V'. apply valid_new in V'. destruct (own_listed U j V') as [l [E1 Hj]].
    unfold nm in E1. rewrite H in E1. rewrite E in E1. inversion E1; subst l. destruct Hj as [<-|[]]. reflexivity.
  - destruct (provider_listed U j pv V Hpv) as [l [E1 Hj]]. rewrite H in E1. rewrite E in E1. inversion E1; subst l.
    destruct Hj as [<-|[]]. reflexivity.
Qed.

(* an operator implies a version (sub-match 4 of packageNameRegex is non-empty) *)
Lemma string_of_bytes_nil l : string_of_bytes l = "" -> l = [].
Proof. destruct l; [reflexivity | discriminate]. Qed.

Lemma dep_version s0 : c_dep (resolve_constraint s0) <> dep_versionAny -> c_version (resolve_constraint s0) <> "".
Proof.
  unfold resolve_constraint.
  destruct (full_match package_name_regex (string_of_bytes (so_rewrite (bytes_of_string s0)))); [|simpl; congruence].
  destruct (split_constraint (so_rewrite (bytes_of_string s0))) as [[[name ops] v] pin] eqn:E. cbn [c_dep c_version].
  intros Hd Hv. apply string_of_bytes_nil in Hv. subst v.
  destruct ops as [|o os]; [congruence|].
  unfold split_constraint in E.
  destruct (span is_namechar (so_rewrite (bytes_of_string s0))) as [nm0 r1].
  destruct (span is_opchar r1) as [ops0 r2]. destruct (span not_at r2) as [v0 r3].
  destruct ops0 as [|a0 ops0]; [inversion E|].
  destruct v0 as [|b0 v0]; [|inversion E].
  destruct (rev (a0 :: ops0)) as [|c rest] eqn:ER; [|inversion E].
  simpl in ER. apply app_eq_nil in ER. destruct ER as [_ ER]. discriminate.
Qed.

(* without install_if packages the install_if loop does nothing *)
Lemma build_iif_nil ks : (forall k, In k ks -> k_iifs k = []) -> build_iif ks = [].
Proof.
  intros H. unfold build_iif. apply (fold_left_inv (fun m => m = [])); [reflexivity|].
  intros m [i k] Hin ->. simpl. assert (In k ks).
  { apply number_from_nth in Hin. eapply nth_error_In; exact Hin. }
  rewrite (H k H0). reflexivity.
Qed.

Lemma iif_visit_nil R j added : r_iif R = [] -> iif_visit R j added = ([], added).
Proof. intros E. unfold iif_visit. rewrite E. reflexivity. Qed.

Lemma iif_loop_nil R : r_iif R = [] -> forall fuel i l added,
  iif_loop fuel R i l added = Ok l \/ iif_loop fuel R i l added = OutOfFuel.
Proof.
  intros E. induction fuel as [|f IH]; intros i l added; cbn [iif_loop].
  - destruct (nth_error l i); [right | left]; reflexivity.
  - destruct (nth_error l i) as [j|]; [|left; reflexivity].
    rewrite (iif_visit_nil R j added E), app_nil_r. apply IH.
Qed.

Lemma iif_loop_nil_ok R fuel i l added r : r_iif R = [] -> iif_loop fuel R i l added = Ok r -> r = l.
Proof. intros E H. destruct (iif_loop_nil R E fuel i l added) as [G|G]; rewrite G in H; [inversion H; reflexivity | discriminate]. Qed.
