(* C02: inside the envelope a successful result is CLOSED (the fourth clause).
   Continues Proofs/ResolveClosure.v (Part A: facts of the envelope).
   Part B: one dependency evaluated.  Part C: the invariant of the dependency
   walk (getPackageDependencies).  Part D: the top level.

   The invariant, for a fixed set F of package identities that is only assumed
   to contain what the walk returns (at the top level F is the final result):
     * every holder of `selected` is in F (a holder is the package that was
       being expanded when `pick` ran, and every expanded package is appended to
       the list on return);
     * a dependency evaluated to `DSkip` is satisfied by the package itself or
       by the holder of selected[name], who — names being unique — is THE
       provider and passes the version test of the dependency;
     * a dependency evaluated to `DOpts` stays in `options` until it is chosen
       (then `best`, the unique provider, is appended) or until a later round
       skips it through `selected`;
     * the cycle cut (`parents`) skips only a name that is being expanded higher
       up, i.e. a package whose own loop is still running and ends in the list. *)
From Apko Require Import Base.Prelude Base.Regex Generated.Regexes Generated.VersionConsts Generated.C03Version
  Model.Version Model.Resolver Spec.ResolveSpec
  Proofs.ResolveProofs Proofs.ResolveProofs2 Proofs.C14Proofs Proofs.ResolveTheorems Proofs.ResolveEnvelope
  Proofs.ResolveClosure.
Open Scope string_scope. Open Scope list_scope. Open Scope nat_scope.

(* ================= small facts =============================================== *)
Definition cooked (d : cstr) : Prop := d = cook_str (s_raw d).

Lemma cook_str_cooked s : cooked (cook_str s).
Proof. unfold cooked. reflexivity. Qed.

Lemma cooked_eq d d' : cooked d -> cooked d' -> s_raw d = s_raw d' -> d = d'.
Proof. unfold cooked. intros H H' E. rewrite H, H', E. reflexivity. Qed.

Lemma positive_deps_In k d : In d (positive_deps k) <-> exists cd, In cd (k_deps k) /\ d_neg cd = None /\ d_pos cd = d.
Proof.
  unfold positive_deps. rewrite in_map_iff. split.
  - intros [cd [E H]]. apply filter_In in H. destruct H as [H1 H2]. exists cd. split; [exact H1|]. split; [|exact E].
    destruct (d_neg cd); [discriminate | reflexivity].
  - intros [cd [H1 [H2 E]]]. exists cd. split; [exact E|]. apply filter_In. split; [exact H1|]. rewrite H2. reflexivity.
Qed.

Lemma positive_deps_cooked U i d : In d (positive_deps (getp (new_resolver U) i)) -> cooked d.
Proof.
  rewrite getp_new_resolver. intros H. apply positive_deps_In in H. destruct H as [cd [H1 [_ E]]].
  unfold cook_pkg in H1; cbn [k_deps] in H1. apply in_map_iff in H1. destruct H1 as [s [<- _]].
  subst d. unfold cook_dep; cbn [d_pos]. apply cook_str_cooked.
Qed.

Lemma aset_In {A} k (v : A) m key w : In (key, w) (aset k v m) -> In (key, w) m \/ (key = k /\ w = v).
Proof.
  induction m as [|[k1 v1] m IH]; simpl.
  - intros [H|[]]. inversion H. right. split; reflexivity.
  - destruct (String.eqb k1 k) eqn:E; simpl.
    + intros [H|H]; [inversion H; subst; right; split; [apply String.eqb_eq in E; congruence | reflexivity] | left; right; exact H].
    + intros [H|H]; [left; left; exact H|]. apply IH in H. destruct H as [H|H]; [left; right; exact H | right; exact H].
Qed.

Lemma ahas_aset {A} k (v : A) m k' : ahas k' (aset k v m) = String.eqb k k' || ahas k' m.
Proof. unfold ahas. rewrite aset_keeps_lookup. destruct (String.eqb k k'); reflexivity. Qed.

Lemma ahas_lookup {A} k (m : list (string * A)) : ahas k m = true -> exists v, alookup k m = Some v.
Proof. unfold ahas. destruct (alookup k m) as [v|]; [exists v; reflexivity | discriminate]. Qed.

(* ================= Part B: one dependency ====================================== *)
Definition sel_ok (R : resolver) (sel : list (string * pid)) : Prop :=
  forall n j, alookup n sel = Some j -> valid R j /\ (k_name (getp R j) = n \/ provides_name (getp R j) n).

(* what constrain(pkg.Dependencies) has put into dq *)
Definition cons_ok (R : resolver) (self : pid) (dq : list pid) : Prop :=
  forall cd providers req j, In cd (k_deps (getp R self)) -> d_neg cd = None ->
    (s_dep (d_pos cd) =? dep_versionAny)%Z = false ->
    alookup (s_name (d_pos cd)) (r_names R) = Some providers -> s_req (d_pos cd) = Some req ->
    In j providers -> constrain_provider (d_pos cd) req (getp R j) = true -> In j dq.

Lemma cons_ok_mono R self dq dq' : cons_ok R self dq -> incl dq dq' -> cons_ok R self dq'.
Proof. intros H I cd providers req j A B C D E F G. apply I. eapply H; eassumption. Qed.

Lemma constrain_cons_ok R self dq dq1 : constrain R (k_deps (getp R self)) dq = Ok dq1 -> cons_ok R self dq1.
Proof. intros H cd providers req j A B C D E F G. eapply constrain_covers; eassumption. Qed.

Lemma sat_any_by_provider d k : (s_dep d =? dep_versionAny)%Z = true ->
  (k_name k = s_name d \/ provides_name k (s_name d)) -> pkg_satisfies_b d k = true.
Proof.
  intros Hd [H|[pv [Hpv H]]]; unfold pkg_satisfies_b; apply orb_true_iff.
  - left. apply andb_true_iff. split; [apply String.eqb_eq; exact H|]. unfold ver_ok_b. rewrite Hd. reflexivity.
  - right. apply existsb_exists. exists pv. split; [exact Hpv|]. unfold provide_ok_b. apply andb_true_iff.
    split; [apply String.eqb_eq; exact H|]. unfold ver_ok_b. rewrite Hd. reflexivity.
Qed.

Lemma sps_false name req provs : (forall pv, In pv provs -> s_name pv <> name) ->
  selected_provides_satisfy name req provs = Some false.
Proof.
  induction provs as [|pv t IH]; intros H; [reflexivity|]. simpl.
  destruct (String.eqb (s_name pv) name) eqn:E.
  - exfalso. apply String.eqb_eq in E. apply (H pv (or_introl eq_refl)). exact E.
  - simpl. apply IH. intros pv' Hpv'. apply H. right. exact Hpv'.
Qed.

Section OneDep.
  Variable U : universe.
  Local Notation R := (new_resolver U).
  Hypothesis EF : env_facts R.

  (* a versioned dependency of a package names a real package: its provider is named so *)
  Lemma real_provider self d j : valid R self -> In d (positive_deps (getp R self)) ->
    (s_dep d =? dep_versionAny)%Z = false -> valid R j ->
    (k_name (getp R j) = s_name d \/ provides_name (getp R j) (s_name d)) ->
    k_name (getp R j) = s_name d /\ alookup (s_name d) (r_names R) = Some [j].
  Proof.
    intros Vs Hd Hdep Vj Hj. apply positive_deps_In in Hd. destruct Hd as [cd [H1 [H2 H3]]].
    pose proof (ef_real _ EF _ _ (getp_in _ _ Vs) H1 H2) as HR. rewrite H3 in HR.
    unfold versioned_on_real_b in HR. rewrite Hdep in HR. cbn [orb] in HR.
    assert (L : listed (r_names R) (s_name d) j).
    { destruct Hj as [Hj|[pv [Hpv Hj]]].
      - rewrite <- Hj. apply valid_new in Vj. apply (own_listed U j Vj).
      - rewrite <- Hj. apply provider_listed; assumption. }
    destruct L as [l [E Hin]]. rewrite E in HR. destruct l as [|x [|y t]]; try discriminate.
    destruct Hin as [<-|[]]. apply String.eqb_eq in HR. split; [exact HR | exact E].
  Qed.

  Lemma eval_dep_skip_sat self st pin d : valid R self -> In d (positive_deps (getp R self)) ->
    sel_ok R (st_selected st) -> eval_dep R st (getp R self) pin d = DSkip ->
    pkg_satisfies_b d (getp R self) = true \/
    exists j, alookup (s_name d) (st_selected st) = Some j /\ pkg_satisfies_b d (getp R j) = true.
  Proof.
    intros Vs Hd Hsel H. pose proof (positive_deps_cooked U self d Hd) as Hck.
    pose proof Hd as Hd'. apply positive_deps_In in Hd'. destruct Hd' as [cd [H1 [H2 H3]]].
    pose proof (ef_no_self_dep _ EF _ _ (getp_in _ _ Vs) H1 H2) as HN. rewrite H3 in HN.
    unfold eval_dep in H. rewrite HN in H.
    match type of H with (if ?b then _ else _) = _ => destruct b eqn:EB end.
    - (* the package's own name, at a version that passes *)
      left. apply andb_true_iff in EB. destruct EB as [E1 E2]. unfold pkg_satisfies_b. apply orb_true_iff. left.
      apply andb_true_iff. split; [exact E1|]. unfold ver_ok_b.
      destruct (k_ver (getp R self)) as [a|]; [|discriminate].
      destruct (s_dep d =? dep_versionAny)%Z; [reflexivity|]. cbn [orb]. destruct (s_req d); [exact E2 | discriminate].
    - destruct (alookup (s_name d) (st_selected st)) as [j|] eqn:ES.
      + right. exists j. split; [reflexivity|]. destruct (Hsel _ _ ES) as [Vj Hj].
        destruct (s_dep d =? dep_versionAny)%Z eqn:Hdep; [apply sat_any_by_provider; assumption|].
        destruct (String.eqb (s_version d) "") eqn:EV.
        { (* an operator implies a version *)
          exfalso. apply String.eqb_eq in EV. apply Z.eqb_neq in Hdep. revert Hdep EV. rewrite Hck.
          unfold s_dep, s_version, cook_str; cbn [s_c]. apply dep_version. }
        destruct (real_provider self d j Vs Hd Hdep Vj Hj) as [Hn _].
        destruct (k_ver (getp R j)) as [actual|] eqn:EA; [|discriminate].
        destruct (s_req d) as [req|] eqn:EQ; [|discriminate].
        assert (SP : selected_provides_satisfy (s_name d) req (k_provs (getp R j)) = Some false).
        { apply sps_false. intros pv Hpv. rewrite <- Hn. apply (ef_no_self_provide _ EF _ pv (getp_in _ _ Vj) Hpv). }
        rewrite SP in H. destruct (satisfies (s_dep d) actual req) eqn:ESat; [|discriminate].
        unfold pkg_satisfies_b. apply orb_true_iff. left. apply andb_true_iff. split; [apply String.eqb_eq; exact Hn|].
        unfold ver_ok_b. rewrite EA, EQ, ESat. apply orb_true_r.
      + destruct (alookup (s_name d) (r_names R)); [|discriminate].
        match type of H with match ?f with _ => _ end = _ => destruct f; discriminate end.
  Qed.

  Lemma eval_dep_opts_sat self st pin d l : valid R self -> In d (positive_deps (getp R self)) ->
    cons_ok R self (st_dq st) -> eval_dep R st (getp R self) pin d = DOpts l ->
    forall x, In x l -> valid R x /\ pkg_satisfies_b d (getp R x) = true.
  Proof.
    intros Vs Hd Hc H x Hx.
    pose proof Hd as Hd'. apply positive_deps_In in Hd'. destruct Hd' as [cd [H1 [H2 H3]]].
    unfold eval_dep in H.
    destruct (my_provides (getp R self) (s_name d) || my_provides (getp R self) (s_raw d)); [discriminate|].
    match type of H with (if ?b then _ else _) = _ => destruct b; [discriminate|] end.
    destruct (alookup (s_name d) (st_selected st)) as [j|].
    { destruct (String.eqb (s_version d) ""); [discriminate|].
      destruct (k_ver (getp R j)); [|discriminate]. destruct (s_req d); [|discriminate].
      destruct (selected_provides_satisfy (s_name d) m0 (k_provs (getp R j))) as [[|]|]; try discriminate.
      destruct (satisfies (s_dep d) m m0); discriminate. }
    destruct (alookup (s_name d) (r_names R)) as [cands|] eqn:EC; [|discriminate].
    match type of H with match ?f with _ => _ end = _ => destruct f as [|x0 t] eqn:EFl; [discriminate|] end.
    inversion H; subst l. clear H. rewrite <- EFl in Hx. clear EFl.
    pose proof (filter_packages_sub _ _ _ _ _ Hx) as [Hin Hndq].
    assert (Vx : valid R x) by (eapply nm_lookup_valid; [apply (proj1 (new_resolver_wf U)) | exact EC | exact Hin]).
    split; [exact Vx|].
    pose proof (names_sound U _ _ _ EC Hin) as Hn.
    destruct (s_dep d =? dep_versionAny)%Z eqn:Hdep; [apply sat_any_by_provider; assumption|].
    destruct (real_provider self d x Vs Hd Hdep Vx Hn) as [Hname _].
    unfold filter_packages in Hx. cbn [fo_dep fo_req] in Hx. rewrite Hdep in Hx.
    destruct (s_req d) as [req|] eqn:EQ; [|contradiction].
    apply filter_In in Hx. destruct Hx as [_ Hv].
    unfold version_passes in Hv. destruct (k_ver (getp R x)) as [a|] eqn:EV; [|discriminate].
    unfold pkg_satisfies_b. apply orb_true_iff. left. apply andb_true_iff. split; [apply String.eqb_eq; exact Hname|].
    unfold ver_ok_b. rewrite Hdep, EQ, EV. cbn [orb].
    destruct (satisfies (s_dep d) a req) eqn:ES; [reflexivity|]. exfalso. apply Hndq.
    apply (Hc cd cands req x H1 H2); rewrite ?H3; try assumption.
    unfold constrain_provider. rewrite Hname, String.eqb_refl, EV, ES. reflexivity.
  Qed.
End OneDep.

(* ================= Part C: the dependency walk ================================== *)
(* ---- pick: the new holders of `selected` are the picked package ----------------- *)
Lemma pick_provs_new i provs : forall sel sel', pick_provs i provs sel = Ok sel' ->
  forall n j, alookup n sel' = Some j -> alookup n sel = Some j \/ (j = i /\ exists pv, In pv provs /\ s_name pv = n).
Proof.
  induction provs as [|pv t IH]; intros sel sel' H n j E; simpl in H.
  - inversion H; subst. left. exact E.
  - destruct (ahas (s_name pv) sel); [discriminate|]. destruct (String.eqb (s_version pv) "").
    + destruct (IH _ _ H n j E) as [A|[A [pv' [B C]]]]; [left; exact A | right; split; [exact A | exists pv'; split; [right; exact B | exact C]]].
    + destruct (IH _ _ H n j E) as [A|[A [pv' [B C]]]].
      * rewrite aset_keeps_lookup in A. destruct (String.eqb (s_name pv) n) eqn:En; [|left; exact A].
        right. inversion A; subst. split; [reflexivity|]. exists pv. split; [left; reflexivity | apply String.eqb_eq; exact En].
      * right. split; [exact A|]. exists pv'. split; [right; exact B | exact C].
Qed.

Lemma pick_new R i sel sel' : pick R i sel = Ok sel' ->
  forall n j, alookup n sel' = Some j ->
    alookup n sel = Some j \/ (j = i /\ (k_name (getp R i) = n \/ provides_name (getp R i) n)).
Proof.
  unfold pick. intros H n j E. destruct (alookup (k_name (getp R i)) sel) as [j0|] eqn:E0.
  - destruct (Nat.eqb j0 i); [|discriminate]. inversion H; subst. left. exact E.
  - destruct (pick_provs_new _ _ _ _ H n j E) as [A|[A [pv [B C]]]].
    + rewrite aset_keeps_lookup in A. destruct (String.eqb (k_name (getp R i)) n) eqn:En; [|left; exact A].
      right. inversion A; subst. split; [reflexivity|]. left. apply String.eqb_eq. exact En.
    + right. split; [exact A|]. right. exists pv. split; [exact B | exact C].
Qed.

Lemma pick_sel_ok R i sel sel' : valid R i -> sel_ok R sel -> pick R i sel = Ok sel' -> sel_ok R sel'.
Proof.
  intros V Hs H n j E. destruct (pick_new R i sel sel' H n j E) as [A|[-> A]]; [apply Hs; exact A | split; [exact V | exact A]].
Qed.

Lemma note_existing_sel R sub st : st_selected (note_existing R sub st) = st_selected st.
Proof.
  unfold note_existing. apply (fold_left_inv (fun s => st_selected s = st_selected st)); [reflexivity|].
  intros a b _ H. simpl. exact H.
Qed.

(* ---- eval_all: what is in `options` -------------------------------------------------- *)
Lemma eval_all_sound R st k pin cs : forall opts opts', eval_all R st k pin cs opts = Some opts' ->
  forall key d l, In (key, (d, l)) opts' ->
    In (key, (d, l)) opts \/ (In d cs /\ key = s_raw d /\ eval_dep R st k pin d = DOpts l).
Proof.
  induction cs as [|c cs IH]; simpl; intros opts opts' H key d l Hin.
  - inversion H; subst. left. exact Hin.
  - destruct (eval_dep R st k pin c) as [| |l0] eqn:E; [|discriminate|].
    + destruct (IH _ _ H key d l Hin) as [A|[A [B C]]]; [left; exact A | right; split; [right; exact A | split; assumption]].
    + destruct (IH _ _ H key d l Hin) as [A|[A [B C]]]; [|right; split; [right; exact A | split; assumption]].
      apply aset_In in A. destruct A as [A|[A1 A2]]; [left; exact A|]. inversion A2; subst.
      right. split; [left; reflexivity | split; [reflexivity | exact E]].
Qed.

Lemma eval_all_complete R st k pin cs : forall opts opts', eval_all R st k pin cs opts = Some opts' ->
  (forall key, ahas key opts = true -> ahas key opts' = true) /\
  forall d, In d cs -> eval_dep R st k pin d = DSkip \/ ahas (s_raw d) opts' = true.
Proof.
  induction cs as [|c cs IH]; simpl; intros opts opts' H.
  - inversion H; subst. split; [auto | intros d []].
  - destruct (eval_dep R st k pin c) as [| |l0] eqn:E; [|discriminate|].
    + destruct (IH _ _ H) as [A B]. split; [exact A|]. intros d [<-|Hd]; [left; exact E | apply B; exact Hd].
    + destruct (IH _ _ H) as [A B]. split.
      * intros key Hk. apply A. rewrite ahas_aset, Hk. apply orb_true_r.
      * intros d [<-|Hd]; [|apply B; exact Hd]. right. apply A. rewrite ahas_aset, String.eqb_refl. reflexivity.
Qed.

Lemma lowest_none opts : lowest opts = None -> opts = [].
Proof. destruct opts as [|[k x] t]; [reflexivity | discriminate]. Qed.

(* ---- the invariant -------------------------------------------------------------------- *)
Definition sel_in (sel : list (string * pid)) (F : list pid) : Prop := forall n j, alookup n sel = Some j -> In j F.

Section Walk.
  Variable U : universe.
  Local Notation R := (new_resolver U).
  Hypothesis EF : env_facts R.
  Variable F : list pid.

  Definition sat (d : cstr) : Prop := exists y, In y F /\ pkg_satisfies_b d (getp R y) = true.
  Definition Sat (m : pid) : Prop := forall d, In d (positive_deps (getp R m)) -> sat d.

  Record wspec (parents : list string) (i : pid) (st st' : rstate) (deps : list pid) : Prop := {
    ws_dq : incl (st_dq st) (st_dq st');
    ws_valid : Forall (valid R) deps;
    ws_selok : sel_ok R (st_selected st');
    ws_closed : incl deps F -> In i F -> sel_in (st_selected st) F ->
                sel_in (st_selected st') F /\
                forall m, m = i \/ In m deps -> In (nm R m) parents \/ Sat m
  }.

  Lemma deps_loop_closure rec self pin parents dqc :
    valid R self -> cons_ok R self dqc ->
    (forall best ps st st' sub, rec best pin ps st = Ok (st', sub) -> valid R best -> sel_ok R (st_selected st) ->
                                wspec ps best st st' sub) ->
    forall n cs st acc st' deps,
      deps_loop R rec self pin parents n cs st acc = Ok (st', deps) ->
      (forall d, In d cs -> In d (positive_deps (getp R self))) ->
      incl dqc (st_dq st) -> sel_ok R (st_selected st) -> Forall (valid R) acc ->
      incl (st_dq st) (st_dq st') /\ Forall (valid R) deps /\ sel_ok R (st_selected st') /\ incl acc deps /\
      (incl deps F -> In self F -> sel_in (st_selected st) F ->
         sel_in (st_selected st') F /\ (forall d, In d cs -> sat d) /\
         (forall m, In m deps -> In m acc \/ In (nm R m) (nm R self :: parents) \/ Sat m)).
  Proof.
    intros Vs Hcons Hrec. induction n as [|n IH]; intros cs st acc st' deps H Hcs Hdq Hsel Hacc.
    - destruct cs; simpl in H; [|discriminate]. inversion H; subst.
      split; [apply incl_refl|]. split; [exact Hacc|]. split; [exact Hsel|]. split; [apply incl_refl|].
      intros _ _ HF. split; [exact HF|]. split; [intros d []|]. intros m Hm. left. exact Hm.
    - destruct cs as [|c0 cs0].
      { simpl in H. inversion H; subst.
        split; [apply incl_refl|]. split; [exact Hacc|]. split; [exact Hsel|]. split; [apply incl_refl|].
        intros _ _ HF. split; [exact HF|]. split; [intros d []|]. intros m Hm. left. exact Hm. }
      cbn [deps_loop] in H. remember (c0 :: cs0) as cs.
      destruct (eval_all R st (getp R self) pin cs []) as [opts|] eqn:EA; [|discriminate].
      pose proof (eval_all_sound _ _ _ _ _ _ _ EA) as Snd. pose proof (eval_all_complete _ _ _ _ _ _ _ EA) as [_ Cmp].
      (* what a skipped dependency is satisfied by *)
      assert (Skip : In self F -> sel_in (st_selected st) F -> forall d, In d cs ->
                     eval_dep R st (getp R self) pin d = DSkip -> sat d).
      { intros HsF HF d Hd E. destruct (eval_dep_skip_sat U EF self st pin d Vs (Hcs d Hd) Hsel E) as [A|[j [A B]]].
        - exists self. split; assumption.
        - exists j. split; [eapply HF; exact A | exact B]. }
      destruct (lowest opts) as [[d cands]|] eqn:EL.
      2:{ inversion H; subst. apply lowest_none in EL. subst opts.
          split; [apply incl_refl|]. split; [exact Hacc|]. split; [exact Hsel|]. split; [apply incl_refl|].
          intros _ HsF HF. split; [exact HF|]. split; [|intros m Hm; left; exact Hm].
          intros d0 Hd0. destruct (Cmp d0 Hd0) as [E|E]; [|discriminate]. apply Skip; assumption. }
      destruct (best_package R (s_name d) (st_existing st) (st_origins st) "" cands) as [best|] eqn:EB; [|discriminate].
      destruct (disqualify_conflicts R best (st_dq st)) as [dq1| | |] eqn:ED; simpl in H; try discriminate.
      destruct (pick R self (st_selected st)) as [sel1| | |] eqn:EP; simpl in H; try discriminate.
      destruct (rec best pin (k_name (getp R self) :: parents) (with_selected (with_dq st dq1) sel1)) as [[st2 sub]| | |] eqn:ER;
        simpl in H; try discriminate.
      apply disqualify_conflicts_mono in ED.
      apply lowest_In in EL. destruct EL as [key EL]. apply best_package_In in EB.
      destruct (Snd _ _ _ EL) as [[]|[Hdcs [Hkey Hev]]].
      destruct (eval_dep_opts_sat U EF self st pin d cands Vs (Hcs d Hdcs) (cons_ok_mono _ _ _ _ Hcons Hdq) Hev best EB)
        as [Vb Sb].
      pose proof (pick_sel_ok R self _ _ Vs Hsel EP) as Hsel1.
      assert (W : wspec (k_name (getp R self) :: parents) best (with_selected (with_dq st dq1) sel1) st2 sub).
      { apply Hrec; [exact ER | exact Vb | exact Hsel1]. }
      destruct W as [W1 W2 W3 W4]. cbn [with_selected with_dq st_dq st_selected] in W1, W4.
      set (cs' := List.filter (fun e => negb (String.eqb (s_raw e) (s_raw d))) (List.map (fun e => fst (snd e)) opts)) in *.
      assert (Hcs' : forall e, In e cs' -> In e cs).
      { intros e He. apply filter_In in He. destruct He as [He _]. apply in_map_iff in He.
        destruct He as [[k0 [d0 l0]] [E0 Hin0]]. simpl in E0. subst d0.
        destruct (Snd _ _ _ Hin0) as [[]|[A _]]. exact A. }
      specialize (IH cs' (note_existing R sub st2) (acc ++ sub ++ [best]) st' deps H).
      destruct IH as [I1 [I2 [I3 [I4 I5]]]].
      { intros e He. apply Hcs. apply Hcs'. exact He. }
      { rewrite note_existing_dq. eapply incl_tran; [exact Hdq|]. eapply incl_tran; [exact ED | exact W1]. }
      { rewrite note_existing_sel. exact W3. }
      { apply Forall_app. split; [exact Hacc|]. apply Forall_app. split; [exact W2|]. constructor; [exact Vb | constructor]. }
      rewrite note_existing_dq in I1. rewrite note_existing_sel in I5.
      split; [eapply incl_tran; [exact ED|]; eapply incl_tran; [exact W1 | exact I1]|].
      split; [exact I2|]. split; [exact I3|].
      split; [intros x Hx; apply I4; apply in_or_app; left; exact Hx|].
      intros HdF HsF HF.
      assert (HsubF : incl sub F).
      { intros x Hx. apply HdF. apply I4. apply in_or_app. right. apply in_or_app. left. exact Hx. }
      assert (HbF : In best F).
      { apply HdF. apply I4. apply in_or_app. right. apply in_or_app. right. left. reflexivity. }
      assert (HF1 : sel_in sel1 F).
      { intros n0 j0 E0. destruct (pick_new R self _ _ EP n0 j0 E0) as [A|[-> _]]; [eapply HF; exact A | exact HsF]. }
      destruct (W4 HsubF HbF HF1) as [HF2 Wm].
      destruct (I5 HdF HsF HF2) as [J1 [J2 J3]].
      split; [exact J1|]. split.
      + (* every pending dependency *)
        intros d0 Hd0. destruct (Cmp d0 Hd0) as [E|E]; [apply Skip; assumption|].
        apply ahas_lookup in E. destruct E as [[d1 l1] E]. apply alookup_In in E.
        destruct (Snd _ _ _ E) as [[]|[A [B C]]].
        assert (d1 = d0).
        { apply cooked_eq; [eapply positive_deps_cooked; apply Hcs; exact A | eapply positive_deps_cooked; apply Hcs; exact Hd0 | symmetry; exact B]. }
        subst d1. destruct (String.eqb (s_raw d0) (s_raw d)) eqn:Eraw.
        * apply String.eqb_eq in Eraw.
          assert (d0 = d).
          { apply cooked_eq; [eapply positive_deps_cooked; apply Hcs; exact Hd0 | eapply positive_deps_cooked; apply Hcs; exact Hdcs | exact Eraw]. }
          subst d0. exists best. split; [exact HbF | exact Sb].
        * apply J2. apply filter_In. split; [|rewrite Eraw; reflexivity].
          apply in_map_iff. exists (s_raw d0, (d0, l1)). split; [reflexivity | exact E].
      + intros m Hm. destruct (J3 m Hm) as [A|[A|A]]; [|right; left; exact A | right; right; exact A].
        apply in_app_or in A. destruct A as [A|A]; [left; exact A|]. right.
        assert (Hm' : m = best \/ In m sub).
        { apply in_app_or in A. destruct A as [A|[A|[]]]; [right; exact A | left; symmetry; exact A]. }
        destruct (Wm m Hm') as [B|B]; [left; exact B | right; exact B].
  Qed.

  Lemma get_deps_closure : forall fuel i pin parents st st' deps,
    get_deps fuel R i pin parents st = Ok (st', deps) -> valid R i -> sel_ok R (st_selected st) ->
    wspec parents i st st' deps.
  Proof.
    induction fuel as [|f IH]; intros i pin parents st st' deps H Vi Hsel; [discriminate|].
    cbn [get_deps] in H. destruct (mem_str (k_name (getp R i)) parents) eqn:EM.
    - inversion H; subst. constructor; [apply incl_refl | constructor | exact Hsel|].
      intros _ _ HF. split; [exact HF|]. intros m [->|[]]. left. apply mem_str_In. exact EM.
    - destruct (constrain R (k_deps (getp R i)) (st_dq st)) as [dq1| | |] eqn:EC; cbn [rbind] in H; try discriminate.
      pose proof (constrain_cons_ok _ _ _ _ EC) as Hcons. apply constrain_mono in EC.
      destruct (deps_loop_closure (get_deps f R) i pin parents dq1 Vi Hcons
                  (fun best ps st0 st0' sub E V S => IH best pin ps st0 st0' sub E V S)
                  _ _ _ _ _ _ H) as [L1 [L2 [L3 [_ L5]]]].
      + auto.
      + apply incl_refl.
      + exact Hsel.
      + constructor.
      + cbn [with_dq st_dq st_selected] in L1, L5.
        constructor; [eapply incl_tran; eassumption | exact L2 | exact L3 |].
        intros HdF HiF HF. destruct (L5 HdF HiF HF) as [M1 [M2 M3]]. split; [exact M1|].
        assert (Si : Sat i) by (intros d Hd; apply M2; exact Hd).
        intros m [->|Hm]; [right; exact Si|].
        destruct (M3 m Hm) as [[]|[[A|A]|A]]; [|left; exact A | right; exact A].
        right. rewrite Forall_forall in L2. rewrite (uniq U m i EF (L2 m Hm) Vi (eq_sym A)). exact Si.
  Qed.
End Walk.

(* ================= Part D: the top level ========================================== *)
Lemma alookup_app {A} k (m m' : list (string * A)) :
  alookup k (m ++ m') = match alookup k m with Some v => Some v | None => alookup k m' end.
Proof. induction m as [|[k0 v0] m IH]; simpl; [reflexivity|]. destruct (String.eqb k0 k); [reflexivity | exact IH]. Qed.

(* de-duplication by name keeps a package of every name *)
Lemma dedup_names R deps : forall j, In j deps -> In (nm R j) (List.map (nm R) (fst (dedup_by_name R deps))).
Proof.
  unfold dedup_by_name.
  assert (G : forall deps l added,
            (forall n, ahas n added = true -> In n (List.map (nm R) l)) ->
            let r := fold_left (fun acc j => let '(l, added) := acc in let n := k_name (getp R j) in
                       if ahas n added then acc else (l ++ [j], added ++ [(n, j)])) deps (l, added) in
            (forall n, In n (List.map (nm R) l) -> In n (List.map (nm R) (fst r))) /\
            forall j, In j deps -> In (nm R j) (List.map (nm R) (fst r))).
  { induction deps0 as [|d ds IH]; intros l added Hinv; simpl; [split; [auto | intros j []]|].
    destruct (ahas (k_name (getp R d)) added) eqn:E.
    - destruct (IH l added Hinv) as [A B]. split; [exact A|]. intros j [<-|Hj]; [|apply B; exact Hj].
      apply A. apply Hinv. exact E.
    - destruct (IH (l ++ [d]) (added ++ [(k_name (getp R d), d)])) as [A B].
      { intros n Hn. rewrite map_app, in_app_iff. unfold ahas in Hn. rewrite alookup_app in Hn.
        destruct (alookup n added) eqn:E1; [left; apply Hinv; unfold ahas; rewrite E1; reflexivity|].
        simpl in Hn. destruct (String.eqb (k_name (getp R d)) n) eqn:E2; [|discriminate].
        right. left. apply String.eqb_eq. exact E2. }
      split.
      + intros n Hn. apply A. rewrite map_app, in_app_iff. left. exact Hn.
      + intros j [<-|Hj]; [|apply B; exact Hj]. apply A. rewrite map_app, in_app_iff. right. left. reflexivity. }
  intros j Hj. apply (G deps [] []); [intros n Hn; discriminate | exact Hj].
Qed.

(* tracking *)
Lemma track_tracked R j acc :
  (forall n, In n (snd (fst acc)) -> In n (snd (fst (track R j acc)))) /\ In (nm R j) (snd (fst (track R j acc))).
Proof.
  destruct acc as [[ti tracked] depmap]. unfold track. fold (nm R j).
  destruct (mem_str (nm R j) tracked) eqn:E; cbn [fst snd].
  - split; [auto | apply mem_str_In; exact E].
  - split; [intros n Hn; right; exact Hn | left; reflexivity].
Qed.

Lemma track_members R j acc m : In m (fst (fst (track R j acc))) -> In m (fst (fst acc)) \/ m = j.
Proof.
  destruct acc as [[ti tracked] depmap]. unfold track. destruct (mem_str (k_name (getp R j)) tracked); cbn [fst snd].
  - intros H. left. exact H.
  - intros H. apply in_app_or in H. destruct H as [H|[H|[]]]; [left; exact H | right; symmetry; exact H].
Qed.

Lemma track_fold_tracked R deps : forall acc,
  (forall n, In n (snd (fst acc)) -> In n (snd (fst (fold_left (fun a j => track R j a) deps acc)))) /\
  forall j, In j deps -> In (nm R j) (snd (fst (fold_left (fun a j => track R j a) deps acc))).
Proof.
  induction deps as [|d ds IH]; intros acc; simpl; [split; [auto | intros j []]|].
  destruct (IH (track R d acc)) as [A B]. destruct (track_tracked R d acc) as [C D]. split.
  - intros n Hn. apply A. apply C. exact Hn.
  - intros j [<-|Hj]; [apply A; exact D | apply B; exact Hj].
Qed.

Lemma track_fold_members R deps : forall acc m,
  In m (fst (fst (fold_left (fun a j => track R j a) deps acc))) -> In m (fst (fst acc)) \/ In m deps.
Proof.
  induction deps as [|d ds IH]; intros acc m H; simpl in H; [left; exact H|].
  apply IH in H. destruct H as [H|H]; [|right; right; exact H].
  apply track_members in H. destruct H as [H|H]; [left; exact H | right; left; symmetry; exact H].
Qed.

Section Top.
  Variable U : universe.
  Local Notation R := (new_resolver U).
  Hypothesis EF : env_facts R.

  Lemma iif_nil : r_iif R = [].
  Proof. unfold new_resolver; cbn [r_iif]. apply build_iif_nil. intros k Hk. apply (ef_no_iif _ EF). exact Hk. Qed.

  (* one requested package: the walk's list survives the de-duplication *)
  Lemma get_pkg_closure F w dq sel ex dq' sel' i deps :
    get_pkg R w dq sel ex = Ok (dq', sel', i, deps) -> sel_ok R sel ->
    valid R i /\ Forall (valid R) deps /\ sel_ok R sel' /\
    (incl deps F -> In i F -> sel_in sel F -> sel_in sel' F /\ forall m, m = i \/ In m deps -> Sat U F m).
  Proof.
    intros H Hsel. unfold get_pkg, get_pkg_core in H.
    destruct (resolve_package R dq w) as [i0| | |] eqn:ER; cbn [rbind] in H; try discriminate.
    destruct (get_deps (fuel_bound R) R i0 (s_pin w) []
                {| st_dq := dq; st_selected := sel; st_existing := ex; st_origins := initial_origins R ex |})
      as [[st' ds]| | |] eqn:EG; cbn [rbind] in H; try discriminate.
    apply (resolve_package_spec R dq w i0 (new_resolver_wf U)) in ER. destruct ER as [_ [Vi _]].
    destruct (get_deps_closure U EF F _ _ _ _ _ _ _ EG Vi Hsel) as [_ G2 G3 G4]. cbn [st_selected] in G4.
    destruct (dedup_by_name R ds) as [l added] eqn:ED. cbn [rbind] in H.
    destruct (iif_loop (fuel_bound R) R 0 l added) as [deps0| | |] eqn:EI; cbn [rbind] in H; try discriminate.
    apply (iif_loop_nil_ok _ _ _ _ _ _ iif_nil) in EI. subst deps0.
    assert (Hl : forall j, In j l -> In j ds) by (intros j Hj; apply (dedup_sub R); rewrite ED; exact Hj).
    assert (Hn : forall j, In j ds -> In (nm R j) (List.map (nm R) l)).
    { intros j Hj. pose proof (dedup_names R ds j Hj) as Hn. rewrite ED in Hn. exact Hn. }
    clear ED. injection H as <- <- <- <-.
    rewrite Forall_forall in G2.
    split; [exact Vi|]. split; [apply Forall_forall; intros j Hj; apply G2; apply Hl; exact Hj|]. split; [exact G3|].
    intros HdF HiF HF.
    assert (HdsF : incl ds F).
    { intros j Hj. apply HdF. specialize (Hn j Hj).
      apply in_map_iff in Hn. destruct Hn as [j' [E Hj']].
      rewrite <- (uniq U j' j EF (G2 j' (Hl j' Hj')) (G2 j Hj) E). exact Hj'. }
    destruct (G4 HdsF HiF HF) as [A B]. split; [exact A|].
    intros m [->|Hm]; [destruct (B i0 (or_introl eq_refl)) as [[]|C]; exact C|].
    destruct (B m (or_intror (Hl m Hm))) as [[]|C]; exact C.
  Qed.

  Lemma phase2_closure dq0 : forall ws dq sel acc S,
    phase2 R ws dq sel acc = Ok S -> incl dq0 dq -> Inv R dq0 acc -> sel_ok R sel -> sel_in sel S ->
    forall m, In m S -> In m (fst (fst acc)) \/ Sat U S m.
  Proof.
    pose proof (new_resolver_wf2 U) as Hwf.
    induction ws as [|w ws IH]; intros dq sel acc S H Hin HI Hsel HF m Hm.
    - simpl in H. inversion H; subst. left. exact Hm.
    - cbn [phase2] in H.
      destruct (get_pkg R w dq sel (snd acc)) as [[[[dq' sel'] i] deps]| | |] eqn:EG; cbn [rbind] in H; try discriminate.
      pose proof (get_pkg_spec R w dq sel (snd acc) dq' sel' i deps dq0 Hwf Hin EG) as [G1 [_ [G3 G4]]].
      destruct (track_fold_inv R dq0 deps acc HI G4) as [J1 _].
      destruct (track_inv R dq0 i _ J1 G3) as [K1 _].
      destruct (phase2_inv R dq0 Hwf _ _ _ _ _ H G1 K1) as [_ [L2 [L3 _]]].
      destruct (get_pkg_closure S _ _ _ _ _ _ _ _ EG Hsel) as [Vi [Vd [Hsel' C]]].
      rewrite Forall_forall in L2, Vd.
      (* a tracked name is a member *)
      assert (Mem : forall j, valid R j ->
                In (nm R j) (snd (fst (track R i (fold_left (fun a j => track R j a) deps acc)))) -> In j S).
      { intros j Vj Hn. apply L3 in Hn. apply in_map_iff in Hn. destruct Hn as [j' [E Hj']].
        rewrite <- (uniq U j' j EF (proj1 (L2 j' Hj')) Vj E). exact Hj'. }
      destruct (track_tracked R i (fold_left (fun a j => track R j a) deps acc)) as [T1 T2].
      destruct (track_fold_tracked R deps acc) as [T3 T4].
      assert (HdS : incl deps S) by (intros j Hj; apply Mem; [apply Vd; exact Hj | apply T1; apply T4; exact Hj]).
      assert (HiS : In i S) by (apply Mem; [exact Vi | exact T2]).
      destruct (C HdS HiS HF) as [HF' CS].
      destruct (IH _ _ _ _ H G1 K1 Hsel' HF' m Hm) as [A|A]; [|right; exact A].
      apply track_members in A. destruct A as [A|A]; [|right; apply CS; left; exact A].
      apply track_fold_members in A. destruct A as [A|A]; [left; exact A | right; apply CS; right; exact A].
  Qed.

  Lemma resolve_closure W dq0 S : resolve U W dq0 = Ok S -> forall m, In m S -> Sat U S m.
  Proof.
    unfold resolve, resolve_with. intros H m Hm.
    destruct (constrain R (List.map cook_dep W) dq0) as [dq1| | |] eqn:EC; cbn [rbind] in H; try discriminate.
    destruct (phase1 _ R _ dq1 []) as [[dq2 depmap]| | |] eqn:E1; cbn [rbind] in H; try discriminate.
    destruct (phase2_closure dq2 _ _ _ _ _ H (incl_refl _)) with (m := m) as [[]|A]; try assumption.
    - simpl. split; [constructor|]. split; [intros n; split; intros []|constructor].
    - intros n j E. discriminate.
    - intros n j E. discriminate.
  Qed.
End Top.

(* ---- the fourth clause, in the terms of the Spec ------------------------------------------- *)
Lemma closed_partial_deps U W dq0 S :
  envelope_b U W = true -> resolve U W dq0 = Ok S ->
  forall p d, In p (pkgs_of U S) -> In d (p_deps p) -> is_conflict d = false -> satisfies_dep (pkgs_of U S) d.
Proof.
  intros HE H p d Hp Hd Hc. pose proof (envelope_facts U W HE) as EF.
  unfold pkgs_of in Hp. apply in_map_iff in Hp. destruct Hp as [m [<- Hm]].
  pose proof (resolve_closure U EF W dq0 S H m Hm) as HS.
  destruct (HS (cook_str d)) as [y [Hy Sy]].
  { rewrite getp_new_resolver. apply positive_deps_In. exists (cook_dep d). split; [|split; [apply d_neg_cook; exact Hc | reflexivity]].
    unfold cook_pkg; cbn [k_deps]. apply in_map. exact Hd. }
  exists (nth y U dummy_pkg). split; [unfold pkgs_of; apply in_map_iff; exists y; split; [reflexivity | exact Hy]|].
  apply pkg_satisfies_b_spec. rewrite <- getp_new_resolver. exact Sy.
Qed.

Theorem closed_full_lemma U W dq0 S :
  envelope_b U W = true -> resolve U W dq0 = Ok S -> Closed U W (pkgs_of U S).
Proof.
  intros HE H. destruct (closed_partial_lemma2 U W dq0 S HE H) as [A [B [C _]]].
  constructor; [exact C | eapply closed_partial_deps; eassumption | exact A | exact B].
Qed.

(* the statement of Properties/C02.v: the four clauses spelled out, the Spec's
   record, and the candidate actually chosen for every request *)
Lemma closed_partial_lemma3 U W dq0 S :
  envelope_b U W = true -> resolve U W dq0 = Ok S ->
  NoDup (List.map p_name (pkgs_of U S)) /\ incl (pkgs_of U S) U /\
  (forall w, In w W -> satisfies_dep (pkgs_of U S) w) /\
  (forall p d, In p (pkgs_of U S) -> In d (p_deps p) -> is_conflict d = false -> satisfies_dep (pkgs_of U S) d) /\
  Closed U W (pkgs_of U S) /\
  (forall w, In w W -> exists dq i, incl dq0 dq /\ In i (candidates (new_resolver U) dq (cook_str w)) /\ In i S).
Proof.
  intros HE H. destruct (closed_partial_lemma2 U W dq0 S HE H) as [A [B [C D]]].
  split; [exact A|]. split; [exact B|]. split; [exact C|]. split; [eapply closed_partial_deps; eassumption|].
  split; [eapply closed_full_lemma; eassumption | exact D].
Qed.
