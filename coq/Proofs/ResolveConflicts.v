(* C02: what disqualifyConflicts / conflictingVersion / pick and the conflict
   entries ("!name") guarantee in the model, and what they do not.

   1. conflictingVersion: the decision table.
   2. disqualifyConflicts: after package p is chosen, EXACTLY the other packages
      the name map lists under a name p provides, for which conflictingVersion
      says yes, join the disqualification set.
   3. pick: records the package under its name and its VERSIONED provides,
      refuses a second, different package of a recorded name, never overwrites.
   4. conflict entries are honoured FORWARD: everything a "!c" entry of an
      expanded package excludes is disqualified before any of its dependencies
      is chosen, and nothing disqualified is ever chosen by the walk.
   5. ... and only forward: a result may hold a member together with a member
      whose conflict entry excludes it (finding C02-F7, cf. C09-F6). *)
From Apko Require Import Base.Prelude Generated.VersionConsts Model.Version Model.Resolver Spec.ResolveSpec Spec.ResolveMultiSpec
  Proofs.ResolveProofs Proofs.ResolveProofs2 Proofs.C14Proofs Proofs.ResolveTheorems Proofs.ResolveEnvelope Proofs.ResolveClosure
  Proofs.ResolveClosure2 Proofs.ResolveMulti.
Open Scope string_scope. Open Scope list_scope. Open Scope nat_scope.

(* ---- 1. conflictingVersion ------------------------------------------------------------------ *)
(* a VERSIONED provide conflicts with every other provider of the name, whatever its version *)
Lemma conflicting_version_versioned c k : c_version c <> "" -> conflicting_version c k = Some true.
Proof. intros H. unfold conflicting_version. apply String.eqb_neq in H. rewrite H. reflexivity. Qed.

(* an UNVERSIONED provide (a virtual): a package of that very name conflicts unless its own version is empty *)
Lemma conflicting_version_virtual_named c k : c_version c = "" -> k_name k = c_name c ->
  conflicting_version c k = Some (negb (String.eqb (k_version k) "")).
Proof.
  intros H N. unfold conflicting_version. rewrite H. replace (String.eqb "" "") with true by reflexivity. cbn [negb].
  rewrite N, String.eqb_refl. reflexivity.
Qed.

(* ... another provider conflicts iff the FIRST provide of that name it lists carries a version *)
Lemma conflicting_version_virtual_provider c k pv : c_version c = "" -> k_name k <> c_name c ->
  List.find (fun pv => String.eqb (s_name pv) (c_name c)) (k_provs k) = Some pv ->
  conflicting_version c k = Some (negb (String.eqb (s_version pv) "")).
Proof.
  intros H N F. unfold conflicting_version. rewrite H. replace (String.eqb "" "") with true by reflexivity. cbn [negb].
  apply String.eqb_neq in N. rewrite N, F. reflexivity.
Qed.

(* ---- 2. disqualifyConflicts -------------------------------------------------------------------- *)
Definition conflicts_with (R : resolver) (p j : pid) : Prop :=
  exists pv l, In pv (k_provs (getp R p)) /\ alookup (s_name pv) (r_names R) = Some l /\ In j l /\ j <> p /\
               conflicting_version (s_c pv) (getp R j) = Some true.

Lemma inner_complete R p pv l : forall acc dq',
  fold_left (fun acc j => do dq <- acc;
     if Nat.eqb j p then Ok dq else if mem_pid j dq then Ok dq
     else match conflicting_version (s_c pv) (getp R j) with None => Panic | Some false => Ok dq | Some true => Ok (j :: dq) end) l acc = Ok dq' ->
  exists dq, acc = Ok dq /\ incl dq dq' /\
    (forall j, In j l -> j <> p -> conflicting_version (s_c pv) (getp R j) = Some true -> In j dq') /\
    (forall z, In z dq' -> In z dq \/ (In z l /\ z <> p /\ conflicting_version (s_c pv) (getp R z) = Some true)).
Proof.
  induction l as [|a l IH]; simpl; intros acc dq' H.
  - exists dq'. split; [exact H|]. split; [apply incl_refl|]. split; [intros j []|]. intros z Hz. left. exact Hz.
  - apply IH in H. destruct H as [dq1 [E [I [C O]]]]. destruct acc as [dq| | |]; simpl in E; try discriminate.
    exists dq. split; [reflexivity|].
    destruct (Nat.eqb a p) eqn:Eap.
    { inversion E; subst dq1. split; [exact I|]. split.
      - intros j [<-|Hj] Hne Hc; [apply Nat.eqb_eq in Eap; contradiction | apply C; assumption].
      - intros z Hz. destruct (O z Hz) as [A|[A B]]; [left; exact A | right; split; [right; exact A | exact B]]. }
    destruct (mem_pid a dq) eqn:Em.
    { inversion E; subst dq1. split; [exact I|]. split.
      - intros j [<-|Hj] Hne Hc; [apply I; apply mem_pid_In; exact Em | apply C; assumption].
      - intros z Hz. destruct (O z Hz) as [A|[A B]]; [left; exact A | right; split; [right; exact A | exact B]]. }
    destruct (conflicting_version (s_c pv) (getp R a)) as [[|]|] eqn:Ec; inversion E; subst dq1.
    + split; [intros x Hx; apply I; right; exact Hx|]. split.
      * intros j [<-|Hj] Hne Hc; [apply I; left; reflexivity | apply C; assumption].
      * intros z Hz. destruct (O z Hz) as [[<-|A]|[A B]].
        -- right. split; [left; reflexivity|]. split; [apply Nat.eqb_neq; exact Eap | exact Ec].
        -- left. exact A.
        -- right. split; [right; exact A | exact B].
    + split; [exact I|]. split.
      * intros j [<-|Hj] Hne Hc; [congruence | apply C; assumption].
      * intros z Hz. destruct (O z Hz) as [A|[A B]]; [left; exact A | right; split; [right; exact A | exact B]].
Qed.

Lemma disqualify_conflicts_spec R p dq dq' : disqualify_conflicts R p dq = Ok dq' ->
  incl dq dq' /\ (forall j, conflicts_with R p j -> In j dq') /\ (forall z, In z dq' -> In z dq \/ conflicts_with R p z).
Proof.
  unfold disqualify_conflicts, conflicts_with.
  generalize (k_provs (getp R p)) at 1 2 3 as provs. intros provs. revert dq dq'.
  assert (G : forall provs acc dq',
    fold_left (fun acc pv => do dq <- acc;
      match alookup (s_name pv) (r_names R) with
      | None => Ok dq
      | Some providers => fold_left (fun acc j => do dq <- acc;
          if Nat.eqb j p then Ok dq else if mem_pid j dq then Ok dq
          else match conflicting_version (s_c pv) (getp R j) with None => Panic | Some false => Ok dq | Some true => Ok (j :: dq) end)
          providers (Ok dq)
      end) provs acc = Ok dq' ->
    exists dq, acc = Ok dq /\ incl dq dq' /\
      (forall j, (exists pv l, In pv provs /\ alookup (s_name pv) (r_names R) = Some l /\ In j l /\ j <> p /\
                               conflicting_version (s_c pv) (getp R j) = Some true) -> In j dq') /\
      (forall z, In z dq' -> In z dq \/ exists pv l, In pv provs /\ alookup (s_name pv) (r_names R) = Some l /\ In z l /\ z <> p /\
                               conflicting_version (s_c pv) (getp R z) = Some true)).
  { induction provs0 as [|pv t IH]; simpl; intros acc dq' H.
    - exists dq'. split; [exact H|]. split; [apply incl_refl|]. split.
      + intros j [pv [l [[] _]]].
      + intros z Hz. left. exact Hz.
    - apply IH in H. destruct H as [dq1 [E [I [C O]]]]. destruct acc as [dq| | |]; simpl in E; try discriminate.
      exists dq. split; [reflexivity|]. destruct (alookup (s_name pv) (r_names R)) as [l|] eqn:EL.
      + apply inner_complete in E. destruct E as [dq0 [E0 [I0 [C0 O0]]]]. inversion E0; subst dq0. clear E0.
        split; [eapply incl_tran; eassumption|]. split.
        * intros j [pv' [l' [[<-|Hpv] [El' [Hj [Hne Hc]]]]]].
          -- rewrite EL in El'. inversion El'; subst l'. apply I. apply C0; assumption.
          -- apply C. exists pv', l'. repeat split; assumption.
        * intros z Hz. destruct (O z Hz) as [A|[pv' [l' [Hpv [El' B]]]]].
          -- destruct (O0 z A) as [A0|[A0 B0]]; [left; exact A0|]. right. exists pv, l. split; [left; reflexivity|]. split; [exact EL|].
             split; [exact A0 | exact B0].
          -- right. exists pv', l'. split; [right; exact Hpv|]. split; [exact El' | exact B].
      + inversion E; subst dq1. split; [exact I|]. split.
        * intros j [pv' [l' [[<-|Hpv] [El' B]]]]; [congruence|]. apply C. exists pv', l'. split; [exact Hpv|]. split; [exact El' | exact B].
        * intros z Hz. destruct (O z Hz) as [A|[pv' [l' [Hpv [El' B]]]]]; [left; exact A|].
          right. exists pv', l'. split; [right; exact Hpv|]. split; [exact El' | exact B]. }
  intros dq dq' H. apply G in H. destruct H as [dq0 [E [I [C O]]]]. inversion E; subst dq0.
  split; [exact I|]. split; [exact C | exact O].
Qed.

(* the readable consequence: once p is chosen, every OTHER package that is named, or provides,
   a name p provides WITH A VERSION is disqualified — at whatever version, the same one included *)
Lemma disqualify_conflicts_versioned U p dq dq' pv j :
  let R := new_resolver U in
  disqualify_conflicts R p dq = Ok dq' -> In pv (k_provs (getp R p)) -> s_version pv <> "" ->
  valid R j -> j <> p -> (k_name (getp R j) = s_name pv \/ provides_name (getp R j) (s_name pv)) -> In j dq'.
Proof.
  intros R H Hpv Hv Vj Hne Hj. destruct (disqualify_conflicts_spec R p dq dq' H) as [_ [C _]]. apply C.
  assert (L : listed (r_names R) (s_name pv) j).
  { destruct Hj as [Hj|[pv' [Hpv' Hj]]].
    - rewrite <- Hj. apply valid_new in Vj. apply (own_listed U j Vj).
    - rewrite <- Hj. apply provider_listed; assumption. }
  destruct L as [l [E Hin]]. exists pv, l. split; [exact Hpv|]. split; [exact E|]. split; [exact Hin|]. split; [exact Hne|].
  apply conflicting_version_versioned. exact Hv.
Qed.

(* ---- 3. pick -------------------------------------------------------------------------------------- *)
Lemma pick_provs_keeps i provs : forall sel sel' n j, pick_provs i provs sel = Ok sel' -> alookup n sel = Some j -> alookup n sel' = Some j.
Proof.
  induction provs as [|pv t IH]; intros sel sel' n j H E; simpl in H; [inversion H; subst; exact E|].
  destruct (ahas (s_name pv) sel) eqn:Eh; [discriminate|]. destruct (String.eqb (s_version pv) ""); [eapply IH; eassumption|].
  eapply IH; [exact H|]. rewrite aset_keeps_lookup. destruct (String.eqb (s_name pv) n) eqn:En; [|exact E].
  apply String.eqb_eq in En. subst n. unfold ahas in Eh. rewrite E in Eh. discriminate.
Qed.

(* never overwrites *)
Lemma pick_keeps R i sel sel' n j : pick R i sel = Ok sel' -> alookup n sel = Some j -> alookup n sel' = Some j.
Proof.
  unfold pick. intros H E. destruct (alookup (k_name (getp R i)) sel) as [j0|] eqn:E0.
  - destruct (Nat.eqb j0 i); [inversion H; subst; exact E | discriminate].
  - eapply pick_provs_keeps; [exact H|]. rewrite aset_keeps_lookup. destruct (String.eqb (k_name (getp R i)) n) eqn:En; [|exact E].
    apply String.eqb_eq in En. subst n. congruence.
Qed.

(* refuses a second, different package of a recorded name *)
Lemma pick_refuses R i sel j : alookup (k_name (getp R i)) sel = Some j -> j <> i -> pick R i sel = Err.
Proof. unfold pick. intros E N. rewrite E. apply Nat.eqb_neq in N. rewrite N. reflexivity. Qed.

(* ... and a package that provides a recorded name *)
Lemma pick_provs_refuses i provs pv : forall sel, In pv provs -> ahas (s_name pv) sel = true -> pick_provs i provs sel = Err.
Proof.
  induction provs as [|a t IH]; intros sel Hin0 Hh; [contradiction|]. destruct Hin0 as [<-|Hin]; simpl.
  - rewrite Hh. reflexivity.
  - destruct (ahas (s_name a) sel); [reflexivity|]. destruct (String.eqb (s_version a) ""); [apply IH; assumption|].
    apply IH; [exact Hin|]. rewrite ahas_aset, Hh. apply orb_true_r.
Qed.

Lemma pick_refuses_provided R i sel pv : alookup (k_name (getp R i)) sel = None ->
  In pv (k_provs (getp R i)) -> ahas (s_name pv) sel = true -> pick R i sel = Err.
Proof.
  unfold pick. intros E Hpv Hh. rewrite E. apply (pick_provs_refuses i _ pv); [exact Hpv|]. rewrite ahas_aset, Hh. apply orb_true_r.
Qed.

(* records the package under its own name *)
Lemma pick_records R i sel sel' : pick R i sel = Ok sel' -> alookup (k_name (getp R i)) sel' = Some i.
Proof.
  unfold pick. intros H. destruct (alookup (k_name (getp R i)) sel) as [j0|] eqn:E0.
  - destruct (Nat.eqb j0 i) eqn:E1; [|discriminate]. inversion H; subst. apply Nat.eqb_eq in E1. subst. exact E0.
  - eapply pick_provs_keeps; [exact H|]. rewrite aset_keeps_lookup, String.eqb_refl. reflexivity.
Qed.

(* `selected` only grows along the dependency walk: what was recorded stays recorded *)
Definition sel_mono (st st' : rstate) : Prop := forall n j, alookup n (st_selected st) = Some j -> alookup n (st_selected st') = Some j.

Lemma deps_loop_sel_mono R rec self pin parents :
  (forall i p ps st st' deps, rec i p ps st = Ok (st', deps) -> sel_mono st st') ->
  forall n cs st acc st' deps, deps_loop R rec self pin parents n cs st acc = Ok (st', deps) -> sel_mono st st'.
Proof.
  intros Hrec. induction n as [|n IH]; intros cs st acc st' deps H.
  - destruct cs; simpl in H; [inversion H; subst; intros ? ? E; exact E | discriminate].
  - destruct cs as [|c0 cs0]; [simpl in H; inversion H; subst; intros ? ? E; exact E|].
    cbn [deps_loop] in H. remember (c0 :: cs0) as cs.
    destruct (eval_all R st (getp R self) pin cs []) as [opts|]; [|discriminate].
    destruct (lowest opts) as [[d cands]|]; [|inversion H; subst; intros ? ? E; exact E].
    destruct (best_package R (s_name d) (st_existing st) (st_origins st) "" cands) as [best|]; [|discriminate].
    destruct (disqualify_conflicts R best (st_dq st)) as [dq1| | |]; simpl in H; try discriminate.
    destruct (pick R self (st_selected st)) as [sel1| | |] eqn:EP; simpl in H; try discriminate.
    destruct (rec best pin (k_name (getp R self) :: parents) (with_selected (with_dq st dq1) sel1)) as [[st2 sub]| | |] eqn:ER;
      simpl in H; try discriminate.
    apply Hrec in ER. apply IH in H. intros n0 j E. apply H. rewrite note_existing_sel. apply ER. cbn [with_selected st_selected].
    eapply pick_keeps; eassumption.
Qed.

Lemma get_deps_sel_mono R : forall fuel i pin parents st st' deps,
  get_deps fuel R i pin parents st = Ok (st', deps) -> sel_mono st st'.
Proof.
  induction fuel as [|f IH]; intros i pin parents st st' deps H; [discriminate|].
  cbn [get_deps] in H. destruct (mem_str (k_name (getp R i)) parents); [inversion H; subst; intros ? ? E; exact E|].
  destruct (constrain R (k_deps (getp R i)) (st_dq st)) as [dq1| | |]; cbn [rbind] in H; try discriminate.
  apply (deps_loop_sel_mono R (get_deps f R) i pin parents IH) in H. intros n j E. apply H. exact E.
Qed.

(* ---- 4. conflict entries are honoured forward -------------------------------------------------------- *)
(* package j is what the entry "!c" excludes: listed under c's name and passing filterPackages for c *)
Definition entry_excludes (R : resolver) (c : cstr) (j : pid) : Prop :=
  exists l, alookup (s_name c) (r_names R) = Some l /\ In j l /\ hit R c j = true.

(* an entry without operator excludes every package listed under the name that is not pinned *)
Lemma hit_unversioned R c j : (s_dep c =? dep_versionAny)%Z = true -> p_pin (k_pkg (getp R j)) = "" -> hit R c j = true.
Proof.
  intros Hd Hp. unfold hit, filter_packages. cbn [world_opts fo_dep mem_pid existsb negb andb List.filter]. rewrite Hd.
  unfold pin_allowed. rewrite Hp. reflexivity.
Qed.

Lemma constrain_excludes R : forall cs dq dq', constrain R cs dq = Ok dq' ->
  forall d c j, In d cs -> d_neg d = Some c -> entry_excludes R c j -> In j dq'.
Proof.
  induction cs as [|c0 cs IH]; intros dq dq' H d c j Hd Hneg Hx; [contradiction|].
  unfold constrain in H. simpl in H. fold (constrain R cs) in H.
  match type of H with fold_left ?F cs ?first = _ => set (fst0 := first) in * end.
  assert (M : exists dqa, fst0 = Ok dqa /\ constrain R cs dqa = Ok dq').
  { destruct fst0 as [dqa| | |] eqn:E0.
    - exists dqa. split; [reflexivity | exact H].
    - exfalso. clear -H. induction cs as [|x xs IHx]; simpl in H; [discriminate | apply IHx; exact H].
    - exfalso. clear -H. induction cs as [|x xs IHx]; simpl in H; [discriminate | apply IHx; exact H].
    - exfalso. clear -H. induction cs as [|x xs IHx]; simpl in H; [discriminate | apply IHx; exact H]. }
  destruct M as [dqa [E0 HC]]. destruct Hd as [->|Hd]; [|eapply IH; eassumption].
  subst fst0. simpl in E0. rewrite Hneg in E0. inversion E0; subst dqa. apply (constrain_mono _ _ _ _ HC).
  destruct Hx as [l [EL [Hj Hh]]]. unfold disqualify_providers. rewrite EL. apply fold_dq_add_all.
  destruct (in_dec Nat.eq_dec j dq) as [A|A]; [left; exact A|]. right.
  unfold hit in Hh. unfold filter_packages in *. cbn [mem_pid existsb negb andb List.filter] in Hh.
  assert (B : In j (List.filter (fun i => negb (mem_pid i dq) && pin_allowed R (world_opts c) (getp R i)) l)).
  { apply filter_In. split; [exact Hj|]. apply andb_true_iff. split; [apply negb_true_iff; apply mem_pid_false; exact A|].
    destruct (pin_allowed R (world_opts c) (getp R j)); [reflexivity|]. cbn [List.filter] in Hh.
    destruct (fo_dep (world_opts c) =? dep_versionAny)%Z; [discriminate|]. destruct (fo_req (world_opts c)); discriminate. }
  destruct (fo_dep (world_opts c) =? dep_versionAny)%Z; [exact B|].
  destruct (fo_req (world_opts c)) as [req|]; [|destruct (pin_allowed R (world_opts c) (getp R j)); discriminate].
  apply filter_In. split; [exact B|].
  destruct (pin_allowed R (world_opts c) (getp R j)); cbn [List.filter] in Hh; [|discriminate].
  destruct (version_passes (getp R j) (fo_dep (world_opts c)) req); [reflexivity | discriminate].
Qed.

(* the walk of an expanded package: whatever one of its conflict entries excludes is
   disqualified on return and is NOT among the packages the walk returns *)
Lemma conflict_forward_lemma R fuel i pin parents st st' deps : wf R ->
  get_deps fuel R i pin parents st = Ok (st', deps) -> mem_str (k_name (getp R i)) parents = false ->
  forall d c j, In d (k_deps (getp R i)) -> d_neg d = Some c -> entry_excludes R c j -> In j (st_dq st') /\ ~ In j deps.
Proof.
  intros Hwf H Hcut d c j Hd Hneg Hx. destruct fuel as [|f]; [discriminate|]. cbn [get_deps] in H. rewrite Hcut in H.
  destruct (constrain R (k_deps (getp R i)) (st_dq st)) as [dq1| | |] eqn:EC; cbn [rbind] in H; try discriminate.
  pose proof (constrain_excludes R _ _ _ EC d c j Hd Hneg Hx) as Hj.
  destruct (deps_loop_inv R (get_deps f R) i pin parents Hwf (get_deps_inv R Hwf f) _ _ _ _ _ _ H dq1) as [I Fa].
  - apply incl_refl.
  - constructor.
  - split; [apply I; exact Hj|]. intro Hc. rewrite Forall_forall in Fa. destruct (Fa j Hc) as [_ N]. apply N. exact Hj.
Qed.

(* ... and no later walk chooses it either: a walk never returns a package of its initial set *)
Lemma walk_avoids_dq R fuel i pin parents st st' deps j : wf R ->
  get_deps fuel R i pin parents st = Ok (st', deps) -> In j (st_dq st) -> ~ In j deps /\ In j (st_dq st').
Proof.
  intros Hwf H Hj. destruct (get_deps_inv R Hwf _ _ _ _ _ _ _ H) as [I Fa]. split; [|apply I; exact Hj].
  intro Hc. rewrite Forall_forall in Fa. destruct (Fa j Hc) as [_ N]. apply N. exact Hj.
Qed.

(* ---- 5. ... and only forward: the validator of the conflict clause, and the refutation ------------------ *)
Lemma excluded_by_b_spec d p : excluded_by_b (cook_dep d) (cook_pkg p) = true <-> excluded_by d p.
Proof.
  unfold excluded_by_b, excluded_by, cook_dep; cbn [d_neg]. destruct (bang_rest d) as [rest|]; simpl.
  - rewrite pkg_satisfies_b_spec. split; [intros H; exists rest; split; [reflexivity | exact H]|].
    intros [r [E H]]. inversion E; subst. exact H.
  - split; [discriminate|]. intros [r [E _]]. discriminate.
Qed.

Theorem conflict_check_spec S : conflict_check S = [] <-> ConflictFree S.
Proof.
  unfold conflict_check, conflict_check_c, ConflictFree. rewrite flat_map_nil. split.
  - intros H p q d Hp Hq Hd Hx. specialize (H (cook_pkg p) (in_map _ _ _ Hp)). rewrite flat_map_nil in H.
    specialize (H (cook_dep d)). unfold cook_pkg at 1 in H; cbn [k_deps] in H. specialize (H (in_map _ _ _ Hd)).
    rewrite flat_map_nil in H. specialize (H (cook_pkg q) (in_map _ _ _ Hq)).
    apply excluded_by_b_spec in Hx. rewrite Hx in H. cbn [andb k_pkg cook_pkg] in H.
    destruct (pkg_eqb p q) eqn:EP; [apply pkg_eqb_spec; exact EP | discriminate].
  - intros H k Hk. apply in_map_iff in Hk. destruct Hk as [p [<- Hp]]. rewrite flat_map_nil. intros cd Hcd.
    unfold cook_pkg in Hcd; cbn [k_deps] in Hcd. apply in_map_iff in Hcd. destruct Hcd as [d [<- Hd]].
    rewrite flat_map_nil. intros kq Hkq. apply in_map_iff in Hkq. destruct Hkq as [q [<- Hq]].
    destruct (excluded_by_b (cook_dep d) (cook_pkg q)) eqn:E1; [|reflexivity]. apply excluded_by_b_spec in E1.
    pose proof (H p q d Hp Hq Hd E1) as E. subst q. cbn [cook_pkg k_pkg andb].
    assert (X : pkg_eqb p p = true) by (apply pkg_eqb_spec; reflexivity). rewrite X. reflexivity.
Qed.

(* C02-F7: a -> b, c;  c -> !b.  b is chosen for a before c is expanded; c's entry then
   disqualifies b, which keeps b from being chosen AGAIN and nothing else. *)
Definition U_F7 : universe := [wp "a" "1.0" ["b"; "c"] [] []; wp "b" "1.0" [] [] []; wp "c" "1.0" ["!b"] [] []].

Definition conflict_refutes (U : universe) (W : list string) (tag : string) : Prop :=
  exists S, resolve U W [] = Ok S /\ ~ ConflictFree (pkgs_of U S) /\ In tag (conflict_check (pkgs_of U S)).

Lemma conflict_refuted_lemma : conflict_refutes U_F7 ["a"] "conflict/member-excluded-by-member".
Proof.
  exists [1; 2; 0]. split; [vm_compute; reflexivity|]. split.
  - intro C. apply conflict_check_spec in C. vm_compute in C. discriminate.
  - vm_compute. left. reflexivity.
Qed.

(* the same universe asked in the order in which the entry IS honoured: c expanded first, b is
   disqualified when it is asked for, the resolution fails — it never returns the contradictory set *)
Lemma conflict_honoured_example : resolve U_F7 ["c"; "b"] [] = Err /\ resolve U_F7 ["c"; "a"] [] = Err.
Proof. vm_compute. split; reflexivity. Qed.
