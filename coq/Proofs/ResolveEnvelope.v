(* C02: what is PROVED inside the envelope (Spec.ResolveSpec.envelope_b).
   With one provider per name, names are unique, so the candidate chosen for a
   request is itself a member of the result (de-duplication by name cannot
   replace it by a sibling version — the mechanism of finding C02-F1). *)
From Apko Require Import Base.Prelude Generated.VersionConsts Model.Version Model.Resolver Spec.ResolveSpec
  Proofs.ResolveProofs Proofs.ResolveProofs2 Proofs.C14Proofs Proofs.ResolveTheorems.
Open Scope string_scope. Open Scope list_scope. Open Scope nat_scope.

Definition listed (m : name_map) (n : string) (i : pid) : Prop := exists l, alookup n m = Some l /\ In i l.

Lemma nm_add_keeps n i m n' i' : listed m n i -> listed (nm_add n' i' m) n i.
Proof.
  intros [l [E Hi]]. revert E. induction m as [|[k l0] m IH]; simpl; intros E; [discriminate|].
  destruct (String.eqb k n') eqn:E1; destruct (String.eqb k n) eqn:E2.
  - inversion E; subst. exists (l ++ [i']). split; [simpl; rewrite E2; reflexivity | apply in_or_app; left; exact Hi].
  - exists l. split; [simpl; rewrite E2; exact E | exact Hi].
  - exists l. split; [simpl; rewrite E2; exact E | exact Hi].
  - destruct (IH E) as [l' [A B]]. exists l'. split; [simpl; rewrite E2; exact A | exact B].
Qed.

Lemma nm_add_has n i m : listed (nm_add n i m) n i.
Proof.
  induction m as [|[k l0] m IH]; simpl.
  - exists [i]. split; [simpl; rewrite String.eqb_refl; reflexivity | left; reflexivity].
  - destruct (String.eqb k n) eqn:E1.
    + exists (l0 ++ [i]). split; [simpl; rewrite E1; reflexivity | apply in_or_app; right; left; reflexivity].
    + destruct IH as [l' [A B]]. exists l'. split; [simpl; rewrite E1; exact A | exact B].
Qed.

Lemma own_names_lists ks : forall i k, nth_error ks i = Some k -> listed (own_names ks) (k_name k) i.
Proof.
  unfold own_names.
  assert (G : forall l i0 m, (forall i k, In (i, k) (number_from i0 l) \/ False -> True) ->
     forall i k, (listed m (k_name k) i \/ In (i, k) (number_from i0 l)) ->
     listed (fold_left (fun m ik => nm_add (k_name (snd ik)) (fst ik) m) (number_from i0 l) m) (k_name k) i).
  { induction l as [|a l IH]; intros i0 m _ i k H; simpl in *.
    - destruct H as [H|[]]. exact H.
    - apply (IH (S i0)); [auto|]. destruct H as [H|[H|H]].
      + left. apply nm_add_keeps. exact H.
      + inversion H; subst. left. apply nm_add_has.
      + right. exact H. }
  intros i k H. apply (G ks 0 []); [auto|]. right. apply (number_from_In ks 0 i k H).
Qed.

Lemma build_names_lists ks i k : nth_error ks i = Some k -> listed (build_names ks) (k_name k) i.
Proof.
  intros H. unfold build_names, add_provides.
  apply (fold_left_inv (fun m => listed m (k_name k) i)); [apply own_names_lists; exact H|].
  intros m key _ Hm. destruct (alookup key (own_names ks)); [|exact Hm].
  apply (fold_left_inv (fun m => listed m (k_name k) i)); [exact Hm|]. intros m' i' _ Hm'.
  destruct (nth_error ks i'); [|exact Hm'].
  apply (fold_left_inv (fun m => listed m (k_name k) i)); [exact Hm'|]. intros m'' pv _ Hm''.
  apply nm_add_keeps. exact Hm''.
Qed.

Lemma own_listed U i : i < List.length U -> listed (r_names (new_resolver U)) (nm (new_resolver U) i) i.
Proof.
  intros Hi. unfold new_resolver at 1; cbn [r_names]. unfold nm, getp, new_resolver; cbn [r_pkgs].
  apply build_names_lists. apply nth_error_nth'. rewrite map_length. exact Hi.
Qed.

Lemma envelope_singletons U W : envelope_b U W = true ->
  forall n l, alookup n (r_names (new_resolver U)) = Some l -> exists x, l = [x].
Proof.
  unfold envelope_b, envelope_c. intros H n l E.
  apply andb_true_iff in H. destruct H as [H _]. apply andb_true_iff in H. destruct H as [H _].
  apply andb_true_iff in H. destruct H as [_ H]. rewrite forallb_forall in H.
  apply alookup_In in E. specialize (H _ E). simpl in H. destruct l as [|x [|y t]]; try discriminate. exists x. reflexivity.
Qed.

Lemma closed_partial_lemma U W dq0 scheds S :
  envelope_b U W = true -> resolve U W dq0 scheds = Ok S ->
  NoDup (List.map p_name (pkgs_of U S)) /\ incl (pkgs_of U S) U /\
  (forall w, In w W -> exists dq i, incl dq0 dq /\ In i (candidates (new_resolver U) dq (cook_str w)) /\ In i S).
Proof.
  intros HE H. split; [eapply nodup_lemma; exact H|]. split; [eapply members_lemma; exact H|].
  intros w Hw. pose proof (resolve_ok _ _ _ _ _ (new_resolver_wf2 U) H) as [_ [HM HR]].
  destruct (HR w Hw) as [dq [i [H1 [H2 [j [H3 H4]]]]]]. exists dq, i. split; [exact H1|]. split; [exact H2|].
  assert (Vi : i < List.length U).
  { destruct (candidates_spec _ _ _ _ (new_resolver_wf U) H2) as [V _].
    unfold valid, new_resolver in V; cbn [r_pkgs] in V. rewrite map_length in V. exact V. }
  assert (Vj : j < List.length U) by (eapply members_lemma; eassumption).
  destruct (own_listed U i Vi) as [l [E Hi]]. destruct (own_listed U j Vj) as [l' [E' Hj]].
  rewrite H4 in E'. rewrite E in E'. inversion E'; subst l'.
  destruct (envelope_singletons U W HE _ _ E) as [x ->].
  destruct Hi as [<-|[]]. destruct Hj as [<-|[]]. exact H3.
Qed.
