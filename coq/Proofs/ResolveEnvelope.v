(* C02: what is PROVED inside the envelope (Spec.ResolveSpec.envelope_b).
   With one provider per name, names are unique, so the candidate chosen for a
   request is itself a member of the result (de-duplication by name cannot
   replace it by a sibling version — the mechanism of finding C02-F1). *)
From Apko Require Import Base.Prelude Generated.VersionConsts Model.Version Model.Resolver Spec.ResolveSpec
  Proofs.ResolveProofs Proofs.ResolveProofs2 Proofs.C14Proofs Proofs.ResolveTheorems.
Open Scope string_scope. Open Scope list_scope. Open Scope nat_scope.

Definition listed (m : name_map) (n : string) (i : pid) : Prop := exists l, alookup n m = Some l /\ In i l.

Lemma nm_add_keeps n i m n' i' : listed m n i -> listed (nm_add n' i' m) n i.
Proof.
  intros [l [E Hi]]. revert E. induction m as [|[k l0] m IH]; simpl; intros E; [discriminate|].
  destruct (String.eqb k n') eqn:E1; destruct (String.eqb k n) eqn:E2.
  - inversion E; subst. exists (l ++ [i']). split; [simpl; rewrite E2; reflexivity | apply in_or_app; left; exact Hi].
  - exists l. split; [simpl; rewrite E2; exact E | exact Hi].
  - exists l. split; [simpl; rewrite E2; exact E | exact Hi].
  - destruct (IH E) as [l' [A B]]. exists l'. split; [simpl; rewrite E2; exact A | exact B].
Qed.

Lemma nm_add_has n i m : listed (nm_add n i m) n i.
Proof.
  induction m as [|[k l0] m IH]; simpl.
  - exists [i]. split; [simpl; rewrite String.eqb_refl; reflexivity | left; reflexivity].
  - destruct (String.eqb k n) eqn:E1.
    + exists (l0 ++ [i]). split; [simpl; rewrite E1; reflexivity | apply in_or_app; right; left; reflexivity].
    + destruct IH as [l' [A B]]. exists l'. split; [simpl; rewrite E1; exact A | exact B].
Qed.

Lemma own_names_lists ks : forall i k, nth_error ks i = Some k -> listed (own_names ks) (k_name k) i.
Proof.
  unfold own_names.
  assert (G : forall l i0 m, (forall i k, In (i, k) (number_from i0 l) \/ False -> True) ->
     forall i k, (listed m (k_name k) i \/ In (i, k) (number_from i0 l)) ->
     listed (fold_left (fun m ik => nm_add (k_name (snd ik)) (fst ik) m) (number_from i0 l) m) (k_name k) i).
  { induction l as [|a l IH]; intros i0 m _ i k H; simpl in *.
    - destruct H as [H|[]]. exact H.
    - apply (IH (S i0)); [auto|]. destruct H as [H|[H|H]].
      + left. apply nm_add_keeps. exact H.
      + inversion H; subst. left. apply nm_add_has.
      + right. exact H. }
  intros i k H. apply (G ks 0 []); [auto|]. right. apply (number_from_In ks 0 i k H).
Qed.

Lemma build_names_lists ks i k : nth_error ks i = Some k -> listed (build_names ks) (k_name k) i.
Proof.
  intros H. unfold build_names, add_provides.
  apply (fold_left_inv (fun m => listed m (k_name k) i)); [apply own_names_lists; exact H|].
  intros m key _ Hm. destruct (alookup key (own_names ks)); [|exact Hm].
  apply (fold_left_inv (fun m => listed m (k_name k) i)); [exact Hm|]. intros m' i' _ Hm'.
  destruct (nth_error ks i'); [|exact Hm'].
  apply (fold_left_inv (fun m => listed m (k_name k) i)); [exact Hm'|]. intros m'' pv _ Hm''.
  apply nm_add_keeps. exact Hm''.
Qed.

Lemma own_listed U i : i < List.length U -> listed (r_names (new_resolver U)) (nm (new_resolver U) i) i.
Proof.
  intros Hi. unfold new_resolver at 1; cbn [r_names]. unfold nm, getp, new_resolver; cbn [r_pkgs].
  apply build_names_lists. apply nth_error_nth'. rewrite map_length. exact Hi.
Qed.

Lemma envelope_singletons U W : envelope_b U W = true ->
  forall n l, alookup n (r_names (new_resolver U)) = Some l -> exists x, l = [x].
Proof.
  unfold envelope_b, envelope_c. intros H n l E.
  apply andb_true_iff in H. destruct H as [H _]. apply andb_true_iff in H. destruct H as [H _].
  apply andb_true_iff in H. destruct H as [_ H]. rewrite forallb_forall in H.
  apply alookup_In in E. specialize (H _ E). simpl in H. destruct l as [|x [|y t]]; try discriminate. exists x. reflexivity.
Qed.

Lemma closed_partial_lemma U W dq0 S :
  envelope_b U W = true -> resolve U W dq0 = Ok S ->
  NoDup (List.map p_name (pkgs_of U S)) /\ incl (pkgs_of U S) U /\
  (forall w, In w W -> exists dq i, incl dq0 dq /\ In i (candidates (new_resolver U) dq (cook_str w)) /\ In i S).
Proof.
  intros HE H. split; [eapply nodup_lemma; exact H|]. split; [eapply members_lemma; exact H|].
  intros w Hw. pose proof (resolve_ok _ _ _ _ (new_resolver_wf2 U) H) as [_ [HM HR]].
  destruct (HR w Hw) as [dq [i [H1 [H2 [j [H3 H4]]]]]]. exists dq, i. split; [exact H1|]. split; [exact H2|].
  assert (Vi : i < List.length U).
  { destruct (candidates_spec _ _ _ _ (new_resolver_wf U) H2) as [V _].
    unfold valid, new_resolver in V; cbn [r_pkgs] in V. rewrite map_length in V. exact V. }
  assert (Vj : j < List.length U) by (eapply members_lemma; eassumption).
  destruct (own_listed U i Vi) as [l [E Hi]]. destruct (own_listed U j Vj) as [l' [E' Hj]].
  rewrite H4 in E'. rewrite E in E'. inversion E'; subst l'.
  destruct (envelope_singletons U W HE _ _ E) as [x ->].
  destruct Hi as [<-|[]]. destruct Hj as [<-|[]]. exact H3.
Qed.

(* ---- requests are satisfied in the sense of the Spec ------------------------------------ *)
(* the name map is sound: a package listed under n is named n or provides n *)
Definition provides_name (k : cpkg) (n : string) : Prop := exists pv, In pv (k_provs k) /\ s_name pv = n.
Definition nm_sound (ks : list cpkg) (m : name_map) : Prop :=
  Forall (fun e => Forall (fun j => exists k, nth_error ks j = Some k /\ (k_name k = fst e \/ provides_name k (fst e))) (snd e)) m.

Lemma nm_add_sound ks n j m k : nth_error ks j = Some k -> (k_name k = n \/ provides_name k n) ->
  nm_sound ks m -> nm_sound ks (nm_add n j m).
Proof.
  intros Hj Hk. induction m as [|[k0 l] m IH]; simpl; intros H.
  - constructor; [|constructor]. simpl. constructor; [|constructor]. exists k. auto.
  - inversion H as [|? ? H1 H2]; subst. destruct (String.eqb k0 n) eqn:E.
    + apply String.eqb_eq in E. subst k0. constructor; [|exact H2]. simpl in *. apply Forall_app. split; [exact H1|].
      constructor; [|constructor]. exists k. auto.
    + constructor; [exact H1|]. apply IH. exact H2.
Qed.

Lemma build_names_sound ks : nm_sound ks (build_names ks).
Proof.
  unfold build_names, add_provides. apply fold_left_inv.
  - unfold own_names. apply fold_left_inv; [constructor|]. intros m [i k] Hin Hm. simpl.
    pose proof (number_from_nth _ _ _ _ Hin) as Hn. rewrite Nat.sub_0_r in Hn.
    eapply nm_add_sound; [exact Hn | left; reflexivity | exact Hm].
  - intros m key _ Hm. destruct (alookup key (own_names ks)); [|exact Hm].
    apply fold_left_inv; [exact Hm|]. intros m' i _ Hm'. destruct (nth_error ks i) as [k|] eqn:E; [|exact Hm'].
    assert (G : forall provs, (forall pv, In pv provs -> In pv (k_provs k)) ->
                nm_sound ks (fold_left (fun m pv => nm_add (s_name pv) i m) provs m')).
    { intros provs. revert m' Hm'. induction provs as [|pv t IH]; intros m0 Hm0 Hsub; [exact Hm0|]. simpl. apply IH.
      - eapply nm_add_sound; [exact E | right; exists pv; split; [apply Hsub; left; reflexivity | reflexivity] | exact Hm0].
      - intros pv' Hpv'. apply Hsub. right. exact Hpv'. }
    apply G. auto.
Qed.

Lemma names_sound U n l j : alookup n (r_names (new_resolver U)) = Some l -> In j l ->
  k_name (getp (new_resolver U) j) = n \/ provides_name (getp (new_resolver U) j) n.
Proof.
  intros E Hj. unfold new_resolver in E; cbn [r_names] in E. apply alookup_In in E.
  pose proof (build_names_sound (List.map cook_pkg U)) as S. unfold nm_sound in S. rewrite Forall_forall in S.
  specialize (S _ E). simpl in S. rewrite Forall_forall in S. destruct (S j Hj) as [k [Hn Hk]].
  unfold getp, new_resolver; cbn [r_pkgs]. rewrite (nth_error_nth _ _ _ Hn). exact Hk.
Qed.

(* constrain disqualifies every provider that fails a versioned positive entry *)
Lemma fold_dq_add_covers (f : pid -> bool) providers : forall dq j, In j providers -> f j = true ->
  In j (fold_left (fun dq j => if f j then dq_add j dq else dq) providers dq).
Proof.
  induction providers as [|p t IH]; intros dq j Hin Hf; [contradiction|]. simpl. destruct Hin as [->|Hin].
  - rewrite Hf. apply (fold_dq_add_incl (fun dq j => if f j then dq_add j dq else dq)).
    + intros d b. destruct (f b); [apply dq_add_incl | apply incl_refl].
    + unfold dq_add. destruct (mem_pid j dq) eqn:E; [apply mem_pid_In; exact E | left; reflexivity].
  - apply IH; assumption.
Qed.

Lemma constrain_covers R : forall cs dq0 dq1, constrain R cs dq0 = Ok dq1 ->
  forall d providers req j, In d cs -> d_neg d = None -> (s_dep (d_pos d) =? dep_versionAny)%Z = false ->
  alookup (s_name (d_pos d)) (r_names R) = Some providers -> s_req (d_pos d) = Some req ->
  In j providers -> constrain_provider (d_pos d) req (getp R j) = true -> In j dq1.
Proof.
  induction cs as [|c cs IH]; intros dq0 dq1 H d providers req j Hd Hneg Hdep Hl Hreq Hj Hc; [contradiction|].
  unfold constrain in H. simpl in H. fold (constrain R cs) in H.
  (* the first step *)
  match type of H with fold_left ?F cs ?first = _ => set (F0 := F) in *; set (fst0 := first) in * end.
  assert (M : exists dqa, fst0 = Ok dqa /\ incl dqa dq1 /\ constrain R cs dqa = Ok dq1).
  { destruct fst0 as [dqa| | |] eqn:E0.
    - exists dqa. split; [reflexivity|]. split; [eapply constrain_mono; exact H | exact H].
    - exfalso. clear -H. induction cs as [|x xs IHx]; simpl in H; [discriminate | apply IHx; exact H].
    - exfalso. clear -H. induction cs as [|x xs IHx]; simpl in H; [discriminate | apply IHx; exact H].
    - exfalso. clear -H. induction cs as [|x xs IHx]; simpl in H; [discriminate | apply IHx; exact H]. }
  destruct M as [dqa [E0 [I1 HC]]]. destruct Hd as [->|Hd].
  - subst fst0. simpl in E0. rewrite Hneg, Hdep, Hl, Hreq in E0. inversion E0; subst dqa. apply I1.
    apply (fold_dq_add_covers (fun j => constrain_provider (d_pos d) req (getp R j))); assumption.
  - eapply IH; eassumption.
Qed.

Lemma resolve_ok_c R world dq0 S : wf2 R -> resolve_with R world dq0 = Ok S ->
  exists dq1, constrain R (List.map cook_dep world) dq0 = Ok dq1 /\
  forall w, In w world -> exists dq i, incl dq1 dq /\ In i (candidates R dq (cook_str w)) /\
                                       exists j, In j S /\ nm R j = nm R i.
Proof.
  intros Hwf H. unfold resolve_with in H.
  destruct (constrain R (List.map cook_dep world) dq0) as [dq1| | |] eqn:EC; cbn [rbind] in H; try discriminate.
  exists dq1. split; [reflexivity|].
  destruct (phase1 _ R _ dq1 []) as [[dq2 depmap]| | |] eqn:E1; cbn [rbind] in H; try discriminate.
  apply phase1_mono in E1.
  eapply (phase2_inv R dq1 Hwf) in H.
  - destruct H as [_ [_ [_ H4]]]. intros w Hw. destruct (H4 (d_pos (cook_dep w))) as [dq [i [A [B C]]]].
    { rewrite map_map. apply in_map_iff. exists w. split; [reflexivity | exact Hw]. }
    exists dq, i. split; [exact A|]. split; [exact B|]. apply in_map_iff in C. destruct C as [j [E Hj]].
    exists j. split; [exact Hj | exact E].
  - exact E1.
  - simpl. split; [constructor|]. split; [intros n; split; intros []|constructor].
Qed.

Lemma envelope_world U W : envelope_b U W = true -> forall w, In w W ->
  d_neg (cook_dep w) = None /\ versioned_on_real_b (new_resolver U) (cook_str w) = true.
Proof.
  unfold envelope_b, envelope_c. intros H w Hw. apply andb_true_iff in H. destruct H as [_ H].
  rewrite forallb_forall in H. specialize (H (cook_dep w) (in_map _ _ _ Hw)).
  destruct (d_neg (cook_dep w)); [discriminate|]. split; [reflexivity | exact H].
Qed.

Lemma closed_partial_requests U W dq0 S :
  envelope_b U W = true -> resolve U W dq0 = Ok S ->
  forall w, In w W -> satisfies_dep (pkgs_of U S) w.
Proof.
  intros HE H w Hw. set (R := new_resolver U) in *.
  destruct (resolve_ok_c R W dq0 S (new_resolver_wf2 U) H) as [dq1 [HC HR]].
  destruct (HR w Hw) as [dq [i [H1 [H2 [j [H3 H4]]]]]].
  (* unique names: the chosen candidate is the member *)
  assert (Vi : i < List.length U).
  { destruct (candidates_spec _ _ _ _ (new_resolver_wf U) H2) as [V _].
    unfold valid, R, new_resolver in V; cbn [r_pkgs] in V. rewrite map_length in V. exact V. }
  assert (Vj : j < List.length U) by (eapply members_lemma; eassumption).
  destruct (own_listed U i Vi) as [l [E Hi]]. destruct (own_listed U j Vj) as [l' [E' Hj]].
  fold R in E, E'. rewrite H4 in E'. rewrite E in E'. inversion E'; subst l'.
  destruct (envelope_singletons U W HE _ _ E) as [x ->].
  destruct Hi as [<-|[]]. destruct Hj as [<-|[]]. clear E E' H4.
  exists (nth x U dummy_pkg). split; [unfold pkgs_of; apply in_map_iff; exists x; split; [reflexivity | exact H3]|].
  (* the candidate satisfies the request *)
  apply pkg_satisfies_b_spec. rewrite <- getp_new_resolver. fold R.
  destruct (envelope_world U W HE w Hw) as [Hneg Hreal]. fold R in Hreal.
  unfold candidates in H2. destruct (alookup (s_name (cook_str w)) (r_names R)) as [cands|] eqn:EL; [|contradiction].
  unfold filter_packages in H2. cbn [world_opts fo_dep fo_req] in H2.
  unfold pkg_satisfies_b. destruct (s_dep (cook_str w) =? dep_versionAny)%Z eqn:ED.
  - (* no operator: named or providing *)
    apply filter_In in H2. destruct H2 as [Hin _].
    destruct (names_sound U _ _ _ EL Hin) as [Hn|[pv [Hpv Hn]]]; fold R in Hn.
    + apply orb_true_iff. left. apply andb_true_iff. split; [apply String.eqb_eq; exact Hn|].
      unfold ver_ok_b. rewrite ED. reflexivity.
    + apply orb_true_iff. right. apply existsb_exists. exists pv. split; [exact Hpv|].
      unfold provide_ok_b. apply andb_true_iff. split; [apply String.eqb_eq; exact Hn|]. unfold ver_ok_b. rewrite ED. reflexivity.
  - (* an operator: the name is a package name; constrain has removed it unless its own version passes *)
    destruct (s_req (cook_str w)) as [req|] eqn:EQ; [|contradiction].
    apply filter_In in H2. destruct H2 as [Hb Hv]. apply filter_In in Hb. destruct Hb as [Hin Hb].
    apply andb_true_iff in Hb. destruct Hb as [Hndq _]. apply negb_true_iff in Hndq. apply mem_pid_false in Hndq.
    unfold versioned_on_real_b in Hreal. rewrite ED, EL in Hreal. cbn [orb] in Hreal.
    destruct cands as [|i' [|? ?]]; try discriminate. destruct Hin as [<-|[]]. apply String.eqb_eq in Hreal.
    apply orb_true_iff. left. apply andb_true_iff. split; [apply String.eqb_eq; exact Hreal|].
    unfold ver_ok_b. rewrite ED, EQ. cbn [orb].
    unfold version_passes in Hv. destruct (k_ver (getp R i')) as [a|] eqn:EV; [|discriminate].
    destruct (satisfies (s_dep (cook_str w)) a req) eqn:ES; [reflexivity|]. exfalso. apply Hndq. apply H1.
    eapply (constrain_covers R _ _ _ HC (cook_dep w) [i'] req i').
    + apply in_map. exact Hw.
    + exact Hneg.
    + exact ED.
    + exact EL.
    + exact EQ.
    + left. reflexivity.
    + unfold constrain_provider. cbn [cook_dep d_pos]. rewrite Hreal, String.eqb_refl, EV, ES. reflexivity.
Qed.

Lemma closed_partial_lemma2 U W dq0 S :
  envelope_b U W = true -> resolve U W dq0 = Ok S ->
  NoDup (List.map p_name (pkgs_of U S)) /\ incl (pkgs_of U S) U /\
  (forall w, In w W -> satisfies_dep (pkgs_of U S) w) /\
  (forall w, In w W -> exists dq i, incl dq0 dq /\ In i (candidates (new_resolver U) dq (cook_str w)) /\ In i S).
Proof.
  intros HE H. destruct (closed_partial_lemma U W dq0 S HE H) as [A [B C]].
  split; [exact A|]. split; [exact B|]. split; [|exact C]. eapply closed_partial_requests; eassumption.
Qed.
