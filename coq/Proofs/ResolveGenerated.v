(* C02: the three functions goextract TRANSLATES from pkg/apk/apk/repo.go
   (Generated/C02Resolver.v: conflictingVersion, pick, disqualifyConflicts, statement
   by statement) are the hand-written model functions of Model/Resolver.v.  A change of
   one of them in /repo changes the generated term and these proofs stop going through:
   the theorems about conflicting_version / pick / disqualify_conflicts
   (Proofs/ResolveConflicts.v) are theorems about the code as it is today. *)
From Apko Require Import Base.Prelude Generated.VersionConsts Model.Version Model.Resolver Generated.C02Resolver
  Proofs.ResolveProofs.
Open Scope string_scope. Open Scope list_scope.

(* the proofs do not follow the shape of the generated terms: they split on whatever
   condition or lookup stands in the goal, so a behaviour-preserving rewrite of the Go text
   (else-branches, negated tests, early returns turned round) still goes through, and a
   change of behaviour leaves a false equation *)
Ltac split_goal :=
  match goal with
  | |- context [if negb ?b then _ else _] => destruct b eqn:?; cbn [negb]
  | |- context [if ?b then _ else _] => destruct b eqn:?
  | |- context [match ?o with Some _ => _ | None => _ end] => destruct o as [[|]|] eqn:?
  | |- context [match ?o with Some _ => _ | None => _ end] => destruct o eqn:?
  end.
Ltac finish := try reflexivity; try congruence; try discriminate.

Lemma gen_conflicting_version_eq c k : gen_conflicting_version c k = conflicting_version c k.
Proof.
  unfold gen_conflicting_version, conflicting_version.
  induction (k_provs k) as [|pv t IH]; cbn [List.find]; repeat (split_goal; finish); finish; try exact IH;
    try (rewrite <- IH; repeat (split_goal; finish); finish).
Qed.

Lemma gen_pick_eq R i sel : gen_pick R i sel = pick R i sel.
Proof.
  unfold gen_pick, pick.
  destruct (alookup (k_name (getp R i)) sel) eqn:E0.
  { repeat (split_goal; finish); finish; rewrite Nat.eqb_sym in *; congruence. }
  cbv zeta. generalize (aset (k_name (getp R i)) i sel) as s.
  induction (k_provs (getp R i)) as [|pv t IH]; intros s; [reflexivity|].
  cbn [pick_provs]. unfold ahas. repeat (split_goal; finish); finish; try apply IH.
Qed.

Lemma gen_disqualify_conflicts_eq R i dq : gen_disqualify_conflicts R i dq = disqualify_conflicts R i dq.
Proof.
  unfold gen_disqualify_conflicts, disqualify_conflicts.
  match goal with |- _ = fold_left ?F _ _ => set (outer := F) end.
  assert (B : forall l, fold_left outer l Panic = Panic) by (induction l as [|x l IHl]; [reflexivity | exact IHl]).
  revert dq. induction (k_provs (getp R i)) as [|pv t IH]; intros dq; [reflexivity|].
  simpl fold_left. cbn [rbind].
  destruct (alookup (s_name pv) (r_names R)) as [providers|]; [|apply IH].
  match goal with |- _ = fold_left outer t (fold_left ?F _ _) => set (inner := F) end.
  assert (A : forall l, fold_left inner l Panic = Panic) by (induction l as [|x l IHl]; [reflexivity | exact IHl]).
  (* the inner loop, whose end is the rest of the outer one *)
  revert dq. induction providers as [|j ps IHp]; intros dq; [apply IH|].
  simpl fold_left. cbn [rbind]. rewrite ?gen_conflicting_version_eq.
  repeat (split_goal; finish); finish; try apply IHp; try (rewrite A, B; reflexivity).
Qed.

(* the statements of Proofs/ResolveConflicts.v, read off the TRANSLATED functions *)
Lemma code_functions_are_the_model :
  (forall c k, gen_conflicting_version c k = conflicting_version c k) /\
  (forall R i sel, gen_pick R i sel = pick R i sel) /\
  (forall R i dq, gen_disqualify_conflicts R i dq = disqualify_conflicts R i dq).
Proof. split; [exact gen_conflicting_version_eq|]. split; [exact gen_pick_eq | exact gen_disqualify_conflicts_eq]. Qed.

Lemma code_versioned_provide_conflicts c k : c_version c <> "" -> gen_conflicting_version c k = Some true.
Proof.
  intros H. rewrite gen_conflicting_version_eq. unfold conflicting_version. apply String.eqb_neq in H. rewrite H. reflexivity.
Qed.

Lemma code_pick_refuses_second R i sel j : alookup (k_name (getp R i)) sel = Some j -> j <> i -> gen_pick R i sel = Err.
Proof. intros E N. rewrite gen_pick_eq. unfold pick. rewrite E. apply Nat.eqb_neq in N. rewrite N. reflexivity. Qed.
