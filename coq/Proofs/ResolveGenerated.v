(* C02: the three functions goextract TRANSLATES from pkg/apk/apk/repo.go
   (Generated/C02Resolver.v: conflictingVersion, pick, disqualifyConflicts, statement
   by statement) are the hand-written model functions of Model/Resolver.v.  A change of
   one of them in /repo changes the generated term and these proofs stop going through:
   the theorems about conflicting_version / pick / disqualify_conflicts
   (Proofs/ResolveConflicts.v) are theorems about the code as it is today. *)
From Apko Require Import Base.Prelude Generated.VersionConsts Model.Version Model.Resolver Generated.C02Resolver
  Proofs.ResolveProofs Proofs.ResolveEnvelope Proofs.ResolveConflicts Spec.ResolveMultiSpec.
Open Scope string_scope. Open Scope list_scope.

(* the proofs do not follow the shape of the generated terms: they split on whatever
   condition or lookup stands in the goal, so a behaviour-preserving rewrite of the Go text
   (else-branches, negated tests, early returns turned round) still goes through, and a
   change of behaviour leaves a false equation *)
Ltac split_goal :=
  match goal with
  | |- context [if negb ?b then _ else _] => destruct b eqn:?; cbn [negb]
  | |- context [if ?b then _ else _] => destruct b eqn:?
  | |- context [match ?o with Some _ => _ | None => _ end] => destruct o as [[|]|] eqn:?
  | |- context [match ?o with Some _ => _ | None => _ end] => destruct o eqn:?
  end.
Ltac finish := try reflexivity; try congruence; try discriminate.

Lemma gen_conflicting_version_eq c k : gen_conflicting_version c k = conflicting_version c k.
Proof.
  unfold gen_conflicting_version, conflicting_version.
  induction (k_provs k) as [|pv t IH]; cbn [List.find]; repeat (split_goal; finish); finish; try exact IH;
    try (rewrite <- IH; repeat (split_goal; finish); finish).
Qed.

Lemma gen_pick_eq R i sel : gen_pick R i sel = pick R i sel.
Proof.
  unfold gen_pick, pick.
  destruct (alookup (k_name (getp R i)) sel) eqn:E0.
  { repeat (split_goal; finish); finish; rewrite Nat.eqb_sym in *; congruence. }
  cbv zeta. generalize (aset (k_name (getp R i)) i sel) as s.
  induction (k_provs (getp R i)) as [|pv t IH]; intros s; [reflexivity|].
  cbn [pick_provs]. unfold ahas. repeat (split_goal; finish); finish; try apply IH.
Qed.

Lemma gen_disqualify_conflicts_eq R i dq : gen_disqualify_conflicts R i dq = disqualify_conflicts R i dq.
Proof.
  unfold gen_disqualify_conflicts, disqualify_conflicts.
  match goal with |- _ = fold_left ?F _ _ => set (outer := F) end.
  assert (B : forall l, fold_left outer l Panic = Panic) by (induction l as [|x l IHl]; [reflexivity | exact IHl]).
  revert dq. induction (k_provs (getp R i)) as [|pv t IH]; intros dq; [reflexivity|].
  simpl fold_left. cbn [rbind].
  destruct (alookup (s_name pv) (r_names R)) as [providers|]; [|apply IH].
  match goal with |- _ = fold_left outer t (fold_left ?F _ _) => set (inner := F) end.
  assert (A : forall l, fold_left inner l Panic = Panic) by (induction l as [|x l IHl]; [reflexivity | exact IHl]).
  (* the inner loop, whose end is the rest of the outer one *)
  revert dq. induction providers as [|j ps IHp]; intros dq; [apply IH|].
  simpl fold_left. cbn [rbind]. rewrite ?gen_conflicting_version_eq.
  repeat (split_goal; finish); finish; try apply IHp; try (rewrite A, B; reflexivity).
Qed.

(* the statements of Proofs/ResolveConflicts.v, read off the TRANSLATED functions *)
Lemma code_functions_are_the_model :
  (forall c k, gen_conflicting_version c k = conflicting_version c k) /\
  (forall R i sel, gen_pick R i sel = pick R i sel) /\
  (forall R i dq, gen_disqualify_conflicts R i dq = disqualify_conflicts R i dq).
Proof. split; [exact gen_conflicting_version_eq|]. split; [exact gen_pick_eq | exact gen_disqualify_conflicts_eq]. Qed.

Lemma code_versioned_provide_conflicts c k : c_version c <> "" -> gen_conflicting_version c k = Some true.
Proof.
  intros H. rewrite gen_conflicting_version_eq. unfold conflicting_version. apply String.eqb_neq in H. rewrite H. reflexivity.
Qed.

Lemma code_pick_refuses_second R i sel j : alookup (k_name (getp R i)) sel = Some j -> j <> i -> gen_pick R i sel = Err.
Proof. intros E N. rewrite gen_pick_eq. unfold pick. rewrite E. apply Nat.eqb_neq in N. rewrite N. reflexivity. Qed.

(* ---- constrain ------------------------------------------------------------------------------ *)
Lemma dq_add_idem j dq : dq_add j (dq_add j dq) = dq_add j dq.
Proof.
  unfold dq_add. destruct (mem_pid j dq) eqn:E; [rewrite E; reflexivity|].
  cbn [mem_pid existsb]. rewrite Nat.eqb_refl. reflexivity.
Qed.

Lemma gen_constrain_eq R cs dq : gen_constrain R cs dq = constrain R cs dq.
Proof.
  unfold gen_constrain, constrain.
  match goal with |- _ = fold_left ?F _ _ => set (outer := F) end.
  assert (B : forall l, fold_left outer l Err = Err) by (induction l as [|x l IHl]; [reflexivity | exact IHl]).
  revert dq. induction cs as [|d t IH]; intros dq; [reflexivity|].
  simpl fold_left. cbn [rbind].
  destruct (d_neg d) as [rest|]; [apply IH|].
  destruct (Z.eqb (s_dep (d_pos d)) dep_versionAny); [apply IH|].
  destruct (alookup (s_name (d_pos d)) (r_names R)) as [providers|]; [|apply IH].
  destruct (s_req (d_pos d)) as [req|]; [|symmetry; apply B].
  (* the loop over the providers, whose end is the rest of the list *)
  revert dq. induction providers as [|j ps IHp]; intros dq; [apply IH|].
  simpl fold_left. unfold constrain_provider. fold (s_name (d_pos d)) (s_dep (d_pos d)). rewrite ?(String.eqb_sym (s_name (d_pos d)) (k_name (getp R j))).
  destruct (String.eqb (k_name (getp R j)) (s_name (d_pos d))); cbn [negb].
  - repeat (split_goal; finish); finish; apply IHp.
  - (* the loop over its provides: one dq_add if some provide of that name fails *)
    generalize dq. induction (k_provs (getp R j)) as [|pv pt IHv]; intros dq0; [apply IHp|].
    cbn [existsb]. destruct (String.eqb (s_name pv) (s_name (d_pos d))); cbn [negb andb orb]; [|apply IHv].
    destruct (s_req pv) as [a|]; [destruct (satisfies (s_dep (d_pos d)) a req); cbn [negb orb]; [apply IHv|]|];
      (rewrite IHv; destruct (existsb _ pt); [rewrite dq_add_idem|]; reflexivity).
Qed.

(* what the TRANSLATED constrain guarantees (the two facts every closure proof rests on): every provider
   that fails a versioned positive entry, and everything a conflict entry excludes, is in the returned set *)
Lemma code_constrain_covers R cs dq dq' : gen_constrain R cs dq = Ok dq' ->
  incl dq dq' /\
  (forall d providers req j, In d cs -> d_neg d = None -> (s_dep (d_pos d) =? dep_versionAny)%Z = false ->
     alookup (s_name (d_pos d)) (r_names R) = Some providers -> s_req (d_pos d) = Some req ->
     In j providers -> constrain_provider (d_pos d) req (getp R j) = true -> In j dq') /\
  (forall d c j, In d cs -> d_neg d = Some c -> entry_excludes R c j -> In j dq').
Proof.
  rewrite gen_constrain_eq. intros H. split; [eapply constrain_mono; exact H|]. split.
  - intros d providers req j. apply (constrain_covers R cs dq dq' H).
  - intros d c j. apply (constrain_excludes R cs dq dq' H).
Qed.
