(* C08 / C02: what the install_if loop of GetPackageWithDependencies guarantees
   since fix c03e0c0 (it walks the dependency list by index, the entries it
   appends included — Model/Resolver.v: iif_loop).

   iif_loop_complete: CHAIN COMPLETENESS.  When the loop ends, every install_if
   package of the universe ALL of whose install_if entries are, literally, names
   of entries of the resulting list has a package of its name in that list.
   In particular a package triggered by a package that the loop itself appended
   is appended too (a-x-y install_if a-x install_if a): this is the positive
   form of what finding C08-F3 refuted for the map-range loop, where it held
   only for the iteration orders that happened to reach the inserted key.

   The statement is about entries that are names of members.  Two quirks of the
   loop keep it from being stated for versioned entries: the key name=version
   is looked up only when NO package has an install_if entry that is the bare
   name, and an entry with another operator (name>version) is matched on the
   version text but never used as a key.  Both are in the model and in the
   harness corpora. *)
From Apko Require Import Base.Prelude Generated.VersionConsts Model.Version Model.Resolver Spec.ResolveSpec
  Proofs.ResolveProofs Proofs.ResolveProofs2.
Open Scope string_scope. Open Scope list_scope. Open Scope nat_scope.

(* ---- installIfMap lists every install_if package under each of its raw entries ------ *)
Lemma nm_add_has n i m : exists l, alookup n (nm_add n i m) = Some l /\ In i l.
Proof.
  induction m as [|[k l] m IH]; simpl.
  - rewrite String.eqb_refl. exists [i]. split; [reflexivity | left; reflexivity].
  - destruct (String.eqb k n) eqn:E; simpl; rewrite E.
    + exists (l ++ [i]). split; [reflexivity | apply in_or_app; right; left; reflexivity].
    + exact IH.
Qed.

Lemma nm_add_mono n i m k l x : alookup k m = Some l -> In x l ->
  exists l', alookup k (nm_add n i m) = Some l' /\ In x l'.
Proof.
  revert l. induction m as [|[k0 l0] m IH]; simpl; intros l H Hx; [discriminate|].
  destruct (String.eqb k0 n) eqn:E; simpl.
  - destruct (String.eqb k0 k) eqn:E2.
    + inversion H; subst. exists (l ++ [i]). split; [reflexivity | apply in_or_app; left; exact Hx].
    + exists l. split; [exact H | exact Hx].
  - destruct (String.eqb k0 k) eqn:E2.
    + exists l. split; [exact H | exact Hx].
    + eapply IH; eassumption.
Qed.

Definition lists_under (k : string) (x : pid) (m : name_map) : Prop := exists l, alookup k m = Some l /\ In x l.

Lemma fold_iifs_mono i ds : forall m k x, lists_under k x m ->
  lists_under k x (fold_left (fun m d => nm_add (s_raw d) i m) ds m).
Proof.
  induction ds as [|d ds IH]; intros m k x H; [exact H|]. simpl. apply IH.
  destruct H as [l [H1 H2]]. eapply nm_add_mono; eassumption.
Qed.

Lemma fold_iifs_has i ds e : In e ds -> forall m,
  lists_under (s_raw e) i (fold_left (fun m d => nm_add (s_raw d) i m) ds m).
Proof.
  induction ds as [|d ds IH]; intros H m; [contradiction|]. simpl. destruct H as [->|H].
  - apply fold_iifs_mono. apply nm_add_has.
  - apply IH. exact H.
Qed.

Lemma build_iif_complete ks q e : q < List.length ks -> In e (k_iifs (nth q ks dummy_cpkg)) ->
  lists_under (s_raw e) q (build_iif ks).
Proof.
  intros Hq He. unfold build_iif.
  assert (G : forall (l : list (nat * cpkg)) m,
            (lists_under (s_raw e) q m \/ In (q, nth q ks dummy_cpkg) l) ->
            lists_under (s_raw e) q
              (fold_left (fun m ik => fold_left (fun m d => nm_add (s_raw d) (fst ik) m) (k_iifs (snd ik)) m) l m)).
  { induction l as [|[i k] l IH]; intros m H.
    - destruct H as [H|[]]. exact H.
    - simpl. apply IH. destruct H as [H|[H|H]].
      + left. apply fold_iifs_mono. exact H.
      + inversion H; subst. left. apply fold_iifs_has. exact He.
      + right. exact H. }
  apply G. right.
  assert (N : forall (l : list cpkg) i0 j, j < List.length l -> In (i0 + j, nth j l dummy_cpkg) (number_from i0 l)).
  { induction l as [|x l IH]; intros i0 j Hj; [simpl in Hj; lia|]. destruct j as [|j]; simpl.
    - left. rewrite Nat.add_0_r. reflexivity.
    - right. replace (i0 + S j) with (S i0 + j) by lia. apply IH. simpl in Hj. lia. }
  exact (N ks 0 q Hq).
Qed.

(* ---- one visit ------------------------------------------------------------------------- *)
Lemma ahas_true_iff {A} k (m : list (string * A)) : ahas k m = true <-> In k (List.map fst m).
Proof.
  unfold ahas. induction m as [|[k' v] m IH]; simpl; [split; [discriminate | intros []]|].
  destruct (String.eqb k' k) eqn:E.
  - apply String.eqb_eq in E. subst. split; [intros _; left; reflexivity | reflexivity].
  - apply String.eqb_neq in E. rewrite IH. split; [intros H; right; exact H | intros [H|H]; [contradiction | exact H]].
Qed.

Definition iif_step (R : resolver) (st : list pid * list (string * pid)) (q : pid) : list pid * list (string * pid) :=
  let '(news, added) := st in
  let kq := getp R q in
  if forallb (iif_matches R added) (k_iifs kq) && negb (ahas (k_name kq) added)
  then (news ++ [q], added ++ [(k_name kq, q)]) else st.

Lemma iif_visit_unfold R j added :
  iif_visit R j added =
  match (match alookup (k_name (getp R j)) (r_iif R) with
         | Some l => Some l
         | None => alookup (k_name (getp R j) ++ "=" ++ k_version (getp R j)) (r_iif R)
         end) with
  | None => ([], added)
  | Some l => fold_left (iif_step R) l ([], added)
  end.
Proof. reflexivity. Qed.

Lemma iif_step_keys R st q n : In n (List.map fst (snd st)) -> In n (List.map fst (snd (iif_step R st q))).
Proof.
  destruct st as [news added]. unfold iif_step.
  destruct (forallb (iif_matches R added) (k_iifs (getp R q)) && negb (ahas (k_name (getp R q)) added)); simpl; intros H; [|exact H].
  rewrite map_app. apply in_or_app. left. exact H.
Qed.

Lemma iif_fold_keys R l : forall st n, In n (List.map fst (snd st)) -> In n (List.map fst (snd (fold_left (iif_step R) l st))).
Proof.
  induction l as [|q l IH]; intros st n H; [exact H|]. simpl. apply IH. apply iif_step_keys. exact H.
Qed.

(* a package of the visited list whose entries are all keys of `added` ends up with its name a key *)
Lemma iif_fold_adds R q l : In q l -> forall st,
  (forall e, In e (k_iifs (getp R q)) -> In (s_raw e) (List.map fst (snd st))) ->
  In (nm R q) (List.map fst (snd (fold_left (iif_step R) l st))).
Proof.
  induction l as [|x l IH]; intros Hq st He; [contradiction|]. simpl. destruct Hq as [->|Hq].
  - apply iif_fold_keys. destruct st as [news added]. unfold iif_step. cbn [snd] in He.
    assert (M : forallb (iif_matches R added) (k_iifs (getp R q)) = true).
    { apply forallb_forall. intros e Hin. unfold iif_matches. apply orb_true_iff. left. apply ahas_true_iff. apply He. exact Hin. }
    rewrite M. cbn [andb]. destruct (ahas (k_name (getp R q)) added) eqn:EA; cbn [negb snd].
    + apply ahas_true_iff. exact EA.
    + rewrite map_app. apply in_or_app. right. left. reflexivity.
  - apply IH; [exact Hq|]. intros e Hin. apply iif_step_keys. apply He. exact Hin.
Qed.

(* ---- the loop --------------------------------------------------------------------------- *)
Lemma In_firstn_In {A} (l : list A) : forall n x, In x (firstn n l) -> In x l.
Proof.
  induction l as [|a l IH]; intros n x H; [destruct n; exact H|].
  destruct n as [|n]; simpl in H; [contradiction|]. destruct H as [H|H]; [left; exact H | right; eapply IH; exact H].
Qed.

Lemma classic_all_earlier R q (early : list pid) (n : string) :
  (forall e, In e (k_iifs (getp R q)) -> In (s_raw e) (List.map (nm R) early ++ [n])) ->
  (forall e, In e (k_iifs (getp R q)) -> In (s_raw e) (List.map (nm R) early)) \/
  (exists e0, In e0 (k_iifs (getp R q)) /\ s_raw e0 = n).
Proof.
  generalize (k_iifs (getp R q)) as es. induction es as [|e es IH]; intros H; [left; intros e []|].
  assert (He : In (s_raw e) (List.map (nm R) early ++ [n])) by (apply H; left; reflexivity).
  apply in_app_or in He. destruct He as [He|[He|[]]].
  - destruct IH as [IH|[e0 [I0 E0]]]; [intros e' He'; apply H; right; exact He' | |].
    + left. intros e' [<-|He']; [exact He | apply IH; exact He'].
    + right. exists e0. split; [right; exact I0 | exact E0].
  - right. exists e. split; [left; reflexivity | symmetry; exact He].
Qed.

Definition complete_upto (R : resolver) (i : nat) (deps : list pid) (added : list (string * pid)) : Prop :=
  forall q, valid R q -> k_iifs (getp R q) <> [] ->
    (forall e, In e (k_iifs (getp R q)) -> In (s_raw e) (List.map (nm R) (firstn i deps))) ->
    In (nm R q) (List.map fst added).

Lemma firstn_snoc {A} (l : list A) i x : nth_error l i = Some x -> firstn (S i) l = firstn i l ++ [x].
Proof.
  revert i. induction l as [|a l IH]; intros i H; [destruct i; discriminate|].
  destruct i as [|i]; simpl in *; [inversion H; reflexivity|]. f_equal. apply IH. exact H.
Qed.

Lemma firstn_snoc_app {A} (l news : list A) i x : nth_error l i = Some x -> firstn (S i) (l ++ news) = firstn i l ++ [x].
Proof.
  revert i. induction l as [|a l IH]; intros i H; [destruct i; discriminate|].
  destruct i as [|i]; simpl in *; [inversion H; reflexivity|]. f_equal. apply IH. exact H.
Qed.

Lemma iif_loop_complete_gen U : let R := new_resolver U in
  forall fuel i deps added r, iif_state_ok R deps added -> complete_upto R i deps added ->
  iif_loop fuel R i deps added = Ok r ->
  forall q, valid R q -> k_iifs (getp R q) <> [] ->
    (forall e, In e (k_iifs (getp R q)) -> In (s_raw e) (List.map (nm R) r)) ->
    In (nm R q) (List.map (nm R) r).
Proof.
  intros R. induction fuel as [|f IH]; intros i deps added r HS HC E; cbn [iif_loop] in E.
  - destruct (nth_error deps i) eqn:EN; [discriminate|]. inversion E; subst r.
    intros q Vq Nq He. destruct HS as [HS1 _]. rewrite <- HS1. apply (HC q Vq Nq).
    apply nth_error_None in EN. rewrite firstn_all2 by exact EN. exact He.
  - destruct (nth_error deps i) as [j|] eqn:EN.
    2:{ inversion E; subst r. intros q Vq Nq He. destruct HS as [HS1 _]. rewrite <- HS1. apply (HC q Vq Nq).
        apply nth_error_None in EN. rewrite firstn_all2 by exact EN. exact He. }
    destruct (iif_visit R j added) as [news added'] eqn:EV.
    apply (IH (S i) (deps ++ news) added' r); [eapply iif_visit_state_ok; eassumption | | exact E].
    (* the invariant after the visit of j *)
    intros q Vq Nq He.
    assert (Hi : i < List.length deps) by (apply nth_error_Some; congruence).
    rewrite (firstn_snoc_app deps news i j EN), map_app in He. cbn [List.map] in He.
    (* keys only grow during the visit *)
    assert (Grow : forall n, In n (List.map fst added) -> In n (List.map fst added')).
    { intros n Hn. rewrite iif_visit_unfold in EV.
      destruct (match alookup (k_name (getp R j)) (r_iif R) with Some l => Some l | None => _ end) as [l|].
      - pose proof (iif_fold_keys R l ([], added) n Hn) as G. rewrite EV in G. exact G.
      - inversion EV; subst. exact Hn. }
    destruct (classic_all_earlier R q (firstn i deps) (nm R j) He) as [Early|[e0 [He0 Ee0]]].
    + apply Grow. apply (HC q Vq Nq). exact Early.
    + (* some entry of q is the name of j: q is in the list visited now *)
      assert (L : lists_under (nm R j) q (r_iif R)).
      { rewrite <- Ee0. unfold R, new_resolver; cbn [r_iif]. apply build_iif_complete.
        - unfold valid, R, new_resolver in Vq; cbn [r_pkgs] in Vq. exact Vq.
        - exact He0. }
      destruct L as [l [L1 L2]]. rewrite iif_visit_unfold in EV. unfold nm in L1. rewrite L1 in EV.
      pose proof (iif_fold_adds R q l L2 ([], added)) as G. rewrite EV in G. apply G.
      cbn [snd]. intros e Hin. destruct HS as [HS1 _]. rewrite HS1.
      specialize (He e Hin). apply in_app_or in He. destruct He as [He|[He|[]]].
      * apply in_map_iff in He. destruct He as [x [Ex Hx]]. apply in_map_iff. exists x. split; [exact Ex|].
        eapply In_firstn_In. exact Hx.
      * rewrite <- He. apply in_map. eapply nth_error_In. exact EN.
Qed.

Theorem iif_loop_complete U fuel l added r : let R := new_resolver U in
  iif_state_ok R l added -> iif_loop fuel R 0 l added = Ok r ->
  forall q, valid R q -> k_iifs (getp R q) <> [] ->
    (forall e, In e (k_iifs (getp R q)) -> In (s_raw e) (List.map (nm R) r)) ->
    In (nm R q) (List.map (nm R) r).
Proof.
  intros R HS E. apply (iif_loop_complete_gen U fuel 0 l added r HS); [|exact E].
  intros q _ Nq He. exfalso. revert Nq He. generalize (k_iifs (getp (new_resolver U) q)) as es. intros [|e es] Nq He; [apply Nq; reflexivity|].
  exact (He e (or_introl eq_refl)).
Qed.

(* the loop as GetPackageWithDependencies runs it: on the de-duplicated dependency list *)
Corollary get_pkg_iif_complete U w dq sel ex dq' sel' i deps : let R := new_resolver U in
  get_pkg R w dq sel ex = Ok (dq', sel', i, deps) ->
  forall q, valid R q -> k_iifs (getp R q) <> [] ->
    (forall e, In e (k_iifs (getp R q)) -> In (s_raw e) (List.map (nm R) deps)) ->
    In (nm R q) (List.map (nm R) deps).
Proof.
  intros R H. unfold get_pkg in H.
  destruct (get_pkg_core R w dq sel ex) as [[[[[dq1 sel1] i1] l] added]| | |] eqn:EC; cbn [rbind] in H; try discriminate.
  destruct (iif_loop (fuel_bound R) R 0 l added) as [deps0| | |] eqn:EI; cbn [rbind] in H; try discriminate.
  inversion H; subst. apply (iif_loop_complete U (fuel_bound R) l added deps); [|exact EI].
  unfold get_pkg_core in EC.
  destruct (resolve_package R dq w) as [i0| | |]; cbn [rbind] in EC; try discriminate.
  destruct (get_deps (fuel_bound R) R i0 (s_pin w) [] _) as [[st' ds]| | |]; cbn [rbind] in EC; try discriminate.
  destruct (dedup_by_name R ds) as [l0 added0] eqn:ED. inversion EC; subst. eapply dedup_state_ok. exact ED.
Qed.
