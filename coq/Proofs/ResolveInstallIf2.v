(* C08 (session 4): the install_if loop, continued.

   PART 1 - VERSIONED ENTRIES.  Proofs/ResolveInstallIf.v states chain completeness
   for install_if entries that are, literally, names of members of the dependency
   list.  Here an entry may also be met as `name=version`: a member j of the list
   has the entry's name and, as text, the entry's version.  The loop finds an
   install_if package only in the list it consults at a member: installIfMap[name],
   and installIfMap[name=version] ONLY WHEN NO PACKAGE OF THE UNIVERSE HAS THE BARE
   NAME AS AN ENTRY.  So the statement carries that side condition
   ([met_by], second disjunct); without it it is false
   (versioned_key_shadowed: b-v install_if b=2.0 is not installed next to b-2.0
   because some other package has the entry `b`).

   PART 2 - A WHOLE RESOLUTION.  GetPackagesWithDependencies runs the loop once per
   requested package, on THAT request's dependency list (the requested package
   itself is not in it).  [resolve_trace] returns the per-request lists;
   resolve_lists_installed: every member of every list is in the result; hence
   (request_complete) a package all of whose entries are met inside ONE
   request's list is installed.  Across requests it is not
   (cross_request_not_installed), nor when the trigger is the requested package
   itself (requested_itself_not_trigger).  Both quirks are the code's. *)
From Apko Require Import Base.Prelude Generated.VersionConsts Model.Version Model.Resolver Spec.ResolveSpec
  Proofs.ResolveProofs Proofs.ResolveProofs2 Proofs.ResolveInstallIf.
Open Scope string_scope. Open Scope list_scope. Open Scope nat_scope.

Definition ver (R : resolver) (j : pid) : string := k_version (getp R j).
Definition vkey (R : resolver) (j : pid) : string := (nm R j ++ "=" ++ ver R j)%string.

(* member j meets entry e: literally by name, or as name=version through the versioned key *)
Definition met_by (R : resolver) (j : pid) (e : cstr) : Prop :=
  s_raw e = nm R j \/
  (s_name e = nm R j /\ s_version e = ver R j /\ s_raw e = vkey R j /\ alookup (nm R j) (r_iif R) = None).
Definition met_in (R : resolver) (l : list pid) (e : cstr) : Prop := exists j, In j l /\ met_by R j e.

(* ---- `added` is exactly the list, keyed by name ------------------------------------- *)
Definition iif_exact (R : resolver) (deps : list pid) (added : list (string * pid)) : Prop :=
  added = List.map (fun j => (nm R j, j)) deps /\ NoDup (List.map (nm R) deps).

Lemma exact_fst R deps : List.map fst (List.map (fun j => (nm R j, j)) deps) = List.map (nm R) deps.
Proof. rewrite map_map. reflexivity. Qed.

Lemma exact_state_ok R deps added : iif_exact R deps added -> iif_state_ok R deps added.
Proof. intros [E N]. subst added. split; [apply exact_fst | rewrite exact_fst; exact N]. Qed.

Lemma exact_snoc R deps added q : iif_exact R deps added -> ahas (nm R q) added = false ->
  iif_exact R (deps ++ [q]) (added ++ [(nm R q, q)]).
Proof.
  intros [E N] H. split.
  - subst added. rewrite map_app. reflexivity.
  - rewrite map_app. simpl. apply NoDup_app_single0; [exact N|].
    apply ahas_false_notin in H. subst added. rewrite exact_fst in H. exact H.
Qed.

Lemma dedup_exact R ds l added : dedup_by_name R ds = (l, added) -> iif_exact R l added.
Proof.
  unfold dedup_by_name. intros E.
  assert (G : forall ds acc acc', iif_exact R (fst acc) (snd acc) ->
            fold_left (fun acc j => let '(l, added) := acc in let n := k_name (getp R j) in
                          if ahas n added then acc else (l ++ [j], added ++ [(n, j)])) ds acc = acc' ->
            iif_exact R (fst acc') (snd acc')).
  { clear. induction ds as [|d ds IH]; intros acc acc' H E; [subst; exact H|]. cbn [fold_left] in E. eapply IH; [|exact E].
    destruct acc as [l added]. destruct (ahas (k_name (getp R d)) added) eqn:EA; [exact H|].
    cbn [fst snd] in *. apply exact_snoc; assumption. }
  apply (G ds ([], []) (l, added)); [split; [reflexivity | constructor] | exact E].
Qed.

Lemma iif_step_exact R deps q : forall news added, iif_exact R (deps ++ news) added ->
  iif_exact R (deps ++ fst (iif_step R (news, added) q)) (snd (iif_step R (news, added) q)).
Proof.
  intros news added H. unfold iif_step.
  destruct (forallb (iif_matches R added) (k_iifs (getp R q)) && negb (ahas (k_name (getp R q)) added)) eqn:EB; cbn [fst snd]; [|exact H].
  apply andb_true_iff in EB. destruct EB as [_ EB]. apply negb_true_iff in EB.
  rewrite app_assoc. apply exact_snoc; assumption.
Qed.

Lemma iif_fold_exact R deps l : forall news added, iif_exact R (deps ++ news) added ->
  iif_exact R (deps ++ fst (fold_left (iif_step R) l (news, added))) (snd (fold_left (iif_step R) l (news, added))).
Proof.
  induction l as [|q l IH]; intros news added H; [exact H|]. cbn [fold_left].
  pose proof (iif_step_exact R deps q news added H) as H'.
  destruct (iif_step R (news, added) q) as [news' added']. apply IH. exact H'.
Qed.

Lemma iif_visit_exact R j deps added news added' : iif_exact R deps added ->
  iif_visit R j added = (news, added') -> iif_exact R (deps ++ news) added'.
Proof.
  intros H E. rewrite iif_visit_unfold in E.
  destruct (match alookup (k_name (getp R j)) (r_iif R) with Some l => Some l | None => _ end) as [l|].
  - pose proof (iif_fold_exact R deps l [] added) as G. rewrite app_nil_r in G. specialize (G H). rewrite E in G. exact G.
  - inversion E; subst. rewrite app_nil_r. exact H.
Qed.

(* looking a member up by its name finds that member *)
Lemma exact_lookup R deps : NoDup (List.map (nm R) deps) -> forall j, In j deps ->
  alookup (nm R j) (List.map (fun j => (nm R j, j)) deps) = Some j.
Proof.
  induction deps as [|d deps IH]; intros N j Hj; [contradiction|]. cbn [List.map alookup].
  inversion N as [|? ? N1 N2]; subst. destruct (String.eqb (nm R d) (nm R j)) eqn:E.
  - apply String.eqb_eq in E. destruct Hj as [->|Hj]; [reflexivity|].
    exfalso. apply N1. rewrite E. apply in_map. exact Hj.
  - destruct Hj as [->|Hj]; [rewrite String.eqb_refl in E; discriminate|]. apply IH; assumption.
Qed.

Lemma alookup_app_some {A} k (m m' : list (string * A)) v : alookup k m = Some v -> alookup k (m ++ m') = Some v.
Proof.
  induction m as [|[k' v'] m IH]; simpl; intros H; [discriminate|].
  destruct (String.eqb k' k); [exact H | apply IH; exact H].
Qed.

(* an entry met by a member of the list matches in `added` and in every extension of it *)
Lemma met_matches R deps added ext e : iif_exact R deps added -> met_in R deps e ->
  iif_matches R (added ++ ext) e = true.
Proof.
  intros [E N] [j [Hj M]]. unfold iif_matches. apply orb_true_iff. destruct M as [M|[M1 [M2 _]]].
  - left. apply ahas_true_iff. rewrite map_app. apply in_or_app. left. subst added. rewrite exact_fst, M. apply in_map. exact Hj.
  - right. rewrite M1. subst added. rewrite (alookup_app_some _ _ _ _ (exact_lookup R deps N j Hj)).
    unfold ver in M2. rewrite M2. apply String.eqb_refl.
Qed.

(* ---- one visit: a package in the consulted list all of whose entries are met by the
   list as it is when the visit starts ends up with its name a key ------------------------ *)
Lemma iif_step_extends R st q : exists ext, snd (iif_step R st q) = snd st ++ ext.
Proof.
  destruct st as [news added]. unfold iif_step.
  destruct (forallb (iif_matches R added) (k_iifs (getp R q)) && negb (ahas (k_name (getp R q)) added)); cbn [snd].
  - eexists. reflexivity.
  - exists []. rewrite app_nil_r. reflexivity.
Qed.

Lemma iif_fold_adds_met R deps added0 q l : iif_exact R deps added0 -> In q l ->
  (forall e, In e (k_iifs (getp R q)) -> met_in R deps e) ->
  forall st ext, snd st = added0 ++ ext ->
  In (nm R q) (List.map fst (snd (fold_left (iif_step R) l st))).
Proof.
  intros HX. induction l as [|x l IH]; intros Hq He st ext Hst; [contradiction|]. cbn [fold_left]. destruct Hq as [->|Hq].
  - apply iif_fold_keys. destruct st as [news added]. cbn [snd] in Hst. subst added. unfold iif_step.
    assert (M : forallb (iif_matches R (added0 ++ ext)) (k_iifs (getp R q)) = true).
    { apply forallb_forall. intros e Hin. eapply met_matches; [exact HX | apply He; exact Hin]. }
    rewrite M. cbn [andb]. destruct (ahas (k_name (getp R q)) (added0 ++ ext)) eqn:EA; cbn [negb snd].
    + apply ahas_true_iff. exact EA.
    + rewrite map_app. apply in_or_app. right. left. reflexivity.
  - destruct (iif_step_extends R st x) as [ext' Hx]. apply (IH Hq He _ (ext ++ ext')). rewrite Hx, Hst, app_assoc. reflexivity.
Qed.

(* ---- the loop ------------------------------------------------------------------------------ *)
Definition complete_upto_v (R : resolver) (i : nat) (deps : list pid) (added : list (string * pid)) : Prop :=
  forall q, valid R q -> k_iifs (getp R q) <> [] ->
    (forall e, In e (k_iifs (getp R q)) -> met_in R (firstn i deps) e) ->
    In (nm R q) (List.map fst added).

Lemma met_in_snoc R early j e : met_in R (early ++ [j]) e -> met_in R early e \/ met_by R j e.
Proof.
  intros [x [Hx M]]. apply in_app_or in Hx. destruct Hx as [Hx|[<-|[]]]; [left; exists x; split; assumption | right; exact M].
Qed.

Lemma all_earlier_or_now R (es : list cstr) early j :
  (forall e, In e es -> met_in R (early ++ [j]) e) ->
  (forall e, In e es -> met_in R early e) \/ (exists e0, In e0 es /\ met_by R j e0).
Proof.
  induction es as [|e es IH]; intros H; [left; intros e []|].
  destruct (met_in_snoc R early j e (H e (or_introl eq_refl))) as [He|He].
  - destruct IH as [IH|[e0 [I0 M0]]]; [intros e' He'; apply H; right; exact He' | |].
    + left. intros e' [<-|He']; [exact He | apply IH; exact He'].
    + right. exists e0. split; [right; exact I0 | exact M0].
  - right. exists e. split; [left; reflexivity | exact He].
Qed.

Lemma met_in_incl R l l' e : (forall x, In x l -> In x l') -> met_in R l e -> met_in R l' e.
Proof. intros H [j [Hj M]]. exists j. split; [apply H; exact Hj | exact M]. Qed.

Lemma iif_loop_complete_v_gen U : let R := new_resolver U in
  forall fuel i deps added r, iif_exact R deps added -> complete_upto_v R i deps added ->
  iif_loop fuel R i deps added = Ok r ->
  forall q, valid R q -> k_iifs (getp R q) <> [] ->
    (forall e, In e (k_iifs (getp R q)) -> met_in R r e) ->
    In (nm R q) (List.map (nm R) r).
Proof.
  intros R. induction fuel as [|f IH]; intros i deps added r HX HC E; cbn [iif_loop] in E.
  - destruct (nth_error deps i) eqn:EN; [discriminate|]. inversion E; subst r.
    intros q Vq Nq He. destruct (exact_state_ok R deps added HX) as [HS1 _]. rewrite <- HS1. apply (HC q Vq Nq).
    apply nth_error_None in EN. rewrite firstn_all2 by exact EN. exact He.
  - destruct (nth_error deps i) as [j|] eqn:EN.
    2:{ inversion E; subst r. intros q Vq Nq He. destruct (exact_state_ok R deps added HX) as [HS1 _]. rewrite <- HS1. apply (HC q Vq Nq).
        apply nth_error_None in EN. rewrite firstn_all2 by exact EN. exact He. }
    destruct (iif_visit R j added) as [news added'] eqn:EV.
    apply (IH (S i) (deps ++ news) added' r); [eapply iif_visit_exact; eassumption | | exact E].
    intros q Vq Nq He.
    rewrite (firstn_snoc_app deps news i j EN) in He.
    assert (Grow : forall n, In n (List.map fst added) -> In n (List.map fst added')).
    { intros n Hn. rewrite iif_visit_unfold in EV.
      destruct (match alookup (k_name (getp R j)) (r_iif R) with Some l => Some l | None => _ end) as [l|].
      - pose proof (iif_fold_keys R l ([], added) n Hn) as G. rewrite EV in G. exact G.
      - inversion EV; subst. exact Hn. }
    destruct (all_earlier_or_now R (k_iifs (getp R q)) (firstn i deps) j He) as [Early|[e0 [He0 M0]]].
    + apply Grow. apply (HC q Vq Nq). exact Early.
    + (* some entry of q is met by j: q is in the list consulted at j *)
      assert (L : forall k, lists_under k q (r_iif R) ->
                  (k = nm R j \/ (k = vkey R j /\ alookup (nm R j) (r_iif R) = None)) ->
                  exists l, (match alookup (k_name (getp R j)) (r_iif R) with
                             | Some l => Some l
                             | None => alookup (k_name (getp R j) ++ "=" ++ k_version (getp R j)) (r_iif R)
                             end) = Some l /\ In q l).
      { intros k [l [L1 L2]] [->|[-> HN]].
        - exists l. unfold nm in L1. rewrite L1. split; [reflexivity | exact L2].
        - exists l. unfold nm in HN. rewrite HN. split; [exact L1 | exact L2]. }
      assert (LU : lists_under (s_raw e0) q (r_iif R)).
      { unfold R, new_resolver; cbn [r_iif]. apply build_iif_complete.
        - unfold valid, R, new_resolver in Vq; cbn [r_pkgs] in Vq. exact Vq.
        - exact He0. }
      destruct (L (s_raw e0) LU) as [l [EL Hql]].
      { destruct M0 as [M0|[_ [_ [M3 M4]]]]; [left; exact M0 | right; split; assumption]. }
      rewrite iif_visit_unfold in EV. rewrite EL in EV.
      pose proof (iif_fold_adds_met R deps added q l HX Hql) as G.
      replace added' with (snd (fold_left (iif_step R) l ([], added))) by (rewrite EV; reflexivity).
      apply G with (ext := []); [|cbn [snd]; rewrite app_nil_r; reflexivity].
      intros e Hin. eapply met_in_incl; [|apply He; exact Hin].
      intros x Hx. apply in_app_or in Hx. destruct Hx as [Hx|[<-|[]]]; [eapply In_firstn_In; exact Hx | eapply nth_error_In; exact EN].
Qed.

Theorem iif_loop_complete_v U fuel l added r : let R := new_resolver U in
  iif_exact R l added -> iif_loop fuel R 0 l added = Ok r ->
  forall q, valid R q -> k_iifs (getp R q) <> [] ->
    (forall e, In e (k_iifs (getp R q)) -> met_in R r e) ->
    In (nm R q) (List.map (nm R) r).
Proof.
  intros R HX E. apply (iif_loop_complete_v_gen U fuel 0 l added r HX); [|exact E].
  intros q _ Nq He. exfalso. revert Nq He. generalize (k_iifs (getp (new_resolver U) q)) as es. intros [|e es] Nq He; [apply Nq; reflexivity|].
  destruct (He e (or_introl eq_refl)) as [j [[] _]].
Qed.

Corollary get_pkg_iif_complete_v U w dq sel ex dq' sel' i deps : let R := new_resolver U in
  get_pkg R w dq sel ex = Ok (dq', sel', i, deps) ->
  forall q, valid R q -> k_iifs (getp R q) <> [] ->
    (forall e, In e (k_iifs (getp R q)) -> met_in R deps e) ->
    In (nm R q) (List.map (nm R) deps).
Proof.
  intros R H. unfold get_pkg in H.
  destruct (get_pkg_core R w dq sel ex) as [[[[[dq1 sel1] i1] l] added]| | |] eqn:EC; cbn [rbind] in H; try discriminate.
  destruct (iif_loop (fuel_bound R) R 0 l added) as [deps0| | |] eqn:EI; cbn [rbind] in H; try discriminate.
  inversion H; subst. apply (iif_loop_complete_v U (fuel_bound R) l added deps); [|exact EI].
  unfold get_pkg_core in EC.
  destruct (resolve_package R dq w) as [i0| | |]; cbn [rbind] in EC; try discriminate.
  destruct (get_deps (fuel_bound R) R i0 (s_pin w) [] _) as [[st' ds]| | |]; cbn [rbind] in EC; try discriminate.
  destruct (dedup_by_name R ds) as [l0 added0] eqn:ED. inversion EC; subst. eapply dedup_exact. exact ED.
Qed.

(* ---- PART 2: a whole resolution ------------------------------------------------------------ *)
Fixpoint phase2_trace (R : resolver) (ws : list cstr) (dq : list pid)
    (sel : list (string * pid)) (acc : list pid * list string * list (string * pid)) : res (list (list pid)) :=
  match ws with
  | [] => Ok []
  | w :: ws' =>
      do r <- get_pkg R w dq sel (snd acc);
      let '(dq', sel', i, deps) := r in
      do t <- phase2_trace R ws' dq' sel' (track R i (fold_left (fun a j => track R j a) deps acc));
      Ok (deps :: t)
  end.

(* the per-request dependency lists (install_if additions included), in the order of the world *)
Definition resolve_trace (U : universe) (world : list string) (dq0 : list pid) : res (list (list pid)) :=
  let R := new_resolver U in
  let cw := List.map cook_dep world in
  let ws := List.map d_pos cw in
  do dq1 <- constrain R cw dq0;
  do r <- phase1 (List.length ws) R ws dq1 [];
  let '(dq2, depmap) := r in
  phase2_trace R ws dq2 [] ([], [], depmap).

(* [tracked] holds the names of [to_install] *)
Definition acc_ok (R : resolver) (acc : list pid * list string * list (string * pid)) : Prop :=
  forall n, In n (snd (fst acc)) -> In n (List.map (nm R) (fst (fst acc))).

Lemma mem_str_true_iff s l : mem_str s l = true <-> In s l.
Proof.
  unfold mem_str. rewrite existsb_exists. split.
  - intros [x [Hx E]]. apply String.eqb_eq in E. subst. exact Hx.
  - intros H. exists s. split; [exact H | apply String.eqb_refl].
Qed.

Lemma track_spec R j acc : acc_ok R acc ->
  acc_ok R (track R j acc) /\ In (nm R j) (List.map (nm R) (fst (fst (track R j acc)))) /\
  (forall n, In n (List.map (nm R) (fst (fst acc))) -> In n (List.map (nm R) (fst (fst (track R j acc))))).
Proof.
  destruct acc as [[ti tr] dm]. unfold acc_ok, track. cbn [fst snd]. intros H.
  destruct (mem_str (k_name (getp R j)) tr) eqn:E; cbn [fst snd].
  - split; [exact H|]. split; [apply H; apply mem_str_true_iff; exact E | intros n Hn; exact Hn].
  - split.
    + intros n [<-|Hn]; rewrite map_app; apply in_or_app; [right; left; reflexivity | left; apply H; exact Hn].
    + split; [rewrite map_app; apply in_or_app; right; left; reflexivity | intros n Hn; rewrite map_app; apply in_or_app; left; exact Hn].
Qed.

Lemma track_fold_spec R deps : forall acc, acc_ok R acc ->
  let acc' := fold_left (fun a j => track R j a) deps acc in
  acc_ok R acc' /\ (forall j, In j deps -> In (nm R j) (List.map (nm R) (fst (fst acc')))) /\
  (forall n, In n (List.map (nm R) (fst (fst acc))) -> In n (List.map (nm R) (fst (fst acc')))).
Proof.
  induction deps as [|d deps IH]; intros acc H; cbn zeta; cbn [fold_left].
  - split; [exact H|]. split; [intros j [] | intros n Hn; exact Hn].
  - destruct (track_spec R d acc H) as [H1 [H2 H3]]. destruct (IH (track R d acc) H1) as [I1 [I2 I3]]. cbn zeta in I1, I2, I3.
    split; [exact I1|]. split.
    + intros j [<-|Hj]; [apply I3; exact H2 | apply I2; exact Hj].
    + intros n Hn. apply I3, H3, Hn.
Qed.

Lemma phase2_trace_spec R : forall ws dq sel acc l, acc_ok R acc ->
  phase2 R ws dq sel acc = Ok l ->
  (forall n, In n (List.map (nm R) (fst (fst acc))) -> In n (List.map (nm R) l)) /\
  exists tr, phase2_trace R ws dq sel acc = Ok tr /\ List.length tr = List.length ws /\
    forall deps, In deps tr ->
      (exists w dq1 sel1 ex dq' sel' i, get_pkg R w dq1 sel1 ex = Ok (dq', sel', i, deps)) /\
      (forall j, In j deps -> In (nm R j) (List.map (nm R) l)).
Proof.
  induction ws as [|w ws IH]; intros dq sel acc l HA E; cbn [phase2 phase2_trace] in *.
  - inversion E; subst. split; [intros n Hn; exact Hn|]. exists []. split; [reflexivity|]. split; [reflexivity | intros deps []].
  - destruct (get_pkg R w dq sel (snd acc)) as [[[[dq' sel'] i] deps]| | |] eqn:EG; cbn [rbind] in *; try discriminate.
    destruct (track_fold_spec R deps acc HA) as [F1 [F2 F3]]. cbn zeta in F1, F2, F3.
    destruct (track_spec R i _ F1) as [T1 [_ T3]].
    destruct (IH dq' sel' _ l T1 E) as [K1 [tr [K2 [K3 K4]]]].
    split; [intros n Hn; apply K1, T3, F3, Hn|].
    rewrite K2. cbn [rbind]. exists (deps :: tr). split; [reflexivity|]. split; [cbn [List.length]; rewrite K3; reflexivity|].
    intros d [<-|Hd]; [|apply K4; exact Hd]. split.
    + exists w, dq, sel, (snd acc), dq', sel', i. exact EG.
    + intros j Hj. apply K1, T3, F2, Hj.
Qed.

Theorem resolve_lists_installed U world dq0 l : let R := new_resolver U in
  resolve U world dq0 = Ok l ->
  exists tr, resolve_trace U world dq0 = Ok tr /\ List.length tr = List.length world /\
    forall deps, In deps tr ->
      (exists w dq1 sel1 ex dq' sel' i, get_pkg R w dq1 sel1 ex = Ok (dq', sel', i, deps)) /\
      (forall j, In j deps -> In (nm R j) (List.map (nm R) l)).
Proof.
  intros R E. subst R. unfold resolve, resolve_with in E. unfold resolve_trace.
  destruct (constrain (new_resolver U) (List.map cook_dep world) dq0) as [dq1| | |]; cbn [rbind] in *; try discriminate.
  destruct (phase1 _ (new_resolver U) _ dq1 []) as [[dq2 depmap]| | |]; cbn [rbind] in *; try discriminate.
  destruct (phase2_trace_spec (new_resolver U) _ dq2 [] ([], [], depmap) l (fun n (H : In n []) => match H with end) E) as [_ [tr [K2 [K3 K4]]]].
  exists tr. split; [exact K2|]. split; [rewrite K3, !map_length; reflexivity | exact K4].
Qed.

(* a package all of whose install_if entries are met inside ONE request's list is installed *)
Theorem request_complete U world dq0 l : let R := new_resolver U in
  resolve U world dq0 = Ok l ->
  exists tr, resolve_trace U world dq0 = Ok tr /\ List.length tr = List.length world /\
    forall deps, In deps tr ->
      (forall j, In j deps -> In (nm R j) (List.map (nm R) l)) /\
      forall q, valid R q -> k_iifs (getp R q) <> [] ->
        (forall e, In e (k_iifs (getp R q)) -> met_in R deps e) ->
        In (nm R q) (List.map (nm R) l).
Proof.
  intros R E. destruct (resolve_lists_installed U world dq0 l E) as [tr [T1 [T2 T3]]].
  exists tr. split; [exact T1|]. split; [exact T2|]. intros deps Hd.
  destruct (T3 deps Hd) as [[w [dq1 [sel1 [ex [dq' [sel' [i G]]]]]]] Hin]. split; [exact Hin|].
  intros q Vq Nq He.
  pose proof (get_pkg_iif_complete_v U w dq1 sel1 ex dq' sel' i deps G q Vq Nq He) as Hq.
  apply in_map_iff in Hq. destruct Hq as [j [Ej Hj]]. fold R in Ej. rewrite <- Ej. apply Hin. exact Hj.
Qed.

(* ---- witnesses ------------------------------------------------------------------------------- *)
Definition PK (n v : string) (deps iif : list string) : pkg :=
  {| p_name := n; p_version := v; p_origin := ""; p_deps := deps;
     p_provides := []; p_install_if := iif; p_prio := 0; p_pin := ""; p_repo := "r" |}.

(* w1 -> a, w2 -> b, j install_if a b.  World [w1; w2]: a and b are installed, j is not (each
   request's list holds one of the two triggers); world [w] with w -> a, b: j is installed *)
Definition cross_universe : universe :=
  [PK "w1" "1" ["a"] []; PK "w2" "1" ["b"] []; PK "a" "1" [] []; PK "b" "1" [] []; PK "j" "1" [] ["a"; "b"]; PK "w" "1" ["a"; "b"] []].

Lemma cross_request_not_installed :
  resolve cross_universe ["w1"; "w2"] [] = Ok [2; 0; 3; 1] /\
  resolve_trace cross_universe ["w1"; "w2"] [] = Ok [[2]; [3]] /\
  List.map s_raw (k_iifs (getp (new_resolver cross_universe) 4)) = ["a"; "b"] /\
  List.map (nm (new_resolver cross_universe)) [2; 0; 3; 1] = ["a"; "w1"; "b"; "w2"] /\
  resolve cross_universe ["w"] [] = Ok [2; 3; 4; 5] /\
  resolve_trace cross_universe ["w"] [] = Ok [[2; 3; 4]].
Proof. vm_compute. repeat split; reflexivity. Qed.

(* a-x install_if a.  World [a]: a-x is NOT installed (the requested package is not a member of its own
   dependency list); world [w] with w -> a: it is *)
Definition itself_universe : universe := [PK "a" "1" [] []; PK "a-x" "1" [] ["a"]; PK "w" "1" ["a"] []].

Lemma requested_itself_not_trigger :
  resolve itself_universe ["a"] [] = Ok [0] /\ resolve_trace itself_universe ["a"] [] = Ok [[]] /\
  resolve itself_universe ["w"] [] = Ok [0; 1; 2] /\ resolve_trace itself_universe ["w"] [] = Ok [[0; 1]].
Proof. vm_compute. repeat split; reflexivity. Qed.

(* b-v install_if b=2.0, b-any install_if b nosuch: the key "b" exists, so "b=2.0" is never consulted:
   b-v is not installed next to b-2.0; without b-any it is *)
Definition shadow_universe : universe :=
  [PK "w" "1" ["b"] []; PK "b" "2.0" [] []; PK "b-v" "1" [] ["b=2.0"]; PK "b-any" "1" [] ["b"; "nosuch"]].
Definition noshadow_universe : universe :=
  [PK "w" "1" ["b"] []; PK "b" "2.0" [] []; PK "b-v" "1" [] ["b=2.0"]].

Lemma versioned_key_shadowed :
  resolve shadow_universe ["w"] [] = Ok [1; 0] /\
  resolve noshadow_universe ["w"] [] = Ok [1; 2; 0] /\
  (let R := new_resolver noshadow_universe in
   forall e, In e (k_iifs (getp R 2)) -> met_in R [1; 2] e) /\
  (let R := new_resolver shadow_universe in
   forall e, In e (k_iifs (getp R 2)) ->
     s_name e = nm R 1 /\ s_version e = ver R 1 /\ s_raw e = vkey R 1 /\ alookup (nm R 1) (r_iif R) <> None).
Proof.
  split; [vm_compute; reflexivity|]. split; [vm_compute; reflexivity|]. split.
  - cbn zeta. intros e He. vm_compute in He. destruct He as [<-|[]]. exists 1. split; [left; reflexivity|].
    right. vm_compute. repeat split; reflexivity.
  - cbn zeta. intros e He. vm_compute in He. destruct He as [<-|[]]. vm_compute. repeat split; try reflexivity. discriminate.
Qed.
