(* C02: the wider envelope (Spec.ResolveMultiSpec.menvelope_b) — several versions
   per name.  Part A (this file): facts of the envelope, "every choice is the
   winner of its name" ([choose_winner], [filter_has_winner]) and "a
   disqualified winner takes every package of its name with it" ([dq_ok] and its
   preservation by constrain / disqualifyConflicts / disqualifyProviders).
   Parts B-D (one dependency, the walk, the top level) are in ResolveMulti2.v. *)
From Apko Require Import Base.Prelude Base.Regex Generated.Regexes Generated.VersionConsts Generated.C03Version
  Model.Version Model.Resolver Spec.ResolveSpec Spec.ResolveMultiSpec
  Proofs.ResolveProofs Proofs.ResolveProofs2 Proofs.C14Proofs Proofs.ResolveTheorems Proofs.ResolveEnvelope
  Proofs.ResolveClosure Proofs.ResolveNoPanic.
Open Scope string_scope. Open Scope list_scope. Open Scope nat_scope.

(* ================= generic ================================================= *)
Lemma fold_res_inv {A B} (P : A -> Prop) (f : A -> B -> res A) (l : list B) :
  (forall a b a', In b l -> P a -> f a b = Ok a' -> P a') ->
  forall acc a', fold_left (fun acc b => do a <- acc; f a b) l acc = Ok a' ->
  (forall a, acc = Ok a -> P a) -> P a'.
Proof.
  induction l as [|b l IH]; simpl; intros Hf acc a' H Hacc; [apply Hacc; exact H|].
  apply (IH (fun a b0 a0 Hb => Hf a b0 a0 (or_intror Hb)) _ _ H).
  intros a1 E. destruct acc as [a| | |]; simpl in E; try discriminate.
  eapply Hf; [left; reflexivity | apply Hacc; reflexivity | exact E].
Qed.

Lemma all_pids_In R i : In i (all_pids R) <-> valid R i.
Proof. unfold all_pids, valid. rewrite in_seq. lia. Qed.

Lemma fold_dq_add_char (f : pid -> bool) l : forall dq z,
  In z (fold_left (fun dq j => if f j then dq_add j dq else dq) l dq) <-> In z dq \/ (In z l /\ f z = true).
Proof.
  induction l as [|a l IH]; intros dq z; simpl; [tauto|]. rewrite IH. destruct (f a) eqn:E.
  - unfold dq_add. destruct (mem_pid a dq) eqn:M.
    + apply mem_pid_In in M. split; [tauto|]. intros [H|[[<-|H] H2]]; tauto.
    + simpl. split; [intros [[<-|H]|H]; tauto|]. intros [H|[[<-|H] H2]]; tauto.
  - split; [tauto|]. intros [H|[[<-|H] H2]]; [tauto | congruence | tauto].
Qed.

Lemma fold_dq_add_all l : forall dq z, In z (fold_left (fun dq j => dq_add j dq) l dq) <-> In z dq \/ In z l.
Proof.
  intros dq z. pose proof (fold_dq_add_char (fun _ => true) l dq z) as H. simpl in H. rewrite H. tauto.
Qed.

(* ================= Part A: facts of the envelope ============================ *)
Record mfacts (R : resolver) : Prop := {
  mf_no_iif : forall k, In k (r_pkgs R) -> k_iifs k = [];
  mf_no_self_dep : forall k d, In k (r_pkgs R) -> In d (k_deps k) -> d_neg d = None ->
     my_provides k (s_name (d_pos d)) || my_provides k (s_raw (d_pos d)) = false;
  mf_virtual : forall k pv k', In k (r_pkgs R) -> In pv (k_provs k) -> In k' (r_pkgs R) -> k_name k' <> s_name pv;
  mf_entry : forall n l y, alookup n (r_names R) = Some l -> In y l ->
     (exists w, winner_of R (nm R y) = Some w /\ In w l /\ (forall z, In z l -> nm R z = nm R y) /\
                forall z, In z l -> z = w \/ beats R n w z = true) \/
     ((forall z, In z l -> is_winner R z = true) /\
      forall z pv, In z l -> In pv (k_provs (getp R z)) -> s_name pv = n -> s_version pv = "");
  mf_sib : forall i j, valid R i -> valid R j -> i <> j -> nm R i = nm R j ->
     p_origin (k_pkg (getp R i)) = p_origin (k_pkg (getp R j)) /\ p_pin (k_pkg (getp R i)) = "";
  mf_dep : forall k d, In k (r_pkgs R) -> In d (k_deps k) -> dep_ok_b R d = true
}.
Definition world_ok (R : resolver) (W : list cdep) : Prop :=
  forall d, In d W -> d_neg d = None /\ positive_ok_b R (d_pos d) = true.

Lemma menvelope_facts R W : menvelope_c R W = true -> mfacts R /\ world_ok R W.
Proof.
  unfold menvelope_c, m_clauses. cbn [forallb snd]. intros H.
  apply andb_true_iff in H. destruct H as [A1 H]. apply andb_true_iff in H. destruct H as [A1' H].
  apply andb_true_iff in H. destruct H as [A2 H]. apply andb_true_iff in H. destruct H as [A3 H].
  apply andb_true_iff in H. destruct H as [A4 H]. apply andb_true_iff in H. destruct H as [A5 H].
  apply andb_true_iff in H. destruct H as [A6 H]. apply andb_true_iff in H. destruct H as [A7 H].
  apply andb_true_iff in H. destruct H as [A8 _].
  unfold m_iif_b, m_selfdep_b, m_virtual_b, m_entries_b, m_siblings_b, all_deps in *.
  rewrite forallb_forall in A1, A1', A2, A3, A4, A5, A6, A7, A8.
  assert (InDeps : forall k d, In k (r_pkgs R) -> In d (k_deps k) -> In d (flat_map k_deps (r_pkgs R))).
  { intros k d Hk Hd. apply in_flat_map. exists k. split; assumption. }
  split; [constructor|].
  - intros k Hk. specialize (A1 k Hk). destruct (k_iifs k); [reflexivity | discriminate].
  - intros k d Hk Hd Hn. specialize (A1' k Hk). rewrite forallb_forall in A1'. specialize (A1' d Hd).
    unfold on_positive in A1'. rewrite Hn in A1'. apply negb_true_iff in A1'. exact A1'.
  - intros k pv k' Hk Hpv Hk' E. specialize (A2 k Hk). rewrite forallb_forall in A2. specialize (A2 pv Hpv).
    apply negb_true_iff in A2. assert (X : existsb (fun k'0 => String.eqb (k_name k'0) (s_name pv)) (r_pkgs R) = true).
    { apply existsb_exists. exists k'. split; [exact Hk' | apply String.eqb_eq; exact E]. }
    congruence.
  - intros n l y E Hy. apply alookup_In in E. specialize (A3 _ E). unfold m_entry_b in A3. apply orb_true_iff in A3.
    destruct A3 as [A3|A3]; [left | right].
    + unfold m_entry_one_name_b in A3. cbn [fst snd] in A3.
      destruct l as [|x t] eqn:El; [contradiction|]. rewrite <- El in *.
      apply andb_true_iff in A3. destruct A3 as [B1 B2]. rewrite forallb_forall in B1.
      assert (N : forall z, In z l -> nm R z = nm R x).
      { intros z Hz. specialize (B1 z Hz). unfold same_name in B1. apply String.eqb_eq in B1. exact B1. }
      fold (nm R x) in B2. destruct (winner_of R (nm R x)) as [w|] eqn:EW; [|discriminate].
      apply andb_true_iff in B2. destruct B2 as [B2 B3]. rewrite forallb_forall in B3.
      exists w. rewrite (N y Hy). split; [exact EW|]. split; [apply mem_pid_In; exact B2|].
      split; [intros z Hz; rewrite (N z Hz); reflexivity|].
      intros z Hz. specialize (B3 z Hz). apply orb_true_iff in B3. destruct B3 as [B3|B3]; [left; apply Nat.eqb_eq; exact B3 | right; exact B3].
    + unfold m_entry_pure_virtual_b in A3. cbn [fst snd] in A3. apply andb_true_iff in A3. destruct A3 as [B1 B2].
      rewrite forallb_forall in B1, B2. split; [exact B1|]. intros z pv Hz Hpv Hn. specialize (B2 z Hz). rewrite forallb_forall in B2.
      specialize (B2 pv Hpv). rewrite Hn, String.eqb_refl in B2. cbn [negb orb] in B2. apply String.eqb_eq. exact B2.
  - intros i j Vi Vj Hij E. specialize (A4 i (proj2 (all_pids_In R i) Vi)). rewrite forallb_forall in A4.
    specialize (A4 j (proj2 (all_pids_In R j) Vj)).
    apply orb_true_iff in A4. destruct A4 as [A4|A4].
    + apply orb_true_iff in A4. destruct A4 as [A4|A4]; [apply Nat.eqb_eq in A4; contradiction|].
      unfold same_name in A4. apply negb_true_iff in A4. apply String.eqb_neq in A4. contradiction.
    + apply andb_true_iff in A4. destruct A4 as [C1 C2]. split; apply String.eqb_eq; assumption.
  - intros k d Hk Hd. pose proof (InDeps k d Hk Hd) as Hin. unfold dep_ok_b, positive_ok_b.
    specialize (A5 d (in_or_app _ _ _ (or_introl Hin))). specialize (A6 d (in_or_app _ _ _ (or_introl Hin))). specialize (A7 d Hin).
    unfold on_positive in A5, A6. destruct (d_neg d); [exact A7 | rewrite A5, A6; reflexivity].
  - intros d Hd. specialize (A5 d (in_or_app _ _ _ (or_intror Hd))). specialize (A6 d (in_or_app _ _ _ (or_intror Hd))). specialize (A8 d Hd).
    unfold on_positive in A5, A6. destruct (d_neg d); [discriminate|]. split; [reflexivity|]. unfold positive_ok_b. rewrite A5, A6. reflexivity.
Qed.

(* ---- winners --------------------------------------------------------------------------- *)
Lemma winner_uniq R i j : is_winner R i = true -> is_winner R j = true -> nm R i = nm R j -> i = j.
Proof.
  unfold is_winner, nm. intros Hi Hj E. rewrite <- E in Hj. destruct (winner_of R (k_name (getp R i))); [|discriminate].
  apply Nat.eqb_eq in Hi. apply Nat.eqb_eq in Hj. congruence.
Qed.

Lemma winner_is R y w : winner_of R (nm R y) = Some w -> nm R w = nm R y -> is_winner R w = true.
Proof. unfold is_winner, nm. intros H E. rewrite E, H. apply Nat.eqb_refl. Qed.

Lemma is_winner_of R j : is_winner R j = true -> winner_of R (nm R j) = Some j.
Proof.
  unfold is_winner, nm. destruct (winner_of R (k_name (getp R j))) as [w|]; [|discriminate].
  intros H. apply Nat.eqb_eq in H. subst. reflexivity.
Qed.

(* the state of `existing`: every entry is the winner of its key *)
Definition ex_ok (R : resolver) (ex : list (string * pid)) : Prop :=
  forall x j, alookup x ex = Some j -> valid R j /\ is_winner R j = true /\ nm R j = x.

Lemma ex_ok_aset R ex j : ex_ok R ex -> valid R j -> is_winner R j = true -> ex_ok R (aset (nm R j) j ex).
Proof.
  intros H V Wj x j' E. rewrite aset_keeps_lookup in E. destruct (String.eqb (nm R j) x) eqn:En.
  - inversion E; subst j'. split; [exact V|]. split; [exact Wj | apply String.eqb_eq; exact En].
  - apply H. exact E.
Qed.

Lemma note_existing_ex R sub : forall st, Forall (valid R) sub -> Forall (fun j => is_winner R j = true) sub ->
  ex_ok R (st_existing st) -> ex_ok R (st_existing (note_existing R sub st)).
Proof.
  unfold note_existing. induction sub as [|j t IH]; intros st V Wn H; [exact H|]. simpl.
  inversion V; subst. inversion Wn; subst. apply IH; [assumption | assumption|]. cbn [st_existing].
  apply (ex_ok_aset R _ j H); assumption.
Qed.

(* ---- comparePackages between two packages of one name ------------------------------------- *)
Definition matched (R : resolver) (ex : list (string * pid)) (a : pid) : bool :=
  match alookup (k_name (getp R a)) ex with
  | Some j => String.eqb (k_version (getp R j)) (k_version (getp R a))
  | None => false
  end.

Lemma compare_sib R n ex os pin a b :
  p_origin (k_pkg (getp R a)) = p_origin (k_pkg (getp R b)) ->
  p_pin (k_pkg (getp R a)) = "" -> p_pin (k_pkg (getp R b)) = "" ->
  compare_packages R n ex os pin a b =
    if matched R ex a && negb (matched R ex b) then (-1)%Z
    else if matched R ex b && negb (matched R ex a) then 1%Z
    else compare_packages R n [] [] "" a b.
Proof.
  intros Ho Ha Hb. unfold compare_packages, matched. cbn [alookup mem_str existsb]. rewrite Ho, Ha, Hb.
  destruct (match alookup (k_name (getp R a)) ex with Some j => _ | None => false end);
  destruct (match alookup (k_name (getp R b)) ex with Some j => _ | None => false end); cbn [andb negb]; try reflexivity;
  destruct (mem_str (p_origin (k_pkg (getp R b))) os); cbn [andb negb];
  destruct (String.eqb "" pin); cbn [andb negb]; reflexivity.
Qed.

(* bestPackage returns an element that beats every other element both ways round *)
Lemma best_dominant R n ex os pin w : forall l,
  In w l ->
  (forall y, In y l -> y = w \/ ((compare_packages R n ex os pin w y <? 0)%Z = true /\
                                  (compare_packages R n ex os pin y w <? 0)%Z = false)) ->
  best_package R n ex os pin l = Some w.
Proof.
  intros l Hw Hd. destruct l as [|x t]; [contradiction|]. unfold best_package. f_equal.
  revert x Hw Hd. induction t as [|y t IH]; intros x Hw Hd.
  - destruct Hw as [->|[]]. reflexivity.
  - simpl. apply IH.
    + destruct Hw as [->|[->|Hw]].
      * destruct (Hd y (or_intror (or_introl eq_refl))) as [->|[_ B]]; [destruct (_ <? _)%Z; left; reflexivity|].
        rewrite B. left. reflexivity.
      * destruct (Hd x (or_introl eq_refl)) as [->|[A _]]; [destruct (_ <? _)%Z; left; reflexivity|].
        rewrite A. left. reflexivity.
      * right. exact Hw.
    + intros z [<-|Hz].
      * destruct (compare_packages R n ex os pin y x <? 0)%Z; apply Hd; [right; left | left]; reflexivity.
      * apply Hd. right. right. exact Hz.
Qed.

Section Choice.
  Variable R : resolver.
  Hypothesis Hwf : wf R.
  Hypothesis MF : mfacts R.

  Lemma entry_valid n l y : alookup n (r_names R) = Some l -> In y l -> valid R y.
  Proof. intros E Hy. eapply nm_lookup_valid; [apply (proj1 Hwf) | exact E | exact Hy]. Qed.

  (* every choice is the winner of its name: candidates drawn from one key of the name map
     that hold the winner whenever they hold a sibling *)
  Lemma choose_winner n l ex os pin cands b :
    alookup n (r_names R) = Some l -> (forall y, In y cands -> In y l) -> ex_ok R ex ->
    (forall y w, In y cands -> winner_of R (nm R y) = Some w -> y <> w -> In w cands) ->
    best_package R n ex os pin cands = Some b -> is_winner R b = true /\ In b cands.
  Proof.
    intros E Hsub Hex Hhas HB. pose proof (best_package_In _ _ _ _ _ _ _ HB) as Hb. split; [|exact Hb].
    destruct (mf_entry R MF n l b E (Hsub b Hb)) as [[w [EW [Hwl [Hn Hdom]]]]|[Hall _]]; [|apply Hall; apply Hsub; exact Hb].
    destruct (Nat.eq_dec b w) as [->|Hne]; [eapply winner_is; [exact EW | reflexivity]|].
    exfalso. apply Hne. pose proof (Hhas b w Hb EW Hne) as Hwc.
    assert (G : best_package R n ex os pin cands = Some w).
    { apply best_dominant; [exact Hwc|]. intros y Hy. destruct (Nat.eq_dec y w) as [->|Hyw]; [left; reflexivity|]. right.
      destruct (Hdom y (Hsub y Hy)) as [->|Bt]; [contradiction|].
      pose proof (entry_valid n l y E (Hsub y Hy)) as Vy. pose proof (entry_valid n l w E Hwl) as Vw.
      assert (Nyw : nm R y = nm R w) by (rewrite (Hn y (Hsub y Hy)), (Hn w Hwl); reflexivity).
      destruct (mf_sib R MF y w Vy Vw Hyw Nyw) as [O1 P1].
      destruct (mf_sib R MF w y Vw Vy (fun e => Hyw (eq_sym e)) (eq_sym Nyw)) as [O2 P2].
      unfold beats in Bt. apply andb_true_iff in Bt. destruct Bt as [Bt1 Bt2]. apply negb_true_iff in Bt2.
      rewrite (compare_sib R n ex os pin w y O2 P2 P1), (compare_sib R n ex os pin y w O1 P1 P2).
      assert (Ww : is_winner R w = true) by (eapply winner_is; [exact EW | rewrite (Hn w Hwl); reflexivity]).
      (* what `existing` holds under the name *)
      unfold matched. fold (nm R w). fold (nm R y). rewrite Nyw.
      destruct (alookup (nm R w) ex) as [j|] eqn:EX.
      - destruct (Hex _ _ EX) as [Vj [Wj Nj]]. rewrite (winner_uniq R j w Wj Ww Nj). rewrite String.eqb_refl.
        destruct (String.eqb (k_version (getp R w)) (k_version (getp R y))); cbn [andb negb]; [split; assumption | split; reflexivity].
      - cbn [andb negb]. split; assumption. }
    rewrite G in HB. inversion HB. reflexivity.
  Qed.
End Choice.

(* ================= the disqualification set ================================== *)
(* a disqualified winner takes every package of its name with it *)
Definition dq_ok (R : resolver) (dq : list pid) : Prop :=
  forall j y, In j dq -> is_winner R j = true -> valid R y -> nm R y = nm R j -> In y dq.

Lemma dq_ok_b_spec R dq : dq_ok_b R dq = true -> dq_ok R dq.
Proof.
  unfold dq_ok_b. rewrite forallb_forall. intros H j y Hj Wj Vy E. specialize (H j Hj). rewrite Wj in H. cbn [negb orb] in H.
  rewrite forallb_forall in H. specialize (H y (proj2 (all_pids_In R y) Vy)).
  unfold same_name in H. fold (nm R y) in H. fold (nm R j) in H. rewrite E, String.eqb_refl in H. cbn [negb orb] in H.
  apply mem_pid_In. exact H.
Qed.

Lemma dq_ok_nil R : dq_ok R [].
Proof. intros j y []. Qed.

(* growing by non-winners only *)
Lemma dq_ok_grow R dq dq' : dq_ok R dq -> incl dq dq' -> (forall z, In z dq' -> In z dq \/ is_winner R z = false) -> dq_ok R dq'.
Proof.
  intros H I G j y Hj Wj Vy E. destruct (G j Hj) as [A|A]; [|congruence]. apply I. eapply H; eassumption.
Qed.

(* the constraint [c] has been through `constrain`: every provider failing it is in dq *)
Definition covered (R : resolver) (c : cstr) (dq : list pid) : Prop :=
  forall providers req j, (s_dep c =? dep_versionAny)%Z = false ->
    alookup (s_name c) (r_names R) = Some providers -> s_req c = Some req ->
    In j providers -> constrain_provider c req (getp R j) = true -> In j dq.

Lemma covered_mono R c dq dq' : covered R c dq -> incl dq dq' -> covered R c dq'.
Proof. intros H I providers req j A B C D E. apply I. eapply H; eassumption. Qed.

Section Filter.
  Variable R : resolver.
  Hypothesis Hwf : wf R.
  Hypothesis MF : mfacts R.

  Lemma versioned_names c l j : versioned_on_names_b R c = true -> (s_dep c =? dep_versionAny)%Z = false ->
    alookup (s_name c) (r_names R) = Some l -> In j l -> nm R j = s_name c.
  Proof.
    unfold versioned_on_names_b. intros H Hd E Hj. rewrite Hd, E in H. cbn [orb] in H. rewrite forallb_forall in H.
    apply String.eqb_eq. apply H. exact Hj.
  Qed.

  (* candidates that hold a package hold the winner of its name *)
  Lemma filter_has_winner dq o n l c y w :
    alookup n (r_names R) = Some l -> dq_ok R dq ->
    fo_dep o = s_dep c -> fo_req o = s_req c -> s_name c = n -> positive_ok_b R c = true -> covered R c dq ->
    In y (filter_packages R dq o l) -> winner_of R (nm R y) = Some w -> y <> w ->
    In w (filter_packages R dq o l).
  Proof.
    intros E Hdq Hfd Hfr Hcn Hpos Hcov Hy EW Hne.
    pose proof (filter_packages_sub _ _ _ _ _ Hy) as [Hyl Hyndq].
    destruct (mf_entry R MF n l y E Hyl) as [[w' [EW' [Hwl [Hn _]]]]|[Hall _]].
    2:{ exfalso. apply Hne. pose proof (is_winner_of R y (Hall y Hyl)) as Ey. rewrite EW in Ey. inversion Ey. reflexivity. }
    rewrite EW in EW'. inversion EW'; subst w'. clear EW'.
    pose proof (entry_valid R Hwf n l y E Hyl) as Vy. pose proof (entry_valid R Hwf n l w E Hwl) as Vw.
    assert (Nwy : nm R w = nm R y) by (apply Hn; exact Hwl).
    assert (Ww : is_winner R w = true) by (eapply winner_is; eassumption).
    destruct (mf_sib R MF w y Vw Vy (fun e => Hne (eq_sym e)) Nwy) as [_ Pw].
    assert (Hwndq : ~ In w dq) by (intro Hc; apply Hyndq; apply (Hdq w y Hc Ww Vy); symmetry; exact Nwy).
    assert (Base : In w (List.filter (fun i => negb (mem_pid i dq) && pin_allowed R o (getp R i)) l)).
    { apply filter_In. split; [exact Hwl|]. apply andb_true_iff. split.
      - apply negb_true_iff. apply mem_pid_false. exact Hwndq.
      - unfold pin_allowed. rewrite Pw. reflexivity. }
    unfold filter_packages in *. rewrite Hfd, Hfr in *.
    destruct (s_dep c =? dep_versionAny)%Z eqn:Hd; [exact Base|].
    destruct (s_req c) as [req|] eqn:EQ; [|contradiction].
    apply filter_In. split; [exact Base|]. apply filter_In in Hy. destruct Hy as [_ Hyv].
    unfold positive_ok_b in Hpos. apply andb_true_iff in Hpos. destruct Hpos as [P1 P2]. subst n.
    pose proof (versioned_names c l y P1 Hd E Hyl) as Ny. pose proof (versioned_names c l w P1 Hd E Hwl) as Nw.
    unfold winner_passes_b in P2. rewrite Hd, EQ, E in P2. cbn [orb] in P2. rewrite <- Ny, EW in P2.
    assert (Cy : constrain_provider c req (getp R y) = false).
    { destruct (constrain_provider c req (getp R y)) eqn:Cy; [|reflexivity]. exfalso. apply Hyndq.
      eapply Hcov; eassumption. }
    apply orb_true_iff in P2. destruct P2 as [P2|P2].
    - apply negb_true_iff in P2. unfold constrain_provider in P2. fold (nm R w) in P2. rewrite Nw, String.eqb_refl in P2.
      unfold version_passes. destruct (k_ver (getp R w)) as [a|]; [|discriminate]. apply negb_false_iff in P2. rewrite P2. reflexivity.
    - rewrite forallb_forall in P2. rewrite (P2 y Hyl) in Cy. discriminate.
  Qed.

  (* ---- what keeps dq_ok ------------------------------------------------------------------ *)
  (* a winner's conflicts are non-winners *)
  Lemma disqualify_conflicts_dq_ok i dq dq' : sound R -> valid R i -> is_winner R i = true -> dq_ok R dq ->
    (forall pv, In pv (k_provs (getp R i)) -> listed (r_names R) (s_name pv) i) ->
    disqualify_conflicts R i dq = Ok dq' -> dq_ok R dq'.
  Proof.
    intros Hs Vi Wi Hdq Hl H. pose proof (disqualify_conflicts_mono _ _ _ _ H) as I.
    apply (dq_ok_grow R dq dq' Hdq I). revert H. unfold disqualify_conflicts.
    set (P := fun d : list pid => forall z, In z d -> In z dq \/ is_winner R z = false).
    intros H. apply (fold_res_inv P _ _) with (a' := dq') in H; [exact H| |].
    - intros a pv a' Hpv Pa E. destruct (alookup (s_name pv) (r_names R)) as [providers|] eqn:EL; [|inversion E; subst; exact Pa].
      apply (fold_res_inv P _ _) with (a' := a') in E; [exact E| |intros a0 E0; inversion E0; subst; exact Pa].
      intros d j d' Hj Pd E1. destruct (Nat.eqb j i) eqn:Eji; [inversion E1; subst; exact Pd|].
      destruct (mem_pid j d); [inversion E1; subst; exact Pd|].
      destruct (conflicting_version (s_c pv) (getp R j)) as [[|]|] eqn:ECV; inversion E1; subst; [|exact Pd].
      intros z [<-|Hz]; [|apply Pd; exact Hz]. right.
      destruct (Hl pv Hpv) as [l' [El' Hil]]. rewrite EL in El'. inversion El'; subst l'.
      destruct (mf_entry R MF _ _ i EL Hil) as [[w [EW [_ [Hn _]]]]|[_ Hunv]].
      + destruct (is_winner R j) eqn:Wj; [|reflexivity]. exfalso. apply Nat.eqb_neq in Eji. apply Eji.
        apply (winner_uniq R j i Wj Wi). apply Hn. exact Hj.
      + (* a pure virtual: conflictingVersion says no *)
        exfalso. pose proof (entry_valid R Hwf _ _ j EL Hj) as Vj.
        assert (Nj : k_name (getp R j) <> s_name pv).
        { apply (mf_virtual R MF (getp R i) pv (getp R j)); [apply getp_in; exact Vi | exact Hpv | apply getp_in; exact Vj]. }
        unfold conflicting_version in ECV. fold (s_version pv) in ECV. rewrite (Hunv i pv Hil Hpv eq_refl) in ECV. cbn [String.eqb negb] in ECV.
        fold (s_name pv) in ECV. apply String.eqb_neq in Nj. rewrite Nj in ECV.
        destruct (Hs _ _ _ EL Hj) as [A|[pv' [Hpv' A]]]; [apply String.eqb_neq in Nj; contradiction|].
        destruct (List.find (fun pv0 => String.eqb (s_name pv0) (s_name pv)) (k_provs (getp R j))) as [pf|] eqn:EF.
        * destruct (find_some _ _ EF) as [F1 F2]. apply String.eqb_eq in F2. rewrite (Hunv j pf Hj F1 F2) in ECV. discriminate.
        * discriminate.
    - intros a E. inversion E; subst. intros z Hz. left. exact Hz.
  Qed.

  Lemma own_in_list j : valid R j -> listed (r_names R) (nm R j) j -> forall l, alookup (nm R j) (r_names R) = Some l -> In j l.
  Proof. intros _ [l' [E H]] l E'. rewrite E in E'. inversion E'; subst. exact H. Qed.

  Lemma hit_filter dq c l j : In j (filter_packages R dq (world_opts c) l) <-> In j l /\ ~ In j dq /\ hit R c j = true.
  Proof.
    unfold hit, filter_packages. cbn [mem_pid existsb negb andb List.filter].
    destruct (fo_dep (world_opts c) =? dep_versionAny)%Z.
    - rewrite filter_In, andb_true_iff, negb_true_iff, mem_pid_false.
      destruct (pin_allowed R (world_opts c) (getp R j)); cbn [List.filter]; intuition congruence.
    - destruct (fo_req (world_opts c)) as [req|].
      + rewrite !filter_In, andb_true_iff, negb_true_iff, mem_pid_false.
        destruct (pin_allowed R (world_opts c) (getp R j)); cbn [List.filter]; [|intuition congruence].
        destruct (version_passes (getp R j) (fo_dep (world_opts c)) req); intuition congruence.
      + cbn. intuition congruence.
  Qed.

  Hypothesis Hown : forall j, valid R j -> listed (r_names R) (nm R j) j.

  Lemma constrain_dq_ok cs : (forall d, In d cs -> dep_ok_b R d = true) ->
    forall dq dq', dq_ok R dq -> constrain R cs dq = Ok dq' -> dq_ok R dq'.
  Proof.
    intros Hcs dq dq' Hdq H. unfold constrain in H.
    apply (fold_res_inv (dq_ok R) _ _) with (a' := dq') in H; [exact H| |intros a E; inversion E; subst; exact Hdq].
    intros a d a' Hd Pa E. specialize (Hcs d Hd). unfold dep_ok_b in Hcs. destruct (d_neg d) as [rest|].
    - (* !rest *)
      inversion E; subst a'. clear E. unfold disqualify_providers.
      destruct (alookup (s_name rest) (r_names R)) as [l|] eqn:EL; [|exact Pa].
      intros j y Hj Wj Vy Ny. apply fold_dq_add_all in Hj. apply fold_dq_add_all. destruct Hj as [Hj|Hj]; [left; eapply Pa; eassumption|].
      apply hit_filter in Hj. destruct Hj as [Hjl [_ Hh]].
      unfold conflict_uniform_b in Hcs. rewrite EL in Hcs. rewrite forallb_forall in Hcs. specialize (Hcs j Hjl).
      rewrite Wj, Hh in Hcs. cbn [negb orb] in Hcs. rewrite forallb_forall in Hcs.
      specialize (Hcs y (proj2 (all_pids_In R y) Vy)). unfold same_name in Hcs. fold (nm R y) in Hcs. fold (nm R j) in Hcs.
      rewrite Ny, String.eqb_refl in Hcs. cbn [negb orb] in Hcs. apply andb_true_iff in Hcs. destruct Hcs as [C1 C2].
      destruct (in_dec Nat.eq_dec y a) as [Hya|Hya]; [left; exact Hya|]. right. apply hit_filter.
      split; [apply mem_pid_In; exact C1 | split; [exact Hya | exact C2]].
    - destruct (s_dep (d_pos d) =? dep_versionAny)%Z eqn:Hdep; [inversion E; subst; exact Pa|].
      destruct (alookup (s_name (d_pos d)) (r_names R)) as [l|] eqn:EL; [|inversion E; subst; exact Pa].
      destruct (s_req (d_pos d)) as [req|] eqn:EQ; [|discriminate]. inversion E; subst a'. clear E.
      unfold positive_ok_b in Hcs. apply andb_true_iff in Hcs. destruct Hcs as [P1 P2].
      intros j y Hj Wj Vy Ny.
      apply (fold_dq_add_char (fun j => constrain_provider (d_pos d) req (getp R j))) in Hj.
      apply (fold_dq_add_char (fun j => constrain_provider (d_pos d) req (getp R j))).
      destruct Hj as [Hj|[Hjl Cj]]; [left; eapply Pa; eassumption|]. right.
      pose proof (versioned_names _ l j P1 Hdep EL Hjl) as Nj.
      assert (Hyl : In y l). { apply (own_in_list y Vy (Hown y Vy)). rewrite Ny, Nj. exact EL. }
      split; [exact Hyl|].
      unfold winner_passes_b in P2. rewrite Hdep, EQ, EL in P2. cbn [orb] in P2. rewrite <- Nj, (is_winner_of R j Wj) in P2.
      rewrite Cj in P2. cbn [negb orb] in P2. rewrite forallb_forall in P2. apply P2. exact Hyl.
  Qed.
End Filter.
