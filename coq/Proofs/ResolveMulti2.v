(* C02: inside the WIDER envelope (several versions per name; Spec.ResolveMultiSpec)
   a successful result is CLOSED.  Continues Proofs/ResolveMulti.v (Part A).
   Part B: one dependency evaluated.  Part C: the invariant of the dependency
   walk.  Part D: the top level.

   The proof follows Proofs/ResolveClosure2.v; what replaces "names are unique"
   is "everything the solver ever chooses is the WINNER of its name":
     * the walk's invariant carries, next to `selected` / dq / the returned
       list, that every returned package and every entry of `existing` is a
       winner and that the disqualification set holds a winner only together
       with all packages of its name;
     * wherever the solver works by NAME (cycle cut through `parents`,
       de-duplication, installTracked) two winners of one name are one package. *)
From Apko Require Import Base.Prelude Base.Regex Generated.Regexes Generated.VersionConsts Generated.C03Version
  Model.Version Model.Resolver Spec.ResolveSpec Spec.ResolveMultiSpec
  Proofs.ResolveProofs Proofs.ResolveProofs2 Proofs.C14Proofs Proofs.ResolveTheorems Proofs.ResolveEnvelope
  Proofs.ResolveClosure Proofs.ResolveClosure2 Proofs.ResolveNoPanic Proofs.ResolveMulti.
Open Scope string_scope. Open Scope list_scope. Open Scope nat_scope.

Definition winners (R : resolver) (l : list pid) : Prop := Forall (fun j => is_winner R j = true) l.

(* what eval_dep's options are: the filter of one key of the name map *)
Lemma eval_dep_opts_inv R st k pin d l : eval_dep R st k pin d = DOpts l ->
  exists cands o, alookup (s_name d) (r_names R) = Some cands /\ l = filter_packages R (st_dq st) o cands /\
                  fo_dep o = s_dep d /\ fo_req o = s_req d.
Proof.
  unfold eval_dep. intros H.
  destruct (my_provides k (s_name d) || my_provides k (s_raw d)); [discriminate|].
  match type of H with (if ?b then _ else _) = _ => destruct b; [discriminate|] end.
  destruct (alookup (s_name d) (st_selected st)) as [j|].
  { destruct (String.eqb (s_version d) ""); [discriminate|].
    destruct (k_ver (getp R j)); [|discriminate]. destruct (s_req d); [|discriminate].
    destruct (selected_provides_satisfy (s_name d) m0 (k_provs (getp R j))) as [[|]|]; try discriminate.
    destruct (satisfies (s_dep d) m m0); discriminate. }
  destruct (alookup (s_name d) (r_names R)) as [cands|] eqn:EC; [|discriminate].
  match type of H with match ?f with _ => _ end = _ => destruct f as [|x0 t] eqn:EFl; [discriminate|] end.
  inversion H; subst l. eexists. eexists. split; [reflexivity|]. split; [symmetry; exact EFl|]. split; reflexivity.
Qed.

(* ================= Part B: one dependency ====================================== *)
Section OneDepM.
  Variable U : universe.
  Local Notation R := (new_resolver U).
  Hypothesis MF : mfacts R.

  Lemma own_listed_v j : valid R j -> listed (r_names R) (nm R j) j.
  Proof. intros V. apply valid_new in V. apply own_listed. exact V. Qed.

  Lemma dep_positive_ok self d : valid R self -> In d (positive_deps (getp R self)) -> positive_ok_b R d = true.
  Proof.
    intros Vs Hd. apply positive_deps_In in Hd. destruct Hd as [cd [H1 [H2 H3]]].
    pose proof (mf_dep R MF _ _ (getp_in _ _ Vs) H1) as H. unfold dep_ok_b in H. rewrite H2, H3 in H. exact H.
  Qed.

  (* a versioned dependency names packages: whoever relates to the name is named so *)
  Lemma real_name self d j : valid R self -> In d (positive_deps (getp R self)) ->
    (s_dep d =? dep_versionAny)%Z = false -> valid R j ->
    (k_name (getp R j) = s_name d \/ provides_name (getp R j) (s_name d)) -> k_name (getp R j) = s_name d.
  Proof.
    intros Vs Hd Hdep Vj Hj. pose proof (dep_positive_ok self d Vs Hd) as HP.
    unfold positive_ok_b in HP. apply andb_true_iff in HP. destruct HP as [HP _].
    assert (L : listed (r_names R) (s_name d) j).
    { destruct Hj as [Hj|[pv [Hpv Hj]]].
      - rewrite <- Hj. apply own_listed_v. exact Vj.
      - rewrite <- Hj. apply provider_listed; assumption. }
    destruct L as [l [E Hin]]. apply (versioned_names R d l j HP Hdep E Hin).
  Qed.

  Lemma eval_dep_skip_sat_m self st pin d : valid R self -> In d (positive_deps (getp R self)) ->
    sel_ok R (st_selected st) -> eval_dep R st (getp R self) pin d = DSkip ->
    pkg_satisfies_b d (getp R self) = true \/
    exists j, alookup (s_name d) (st_selected st) = Some j /\ pkg_satisfies_b d (getp R j) = true.
  Proof.
    intros Vs Hd Hsel H. pose proof (positive_deps_cooked U self d Hd) as Hck.
    pose proof Hd as Hd'. apply positive_deps_In in Hd'. destruct Hd' as [cd [H1 [H2 H3]]].
    pose proof (mf_no_self_dep _ MF _ _ (getp_in _ _ Vs) H1 H2) as HN. rewrite H3 in HN.
    unfold eval_dep in H. rewrite HN in H.
    match type of H with (if ?b then _ else _) = _ => destruct b eqn:EB end.
    - left. apply andb_true_iff in EB. destruct EB as [E1 E2]. unfold pkg_satisfies_b. apply orb_true_iff. left.
      apply andb_true_iff. split; [exact E1|]. unfold ver_ok_b.
      destruct (k_ver (getp R self)) as [a|]; [|discriminate].
      destruct (s_dep d =? dep_versionAny)%Z; [reflexivity|]. cbn [orb]. destruct (s_req d); [exact E2 | discriminate].
    - destruct (alookup (s_name d) (st_selected st)) as [j|] eqn:ES.
      + right. exists j. split; [reflexivity|]. destruct (Hsel _ _ ES) as [Vj Hj].
        destruct (s_dep d =? dep_versionAny)%Z eqn:Hdep; [apply sat_any_by_provider; assumption|].
        destruct (String.eqb (s_version d) "") eqn:EV.
        { exfalso. apply String.eqb_eq in EV. apply Z.eqb_neq in Hdep. revert Hdep EV. rewrite Hck.
          unfold s_dep, s_version, cook_str; cbn [s_c]. apply dep_version. }
        pose proof (real_name self d j Vs Hd Hdep Vj Hj) as Hn.
        destruct (k_ver (getp R j)) as [actual|] eqn:EA; [|discriminate].
        destruct (s_req d) as [req|] eqn:EQ; [|discriminate].
        assert (SP : selected_provides_satisfy (s_name d) req (k_provs (getp R j)) = Some false).
        { apply sps_false. intros pv Hpv E. rewrite <- Hn in E.
          apply (mf_virtual _ MF _ pv (getp R j) (getp_in _ _ Vj) Hpv (getp_in _ _ Vj)). symmetry. exact E. }
        rewrite SP in H. destruct (satisfies (s_dep d) actual req) eqn:ESat; [|discriminate].
        unfold pkg_satisfies_b. apply orb_true_iff. left. apply andb_true_iff. split; [apply String.eqb_eq; exact Hn|].
        unfold ver_ok_b. rewrite EA, EQ, ESat. apply orb_true_r.
      + destruct (alookup (s_name d) (r_names R)); [|discriminate].
        match type of H with match ?f with _ => _ end = _ => destruct f; discriminate end.
  Qed.

  Lemma eval_dep_opts_sat_m self st pin d l : valid R self -> In d (positive_deps (getp R self)) ->
    cons_ok R self (st_dq st) -> eval_dep R st (getp R self) pin d = DOpts l ->
    forall x, In x l -> valid R x /\ pkg_satisfies_b d (getp R x) = true.
  Proof.
    intros Vs Hd Hc H x Hx.
    pose proof Hd as Hd'. apply positive_deps_In in Hd'. destruct Hd' as [cd [H1 [H2 H3]]].
    destruct (eval_dep_opts_inv _ _ _ _ _ _ H) as [cands [o [EC [El [Ho1 Ho2]]]]]. subst l.
    pose proof (filter_packages_sub _ _ _ _ _ Hx) as [Hin Hndq].
    assert (Vx : valid R x) by (eapply nm_lookup_valid; [apply (proj1 (new_resolver_wf U)) | exact EC | exact Hin]).
    split; [exact Vx|].
    pose proof (names_sound U _ _ _ EC Hin) as Hn.
    destruct (s_dep d =? dep_versionAny)%Z eqn:Hdep; [apply sat_any_by_provider; assumption|].
    pose proof (real_name self d x Vs Hd Hdep Vx Hn) as Hname.
    unfold filter_packages in Hx. rewrite Ho1, Ho2, Hdep in Hx.
    destruct (s_req d) as [req|] eqn:EQ; [|contradiction].
    apply filter_In in Hx. destruct Hx as [_ Hv].
    unfold version_passes in Hv. destruct (k_ver (getp R x)) as [a|] eqn:EV; [|discriminate].
    unfold pkg_satisfies_b. apply orb_true_iff. left. apply andb_true_iff. split; [apply String.eqb_eq; exact Hname|].
    unfold ver_ok_b. rewrite Hdep, EQ, EV. cbn [orb].
    destruct (satisfies (s_dep d) a req) eqn:ES; [reflexivity|]. exfalso. apply Hndq.
    apply (Hc cd cands req x H1 H2); rewrite ?H3; try assumption.
    unfold constrain_provider. rewrite Hname, String.eqb_refl, EV, ES. reflexivity.
  Qed.

  (* the package chosen for a dependency is the winner of its name *)
  Lemma eval_dep_best_winner self st pin d l best : valid R self -> In d (positive_deps (getp R self)) ->
    cons_ok R self (st_dq st) -> dq_ok R (st_dq st) -> ex_ok R (st_existing st) ->
    eval_dep R st (getp R self) pin d = DOpts l ->
    best_package R (s_name d) (st_existing st) (st_origins st) "" l = Some best -> is_winner R best = true.
  Proof.
    intros Vs Hd Hc Hdq Hex H HB.
    pose proof Hd as Hd'. apply positive_deps_In in Hd'. destruct Hd' as [cd [H1 [H2 H3]]].
    destruct (eval_dep_opts_inv _ _ _ _ _ _ H) as [cands [o [EC [El [Ho1 Ho2]]]]]. subst l.
    refine (proj1 (choose_winner R (new_resolver_wf U) MF (s_name d) cands _ _ _ _ best EC _ Hex _ HB)).
    - intros y Hy. apply (filter_packages_sub _ _ _ _ _ Hy).
    - intros y w Hy EW Hne.
      apply (filter_has_winner R (new_resolver_wf U) MF (st_dq st) o (s_name d) cands d y w EC Hdq Ho1 Ho2 eq_refl
               (dep_positive_ok self d Vs Hd)); try assumption.
      intros providers req j A B C D E. apply (Hc cd providers req j H1 H2); rewrite ?H3; assumption.
  Qed.
End OneDepM.

(* ================= Part C: the dependency walk ================================== *)
Section WalkM.
  Variable U : universe.
  Local Notation R := (new_resolver U).
  Hypothesis MF : mfacts R.
  Variable F : list pid.

  Local Notation sat := (sat U F).
  Local Notation Sat := (Sat U F).

  Record wspec2 (parents : list string) (i : pid) (st st' : rstate) (deps : list pid) : Prop := {
    w2_dq : incl (st_dq st) (st_dq st');
    w2_valid : Forall (valid R) deps;
    w2_win : winners R deps;
    w2_selok : sel_ok R (st_selected st');
    w2_dqok : dq_ok R (st_dq st');
    w2_exok : ex_ok R (st_existing st');
    w2_closed : incl deps F -> In i F -> sel_in (st_selected st) F ->
                sel_in (st_selected st') F /\
                forall m, m = i \/ In m deps -> In (nm R m) parents \/ Sat m
  }.

  Lemma deps_loop_closure_m rec self pin parents dqc :
    valid R self -> is_winner R self = true -> cons_ok R self dqc ->
    (forall best ps st st' sub, rec best pin ps st = Ok (st', sub) -> valid R best -> is_winner R best = true ->
        sel_ok R (st_selected st) -> dq_ok R (st_dq st) -> ex_ok R (st_existing st) -> wspec2 ps best st st' sub) ->
    forall n cs st acc st' deps,
      deps_loop R rec self pin parents n cs st acc = Ok (st', deps) ->
      (forall d, In d cs -> In d (positive_deps (getp R self))) ->
      incl dqc (st_dq st) -> sel_ok R (st_selected st) -> dq_ok R (st_dq st) -> ex_ok R (st_existing st) ->
      Forall (valid R) acc -> winners R acc ->
      incl (st_dq st) (st_dq st') /\ Forall (valid R) deps /\ winners R deps /\ sel_ok R (st_selected st') /\
      dq_ok R (st_dq st') /\ ex_ok R (st_existing st') /\ incl acc deps /\
      (incl deps F -> In self F -> sel_in (st_selected st) F ->
         sel_in (st_selected st') F /\ (forall d, In d cs -> sat d) /\
         (forall m, In m deps -> In m acc \/ In (nm R m) (nm R self :: parents) \/ Sat m)).
  Proof.
    intros Vs Ws Hcons Hrec. induction n as [|n IH]; intros cs st acc st' deps H Hcs Hdq Hsel Hdqok Hex Hacc Wacc.
    - destruct cs; simpl in H; [|discriminate]. inversion H; subst.
      split; [apply incl_refl|]. split; [exact Hacc|]. split; [exact Wacc|]. split; [exact Hsel|].
      split; [exact Hdqok|]. split; [exact Hex|]. split; [apply incl_refl|].
      intros _ _ HF. split; [exact HF|]. split; [intros d []|]. intros m Hm. left. exact Hm.
    - destruct cs as [|c0 cs0].
      { simpl in H. inversion H; subst.
        split; [apply incl_refl|]. split; [exact Hacc|]. split; [exact Wacc|]. split; [exact Hsel|].
        split; [exact Hdqok|]. split; [exact Hex|]. split; [apply incl_refl|].
        intros _ _ HF. split; [exact HF|]. split; [intros d []|]. intros m Hm. left. exact Hm. }
      cbn [deps_loop] in H. remember (c0 :: cs0) as cs.
      destruct (eval_all R st (getp R self) pin cs []) as [opts|] eqn:EA; [|discriminate].
      pose proof (eval_all_sound _ _ _ _ _ _ _ EA) as Snd. pose proof (eval_all_complete _ _ _ _ _ _ _ EA) as [_ Cmp].
      assert (Skip : In self F -> sel_in (st_selected st) F -> forall d, In d cs ->
                     eval_dep R st (getp R self) pin d = DSkip -> sat d).
      { intros HsF HF d Hd E. destruct (eval_dep_skip_sat_m U MF self st pin d Vs (Hcs d Hd) Hsel E) as [A|[j [A B]]].
        - exists self. split; assumption.
        - exists j. split; [eapply HF; exact A | exact B]. }
      destruct (lowest opts) as [[d cands]|] eqn:EL.
      2:{ inversion H; subst. apply lowest_none in EL. subst opts.
          split; [apply incl_refl|]. split; [exact Hacc|]. split; [exact Wacc|]. split; [exact Hsel|].
          split; [exact Hdqok|]. split; [exact Hex|]. split; [apply incl_refl|].
          intros _ HsF HF. split; [exact HF|]. split; [|intros m Hm; left; exact Hm].
          intros d0 Hd0. destruct (Cmp d0 Hd0) as [E|E]; [|discriminate]. apply Skip; assumption. }
      destruct (best_package R (s_name d) (st_existing st) (st_origins st) "" cands) as [best|] eqn:EB; [|discriminate].
      destruct (disqualify_conflicts R best (st_dq st)) as [dq1| | |] eqn:ED; simpl in H; try discriminate.
      destruct (pick R self (st_selected st)) as [sel1| | |] eqn:EP; simpl in H; try discriminate.
      destruct (rec best pin (k_name (getp R self) :: parents) (with_selected (with_dq st dq1) sel1)) as [[st2 sub]| | |] eqn:ER;
        simpl in H; try discriminate.
      pose proof (disqualify_conflicts_mono _ _ _ _ ED) as EDm.
      apply lowest_In in EL. destruct EL as [key EL].
      destruct (Snd _ _ _ EL) as [[]|[Hdcs [Hkey Hev]]].
      pose proof (cons_ok_mono _ _ _ _ Hcons Hdq) as Hcons'.
      pose proof (eval_dep_best_winner U MF self st pin d cands best Vs (Hcs d Hdcs) Hcons' Hdqok Hex Hev EB) as Wb.
      apply best_package_In in EB.
      destruct (eval_dep_opts_sat_m U MF self st pin d cands Vs (Hcs d Hdcs) Hcons' Hev best EB) as [Vb Sb].
      pose proof (pick_sel_ok R self _ _ Vs Hsel EP) as Hsel1.
      assert (Hdq1 : dq_ok R dq1).
      { apply (disqualify_conflicts_dq_ok R (new_resolver_wf U) MF best (st_dq st) dq1 (new_resolver_sound U) Vb Wb Hdqok); [|exact ED].
        intros pv Hpv. apply provider_listed; assumption. }
      assert (W : wspec2 (k_name (getp R self) :: parents) best (with_selected (with_dq st dq1) sel1) st2 sub).
      { apply Hrec; [exact ER | exact Vb | exact Wb | exact Hsel1 | exact Hdq1 | exact Hex]. }
      destruct W as [W1 W2 Ww W3 Wd We W4]. cbn [with_selected with_dq st_dq st_selected] in W1, W4.
      set (cs' := List.filter (fun e => negb (String.eqb (s_raw e) (s_raw d))) (List.map (fun e => fst (snd e)) opts)) in *.
      assert (Hcs' : forall e, In e cs' -> In e cs).
      { intros e He. apply filter_In in He. destruct He as [He _]. apply in_map_iff in He.
        destruct He as [[k0 [d0 l0]] [E0 Hin0]]. simpl in E0. subst d0.
        destruct (Snd _ _ _ Hin0) as [[]|[A _]]. exact A. }
      specialize (IH cs' (note_existing R sub st2) (acc ++ sub ++ [best]) st' deps H).
      destruct IH as [I1 [I2 [Iw [I3 [Id [Ie [I4 I5]]]]]]].
      { intros e He. apply Hcs. apply Hcs'. exact He. }
      { rewrite note_existing_dq. eapply incl_tran; [exact Hdq|]. eapply incl_tran; [exact EDm | exact W1]. }
      { rewrite note_existing_sel. exact W3. }
      { rewrite note_existing_dq. exact Wd. }
      { apply note_existing_ex; assumption. }
      { apply Forall_app. split; [exact Hacc|]. apply Forall_app. split; [exact W2|]. constructor; [exact Vb | constructor]. }
      { apply Forall_app. split; [exact Wacc|]. apply Forall_app. split; [exact Ww|]. constructor; [exact Wb | constructor]. }
      rewrite note_existing_dq in I1. rewrite note_existing_sel in I5.
      split; [eapply incl_tran; [exact EDm|]; eapply incl_tran; [exact W1 | exact I1]|].
      split; [exact I2|]. split; [exact Iw|]. split; [exact I3|]. split; [exact Id|]. split; [exact Ie|].
      split; [intros x Hx; apply I4; apply in_or_app; left; exact Hx|].
      intros HdF HsF HF.
      assert (HsubF : incl sub F).
      { intros x Hx. apply HdF. apply I4. apply in_or_app. right. apply in_or_app. left. exact Hx. }
      assert (HbF : In best F).
      { apply HdF. apply I4. apply in_or_app. right. apply in_or_app. right. left. reflexivity. }
      assert (HF1 : sel_in sel1 F).
      { intros n0 j0 E0. destruct (pick_new R self _ _ EP n0 j0 E0) as [A|[-> _]]; [eapply HF; exact A | exact HsF]. }
      destruct (W4 HsubF HbF HF1) as [HF2 Wm].
      destruct (I5 HdF HsF HF2) as [J1 [J2 J3]].
      split; [exact J1|]. split.
      + intros d0 Hd0. destruct (Cmp d0 Hd0) as [E|E]; [apply Skip; assumption|].
        apply ahas_lookup in E. destruct E as [[d1 l1] E]. apply alookup_In in E.
        destruct (Snd _ _ _ E) as [[]|[A [B C]]].
        assert (d1 = d0).
        { apply cooked_eq; [eapply positive_deps_cooked; apply Hcs; exact A | eapply positive_deps_cooked; apply Hcs; exact Hd0 | symmetry; exact B]. }
        subst d1. destruct (String.eqb (s_raw d0) (s_raw d)) eqn:Eraw.
        * apply String.eqb_eq in Eraw.
          assert (d0 = d).
          { apply cooked_eq; [eapply positive_deps_cooked; apply Hcs; exact Hd0 | eapply positive_deps_cooked; apply Hcs; exact Hdcs | exact Eraw]. }
          subst d0. exists best. split; [exact HbF | exact Sb].
        * apply J2. apply filter_In. split; [|rewrite Eraw; reflexivity].
          apply in_map_iff. exists (s_raw d0, (d0, l1)). split; [reflexivity | exact E].
      + intros m Hm. destruct (J3 m Hm) as [A|[A|A]]; [|right; left; exact A | right; right; exact A].
        apply in_app_or in A. destruct A as [A|A]; [left; exact A|]. right.
        assert (Hm' : m = best \/ In m sub).
        { apply in_app_or in A. destruct A as [A|[A|[]]]; [right; exact A | left; symmetry; exact A]. }
        destruct (Wm m Hm') as [B|B]; [left; exact B | right; exact B].
  Qed.

  Lemma get_deps_closure_m : forall fuel i pin parents st st' deps,
    get_deps fuel R i pin parents st = Ok (st', deps) -> valid R i -> is_winner R i = true ->
    sel_ok R (st_selected st) -> dq_ok R (st_dq st) -> ex_ok R (st_existing st) ->
    wspec2 parents i st st' deps.
  Proof.
    induction fuel as [|f IH]; intros i pin parents st st' deps H Vi Wi Hsel Hdq Hex; [discriminate|].
    cbn [get_deps] in H. destruct (mem_str (k_name (getp R i)) parents) eqn:EM.
    - inversion H; subst. constructor; [apply incl_refl | constructor | constructor | exact Hsel | exact Hdq | exact Hex |].
      intros _ _ HF. split; [exact HF|]. intros m [->|[]]. left. apply mem_str_In. exact EM.
    - destruct (constrain R (k_deps (getp R i)) (st_dq st)) as [dq1| | |] eqn:EC; cbn [rbind] in H; try discriminate.
      pose proof (constrain_cons_ok _ _ _ _ EC) as Hcons.
      assert (Hdq1 : dq_ok R dq1).
      { apply (constrain_dq_ok R (own_listed_v U) (k_deps (getp R i))) with (dq := st_dq st); [|exact Hdq | exact EC].
        intros d Hd. apply (mf_dep R MF _ _ (getp_in _ _ Vi) Hd). }
      apply constrain_mono in EC.
      destruct (deps_loop_closure_m (get_deps f R) i pin parents dq1 Vi Wi Hcons
                  (fun best ps st0 st0' sub E V Wn S D X => IH best pin ps st0 st0' sub E V Wn S D X)
                  _ _ _ _ _ _ H) as [L1 [L2 [Lw [L3 [Ld [Le [_ L5]]]]]]].
      + auto.
      + apply incl_refl.
      + exact Hsel.
      + exact Hdq1.
      + exact Hex.
      + constructor.
      + constructor.
      + cbn [with_dq st_dq st_selected] in L1, L5.
        constructor; [eapply incl_tran; eassumption | exact L2 | exact Lw | exact L3 | exact Ld | exact Le |].
        intros HdF HiF HF. destruct (L5 HdF HiF HF) as [M1 [M2 M3]]. split; [exact M1|].
        assert (Si : Sat i) by (intros d Hd; apply M2; exact Hd).
        intros m [->|Hm]; [right; exact Si|].
        destruct (M3 m Hm) as [[]|[[A|A]|A]]; [|left; exact A | right; exact A].
        right. unfold winners in Lw. rewrite Forall_forall in Lw.
        rewrite (winner_uniq R m i (Lw m Hm) Wi (eq_sym A)). exact Si.
  Qed.
End WalkM.

(* ================= Part D: the top level ========================================== *)
Lemma track_win R j acc : winners R (fst (fst acc)) -> is_winner R j = true -> winners R (fst (fst (track R j acc))).
Proof.
  destruct acc as [[ti tracked] depmap]. unfold track. destruct (mem_str (k_name (getp R j)) tracked); cbn [fst snd]; intros H Wj; [exact H|].
  apply Forall_app. split; [exact H | constructor; [exact Wj | constructor]].
Qed.

Lemma track_ex R j acc : ex_ok R (snd acc) -> valid R j -> is_winner R j = true -> ex_ok R (snd (track R j acc)).
Proof.
  destruct acc as [[ti tracked] depmap]. unfold track. destruct (mem_str (k_name (getp R j)) tracked); cbn [fst snd]; intros H V Wj;
    (destruct (ahas (k_name (getp R j)) depmap); [exact H | apply (ex_ok_aset R depmap j H V Wj)]).
Qed.

Lemma track_fold_win_ex R deps : forall acc, Forall (valid R) deps -> winners R deps ->
  winners R (fst (fst acc)) -> ex_ok R (snd acc) ->
  winners R (fst (fst (fold_left (fun a j => track R j a) deps acc))) /\ ex_ok R (snd (fold_left (fun a j => track R j a) deps acc)).
Proof.
  induction deps as [|d ds IH]; intros acc V Wd Ha He; simpl; [split; assumption|].
  inversion V; subst. inversion Wd; subst. apply IH; [assumption | assumption | apply track_win; assumption | apply track_ex; assumption].
Qed.

Section TopM.
  Variable U : universe.
  Local Notation R := (new_resolver U).
  Hypothesis MF : mfacts R.

  Lemma iif_nil_m : r_iif R = [].
  Proof. unfold new_resolver; cbn [r_iif]. apply build_iif_nil. intros k Hk. apply (mf_no_iif _ MF). exact Hk. Qed.

  (* a request resolves to the winner of its name *)
  Lemma resolve_package_winner dq w i : dq_ok R dq -> positive_ok_b R w = true -> covered R w dq ->
    resolve_package R dq w = Ok i -> valid R i /\ is_winner R i = true.
  Proof.
    intros Hdq Hpos Hcov H. pose proof (resolve_package_spec R dq w i (new_resolver_wf U) H) as [_ [Vi _]]. split; [exact Vi|].
    unfold resolve_package, candidates in H.
    destruct (alookup (s_name w) (r_names R)) as [cands|] eqn:EC; [|discriminate].
    destruct (best_package R (s_name w) [] [] (s_pin w) (filter_packages R dq (world_opts w) cands)) as [b|] eqn:EB; [|discriminate].
    inversion H; subst b.
    refine (proj1 (choose_winner R (new_resolver_wf U) MF (s_name w) cands [] [] (s_pin w) _ i EC _ _ _ EB)).
    - intros y Hy. apply (filter_packages_sub _ _ _ _ _ Hy).
    - intros x j E. discriminate.
    - intros y w0 Hy EW Hne.
      apply (filter_has_winner R (new_resolver_wf U) MF dq (world_opts w) (s_name w) cands w y w0 EC Hdq eq_refl eq_refl eq_refl Hpos Hcov Hy EW Hne).
  Qed.

  Definition req_ok (dq : list pid) (w : cstr) : Prop := positive_ok_b R w = true /\ covered R w dq.

  Lemma get_pkg_closure_m F w dq sel ex dq' sel' i deps :
    get_pkg R w dq sel ex = Ok (dq', sel', i, deps) -> sel_ok R sel -> dq_ok R dq -> ex_ok R ex -> req_ok dq w ->
    valid R i /\ is_winner R i = true /\ Forall (valid R) deps /\ winners R deps /\ sel_ok R sel' /\ dq_ok R dq' /\ incl dq dq' /\
    (incl deps F -> In i F -> sel_in sel F -> sel_in sel' F /\ forall m, m = i \/ In m deps -> Sat U F m).
  Proof.
    intros H Hsel Hdq Hex [Hpos Hcov]. unfold get_pkg, get_pkg_core in H.
    destruct (resolve_package R dq w) as [i0| | |] eqn:ER; cbn [rbind] in H; try discriminate.
    destruct (get_deps (fuel_bound R) R i0 (s_pin w) []
                {| st_dq := dq; st_selected := sel; st_existing := ex; st_origins := initial_origins R ex |})
      as [[st' ds]| | |] eqn:EG; cbn [rbind] in H; try discriminate.
    destruct (resolve_package_winner dq w i0 Hdq Hpos Hcov ER) as [Vi Wi].
    destruct (get_deps_closure_m U MF F _ _ _ _ _ _ _ EG Vi Wi Hsel Hdq Hex) as [G1 G2 Gw G3 Gd _ G4]. cbn [st_selected st_dq] in G1, G4.
    destruct (dedup_by_name R ds) as [l added] eqn:ED. cbn [rbind] in H.
    destruct (iif_loop (fuel_bound R) R 0 l added) as [deps0| | |] eqn:EI; cbn [rbind] in H; try discriminate.
    apply (iif_loop_nil_ok _ _ _ _ _ _ iif_nil_m) in EI. subst deps0.
    assert (Hl : forall j, In j l -> In j ds) by (intros j Hj; apply (dedup_sub R); rewrite ED; exact Hj).
    assert (Hn : forall j, In j ds -> In (nm R j) (List.map (nm R) l)).
    { intros j Hj. pose proof (dedup_names R ds j Hj) as Hn. rewrite ED in Hn. exact Hn. }
    clear ED. injection H as <- <- <- <-.
    unfold winners in *. rewrite Forall_forall in G2, Gw.
    split; [exact Vi|]. split; [exact Wi|]. split; [apply Forall_forall; intros j Hj; apply G2; apply Hl; exact Hj|].
    split; [apply Forall_forall; intros j Hj; apply Gw; apply Hl; exact Hj|]. split; [exact G3|]. split; [exact Gd|]. split; [exact G1|].
    intros HdF HiF HF.
    assert (HdsF : incl ds F).
    { intros j Hj. apply HdF. specialize (Hn j Hj).
      apply in_map_iff in Hn. destruct Hn as [j' [E Hj']].
      rewrite <- (winner_uniq R j' j (Gw j' (Hl j' Hj')) (Gw j Hj) E). exact Hj'. }
    destruct (G4 HdsF HiF HF) as [A B]. split; [exact A|].
    intros m [->|Hm]; [destruct (B i0 (or_introl eq_refl)) as [[]|C]; exact C|].
    destruct (B m (or_intror (Hl m Hm))) as [[]|C]; exact C.
  Qed.

  Lemma phase2_closure_m dq0 : forall ws dq sel acc S,
    phase2 R ws dq sel acc = Ok S -> incl dq0 dq -> Inv R dq0 acc -> sel_ok R sel -> dq_ok R dq -> ex_ok R (snd acc) ->
    winners R (fst (fst acc)) -> (forall w, In w ws -> req_ok dq w) ->
    winners R S /\ (sel_in sel S -> forall m, In m S -> In m (fst (fst acc)) \/ Sat U S m).
  Proof.
    pose proof (new_resolver_wf2 U) as Hwf.
    induction ws as [|w ws IH]; intros dq sel acc S H Hin HI Hsel Hdq Hex Hwa Hws.
    - simpl in H. inversion H; subst. split; [exact Hwa|]. intros _ m Hm. left. exact Hm.
    - cbn [phase2] in H.
      destruct (get_pkg R w dq sel (snd acc)) as [[[[dq' sel'] i] deps]| | |] eqn:EG; cbn [rbind] in H; try discriminate.
      pose proof (get_pkg_spec R w dq sel (snd acc) dq' sel' i deps dq0 Hwf Hin EG) as [G1 [_ [G3 G4]]].
      destruct (track_fold_inv R dq0 deps acc HI G4) as [J1 _].
      destruct (track_inv R dq0 i _ J1 G3) as [K1 _].
      destruct (phase2_inv R dq0 Hwf _ _ _ _ _ H G1 K1) as [_ [L2 [L3 _]]].
      destruct (get_pkg_closure_m S _ _ _ _ _ _ _ _ EG Hsel Hdq Hex (Hws w (or_introl eq_refl)))
        as [Vi [Wi [Vd [Wd [Hsel' [Hdq' [Imono C]]]]]]].
      destruct (track_fold_win_ex R deps acc Vd Wd Hwa Hex) as [Tw Te].
      pose proof (track_win R i _ Tw Wi) as Tw'. pose proof (track_ex R i _ Te Vi Wi) as Te'.
      destruct (IH _ _ _ _ H G1 K1 Hsel' Hdq' Te' Tw') as [WS CS0].
      { intros w' Hw'. destruct (Hws w' (or_intror Hw')) as [A B]. split; [exact A | eapply covered_mono; eassumption]. }
      split; [exact WS|]. intros HF m Hm.
      unfold winners in WS. rewrite Forall_forall in L2, Vd, WS.
      assert (Mem : forall j, is_winner R j = true ->
                In (nm R j) (snd (fst (track R i (fold_left (fun a j => track R j a) deps acc)))) -> In j S).
      { intros j Wj Hn. apply L3 in Hn. apply in_map_iff in Hn. destruct Hn as [j' [E Hj']].
        rewrite <- (winner_uniq R j' j (WS j' Hj') Wj E). exact Hj'. }
      destruct (track_tracked R i (fold_left (fun a j => track R j a) deps acc)) as [T1 T2].
      destruct (track_fold_tracked R deps acc) as [T3 T4].
      unfold winners in Wd. rewrite Forall_forall in Wd.
      assert (HdS : incl deps S) by (intros j Hj; apply Mem; [apply Wd; exact Hj | apply T1; apply T4; exact Hj]).
      assert (HiS : In i S) by (apply Mem; [exact Wi | exact T2]).
      destruct (C HdS HiS HF) as [HF' CS].
      destruct (CS0 HF' m Hm) as [A|A]; [|right; exact A].
      apply track_members in A. destruct A as [A|A]; [|right; apply CS; left; exact A].
      apply track_fold_members in A. destruct A as [A|A]; [left; exact A | right; apply CS; right; exact A].
  Qed.

  Lemma phase1_m : forall n cs dq depmap dq' depmap',
    phase1 n R cs dq depmap = Ok (dq', depmap') -> dq_ok R dq -> ex_ok R depmap -> (forall w, In w cs -> req_ok dq w) ->
    dq_ok R dq' /\ ex_ok R depmap'.
  Proof.
    induction n as [|n IH]; intros cs dq depmap dq' depmap' H Hdq Hex Hcs.
    - destruct cs; simpl in H; [inversion H; subst; split; assumption | discriminate].
    - destruct cs as [|c cs]; [simpl in H; inversion H; subst; split; assumption|].
      cbn [phase1] in H.
      destruct (next_package R dq (c :: cs) (cook_str "") 0) as [next| | |] eqn:EN; cbn [rbind] in H; try discriminate.
      destruct (resolve_package R dq next) as [i| | |] eqn:ER; cbn [rbind] in H; try discriminate.
      destruct (disqualify_conflicts R i dq) as [dq1| | |] eqn:ED; cbn [rbind] in H; try discriminate.
      apply next_package_first in EN. destruct (Hcs next EN) as [Hpos Hcov].
      destruct (resolve_package_winner dq next i Hdq Hpos Hcov ER) as [Vi Wi].
      apply (IH _ _ _ _ _ H).
      + apply (disqualify_conflicts_dq_ok R (new_resolver_wf U) MF i dq dq1 (new_resolver_sound U) Vi Wi Hdq); [|exact ED]. intros pv Hpv. apply provider_listed; assumption.
      + apply (ex_ok_aset R depmap i Hex Vi Wi).
      + intros w Hw. apply filter_In in Hw. destruct Hw as [Hw _]. destruct (Hcs w Hw) as [A B]. split; [exact A|].
        eapply covered_mono; [exact B | eapply disqualify_conflicts_mono; exact ED].
  Qed.

  Lemma resolve_closure_m W dq0 S : world_ok R (List.map cook_dep W) -> dq_ok R dq0 -> resolve U W dq0 = Ok S ->
    winners R S /\ forall m, In m S -> Sat U S m.
  Proof.
    unfold resolve, resolve_with. intros HW Hdq0 H.
    destruct (constrain R (List.map cook_dep W) dq0) as [dq1| | |] eqn:EC; cbn [rbind] in H; try discriminate.
    destruct (phase1 _ R _ dq1 []) as [[dq2 depmap]| | |] eqn:E1; cbn [rbind] in H; try discriminate.
    assert (Hdq1 : dq_ok R dq1).
    { apply (constrain_dq_ok R (own_listed_v U) (List.map cook_dep W)) with (dq := dq0); [|exact Hdq0 | exact EC].
      intros d Hd. destruct (HW d Hd) as [A B]. unfold dep_ok_b. rewrite A. exact B. }
    assert (Hreq : forall w, In w (List.map d_pos (List.map cook_dep W)) -> req_ok dq1 w).
    { intros w Hw. apply in_map_iff in Hw. destruct Hw as [cd [<- Hcd]]. destruct (HW cd Hcd) as [A B]. split; [exact B|].
      intros providers req j X1 X2 X3 X4 X5. eapply (constrain_covers R _ _ _ EC cd); eassumption. }
    destruct (phase1_m _ _ _ _ _ _ E1 Hdq1) as [Hdq2 Hex2]; [intros x j E; discriminate | exact Hreq|].
    pose proof (phase1_mono _ _ _ _ _ _ _ E1) as M1.
    destruct (phase2_closure_m dq2 _ _ _ _ _ H (incl_refl _)) as [WS CS].
    - simpl. split; [constructor|]. split; [intros n; split; intros []|constructor].
    - intros n j E. discriminate.
    - exact Hdq2.
    - exact Hex2.
    - constructor.
    - intros w Hw. destruct (Hreq w Hw) as [A B]. split; [exact A | eapply covered_mono; eassumption].
    - split; [exact WS|]. intros m Hm. destruct (CS (fun n j E => ltac:(discriminate)) m Hm) as [[]|A]. exact A.
  Qed.
End TopM.

(* ---- the clauses of the Spec ----------------------------------------------------------------- *)
Lemma closed_multi_deps U W dq0 S :
  menvelope_b U W = true -> dq0_ok_b U dq0 = true -> resolve U W dq0 = Ok S ->
  (forall j, In j S -> is_winner (new_resolver U) j = true) /\
  forall p d, In p (pkgs_of U S) -> In d (p_deps p) -> is_conflict d = false -> satisfies_dep (pkgs_of U S) d.
Proof.
  intros HE HD H. destruct (menvelope_facts _ _ HE) as [MF HW]. apply dq_ok_b_spec in HD.
  destruct (resolve_closure_m U MF W dq0 S HW HD H) as [WS CS]. split; [apply Forall_forall; exact WS|].
  intros p d Hp Hd Hc. unfold pkgs_of in Hp. apply in_map_iff in Hp. destruct Hp as [m [<- Hm]].
  destruct (CS m Hm (cook_str d)) as [y [Hy Sy]].
  { rewrite getp_new_resolver. apply positive_deps_In. exists (cook_dep d). split; [|split; [apply d_neg_cook; exact Hc | reflexivity]].
    unfold cook_pkg; cbn [k_deps]. apply in_map. exact Hd. }
  exists (nth y U dummy_pkg). split; [unfold pkgs_of; apply in_map_iff; exists y; split; [reflexivity | exact Hy]|].
  apply pkg_satisfies_b_spec. rewrite <- getp_new_resolver. exact Sy.
Qed.

(* a request is satisfied by the member of the chosen candidate's name: that member is the
   winner of the name, and what the candidate passed the winner passes *)
Lemma closed_multi_requests U W dq0 S :
  menvelope_b U W = true -> dq0_ok_b U dq0 = true -> resolve U W dq0 = Ok S ->
  forall w, In w W -> satisfies_dep (pkgs_of U S) w.
Proof.
  intros HE HD H w Hw. set (R := new_resolver U) in *.
  destruct (menvelope_facts _ _ HE) as [MF HW]. fold R in MF, HW.
  destruct (closed_multi_deps U W dq0 S HE HD H) as [WS _]. fold R in WS.
  destruct (resolve_ok_c R W dq0 S (new_resolver_wf2 U) H) as [dq1 [HC HR]].
  destruct (HR w Hw) as [dq [i [H1 [H2 [j [H3 H4]]]]]].
  destruct (HW (cook_dep w) (in_map _ _ _ Hw)) as [Hneg Hpos]. cbn [cook_dep d_pos] in Hpos.
  unfold candidates in H2. destruct (alookup (s_name (cook_str w)) (r_names R)) as [l|] eqn:EL; [|contradiction].
  pose proof (filter_packages_sub _ _ _ _ _ H2) as [Hil Hindq].
  assert (Hw0l : In j l).
  { destruct (mf_entry R MF _ _ i EL Hil) as [[w0 [EW [Hw0l [Hn _]]]]|[Hall _]].
    - pose proof (is_winner_of R j (WS j H3)) as Ej. rewrite H4, EW in Ej. inversion Ej; subst w0. exact Hw0l.
    - rewrite (winner_uniq R j i (WS j H3) (Hall i Hil) H4). exact Hil. }
  assert (Vj : valid R j) by (eapply nm_lookup_valid; [apply (proj1 (new_resolver_wf U)) | exact EL | exact Hw0l]).
  exists (nth j U dummy_pkg). split; [unfold pkgs_of; apply in_map_iff; exists j; split; [reflexivity | exact H3]|].
  apply pkg_satisfies_b_spec. rewrite <- getp_new_resolver. fold R.
  destruct (s_dep (cook_str w) =? dep_versionAny)%Z eqn:ED.
  - apply sat_any_by_provider; [exact ED|]. apply (names_sound U _ _ _ EL Hw0l).
  - unfold positive_ok_b in Hpos. apply andb_true_iff in Hpos. destruct Hpos as [P1 P2].
    pose proof (versioned_names R _ l j P1 ED EL Hw0l) as Nj. pose proof (versioned_names R _ l i P1 ED EL Hil) as Ni.
    unfold filter_packages in H2. cbn [world_opts fo_dep fo_req] in H2. rewrite ED in H2.
    destruct (s_req (cook_str w)) as [req|] eqn:EQ; [|contradiction].
    unfold winner_passes_b in P2. rewrite ED, EQ, EL in P2. cbn [orb] in P2. rewrite <- Nj, (is_winner_of R j (WS j H3)) in P2.
    assert (Ci : constrain_provider (cook_str w) req (getp R i) = false).
    { destruct (constrain_provider (cook_str w) req (getp R i)) eqn:Ci; [|reflexivity]. exfalso. apply Hindq. apply H1.
      eapply (constrain_covers R _ _ _ HC (cook_dep w) l req i); try eassumption. apply in_map. exact Hw. }
    apply orb_true_iff in P2. destruct P2 as [P2|P2].
    + apply negb_true_iff in P2. unfold constrain_provider in P2. fold (nm R j) in P2. rewrite Nj, String.eqb_refl in P2.
      unfold pkg_satisfies_b. apply orb_true_iff. left. apply andb_true_iff. split; [apply String.eqb_eq; exact Nj|].
      unfold ver_ok_b. rewrite ED, EQ. cbn [orb]. destruct (k_ver (getp R j)) as [a|]; [|discriminate].
      apply negb_false_iff in P2. exact P2.
    + rewrite forallb_forall in P2. rewrite (P2 i Hil) in Ci. discriminate.
Qed.

Theorem closed_multi_lemma U W dq0 S :
  menvelope_b U W = true -> dq0_ok_b U dq0 = true -> resolve U W dq0 = Ok S ->
  Closed U W (pkgs_of U S) /\
  (forall j, In j S -> is_winner (new_resolver U) j = true) /\
  (forall w, In w W -> satisfies_dep (pkgs_of U S) w) /\
  (forall p d, In p (pkgs_of U S) -> In d (p_deps p) -> is_conflict d = false -> satisfies_dep (pkgs_of U S) d).
Proof.
  intros HE HD H. destruct (closed_multi_deps U W dq0 S HE HD H) as [A B].
  pose proof (closed_multi_requests U W dq0 S HE HD H) as C.
  split; [|split; [exact A | split; [exact C | exact B]]].
  constructor; [exact C | exact B | eapply nodup_lemma; exact H | eapply members_lemma; exact H].
Qed.
