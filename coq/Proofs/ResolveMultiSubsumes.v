(* C02: the envelope of c02_closed_partial (Spec.ResolveSpec.envelope_b: one provider per
   name) is a special case of the wider envelope of c02_closed_multi_version, for every
   initial disqualification set: c02_closed_multi_version implies c02_closed_partial. *)
From Apko Require Import Base.Prelude Base.Regex Generated.Regexes Generated.VersionConsts Generated.C03Version
  Model.Version Model.Resolver Spec.ResolveSpec Spec.ResolveMultiSpec
  Proofs.ResolveProofs Proofs.ResolveProofs2 Proofs.C14Proofs Proofs.ResolveTheorems Proofs.ResolveEnvelope
  Proofs.ResolveClosure Proofs.ResolveClosure2 Proofs.ResolveMulti Proofs.ResolveMulti2.
Open Scope string_scope. Open Scope list_scope. Open Scope nat_scope.

Section Subsumes.
  Variable U : universe.
  Variable W : list string.
  Local Notation R := (new_resolver U).
  Hypothesis HE : envelope_b U W = true.

  Let EF : env_facts R := envelope_facts U W HE.

  (* every ENTRY of the name map (not only the first of its key) is a singleton *)
  Lemma entries_single e : In e (r_names R) -> exists x, snd e = [x] /\ valid R x.
  Proof.
    intros He. pose proof HE as H. unfold envelope_b, envelope_c in H.
    apply andb_true_iff in H. destruct H as [H _]. apply andb_true_iff in H. destruct H as [H _].
    apply andb_true_iff in H. destruct H as [_ H]. rewrite forallb_forall in H. specialize (H e He).
    pose proof (proj1 (new_resolver_wf U)) as Hv. unfold nm_valid in Hv. rewrite Forall_forall in Hv. specialize (Hv _ He).
    destruct e as [n l]. cbn [snd] in *. destruct l as [|x [|y t]]; try discriminate. exists x. split; [reflexivity|].
    inversion Hv; subst. assumption.
  Qed.

  Lemma in_pkgs k : In k (r_pkgs R) -> exists j, valid R j /\ getp R j = k.
  Proof. intros H. destruct (In_nth _ _ dummy_cpkg H) as [j [Hj E]]. exists j. split; [exact Hj | exact E]. Qed.

  Lemma own_single j : valid R j -> alookup (nm R j) (r_names R) = Some [j].
  Proof.
    intros V. pose proof V as V'. apply valid_new in V'. destruct (own_listed U j V') as [l [E Hj]].
    destruct (ef_single _ EF _ _ E) as [x ->]. destruct Hj as [<-|[]]. exact E.
  Qed.

  Lemma single_winner j : valid R j -> winner_of R (nm R j) = Some j.
  Proof. intros V. unfold winner_of. rewrite (own_single j V). reflexivity. Qed.

  Lemma all_winners j : valid R j -> is_winner R j = true.
  Proof. intros V. unfold is_winner. fold (nm R j). rewrite (single_winner j V). apply Nat.eqb_refl. Qed.

  Lemma clause_iif : m_iif_b R = true.
  Proof.
    unfold m_iif_b. apply forallb_forall. intros k Hk. rewrite (ef_no_iif _ EF k Hk). reflexivity.
  Qed.

  Lemma clause_selfdep : m_selfdep_b R = true.
  Proof.
    unfold m_selfdep_b. apply forallb_forall. intros k Hk. apply forallb_forall. intros d Hd. unfold on_positive.
    destruct (d_neg d) eqn:En; [reflexivity|]. apply negb_true_iff. apply (ef_no_self_dep _ EF k d Hk Hd En).
  Qed.

  Lemma clause_virtual : m_virtual_b R = true.
  Proof.
    unfold m_virtual_b. apply forallb_forall. intros k Hk. apply forallb_forall. intros pv Hpv.
    apply negb_true_iff. destruct (existsb (fun k' => String.eqb (k_name k') (s_name pv)) (r_pkgs R)) eqn:E; [|reflexivity]. exfalso.
    apply existsb_exists in E. destruct E as [k' [Hk' En]]. apply String.eqb_eq in En.
    destruct (in_pkgs k Hk) as [j [Vj Ej]]. destruct (in_pkgs k' Hk') as [j' [Vj' Ej']]. subst k k'.
    destruct (provider_listed U j pv Vj Hpv) as [l [El Hjl]].
    pose proof (own_single j' Vj') as E'. unfold nm in E'. rewrite En, El in E'. inversion E'; subst l. destruct Hjl as [<-|[]].
    apply (ef_no_self_provide _ EF _ pv (getp_in _ _ Vj) Hpv). symmetry. exact En.
  Qed.

  Lemma clause_entries : m_entries_b R = true.
  Proof.
    unfold m_entries_b. apply forallb_forall. intros e He. unfold m_entry_b. apply orb_true_iff. left.
    destruct (entries_single e He) as [x [Ex Vx]]. unfold m_entry_one_name_b. rewrite Ex. cbn [forallb].
    unfold same_name. rewrite String.eqb_refl. cbn [andb]. fold (nm R x). rewrite (single_winner x Vx).
    cbn [mem_pid existsb]. rewrite Nat.eqb_refl. reflexivity.
  Qed.

  Lemma clause_siblings : m_siblings_b R = true.
  Proof.
    unfold m_siblings_b. apply forallb_forall. intros i Hi. apply forallb_forall. intros j Hj.
    apply all_pids_In in Hi. apply all_pids_In in Hj.
    destruct (Nat.eqb i j) eqn:E; [reflexivity|]. cbn [orb].
    destruct (same_name R i j) eqn:Es; [|reflexivity]. exfalso. unfold same_name in Es. apply String.eqb_eq in Es.
    apply Nat.eqb_neq in E. apply E. apply (uniq U i j EF Hi Hj). exact Es.
  Qed.

  (* a versioned constraint on a real name: the key lists the one package of that name, the winner *)
  Lemma real_key c : versioned_on_real_b R c = true -> (s_dep c =? dep_versionAny)%Z = false ->
    forall l, alookup (s_name c) (r_names R) = Some l -> exists x, l = [x] /\ valid R x /\ nm R x = s_name c /\ winner_of R (s_name c) = Some x.
  Proof.
    intros H Hd l E. unfold versioned_on_real_b in H. rewrite Hd, E in H. cbn [orb] in H.
    destruct l as [|x [|y t]]; try discriminate. apply String.eqb_eq in H. exists x. split; [reflexivity|].
    assert (V : valid R x) by (eapply nm_lookup_valid; [apply (proj1 (new_resolver_wf U)) | exact E | left; reflexivity]).
    split; [exact V|]. split; [exact H|]. rewrite <- H. apply single_winner. exact V.
  Qed.

  Lemma positive_from_real c : versioned_on_real_b R c = true -> versioned_on_names_b R c = true /\ winner_passes_b R c = true.
  Proof.
    intros H. unfold versioned_on_names_b, winner_passes_b. destruct (s_dep c =? dep_versionAny)%Z eqn:Hd; [split; reflexivity|]. cbn [orb].
    destruct (alookup (s_name c) (r_names R)) as [l|] eqn:E.
    - destruct (real_key c H Hd l E) as [x [-> [V [N Wn]]]]. split.
      + cbn [forallb]. unfold nm in N. rewrite N, String.eqb_refl. reflexivity.
      + destruct (s_req c) as [req|]; [|reflexivity]. rewrite Wn. cbn [forallb].
        destruct (constrain_provider c req (getp R x)); reflexivity.
    - split; [reflexivity|]. destruct (s_req c); reflexivity.
  Qed.

  Lemma clause_conflict c : conflict_uniform_b R c = true.
  Proof.
    unfold conflict_uniform_b. destruct (alookup (s_name c) (r_names R)) as [l|] eqn:E; [|reflexivity].
    apply forallb_forall. intros j Hj.
    destruct (is_winner R j); [|reflexivity]. destruct (hit R c j) eqn:Hh; [|reflexivity]. cbn [negb orb].
    assert (Vj : valid R j) by (eapply nm_lookup_valid; [apply (proj1 (new_resolver_wf U)) | exact E | exact Hj]).
    apply forallb_forall. intros y Hy. apply all_pids_In in Hy.
    destruct (same_name R y j) eqn:Es; [|reflexivity]. cbn [negb orb]. unfold same_name in Es. apply String.eqb_eq in Es.
    rewrite (uniq U y j EF Hy Vj Es). rewrite Hh. apply andb_true_iff. split; [apply mem_pid_In; exact Hj | reflexivity].
  Qed.

  Lemma envelope_in_multi : menvelope_b U W = true.
  Proof.
    unfold menvelope_b, menvelope_c, m_clauses. cbn [forallb snd].
    rewrite clause_iif, clause_selfdep, clause_virtual, clause_entries, clause_siblings. cbn [andb].
    pose proof HE as H. unfold envelope_b, envelope_c in H.
    apply andb_true_iff in H. destruct H as [H A5]. apply andb_true_iff in H. destruct H as [_ A4].
    rewrite forallb_forall in A4, A5.
    assert (P : forall d, In d (all_deps R (List.map cook_dep W)) -> d_neg d = None -> versioned_on_real_b R (d_pos d) = true).
    { intros d Hd Hn. unfold all_deps in Hd. apply in_app_or in Hd. destruct Hd as [Hd|Hd].
      - apply in_flat_map in Hd. destruct Hd as [k [Hk Hd]]. specialize (A4 k Hk). rewrite forallb_forall in A4. specialize (A4 d Hd).
        rewrite Hn in A4. exact A4.
      - specialize (A5 d Hd). rewrite Hn in A5. exact A5. }
    repeat (apply andb_true_iff; split).
    - apply forallb_forall. intros d Hd. unfold on_positive. destruct (d_neg d) eqn:En; [reflexivity|]. apply (positive_from_real _ (P d Hd En)).
    - apply forallb_forall. intros d Hd. unfold on_positive. destruct (d_neg d) eqn:En; [reflexivity|]. apply (positive_from_real _ (P d Hd En)).
    - apply forallb_forall. intros d Hd. destruct (d_neg d); [apply clause_conflict | reflexivity].
    - apply forallb_forall. intros d Hd. specialize (A5 d Hd). destruct (d_neg d); [discriminate | reflexivity].
    - reflexivity.
  Qed.

  Lemma any_dq0_ok dq0 : dq0_ok_b U dq0 = true.
  Proof.
    unfold dq0_ok_b, dq_ok_b. apply forallb_forall. intros j Hj. destruct (is_winner R j) eqn:Wj; [|reflexivity]. cbn [negb orb].
    apply forallb_forall. intros y Hy. apply all_pids_In in Hy.
    destruct (same_name R y j) eqn:Es; [|reflexivity]. cbn [negb orb]. unfold same_name in Es. apply String.eqb_eq in Es.
    (* a winner is valid: it is listed under its own name *)
    assert (Vj : valid R j).
    { unfold is_winner in Wj. destruct (winner_of R (k_name (getp R j))) as [w|] eqn:EW; [|discriminate]. apply Nat.eqb_eq in Wj. subst w.
      unfold winner_of in EW. destruct (alookup (k_name (getp R j)) (r_names R)) as [l|] eqn:EL; [|discriminate].
      apply best_package_In in EW. eapply nm_lookup_valid; [apply (proj1 (new_resolver_wf U)) | exact EL | exact EW]. }
    rewrite (uniq U y j EF Hy Vj Es). apply mem_pid_In. exact Hj.
  Qed.
End Subsumes.

(* c02_closed_partial's conclusion about closure follows from c02_closed_multi_version *)
Theorem partial_from_multi U W dq0 S : envelope_b U W = true -> resolve U W dq0 = Ok S ->
  menvelope_b U W = true /\ dq0_ok_b U dq0 = true /\ Closed U W (pkgs_of U S).
Proof.
  intros HE H. pose proof (envelope_in_multi U W HE) as HM. pose proof (any_dq0_ok U W HE dq0) as HD.
  split; [exact HM|]. split; [exact HD|]. exact (proj1 (closed_multi_lemma U W dq0 S HM HD H)).
Qed.

Lemma old_envelope_special_case U W : envelope_b U W = true -> menvelope_b U W = true /\ forall dq0, dq0_ok_b U dq0 = true.
Proof. intros HE. split; [exact (envelope_in_multi U W HE) | exact (any_dq0_ok U W HE)]. Qed.
