(* C02: the clauses of the wider envelope (Spec.ResolveMultiSpec.m_clauses) that are
   NECESSARY: for each, a universe and a world on which that clause alone fails and the
   successful result is not closed.  Every witness is a replay of a recorded finding
   (C02-F1, F1b, F1c, F2, F4, F5) on the real code (harness corpus).

   position  clause                                                   witness
   0         no install_if                                            U_F2   (C02-F2)
   3         every key lists one name, its winner, beating the rest   U_F1c  (C02-F1c: the winner d=2.0 is not listed under l)
   4         siblings share the origin and are not pinned             U_F1o  (C02-F1 through the origin preference of comparePackages)
                                                                      U_F1p  (C02-F1 through a sibling in a pinned repository)
   5         version operators only on package names                  U_F4   (C02-F4)
   6         the winner passes every versioned constraint on its name U_F1, U_F5, U_F1b

   Not known to be necessary (kept because the proof uses them; see notes/C02.md):
   1 (no dependency on a self-provided name: where it matters — C02-F3 — clause 5 fails too),
   2 (a provided name is no package name: then clause 3 or 5 fails too),
   7 (conflict entries uniform over the versions of a name: needed for "every member is the
      winner of its name", no effect on closure found), 8 (a "!name" request never resolves). *)
From Apko Require Import Base.Prelude Generated.VersionConsts Model.Version Model.Resolver Spec.ResolveSpec Spec.ResolveMultiSpec
  Proofs.ResolveProofs Proofs.ResolveProofs2 Proofs.ResolveTheorems.
Open Scope string_scope. Open Scope list_scope. Open Scope nat_scope.

Definition clause_values (U : universe) (W : list string) : list bool :=
  List.map snd (m_clauses (new_resolver U) (List.map cook_dep W)).
(* exactly the clause at position k fails *)
Definition fails_exactly (U : universe) (W : list string) (k : nat) : Prop :=
  clause_values U W = List.map (fun i => negb (Nat.eqb i k)) (seq 0 9).

Definition wpo (n v origin pin : string) (deps provs : list string) : pkg :=
  {| p_name := n; p_version := v; p_origin := origin; p_deps := deps; p_provides := provs; p_install_if := [];
     p_prio := 0%N; p_pin := pin; p_repo := "https://repo0.example/x86_64" |}.

(* C02-F1b *)
Definition U_F1b : universe :=
  [wp "a" "1.0" ["y<2"] [] []; wp "b" "1.0" ["x"] [] []; wp "y" "1.0" [] [] []; wp "y" "2.0" [] ["x"] []].
(* C02-F1 through the origin preference: m -> z, c;  z -> y (origin o1);  c=1.0 has origin o1, c=2.0 origin o2;
   n -> c>1.5.  z is expanded first (fewer candidates), y's origin joins existingOrigins, c=1.0 is preferred for m;
   n then needs c=2.0, which the de-duplication drops *)
Definition U_F1o : universe :=
  [wpo "m" "1" "m" "" ["z"; "c"] []; wpo "n" "1" "n" "" ["c>1.5"] []; wpo "z" "1" "z" "" ["y"] [];
   wpo "y" "1" "o1" "" [] []; wpo "c" "1.0" "o1" "" [] []; wpo "c" "2.0" "o2" "" [] []].
(* C02-F1 through a pinned sibling: c=1.0 lives in the repository pinned as @edge, c=2.0 is not pinned;
   the request c@edge prefers the pinned c=1.0, n needs c=2.0, which is dropped *)
Definition U_F1p : universe :=
  [wpo "n" "1" "n" "" ["c>1.5"] []; wpo "c" "1.0" "c" "edge" [] []; wpo "c" "2.0" "c" "" [] []].

Lemma clauses_necessary_lemma :
  (fails_exactly U_F2 ["w"] 0 /\ refutes U_F2 ["w"] "dep-unsat/install-if-member") /\
  (fails_exactly U_F1c ["k"] 3 /\ request_refutes U_F1c ["k"] "k" "request-unsat/sibling-of-member") /\
  (fails_exactly U_F1o ["m"; "n"] 4 /\ refutes U_F1o ["m"; "n"] "dep-unsat/same-name-other-version") /\
  (fails_exactly U_F1p ["c@edge"; "n"] 4 /\ refutes U_F1p ["c@edge"; "n"] "dep-unsat/same-name-other-version") /\
  (fails_exactly U_F4 ["b"; "a"] 5 /\ refutes U_F4 ["b"; "a"] "dep-unsat/provider-other-version") /\
  (fails_exactly U_F1 ["a"; "b"] 6 /\ refutes U_F1 ["a"; "b"] "dep-unsat/same-name-other-version") /\
  (fails_exactly U_F5 ["d"] 6 /\ refutes U_F5 ["d"] "dep-unsat/absent") /\
  (fails_exactly U_F1b ["b"; "a"] 6 /\ refutes U_F1b ["b"; "a"] "dep-unsat/same-name-other-version").
Proof.
  assert (V : forall U W k, clause_values U W = List.map (fun i => negb (Nat.eqb i k)) (seq 0 9) -> fails_exactly U W k) by (intros; assumption).
  split; [split; [apply V; vm_compute; reflexivity | exact refuted_F2]|].
  split; [split; [apply V; vm_compute; reflexivity | exact (proj1 request_unsat_refuted_lemma)]|].
  split; [split; [apply V; vm_compute; reflexivity|]|].
  { apply (refute_by_check _ _ [3; 2; 4; 0; 1]); vm_compute; [reflexivity | left; reflexivity]. }
  split; [split; [apply V; vm_compute; reflexivity|]|].
  { apply (refute_by_check _ _ [1; 0]); vm_compute; [reflexivity | left; reflexivity]. }
  split; [split; [apply V; vm_compute; reflexivity | exact refuted_F4]|].
  split; [split; [apply V; vm_compute; reflexivity | exact refuted_F1]|].
  split; [split; [apply V; vm_compute; reflexivity | exact refuted_F5]|].
  split; [apply V; vm_compute; reflexivity|].
  apply (refute_by_check _ _ [3; 1; 0]); vm_compute; [reflexivity | left; reflexivity].
Qed.

(* the hypotheses of closed_multi_lemma are satisfiable by a universe well outside the old envelope:
   four versions of c (two of them sharing the provide v=1, one providing v=2), a versioned
   dependency and a versioned request on c, a virtual listed under several versions, a cycle
   c=5.0 -> b -> c, a conflict entry, a package (c=6.0_rc1) that nothing selects *)
Definition U_multi : universe :=
  [wp "a" "1.0" ["c>2"; "v"] [] []; wp "b" "1.0" ["c>=3"; "c"] [] []; wp "c" "1.0" [] ["v=1"] []; wp "c" "3.0" [] ["v=1"] [];
   wp "c" "5.0" ["b"; "!zz"] ["v=2"] []; wp "c" "4.0_rc1" [] [] []].
Lemma multi_example :
  menvelope_b U_multi ["a"; "b"; "c<9"] = true /\ envelope_b U_multi ["a"; "b"; "c<9"] = false /\
  dq0_ok_b U_multi [] = true /\ resolve U_multi ["a"; "b"; "c<9"] [] = Ok [1; 4; 0] /\
  closed_b U_multi ["a"; "b"; "c<9"] (pkgs_of U_multi [1; 4; 0]) = true.
Proof.
  split; [vm_compute; reflexivity|]. split; [vm_compute; reflexivity|]. split; [vm_compute; reflexivity|].
  split; vm_compute; reflexivity.
Qed.

(* ... and a pure virtual with three provider NAMES of different priorities (busybox, the highest, is
   chosen for app; tool also wants bash itself), next to a name with two versions *)
Definition wpr (n v : string) (prio : N) (deps provs : list string) : pkg :=
  {| p_name := n; p_version := v; p_origin := n; p_deps := deps; p_provides := provs; p_install_if := [];
     p_prio := prio; p_pin := ""; p_repo := "https://repo0.example/x86_64" |}.
Definition U_virtual : universe :=
  [wpr "app" "1" 0 ["sh"; "c>1"] []; wpr "bash" "5.0" 10 [] ["sh"]; wpr "busybox" "1.0" 20 ["c"] ["sh"]; wpr "dash" "0.5" 0 [] ["sh"];
   wpr "dash" "0.4" 0 [] []; wpr "c" "1.0" 0 [] []; wpr "c" "2.0" 0 [] []; wpr "tool" "1" 0 ["sh"; "bash"] []].
Lemma virtual_example :
  menvelope_b U_virtual ["tool"; "app"; "sh"] = true /\ envelope_b U_virtual ["tool"; "app"; "sh"] = false /\
  resolve U_virtual ["tool"; "app"; "sh"] [] = Ok [1; 6; 2; 7; 0] /\
  closed_b U_virtual ["tool"; "app"; "sh"] (pkgs_of U_virtual [1; 6; 2; 7; 0]) = true.
Proof.
  split; [vm_compute; reflexivity|]. split; [vm_compute; reflexivity|]. split; vm_compute; reflexivity.
Qed.
