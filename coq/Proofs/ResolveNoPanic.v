(* C02: the panic at the end of conflictingVersion ("called with a package that
   does not provide the constraint") is unreachable: every package listed under
   a name in the name map is named so or provides it. *)
From Apko Require Import Base.Prelude Generated.VersionConsts Model.Version Model.Resolver Spec.ResolveSpec
  Proofs.ResolveProofs Proofs.ResolveProofs2 Proofs.C14Proofs Proofs.ResolveTheorems Proofs.ResolveEnvelope.
Open Scope string_scope. Open Scope list_scope. Open Scope nat_scope.

Definition sound (R : resolver) : Prop := forall n l j, alookup n (r_names R) = Some l -> In j l ->
  k_name (getp R j) = n \/ provides_name (getp R j) n.

Lemma new_resolver_sound U : sound (new_resolver U).
Proof. intros n l j. apply names_sound. Qed.

Lemma conflicting_version_some c k : k_name k = c_name c \/ provides_name k (c_name c) -> conflicting_version c k <> None.
Proof.
  intros H. unfold conflicting_version. destruct (negb (String.eqb (c_version c) "")); [discriminate|].
  destruct (String.eqb (k_name k) (c_name c)) eqn:E; [discriminate|].
  destruct H as [H|[pv [Hpv Hn]]]; [apply String.eqb_neq in E; contradiction|].
  destruct (List.find (fun pv => String.eqb (s_name pv) (c_name c)) (k_provs k)) eqn:F; [discriminate|].
  exfalso. apply (find_none _ _ F) in Hpv. simpl in Hpv. rewrite Hn, String.eqb_refl in Hpv. discriminate.
Qed.

Lemma fold_res_np {A B} (f : A -> B -> res A) (l : list B) :
  (forall a b, In b l -> f a b <> Panic) -> forall acc, acc <> Panic ->
  fold_left (fun acc b => do a <- acc; f a b) l acc <> Panic.
Proof.
  induction l as [|b l IH]; intros Hf acc Ha; [exact Ha|]. simpl. apply IH.
  - intros a b' Hb'. apply Hf. right. exact Hb'.
  - destruct acc; simpl; [apply Hf; left; reflexivity | discriminate | congruence | discriminate].
Qed.

Lemma disqualify_conflicts_np R i dq : sound R -> disqualify_conflicts R i dq <> Panic.
Proof.
  intros HS. unfold disqualify_conflicts.
  apply (fold_res_np (fun dq pv => match alookup (s_name pv) (r_names R) with
     | None => Ok dq | Some providers => fold_left _ providers (Ok dq) end)); [|discriminate].
  intros a pv _. destruct (alookup (s_name pv) (r_names R)) as [providers|] eqn:EL; [|discriminate].
  apply (fold_res_np (fun dq j => if Nat.eqb j i then Ok dq else if mem_pid j dq then Ok dq
     else match conflicting_version (s_c pv) (getp R j) with None => Panic | Some false => Ok dq | Some true => Ok (j :: dq) end)); [|discriminate].
  intros d j Hj. destruct (Nat.eqb j i); [discriminate|]. destruct (mem_pid j d); [discriminate|].
  pose proof (conflicting_version_some (s_c pv) (getp R j) (HS _ _ _ EL Hj)) as NN.
  destruct (conflicting_version (s_c pv) (getp R j)) as [[|]|]; [discriminate | discriminate | congruence].
Qed.

Lemma constrain_np R cs dq : constrain R cs dq <> Panic.
Proof.
  unfold constrain. apply (fold_res_np (fun dq d => match d_neg d with
           | Some rest => Ok (disqualify_providers R rest dq)
           | None => if (s_dep (d_pos d) =? dep_versionAny)%Z then Ok dq else
               match alookup (s_name (d_pos d)) (r_names R) with
               | None => Ok dq
               | Some providers => match s_req (d_pos d) with
                                   | None => Err
                                   | Some req => Ok (fold_left _ providers dq) end end end)); [|discriminate].
  intros a d _. destruct (d_neg d); [discriminate|]. destruct (s_dep (d_pos d) =? dep_versionAny)%Z; [discriminate|].
  destruct (alookup (s_name (d_pos d)) (r_names R)); [|discriminate]. destruct (s_req (d_pos d)); discriminate.
Qed.

Lemma pick_provs_np i provs : forall sel, pick_provs i provs sel <> Panic.
Proof.
  induction provs as [|pv t IH]; intros sel; simpl; [discriminate|].
  destruct (ahas (s_name pv) sel); [discriminate|]. destruct (String.eqb (s_version pv) ""); apply IH.
Qed.
Lemma pick_np R i sel : pick R i sel <> Panic.
Proof.
  unfold pick. destruct (alookup (k_name (getp R i)) sel); [destruct (Nat.eqb p i); discriminate | apply pick_provs_np].
Qed.

Lemma deps_loop_np R rec self pin parents : sound R ->
  (forall best p ps st, rec best p ps st <> Panic) ->
  forall n cs st acc, deps_loop R rec self pin parents n cs st acc <> Panic.
Proof.
  intros HS Hrec. induction n as [|n IH]; intros cs st acc; [destruct cs; simpl; discriminate|].
  destruct cs as [|c0 cs0]; [simpl; discriminate|]. cbn [deps_loop]. remember (c0 :: cs0) as cs.
  destruct (eval_all R st (getp R self) pin cs []) as [opts|]; [|discriminate].
  destruct (lowest opts) as [[d cands]|]; [|discriminate].
  destruct (best_package R (s_name d) (st_existing st) (st_origins st) "" cands) as [best|]; [|discriminate].
  pose proof (disqualify_conflicts_np R best (st_dq st) HS) as ND.
  destruct (disqualify_conflicts R best (st_dq st)) as [dq1| | |]; cbn [rbind]; try discriminate; [|congruence].
  pose proof (pick_np R self (st_selected st)) as NP.
  destruct (pick R self (st_selected st)) as [sel1| | |]; cbn [rbind]; try discriminate; [|congruence].
  pose proof (Hrec best pin (k_name (getp R self) :: parents) (with_selected (with_dq st dq1) sel1)) as NR.
  destruct (rec best pin (k_name (getp R self) :: parents) (with_selected (with_dq st dq1) sel1)) as [[st2 sub]| | |];
    cbn [rbind]; try discriminate; [|congruence].
  apply IH.
Qed.

Lemma get_deps_np R : sound R -> forall fuel i pin parents st, get_deps fuel R i pin parents st <> Panic.
Proof.
  intros HS. induction fuel as [|f IH]; intros i pin parents st; [simpl; discriminate|].
  cbn [get_deps]. destruct (mem_str (k_name (getp R i)) parents); [discriminate|].
  pose proof (constrain_np R (k_deps (getp R i)) (st_dq st)) as NC.
  destruct (constrain R (k_deps (getp R i)) (st_dq st)) as [dq1| | |]; cbn [rbind]; try discriminate; [|congruence].
  apply deps_loop_np; [exact HS | exact IH].
Qed.

Lemma next_package_np R dq : forall cs next least, next_package R dq cs next least <> Panic.
Proof.
  induction cs as [|w t IH]; simpl; intros next least; [discriminate|].
  destruct (List.length (candidates R dq w)); [discriminate|].
  destruct (String.eqb (s_raw next) ""); [apply IH|]. destruct (Nat.ltb (S n) least); apply IH.
Qed.

Lemma phase1_np R : sound R -> forall n cs dq depmap, phase1 n R cs dq depmap <> Panic.
Proof.
  intros HS. induction n as [|n IH]; intros cs dq depmap; [destruct cs; simpl; discriminate|].
  destruct cs as [|c cs]; [simpl; discriminate|]. cbn [phase1].
  pose proof (next_package_np R dq (c :: cs) (cook_str "") 0) as NN.
  destruct (next_package R dq (c :: cs) (cook_str "") 0) as [next| | |]; cbn [rbind]; try discriminate; [|congruence].
  unfold resolve_package.
  destruct (best_package R (s_name next) [] [] (s_pin next) (candidates R dq next)); cbn [rbind]; [|discriminate].
  pose proof (disqualify_conflicts_np R p dq HS) as ND.
  destruct (disqualify_conflicts R p dq) as [dq1| | |]; cbn [rbind]; try discriminate; [|congruence].
  apply IH.
Qed.

Lemma iif_loop_np R : forall fuel i deps added, iif_loop fuel R i deps added <> Panic.
Proof.
  induction fuel as [|f IH]; intros i deps added; cbn [iif_loop]; destruct (nth_error deps i); try discriminate.
  destruct (iif_visit R p added) as [news added']. apply IH.
Qed.

Lemma iif_loop_not_err R : forall fuel i deps added, iif_loop fuel R i deps added <> Err.
Proof.
  induction fuel as [|f IH]; intros i deps added; cbn [iif_loop]; destruct (nth_error deps i); try discriminate.
  destruct (iif_visit R p added) as [news added']. apply IH.
Qed.

Lemma phase2_np R : sound R -> forall ws dq sel acc, phase2 R ws dq sel acc <> Panic.
Proof.
  intros HS. induction ws as [|w ws IH]; intros dq sel acc; [simpl; discriminate|].
  cbn [phase2]. unfold get_pkg, get_pkg_core, resolve_package.
  destruct (best_package R (s_name w) [] [] (s_pin w) (candidates R dq w)) as [i|]; cbn [rbind]; [|discriminate].
  pose proof (get_deps_np R HS (fuel_bound R) i (s_pin w) []
      {| st_dq := dq; st_selected := sel; st_existing := snd acc; st_origins := initial_origins R (snd acc) |}) as NG.
  destruct (get_deps (fuel_bound R) R i (s_pin w) [] _) as [[st' ds]| | |]; cbn [rbind]; try discriminate; [|congruence].
  destruct (dedup_by_name R ds) as [l added]. cbn [rbind].
  pose proof (iif_loop_np R (fuel_bound R) 0 l added) as NI.
  destruct (iif_loop (fuel_bound R) R 0 l added) as [deps| | |]; cbn [rbind]; try discriminate; [|congruence].
  apply IH.
Qed.

Theorem resolve_no_panic U W dq0 : resolve U W dq0 <> Panic.
Proof.
  unfold resolve, resolve_with. pose proof (new_resolver_sound U) as HS. set (R := new_resolver U) in *.
  pose proof (constrain_np R (List.map cook_dep W) dq0) as NC.
  destruct (constrain R (List.map cook_dep W) dq0) as [dq1| | |]; cbn [rbind]; try discriminate; [|congruence].
  pose proof (phase1_np R HS (List.length (List.map d_pos (List.map cook_dep W))) (List.map d_pos (List.map cook_dep W)) dq1 []) as N1.
  destruct (phase1 _ R _ dq1 []) as [[dq2 depmap]| | |]; cbn [rbind]; try discriminate; [|congruence].
  apply phase2_np. exact HS.
Qed.
