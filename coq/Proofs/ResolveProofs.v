(* C02 / C14 proofs, part 1: the validator decides the specification; name-map
   well-formedness; the invariant of the dependency walk (disqualification only
   grows, every returned package is a package of the universe that was not
   disqualified when the walk started); no duplicates; termination. *)
From Apko Require Import Base.Prelude Generated.VersionConsts Model.Version Model.Resolver Spec.ResolveSpec.
Open Scope string_scope. Open Scope list_scope. Open Scope nat_scope.

(* ---- booleans ---------------------------------------------------------------- *)
Lemma mem_str_In s l : mem_str s l = true <-> In s l.
Proof.
  unfold mem_str. rewrite existsb_exists. split.
  - intros [x [Hx E]]. apply String.eqb_eq in E. subst. exact Hx.
  - intros H. exists s. split; [exact H | apply String.eqb_refl].
Qed.
Lemma mem_pid_In i l : mem_pid i l = true <-> In i l.
Proof.
  unfold mem_pid. rewrite existsb_exists. split.
  - intros [x [Hx E]]. apply Nat.eqb_eq in E. subst. exact Hx.
  - intros H. exists i. split; [exact H | apply Nat.eqb_refl].
Qed.
Lemma mem_pid_false i l : mem_pid i l = false <-> ~ In i l.
Proof. rewrite <- mem_pid_In. destruct (mem_pid i l); split; congruence. Qed.

Lemma flat_map_nil {A B} (f : A -> list B) l : flat_map f l = [] <-> forall x, In x l -> f x = [].
Proof.
  induction l as [|a l IH]; simpl.
  - split; [intros _ x [] | reflexivity].
  - split.
    + intros E x [->|Hx]; apply app_eq_nil in E; destruct E as [E1 E2]; [exact E1 | apply IH; assumption].
    + intros H. rewrite (H a (or_introl eq_refl)). simpl. apply IH. intros x Hx. apply H. right. exact Hx.
Qed.

(* ---- validator = specification ------------------------------------------------- *)
Lemma ver_ok_b_spec d v : ver_ok_b (cook_str d) (parse_version v) = true <-> ver_ok (resolve_constraint d) v.
Proof.
  unfold ver_ok_b, ver_ok, s_dep, cook_str; cbn [s_c s_req]. rewrite orb_true_iff, Z.eqb_eq. split.
  - intros [E|E]; [left; exact E|]. right.
    destruct (parse_version v) as [a|]; [|discriminate].
    destruct (parse_version (c_version (resolve_constraint d))) as [r|]; [|discriminate].
    exists a, r. auto.
  - intros [E|[a [r [E1 [E2 E3]]]]]; [left; exact E|]. right. rewrite E1, E2. exact E3.
Qed.

Lemma pkg_satisfies_b_spec d p : pkg_satisfies_b (cook_str d) (cook_pkg p) = true <-> pkg_satisfies (resolve_constraint d) p.
Proof.
  unfold pkg_satisfies_b, pkg_satisfies. rewrite orb_true_iff, andb_true_iff, existsb_exists.
  unfold k_name, cook_pkg; cbn [k_pkg k_ver k_provs]. split.
  - intros [[E1 E2]|[pv [Hin E]]].
    + left. apply String.eqb_eq in E1. split; [exact E1|]. apply ver_ok_b_spec. exact E2.
    + right. apply in_map_iff in Hin. destruct Hin as [prov [<- Hin]]. exists prov. split; [exact Hin|].
      unfold provide_ok_b in E. apply andb_true_iff in E. destruct E as [E1 E2]. apply String.eqb_eq in E1.
      split; [exact E1|]. apply ver_ok_b_spec. exact E2.
  - intros [[E1 E2]|[prov [Hin [E1 E2]]]].
    + left. split; [apply String.eqb_eq; exact E1 | apply ver_ok_b_spec; exact E2].
    + right. exists (cook_str prov). split; [apply in_map; exact Hin|].
      unfold provide_ok_b. apply andb_true_iff. split; [apply String.eqb_eq; exact E1|].
      apply (proj2 (ver_ok_b_spec d (c_version (resolve_constraint prov)))). exact E2.
Qed.

Lemma satisfies_dep_b_spec S d : satisfies_dep_b (List.map cook_pkg S) (cook_str d) = true <-> satisfies_dep S d.
Proof.
  unfold satisfies_dep_b, satisfies_dep. rewrite existsb_exists. split.
  - intros [k [Hin E]]. apply in_map_iff in Hin. destruct Hin as [p [<- Hin]]. exists p. split; [exact Hin|].
    apply pkg_satisfies_b_spec. exact E.
  - intros [p [Hin E]]. exists (cook_pkg p). split; [apply in_map; exact Hin | apply pkg_satisfies_b_spec; exact E].
Qed.

Lemma nodup_b_spec l : nodup_b l = true <-> NoDup l.
Proof.
  induction l as [|x t IH]; simpl.
  - split; [constructor | reflexivity].
  - rewrite andb_true_iff, negb_true_iff, IH. split.
    + intros [E1 E2]. constructor; [|exact E2]. intro H. apply mem_str_In in H. congruence.
    + intros H. inversion H as [|? ? Hn Hd]; subst. split; [|exact Hd].
      destruct (mem_str x t) eqn:E; [|reflexivity]. apply mem_str_In in E. contradiction.
Qed.

Lemma string_list_eqb_spec a b : list_eqb String.eqb a b = true <-> a = b.
Proof. apply list_eqb_spec. intros x y. apply String.eqb_eq. Qed.

Lemma pkg_eqb_spec a b : pkg_eqb a b = true <-> a = b.
Proof.
  unfold pkg_eqb. repeat rewrite andb_true_iff. repeat rewrite String.eqb_eq.
  repeat rewrite string_list_eqb_spec. rewrite N.eqb_eq. split.
  - intros [[[[[[[[E1 E2] E3] E4] E5] E6] E7] E8] E9]. destruct a, b; simpl in *; congruence.
  - intros ->. repeat split; reflexivity.
Qed.

Lemma d_neg_cook d : d_neg (cook_dep d) = None <-> is_conflict d = false.
Proof.
  unfold cook_dep, is_conflict; cbn [d_neg]. destruct (bang_rest d); simpl; split; congruence.
Qed.

Lemma names_cooked S : List.map k_name (List.map cook_pkg S) = List.map p_name S.
Proof. rewrite map_map. apply map_ext. reflexivity. Qed.

Theorem closed_check_spec U W S : closed_check U W S = [] <-> Closed U W S.
Proof.
  unfold closed_check, closed_check_c. split.
  - intros E. apply app_eq_nil in E. destruct E as [E1 E]. apply app_eq_nil in E. destruct E as [E2 E].
    apply app_eq_nil in E. destruct E as [E3 E4]. constructor.
    + intros w Hw. rewrite flat_map_nil in E1. specialize (E1 (cook_str w) (in_map _ _ _ Hw)).
      destruct (satisfies_dep_b (List.map cook_pkg S) (cook_str w)) eqn:B; [|discriminate].
      apply satisfies_dep_b_spec. exact B.
    + intros p d Hp Hd Hc. rewrite flat_map_nil in E2. specialize (E2 (cook_pkg p) (in_map _ _ _ Hp)).
      rewrite flat_map_nil in E2. unfold cook_pkg in E2 at 1; cbn [k_deps] in E2.
      specialize (E2 (cook_dep d) (in_map _ _ _ Hd)).
      rewrite (proj2 (d_neg_cook d) Hc) in E2. unfold cook_dep in E2; cbn [d_pos] in E2.
      destruct (satisfies_dep_b (List.map cook_pkg S) (cook_str d)) eqn:B; [|discriminate].
      apply satisfies_dep_b_spec. exact B.
    + destruct (nodup_b (List.map k_name (List.map cook_pkg S))) eqn:B; [|discriminate].
      apply nodup_b_spec in B. rewrite names_cooked in B. exact B.
    + destruct (forallb _ (List.map cook_pkg S)) eqn:B; [|discriminate].
      rewrite forallb_forall in B. intros p Hp. specialize (B (cook_pkg p) (in_map _ _ _ Hp)).
      apply existsb_exists in B. destruct B as [u [Hu E]]. apply in_map_iff in Hu. destruct Hu as [q [<- Hq]].
      apply pkg_eqb_spec in E. cbn [cook_pkg k_pkg] in E. subst. exact Hq.
  - intros [H1 H2 H3 H4].
    assert (A1 : flat_map (fun w => if satisfies_dep_b (List.map cook_pkg S) w then []
                   else [String.append "request-unsat/" (unsat_reason (List.map cook_pkg U) (List.map cook_pkg S) None w)])
                   (List.map cook_str W) = []).
    { apply flat_map_nil. intros c Hc. apply in_map_iff in Hc. destruct Hc as [w [<- Hw]].
      rewrite (proj2 (satisfies_dep_b_spec S w) (H1 w Hw)). reflexivity. }
    rewrite A1. cbn [app].
    match goal with |- ?a ++ ?b ++ ?c = [] => assert (A2 : a = []); [| assert (A3 : b = []); [| assert (A4 : c = []) ] ] end.
    + apply flat_map_nil. intros k Hk. apply in_map_iff in Hk. destruct Hk as [p [<- Hp]].
      apply flat_map_nil. intros cd Hcd. unfold cook_pkg in Hcd; cbn [k_deps] in Hcd.
      apply in_map_iff in Hcd. destruct Hcd as [d [<- Hd]].
      destruct (d_neg (cook_dep d)) eqn:N; [reflexivity|]. apply d_neg_cook in N.
      unfold cook_dep; cbn [d_pos]. rewrite (proj2 (satisfies_dep_b_spec S d) (H2 p d Hp Hd N)). reflexivity.
    + rewrite names_cooked. rewrite (proj2 (nodup_b_spec _) H3). reflexivity.
    + match goal with |- (if ?b then _ else _) = _ => assert (B : b = true); [| rewrite B; reflexivity] end.
      apply forallb_forall. intros k Hk. apply in_map_iff in Hk. destruct Hk as [p [<- Hp]].
      apply existsb_exists. exists (cook_pkg p). split; [apply in_map; apply H4; exact Hp | apply pkg_eqb_spec; reflexivity].
    + rewrite A2, A3, A4. reflexivity.
Qed.

Corollary closed_b_spec U W S : closed_b U W S = true <-> Closed U W S.
Proof.
  unfold closed_b. rewrite <- closed_check_spec. destruct (closed_check U W S); split; congruence.
Qed.

(* ---- association lists --------------------------------------------------------- *)
Lemma alookup_In {A} k (m : list (string * A)) v : alookup k m = Some v -> In (k, v) m.
Proof.
  induction m as [|[k' v'] m IH]; simpl; [discriminate|].
  destruct (String.eqb k' k) eqn:E.
  - intros H. inversion H; subst. apply String.eqb_eq in E. subst. left. reflexivity.
  - intros H. right. apply IH. exact H.
Qed.

(* ---- the name maps only hold packages of the universe ----------------------------- *)
Definition nm_valid (n : nat) (m : name_map) : Prop := Forall (fun e => Forall (fun i => i < n) (snd e)) m.

Lemma nm_add_valid n name i m : i < n -> nm_valid n m -> nm_valid n (nm_add name i m).
Proof.
  intros Hi. induction m as [|[k l] m IH]; simpl; intros H.
  - constructor; [|constructor]. simpl. constructor; [exact Hi|constructor].
  - inversion H as [|? ? H1 H2]; subst. destruct (String.eqb k name).
    + constructor; [|exact H2]. simpl in *. apply Forall_app. split; [exact H1|]. constructor; [exact Hi|constructor].
    + constructor; [exact H1|]. apply IH. exact H2.
Qed.

Lemma number_from_bound {A} (l : list A) i0 i x : In (i, x) (number_from i0 l) -> i0 <= i < i0 + List.length l.
Proof.
  revert i0. induction l as [|a l IH]; simpl; intros i0 H; [contradiction|].
  destruct H as [H|H].
  - inversion H; subst. lia.
  - apply IH in H. lia.
Qed.

Lemma number_from_nth {A} (l : list A) i0 i x : In (i, x) (number_from i0 l) -> nth_error l (i - i0) = Some x.
Proof.
  revert i0. induction l as [|a l IH]; simpl; intros i0 H; [contradiction|].
  destruct H as [H|H].
  - inversion H; subst. rewrite Nat.sub_diag. reflexivity.
  - pose proof (number_from_bound _ _ _ _ H) as B. apply IH in H.
    replace (i - i0) with (S (i - S i0)) by lia. simpl. exact H.
Qed.

Lemma fold_left_inv {A B} (P : A -> Prop) (f : A -> B -> A) (l : list B) (a : A) :
  P a -> (forall a b, In b l -> P a -> P (f a b)) -> P (fold_left f l a).
Proof.
  revert a. induction l as [|b l IH]; simpl; intros a Ha Hf; [exact Ha|].
  apply IH; [apply Hf; [left; reflexivity | exact Ha] | intros a' b' Hb; apply Hf; right; exact Hb].
Qed.

Lemma own_names_valid ks : nm_valid (List.length ks) (own_names ks).
Proof.
  unfold own_names. apply fold_left_inv; [constructor|].
  intros m [i k] Hin Hm. simpl. apply nm_add_valid; [|exact Hm].
  apply number_from_bound in Hin. lia.
Qed.

Lemma build_names_valid ks : nm_valid (List.length ks) (build_names ks).
Proof.
  unfold build_names, add_provides. apply fold_left_inv; [apply own_names_valid|].
  intros m key _ Hm. destruct (alookup key (own_names ks)) as [ids|]; [|exact Hm].
  apply fold_left_inv; [exact Hm|]. intros m' i _ Hm'.
  destruct (nth_error ks i) as [k|] eqn:E; [|exact Hm'].
  assert (Hi : i < List.length ks) by (apply nth_error_Some; congruence).
  apply fold_left_inv; [exact Hm'|]. intros m'' pv _ Hm''. apply nm_add_valid; assumption.
Qed.

Lemma build_iif_valid ks : nm_valid (List.length ks) (build_iif ks).
Proof.
  unfold build_iif. apply fold_left_inv; [constructor|].
  intros m [i k] Hin Hm. simpl. apply fold_left_inv; [exact Hm|].
  intros m' d _ Hm'. apply nm_add_valid; [|exact Hm']. apply number_from_bound in Hin. lia.
Qed.

(* a well-formed resolver: what new_resolver builds *)
Definition wf (R : resolver) : Prop :=
  nm_valid (List.length (r_pkgs R)) (r_names R) /\ nm_valid (List.length (r_pkgs R)) (r_iif R).

Lemma new_resolver_wf U : wf (new_resolver U).
Proof. unfold wf, new_resolver; cbn [r_pkgs r_names r_iif]. split; [apply build_names_valid | apply build_iif_valid]. Qed.

Definition valid (R : resolver) (i : pid) : Prop := i < List.length (r_pkgs R).

Lemma nm_lookup_valid n m k l i : nm_valid n m -> alookup k m = Some l -> In i l -> i < n.
Proof.
  intros Hm Hl Hi. apply alookup_In in Hl. unfold nm_valid in Hm. rewrite Forall_forall in Hm.
  specialize (Hm _ Hl). simpl in Hm. rewrite Forall_forall in Hm. apply Hm. exact Hi.
Qed.

(* ---- filter / best ------------------------------------------------------------------ *)
Lemma filter_packages_sub R dq o cands i :
  In i (filter_packages R dq o cands) -> In i cands /\ ~ In i dq.
Proof.
  unfold filter_packages. intros H.
  assert (B : In i (List.filter (fun i => negb (mem_pid i dq) && pin_allowed R o (getp R i)) cands)).
  { destruct (fo_dep o =? dep_versionAny)%Z; [exact H|].
    destruct (fo_req o); [|contradiction]. apply filter_In in H. tauto. }
  apply filter_In in B. destruct B as [B1 B2]. apply andb_true_iff in B2. destruct B2 as [B2 _].
  apply negb_true_iff in B2. apply mem_pid_false in B2. tauto.
Qed.

Lemma fold_pick_In {A} (f : A -> A -> bool) (l : list A) (x : A) :
  In (fold_left (fun m y => if f y m then y else m) l x) (x :: l).
Proof.
  revert x. induction l as [|y l IH]; simpl; intros x; [left; reflexivity|].
  destruct (f y x).
  - specialize (IH y). simpl in IH. tauto.
  - specialize (IH x). simpl in IH. tauto.
Qed.

Lemma best_package_In R name ex os pin cands i : best_package R name ex os pin cands = Some i -> In i cands.
Proof.
  unfold best_package. destruct cands as [|x t]; [discriminate|]. intros H. inversion H; subst.
  apply (fold_pick_In (fun y m => (compare_packages R name ex os pin y m <? 0)%Z)).
Qed.

Lemma candidates_spec R dq w i : wf R -> In i (candidates R dq w) -> valid R i /\ ~ In i dq.
Proof.
  intros [Hn _]. unfold candidates. destruct (alookup (s_name w) (r_names R)) as [l|] eqn:E; [|contradiction].
  intros H. apply filter_packages_sub in H. destruct H as [H1 H2]. split; [|exact H2].
  eapply nm_lookup_valid; eassumption.
Qed.

Lemma resolve_package_spec R dq w i : wf R -> resolve_package R dq w = Ok i ->
  In i (candidates R dq w) /\ valid R i /\ ~ In i dq.
Proof.
  intros Hwf. unfold resolve_package.
  destruct (best_package R (s_name w) [] [] (s_pin w) (candidates R dq w)) as [j|] eqn:E; [|discriminate].
  intros H. inversion H; subst. apply best_package_In in E. split; [exact E|]. eapply candidates_spec; eassumption.
Qed.

(* ---- disqualification only grows ------------------------------------------------------- *)
Lemma dq_add_incl j dq : incl dq (dq_add j dq).
Proof. unfold dq_add. destruct (mem_pid j dq); [apply incl_refl | apply incl_tl, incl_refl]. Qed.

Lemma fold_res_mono {B} (f : list pid -> B -> res (list pid)) (l : list B) :
  (forall dq b dq', f dq b = Ok dq' -> incl dq dq') ->
  forall (acc : res (list pid)) dq', fold_left (fun acc b => do dq <- acc; f dq b) l acc = Ok dq' ->
  exists dq, acc = Ok dq /\ incl dq dq'.
Proof.
  intros Hf. induction l as [|b l IH]; simpl; intros acc dq' H.
  - exists dq'. split; [exact H | apply incl_refl].
  - apply IH in H. destruct H as [dq1 [H1 H2]]. destruct acc as [dq| | |]; simpl in H1; try discriminate.
    exists dq. split; [reflexivity|]. eapply incl_tran; [eapply Hf; exact H1 | exact H2].
Qed.

Lemma disqualify_conflicts_mono R i dq dq' : disqualify_conflicts R i dq = Ok dq' -> incl dq dq'.
Proof.
  unfold disqualify_conflicts. intros H.
  apply (fold_res_mono (fun dq pv => match alookup (s_name pv) (r_names R) with
                                      | None => Ok dq
                                      | Some providers => fold_left _ providers (Ok dq) end)) in H.
  - destruct H as [dq0 [E H]]. inversion E; subst. exact H.
  - intros d pv d' E. destruct (alookup (s_name pv) (r_names R)) as [providers|].
    + apply (fold_res_mono (fun dq j => if Nat.eqb j i then Ok dq else if mem_pid j dq then Ok dq
               else match conflicting_version (s_c pv) (getp R j) with
                    | None => Panic | Some false => Ok dq | Some true => Ok (j :: dq) end)) in E.
      * destruct E as [d0 [E1 E2]]. inversion E1; subst. exact E2.
      * intros d1 j d2 E1. destruct (Nat.eqb j i); [inversion E1; apply incl_refl|].
        destruct (mem_pid j d1); [inversion E1; apply incl_refl|].
        destruct (conflicting_version (s_c pv) (getp R j)) as [[|]|]; inversion E1; subst;
          [apply incl_tl, incl_refl | apply incl_refl].
    + inversion E; apply incl_refl.
Qed.

Lemma fold_dq_add_incl {B} (g : list pid -> B -> list pid) (l : list B) dq :
  (forall d b, incl d (g d b)) -> incl dq (fold_left g l dq).
Proof.
  intros Hg. revert dq. induction l as [|b l IH]; simpl; intros dq; [apply incl_refl|].
  eapply incl_tran; [apply Hg | apply IH].
Qed.

Lemma disqualify_providers_incl R c dq : incl dq (disqualify_providers R c dq).
Proof.
  unfold disqualify_providers. destruct (alookup (s_name c) (r_names R)); [|apply incl_refl].
  apply fold_dq_add_incl. intros d b. apply dq_add_incl.
Qed.

Lemma constrain_mono R cs dq dq' : constrain R cs dq = Ok dq' -> incl dq dq'.
Proof.
  unfold constrain. intros H.
  apply (fold_res_mono (fun dq d => match d_neg d with
           | Some rest => Ok (disqualify_providers R rest dq)
           | None => if (s_dep (d_pos d) =? dep_versionAny)%Z then Ok dq else
               match alookup (s_name (d_pos d)) (r_names R) with
               | None => Ok dq
               | Some providers => match s_req (d_pos d) with
                                   | None => Err
                                   | Some req => Ok (fold_left _ providers dq) end end end)) in H.
  - destruct H as [d0 [E H]]. inversion E; subst. exact H.
  - intros d cd d' E. destruct (d_neg cd).
    + inversion E; subst. apply disqualify_providers_incl.
    + destruct (s_dep (d_pos cd) =? dep_versionAny)%Z; [inversion E; apply incl_refl|].
      destruct (alookup (s_name (d_pos cd)) (r_names R)); [|inversion E; apply incl_refl].
      destruct (s_req (d_pos cd)); [|discriminate]. inversion E; subst.
      apply fold_dq_add_incl. intros d1 j. destruct (constrain_provider (d_pos cd) m (getp R j)); [apply dq_add_incl | apply incl_refl].
Qed.

(* ---- the dependency walk ------------------------------------------------------------------ *)
Lemma aset_keeps_lookup {A} k (v : A) m k' : alookup k' (aset k v m) = if String.eqb k k' then Some v else alookup k' m.
Proof.
  induction m as [|[k0 v0] m IH]; simpl.
  - destruct (String.eqb k k'); reflexivity.
  - destruct (String.eqb k0 k) eqn:E; simpl.
    + apply String.eqb_eq in E. subst. destruct (String.eqb k k'); reflexivity.
    + destruct (String.eqb k0 k') eqn:E'.
      * apply String.eqb_eq in E'. subst. rewrite String.eqb_sym, E. reflexivity.
      * exact IH.
Qed.

Lemma eval_all_opts R st k pin cs opts opts' :
  eval_all R st k pin cs opts = Some opts' ->
  (forall key d l, In (key, (d, l)) opts -> forall i, In i l -> valid R i /\ ~ In i (st_dq st)) ->
  wf R ->
  forall key d l, In (key, (d, l)) opts' -> forall i, In i l -> valid R i /\ ~ In i (st_dq st).
Proof.
  intros H Hopts [Hn _]. revert opts H Hopts. induction cs as [|c cs IH]; simpl; intros opts H Hopts.
  - inversion H; subst. exact Hopts.
  - destruct (eval_dep R st k pin c) as [| |l] eqn:E; [eapply IH; eassumption | discriminate |].
    eapply IH; [exact H|]. intros key d l0 Hin i Hi.
    assert (Hl : forall i, In i l -> valid R i /\ ~ In i (st_dq st)).
    { unfold eval_dep in E.
      destruct (my_provides k (s_name c) || my_provides k (s_raw c)); [discriminate|].
      match type of E with (if ?b then _ else _) = _ => destruct b; [discriminate|] end.
      destruct (alookup (s_name c) (st_selected st)).
      - destruct (String.eqb (s_version c) ""); [discriminate|].
        destruct (k_ver (getp R p)); [|discriminate]. destruct (s_req c); [|discriminate].
        destruct (selected_provides_satisfy (s_name c) m0 (k_provs (getp R p))) as [[|]|]; try discriminate.
        destruct (satisfies (s_dep c) m m0); discriminate.
      - destruct (alookup (s_name c) (r_names R)) as [cands|] eqn:EC; [|discriminate].
        match type of E with match ?f with _ => _ end = _ => destruct f as [|x t] eqn:EF; [discriminate|] end.
        inversion E; subst l. intros j Hj. rewrite <- EF in Hj. apply filter_packages_sub in Hj.
        destruct Hj as [Hj1 Hj2]. split; [|exact Hj2]. eapply nm_lookup_valid; eassumption. }
    clear E. revert Hin. generalize (s_raw c). intros key0 Hin.
    (* membership in aset *)
    assert (In (key, (d, l0)) opts \/ (d, l0) = (c, l)).
    { clear -Hin. induction opts as [|[k1 v1] opts IHo]; simpl in Hin.
      - destruct Hin as [Hin|[]]. inversion Hin. right. reflexivity.
      - destruct (String.eqb k1 key0); simpl in Hin.
        + destruct Hin as [Hin|Hin]; [inversion Hin; right; reflexivity | left; right; exact Hin].
        + destruct Hin as [Hin|Hin]; [left; left; exact Hin|]. apply IHo in Hin. destruct Hin; [left; right; assumption | right; assumption]. }
    destruct H0 as [H0|H0]; [eapply Hopts; eassumption|]. inversion H0; subst. apply Hl. exact Hi.
Qed.

Lemma lowest_step_cases best e : lowest_step best e = best \/ lowest_step best e = snd e.
Proof.
  unfold lowest_step. destruct e as [k [d l]]; destruct best as [bd bl]; simpl.
  destruct (Nat.ltb (List.length l) (List.length bl)); [right; reflexivity|].
  destruct (Nat.eqb (List.length l) (List.length bl) && String.ltb (s_raw d) (s_raw bd)); [right|left]; reflexivity.
Qed.

Lemma lowest_fold_In t : forall x, In (fold_left lowest_step t x) (x :: List.map snd t).
Proof.
  induction t as [|e t IH]; intros x; simpl; [left; reflexivity|].
  destruct (lowest_step_cases x e) as [E|E]; rewrite E.
  - destruct (IH x) as [H|H]; [left; exact H | right; right; exact H].
  - destruct (IH (snd e)) as [H|H]; [right; left; exact H | right; right; exact H].
Qed.

Lemma lowest_In opts d l : lowest opts = Some (d, l) -> exists key, In (key, (d, l)) opts.
Proof.
  unfold lowest. destruct opts as [|[k0 x] t]; [discriminate|]. intros H. injection H as H1.
  pose proof (lowest_fold_In t x) as G. rewrite H1 in G. destruct G as [G|G].
  - exists k0. left. rewrite G. reflexivity.
  - apply in_map_iff in G. destruct G as [[key v] [E Hin]]. simpl in E. subst v. exists key. right. exact Hin.
Qed.

Lemma note_existing_dq R sub st : st_dq (note_existing R sub st) = st_dq st.
Proof.
  unfold note_existing. apply (fold_left_inv (fun s => st_dq s = st_dq st)); [reflexivity|].
  intros a b _ H. simpl. exact H.
Qed.

Definition walk_ok (R : resolver) (st st' : rstate) (deps : list pid) : Prop :=
  incl (st_dq st) (st_dq st') /\ Forall (fun j => valid R j /\ ~ In j (st_dq st)) deps.

Lemma deps_loop_inv R rec self pin parents :
  wf R ->
  (forall i p ps st st' deps, rec i p ps st = Ok (st', deps) -> walk_ok R st st' deps) ->
  forall n cs st acc st' deps,
    deps_loop R rec self pin parents n cs st acc = Ok (st', deps) ->
    forall dq_in, incl dq_in (st_dq st) -> Forall (fun j => valid R j /\ ~ In j dq_in) acc ->
    incl dq_in (st_dq st') /\ Forall (fun j => valid R j /\ ~ In j dq_in) deps.
Proof.
  intros Hwf Hrec. induction n as [|n IH]; intros cs st acc st' deps H dq_in Hin Hacc.
  - destruct cs; simpl in H; [inversion H; subst; split; assumption | discriminate].
  - destruct cs as [|c0 cs0]; [simpl in H; inversion H; subst; split; assumption|].
    cbn [deps_loop] in H. remember (c0 :: cs0) as cs.
    destruct (eval_all R st (getp R self) pin cs []) as [opts|] eqn:EA; [|discriminate].
    destruct (lowest opts) as [[d cands]|] eqn:EL; [|inversion H; subst; split; assumption].
    destruct (best_package R (s_name d) (st_existing st) (st_origins st) "" cands) as [best|] eqn:EB; [|discriminate].
    destruct (disqualify_conflicts R best (st_dq st)) as [dq1| | |] eqn:ED; simpl in H; try discriminate.
    destruct (pick R self (st_selected st)) as [sel1| | |] eqn:EP; simpl in H; try discriminate.
    destruct (rec best pin (k_name (getp R self) :: parents) (with_selected (with_dq st dq1) sel1)) as [[st2 sub]| | |] eqn:ER;
      simpl in H; try discriminate.
    apply Hrec in ER. destruct ER as [ER1 ER2]. cbn [with_selected with_dq st_dq] in ER1, ER2.
    apply disqualify_conflicts_mono in ED.
    apply lowest_In in EL. destruct EL as [key EL]. apply best_package_In in EB.
    assert (Hb : valid R best /\ ~ In best (st_dq st)).
    { eapply (eval_all_opts R st (getp R self) pin cs [] opts EA); [intros ? ? ? [] | exact Hwf | exact EL | exact EB]. }
    eapply IH; [exact H | |].
    + rewrite note_existing_dq. eapply incl_tran; [exact Hin|]. eapply incl_tran; [exact ED | exact ER1].
    + apply Forall_app. split; [exact Hacc|]. apply Forall_app. split.
      * rewrite Forall_forall in *. intros j Hj. specialize (ER2 j Hj). destruct ER2 as [V N]. split; [exact V|].
        intro Hc. apply N. apply ED. apply Hin. exact Hc.
      * constructor; [|constructor]. destruct Hb as [V N]. split; [exact V|]. intro Hc. apply N. apply Hin. exact Hc.
Qed.

Lemma get_deps_inv R : wf R -> forall fuel i pin parents st st' deps,
  get_deps fuel R i pin parents st = Ok (st', deps) -> walk_ok R st st' deps.
Proof.
  intros Hwf. induction fuel as [|f IH]; intros i pin parents st st' deps H; [discriminate|].
  cbn [get_deps] in H. destruct (mem_str (k_name (getp R i)) parents).
  - inversion H; subst. split; [apply incl_refl | constructor].
  - destruct (constrain R (k_deps (getp R i)) (st_dq st)) as [dq1| | |] eqn:EC; cbn [rbind] in H; try discriminate.
    apply constrain_mono in EC.
    eapply (deps_loop_inv R (get_deps f R) i pin parents Hwf IH) in H.
    + exact H.
    + cbn [with_dq st_dq]. exact EC.
    + constructor.
Qed.
