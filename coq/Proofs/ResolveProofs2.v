(* C02 / C14 proofs, part 2: the top level (GetPackagesWithDependencies): no
   duplicate names, members come from the universe and — unless added by the
   install_if loop — from outside the initial disqualification set, every request
   had a candidate whose name is installed, fuel never runs out, no panic. *)
From Apko Require Import Base.Prelude Generated.VersionConsts Model.Version Model.Resolver Spec.ResolveSpec
  Proofs.ResolveProofs.
Open Scope string_scope. Open Scope list_scope. Open Scope nat_scope.

Definition nm (R : resolver) (j : pid) : string := k_name (getp R j).

(* ---- install_if lists hold install_if packages ------------------------------------- *)
Definition iif_ok (ks : list cpkg) (m : name_map) : Prop :=
  Forall (fun e => Forall (fun q => has_iif (nth q ks dummy_cpkg) = true) (snd e)) m.

Lemma nm_add_iif_ok ks name q m : has_iif (nth q ks dummy_cpkg) = true -> iif_ok ks m -> iif_ok ks (nm_add name q m).
Proof.
  intros Hq. induction m as [|[k l] m IH]; simpl; intros H.
  - constructor; [|constructor]. simpl. constructor; [exact Hq|constructor].
  - inversion H as [|? ? H1 H2]; subst. destruct (String.eqb k name).
    + constructor; [|exact H2]. simpl in *. apply Forall_app. split; [exact H1|]. constructor; [exact Hq|constructor].
    + constructor; [exact H1|]. apply IH. exact H2.
Qed.

Lemma build_iif_ok ks : iif_ok ks (build_iif ks).
Proof.
  unfold build_iif. apply fold_left_inv; [constructor|].
  intros m [i k] Hin Hm. simpl.
  pose proof (number_from_nth _ _ _ _ Hin) as Hn. rewrite Nat.sub_0_r in Hn.
  assert (Hk : nth i ks dummy_cpkg = k) by (apply nth_error_nth; exact Hn).
  destruct (k_iifs k) as [|d0 ds] eqn:E; [simpl; exact Hm|].
  apply fold_left_inv; [exact Hm|]. intros m' d _ Hm'. apply nm_add_iif_ok; [|exact Hm'].
  rewrite Hk. unfold has_iif. rewrite E. reflexivity.
Qed.

Definition wf2 (R : resolver) : Prop := wf R /\ iif_ok (r_pkgs R) (r_iif R).
Lemma new_resolver_wf2 U : wf2 (new_resolver U).
Proof. split; [apply new_resolver_wf | apply build_iif_ok]. Qed.

Lemma NoDup_app_single0 {A} (l : list A) x : NoDup l -> ~ In x l -> NoDup (l ++ [x]).
Proof.
  induction l as [|a l IH]; simpl; intros H N; [constructor; [intros []|constructor]|].
  inversion H as [|? ? Ha Hl]; subst. constructor.
  - intro Hc. apply in_app_or in Hc. destruct Hc as [Hc|[Hc|[]]]; [contradiction | subst; apply N; left; reflexivity].
  - apply IH; [exact Hl | intro Hc; apply N; right; exact Hc].
Qed.

(* ---- the install_if loop only appends install_if packages --------------------------- *)
Definition from_iif (R : resolver) (j : pid) : Prop := valid R j /\ has_iif (getp R j) = true.

Lemma iif_visit_inv R j added : wf2 R -> Forall (from_iif R) (fst (iif_visit R j added)).
Proof.
  intros [[_ Hv] Hi]. unfold iif_visit.
  match goal with |- context [match ?x with Some _ => _ | None => _ end] => destruct x as [l|] eqn:EL end; [|constructor].
  assert (Hl : forall q, In q l -> from_iif R q).
  { intros q Hq.
    assert (exists k, alookup k (r_iif R) = Some l) as [k Hk].
    { destruct (alookup (k_name (getp R j)) (r_iif R)) eqn:E1; [inversion EL; subst; eexists; exact E1 | eexists; exact EL]. }
    split.
    - eapply nm_lookup_valid; eassumption.
    - apply alookup_In in Hk. unfold iif_ok in Hi. rewrite Forall_forall in Hi. specialize (Hi _ Hk). simpl in Hi.
      rewrite Forall_forall in Hi. apply Hi. exact Hq. }
  clear EL.
  assert (G : forall l news added, (forall q, In q l -> from_iif R q) -> Forall (from_iif R) news ->
    Forall (from_iif R) (fst (fold_left (fun st q =>
        let '(news, added) := st in
        let kq := getp R q in
        if forallb (iif_matches R added) (k_iifs kq) && negb (ahas (k_name kq) added)
        then (news ++ [q], added ++ [(k_name kq, q)]) else st) l (news, added)))).
  { clear l Hl. induction l as [|q l IH]; intros news added0 Hl H; [exact H|].
    cbn [fold_left].
    destruct (forallb (iif_matches R added0) (k_iifs (getp R q)) && negb (ahas (k_name (getp R q)) added0)).
    - apply IH; [intros q' Hq'; apply Hl; right; exact Hq'|].
      apply Forall_app. split; [exact H|]. constructor; [|constructor]. apply Hl. left. reflexivity.
    - apply IH; [intros q' Hq'; apply Hl; right; exact Hq' | exact H]. }
  apply G; [exact Hl | constructor].
Qed.

(* whatever holds of the list the loop starts with and of every install_if
   package holds of the list it returns; the initial list is a prefix *)
Lemma iif_loop_inv R (P : pid -> Prop) : wf2 R -> (forall j, from_iif R j -> P j) ->
  forall fuel i deps added r, Forall P deps -> iif_loop fuel R i deps added = Ok r -> Forall P r.
Proof.
  intros Hwf HP. induction fuel as [|f IH]; intros i deps added r H E; cbn [iif_loop] in E.
  - destruct (nth_error deps i); [discriminate | inversion E; subst; exact H].
  - destruct (nth_error deps i) as [j|]; [|inversion E; subst; exact H].
    pose proof (iif_visit_inv R j added Hwf) as HV.
    destruct (iif_visit R j added) as [news added']. cbn [fst] in HV.
    apply IH in E; [exact E|]. apply Forall_app. split; [exact H|].
    rewrite Forall_forall in *. intros q Hq. apply HP. apply HV. exact Hq.
Qed.

Lemma iif_loop_prefix R : forall fuel i deps added r, iif_loop fuel R i deps added = Ok r -> exists extra, r = deps ++ extra.
Proof.
  induction fuel as [|f IH]; intros i deps added r E; cbn [iif_loop] in E.
  - destruct (nth_error deps i); [discriminate | inversion E; subst; exists []; rewrite app_nil_r; reflexivity].
  - destruct (nth_error deps i) as [j|]; [|inversion E; subst; exists []; rewrite app_nil_r; reflexivity].
    destruct (iif_visit R j added) as [news added']. apply IH in E. destruct E as [extra ->].
    exists (news ++ extra). rewrite app_assoc. reflexivity.
Qed.

(* ---- the install_if loop ends: `added` has one key per entry of the list, the keys
   are distinct package names (or "", the name behind an index out of range) ---------- *)
Definition iif_state_ok (R : resolver) (deps : list pid) (added : list (string * pid)) : Prop :=
  List.map fst added = List.map (nm R) deps /\ NoDup (List.map fst added).

Lemma ahas_false_notin {A} k (m : list (string * A)) : ahas k m = false -> ~ In k (List.map fst m).
Proof.
  unfold ahas. induction m as [|[k' v] m IH]; simpl; intros H; [intros []|].
  destruct (String.eqb k' k) eqn:E; [discriminate|]. apply String.eqb_neq in E.
  intros [Hc|Hc]; [exact (E Hc) | exact (IH H Hc)].
Qed.

Lemma dedup_state_ok R ds l added : dedup_by_name R ds = (l, added) -> iif_state_ok R l added.
Proof.
  unfold dedup_by_name. intros E.
  assert (G : forall ds acc acc', iif_state_ok R (fst acc) (snd acc) ->
            fold_left (fun acc j => let '(l, added) := acc in let n := k_name (getp R j) in
                          if ahas n added then acc else (l ++ [j], added ++ [(n, j)])) ds acc = acc' ->
            iif_state_ok R (fst acc') (snd acc')).
  { clear. induction ds as [|d ds IH]; intros acc acc' H E; [subst; exact H|]. cbn [fold_left] in E. eapply IH; [|exact E].
    destruct acc as [l added]. destruct (ahas (k_name (getp R d)) added) eqn:EA; [exact H|].
    cbn [fst snd] in *. destruct H as [H1 H2]. split.
    - rewrite !map_app, H1. reflexivity.
    - rewrite map_app. simpl. apply NoDup_app_single0; [exact H2 | apply ahas_false_notin; exact EA]. }
  apply (G ds ([], []) (l, added)); [split; [reflexivity | constructor] | exact E].
Qed.

Lemma iif_visit_state_ok R j deps added news added' : iif_state_ok R deps added ->
  iif_visit R j added = (news, added') -> iif_state_ok R (deps ++ news) added'.
Proof.
  intros H. unfold iif_visit.
  match goal with |- context [match ?x with Some _ => _ | None => _ end] => destruct x as [l|] end;
    [|intros E; inversion E; subst; rewrite app_nil_r; exact H].
  assert (G : forall l news0 added0, iif_state_ok R (deps ++ news0) added0 ->
    forall news added', fold_left (fun st q =>
        let '(news, added) := st in
        let kq := getp R q in
        if forallb (iif_matches R added) (k_iifs kq) && negb (ahas (k_name kq) added)
        then (news ++ [q], added ++ [(k_name kq, q)]) else st) l (news0, added0) = (news, added') ->
    iif_state_ok R (deps ++ news) added').
  { clear. induction l as [|q l IH]; intros news0 added0 H news added' E; [inversion E; subst; exact H|].
    cbn [fold_left] in E.
    destruct (forallb (iif_matches R added0) (k_iifs (getp R q)) && negb (ahas (k_name (getp R q)) added0)) eqn:EB;
      [|eapply IH; eassumption].
    eapply IH; [|exact E]. apply andb_true_iff in EB. destruct EB as [_ EB]. apply negb_true_iff in EB.
    destruct H as [H1 H2]. split.
    - rewrite app_assoc, !map_app, H1, map_app. reflexivity.
    - rewrite map_app. simpl. apply NoDup_app_single0; [exact H2 | apply ahas_false_notin; exact EB]. }
  intros E. eapply G; [|exact E]. rewrite app_nil_r. exact H.
Qed.

Lemma nm_in_names R j : In (nm R j) ("" :: names_of R).
Proof.
  unfold nm, getp, names_of. destruct (Nat.lt_ge_cases j (List.length (r_pkgs R))) as [L|L].
  - right. apply nodup_In. apply in_map. apply nth_In. exact L.
  - left. rewrite nth_overflow by exact L. reflexivity.
Qed.

Lemma iif_state_length R deps added : iif_state_ok R deps added -> List.length deps <= S (List.length (names_of R)).
Proof.
  intros [H1 H2]. rewrite <- (map_length (nm R) deps), <- H1.
  change (S (List.length (names_of R))) with (List.length ("" :: names_of R)).
  apply NoDup_incl_length; [exact H2|]. rewrite H1. intros n Hn. apply in_map_iff in Hn. destruct Hn as [j [<- _]].
  apply nm_in_names.
Qed.

Lemma iif_loop_fuel R : forall fuel i deps added, iif_state_ok R deps added ->
  S (List.length (names_of R)) < fuel + i -> iif_loop fuel R i deps added <> OutOfFuel.
Proof.
  induction fuel as [|f IH]; intros i deps added H L; cbn [iif_loop].
  - destruct (nth_error deps i) eqn:E; [|discriminate]. exfalso.
    assert (i < List.length deps) by (apply nth_error_Some; congruence).
    pose proof (iif_state_length R deps added H). simpl in L. lia.
  - destruct (nth_error deps i) as [j|]; [|discriminate].
    destruct (iif_visit R j added) as [news added'] eqn:EV. apply IH; [|lia].
    eapply iif_visit_state_ok; eassumption.
Qed.

Lemma dedup_sub R deps : forall j, In j (fst (dedup_by_name R deps)) -> In j deps.
Proof.
  unfold dedup_by_name.
  assert (G : forall deps acc j, In j (fst (fold_left (fun acc j =>
              let '(l, added) := acc in let n := k_name (getp R j) in
              if ahas n added then acc else (l ++ [j], added ++ [(n, j)])) deps acc)) -> In j (fst acc) \/ In j deps).
  { induction deps0 as [|d ds IH]; intros acc j H; [left; exact H|]. simpl in H. apply IH in H.
    destruct acc as [l added]. destruct (ahas (k_name (getp R d)) added); simpl in *.
    - destruct H; [left|right;right]; assumption.
    - destruct H as [H|H]; [|right; right; exact H]. apply in_app_or in H. destruct H as [H|[H|[]]]; [left; exact H | right; left; exact H]. }
  intros j H. apply G in H. destruct H as [[]|H]. exact H.
Qed.

(* ---- one requested package ------------------------------------------------------------- *)
Definition member_ok (R : resolver) (dq0 : list pid) (j : pid) : Prop :=
  valid R j /\ (~ In j dq0 \/ has_iif (getp R j) = true).

Lemma get_pkg_spec R w dq sel ex dq' sel' i deps dq0 : wf2 R -> incl dq0 dq ->
  get_pkg R w dq sel ex = Ok (dq', sel', i, deps) ->
  incl dq0 dq' /\ In i (candidates R dq w) /\ member_ok R dq0 i /\ Forall (member_ok R dq0) deps.
Proof.
  intros Hwf2 Hin H. pose proof Hwf2 as [Hwf _]. unfold get_pkg, get_pkg_core in H.
  destruct (resolve_package R dq w) as [i0| | |] eqn:ER; cbn [rbind] in H; try discriminate.
  destruct (get_deps (fuel_bound R) R i0 (s_pin w) []
              {| st_dq := dq; st_selected := sel; st_existing := ex; st_origins := initial_origins R ex |})
    as [[st' ds]| | |] eqn:EG; cbn [rbind] in H; try discriminate.
  apply (resolve_package_spec R dq w i0 Hwf) in ER. destruct ER as [E1 [E2 E3]].
  apply (get_deps_inv R Hwf) in EG. destruct EG as [G1 G2]. cbn [st_dq] in G1, G2.
  destruct (dedup_by_name R ds) as [l added] eqn:ED. cbn [rbind] in H.
  destruct (iif_loop (fuel_bound R) R 0 l added) as [deps0| | |] eqn:EI; cbn [rbind] in H; try discriminate.
  inversion H; subst. clear H.
  split; [eapply incl_tran; eassumption|]. split; [exact E1|]. split.
  - split; [exact E2|]. left. intro Hc. apply E3. apply Hin. exact Hc.
  - pose proof (iif_loop_inv R (fun j => In j l \/ from_iif R j) Hwf2 (fun j Hj => or_intror Hj) _ _ _ _ _
                  (proj2 (Forall_forall _ l) (fun j Hj => or_introl Hj)) EI) as HL.
    rewrite Forall_forall in *. intros j Hj.
    specialize (HL j Hj). destruct HL as [HL|[V I]].
    + assert (In j ds) by (apply (dedup_sub R); rewrite ED; exact HL).
      specialize (G2 j H). destruct G2 as [V N]. split; [exact V|]. left. intro Hc. apply N. apply Hin. exact Hc.
    + split; [exact V|]. right. exact I.
Qed.

(* ---- the accumulator of the second loop ------------------------------------------------- *)
Definition acc_t := (list pid * list string * list (string * pid))%type.
Definition Inv (R : resolver) (dq0 : list pid) (acc : acc_t) : Prop :=
  let '(ti, tracked, _) := acc in
  NoDup (List.map (nm R) ti) /\ (forall n, In n tracked <-> In n (List.map (nm R) ti)) /\ Forall (member_ok R dq0) ti.

Lemma NoDup_app_single {A} (l : list A) x : NoDup l -> ~ In x l -> NoDup (l ++ [x]).
Proof.
  induction l as [|a l IH]; simpl; intros H N; [constructor; [intros []|constructor]|].
  inversion H as [|? ? Ha Hl]; subst. constructor.
  - intro Hc. apply in_app_or in Hc. destruct Hc as [Hc|[Hc|[]]]; [contradiction | subst; apply N; left; reflexivity].
  - apply IH; [exact Hl | intro Hc; apply N; right; exact Hc].
Qed.

Lemma track_inv R dq0 j acc : Inv R dq0 acc -> member_ok R dq0 j ->
  Inv R dq0 (track R j acc) /\
  (forall n, In n (snd (fst acc)) -> In n (snd (fst (track R j acc)))) /\
  In (nm R j) (snd (fst (track R j acc))).
Proof.
  destruct acc as [[ti tracked] depmap]. unfold Inv, track. intros [H1 [H2 H3]] Hj.
  fold (nm R j). destruct (mem_str (nm R j) tracked) eqn:E; cbn [fst snd].
  - split; [split; [exact H1 | split; [exact H2 | exact H3]]|]. split; [auto|]. apply mem_str_In. exact E.
  - assert (N : ~ In (nm R j) tracked) by (rewrite <- mem_str_In; congruence).
    split; [split; [|split]|].
    + rewrite map_app. simpl. apply NoDup_app_single; [exact H1|]. intro Hc. apply N. apply H2. exact Hc.
    + intros n. rewrite map_app. simpl. rewrite in_app_iff. simpl. rewrite <- H2. tauto.
    + apply Forall_app. split; [exact H3|]. constructor; [exact Hj|constructor].
    + split; [intros n Hn; right; exact Hn | left; reflexivity].
Qed.

Lemma track_fold_inv R dq0 deps : forall acc, Inv R dq0 acc -> Forall (member_ok R dq0) deps ->
  Inv R dq0 (fold_left (fun a j => track R j a) deps acc) /\
  (forall n, In n (snd (fst acc)) -> In n (snd (fst (fold_left (fun a j => track R j a) deps acc)))).
Proof.
  induction deps as [|d ds IH]; intros acc HI HF; [split; [exact HI | auto]|].
  inversion HF as [|? ? Hd Hds]; subst. simpl.
  destruct (track_inv R dq0 d acc HI Hd) as [I1 [I2 _]].
  destruct (IH _ I1 Hds) as [J1 J2]. split; [exact J1|]. intros n Hn. apply J2. apply I2. exact Hn.
Qed.

Lemma phase2_inv R dq0 : wf2 R -> forall ws dq sel acc S,
  phase2 R ws dq sel acc = Ok S -> incl dq0 dq -> Inv R dq0 acc ->
  NoDup (List.map (nm R) S) /\ Forall (member_ok R dq0) S /\
  (forall n, In n (snd (fst acc)) -> In n (List.map (nm R) S)) /\
  (forall w, In w ws -> exists dq' i, incl dq0 dq' /\ In i (candidates R dq' w) /\ In (nm R i) (List.map (nm R) S)).
Proof.
  intros Hwf. induction ws as [|w ws IH]; intros dq sel acc S H Hin HI.
  - simpl in H. inversion H; subst. destruct acc as [[ti tracked] depmap]. destruct HI as [H1 [H2 H3]]. cbn [fst snd].
    split; [exact H1|]. split; [exact H3|]. split; [intros n Hn; apply H2; exact Hn | intros w []].
  - cbn [phase2] in H.
    destruct (get_pkg R w dq sel (snd acc)) as [[[[dq' sel'] i] deps]| | |] eqn:EG; cbn [rbind] in H; try discriminate.
    apply (get_pkg_spec R w dq sel (snd acc) dq' sel' i deps dq0 Hwf Hin) in EG. destruct EG as [G1 [G2 [G3 G4]]].
    destruct (track_fold_inv R dq0 deps acc HI G4) as [J1 J2].
    destruct (track_inv R dq0 i _ J1 G3) as [K1 [K2 K3]].
    specialize (IH _ _ _ _ H G1 K1). destruct IH as [L1 [L2 [L3 L4]]].
    split; [exact L1|]. split; [exact L2|]. split.
    + intros n Hn. apply L3. apply K2. apply J2. exact Hn.
    + intros w' [<-|Hw'].
      * exists dq, i. split; [exact Hin|]. split; [exact G2|]. apply L3. exact K3.
      * apply L4. exact Hw'.
Qed.

Lemma phase1_mono R : forall n cs dq depmap dq' depmap',
  phase1 n R cs dq depmap = Ok (dq', depmap') -> incl dq dq'.
Proof.
  induction n as [|n IH]; intros cs dq depmap dq' depmap' H.
  - destruct cs; simpl in H; [inversion H; apply incl_refl | discriminate].
  - destruct cs as [|c cs]; [simpl in H; inversion H; apply incl_refl|].
    cbn [phase1] in H.
    destruct (next_package R dq (c :: cs) (cook_str "") 0) as [next| | |]; cbn [rbind] in H; try discriminate.
    destruct (resolve_package R dq next) as [i| | |]; cbn [rbind] in H; try discriminate.
    destruct (disqualify_conflicts R i dq) as [dq1| | |] eqn:ED; cbn [rbind] in H; try discriminate.
    apply disqualify_conflicts_mono in ED. apply IH in H. eapply incl_tran; eassumption.
Qed.

(* ---- what a successful resolution guarantees --------------------------------------------- *)
Theorem resolve_ok R world dq0 S : wf2 R -> resolve_with R world dq0 = Ok S ->
  NoDup (List.map (nm R) S) /\
  Forall (member_ok R dq0) S /\
  (forall w, In w world -> exists dq i, incl dq0 dq /\ In i (candidates R dq (cook_str w)) /\
                                        exists j, In j S /\ nm R j = nm R i).
Proof.
  intros Hwf H. unfold resolve_with in H.
  destruct (constrain R (List.map cook_dep world) dq0) as [dq1| | |] eqn:EC; cbn [rbind] in H; try discriminate.
  destruct (phase1 _ R _ dq1 []) as [[dq2 depmap]| | |] eqn:E1; cbn [rbind] in H; try discriminate.
  apply constrain_mono in EC. apply phase1_mono in E1.
  eapply (phase2_inv R dq0 Hwf) in H.
  - destruct H as [H1 [H2 [_ H4]]]. split; [exact H1|]. split; [exact H2|].
    intros w Hw. destruct (H4 (d_pos (cook_dep w))) as [dq [i [A [B C]]]].
    { rewrite map_map. apply in_map_iff. exists w. split; [reflexivity | exact Hw]. }
    exists dq, i. split; [exact A|]. split; [exact B|]. apply in_map_iff in C. destruct C as [j [E Hj]].
    exists j. split; [exact Hj | exact E].
  - eapply incl_tran; eassumption.
  - simpl. split; [constructor|]. split; [intros n; split; intros []|constructor].
Qed.

Lemma getp_new_resolver U i : getp (new_resolver U) i = cook_pkg (nth i U dummy_pkg).
Proof.
  unfold getp, new_resolver; cbn [r_pkgs]. unfold dummy_cpkg. rewrite map_nth. reflexivity.
Qed.

(* ---- fuel ------------------------------------------------------------------------------------ *)
Definition not_oof {A} (r : res A) : Prop := r <> OutOfFuel.

Lemma fold_res_not_oof {A B} (f : A -> B -> res A) (l : list B) :
  (forall a b, f a b <> OutOfFuel) -> forall acc, acc <> OutOfFuel ->
  fold_left (fun acc b => do a <- acc; f a b) l acc <> OutOfFuel.
Proof.
  intros Hf. induction l as [|b l IH]; intros acc Ha; [exact Ha|]. simpl. apply IH.
  destruct acc; simpl; [apply Hf | discriminate | discriminate | congruence].
Qed.

Lemma disqualify_conflicts_not_oof R i dq : disqualify_conflicts R i dq <> OutOfFuel.
Proof.
  unfold disqualify_conflicts. apply (fold_res_not_oof (fun dq pv => match alookup (s_name pv) (r_names R) with
     | None => Ok dq | Some providers => fold_left _ providers (Ok dq) end)); [|discriminate].
  intros a pv. destruct (alookup (s_name pv) (r_names R)); [|discriminate].
  apply (fold_res_not_oof (fun dq j => if Nat.eqb j i then Ok dq else if mem_pid j dq then Ok dq
     else match conflicting_version (s_c pv) (getp R j) with None => Panic | Some false => Ok dq | Some true => Ok (j :: dq) end)); [|discriminate].
  intros d j. destruct (Nat.eqb j i); [discriminate|]. destruct (mem_pid j d); [discriminate|].
  destruct (conflicting_version (s_c pv) (getp R j)) as [[|]|]; discriminate.
Qed.

Lemma constrain_not_oof R cs dq : constrain R cs dq <> OutOfFuel.
Proof.
  unfold constrain. apply (fold_res_not_oof (fun dq d => match d_neg d with
           | Some rest => Ok (disqualify_providers R rest dq)
           | None => if (s_dep (d_pos d) =? dep_versionAny)%Z then Ok dq else
               match alookup (s_name (d_pos d)) (r_names R) with
               | None => Ok dq
               | Some providers => match s_req (d_pos d) with
                                   | None => Err
                                   | Some req => Ok (fold_left _ providers dq) end end end)); [|discriminate].
  intros a d. destruct (d_neg d); [discriminate|]. destruct (s_dep (d_pos d) =? dep_versionAny)%Z; [discriminate|].
  destruct (alookup (s_name (d_pos d)) (r_names R)); [|discriminate]. destruct (s_req (d_pos d)); discriminate.
Qed.

Lemma pick_provs_not_oof i provs : forall sel, pick_provs i provs sel <> OutOfFuel.
Proof.
  induction provs as [|pv t IH]; intros sel; simpl; [discriminate|].
  destruct (ahas (s_name pv) sel); [discriminate|]. destruct (String.eqb (s_version pv) ""); apply IH.
Qed.
Lemma pick_not_oof R i sel : pick R i sel <> OutOfFuel.
Proof.
  unfold pick. destruct (alookup (k_name (getp R i)) sel); [destruct (Nat.eqb p i); discriminate | apply pick_provs_not_oof].
Qed.

Lemma filter_length_le {A} (f : A -> bool) l : List.length (List.filter f l) <= List.length l.
Proof. induction l as [|a l IH]; simpl; [lia|]. destruct (f a); simpl; lia. Qed.

Lemma filter_length_lt {A} (f : A -> bool) l x : In x l -> f x = false -> List.length (List.filter f l) < List.length l.
Proof.
  induction l as [|a l IH]; simpl; intros Hin Hf; [contradiction|].
  destruct Hin as [->|Hin].
  - rewrite Hf. pose proof (filter_length_le f l). lia.
  - specialize (IH Hin Hf). destruct (f a); simpl; lia.
Qed.

Lemma aset_length {A} k (v : A) m : List.length (aset k v m) <= S (List.length m).
Proof.
  induction m as [|[k' v'] m IH]; simpl; [lia|]. destruct (String.eqb k' k); simpl; lia.
Qed.

Lemma eval_all_length R st k pin cs : forall opts opts', eval_all R st k pin cs opts = Some opts' ->
  List.length opts' <= List.length opts + List.length cs.
Proof.
  induction cs as [|c cs IH]; simpl; intros opts opts' H; [inversion H; lia|].
  destruct (eval_dep R st k pin c); [apply IH in H; lia | discriminate |].
  apply IH in H. pose proof (aset_length (s_raw c) (c, l) opts). lia.
Qed.

Lemma deps_loop_fuel R rec self pin parents : wf R ->
  (forall best st, valid R best -> rec best pin (k_name (getp R self) :: parents) st <> OutOfFuel) ->
  forall n cs st acc, List.length cs < n -> deps_loop R rec self pin parents n cs st acc <> OutOfFuel.
Proof.
  intros Hwf Hrec. induction n as [|n IH]; intros cs st acc Hn; [lia|].
  destruct cs as [|c0 cs0]; [simpl; discriminate|]. cbn [deps_loop]. remember (c0 :: cs0) as cs.
  destruct (eval_all R st (getp R self) pin cs []) as [opts|] eqn:EA; [|discriminate].
  destruct (lowest opts) as [[d cands]|] eqn:EL; [|discriminate].
  destruct (best_package R (s_name d) (st_existing st) (st_origins st) "" cands) as [best|] eqn:EB; [|discriminate].
  pose proof (disqualify_conflicts_not_oof R best (st_dq st)) as ND.
  destruct (disqualify_conflicts R best (st_dq st)) as [dq1| | |]; cbn [rbind]; try discriminate; [|congruence].
  pose proof (pick_not_oof R self (st_selected st)) as NP.
  destruct (pick R self (st_selected st)) as [sel1| | |]; cbn [rbind]; try discriminate; [|congruence].
  pose proof (lowest_In _ _ _ EL) as [key HL]. pose proof (best_package_In _ _ _ _ _ _ _ EB) as HB.
  assert (Vb : valid R best).
  { eapply (eval_all_opts R st (getp R self) pin cs [] opts EA); [intros ? ? ? [] | exact Hwf | exact HL | exact HB]. }
  specialize (Hrec best (with_selected (with_dq st dq1) sel1) Vb).
  destruct (rec best pin (k_name (getp R self) :: parents) (with_selected (with_dq st dq1) sel1)) as [[st2 sub]| | |];
    cbn [rbind]; try discriminate; [|congruence].
  apply IH. apply eval_all_length in EA. simpl in EA.
  assert (List.length (List.filter (fun e => negb (String.eqb (s_raw e) (s_raw d))) (List.map (fun e => fst (snd e)) opts))
          < List.length (List.map (fun e : string * (cstr * list pid) => fst (snd e)) opts)).
  { apply (filter_length_lt _ _ d).
    - apply in_map_iff. exists (key, (d, cands)). split; [reflexivity | exact HL].
    - rewrite String.eqb_refl. reflexivity. }
  rewrite map_length in H. lia.
Qed.

Definition measure (R : resolver) (parents : list string) : nat :=
  List.length (List.filter (fun n => negb (mem_str n parents)) (names_of R)).

Lemma filter_strict {A} (P Q : A -> bool) l x :
  (forall y, Q y = true -> P y = true) -> In x l -> P x = true -> Q x = false ->
  List.length (List.filter Q l) < List.length (List.filter P l).
Proof.
  intros HPQ. induction l as [|a l IH]; simpl; intros Hin HP HQ; [contradiction|].
  assert (LE : List.length (List.filter Q l) <= List.length (List.filter P l)).
  { clear -HPQ. induction l as [|b l IH]; simpl; [lia|]. destruct (Q b) eqn:EQ.
    - rewrite (HPQ b EQ). simpl. lia.
    - destruct (P b); simpl; lia. }
  destruct Hin as [->|Hin].
  - rewrite HP, HQ. simpl. lia.
  - specialize (IH Hin HP HQ). destruct (Q a) eqn:EQ.
    + rewrite (HPQ a EQ). simpl. lia.
    + destruct (P a); simpl; lia.
Qed.

Lemma measure_dec R n parents : In n (names_of R) -> mem_str n parents = false ->
  measure R (n :: parents) < measure R parents.
Proof.
  intros Hin Hm. unfold measure. apply (filter_strict _ _ _ n).
  - intros y Hy. apply negb_true_iff in Hy. apply negb_true_iff. simpl in Hy. apply orb_false_iff in Hy. tauto.
  - exact Hin.
  - rewrite Hm. reflexivity.
  - simpl. rewrite String.eqb_refl. reflexivity.
Qed.

Lemma valid_name R i : valid R i -> In (k_name (getp R i)) (names_of R).
Proof.
  intros V. unfold names_of. apply nodup_In. apply in_map. unfold getp. apply nth_In. exact V.
Qed.

Lemma get_deps_fuel R : wf R -> forall fuel i pin parents st, valid R i -> measure R parents < fuel ->
  get_deps fuel R i pin parents st <> OutOfFuel.
Proof.
  intros Hwf. induction fuel as [|f IH]; intros i pin parents st V Hm; [lia|].
  cbn [get_deps]. destruct (mem_str (k_name (getp R i)) parents) eqn:EM; [discriminate|].
  pose proof (constrain_not_oof R (k_deps (getp R i)) (st_dq st)) as NC.
  destruct (constrain R (k_deps (getp R i)) (st_dq st)) as [dq1| | |]; cbn [rbind]; try discriminate; [|congruence].
  apply deps_loop_fuel; [exact Hwf | | lia].
  intros best st' Vb. apply IH; [exact Vb|].
  pose proof (measure_dec R _ parents (valid_name R i V) EM). lia.
Qed.

Lemma next_package_In R dq : forall cs next least r, next_package R dq cs next least = Ok r -> r = next \/ In r cs.
Proof.
  induction cs as [|w t IH]; simpl; intros next least r H; [inversion H; left; reflexivity|].
  destruct (List.length (candidates R dq w)) as [|n]; [discriminate|].
  destruct (String.eqb (s_raw next) "").
  - apply IH in H. destruct H; [right; left; congruence | right; right; assumption].
  - destruct (Nat.ltb (S n) least); apply IH in H; destruct H; auto; right; left; congruence.
Qed.

Lemma next_package_first R dq w t r : next_package R dq (w :: t) (cook_str "") 0 = Ok r -> In r (w :: t).
Proof.
  simpl. destruct (List.length (candidates R dq w)) as [|n]; [discriminate|].
  change (s_raw (cook_str "")) with "". cbn [String.eqb]. intros H. apply next_package_In in H.
  destruct H; [left; congruence | right; assumption].
Qed.

Lemma next_package_not_oof R dq : forall cs next least, next_package R dq cs next least <> OutOfFuel.
Proof.
  induction cs as [|w t IH]; simpl; intros next least; [discriminate|].
  destruct (List.length (candidates R dq w)); [discriminate|].
  destruct (String.eqb (s_raw next) ""); [apply IH|]. destruct (Nat.ltb (S n) least); apply IH.
Qed.

Lemma phase1_fuel R : forall n cs dq depmap, List.length cs <= n -> phase1 n R cs dq depmap <> OutOfFuel.
Proof.
  induction n as [|n IH]; intros cs dq depmap Hn.
  - destruct cs; [simpl; discriminate | simpl in Hn; lia].
  - destruct cs as [|c cs]; [simpl; discriminate|]. cbn [phase1].
    pose proof (next_package_not_oof R dq (c :: cs) (cook_str "") 0) as NN.
    destruct (next_package R dq (c :: cs) (cook_str "") 0) as [next| | |] eqn:EN; cbn [rbind]; try discriminate; [|congruence].
    unfold resolve_package.
    destruct (best_package R (s_name next) [] [] (s_pin next) (candidates R dq next)); cbn [rbind]; [|discriminate].
    pose proof (disqualify_conflicts_not_oof R p dq) as ND.
    destruct (disqualify_conflicts R p dq) as [dq1| | |]; cbn [rbind]; try discriminate; [|congruence].
    apply IH. apply next_package_first in EN.
    pose proof (filter_length_lt (fun w => negb (String.eqb (s_raw w) (s_raw next))) (c :: cs) next EN) as L.
    cbv beta in L. rewrite String.eqb_refl in L. specialize (L eq_refl). simpl in Hn. simpl in L. simpl. lia.
Qed.

Lemma phase2_fuel R : wf R -> forall ws dq sel acc, phase2 R ws dq sel acc <> OutOfFuel.
Proof.
  intros Hwf. induction ws as [|w ws IH]; intros dq sel acc; [simpl; discriminate|].
  cbn [phase2]. unfold get_pkg, get_pkg_core.
  destruct (resolve_package R dq w) as [i| | |] eqn:ER; cbn [rbind]; try discriminate.
  - apply (resolve_package_spec R dq w i Hwf) in ER. destruct ER as [_ [V _]].
    pose proof (get_deps_fuel R Hwf (fuel_bound R) i (s_pin w) []
      {| st_dq := dq; st_selected := sel; st_existing := snd acc; st_origins := initial_origins R (snd acc) |} V) as NG.
    assert (M : measure R [] < fuel_bound R).
    { unfold measure, fuel_bound. pose proof (filter_length_le (fun n => negb (mem_str n [])) (names_of R)). lia. }
    specialize (NG M).
    destruct (get_deps (fuel_bound R) R i (s_pin w) [] _) as [[st' ds]| | |]; cbn [rbind]; try discriminate; [|congruence].
    destruct (dedup_by_name R ds) as [l added] eqn:ED. cbn [rbind].
    pose proof (iif_loop_fuel R (fuel_bound R) 0 l added (dedup_state_ok R ds l added ED)) as NI.
    assert (M2 : S (List.length (names_of R)) < fuel_bound R + 0) by (unfold fuel_bound; lia). specialize (NI M2).
    destruct (iif_loop (fuel_bound R) R 0 l added) as [deps| | |]; cbn [rbind]; try discriminate; [|congruence].
    apply IH.
  - unfold resolve_package in ER. destruct (best_package R (s_name w) [] [] (s_pin w) (candidates R dq w)); discriminate.
Qed.

Theorem resolve_not_out_of_fuel R world dq0 : wf R -> resolve_with R world dq0 <> OutOfFuel.
Proof.
  intros Hwf. unfold resolve_with.
  pose proof (constrain_not_oof R (List.map cook_dep world) dq0) as NC.
  destruct (constrain R (List.map cook_dep world) dq0) as [dq1| | |]; cbn [rbind]; try discriminate; [|congruence].
  pose proof (phase1_fuel R (List.length (List.map d_pos (List.map cook_dep world))) (List.map d_pos (List.map cook_dep world)) dq1 [] (le_n _)) as N1.
  destruct (phase1 _ R _ dq1 []) as [[dq2 depmap]| | |]; cbn [rbind]; try discriminate; [|congruence].
  apply phase2_fuel. exact Hwf.
Qed.
