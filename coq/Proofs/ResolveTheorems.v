(* C02 / C14: the statements of Properties/C02.v and Properties/C14.v, proved
   from ResolveProofs / ResolveProofs2 / C14Proofs; refutation witnesses. *)
From Apko Require Import Base.Prelude Generated.VersionConsts Model.Version Model.Resolver Spec.ResolveSpec
  Proofs.ResolveProofs Proofs.ResolveProofs2 Proofs.C14Proofs.
Open Scope string_scope. Open Scope list_scope. Open Scope nat_scope.

(* the packages behind a result *)
Definition pkgs_of (U : universe) (S : list pid) : list pkg := List.map (fun j => nth j U dummy_pkg) S.

Lemma nm_new_resolver U j : nm (new_resolver U) j = p_name (nth j U dummy_pkg).
Proof. unfold nm. rewrite getp_new_resolver. reflexivity. Qed.

Lemma nodup_lemma U W dq0 S : resolve U W dq0 = Ok S -> NoDup (List.map p_name (pkgs_of U S)).
Proof.
  intros H. apply (resolve_ok _ _ _ _ (new_resolver_wf2 U)) in H. destruct H as [H _].
  unfold pkgs_of. rewrite map_map. erewrite map_ext; [exact H|]. intros j. simpl. symmetry. apply nm_new_resolver.
Qed.

Lemma members_lemma U W dq0 S : resolve U W dq0 = Ok S ->
  incl (pkgs_of U S) U /\ forall j, In j S -> j < List.length U.
Proof.
  intros H. apply (resolve_ok _ _ _ _ (new_resolver_wf2 U)) in H. destruct H as [_ [H _]].
  rewrite Forall_forall in H.
  assert (V : forall j, In j S -> j < List.length U).
  { intros j Hj. destruct (H j Hj) as [Vj _]. unfold valid, new_resolver in Vj; cbn [r_pkgs] in Vj.
    rewrite map_length in Vj. exact Vj. }
  split; [|exact V]. intros p Hp. unfold pkgs_of in Hp. apply in_map_iff in Hp. destruct Hp as [j [<- Hj]].
  apply nth_In. apply V. exact Hj.
Qed.

Lemma failure_lemma U W dq0 :
  (forall S, resolve U W dq0 = Ok S ->
     forall w, In w W -> exists dq i, incl dq0 dq /\ In i (candidates (new_resolver U) dq (cook_str w)) /\
                                      exists j, In j S /\ p_name (nth j U dummy_pkg) = p_name (nth i U dummy_pkg)) /\
  ((exists w, In w W /\ forall dq, incl dq0 dq -> candidates (new_resolver U) dq (cook_str w) = []) ->
   forall S, resolve U W dq0 <> Ok S).
Proof.
  assert (A : forall S, resolve U W dq0 = Ok S ->
     forall w, In w W -> exists dq i, incl dq0 dq /\ In i (candidates (new_resolver U) dq (cook_str w)) /\
                                      exists j, In j S /\ p_name (nth j U dummy_pkg) = p_name (nth i U dummy_pkg)).
  { intros S H w Hw. apply (resolve_ok _ _ _ _ (new_resolver_wf2 U)) in H. destruct H as [_ [_ H]].
    destruct (H w Hw) as [dq [i [H1 [H2 [j [H3 H4]]]]]]. exists dq, i. split; [exact H1|]. split; [exact H2|].
    exists j. split; [exact H3|]. rewrite <- !nm_new_resolver. exact H4. }
  split; [exact A|]. intros [w [Hw Hnone]] S H. destruct (A S H w Hw) as [dq [i [H1 [H2 _]]]].
  rewrite (Hnone dq H1) in H2. exact H2.
Qed.

Lemma termination_lemma U W dq0 : resolve U W dq0 <> OutOfFuel.
Proof. apply resolve_not_out_of_fuel. apply new_resolver_wf. Qed.

(* ---- refutation witnesses (each is replayed on the real code by the harness corpus) ---- *)
Definition wp (n v : string) (deps provs iif : list string) : pkg :=
  {| p_name := n; p_version := v; p_origin := n; p_deps := deps; p_provides := provs; p_install_if := iif;
     p_prio := 0%N; p_pin := ""; p_repo := "https://repo0.example/x86_64" |}.

(* C02-F1 *)
Definition U_F1 : universe :=
  [wp "a" "1.0" ["c>2"] [] []; wp "b" "1.0" ["c<4"] [] []; wp "c" "1.0" [] [] []; wp "c" "3.0" [] [] []; wp "c" "5.0" [] [] []].
(* C02-F2 *)
Definition U_F2 : universe :=
  [wp "w" "1" ["d"] [] []; wp "d" "1" [] [] []; wp "d-x" "1" ["zz"] [] ["d"]; wp "zz" "1" [] [] []].
(* C02-F3 *)
Definition U_F3 : universe := [wp "a" "1.0" ["v>2"] ["v=1"] []; wp "x" "1.0" [] ["v=3"] []].
(* C02-F4 *)
Definition U_F4 : universe :=
  [wp "b" "1.0" ["y"] [] []; wp "y" "1.0" ["z"] ["x=2"] []; wp "z" "1.0" [] [] []; wp "a" "1.0" ["y"; "x<2"] [] []].
(* C02-F5 *)
Definition U_F5 : universe :=
  [wp "d" "3" ["d~2.0a"; "l"] [] []; wp "d" "2.0a" ["g"] [] []; wp "l" "1" [] [] []; wp "g" "1" [] [] []].

Definition refutes (U : universe) (W : list string) (tag : string) : Prop :=
  exists S, resolve U W [] = Ok S /\ ~ Closed U W (pkgs_of U S) /\ In tag (closed_check U W (pkgs_of U S)).

Lemma refute_by_check U W S tag :
  resolve U W [] = Ok S -> In tag (closed_check U W (pkgs_of U S)) -> refutes U W tag.
Proof.
  intros H T. exists S. split; [exact H|]. split; [|exact T].
  intro C. apply closed_check_spec in C. rewrite C in T. exact T.
Qed.

Lemma refuted_F1 : refutes U_F1 ["a"; "b"] "dep-unsat/same-name-other-version".
Proof. apply (refute_by_check _ _ [4; 0; 1]); vm_compute; [reflexivity | left; reflexivity]. Qed.
Lemma refuted_F2 : refutes U_F2 ["w"] "dep-unsat/install-if-member".
Proof. apply (refute_by_check _ _ [1; 2; 0]); vm_compute; [reflexivity | left; reflexivity]. Qed.
Lemma refuted_F3 : refutes U_F3 ["a"] "dep-unsat/self-provided".
Proof. apply (refute_by_check _ _ [0]); vm_compute; [reflexivity | left; reflexivity]. Qed.
Lemma refuted_F4 : refutes U_F4 ["b"; "a"] "dep-unsat/provider-other-version".
Proof. apply (refute_by_check _ _ [2; 1; 0; 3]); vm_compute; [reflexivity | left; reflexivity]. Qed.
Lemma refuted_F5 : refutes U_F5 ["d"] "dep-unsat/absent".
Proof. apply (refute_by_check _ _ [1; 2]); vm_compute; [reflexivity | left; reflexivity]. Qed.

Lemma closed_refuted_lemma :
  refutes U_F1 ["a"; "b"] "dep-unsat/same-name-other-version" /\
  refutes U_F2 ["w"] "dep-unsat/install-if-member" /\
  refutes U_F3 ["a"] "dep-unsat/self-provided" /\
  refutes U_F4 ["b"; "a"] "dep-unsat/provider-other-version" /\
  refutes U_F5 ["d"] "dep-unsat/absent".
Proof. repeat split; [exact refuted_F1 | exact refuted_F2 | exact refuted_F3 | exact refuted_F4 | exact refuted_F5]. Qed.

(* ---- C14 ------------------------------------------------------------------------------- *)
Lemma foreign_check_spec others S : foreign_check others S = [] <-> NoForeign others S.
Proof.
  unfold foreign_check, NoForeign. rewrite flat_map_nil. split.
  - intros H p V Hp HV. specialize (H p Hp).
    destruct (forallb (fun V => available_in V p) others) eqn:B; [|destruct (p_install_if p); discriminate].
    rewrite forallb_forall in B. apply available_in_spec. apply B. exact HV.
  - intros H p Hp.
    assert (B : forallb (fun V => available_in V p) others = true).
    { apply forallb_forall. intros V HV. apply available_in_spec. apply H; assumption. }
    rewrite B. reflexivity.
Qed.

Definition others_of (by_arch : list (string * universe)) (a : string) : list universe :=
  List.map snd (List.filter (fun bv => negb (String.eqb (fst bv) a)) by_arch).

Lemma no_foreign_partial_lemma by_arch a U W S :
  In (a, U) by_arch -> (forall p, In p U -> p_install_if p = []) ->
  resolve U W (dq_for by_arch a) = Ok S ->
  NoForeign (others_of by_arch a) (pkgs_of U S).
Proof.
  intros Ha Hno H p V Hp HV. unfold pkgs_of in Hp. apply in_map_iff in Hp. destruct Hp as [j [<- Hj]].
  unfold others_of in HV. apply in_map_iff in HV. destruct HV as [[b V'] [E HV]]. simpl in E. subst V'.
  apply filter_In in HV. destruct HV as [HV1 HV2]. simpl in HV2. apply negb_true_iff in HV2. apply String.eqb_neq in HV2.
  eapply no_foreign_partial; eassumption.
Qed.

(* C14-F1 *)
Definition BA_F1 : list (string * universe) :=
  [("x86_64", [wp "w" "1" ["a"] [] []; wp "a" "1" [] [] []; wp "a-x" "1" [] [] ["a"]]);
   ("aarch64", [wp "w" "1" ["a"] [] []; wp "a" "1" [] [] []])].

Lemma no_foreign_refuted_lemma :
  exists by_arch a U W S,
    In (a, U) by_arch /\ resolve U W (dq_for by_arch a) = Ok S /\
    ~ NoForeign (others_of by_arch a) (pkgs_of U S) /\
    In "foreign-version/install-if-member" (foreign_check (others_of by_arch a) (pkgs_of U S)).
Proof.
  exists BA_F1, "x86_64", (snd (nth 0 BA_F1 ("", []))), ["w"], [1; 2; 0].
  split; [left; reflexivity|]. split; [vm_compute; reflexivity|].
  assert (T : In "foreign-version/install-if-member"
                (foreign_check (others_of BA_F1 "x86_64") (pkgs_of (snd (nth 0 BA_F1 ("", []))) [1; 2; 0]))).
  { vm_compute. left. reflexivity. }
  split; [|exact T]. intro C. apply foreign_check_spec in C. rewrite C in T. exact T.
Qed.

Lemma single_arch_lemma by_arch : List.length by_arch <= 1 ->
  disqualify_difference by_arch = [] /\
  forall a U W, resolve U W (dq_for by_arch a) = resolve U W [].
Proof.
  intros H. pose proof (single_arch_nothing by_arch H) as E. split; [exact E|].
  intros a U W. unfold dq_for. rewrite E. reflexivity.
Qed.

(* ---- "a successful result satisfies every request" is false too ------------------------ *)
(* C02-F1c: the requested provider is dropped by the de-duplication by name *)
Definition U_F1c : universe := [wp "d" "2.0" ["l"] ["k"] []; wp "d" "1.0" [] ["l"] []].
(* C02-F6: an install_if package of the requested name, added without consulting dq *)
Definition U_F6 : universe :=
  [wp "a" "1.0" [] [] []; wp "r" "1.0" ["a"] [] []; wp "c" "5.0" [] [] ["a"]; wp "c" "1.0" [] [] []].

Definition request_refutes (U : universe) (W : list string) (w tag : string) : Prop :=
  exists S, resolve U W [] = Ok S /\ In w W /\ ~ satisfies_dep (pkgs_of U S) w /\
            In tag (closed_check U W (pkgs_of U S)).

Lemma request_refute_by_check U W S w tag :
  resolve U W [] = Ok S -> In w W ->
  satisfies_dep_b (List.map cook_pkg (pkgs_of U S)) (cook_str w) = false ->
  In tag (closed_check U W (pkgs_of U S)) -> request_refutes U W w tag.
Proof.
  intros H Hw B T. exists S. split; [exact H|]. split; [exact Hw|]. split; [|exact T].
  intro C. apply satisfies_dep_b_spec in C. congruence.
Qed.

Lemma request_unsat_refuted_lemma :
  request_refutes U_F1c ["k"] "k" "request-unsat/sibling-of-member" /\
  request_refutes U_F6 ["r"; "c<2"] "c<2" "request-unsat/install-if-member".
Proof.
  split.
  - apply (request_refute_by_check _ _ [1]); vm_compute; [reflexivity | left; reflexivity | reflexivity | left; reflexivity].
  - apply (request_refute_by_check _ _ [0; 2; 1]); vm_compute; [reflexivity | right; left; reflexivity | reflexivity | left; reflexivity].
Qed.
