(* C11 — proofs about the licensing side (Model/SbomLic.v, Spec/SbomLicSpec.v). *)
From Apko Require Import Base.Prelude Model.Sbom Model.SbomLic Spec.SbomSpec Spec.SbomLicSpec Proofs.SbomProofs Proofs.SbomNumbered.
Open Scope string_scope. Open Scope list_scope.

(* ---- booleans ---------------------------------------------------------------- *)
Lemma linfo_eqb_iff a b : linfo_eqb a b = true <-> a = b.
Proof.
  unfold linfo_eqb. rewrite andb_true_iff, !String.eqb_eq. destruct a, b; cbn. split.
  - intros [-> ->]. reflexivity.
  - intro E. inversion E. split; reflexivity.
Qed.

Lemma lmem_In x l : lmem x l = true <-> In x l.
Proof.
  unfold lmem. rewrite existsb_exists. split.
  - intros [y [Hy E]]. apply linfo_eqb_iff in E. subst. exact Hy.
  - intro H. exists x. split; [exact H | apply linfo_eqb_iff; reflexivity].
Qed.

Lemma linfo_ext a b : l_id a = l_id b -> l_text a = l_text b -> a = b.
Proof. destruct a, b; cbn; intros -> ->; reflexivity. Qed.

(* ---- find_lic ------------------------------------------------------------------ *)
Lemma find_lic_some id tgt t : find_lic id tgt = Some t -> In t tgt /\ l_id t = id.
Proof.
  induction tgt as [|x r IH]; cbn; [discriminate|].
  destruct (String.eqb (l_id x) id) eqn:E.
  - intro H. inversion H; subst. apply String.eqb_eq in E. split; [left; reflexivity | exact E].
  - intro H. destruct (IH H) as [H1 H2]. split; [right; exact H1 | exact H2].
Qed.

Lemma find_lic_none id tgt : find_lic id tgt = None <-> ~ In id (lic_ids tgt).
Proof.
  induction tgt as [|x r IH]; cbn; [tauto|].
  destruct (String.eqb (l_id x) id) eqn:E.
  - apply String.eqb_eq in E. split; [discriminate | intro H; exfalso; apply H; left; exact E].
  - apply String.eqb_neq in E. rewrite IH. tauto.
Qed.

(* ---- mergeLicensingInfos --------------------------------------------------------- *)
Lemma merge_total src : forall tgt, (exists out, merge_licensing src tgt = Ok out) \/ merge_licensing src tgt = Err.
Proof.
  induction src as [|s r IH]; intro tgt; cbn; [left; eexists; reflexivity|].
  destruct (find_lic (l_id s) tgt) as [t|]; [|apply IH].
  destruct (String.eqb (l_text t) (l_text s)); [apply IH | right; reflexivity].
Qed.

Lemma lic_ids_app a b : lic_ids (a ++ b) = lic_ids a ++ lic_ids b.
Proof. apply map_app. Qed.

Lemma merge_ok_union src : forall tgt out, merge_licensing src tgt = Ok out -> LicUnion src tgt out.
Proof.
  induction src as [|s r IH]; intros tgt out; cbn.
  - intro H. inversion H; subst. split.
    + exists []. rewrite app_nil_r. repeat split; [intros x [] | constructor | intros a []].
    + intros x [].
  - destruct (find_lic (l_id s) tgt) as [t|] eqn:F.
    + destruct (String.eqb (l_text t) (l_text s)) eqn:T; [|discriminate].
      intro H. destruct (IH _ _ H) as [[added [E [I [N D]]]] Inc].
      apply find_lic_some in F. destruct F as [F1 F2]. apply String.eqb_eq in T.
      assert (t = s) by (apply linfo_ext; assumption). subst t.
      split.
      * exists added. repeat split; try assumption. intros x Hx. right. apply I. exact Hx.
      * intros x [<-|Hx]; [rewrite E; apply in_or_app; left; exact F1 | apply Inc; exact Hx].
    + intro H. destruct (IH _ _ H) as [[added [E [I [N D]]]] Inc].
      apply find_lic_none in F. split.
      * exists (s :: added). split; [rewrite E, <- app_assoc; reflexivity|]. split.
        { intros x [<-|Hx]; [left; reflexivity | right; apply I; exact Hx]. }
        split.
        { cbn. constructor; [|exact N]. intro Hin. apply in_map_iff in Hin. destruct Hin as [a [Ea Ha]].
          apply (D a Ha). rewrite lic_ids_app. apply in_or_app. right. left. symmetry. exact Ea. }
        { intros a [<-|Ha]; [exact F|]. intro Hin. apply (D a Ha). rewrite lic_ids_app. apply in_or_app. left. exact Hin. }
      * intros x [<-|Hx]; [rewrite E; apply in_or_app; left; apply in_or_app; right; left; reflexivity | apply Inc; exact Hx].
Qed.

Lemma nodup_app_disjoint {A} (l1 l2 : list A) : NoDup l1 -> NoDup l2 -> (forall x, In x l2 -> ~ In x l1) -> NoDup (l1 ++ l2).
Proof.
  induction l1 as [|a l1 IH]; cbn; intros N1 N2 D; [exact N2|].
  inversion N1; subst. constructor.
  - intro H. apply in_app_or in H. destruct H as [H|H]; [contradiction | apply (D a H); left; reflexivity].
  - apply IH; [assumption | assumption | intros x Hx Hin; apply (D x Hx); right; exact Hin].
Qed.

Lemma lic_union_nodup src tgt out : LicUnion src tgt out -> NoDup (lic_ids tgt) -> NoDup (lic_ids out).
Proof.
  intros [[added [E [I [N D]]]] _] Nt. subst out. rewrite lic_ids_app. apply nodup_app_disjoint; [exact Nt | exact N|].
  intros x Hx. apply in_map_iff in Hx. destruct Hx as [a [<- Ha]]. apply D. exact Ha.
Qed.

Lemma lic_union_from src tgt out : LicUnion src tgt out -> forall i, In i out -> In i tgt \/ In i src.
Proof.
  intros [[added [E [I _]]] _] i Hi. subst out. apply in_app_or in Hi. destruct Hi as [H|H]; [left; exact H | right; apply I; exact H].
Qed.

Lemma lic_union_keeps src tgt out : LicUnion src tgt out -> incl tgt out.
Proof. intros [[added [E _]] _] i Hi. subst out. apply in_or_app. left. exact Hi. Qed.

(* an error names a conflict: a source info whose id is carried, with another
   text, by the first target info of that id or by an earlier source info *)
Lemma merge_err_conflict src : forall tgt, merge_licensing src tgt = Err ->
  exists s t, In s src /\ In t (tgt ++ src) /\ l_id t = l_id s /\ l_text t <> l_text s.
Proof.
  induction src as [|s r IH]; intro tgt; cbn; [discriminate|].
  destruct (find_lic (l_id s) tgt) as [t|] eqn:F.
  - destruct (String.eqb (l_text t) (l_text s)) eqn:T.
    + intro H. destruct (IH _ H) as [s' [t' [H1 [H2 [H3 H4]]]]]. exists s', t'. repeat split; try assumption.
      * right. exact H1.
      * apply in_app_or in H2. apply in_or_app. destruct H2 as [H2|H2]; [left; exact H2 | right; right; exact H2].
    + intros _. apply find_lic_some in F. destruct F as [F1 F2]. apply String.eqb_neq in T.
      exists s, t. repeat split; [left; reflexivity | apply in_or_app; left; exact F1 | exact F2 | exact T].
  - intro H. destruct (IH _ H) as [s' [t' [H1 [H2 [H3 H4]]]]]. exists s', t'. repeat split; try assumption.
    + right. exact H1.
    + rewrite <- app_assoc in H2. exact H2.
Qed.

Lemma merge_consistent_ok src tgt : Consistent (tgt ++ src) -> exists out, merge_licensing src tgt = Ok out.
Proof.
  intro C. destruct (merge_total src tgt) as [H|H]; [exact H|].
  destruct (merge_err_conflict _ _ H) as [s [t [H1 [H2 [H3 H4]]]]]. exfalso. apply H4.
  apply C; [exact H2 | apply in_or_app; right; exact H1 | exact H3].
Qed.

(* ---- the validators ---------------------------------------------------------------- *)
Lemma firstn_app_exact {A} (l1 l2 : list A) : firstn (List.length l1) (l1 ++ l2) = l1.
Proof. induction l1; cbn; [destruct l2; reflexivity | f_equal; assumption]. Qed.
Lemma skipn_app_exact {A} (l1 l2 : list A) : skipn (List.length l1) (l1 ++ l2) = l2.
Proof. induction l1; cbn; [reflexivity | assumption]. Qed.

Lemma forallb_lmem l1 l2 : forallb (fun a => lmem a l2) l1 = true <-> incl l1 l2.
Proof.
  rewrite forallb_forall. split.
  - intros H x Hx. apply lmem_In. apply H. exact Hx.
  - intros H x Hx. apply lmem_In. apply H. exact Hx.
Qed.

Lemma lic_union_b_iff src tgt out : lic_union_b src tgt out = true <-> LicUnion src tgt out.
Proof.
  unfold lic_union_b, LicUnion. rewrite !andb_true_iff, !forallb_lmem, nodup_b_iff, (list_eqb_spec _ linfo_eqb_iff), forallb_forall.
  split.
  - intros [[[[E I] N] D] S]. split; [|exact S].
    exists (skipn (List.length tgt) out). split; [rewrite <- E at 1; symmetry; apply firstn_skipn|].
    split; [exact I|]. split; [exact N|].
    intros a Ha Hin. specialize (D a Ha). apply negb_true_iff in D. apply mem_false in D. contradiction.
  - intros [[added [E [I [N D]]]] S]. subst out. rewrite firstn_app_exact, skipn_app_exact.
    repeat split; try assumption.
    intros a Ha. apply negb_true_iff. apply mem_false. apply D. exact Ha.
Qed.

Lemma lic_preserved_b_iff used out : lic_preserved_b used out = true <-> LicPreserved used out.
Proof.
  unfold lic_preserved_b, LicPreserved. rewrite !andb_true_iff, nodup_b_iff, !forallb_forall. split.
  - intros [[N K] F]. split; [exact N|]. split.
    + intros l i Hl Hi. apply lmem_In. specialize (K l Hl). rewrite forallb_forall in K. apply K. exact Hi.
    + intros i Hi. specialize (F i Hi). apply existsb_exists in F. destruct F as [l [Hl Hm]]. exists l. split; [exact Hl | apply lmem_In; exact Hm].
  - intros [N [K F]]. repeat split; [exact N | |].
    + intros l Hl. apply forallb_forall. intros i Hi. apply lmem_In. apply (K l i Hl Hi).
    + intros i Hi. destruct (F i Hi) as [l [Hl Hm]]. apply existsb_exists. exists l. split; [exact Hl | apply lmem_In; exact Hm].
Qed.

Lemma consistent_b_iff l : consistent_b l = true <-> Consistent l.
Proof.
  unfold consistent_b, Consistent. rewrite forallb_forall. split.
  - intros H a b Ha Hb E. specialize (H a Ha). rewrite forallb_forall in H. specialize (H b Hb).
    apply orb_true_iff in H. destruct H as [H|H]; [|apply String.eqb_eq; exact H].
    apply negb_true_iff in H. apply String.eqb_neq in H. contradiction.
  - intros H a Ha. apply forallb_forall. intros b Hb. destruct (String.eqb (l_id a) (l_id b)) eqn:E; [|reflexivity].
    apply String.eqb_eq in E. cbn. apply String.eqb_eq. apply H; assumption.
Qed.

(* ---- the apk loop ------------------------------------------------------------------- *)
Lemma process_lics_spec fs lfs apks : forall acc out, NoDup (lic_ids acc) -> process_lics fs lfs apks acc = Ok out ->
  NoDup (lic_ids out) /\ incl acc out /\
  (forall a i, In a apks -> In i (used_lics fs lfs a) -> In i out) /\
  (forall i, In i out -> In i acc \/ exists a, In a apks /\ In i (used_lics fs lfs a)).
Proof.
  induction apks as [|a t IH]; intros acc out N; cbn.
  - intro H. inversion H; subst. repeat split; [exact N | intros x Hx; exact Hx | intros a i [] | intros i Hi; left; exact Hi].
  - intro H. apply rbind_ok in H. destruct H as [acc' [M H]].
    apply merge_ok_union in M. pose proof (lic_union_nodup _ _ _ M N) as N'.
    destruct (IH _ _ N' H) as [No [Inc [All From]]].
    split; [exact No|]. split; [intros x Hx; apply Inc; apply (lic_union_keeps _ _ _ M); exact Hx|]. split.
    + intros b i [<-|Hb] Hi; [apply Inc; destruct M as [_ S]; apply S; exact Hi | apply (All b i Hb Hi)].
    + intros i Hi. destruct (From i Hi) as [H1|[b [Hb H1]]].
      * destruct (lic_union_from _ _ _ M i H1) as [H2|H2]; [left; exact H2 | right; exists a; split; [left; reflexivity | exact H2]].
      * right. exists b. split; [right; exact Hb | exact H1].
Qed.

Lemma process_lics_preserved fs lfs apks out : process_lics fs lfs apks [] = Ok out ->
  LicPreserved (used_lists fs lfs apks) out.
Proof.
  intro H. destruct (process_lics_spec fs lfs apks [] out (NoDup_nil _) H) as [N [_ [All From]]].
  split; [exact N|]. split.
  - intros l i Hl Hi. apply in_map_iff in Hl. destruct Hl as [a [<- Ha]]. apply (All a i Ha Hi).
  - intros i Hi. destruct (From i Hi) as [F0|[a [Ha H1]]]; [destruct F0|]. exists (used_lics fs lfs a). split; [apply in_map; exact Ha | exact H1].
Qed.

Lemma process_lics_total fs lfs apks : forall acc, (exists out, process_lics fs lfs apks acc = Ok out) \/ process_lics fs lfs apks acc = Err.
Proof.
  induction apks as [|a t IH]; intro acc; cbn; [left; eexists; reflexivity|].
  destruct (merge_total (used_lics fs lfs a) acc) as [[acc' ->] | ->]; cbn; [apply IH | right; reflexivity].
Qed.

Lemma consistent_incl l1 l2 : incl l1 l2 -> Consistent l2 -> Consistent l1.
Proof. intros I C a b Ha Hb. apply C; apply I; assumption. Qed.

Lemma process_lics_consistent fs lfs apks : forall acc,
  Consistent (acc ++ List.concat (used_lists fs lfs apks)) -> exists out, process_lics fs lfs apks acc = Ok out.
Proof.
  induction apks as [|a t IH]; intros acc C; cbn; [eexists; reflexivity|].
  cbn in C. destruct (merge_consistent_ok (used_lics fs lfs a) acc) as [acc' M].
  { eapply consistent_incl; [|exact C]. intros x Hx. apply in_app_or in Hx. apply in_or_app.
    destruct Hx as [Hx|Hx]; [left; exact Hx | right; apply in_or_app; left; exact Hx]. }
  rewrite M. cbn. apply IH. apply merge_ok_union in M.
  eapply consistent_incl; [|exact C]. intros x Hx. apply in_app_or in Hx. apply in_or_app. destruct Hx as [Hx|Hx].
  - destruct (lic_union_from _ _ _ M x Hx) as [H|H]; [left; exact H | right; apply in_or_app; left; exact H].
  - right. apply in_or_app. right. exact Hx.
Qed.

Lemma nodup_ids_consistent l : NoDup (lic_ids l) -> Consistent l.
Proof.
  induction l as [|x r IH]; cbn; intros N a b Ha Hb E; [destruct Ha|].
  inversion N; subst. destruct Ha as [<-|Ha], Hb as [<-|Hb].
  - reflexivity.
  - exfalso. apply H1. rewrite E. apply in_map. exact Hb.
  - exfalso. apply H1. rewrite <- E. apply in_map. exact Ha.
  - apply (IH H2 a b Ha Hb E).
Qed.

(* Generate's merges all succeed exactly when the infos of the documents it uses agree
   on the text of every id *)
Lemma process_lics_ok_iff fs lfs apks :
  (exists out, process_lics fs lfs apks [] = Ok out) <-> Consistent (List.concat (used_lists fs lfs apks)).
Proof.
  split.
  - intros [out H]. apply process_lics_preserved in H. destruct H as [N [K _]].
    eapply consistent_incl; [|apply nodup_ids_consistent; exact N].
    intros i Hi. apply in_concat in Hi. destruct Hi as [l [Hl Hi]]. apply (K l i Hl Hi).
  - intro C. apply (process_lics_consistent fs lfs apks []). exact C.
Qed.

(* ---- Generate ------------------------------------------------------------------------ *)
Lemma generate_full_ok perm g lfs d l : generate_full perm g lfs = Ok (d, l) ->
  generate perm g = Ok d /\ LicPreserved (used_lists (g_fs g) lfs (g_apks g)) l.
Proof.
  unfold generate_full. destruct (generate perm g) as [d0| | |]; try discriminate.
  destruct (process_lics (g_fs g) lfs (g_apks g) []) as [l0| | |] eqn:P; try discriminate.
  intro H. inversion H; subst. split; [reflexivity | apply process_lics_preserved; exact P].
Qed.

Lemma generate_full_doc perm g lfs : Consistent (List.concat (used_lists (g_fs g) lfs (g_apks g))) ->
  forall d, generate perm g = Ok d -> exists l, generate_full perm g lfs = Ok (d, l).
Proof.
  intros C d H. unfold generate_full. rewrite H. apply process_lics_ok_iff in C. destruct C as [out ->]. eexists. reflexivity.
Qed.

Lemma generate_full_fuel perm g lfs : generate_full perm g lfs <> OutOfFuel.
Proof.
  unfold generate_full. pose proof (gen_fuel perm g) as F. destruct (generate perm g); try discriminate; [|contradiction].
  destruct (process_lics (g_fs g) lfs (g_apks g) []); discriminate.
Qed.

(* the file name whose document is used and the document Spec/SbomSpec.v speaks of are the same thing *)
Lemma locate_key_locate fs cands : locate fs cands = match locate_key fs cands with Some k => lookup k fs | None => None end.
Proof.
  induction cands as [|c t IH]; cbn; [reflexivity|].
  destruct (lookup c fs) eqn:L; [symmetry; exact L | exact IH].
Qed.

Lemma used_key_located fs a : (exists k, used_key fs a = Some k) <-> (exists e, located_in fs a = Some e).
Proof.
  unfold used_key, located_in. rewrite locate_key_locate.
  destruct (locate_key fs (candidates (a_name a) (a_version a))) as [k|]; [|split; intros [x H]; discriminate].
  destruct (lookup k fs) as [[e| |]|]; split; intros [x H]; try discriminate; eexists; reflexivity.
Qed.

(* non-vacuity and the two ways of failing *)
Definition lic_mit := {| l_id := "LicenseRef-MIT-foo"; l_text := "Permission is hereby granted" |}.
Definition lic_mit' := {| l_id := "LicenseRef-MIT-foo"; l_text := "another text" |}.
Definition lic_bsd := {| l_id := "LicenseRef-BSD-bar"; l_text := "Redistribution and use" |}.
Definition lic_g : gen_in :=
  {| g_image := "sha256:ab"; g_layers := [("sha256", "c1")]; g_osver := "1"; g_vcs := "";
     g_apks := [ {| a_name := "foo"; a_version := "1.0-r0"; a_sum := [1]%N |}; {| a_name := "bar"; a_version := "2.0-r1"; a_sum := [2]%N |} ];
     g_fs := [("foo-1.0.spdx.json", FDoc foo_sbom); ("bar.spdx.json", FDoc bar_sbom)] |}.
Lemma lic_example : exists d, generate_full (fun l => l) lic_g [("foo-1.0.spdx.json", [lic_mit; lic_bsd]); ("bar.spdx.json", [lic_bsd; lic_mit])] = Ok (d, [lic_mit; lic_bsd]).
Proof. eexists. vm_compute. reflexivity. Qed.
Lemma lic_example_conflict : generate_full (fun l => l) lic_g [("foo-1.0.spdx.json", [lic_mit]); ("bar.spdx.json", [lic_bsd; lic_mit'])] = Err
  /\ exists d, generate (fun l => l) lic_g = Ok d.
Proof. split; [vm_compute; reflexivity | eexists; vm_compute; reflexivity]. Qed.

(* a licence id that the document of an installed apk defines is defined in the generated document *)
Lemma generate_full_no_reference_lost perm g lfs d l a refs : generate_full perm g lfs = Ok (d, l) ->
  In a (g_apks g) -> incl refs (lic_ids (used_lics (g_fs g) lfs a)) -> incl refs (lic_ids l).
Proof.
  intros H Ha I id Hid. apply generate_full_ok in H. destruct H as [_ [_ [K _]]].
  specialize (I id Hid). apply in_map_iff in I. destruct I as [i [<- Hi]]. apply in_map.
  apply (K (used_lics (g_fs g) lfs a) i); [apply in_map; exact Ha | exact Hi].
Qed.

Lemma generate_full_iff_consistent perm g lfs d : generate perm g = Ok d ->
  ((exists l, generate_full perm g lfs = Ok (d, l)) <-> Consistent (List.concat (used_lists (g_fs g) lfs (g_apks g)))).
Proof.
  intro H. split.
  - intros [l F]. unfold generate_full in F. rewrite H in F.
    destruct (process_lics (g_fs g) lfs (g_apks g) []) as [l0| | |] eqn:P; try discriminate.
    apply process_lics_ok_iff. exists l0. exact P.
  - intro C. apply generate_full_doc; assumption.
Qed.
