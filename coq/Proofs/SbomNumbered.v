(* C11 — the CURRENT Generate (Model.Sbom.generate: ids that are taken get numbered, fix
   7c2586e).  Its theorems are obtained from Proofs/SbomRepairProofs.v (generate is
   generate_r true false), by redoing the short inductions over the apk loop, or, for the
   two-target envelope, by transfer from the code before the fix under NoIdClash. *)
From Coq Require Import Permutation.
From Apko Require Import Base.Prelude Base.Regex Base.C11Lib Generated.Regexes Generated.C11Prov Model.Sbom Model.SbomRepair
  Spec.SbomSpec Proofs.SbomProofs Proofs.SbomTwoTargets Proofs.SbomRepairProofs.
Open Scope string_scope. Open Scope list_scope.

(* what goextract read in Generate on this run *)
Lemma id_policy_read : apk_id_policy = IdNumbered 2.
Proof. reflexivity. Qed.

Lemma rbind_ext {A B} (r1 r2 : res A) (f g : A -> res B) : r1 = r2 -> (forall a, f a = g a) -> rbind r1 f = rbind r2 g.
Proof. intros -> H. destruct r2; cbn [rbind]; auto. Qed.

Lemma process_apks_is_r perm fs nonce apks : forall d,
  process_apks perm fs nonce apks d = process_apks_r true false perm fs nonce apks d.
Proof.
  induction apks as [|a apks IH]; intro d; [reflexivity|]. cbn [process_apks process_apks_r].
  cbv delta [apk_id_policy]. cbn [mint_id]. fold pick_id.
  apply rbind_ext; [reflexivity|]. intro i. apply rbind_ext; [reflexivity|]. intro d2. apply IH.
Qed.

Lemma model_is_numbered perm g : generate perm g = generate_r true false perm g.
Proof. unfold generate, generate_r. destruct (g_layers g); [reflexivity|]. rewrite process_apks_is_r. reflexivity. Qed.

Lemma gen_inv perm g d : generate perm g = Ok d ->
  g_layers g <> [] /\
  exists d0, process_apks perm (g_fs g) (nonce_of g) (g_apks g) (base_doc g) = Ok d0 /\
    d = {| d_pkgs := dedup_pkgs [] (d_pkgs d0); d_rels := d_rels d0; d_desc := d_desc d0 |}.
Proof.
  unfold generate. destruct (g_layers g) eqn:E; [discriminate|]. intro H.
  apply rbind_ok in H. destruct H as (d0 & H0 & H1). inversion H1; subst.
  split; [discriminate|]. exists d0. split; [exact H0 | reflexivity].
Qed.

Lemma gen_ids_unique perm g d : generate perm g = Ok d -> IdsUnique d.
Proof. rewrite model_is_numbered. apply generate_r_ids_unique. Qed.

Lemma gen_fuel perm g : generate perm g <> OutOfFuel.
Proof. rewrite model_is_numbered. apply generate_r_fuel. Qed.

(* ---- references: the inductions over the apk loop do not care which id the own element got ---- *)
Lemma process_apks_refs_n perm fs nonce : (forall l, Permutation (perm l) l) ->
  forall apks d d', RefsResolve d -> (List.length (d_desc d) <= 1)%nat ->
  (forall a, In a apks -> forall e, locate fs (candidates (a_name a) (a_version a)) = Some (FDoc e) ->
     (List.length (targets (a_name a) e) <= 1)%nat) ->
  process_apks perm fs nonce apks d = Ok d' -> RefsResolve d'.
Proof.
  intros P. induction apks as [|a apks IH]; intros d d' R L S H; cbn [process_apks] in H.
  - inversion H; subst; exact R.
  - apply rbind_ok in H. destruct H as (i & _ & H). apply rbind_ok in H. destruct H as (d2 & H2 & H).
    pose proof (add_own_refs d (with_id (apk_package nonce a) i) R) as R1.
    assert (RefsResolve d2 /\ List.length (d_desc d2) = List.length (d_desc d)) as [R2 L2].
    { destruct (locate fs (candidates (a_name a) (a_version a))) as [[e| |]|] eqn:Loc.
      - apply (process_internal_refs perm fs _ (a_name a) (a_version a) e d2 R1 L Loc (S a (or_introl eq_refl) e Loc) P H2).
      - unfold process_internal in H2. rewrite Loc in H2. inversion H2; subst. split; [exact R1 | reflexivity].
      - unfold process_internal in H2. rewrite Loc in H2. discriminate H2.
      - unfold process_internal in H2. rewrite Loc in H2. inversion H2; subst. split; [exact R1 | reflexivity]. }
    apply (IH d2 d' R2); [lia | intros; eapply S; [right; eassumption | eassumption] | exact H].
Qed.

Lemma gen_refs_single perm g d : (forall l, Permutation (perm l) l) -> SingleTarget g ->
  generate perm g = Ok d -> RefsResolve d.
Proof.
  intros P S H. apply gen_inv in H. destruct H as (L & d0 & H0 & ->).
  pose proof (process_apks_refs_n perm (g_fs g) (nonce_of g) P (g_apks g) (base_doc g) d0 (base_doc_refs g L) (base_doc_desc g) S H0) as R.
  apply (refs_resolve_more_pkgs d0); [exact R|]. intros x Hx. apply dedup_pkgs_spec. split; [exact Hx | intros []].
Qed.

(* ---- no embedded documents ------------------------------------------------------------------------ *)
Lemma gen_plain_shape perm g d : NoEmbedded g -> generate perm g = Ok d ->
  g_layers g <> [] /\ exists elems,
    d_pkgs d = dedup_pkgs [] (d_pkgs (base_doc g) ++ elems) /\ d_rels d = d_rels (base_doc g) /\ d_desc d = d_desc (base_doc g) /\
    chain (nonce_of g) (d_pkgs (base_doc g)) (g_apks g) elems.
Proof.
  intros NE H. apply gen_inv in H. destruct H as (L & d0 & H0 & ->). split; [exact L|].
  rewrite process_apks_is_r in H0. apply process_apks_r_plain in H0; [|exact NE].
  destruct H0 as (elems & P & Rl & Ds & Ch). exists elems. cbn [d_pkgs d_rels d_desc]. rewrite P. auto.
Qed.

Lemma gen_plain_refs perm g d : NoEmbedded g -> generate perm g = Ok d -> RefsResolve d.
Proof.
  intros NE H. destruct (gen_plain_shape perm g d NE H) as (L & elems & P & Rl & Ds & _).
  pose proof (base_doc_refs g L) as [A B]. split.
  - intros r Hr. rewrite Rl in Hr. destruct (A r Hr) as [X Y]. unfold ids. rewrite P.
    split; apply dedup_pkgs_spec; (split; [rewrite map_app; apply in_or_app; left; assumption | intros []]).
  - intros x Hx. rewrite Ds in Hx. unfold ids. rewrite P. apply dedup_pkgs_spec.
    split; [rewrite map_app; apply in_or_app; left; apply B, Hx | intros []].
Qed.

Lemma gen_plain_image perm g d : NoEmbedded g -> g_image g <> "" -> generate perm g = Ok d ->
  DescribesImage (g_image g) d.
Proof.
  intros NE I H. destruct (gen_plain_shape perm g d NE H) as (_ & elems & P & _ & Ds & _).
  apply String.eqb_neq in I. exists (image_package (g_image g)). rewrite P, Ds. unfold base_doc. rewrite I.
  destruct (String.eqb (g_vcs g) ""); simpl; (split; [left; reflexivity | repeat split]).
Qed.

Lemma gen_plain_layers perm g d : NoEmbedded g -> NoDup (ids (base_doc g)) -> generate perm g = Ok d ->
  NamesLayers (g_layers g) d.
Proof.
  intros NE N H. destruct (gen_plain_shape perm g d NE H) as (_ & elems & P & _ & _ & _).
  intros h Hh. exists (layer_package (g_osver g) h). split; [|reflexivity]. rewrite P.
  pose proof (layer_in_base g h Hh) as Hin. apply in_split in Hin. destruct Hin as (l1 & l2 & E).
  unfold ids in N. rewrite E in *. rewrite <- app_assoc. simpl.
  apply dedup_pkgs_keeps_first; [|intros []].
  rewrite map_app in N. cbn [List.map] in N. apply NoDup_remove_2 in N. intro Hx. apply N. apply in_or_app. left; exact Hx.
Qed.

Lemma gen_plain_digests perm g d : NoEmbedded g -> generate perm g = Ok d ->
  (g_image g <> "" -> DescribesImage (g_image g) d) /\
  (NoDup (ids (base_doc g)) -> NamesLayers (g_layers g) d).
Proof. intros NE H. split; intro X; [eapply gen_plain_image | eapply gen_plain_layers]; eassumption. Qed.

(* THE POSITIVE STATEMENT: exactly one element per installed apk, whatever the names *)
Lemma gen_one_per_apk perm g d : NoEmbedded g -> NoDup (List.map key (g_apks g)) -> generate perm g = Ok d ->
  IdsUnique d /\
  exists elems, d_pkgs d = dedup_pkgs [] (d_pkgs (base_doc g)) ++ elems /\
    Forall2 (fun a p => ElemOf a p /\ exists sfx, p_id p = own_id (nonce_of g) a +++ sfx) (g_apks g) elems /\
    MatchesInstalled (g_apks g) elems.
Proof.
  intros NE ND H. split; [eapply gen_ids_unique; exact H|]. rewrite model_is_numbered in H.
  exact (generate_r_one_per_apk false perm g d NE ND H).
Qed.

(* nothing changes where the ids Generate mints were pairwise distinct before the fix *)
Lemma gen_conservative perm g : NoEmbedded g -> NoDup (List.map p_id (own_elements g)) ->
  generate perm g = generate_u perm g.
Proof. intros NE ND. rewrite model_is_numbered. apply repair_conservative; assumption. Qed.

Lemma gen_one_per_apk_distinct_ids perm g d : NoEmbedded g -> NoDup (List.map p_id (own_elements g)) -> generate perm g = Ok d ->
  d_pkgs d = d_pkgs (base_doc g) ++ List.map (apk_package (nonce_of g)) (g_apks g) /\
  MatchesInstalled (g_apks g) (List.map (apk_package (nonce_of g)) (g_apks g)).
Proof. intros NE ND H. rewrite (gen_conservative perm g NE ND) in H. exact (generate_one_per_apk perm g d NE ND H). Qed.

(* ---- transfer from the code before the fix: the loop never numbers under NoIdClash ---------------- *)
Lemma with_id_same p : with_id p (p_id p) = p.
Proof. destruct p; reflexivity. Qed.

Lemma taken_false_iff ps name version c : taken ps name version c = false <->
  forall q, In q ps -> p_id q = c -> p_name q = name /\ p_version q = version.
Proof.
  unfold taken. split.
  - intros E q Hq Eq. pose proof (existsb_false _ _ q E Hq) as X. cbv beta in X.
    rewrite Eq, String.eqb_refl in X. cbn [andb] in X. apply negb_false_iff, andb_true_iff in X.
    destruct X as [A B]. apply String.eqb_eq in A. apply String.eqb_eq in B. split; assumption.
  - intro H. destruct (existsb _ ps) eqn:E; [|reflexivity]. exfalso. apply existsb_exists in E.
    destruct E as (q & Hq & X). apply andb_true_iff in X. destruct X as [A B]. apply String.eqb_eq in A.
    destruct (H q Hq A) as [N V]. rewrite N, V, !String.eqb_refl in B. discriminate B.
Qed.

Lemma process_apks_unnumbered perm fs nonce : forall apks pool d,
  (forall q, In q (d_pkgs d) -> In q pool) ->
  (forall l1 a l2, apks = l1 ++ a :: l2 ->
     forall q, In q (pool ++ List.map (apk_package nonce) (l1 ++ [a]) ++ List.concat (List.map (pkgs_located_in fs) l1)) ->
       p_id q = p_id (apk_package nonce a) -> p_name q = a_name a /\ p_version q = a_version a) ->
  process_apks perm fs nonce apks d = process_apks_u perm fs nonce apks d.
Proof.
  induction apks as [|a apks IH]; intros pool d Inc Cl; [reflexivity|]. cbn [process_apks process_apks_u].
  set (p := apk_package nonce a) in *.
  assert (mint_id apk_id_policy (d_pkgs d) (a_name a) (a_version a) (p_id p) = Ok (p_id p)) as ->.
  { cbv delta [apk_id_policy]. cbn [mint_id]. unfold pick_id_from.
    assert (taken (d_pkgs d) (a_name a) (a_version a) (p_id p) = false) as ->; [|reflexivity].
    apply taken_false_iff. intros q Hq Eq. apply (Cl [] a apks eq_refl q); [|exact Eq].
    apply in_or_app. left. apply Inc, Hq. }
  cbn [rbind]. rewrite with_id_same.
  set (d1 := {| d_pkgs := d_pkgs d ++ [p]; d_rels := d_rels d; d_desc := d_desc d |}) in *.
  destruct (process_internal perm fs d1 (a_name a) (a_version a)) as [d2| | |] eqn:H2; cbn [rbind]; try reflexivity.
  apply (IH (pool ++ [p] ++ pkgs_located_in fs a)).
  - intros q Hq. destruct (process_internal_pkgs_incl perm fs d1 a d2 H2 q Hq) as [Hq1|Hq1].
    + cbn [d1 d_pkgs] in Hq1. apply in_app_or in Hq1. rewrite !in_app_iff.
      destruct Hq1 as [Hq1|Hq1]; [left; apply Inc, Hq1 | right; left; exact Hq1].
    + rewrite !in_app_iff. right; right; exact Hq1.
  - intros l1 b l2 E q Hq. apply (Cl (a :: l1) b l2); [rewrite E; reflexivity|].
    cbn [app List.map List.concat]. fold p. rewrite !in_app_iff in *. cbn [In] in *. rewrite !in_app_iff. tauto.
Qed.

Lemma gen_unnumbered perm g : NoIdClash g -> generate perm g = generate_u perm g.
Proof.
  intro C. unfold generate, generate_u. destruct (g_layers g); [reflexivity|].
  rewrite (process_apks_unnumbered perm (g_fs g) (nonce_of g) (g_apks g) (d_pkgs (base_doc g)) (base_doc g)); [reflexivity | auto |].
  intros l1 a l2 E q Hq Eq. exact (C l1 a l2 E q Hq Eq).
Qed.

Lemma gen_refs_embedded perm g d : (forall l, Permutation (perm l) l) ->
  AtMostTwoTargets g -> TargetsFresh g -> NoIdClash g -> generate perm g = Ok d -> RefsResolve d.
Proof. intros P T F C H. rewrite (gen_unnumbered perm g C) in H. exact (generate_refs_embedded perm g d P T F H). Qed.

(* the envelope is decided by a boolean *)
Lemma clash_free_for_b_iff g l1 a : clash_free_for_b g l1 a = true <-> clash_free_for g l1 a.
Proof. unfold clash_free_for_b, clash_free_for. rewrite negb_true_iff. apply taken_false_iff. Qed.

Lemma no_id_clash_from_iff g rest : forall l1, no_id_clash_from g l1 rest = true <->
  (forall l1' a l2, rest = l1' ++ a :: l2 -> clash_free_for g (l1 ++ l1') a).
Proof.
  induction rest as [|a rest IH]; intro l1; cbn [no_id_clash_from].
  - split; [intros _ l1' a l2 E; destruct l1'; discriminate E | reflexivity].
  - rewrite andb_true_iff, IH, clash_free_for_b_iff. split.
    + intros [Ha Ht] l1' b l2 E. destruct l1' as [|a' l1']; cbn in E; inversion E; subst.
      * rewrite app_nil_r. exact Ha.
      * specialize (Ht l1' b l2 eq_refl). rewrite <- app_assoc in Ht. exact Ht.
    + intro H. split.
      * specialize (H [] a rest eq_refl). rewrite app_nil_r in H. exact H.
      * intros l1' b l2 E. rewrite <- app_assoc. apply (H (a :: l1') b l2). rewrite E. reflexivity.
Qed.

Lemma no_id_clash_b_iff g : no_id_clash_b g = true <-> NoIdClash g.
Proof. unfold no_id_clash_b, NoIdClash. rewrite no_id_clash_from_iff. cbn [app]. tauto. Qed.

(* ---- the witnesses, on the current code ------------------------------------------------------------ *)
(* the boundary of gen_refs_embedded is still exact: the refutations of Proofs/SbomProofs.v and
   Proofs/SbomTwoTargets.v have no id clash, so the current code behaves on them as the code before the fix *)
Lemma witnesses_no_clash : NoIdClash two_target_witness /\ NoIdClash three_target_witness /\ NoIdClash replace_self_witness.
Proof. split; [|split]; apply no_id_clash_b_iff; vm_compute; reflexivity. Qed.

Lemma two_targets_refuted_n : exists d,
  (forall k e, In (k, FDoc e) (g_fs two_target_witness) -> RefsResolve e /\ IdsUnique e /\ Forall ValidId (ids e)) /\
  AtMostTwoTargets two_target_witness /\ NoIdClash two_target_witness /\
  generate (fun l => l) two_target_witness = Ok d /\ ~ RefsResolve d.
Proof.
  eexists. split; [apply witness_docs_ok; vm_compute; reflexivity|].
  split; [apply at_most_two_targets_b_iff; vm_compute; reflexivity|].
  split; [apply witnesses_no_clash|]. split; [vm_compute; reflexivity|].
  intro R. apply refs_resolve_b_iff in R. vm_compute in R. discriminate R.
Qed.

Lemma two_targets_other_order_n : exists d, generate (@rev string) two_target_witness = Ok d /\ RefsResolve d.
Proof. eexists. split; [vm_compute; reflexivity | apply refs_resolve_b_iff; vm_compute; reflexivity]. Qed.

Lemma replace_loop_refuted_n : exists d,
  (forall k e, In (k, FDoc e) (g_fs three_target_witness) -> RefsResolve e /\ IdsUnique e /\ Forall ValidId (ids e)) /\
  Permutation (@rev string (targets "foo" three_sbom)) (targets "foo" three_sbom) /\ NoIdClash three_target_witness /\
  generate (@rev string) three_target_witness = Ok d /\ ~ RefsResolve d.
Proof.
  eexists. split; [apply witness_docs_ok; vm_compute; reflexivity|].
  split; [apply Permutation_sym, Permutation_rev|]. split; [apply witnesses_no_clash|].
  split; [vm_compute; reflexivity|]. intro R. apply refs_resolve_b_iff in R. vm_compute in R. discriminate R.
Qed.

Lemma replace_self_fixed_n : exists d, generate (fun l => l) replace_self_witness = Ok d /\ RefsResolve d.
Proof. eexists. split; [vm_compute; reflexivity | apply refs_resolve_b_iff; vm_compute; reflexivity]. Qed.

(* the defect repaired by 7c2586e (C11-F1): the code before it dropped the second apk's element, the
   current code keeps both *)
Lemma collision_fixed :
  (exists d, generate_u (fun l => l) collide_witness = Ok d /\ List.map p_name (d_pkgs d) = ["sha256:ab"; "sha256:cd"; "gtk+"]) /\
  (exists d, generate (fun l => l) collide_witness = Ok d /\
     List.map p_name (d_pkgs d) = ["sha256:ab"; "sha256:cd"; "gtk+"; "gtkC43"] /\ IdsUnique d /\
     Forall (fun x => valid_id_b x = true) (ids d) /\ MatchesInstalled (g_apks collide_witness) (skipn 2 (d_pkgs d))).
Proof.
  split; [eexists; split; vm_compute; reflexivity|].
  eexists. split; [vm_compute; reflexivity|]. split; [reflexivity|].
  split; [apply nodup_b_iff; vm_compute; reflexivity|]. split; [repeat constructor|].
  apply matches_installed_b_iff. vm_compute. reflexivity.
Qed.
