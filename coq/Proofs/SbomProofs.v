(* C11 — proofs about Model/Sbom.v against Spec/SbomSpec.v. *)
From Coq Require Import Permutation.
From Apko Require Import Base.Prelude Base.Regex Generated.Regexes Model.Sbom Spec.SbomSpec.
Open Scope string_scope. Open Scope list_scope.

(* ---- strings ------------------------------------------------------------------ *)
Lemma app_str_assoc a b c : (a +++ b) +++ c = a +++ (b +++ c).
Proof. induction a as [|x a IH]; simpl; [reflexivity | rewrite IH; reflexivity]. Qed.
Lemma app_str_nil_r a : a +++ "" = a.
Proof. induction a as [|x a IH]; simpl; [reflexivity | rewrite IH; reflexivity]. Qed.
Lemma chars_app a b : list_ascii_of_string (a +++ b) = list_ascii_of_string a ++ list_ascii_of_string b.
Proof. induction a as [|x a IH]; simpl; [reflexivity | rewrite IH; reflexivity]. Qed.

Lemma mem_In x l : mem x l = true <-> In x l.
Proof.
  unfold mem. rewrite existsb_exists. split.
  - intros (y & Hy & E). apply String.eqb_eq in E. subst; assumption.
  - intro H. exists x. split; [assumption | apply String.eqb_refl].
Qed.
Lemma mem_false x l : mem x l = false <-> ~ In x l.
Proof. rewrite <- mem_In. destruct (mem x l); split; intro H; try congruence; exfalso; apply H; reflexivity. Qed.

(* ---- the identifier function ---------------------------------------------------- *)
Lemma regex_shape : exists rs, valid_id_chars_re = Plus (Cls rs).
Proof. eexists. reflexivity. Qed.

Lemma id_alphabet_b_iff s : id_alphabet_b s = true <-> IdAlphabet s.
Proof. unfold id_alphabet_b, IdAlphabet. rewrite forallb_forall, Forall_forall. tauto. Qed.

Lemma enc_alphabet_b : forall a, id_alphabet_b (enc a) = true.
Proof. intros [[] [] [] [] [] [] [] []]; vm_compute; reflexivity. Qed.

Lemma enc_clean : forall a, id_char a = true -> enc a = String a "".
Proof. intros [[] [] [] [] [] [] [] []] H; vm_compute in H; try discriminate H; vm_compute; reflexivity. Qed.

Lemma IdAlphabet_app a b : IdAlphabet (a +++ b) <-> IdAlphabet a /\ IdAlphabet b.
Proof. unfold IdAlphabet. rewrite chars_app, Forall_app. tauto. Qed.

Lemma sti_alphabet s : IdAlphabet (sti s).
Proof.
  induction s as [|a s IH]; simpl.
  - constructor.
  - apply IdAlphabet_app. split; [apply id_alphabet_b_iff, enc_alphabet_b | exact IH].
Qed.

Lemma sti_clean s : IdAlphabet s -> sti s = s.
Proof.
  induction s as [|a s IH]; simpl; intro H; [reflexivity|].
  unfold IdAlphabet in H; simpl in H. inversion H as [|? ? Ha Hs]; subst.
  rewrite (enc_clean a Ha). simpl. rewrite IH by exact Hs. reflexivity.
Qed.

Lemma sti_idempotent s : sti (sti s) = sti s.
Proof. apply sti_clean, sti_alphabet. Qed.

Lemma sti_app a b : sti (a +++ b) = sti a +++ sti b.
Proof. induction a as [|x a IH]; simpl; [reflexivity | rewrite IH, app_str_assoc; reflexivity]. Qed.

Lemma sti_pfx : sti pfx = pfx.
Proof. vm_compute. reflexivity. Qed.

Lemma sti_pfx_app s : sti (pfx +++ s) = pfx +++ sti s.
Proof. rewrite sti_app, sti_pfx. reflexivity. Qed.

(* every identifier Generate / GenerateIndex mint is SPDXRef-Package-<id chars> *)
Lemma valid_id_pfx t : IdAlphabet t -> ValidId (pfx +++ t).
Proof.
  intro H. exists ("Package-" +++ t). split; [reflexivity|]. split; [discriminate|].
  apply IdAlphabet_app. split; [|exact H]. apply id_alphabet_b_iff. vm_compute. reflexivity.
Qed.

Lemma prefix_app p : forall s, String.prefix p s = true <-> exists t, s = p +++ t.
Proof.
  induction p as [|a p IH]; intro s.
  - split; [intros _; exists s; reflexivity | intros _; destruct s; reflexivity].
  - destruct s as [|b s]; simpl.
    + split; [discriminate | intros (t & E); discriminate E].
    + destruct (ascii_dec a b) as [->|N].
      * rewrite IH. split; intros (t & E); exists t; [rewrite E; reflexivity | inversion E; reflexivity].
      * split; [discriminate | intros (t & E); inversion E; congruence].
Qed.

Lemma valid_id_b_iff s : valid_id_b s = true <-> ValidId s.
Proof.
  unfold valid_id_b, ValidId. rewrite !andb_true_iff, prefix_app, id_alphabet_b_iff. split.
  - intros [[(t & ->) Hl] Ha]. exists t. split; [reflexivity|]. split.
    + intro E; subst. vm_compute in Hl. discriminate Hl.
    + apply IdAlphabet_app in Ha. tauto.
  - intros (t & -> & Hne & Ha). split; [split|].
    + exists t; reflexivity.
    + destruct t; [congruence | reflexivity].
    + apply IdAlphabet_app. split; [apply id_alphabet_b_iff; vm_compute; reflexivity | exact Ha].
Qed.

(* ---- uniqueness -------------------------------------------------------------------- *)
Lemma nodup_b_iff l : nodup_b l = true <-> NoDup l.
Proof.
  induction l as [|x l IH]; simpl.
  - split; [constructor | reflexivity].
  - rewrite andb_true_iff, negb_true_iff, mem_false, IH. split.
    + intros [A B]; constructor; assumption.
    + intro H; inversion H; subst; tauto.
Qed.

Lemma dedup_pkgs_spec ps : forall seen,
  NoDup (List.map p_id (dedup_pkgs seen ps)) /\
  (forall x, In x (List.map p_id (dedup_pkgs seen ps)) <-> In x (List.map p_id ps) /\ ~ In x seen).
Proof.
  induction ps as [|p ps IH]; intro seen; simpl.
  - split; [constructor | intro x; tauto].
  - destruct (mem (p_id p) seen) eqn:E.
    + destruct (IH seen) as [N I]. split; [exact N|]. intro x. rewrite I. apply mem_In in E.
      split; [tauto|]. intros [[Hx|H] Hn]; [exfalso; apply Hn; rewrite <- Hx; exact E | tauto].
    + destruct (IH (p_id p :: seen)) as [N I]. apply mem_false in E. split.
      * simpl. constructor; [|exact N]. intro H. apply I in H. simpl in H. tauto.
      * intro x. simpl. rewrite I. simpl. split.
        -- intros [<-|[H Hn]]; tauto.
        -- intros [[<-|H] Hn]; [tauto|]. destruct (String.eqb (p_id p) x) eqn:Ex.
           ++ apply String.eqb_eq in Ex. tauto.
           ++ right. split; [assumption|]. intros [Hx|?]; [rewrite Hx, String.eqb_refl in Ex; discriminate | tauto].
Qed.

Lemma dedup_pkgs_incl ps : forall seen p, In p (dedup_pkgs seen ps) -> In p ps.
Proof.
  induction ps as [|q ps IH]; intros seen p; simpl; [tauto|].
  destruct (mem (p_id q) seen).
  - intro H; right; eapply IH; eassumption.
  - intros [->|H]; [left; reflexivity | right; eapply IH; eassumption].
Qed.

(* the first element carrying an id survives the de-duplication *)
Lemma dedup_pkgs_keeps_first l1 : forall seen p l2,
  ~ In (p_id p) (List.map p_id l1) -> ~ In (p_id p) seen ->
  In p (dedup_pkgs seen (l1 ++ p :: l2)).
Proof.
  induction l1 as [|q l1 IH]; intros seen p l2 H1 H2; simpl.
  - apply mem_false in H2. rewrite H2. left; reflexivity.
  - simpl in H1. destruct (mem (p_id q) seen).
    + apply IH; tauto.
    + right. apply IH; [tauto|]. simpl. intros [E|?]; [|tauto]. apply H1. left. exact E.
Qed.

Lemma dedup_pkgs_nodup_id ps : forall seen,
  NoDup (List.map p_id ps) -> (forall x, In x (List.map p_id ps) -> ~ In x seen) ->
  dedup_pkgs seen ps = ps.
Proof.
  induction ps as [|p ps IH]; intros seen N D; simpl; [reflexivity|].
  simpl in N. inversion N as [|? ? Hn N']; subst.
  assert (mem (p_id p) seen = false) as ->. { apply mem_false. apply D. left; reflexivity. }
  f_equal. apply IH; [exact N'|]. intros x Hx [<-|Hs]; [contradiction|]. eapply D; [right; exact Hx | exact Hs].
Qed.

(* ---- referential integrity ----------------------------------------------------------- *)
Lemma refs_resolve_b_iff d : refs_resolve_b d = true <-> RefsResolve d.
Proof.
  unfold refs_resolve_b, RefsResolve. rewrite andb_true_iff, !forallb_forall. split.
  - intros [A B]. split.
    + intros r Hr. specialize (A r Hr). apply andb_true_iff in A. rewrite !mem_In in A. exact A.
    + intros x Hx. apply mem_In, B, Hx.
  - intros [A B]. split.
    + intros r Hr. apply andb_true_iff. rewrite !mem_In. apply A, Hr.
    + intros x Hx. apply mem_In, B, Hx.
Qed.

Lemma refs_resolve_more_pkgs d ps :
  RefsResolve d -> (forall x, In x (ids d) -> In x (List.map p_id ps)) ->
  RefsResolve {| d_pkgs := ps; d_rels := d_rels d; d_desc := d_desc d |}.
Proof.
  intros [A B] I. split; unfold ids; simpl.
  - intros r Hr. destruct (A r Hr). split; apply I; assumption.
  - intros x Hx. apply I, B, Hx.
Qed.

(* ---- Generate ---------------------------------------------------------------------------- *)
Lemma rbind_ok {A B} (r : res A) (f : A -> res B) b : rbind r f = Ok b -> exists a, r = Ok a /\ f a = Ok b.
Proof. destruct r; simpl; intro H; try discriminate. eauto. Qed.

Lemma generate_inv perm g d : generate_u perm g = Ok d ->
  g_layers g <> [] /\
  exists d0, process_apks_u perm (g_fs g) (nonce_of g) (g_apks g) (base_doc g) = Ok d0 /\
    d = {| d_pkgs := dedup_pkgs [] (d_pkgs d0); d_rels := d_rels d0; d_desc := d_desc d0 |}.
Proof.
  unfold generate_u. destruct (g_layers g) eqn:E; [discriminate|]. intro H.
  apply rbind_ok in H. destruct H as (d0 & H0 & H1). inversion H1; subst.
  split; [discriminate|]. exists d0. split; [exact H0 | reflexivity].
Qed.

Lemma generate_ids_unique perm g d : generate_u perm g = Ok d -> IdsUnique d.
Proof.
  intro H. apply generate_inv in H. destruct H as (_ & d0 & _ & ->).
  unfold IdsUnique, ids; simpl. apply dedup_pkgs_spec.
Qed.

(* ---- the closure loop of copySBOMElements never runs out of fuel ---------------------------- *)
Lemma add_spec x l : forall y, In y (add x l) <-> In y l \/ y = x.
Proof.
  intro y. unfold add. destruct (mem x l) eqn:E.
  - apply mem_In in E. split; [tauto|]. intros [H| ->]; assumption.
  - rewrite in_app_iff. simpl. split; [intros [H|[<-|[]]]; tauto | intros [H| ->]; tauto].
Qed.
Lemma nodup_snoc (x : string) l : NoDup l -> ~ In x l -> NoDup (l ++ [x]).
Proof.
  induction l as [|a l IH]; simpl; intros N H.
  - constructor; [intros [] | constructor].
  - inversion N as [|? ? Ha N']; subst. constructor.
    + rewrite in_app_iff. simpl. intros [?|[E|[]]]; [tauto | apply H; left; congruence].
    + apply IH; tauto.
Qed.
Lemma add_nodup x l : NoDup l -> NoDup (add x l).
Proof.
  intro N. unfold add. destruct (mem x l) eqn:E; [exact N|]. apply mem_false in E.
  apply nodup_snoc; assumption.
Qed.
Lemma add_length x l : (List.length l <= List.length (add x l))%nat.
Proof. unfold add. destruct (mem x l); [lia | rewrite app_length; simpl; lia]. Qed.

Lemma sweep_inv (U : list string) rs : (forall r, In r rs -> In (r_related r) U) ->
  forall td, NoDup td -> incl td U ->
    NoDup (sweep rs td) /\ incl (sweep rs td) U /\ (List.length td <= List.length (sweep rs td))%nat.
Proof.
  unfold sweep. induction rs as [|r rs IH]; intros HU td N I; simpl.
  - repeat split; [assumption | assumption | lia].
  - assert (forall r', In r' rs -> In (r_related r') U) as HU' by (intros; apply HU; right; assumption).
    destruct (String.prefix file_pfx (r_related r)); [apply IH; assumption|].
    destruct (mem (r_elem r) td); [|apply IH; assumption].
    destruct (IH HU' (add (r_related r) td)) as (A & B & C).
    + apply add_nodup, N.
    + intros y Hy. apply add_spec in Hy. destruct Hy as [Hy| ->]; [apply I, Hy | apply HU; left; reflexivity].
    + repeat split; [exact A | exact B |]. pose proof (add_length (r_related r) td). lia.
Qed.

Lemma closure_fuel_enough (U : list string) rels : (forall r, In r rels -> In (r_related r) U) ->
  forall fuel prev td, NoDup td -> incl td U ->
    (List.length td = prev \/ (List.length U < List.length td + fuel)%nat) ->
    closure fuel rels prev td <> OutOfFuel.
Proof.
  intros HU. induction fuel as [|f IH]; intros prev td N I H; simpl.
  - destruct (Nat.eqb (List.length td) prev) eqn:E; [discriminate|].
    apply Nat.eqb_neq in E. pose proof (NoDup_incl_length N I). lia.
  - destruct (Nat.eqb (List.length td) prev) eqn:E; [discriminate|].
    apply Nat.eqb_neq in E. destruct (sweep_inv U rels HU td N I) as (A & B & C).
    apply IH; [exact A | exact B | lia].
Qed.

Lemma closure_never_out_of_fuel rels todo0 : NoDup todo0 ->
  closure (closure_fuel rels) rels 0 todo0 <> OutOfFuel.
Proof.
  intro N. apply (closure_fuel_enough (todo0 ++ List.map r_related rels)).
  - intros r Hr. apply in_or_app. right. apply in_map, Hr.
  - exact N.
  - apply incl_appl, incl_refl.
  - right. unfold closure_fuel. rewrite app_length, map_length. lia.
Qed.

Lemma dedup_spec l : NoDup (dedup l) /\ forall x, In x (dedup l) <-> In x l.
Proof.
  induction l as [|a l [N I]]; simpl; [split; [constructor | tauto]|].
  destruct (mem a l) eqn:E.
  - split; [exact N|]. intro x. rewrite I. apply mem_In in E. split; [tauto | intros [<-|H]; assumption].
  - apply mem_false in E. split.
    + constructor; [rewrite I; exact E | exact N].
    + intro x. simpl. rewrite I. tauto.
Qed.

Lemma copy_elements_fuel src tgt todo0 : NoDup todo0 -> copy_elements src tgt todo0 <> OutOfFuel.
Proof.
  intro N. unfold copy_elements. pose proof (closure_never_out_of_fuel (d_rels src) todo0 N) as H.
  destruct (closure _ _ _ _); simpl; try discriminate; try congruence.
  match goal with |- (if ?c then _ else _) <> _ => destruct c; discriminate end.
Qed.

Lemma process_internal_fuel perm fs d n v : process_internal perm fs d n v <> OutOfFuel.
Proof.
  unfold process_internal. destruct (locate _ _) as [[e| |]|]; try discriminate.
  pose proof (copy_elements_fuel e d (targets n e) (proj1 (dedup_spec _))) as H.
  destruct (copy_elements _ _ _); simpl; try discriminate; congruence.
Qed.

Lemma process_apks_fuel perm fs nonce apks : forall d, process_apks_u perm fs nonce apks d <> OutOfFuel.
Proof.
  induction apks as [|a apks IH]; intro d; simpl; [discriminate|].
  match goal with |- rbind ?r _ <> _ => pose proof (process_internal_fuel perm fs _ (a_name a) (a_version a) : r <> OutOfFuel) as H; destruct r end;
    simpl; try discriminate; try congruence; try apply IH.
Qed.

Lemma generate_fuel perm g : generate_u perm g <> OutOfFuel.
Proof.
  unfold generate_u. destruct (g_layers g); [discriminate|].
  pose proof (process_apks_fuel perm (g_fs g) (nonce_of g) (g_apks g) (base_doc g)) as H.
  destruct (process_apks_u _ _ _ _ _); simpl; try discriminate; congruence.
Qed.

(* ---- Generate without embedded SBOMs ---------------------------------------------------------- *)
Lemma process_apks_plain perm fs nonce apks : forall d,
  (forall a, In a apks -> locate fs (candidates (a_name a) (a_version a)) = None) ->
  process_apks_u perm fs nonce apks d =
    Ok {| d_pkgs := d_pkgs d ++ List.map (apk_package nonce) apks; d_rels := d_rels d; d_desc := d_desc d |}.
Proof.
  induction apks as [|a apks IH]; intros d H; simpl.
  - rewrite app_nil_r. destruct d; reflexivity.
  - unfold process_internal. rewrite (H a (or_introl eq_refl)). simpl.
    rewrite IH by (intros; apply H; right; assumption). simpl. rewrite <- app_assoc. reflexivity.
Qed.

Lemma generate_plain perm g : NoEmbedded g -> g_layers g <> [] ->
  generate_u perm g = Ok {| d_pkgs := dedup_pkgs [] (own_elements g);
                          d_rels := d_rels (base_doc g); d_desc := d_desc (base_doc g) |}.
Proof.
  intros NE L. unfold generate_u. destruct (g_layers g) eqn:E; [congruence|].
  rewrite process_apks_plain by exact NE. reflexivity.
Qed.

Lemma add_source_refs vcs parent d : RefsResolve d -> In parent (ids d) -> RefsResolve (add_source vcs parent d).
Proof.
  intros [A B] P. unfold add_source, RefsResolve, ids; simpl. split.
  - intros r Hr. rewrite map_app, !in_app_iff. apply in_app_or in Hr. destruct Hr as [Hr|[<-|[]]].
    + destruct (A r Hr). tauto.
    + simpl. split; [left; exact P | right; left; reflexivity].
  - intros x Hx. rewrite map_app, in_app_iff. left. apply B, Hx.
Qed.

Lemma base_doc_refs g : g_layers g <> [] -> RefsResolve (base_doc g).
Proof.
  intro L. unfold base_doc. destruct (String.eqb (g_image g) "").
  - split; simpl; [intros r []|]. intros x Hx.
    destruct (rev (List.map (layer_package (g_osver g)) (g_layers g))) as [|l t] eqn:E; [destruct Hx|].
    destruct Hx as [<-|[]]. unfold ids; simpl. apply in_map. apply in_rev. rewrite E. left; reflexivity.
  - set (ip := image_package (g_image g)). set (lps := List.map (layer_package (g_osver g)) (g_layers g)).
    assert (RefsResolve {| d_pkgs := ip :: lps;
              d_rels := List.map (fun l => {| r_elem := p_id ip; r_type := "CONTAINS"; r_related := p_id l |}) lps;
              d_desc := [p_id ip] |}) as R.
    { split; unfold ids; simpl.
      - intros r Hr. apply in_map_iff in Hr. destruct Hr as (l & <- & Hl). simpl.
        split; [left; reflexivity | right; apply in_map, Hl].
      - intros x [<-|[]]. left; reflexivity. }
    destruct (String.eqb (g_vcs g) ""); [exact R|]. apply add_source_refs; [exact R|]. left; reflexivity.
Qed.

Lemma generate_plain_refs perm g d : NoEmbedded g -> generate_u perm g = Ok d -> RefsResolve d.
Proof.
  intros NE H. pose proof (generate_inv _ _ _ H) as (L & _). rewrite (generate_plain perm g NE L) in H.
  inversion H; subst. apply (refs_resolve_more_pkgs (base_doc g)); [apply base_doc_refs, L|].
  intros x Hx. apply dedup_pkgs_spec. split; [|intros []].
  unfold own_elements. rewrite map_app, in_app_iff. left. exact Hx.
Qed.

Lemma nodup_app_r {A} (l1 l2 : list A) : NoDup (l1 ++ l2) -> NoDup l2.
Proof. induction l1 as [|a l1 IH]; simpl; intro N; [exact N | inversion N; auto]. Qed.

(* exactly one element per installed apk when no two pre-de-duplication ids coincide *)
Lemma elem_of_b_iff a p : elem_of_b a p = true <-> ElemOf a p.
Proof.
  unfold elem_of_b, ElemOf. rewrite !andb_true_iff, !String.eqb_eq. unfold sums_eqb.
  rewrite (list_eqb_spec (fun x y => String.eqb (fst x) (fst y) && String.eqb (snd x) (snd y))).
  - tauto.
  - intros [x1 x2] [y1 y2]. simpl. rewrite andb_true_iff, !String.eqb_eq. split; [intros [-> ->]; reflexivity | intro E; inversion E; tauto].
Qed.

Lemma apk_package_elem nonce a : ElemOf a (apk_package nonce a).
Proof. repeat split. Qed.

Lemma elem_same_id nonce a b : ElemOf a (apk_package nonce b) -> p_id (apk_package nonce b) = p_id (apk_package nonce a).
Proof. intros (N & V & _). simpl in *. rewrite N, V. reflexivity. Qed.

Lemma generate_plain_unique_ids perm g d : NoEmbedded g -> NoDup (List.map p_id (own_elements g)) ->
  generate_u perm g = Ok d -> d_pkgs d = own_elements g.
Proof.
  intros NE N H. pose proof (generate_inv _ _ _ H) as (L & _). rewrite (generate_plain perm g NE L) in H.
  inversion H; subst; simpl. apply dedup_pkgs_nodup_id; [exact N | intros x _ []].
Qed.

Lemma one_elem_of_apks nonce apks : NoDup (List.map (fun a => p_id (apk_package nonce a)) apks) ->
  forall a, In a apks -> OneElem a (List.map (apk_package nonce) apks).
Proof.
  intros N a Ha. apply in_split in Ha. destruct Ha as (l1 & l2 & ->).
  exists (List.map (apk_package nonce) l1), (apk_package nonce a), (List.map (apk_package nonce) l2).
  split; [rewrite map_app; reflexivity|]. split; [apply apk_package_elem|].
  intros q Hq E. rewrite <- map_app in Hq. apply in_map_iff in Hq. destruct Hq as (b & <- & Hb).
  apply elem_same_id in E. rewrite map_app in N. cbn [List.map] in N. apply NoDup_remove_2 in N.
  apply N. rewrite <- map_app. cbn beta. rewrite <- E. apply (in_map (fun a => p_id (apk_package nonce a))), Hb.
Qed.

Lemma matches_installed_of_apks nonce apks : NoDup (List.map (fun a => p_id (apk_package nonce a)) apks) ->
  MatchesInstalled apks (List.map (apk_package nonce) apks).
Proof.
  intro N. split; [apply one_elem_of_apks, N|].
  intros p Hp. apply in_map_iff in Hp. destruct Hp as (a & <- & Ha). exists a. split; [exact Ha | apply apk_package_elem].
Qed.

Lemma generate_one_per_apk perm g d : NoEmbedded g -> NoDup (List.map p_id (own_elements g)) ->
  generate_u perm g = Ok d ->
  d_pkgs d = d_pkgs (base_doc g) ++ List.map (apk_package (nonce_of g)) (g_apks g) /\
  MatchesInstalled (g_apks g) (List.map (apk_package (nonce_of g)) (g_apks g)).
Proof.
  intros NE N H. split; [apply (generate_plain_unique_ids perm g d NE N H)|].
  apply matches_installed_of_apks. unfold own_elements in N. rewrite map_app in N.
  apply nodup_app_r in N. rewrite map_map in N. exact N.
Qed.

(* ---- digests -------------------------------------------------------------------------------------- *)
Lemma layer_in_base g h : In h (g_layers g) -> In (layer_package (g_osver g) h) (d_pkgs (base_doc g)).
Proof.
  intro H. apply (in_map (layer_package (g_osver g))) in H. unfold base_doc.
  destruct (String.eqb (g_image g) ""); simpl; [exact H|].
  destruct (String.eqb (g_vcs g) ""); simpl; [right; exact H|]. right. apply in_or_app. left. exact H.
Qed.

Lemma generate_plain_image perm g d : NoEmbedded g -> g_image g <> "" -> generate_u perm g = Ok d ->
  DescribesImage (g_image g) d.
Proof.
  intros NE I H. pose proof (generate_inv _ _ _ H) as (L & _). rewrite (generate_plain perm g NE L) in H.
  inversion H; subst; clear H. apply String.eqb_neq in I.
  exists (image_package (g_image g)). unfold DescribesImage, own_elements, base_doc. rewrite I.
  destruct (String.eqb (g_vcs g) ""); simpl; (split; [left; reflexivity | repeat split]).
Qed.

Lemma generate_plain_layers perm g d : NoEmbedded g -> NoDup (ids (base_doc g)) -> generate_u perm g = Ok d ->
  NamesLayers (g_layers g) d.
Proof.
  intros NE N H. pose proof (generate_inv _ _ _ H) as (L & _). rewrite (generate_plain perm g NE L) in H.
  inversion H; subst; clear H. intros h Hh. exists (layer_package (g_osver g) h). split; [|reflexivity].
  simpl. pose proof (layer_in_base g h Hh) as Hin. apply in_split in Hin. destruct Hin as (l1 & l2 & E).
  unfold own_elements. unfold ids in N. rewrite E in *. rewrite <- app_assoc. simpl.
  apply dedup_pkgs_keeps_first; [|intros []].
  rewrite map_app in N. cbn [List.map] in N. apply NoDup_remove_2 in N. intro Hx. apply N. apply in_or_app. left; exact Hx.
Qed.

(* ---- GenerateIndex ---------------------------------------------------------------------------------- *)
Lemma index_id_fixed h : sti (p_id (index_package h)) = p_id (index_package h).
Proof. unfold index_package; cbn [p_id]. rewrite sti_pfx_app, sti_idempotent. reflexivity. Qed.

Lemma generate_index_refs x d : generate_index x = Ok d -> RefsResolve d.
Proof.
  unfold generate_index. destruct (x_images x) as [|h0 t] eqn:E; [discriminate|]. intro H. inversion H; subst; clear H.
  set (ip := index_package (x_index x)). set (ims := List.map arch_image_package (h0 :: t)).
  assert (RefsResolve {| d_pkgs := ip :: ims;
            d_rels := List.map (fun i => {| r_elem := sti (p_id ip); r_type := "VARIANT_OF"; r_related := p_id i |}) ims;
            d_desc := [p_id ip] |}) as R.
  { split; unfold ids; cbn [d_pkgs d_rels d_desc].
    - intros r Hr. apply in_map_iff in Hr. destruct Hr as (i & <- & Hi). cbn [r_elem r_related].
      unfold ip at 1. rewrite index_id_fixed. split; [left; reflexivity | right; apply in_map, Hi].
    - intros y [<-|[]]. cbn [List.map]. left; reflexivity. }
  destruct (String.eqb (x_vcs x) ""); [exact R|]. apply add_source_refs; [exact R | left; reflexivity].
Qed.

Lemma generate_index_digests x d : generate_index x = Ok d ->
  (exists p, In p (d_pkgs d) /\ p_name p = hash_string (x_index x) /\
             p_sums p = [("SHA256", snd (x_index x))] /\ d_desc d = [p_id p]) /\
  (forall h, In h (x_images x) -> exists p, In p (d_pkgs d) /\ p_sums p = [("SHA256", snd h)] /\
             In {| r_elem := p_id (index_package (x_index x)); r_type := "VARIANT_OF"; r_related := p_id p |} (d_rels d)).
Proof.
  unfold generate_index. destruct (x_images x) as [|h0 t] eqn:E; [discriminate|]. intro H. inversion H; subst; clear H.
  split.
  - exists (index_package (x_index x)). destruct (String.eqb (x_vcs x) ""); simpl; (split; [left; reflexivity | repeat split]).
  - intros h Hh. exists (arch_image_package h).
    assert (In (arch_image_package h) (List.map arch_image_package (h0 :: t))) as Hi by (apply in_map, Hh).
    assert (In {| r_elem := p_id (index_package (x_index x)); r_type := "VARIANT_OF"; r_related := p_id (arch_image_package h) |}
              (List.map (fun i => {| r_elem := sti (p_id (index_package (x_index x))); r_type := "VARIANT_OF"; r_related := p_id i |})
                        (List.map arch_image_package (h0 :: t)))) as Hr.
    { rewrite index_id_fixed. apply (in_map (fun i => {| r_elem := p_id (index_package (x_index x)); r_type := "VARIANT_OF"; r_related := p_id i |})), Hi. }
    destruct (String.eqb (x_vcs x) ""); cbn [d_pkgs d_rels add_source].
    + split; [right; exact Hi | split; [reflexivity | exact Hr]].
    + split; [apply in_or_app; left; right; exact Hi | split; [reflexivity | apply in_or_app; left; exact Hr]].
Qed.

(* ---- the two refutations ---------------------------------------------------------------------------- *)
Definition collide_witness : gen_in :=
  {| g_image := "sha256:ab"; g_layers := [("sha256", "cd")]; g_osver := "1"; g_vcs := "";
     g_apks := [ {| a_name := "gtk+"; a_version := "3.24-r0"; a_sum := [1]%N |};
                 {| a_name := "gtkC43"; a_version := "3.24-r0"; a_sum := [2]%N |} ];
     g_fs := [] |}.

Lemma one_per_apk_refuted : exists g, NoEmbedded g /\
  NoDup (List.map (fun a => (a_name a, a_version a)) (g_apks g)) /\
  forall perm, exists d, generate_u perm g = Ok d /\
    exists a, In a (g_apks g) /\ forall p, In p (d_pkgs d) -> ~ ElemOf a p.
Proof.
  exists collide_witness. split; [intros a _; reflexivity|]. split.
  - constructor; [intros [E|[]]; discriminate E | constructor; [intros [] | constructor]].
  - intro perm. eexists. split; [vm_compute; reflexivity|].
    exists {| a_name := "gtkC43"; a_version := "3.24-r0"; a_sum := [2]%N |}. split; [right; left; reflexivity|].
    intros p Hp E. apply elem_of_b_iff in E.
    match type of Hp with In _ ?l =>
      assert (existsb (elem_of_b {| a_name := "gtkC43"; a_version := "3.24-r0"; a_sum := [2]%N |}) l = true) as X
        by (apply existsb_exists; eauto) end.
    vm_compute in X. discriminate X.
Qed.

(* ---- embedded SBOMs: one apk's step keeps references resolved (inside the envelope) ------------------ *)
Definition closed (rels : list rel) (td : list string) : Prop :=
  forall r, In r rels -> String.prefix file_pfx (r_related r) = false -> In (r_elem r) td -> In (r_related r) td.

Definition step (td : list string) (r : rel) : list string :=
  if String.prefix file_pfx (r_related r) then td
  else if mem (r_elem r) td then add (r_related r) td else td.

Lemma sweep_fold rs td : sweep rs td = fold_left step rs td.
Proof. reflexivity. Qed.

Lemma step_len td r : (List.length td <= List.length (step td r))%nat.
Proof. unfold step. destruct (String.prefix _ _); [lia|]. destruct (mem (r_elem r) td); [apply add_length | lia]. Qed.

Lemma step_same td r : List.length (step td r) = List.length td ->
  step td r = td /\ (String.prefix file_pfx (r_related r) = false -> In (r_elem r) td -> In (r_related r) td).
Proof.
  unfold step. destruct (String.prefix _ _); [intros _; split; [reflexivity | discriminate]|].
  destruct (mem (r_elem r) td) eqn:E.
  - unfold add. destruct (mem (r_related r) td) eqn:E2.
    + intros _. split; [reflexivity|]. intros _ _. apply mem_In, E2.
    + rewrite app_length. simpl. lia.
  - intros _. split; [reflexivity|]. intros _ H. apply mem_In in H. congruence.
Qed.

Lemma sweep_len rs : forall td, (List.length td <= List.length (sweep rs td))%nat.
Proof.
  induction rs as [|r rs IH]; intro td; rewrite sweep_fold; simpl; [lia|].
  rewrite <- sweep_fold. pose proof (step_len td r). pose proof (IH (step td r)). lia.
Qed.

Lemma sweep_incl rs : forall td x, In x td -> In x (sweep rs td).
Proof.
  induction rs as [|r rs IH]; intros td x H; rewrite sweep_fold; simpl; [exact H|].
  rewrite <- sweep_fold. apply IH. unfold step. destruct (String.prefix _ _); [exact H|].
  destruct (mem (r_elem r) td); [apply add_spec; left; exact H | exact H].
Qed.

Lemma sweep_same rs : forall td, List.length (sweep rs td) = List.length td -> sweep rs td = td /\ closed rs td.
Proof.
  induction rs as [|r rs IH]; intros td H; rewrite sweep_fold in *; simpl in *.
  - split; [reflexivity | intros r []].
  - rewrite <- sweep_fold in *. pose proof (step_len td r). pose proof (sweep_len rs (step td r)).
    destruct (step_same td r) as [S1 S2]; [lia|]. rewrite S1 in *. destruct (IH td H) as [A B].
    split; [exact A|]. intros r' [<-|Hr]; [exact S2 | apply B, Hr].
Qed.

Lemma closure_closed rels : forall fuel prev td r,
  (List.length td = prev -> closed rels td) -> closure fuel rels prev td = Ok r -> closed rels r /\ incl td r.
Proof.
  induction fuel as [|f IH]; intros prev td r Hc; simpl; destruct (Nat.eqb (List.length td) prev) eqn:E.
  - intro H; inversion H; subst. apply Nat.eqb_eq in E. split; [apply Hc, E | apply incl_refl].
  - discriminate.
  - intro H; inversion H; subst. apply Nat.eqb_eq in E. split; [apply Hc, E | apply incl_refl].
  - intro H. apply IH in H.
    + destruct H as [A B]. split; [exact A|]. intros x Hx. apply B, sweep_incl, Hx.
    + intro L. destruct (sweep_same rels td L) as [S C]. rewrite S. exact C.
Qed.

Lemma copy_elements_refs src tgt todo0 d : RefsResolve tgt -> copy_elements src tgt todo0 = Ok d ->
  RefsResolve d /\ d_desc d = d_desc tgt /\ incl todo0 (ids d) /\
  exists ps, d_pkgs d = d_pkgs tgt ++ ps.
Proof.
  intros [A B] H. unfold copy_elements in H. apply rbind_ok in H. destruct H as (todo & Hc & H).
  apply closure_closed in Hc.
  2:{ intro L. destruct todo0; [intros r _ _ []| discriminate L]. }
  destruct Hc as [C I].
  match type of H with (if ?c then _ else _) = _ => destruct c eqn:F; [|discriminate H] end.
  inversion H; subst; clear H. rewrite forallb_forall in F.
  set (ps := filter (fun p => mem (p_id p) todo) (d_pkgs src)) in *.
  assert (forall x, In x todo -> In x (List.map p_id (d_pkgs tgt ++ ps))) as T.
  { intros x Hx. rewrite map_app, in_app_iff. right. apply mem_In, F, Hx. }
  split; [|split; [reflexivity | split; [|exists ps; reflexivity]]].
  - split; unfold ids; cbn [d_pkgs d_rels d_desc].
    + intros r Hr. apply in_app_or in Hr. destruct Hr as [Hr|Hr].
      * destruct (A r Hr). rewrite map_app, !in_app_iff. tauto.
      * apply filter_In in Hr. destruct Hr as [Hr Hf]. apply andb_true_iff in Hf. destruct Hf as [He Hp].
        apply negb_true_iff in Hp. apply mem_In in He. split; [apply T, He | apply T, (C r Hr Hp He)].
    + intros x Hx. rewrite map_app, in_app_iff. left. apply B, Hx.
  - intros x Hx. apply T, I, Hx.
Qed.

Lemma replace_package_refs d o n : RefsResolve d -> In n (ids d) -> n <> o -> (List.length (d_desc d) <= 1)%nat ->
  RefsResolve (replace_package d o n) /\ List.length (d_desc (replace_package d o n)) = List.length (d_desc d).
Proof.
  intros [A B] Hn Hne Hl. unfold replace_package.
  set (kept := filter (fun p => negb (String.eqb (p_id p) o)) (d_pkgs d)).
  assert (forall x, In x (ids d) -> x <> o -> In x (List.map p_id kept)) as K.
  { intros x Hx Hxo. unfold ids in Hx. apply in_map_iff in Hx. destruct Hx as (p & <- & Hp).
    apply in_map. apply filter_In. split; [exact Hp|]. apply negb_true_iff, String.eqb_neq, Hxo. }
  assert (In n (List.map p_id kept)) as Kn by (apply K; assumption).
  assert (forall x, In x (ids d) -> In (subst_id o n x) (List.map p_id kept)) as S.
  { intros x Hx. unfold subst_id. destruct (String.eqb x o) eqn:E; [exact Kn|]. apply K; [exact Hx | apply String.eqb_neq, E]. }
  destruct kept as [|k0 kt] eqn:EK; [destruct Kn|]. rewrite <- EK in *. clear EK.
  split.
  - split; unfold ids; cbn [d_pkgs d_rels d_desc].
    + intros r Hr. apply in_map_iff in Hr. destruct Hr as (r0 & <- & Hr0). cbn [r_elem r_related].
      destruct (A r0 Hr0). split; apply S; assumption.
    + intros x Hx. destruct (d_desc d) as [|y [|z t]]; simpl in *; [destruct Hx| |lia].
      pose proof (S y (B y (or_introl eq_refl))) as Sy. unfold subst_id in Sy.
      destruct (String.eqb y o); destruct Hx as [<-|[]]; exact Sy.
  - cbn [d_desc]. clear. induction (d_desc d) as [|y t IH]; simpl; [reflexivity|]. destruct (String.eqb y o); simpl; congruence.
Qed.


(* one apk with an embedded SBOM that yields at most one target: whatever the
   embedded relationship graph and whatever the document already holds *)
Lemma process_internal_refs perm fs d pname pversion e d' :
  RefsResolve d -> (List.length (d_desc d) <= 1)%nat ->
  locate fs (candidates pname pversion) = Some (FDoc e) ->
  (List.length (targets pname e) <= 1)%nat ->
  (forall l, Permutation (perm l) l) ->
  process_internal perm fs d pname pversion = Ok d' ->
  RefsResolve d' /\ List.length (d_desc d') = List.length (d_desc d).
Proof.
  intros R L Loc T P H. unfold process_internal in H. rewrite Loc in H.
  apply rbind_ok in H. destruct H as (d1 & Hc & H). inversion H; subst; clear H.
  destruct (copy_elements_refs _ _ _ _ R Hc) as (R1 & D1 & I1 & ps & P1).
  specialize (P (targets pname e)).
  destruct (targets pname e) as [|t [|t2 tl]] eqn:ET; [| |simpl in T; lia].
  - apply Permutation_sym, Permutation_nil in P. rewrite P. simpl. rewrite D1. tauto.
  - apply Permutation_sym, Permutation_length_1_inv in P. rewrite P. simpl. unfold replace_step.
    destruct (find _ (d_pkgs d1)) as [q|] eqn:Fq; [|rewrite D1; tauto].
    apply find_some in Fq. destruct Fq as [_ Fq]. apply andb_true_iff in Fq. destruct Fq as [_ Fq].
    apply negb_true_iff, String.eqb_neq in Fq.
    destruct (replace_package_refs d1 (p_id q) t R1) as [R2 L2].
    + apply I1. left; reflexivity.
    + congruence.
    + rewrite D1. exact L.
    + split; [exact R2 | rewrite L2, D1; reflexivity].
Qed.

(* ---- lifting the step to Generate ------------------------------------------------------------------------ *)
Lemma add_own_refs d p : RefsResolve d ->
  RefsResolve {| d_pkgs := d_pkgs d ++ [p]; d_rels := d_rels d; d_desc := d_desc d |}.
Proof.
  intros [A B]. split; unfold ids; cbn [d_pkgs d_rels d_desc]; rewrite map_app.
  - intros r Hr. destruct (A r Hr). rewrite !in_app_iff. tauto.
  - intros x Hx. rewrite in_app_iff. left. apply B, Hx.
Qed.

Lemma process_apks_refs perm fs nonce : (forall l, Permutation (perm l) l) ->
  forall apks d d', RefsResolve d -> (List.length (d_desc d) <= 1)%nat ->
  (forall a, In a apks -> forall e, locate fs (candidates (a_name a) (a_version a)) = Some (FDoc e) ->
     (List.length (targets (a_name a) e) <= 1)%nat) ->
  process_apks_u perm fs nonce apks d = Ok d' -> RefsResolve d'.
Proof.
  intros P. induction apks as [|a apks IH]; intros d d' R L S H; simpl in H.
  - inversion H; subst; exact R.
  - apply rbind_ok in H. destruct H as (d2 & H2 & H).
    pose proof (add_own_refs d (apk_package nonce a) R) as R1.
    assert (RefsResolve d2 /\ List.length (d_desc d2) = List.length (d_desc d)) as [R2 L2].
    { destruct (locate fs (candidates (a_name a) (a_version a))) as [[e| |]|] eqn:Loc.
      - apply (process_internal_refs perm fs _ (a_name a) (a_version a) e d2 R1 L Loc (S a (or_introl eq_refl) e Loc) P H2).
      - unfold process_internal in H2. rewrite Loc in H2. inversion H2; subst. split; [exact R1 | reflexivity].
      - unfold process_internal in H2. rewrite Loc in H2. discriminate H2.
      - unfold process_internal in H2. rewrite Loc in H2. inversion H2; subst. split; [exact R1 | reflexivity]. }
    apply (IH d2 d' R2); [lia | intros; eapply S; [right; eassumption | eassumption] | exact H].
Qed.

Lemma base_doc_desc g : (List.length (d_desc (base_doc g)) <= 1)%nat.
Proof.
  unfold base_doc. destruct (String.eqb (g_image g) ""); simpl.
  - destruct (rev _); simpl; lia.
  - destruct (String.eqb (g_vcs g) ""); simpl; lia.
Qed.

Lemma generate_refs_single perm g d : (forall l, Permutation (perm l) l) -> SingleTarget g ->
  generate_u perm g = Ok d -> RefsResolve d.
Proof.
  intros P S H. apply generate_inv in H. destruct H as (L & d0 & H0 & ->).
  pose proof (process_apks_refs perm (g_fs g) (nonce_of g) P (g_apks g) (base_doc g) d0 (base_doc_refs g L) (base_doc_desc g) S H0) as R.
  apply (refs_resolve_more_pkgs d0); [exact R|]. intros x Hx. apply dedup_pkgs_spec. split; [exact Hx | intros []].
Qed.

(* ---- what is left of the replace loop's defect: three described elements ----------------------------------- *)
Definition foo_elem := {| p_id := "SPDXRef-Package-foo-1.0-r0"; p_name := "foo"; p_version := "1.0-r0"; p_sums := [] |}.
Definition bar_elem := {| p_id := "SPDXRef-Package-bar-2.0-r1"; p_name := "bar"; p_version := "2.0-r1"; p_sums := [] |}.
Definition foo_sbom : doc :=
  {| d_pkgs := [foo_elem; bar_elem];
     d_rels := [{| r_elem := p_id foo_elem; r_type := "DEPENDS_ON"; r_related := p_id bar_elem |}];
     d_desc := [p_id foo_elem] |}.
Definition bar_sbom : doc := {| d_pkgs := [bar_elem]; d_rels := []; d_desc := [p_id bar_elem] |}.
(* the replay of the defect repaired by 494ce81: bar's element arrives with foo's SBOM *)
Definition replace_self_witness : gen_in :=
  {| g_image := "sha256:ab"; g_layers := [("sha256", "cd")]; g_osver := "1"; g_vcs := "";
     g_apks := [ {| a_name := "foo"; a_version := "1.0-r0"; a_sum := [1]%N |};
                 {| a_name := "bar"; a_version := "2.0-r1"; a_sum := [2]%N |} ];
     g_fs := [("foo-1.0-r0.spdx.json", FDoc foo_sbom); ("bar-2.0-r1.spdx.json", FDoc bar_sbom)] |}.

Definition foo2 := {| p_id := "SPDXRef-Package-foo-alt"; p_name := "foo"; p_version := "1.0-r0"; p_sums := [] |}.
Definition foo3 := {| p_id := "SPDXRef-Package-foo-third"; p_name := "foo"; p_version := "1.0-r0"; p_sums := [] |}.
Definition src_elem := {| p_id := "SPDXRef-Package-src"; p_name := "src"; p_version := "1"; p_sums := [] |}.
Definition three_sbom : doc :=
  {| d_pkgs := [foo_elem; foo2; foo3; src_elem];
     d_rels := [{| r_elem := p_id foo_elem; r_type := "GENERATED_FROM"; r_related := p_id src_elem |}];
     d_desc := [p_id foo_elem; p_id foo2; p_id foo3] |}.
Definition three_target_witness : gen_in :=
  {| g_image := "sha256:ab"; g_layers := [("sha256", "cd")]; g_osver := "1"; g_vcs := "";
     g_apks := [ {| a_name := "foo"; a_version := "1.0-r0"; a_sum := [1]%N |} ];
     g_fs := [("foo-1.0-r0.spdx.json", FDoc three_sbom)] |}.

(* a well-formed embedded document that describes three elements carrying the
   apk's name; when Go visits the targets in the order third, second, first, the
   last iteration renames the references to an element the second iteration
   removed *)
Lemma replace_loop_refuted : exists g d,
  (forall k e, In (k, FDoc e) (g_fs g) -> RefsResolve e /\ IdsUnique e /\ Forall ValidId (ids e)) /\
  Permutation (@rev string (targets "foo" three_sbom)) (targets "foo" three_sbom) /\
  generate_u (@rev string) g = Ok d /\ ~ RefsResolve d.
Proof.
  exists three_target_witness. eexists. split; [|split; [|split; [vm_compute; reflexivity|]]].
  - intros k e [E|[]]; inversion E; subst; (split; [apply refs_resolve_b_iff; vm_compute; reflexivity|]);
      (split; [apply nodup_b_iff; vm_compute; reflexivity|]);
      repeat constructor; apply valid_id_b_iff; vm_compute; reflexivity.
  - apply Permutation_sym, Permutation_rev.
  - intro R. apply refs_resolve_b_iff in R. vm_compute in R. discriminate R.
Qed.

(* the repaired defect stays repaired in the model *)
Lemma replace_self_fixed : exists d, generate_u (fun l => l) replace_self_witness = Ok d /\ RefsResolve d.
Proof. eexists. split; [vm_compute; reflexivity | apply refs_resolve_b_iff; vm_compute; reflexivity]. Qed.

Lemma generate_plain_digests perm g d : NoEmbedded g -> generate_u perm g = Ok d ->
  (g_image g <> "" -> DescribesImage (g_image g) d) /\
  (NoDup (ids (base_doc g)) -> NamesLayers (g_layers g) d).
Proof.
  intros NE H. split; [intro I; exact (generate_plain_image perm g d NE I H) | intro N; exact (generate_plain_layers perm g d NE N H)].
Qed.

(* ---- the agreement validator decides MatchesInstalled ------------------------------------------------- *)
Lemma filter_nil_iff {A} (f : A -> bool) l : filter f l = [] <-> forall q, In q l -> f q = false.
Proof.
  induction l as [|x l IH]; simpl.
  - split; [intros _ q [] | reflexivity].
  - destruct (f x) eqn:E.
    + split; [discriminate | intro H; specialize (H x (or_introl eq_refl)); congruence].
    + rewrite IH. split; [intros H q [<-|Hq]; [exact E | apply H, Hq] | intros H q Hq; apply H; right; exact Hq].
Qed.

Lemma filter_len_1 {A} (f : A -> bool) l : List.length (filter f l) = 1%nat <->
  exists l1 p l2, l = l1 ++ p :: l2 /\ f p = true /\ forall q, In q (l1 ++ l2) -> f q = false.
Proof.
  split.
  - induction l as [|x l IH]; simpl; [discriminate|]. destruct (f x) eqn:E; simpl.
    + intro H. exists [], x, l. split; [reflexivity|]. split; [exact E|]. simpl.
      apply filter_nil_iff. destruct (filter f l); [reflexivity | discriminate H].
    + intro H. destruct (IH H) as (l1 & p & l2 & -> & Fp & Fq). exists (x :: l1), p, l2.
      split; [reflexivity|]. split; [exact Fp|]. intros q [<-|Hq]; [exact E | apply Fq, Hq].
  - intros (l1 & p & l2 & -> & Fp & Fq). rewrite filter_app. simpl. rewrite Fp.
    rewrite (proj2 (filter_nil_iff f l1)) by (intros q Hq; apply Fq, in_or_app; left; exact Hq).
    rewrite (proj2 (filter_nil_iff f l2)) by (intros q Hq; apply Fq, in_or_app; right; exact Hq).
    reflexivity.
Qed.

Lemma elem_of_b_false a p : elem_of_b a p = false <-> ~ ElemOf a p.
Proof. rewrite <- elem_of_b_iff. destruct (elem_of_b a p); split; intro H; try congruence; exfalso; apply H; reflexivity. Qed.

Lemma one_elem_b_iff a ps : one_elem_b a ps = true <-> OneElem a ps.
Proof.
  unfold one_elem_b, OneElem. rewrite Nat.eqb_eq, filter_len_1. split.
  - intros (l1 & p & l2 & E & Fp & Fq). exists l1, p, l2. split; [exact E|]. split; [apply elem_of_b_iff, Fp|].
    intros q Hq. apply elem_of_b_false, Fq, Hq.
  - intros (l1 & p & l2 & E & Fp & Fq). exists l1, p, l2. split; [exact E|]. split; [apply elem_of_b_iff, Fp|].
    intros q Hq. apply elem_of_b_false, Fq, Hq.
Qed.

Lemma matches_installed_b_iff apks ps : matches_installed_b apks ps = true <-> MatchesInstalled apks ps.
Proof.
  unfold matches_installed_b, MatchesInstalled. rewrite andb_true_iff, !forallb_forall. split.
  - intros [A B]. split.
    + intros a Ha. apply one_elem_b_iff, A, Ha.
    + intros p Hp. specialize (B p Hp). apply existsb_exists in B. destruct B as (a & Ha & E).
      exists a. split; [exact Ha | apply elem_of_b_iff, E].
  - intros [A B]. split.
    + intros a Ha. apply one_elem_b_iff, A, Ha.
    + intros p Hp. destruct (B p Hp) as (a & Ha & E). apply existsb_exists. exists a. split; [exact Ha | apply elem_of_b_iff, E].
Qed.
