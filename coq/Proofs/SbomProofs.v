(* C11 — proofs about Model/Sbom.v against Spec/SbomSpec.v. *)
From Apko Require Import Base.Prelude Base.Regex Generated.Regexes Model.Sbom Spec.SbomSpec.
Open Scope string_scope. Open Scope list_scope.

(* ---- strings ------------------------------------------------------------------ *)
Lemma app_str_assoc a b c : (a +++ b) +++ c = a +++ (b +++ c).
Proof. induction a as [|x a IH]; simpl; [reflexivity | rewrite IH; reflexivity]. Qed.
Lemma app_str_nil_r a : a +++ "" = a.
Proof. induction a as [|x a IH]; simpl; [reflexivity | rewrite IH; reflexivity]. Qed.
Lemma chars_app a b : list_ascii_of_string (a +++ b) = list_ascii_of_string a ++ list_ascii_of_string b.
Proof. induction a as [|x a IH]; simpl; [reflexivity | rewrite IH; reflexivity]. Qed.

Lemma mem_In x l : mem x l = true <-> In x l.
Proof.
  unfold mem. rewrite existsb_exists. split.
  - intros (y & Hy & E). apply String.eqb_eq in E. subst; assumption.
  - intro H. exists x. split; [assumption | apply String.eqb_refl].
Qed.
Lemma mem_false x l : mem x l = false <-> ~ In x l.
Proof. rewrite <- mem_In. destruct (mem x l); split; intro H; try congruence; exfalso; apply H; reflexivity. Qed.

(* ---- the identifier function ---------------------------------------------------- *)
Lemma regex_shape : exists rs, valid_id_chars_re = Plus (Cls rs).
Proof. eexists. reflexivity. Qed.

Lemma id_alphabet_b_iff s : id_alphabet_b s = true <-> IdAlphabet s.
Proof. unfold id_alphabet_b, IdAlphabet. rewrite forallb_forall, Forall_forall. tauto. Qed.

Lemma enc_alphabet_b : forall a, id_alphabet_b (enc a) = true.
Proof. intros [[] [] [] [] [] [] [] []]; vm_compute; reflexivity. Qed.

Lemma enc_clean : forall a, id_char a = true -> enc a = String a "".
Proof. intros [[] [] [] [] [] [] [] []] H; vm_compute in H; try discriminate H; vm_compute; reflexivity. Qed.

Lemma IdAlphabet_app a b : IdAlphabet (a +++ b) <-> IdAlphabet a /\ IdAlphabet b.
Proof. unfold IdAlphabet. rewrite chars_app, Forall_app. tauto. Qed.

Lemma sti_alphabet s : IdAlphabet (sti s).
Proof.
  induction s as [|a s IH]; simpl.
  - constructor.
  - apply IdAlphabet_app. split; [apply id_alphabet_b_iff, enc_alphabet_b | exact IH].
Qed.

Lemma sti_clean s : IdAlphabet s -> sti s = s.
Proof.
  induction s as [|a s IH]; simpl; intro H; [reflexivity|].
  unfold IdAlphabet in H; simpl in H. inversion H as [|? ? Ha Hs]; subst.
  rewrite (enc_clean a Ha). simpl. rewrite IH by exact Hs. reflexivity.
Qed.

Lemma sti_idempotent s : sti (sti s) = sti s.
Proof. apply sti_clean, sti_alphabet. Qed.

Lemma sti_app a b : sti (a +++ b) = sti a +++ sti b.
Proof. induction a as [|x a IH]; simpl; [reflexivity | rewrite IH, app_str_assoc; reflexivity]. Qed.

Lemma sti_pfx : sti pfx = pfx.
Proof. vm_compute. reflexivity. Qed.

Lemma sti_pfx_app s : sti (pfx +++ s) = pfx +++ sti s.
Proof. rewrite sti_app, sti_pfx. reflexivity. Qed.

(* every identifier Generate / GenerateIndex mint is SPDXRef-Package-<id chars> *)
Lemma valid_id_pfx t : IdAlphabet t -> ValidId (pfx +++ t).
Proof.
  intro H. exists ("Package-" +++ t). split; [reflexivity|]. split; [discriminate|].
  apply IdAlphabet_app. split; [|exact H]. apply id_alphabet_b_iff. vm_compute. reflexivity.
Qed.

Lemma prefix_app p : forall s, String.prefix p s = true <-> exists t, s = p +++ t.
Proof.
  induction p as [|a p IH]; intro s.
  - split; [intros _; exists s; reflexivity | intros _; destruct s; reflexivity].
  - destruct s as [|b s]; simpl.
    + split; [discriminate | intros (t & E); discriminate E].
    + destruct (ascii_dec a b) as [->|N].
      * rewrite IH. split; intros (t & E); exists t; [rewrite E; reflexivity | inversion E; reflexivity].
      * split; [discriminate | intros (t & E); inversion E; congruence].
Qed.

Lemma valid_id_b_iff s : valid_id_b s = true <-> ValidId s.
Proof.
  unfold valid_id_b, ValidId. rewrite !andb_true_iff, prefix_app, id_alphabet_b_iff. split.
  - intros [[(t & ->) Hl] Ha]. exists t. split; [reflexivity|]. split.
    + intro E; subst. vm_compute in Hl. discriminate Hl.
    + apply IdAlphabet_app in Ha. tauto.
  - intros (t & -> & Hne & Ha). split; [split|].
    + exists t; reflexivity.
    + destruct t; [congruence | reflexivity].
    + apply IdAlphabet_app. split; [apply id_alphabet_b_iff; vm_compute; reflexivity | exact Ha].
Qed.

(* ---- uniqueness -------------------------------------------------------------------- *)
Lemma nodup_b_iff l : nodup_b l = true <-> NoDup l.
Proof.
  induction l as [|x l IH]; simpl.
  - split; [constructor | reflexivity].
  - rewrite andb_true_iff, negb_true_iff, mem_false, IH. split.
    + intros [A B]; constructor; assumption.
    + intro H; inversion H; subst; tauto.
Qed.

Lemma dedup_pkgs_spec ps : forall seen,
  NoDup (List.map p_id (dedup_pkgs seen ps)) /\
  (forall x, In x (List.map p_id (dedup_pkgs seen ps)) <-> In x (List.map p_id ps) /\ ~ In x seen).
Proof.
  induction ps as [|p ps IH]; intro seen; simpl.
  - split; [constructor | intro x; tauto].
  - destruct (mem (p_id p) seen) eqn:E.
    + destruct (IH seen) as [N I]. split; [exact N|]. intro x. rewrite I. apply mem_In in E.
      split; [tauto|]. intros [[Hx|H] Hn]; [exfalso; apply Hn; rewrite <- Hx; exact E | tauto].
    + destruct (IH (p_id p :: seen)) as [N I]. apply mem_false in E. split.
      * simpl. constructor; [|exact N]. intro H. apply I in H. simpl in H. tauto.
      * intro x. simpl. rewrite I. simpl. split.
        -- intros [<-|[H Hn]]; tauto.
        -- intros [[<-|H] Hn]; [tauto|]. destruct (String.eqb (p_id p) x) eqn:Ex.
           ++ apply String.eqb_eq in Ex. tauto.
           ++ right. split; [assumption|]. intros [Hx|?]; [rewrite Hx, String.eqb_refl in Ex; discriminate | tauto].
Qed.

Lemma dedup_pkgs_incl ps : forall seen p, In p (dedup_pkgs seen ps) -> In p ps.
Proof.
  induction ps as [|q ps IH]; intros seen p; simpl; [tauto|].
  destruct (mem (p_id q) seen).
  - intro H; right; eapply IH; eassumption.
  - intros [->|H]; [left; reflexivity | right; eapply IH; eassumption].
Qed.

(* the first element carrying an id survives the de-duplication *)
Lemma dedup_pkgs_keeps_first l1 : forall seen p l2,
  ~ In (p_id p) (List.map p_id l1) -> ~ In (p_id p) seen ->
  In p (dedup_pkgs seen (l1 ++ p :: l2)).
Proof.
  induction l1 as [|q l1 IH]; intros seen p l2 H1 H2; simpl.
  - apply mem_false in H2. rewrite H2. left; reflexivity.
  - simpl in H1. destruct (mem (p_id q) seen).
    + apply IH; tauto.
    + right. apply IH; [tauto|]. simpl. intros [E|?]; [|tauto]. apply H1. left. exact E.
Qed.

Lemma dedup_pkgs_nodup_id ps : forall seen,
  NoDup (List.map p_id ps) -> (forall x, In x (List.map p_id ps) -> ~ In x seen) ->
  dedup_pkgs seen ps = ps.
Proof.
  induction ps as [|p ps IH]; intros seen N D; simpl; [reflexivity|].
  simpl in N. inversion N as [|? ? Hn N']; subst.
  assert (mem (p_id p) seen = false) as ->. { apply mem_false. apply D. left; reflexivity. }
  f_equal. apply IH; [exact N'|]. intros x Hx [<-|Hs]; [contradiction|]. eapply D; [right; exact Hx | exact Hs].
Qed.

(* ---- referential integrity ----------------------------------------------------------- *)
Lemma refs_resolve_b_iff d : refs_resolve_b d = true <-> RefsResolve d.
Proof.
  unfold refs_resolve_b, RefsResolve. rewrite andb_true_iff, !forallb_forall. split.
  - intros [A B]. split.
    + intros r Hr. specialize (A r Hr). apply andb_true_iff in A. rewrite !mem_In in A. exact A.
    + intros x Hx. apply mem_In, B, Hx.
  - intros [A B]. split.
    + intros r Hr. apply andb_true_iff. rewrite !mem_In. apply A, Hr.
    + intros x Hx. apply mem_In, B, Hx.
Qed.

Lemma refs_resolve_more_pkgs d ps :
  RefsResolve d -> (forall x, In x (ids d) -> In x (List.map p_id ps)) ->
  RefsResolve {| d_pkgs := ps; d_rels := d_rels d; d_desc := d_desc d |}.
Proof.
  intros [A B] I. split; unfold ids; simpl.
  - intros r Hr. destruct (A r Hr). split; apply I; assumption.
  - intros x Hx. apply I, B, Hx.
Qed.

(* ---- Generate ---------------------------------------------------------------------------- *)
Lemma rbind_ok {A B} (r : res A) (f : A -> res B) b : rbind r f = Ok b -> exists a, r = Ok a /\ f a = Ok b.
Proof. destruct r; simpl; intro H; try discriminate. eauto. Qed.

Lemma generate_inv perm g d : generate perm g = Ok d ->
  g_layers g <> [] /\
  exists d0, process_apks perm (g_fs g) (nonce_of g) (g_apks g) (base_doc g) = Ok d0 /\
    d = {| d_pkgs := dedup_pkgs [] (d_pkgs d0); d_rels := d_rels d0; d_desc := d_desc d0 |}.
Proof.
  unfold generate. destruct (g_layers g) eqn:E; [discriminate|]. intro H.
  apply rbind_ok in H. destruct H as (d0 & H0 & H1). inversion H1; subst.
  split; [discriminate|]. exists d0. split; [exact H0 | reflexivity].
Qed.

Lemma generate_ids_unique perm g d : generate perm g = Ok d -> IdsUnique d.
Proof.
  intro H. apply generate_inv in H. destruct H as (_ & d0 & _ & ->).
  unfold IdsUnique, ids; simpl. apply dedup_pkgs_spec.
Qed.

(* ---- the closure loop of copySBOMElements never runs out of fuel ---------------------------- *)
Lemma add_spec x l : forall y, In y (add x l) <-> In y l \/ y = x.
Proof.
  intro y. unfold add. destruct (mem x l) eqn:E.
  - apply mem_In in E. split; [tauto|]. intros [H| ->]; assumption.
  - rewrite in_app_iff. simpl. split; [intros [H|[<-|[]]]; tauto | intros [H| ->]; tauto].
Qed.
Lemma nodup_snoc (x : string) l : NoDup l -> ~ In x l -> NoDup (l ++ [x]).
Proof.
  induction l as [|a l IH]; simpl; intros N H.
  - constructor; [intros [] | constructor].
  - inversion N as [|? ? Ha N']; subst. constructor.
    + rewrite in_app_iff. simpl. intros [?|[E|[]]]; [tauto | apply H; left; congruence].
    + apply IH; tauto.
Qed.
Lemma add_nodup x l : NoDup l -> NoDup (add x l).
Proof.
  intro N. unfold add. destruct (mem x l) eqn:E; [exact N|]. apply mem_false in E.
  apply nodup_snoc; assumption.
Qed.
Lemma add_length x l : (List.length l <= List.length (add x l))%nat.
Proof. unfold add. destruct (mem x l); [lia | rewrite app_length; simpl; lia]. Qed.

Lemma sweep_inv (U : list string) rs : (forall r, In r rs -> In (r_related r) U) ->
  forall td, NoDup td -> incl td U ->
    NoDup (sweep rs td) /\ incl (sweep rs td) U /\ (List.length td <= List.length (sweep rs td))%nat.
Proof.
  unfold sweep. induction rs as [|r rs IH]; intros HU td N I; simpl.
  - repeat split; [assumption | assumption | lia].
  - assert (forall r', In r' rs -> In (r_related r') U) as HU' by (intros; apply HU; right; assumption).
    destruct (String.prefix file_pfx (r_related r)); [apply IH; assumption|].
    destruct (mem (r_elem r) td); [|apply IH; assumption].
    destruct (IH HU' (add (r_related r) td)) as (A & B & C).
    + apply add_nodup, N.
    + intros y Hy. apply add_spec in Hy. destruct Hy as [Hy| ->]; [apply I, Hy | apply HU; left; reflexivity].
    + repeat split; [exact A | exact B |]. pose proof (add_length (r_related r) td). lia.
Qed.

Lemma closure_fuel_enough (U : list string) rels : (forall r, In r rels -> In (r_related r) U) ->
  forall fuel prev td, NoDup td -> incl td U ->
    (List.length td = prev \/ (List.length U < List.length td + fuel)%nat) ->
    closure fuel rels prev td <> OutOfFuel.
Proof.
  intros HU. induction fuel as [|f IH]; intros prev td N I H; simpl.
  - destruct (Nat.eqb (List.length td) prev) eqn:E; [discriminate|].
    apply Nat.eqb_neq in E. pose proof (NoDup_incl_length N I). lia.
  - destruct (Nat.eqb (List.length td) prev) eqn:E; [discriminate|].
    apply Nat.eqb_neq in E. destruct (sweep_inv U rels HU td N I) as (A & B & C).
    apply IH; [exact A | exact B | lia].
Qed.

Lemma closure_never_out_of_fuel rels todo0 : NoDup todo0 ->
  closure (closure_fuel rels) rels 0 todo0 <> OutOfFuel.
Proof.
  intro N. apply (closure_fuel_enough (todo0 ++ List.map r_related rels)).
  - intros r Hr. apply in_or_app. right. apply in_map, Hr.
  - exact N.
  - apply incl_appl, incl_refl.
  - right. unfold closure_fuel. rewrite app_length, map_length. lia.
Qed.

Lemma dedup_spec l : NoDup (dedup l) /\ forall x, In x (dedup l) <-> In x l.
Proof.
  induction l as [|a l [N I]]; simpl; [split; [constructor | tauto]|].
  destruct (mem a l) eqn:E.
  - split; [exact N|]. intro x. rewrite I. apply mem_In in E. split; [tauto | intros [<-|H]; assumption].
  - apply mem_false in E. split.
    + constructor; [rewrite I; exact E | exact N].
    + intro x. simpl. rewrite I. tauto.
Qed.

Lemma copy_elements_fuel src tgt todo0 : NoDup todo0 -> copy_elements src tgt todo0 <> OutOfFuel.
Proof.
  intro N. unfold copy_elements. pose proof (closure_never_out_of_fuel (d_rels src) todo0 N) as H.
  destruct (closure _ _ _ _); simpl; try discriminate; try congruence.
  match goal with |- (if ?c then _ else _) <> _ => destruct c; discriminate end.
Qed.

Lemma process_internal_fuel perm fs d n v : process_internal perm fs d n v <> OutOfFuel.
Proof.
  unfold process_internal. destruct (locate _ _) as [[e| |]|]; try discriminate.
  pose proof (copy_elements_fuel e d (targets n e) (proj1 (dedup_spec _))) as H.
  destruct (copy_elements _ _ _); simpl; try discriminate; congruence.
Qed.

Lemma process_apks_fuel perm fs nonce apks : forall d, process_apks perm fs nonce apks d <> OutOfFuel.
Proof.
  induction apks as [|a apks IH]; intro d; simpl; [discriminate|].
  match goal with |- rbind ?r _ <> _ => pose proof (process_internal_fuel perm fs _ (a_name a) (a_version a) : r <> OutOfFuel) as H; destruct r end;
    simpl; try discriminate; try congruence; try apply IH.
Qed.

Lemma generate_fuel perm g : generate perm g <> OutOfFuel.
Proof.
  unfold generate. destruct (g_layers g); [discriminate|].
  pose proof (process_apks_fuel perm (g_fs g) (nonce_of g) (g_apks g) (base_doc g)) as H.
  destruct (process_apks _ _ _ _ _); simpl; try discriminate; congruence.
Qed.
