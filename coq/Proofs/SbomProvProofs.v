(* C11 — proofs about the provenance of the generator's inputs (Model/SbomProv.v,
   Spec/SbomProvSpec.v).  The first lemmas compute with Generated/C11Prov.v: they hold
   because of what goextract read from pkg/build/sbom.go on this run. *)
From Coq Require Import Permutation Sorted.
From Apko Require Import Base.Prelude Base.C01Lib Base.C11Lib Generated.C11Prov Model.Sbom Model.SbomLic Model.SbomProv
  Spec.SbomSpec Spec.SbomLicSpec Spec.SbomProvSpec Proofs.SbomProofs Proofs.SbomRepairProofs Proofs.SbomNumbered Proofs.SbomLicProofs.
Open Scope string_scope. Open Scope list_scope.

(* ---- the image SBOM ------------------------------------------------------------ *)
Lemma image_sbom_input_spec b : image_sbom_input b = Some (expected_input b).
Proof. reflexivity. Qed.

Lemma image_sbom_is_generate perm b : image_sbom perm b = generate perm (expected_input b).
Proof. unfold image_sbom. rewrite image_sbom_input_spec. reflexivity. Qed.

Lemma all_installed_handed_over b g : image_sbom_input b = Some g -> AllInstalledHandedOver b g.
Proof.
  rewrite image_sbom_input_spec. intro H. inversion H; subst. split; cbn.
  - apply map_length.
  - intros i Hi. apply in_map. exact Hi.
Qed.

Lemma hash_string_nonempty h : hash_string h <> "".
Proof.
  unfold hash_string. destruct (fst h) as [|c s]; cbn; discriminate.
Qed.

Lemma built_image_sound perm b d : image_sbom perm b = Ok d ->
  IdsUnique d /\ ((forall l, Permutation (perm l) l) -> SingleTarget (expected_input b) -> RefsResolve d).
Proof.
  rewrite image_sbom_is_generate. intro H. split.
  - eapply gen_ids_unique. exact H.
  - intros P S. eapply gen_refs_single; eassumption.
Qed.

Lemma built_image_described perm b d : NoEmbedded (expected_input b) -> image_sbom perm b = Ok d ->
  DescribesImage (hash_string (b_digest b)) d /\
  (NoDup (ids (base_doc (expected_input b))) -> NamesLayers (b_layers b) d) /\
  (NoDup (List.map (fun i => (a_name (i_apk i), a_version (i_apk i))) (b_installed b)) ->
     exists elems, d_pkgs d = dedup_pkgs [] (d_pkgs (base_doc (expected_input b))) ++ elems /\
       Forall2 (fun a p => ElemOf a p /\ exists sfx, p_id p = p_id (apk_package (nonce_of (expected_input b)) a) +++ sfx)
               (List.map i_apk (b_installed b)) elems /\
       MatchesInstalled (List.map i_apk (b_installed b)) elems).
Proof.
  rewrite image_sbom_is_generate. intros NE H.
  destruct (gen_plain_digests perm _ d NE H) as [D L]. split; [apply D; apply hash_string_nonempty|].
  split; [exact L|]. intro N.
  assert (NoDup (List.map key (g_apks (expected_input b)))) as N' by (cbn [expected_input g_apks]; rewrite map_map; exact N).
  exact (proj2 (gen_one_per_apk perm _ d NE N' H)).
Qed.

Lemma built_image_licensing perm b lfs d l : image_sbom_full perm b lfs = Ok (d, l) ->
  image_sbom perm b = Ok d /\ LicPreserved (used_lists (b_fs b) lfs (List.map i_apk (b_installed b))) l.
Proof.
  unfold image_sbom_full. rewrite image_sbom_is_generate, image_sbom_input_spec. intro H.
  exact (generate_full_ok perm (expected_input b) lfs d l H).
Qed.

(* ---- the index SBOM ------------------------------------------------------------- *)
Lemma arch_leb_total a b : arch_leb a b = true \/ arch_leb b a = true.
Proof. apply sleb_total. Qed.
Lemma arch_leb_trans a b c : arch_leb a b = true -> arch_leb b c = true -> arch_leb a c = true.
Proof. apply sleb_trans. Qed.

Lemma nodup_keys_inj {A B} (l : list (A * B)) : NoDup (List.map fst l) ->
  forall a b, In a l -> In b l -> fst a = fst b -> a = b.
Proof.
  induction l as [|x r IH]; cbn; intros N a b Ha Hb E; [destruct Ha|].
  inversion N; subst. destruct Ha as [<-|Ha], Hb as [<-|Hb].
  - reflexivity.
  - exfalso. apply H1. rewrite E. apply in_map. exact Hb.
  - exfalso. apply H1. rewrite <- E. apply in_map. exact Ha.
  - apply IH; assumption.
Qed.

Lemma index_sbom_input_is ord bi :
  index_sbom_input ord bi = Some {| x_index := bi_digest bi; x_images := List.map snd (isort arch_leb (ord (bi_images bi))); x_vcs := bi_vcs bi |}.
Proof. reflexivity. Qed.

(* the order in which Go ranges over the images map does not matter *)
Lemma index_sbom_input_order_independent ord bi : (forall l, Permutation (ord l) l) -> NoDup (List.map fst (bi_images bi)) ->
  index_sbom_input ord bi = Some (expected_index_input bi).
Proof.
  intros P N. rewrite index_sbom_input_is. unfold expected_index_input. do 3 f_equal.
  apply (isort_perm_invariant_on arch_leb arch_leb_total arch_leb_trans); [|apply P].
  intros a b Ha Hb L1 L2.
  assert (Ia : In a (bi_images bi)) by (eapply Permutation_in; [apply P | exact Ha]).
  assert (Ib : In b (bi_images bi)) by (eapply Permutation_in; [apply P | exact Hb]).
  apply (nodup_keys_inj _ N a b Ia Ib). apply sleb_antisym; assumption.
Qed.

Lemma index_sbom_input_spec ord bi : (forall l, Permutation (ord l) l) ->
  exists x, index_sbom_input ord bi = Some x /\ IndexInputsAreTheBuilt bi x.
Proof.
  intro P. eexists. split; [apply index_sbom_input_is|]. split; [reflexivity|]. split; [reflexivity|].
  exists (isort arch_leb (ord (bi_images bi))). split; [|split; [|reflexivity]].
  - eapply perm_trans; [apply Permutation_sym, isort_perm | apply P].
  - apply (isort_sorted arch_leb arch_leb_total arch_leb_trans).
Qed.

Lemma built_index_described ord bi d : (forall l, Permutation (ord l) l) -> index_sbom ord bi = Ok d ->
  RefsResolve d /\
  (exists p, In p (d_pkgs d) /\ p_name p = hash_string (bi_digest bi) /\
             p_sums p = [("SHA256", snd (bi_digest bi))] /\ d_desc d = [p_id p]) /\
  (forall a h, In (a, h) (bi_images bi) -> exists p, In p (d_pkgs d) /\ p_sums p = [("SHA256", snd h)] /\
     In {| r_elem := p_id (index_package (bi_digest bi)); r_type := "VARIANT_OF"; r_related := p_id p |} (d_rels d)).
Proof.
  intros P. unfold index_sbom. rewrite index_sbom_input_is. intro H.
  split; [eapply generate_index_refs; exact H|].
  destruct (generate_index_digests _ _ H) as [I V]. cbn in I, V. split; [exact I|].
  intros a h Hin. apply V. apply in_map_iff. exists (a, h). split; [reflexivity|].
  eapply Permutation_in; [apply isort_perm|]. eapply Permutation_in; [apply Permutation_sym, P | exact Hin].
Qed.

(* non-vacuity *)
Definition ex_built : built :=
  {| b_layers := [("sha256", "c1"); ("sha256", "c2")]; b_digest := ("sha256", "ab");
     b_installed := [ {| i_apk := {| a_name := "musl"; a_version := "1.2.2-r7"; a_sum := [13; 230]%N |}; i_arch := "x86_64" |};
                      {| i_apk := {| a_name := "tzdata"; a_version := "2024a-r1"; a_sum := [1]%N |}; i_arch := "noarch" |};
                      {| i_apk := {| a_name := "cross-stub"; a_version := "1.0-r0"; a_sum := [2]%N |}; i_arch := "aarch64" |} ];
     b_version_id := "3.19"; b_vcs := ""; b_fs := [] |}.
Lemma ex_built_ok : NoEmbedded (expected_input ex_built) /\ NoDup (List.map (fun i => (a_name (i_apk i), a_version (i_apk i))) (b_installed ex_built)) /\
  exists d, image_sbom (fun l => l) ex_built = Ok d /\ List.map p_name (d_pkgs d) = ["sha256:ab"; "sha256:c1"; "sha256:c2"; "musl"; "tzdata"; "cross-stub"].
Proof.
  split; [intros a _; reflexivity|]. split; [repeat constructor; cbn; intuition discriminate|].
  eexists. split; vm_compute; reflexivity.
Qed.
Definition ex_built_index : built_index :=
  {| bi_digest := ("sha256", "1d"); bi_images := [("arm64", ("sha256", "a2")); ("amd64", ("sha256", "a1"))]; bi_vcs := "" |}.
Lemma ex_built_index_ok : NoDup (List.map fst (bi_images ex_built_index)) /\
  x_images (expected_index_input ex_built_index) = [("sha256", "a1"); ("sha256", "a2")] /\
  exists d, index_sbom (@rev _) ex_built_index = Ok d.
Proof. split; [repeat constructor; cbn; intuition discriminate|]. split; [vm_compute; reflexivity | eexists; vm_compute; reflexivity]. Qed.
