(* C11 — proofs about Model/SbomRelease.v (readReleaseData). *)
From Apko Require Import Base.Prelude Base.C11Lib Generated.C11Prov Model.Sbom Model.SbomRelease Spec.SbomReleaseSpec.
Open Scope string_scope. Open Scope list_scope.

Lemma assign_of_iff k l v : assign_of k l = Some v <-> Assigns k v l.
Proof.
  unfold assign_of, Assigns. destruct (skipped l); [split; [discriminate | intros [H _]; discriminate]|].
  destruct (cut_at ch_eq l) as [[k' a]|].
  - destruct (String.eqb k' k) eqn:E.
    + apply String.eqb_eq in E. subst k'. split.
      * intro H. inversion H; subst. split; [reflexivity|]. exists a. split; reflexivity.
      * intros [_ (a' & C & ->)]. inversion C; subst. reflexivity.
    + apply String.eqb_neq in E. split; [discriminate|]. intros [_ (a' & C & _)]. inversion C; subst. contradiction.
  - split; [discriminate|]. intros [_ (a' & C & _)]. discriminate C.
Qed.

Lemma assign_of_none k l : assign_of k l = None <-> forall v, ~ Assigns k v l.
Proof.
  split.
  - intros H v A. apply assign_of_iff in A. congruence.
  - intro H. destruct (assign_of k l) as [v|] eqn:E; [|reflexivity]. exfalso. apply (H v), assign_of_iff, E.
Qed.

Lemma malformed_b_iff l : malformed_b l = true <-> Malformed l.
Proof.
  unfold malformed_b, Malformed. rewrite andb_true_iff, negb_true_iff.
  destruct (cut_at ch_eq l) as [[k a]|]; split; intros [A B]; split; try assumption; try reflexivity; discriminate.
Qed.

(* the parser: what a key holds afterwards *)
Lemma parse_lines_get k ls : forall kv0 kv, parse_lines ls kv0 = Ok kv ->
  get k kv = match last_assign k ls with Some v => v | None => get k kv0 end.
Proof.
  induction ls as [|l t IH]; intros kv0 kv H; cbn [parse_lines last_assign] in *.
  - inversion H; subst. reflexivity.
  - unfold assign_of. destruct (skipped l) eqn:S.
    + rewrite (IH _ _ H). destruct (last_assign k t); reflexivity.
    + destruct (cut_at ch_eq l) as [[k' a]|]; [|discriminate H].
      rewrite (IH _ _ H). destruct (last_assign k t); [reflexivity|]. cbn [get]. destruct (String.eqb k' k); reflexivity.
Qed.

(* it fails exactly on a malformed line, and in no other way *)
Lemma parse_lines_total ls : forall kv0, (exists kv, parse_lines ls kv0 = Ok kv) \/ parse_lines ls kv0 = Err.
Proof.
  induction ls as [|l t IH]; intro kv0; cbn [parse_lines]; [left; eexists; reflexivity|].
  destruct (skipped l); [apply IH|]. destruct (cut_at ch_eq l) as [[k a]|]; [apply IH | right; reflexivity].
Qed.

Lemma parse_lines_err ls : forall kv0, parse_lines ls kv0 = Err <-> exists l, In l ls /\ Malformed l.
Proof.
  induction ls as [|l t IH]; intro kv0; cbn [parse_lines].
  - split; [discriminate | intros (l & [] & _)].
  - destruct (skipped l) eqn:S.
    + rewrite IH. split; intros (l' & Hl & M); exists l'; (split; [|exact M]).
      * right; exact Hl.
      * destruct Hl as [<-|Hl]; [destruct M as [M _]; congruence | exact Hl].
    + destruct (cut_at ch_eq l) as [[k a]|] eqn:C.
      * rewrite IH. split; intros (l' & Hl & M); exists l'; (split; [|exact M]).
        -- right; exact Hl.
        -- destruct Hl as [<-|Hl]; [destruct M as [_ M]; congruence | exact Hl].
      * split; [|reflexivity]. intros _. exists l. split; [left; reflexivity | split; assumption].
Qed.

(* the executable 'last assignment' is the readable one *)
Lemma last_assign_some k ls v : last_assign k ls = Some v <-> LastAssigns k v ls.
Proof.
  revert v. induction ls as [|l t IH]; intro v; cbn [last_assign].
  - split; [discriminate | intros (l1 & l & l2 & E & _); destruct l1; discriminate E].
  - destruct (last_assign k t) as [w|] eqn:L.
    + split.
      * intro H. inversion H; subst. destruct (proj1 (IH v) eq_refl) as (l1 & l0 & l2 & E & A & N).
        exists (l :: l1), l0, l2. split; [rewrite E; reflexivity | split; assumption].
      * intros (l1 & l0 & l2 & E & A & N). destruct l1 as [|x l1]; cbn in E; inversion E; subst.
        -- exfalso. destruct (proj1 (IH w) eq_refl) as (m1 & m & m2 & E' & A' & _).
           apply (N m w); [rewrite E'; apply in_or_app; right; left; reflexivity | exact A'].
        -- apply IH. exists l1, l0, l2. split; [reflexivity | split; assumption].
    + split.
      * intro H. apply assign_of_iff in H. exists [], l, t. split; [reflexivity|]. split; [exact H|].
        intros l' v' Hl' A'. assert (last_assign k t = None -> forall l' v', In l' t -> ~ Assigns k v' l') as X.
        { clear. induction t as [|x t IHt]; cbn [last_assign]; [intros _ l' v' []|].
          destruct (last_assign k t); [discriminate|]. intros H l' v' [<-|Hl'] A.
          - apply assign_of_iff in A. congruence.
          - apply (IHt eq_refl l' v' Hl' A). }
        apply (X L l' v' Hl' A').
      * intros (l1 & l0 & l2 & E & A & N). destruct l1 as [|x l1]; cbn in E; inversion E; subst.
        -- apply assign_of_iff, A.
        -- exfalso. assert (LastAssigns k v (l1 ++ l0 :: l2)) as LA by (exists l1, l0, l2; split; [reflexivity | split; assumption]).
           apply IH in LA. discriminate LA.
Qed.

Lemma last_assign_none k ls : last_assign k ls = None <-> NeverAssigned k ls.
Proof.
  unfold NeverAssigned. induction ls as [|l t IH]; cbn [last_assign].
  - split; [intros _ l v [] | reflexivity].
  - destruct (last_assign k t) as [w|] eqn:L.
    + split; [discriminate|]. intro H. exfalso.
      assert (Some w = None) as X; [|discriminate X]. apply IH. intros l' v' Hl'. apply H. right; exact Hl'.
    + rewrite assign_of_none. split.
      * intros H l' v' [<-|Hl']; [apply H | apply (proj1 IH eq_refl l' v' Hl')].
      * intros H v. apply H. left; reflexivity.
Qed.

(* ---- readReleaseData ------------------------------------------------------------------------- *)
Lemma read_release_fields s r : read_release (Some s) = Ok r ->
  forall k f, In (k, f) [("ID", rd_id r); ("NAME", rd_name r); ("VERSION_ID", rd_version r)] ->
    (forall v, LastAssigns k v (scan_lines s) -> f = v) /\ (NeverAssigned k (scan_lines s) -> f = "").
Proof.
  unfold read_release. intro H.
  destruct (parse_lines (scan_lines s) []) as [kv| | |] eqn:P; try discriminate H. cbn [rbind] in H. inversion H; subst; clear H.
  intros k f Hin. cbn [rd_id rd_name rd_version In] in Hin.
  assert (f = get k kv) as -> by (destruct Hin as [E|[E|[E|[]]]]; inversion E; reflexivity).
  rewrite (parse_lines_get k _ _ _ P). split.
  - intros v LA. apply last_assign_some in LA. rewrite LA. reflexivity.
  - intro NA. apply last_assign_none in NA. rewrite NA. reflexivity.
Qed.

Lemma read_release_outcome f :
  (exists r, read_release f = Ok r) \/ read_release f = Err.
Proof.
  destruct f as [s|]; [|left; eexists; reflexivity]. unfold read_release.
  destruct (parse_lines_total (scan_lines s) []) as [[kv ->]| ->]; [left; eexists; reflexivity | right; reflexivity].
Qed.

Lemma read_release_err s : read_release (Some s) = Err <-> exists l, In l (scan_lines s) /\ Malformed l.
Proof.
  rewrite <- (parse_lines_err (scan_lines s) []). unfold read_release.
  destruct (parse_lines (scan_lines s) []); cbn [rbind]; split; intro H; try discriminate H; reflexivity.
Qed.

Lemma read_release_missing : read_release None = Ok {| rd_id := "unknown"; rd_name := "apko-generated image"; rd_version := "unknown" |}.
Proof. reflexivity. Qed.

(* the value never keeps a double quote at either end *)
Lemma drop_quotes_head l : match drop_quotes l with a :: _ => Ascii.eqb a ch_quote = false | [] => True end.
Proof. induction l as [|a t IH]; cbn [drop_quotes]; [exact I|]. destruct (Ascii.eqb a ch_quote) eqn:E; [exact IH | exact E]. Qed.

(* non-vacuity: a typical file, with a comment, CRLF, quotes, a repeated key and no final newline *)
Definition ex_os_release : string :=
  "# comment" +++ String ch_nl "" +++ "ID=wolfi" +++ String ch_cr (String ch_nl "") +++ String ch_nl "" +++
  "NAME=" +++ String ch_quote "Wolfi" +++ String ch_quote (String ch_nl "") +++
  "VERSION_ID=1" +++ String ch_nl "" +++ "VERSION_ID=" +++ String ch_quote "20230201" +++ String ch_quote "".
Lemma ex_os_release_ok : read_release (Some ex_os_release) = Ok {| rd_id := "wolfi"; rd_name := "Wolfi"; rd_version := "20230201" |}
  /\ LastAssigns "VERSION_ID" "20230201" (scan_lines ex_os_release)
  /\ read_release (Some ("ID=x" +++ String ch_nl "oops")) = Err.
Proof.
  split; [vm_compute; reflexivity|]. split; [apply last_assign_some; vm_compute; reflexivity | vm_compute; reflexivity].
Qed.

Lemma release_version_of_ok f r : read_release f = Ok r -> release_version_of f = rd_version r.
Proof. unfold release_version_of. intros ->. reflexivity. Qed.

(* what goextract read in the parser on this run *)
Lemma release_literals_read :
  os_release_path = "/etc/os-release" /\
  os_release_key_id = "ID" /\ os_release_key_name = "NAME" /\ os_release_key_version = "VERSION_ID" /\
  os_release_default_id = "unknown" /\ os_release_default_name = "apko-generated image" /\ os_release_default_version = "unknown".
Proof. repeat split; reflexivity. Qed.
