(* C11 — proofs about Model/SbomRepair.v (spdx.go with fixes/C11-F1.patch and
   fixes/C11-F3.patch applied; the patches are NOT in /repo, the model was compared
   with a patched scratch copy, see notes/C11.md). *)
From Coq Require Import Permutation DecimalString DecimalN FinFun.
From Apko Require Import Base.Prelude Base.Regex Generated.Regexes Model.Sbom Model.SbomRepair
  Spec.SbomSpec Proofs.SbomProofs Proofs.SbomTwoTargets.
Open Scope string_scope. Open Scope list_scope.

(* ---- with both repairs switched off the model is today's model ------------------------ *)
Lemma process_internal_r_off perm fs d n v : process_internal_r false perm fs d n v = process_internal perm fs d n v.
Proof. reflexivity. Qed.

Lemma process_apks_r_off perm fs nonce apks : forall d,
  process_apks_r false false perm fs nonce apks d = process_apks_u perm fs nonce apks d.
Proof.
  induction apks as [|a apks IH]; intro d; [reflexivity|]. cbn [process_apks_r process_apks_u rbind].
  rewrite process_internal_r_off. cbn [with_id apk_package p_id p_name p_version p_sums].
  destruct (process_internal _ _ _ _ _); cbn [rbind]; try reflexivity. apply IH.
Qed.

Lemma repair_off perm g : generate_r false false perm g = generate_u perm g.
Proof. unfold generate_r, generate_u. destruct (g_layers g); [reflexivity|]. rewrite process_apks_r_off. reflexivity. Qed.

(* ---- uniqueness (the final de-duplication is unchanged) ---------------------------------- *)
Lemma generate_r_inv f1 f3 perm g d : generate_r f1 f3 perm g = Ok d ->
  g_layers g <> [] /\
  exists d0, process_apks_r f1 f3 perm (g_fs g) (nonce_of g) (g_apks g) (base_doc g) = Ok d0 /\
    d = {| d_pkgs := dedup_pkgs [] (d_pkgs d0); d_rels := d_rels d0; d_desc := d_desc d0 |}.
Proof.
  unfold generate_r. destruct (g_layers g) eqn:E; [discriminate|]. intro H.
  apply rbind_ok in H. destruct H as (d0 & H0 & H1). inversion H1; subst.
  split; [discriminate|]. exists d0. split; [exact H0 | reflexivity].
Qed.

Lemma generate_r_ids_unique f1 f3 perm g d : generate_r f1 f3 perm g = Ok d -> IdsUnique d.
Proof.
  intro H. apply generate_r_inv in H. destruct H as (_ & d0 & _ & ->).
  unfold IdsUnique, ids; simpl. apply dedup_pkgs_spec.
Qed.

(* ---- the numbering loop finds a free identifier -------------------------------------------- *)
Lemma append_inj_l a : forall b c, a +++ b = a +++ c -> b = c.
Proof. induction a as [|x a IH]; simpl; intros b c H; [exact H | inversion H; auto]. Qed.

Lemma dec_inj n m : dec n = dec m -> n = m.
Proof.
  unfold dec. intro H. assert (N.to_uint n = N.to_uint m) as E.
  { pose proof (NilEmpty.usu (N.to_uint n)) as A. pose proof (NilEmpty.usu (N.to_uint m)) as B.
    rewrite H in A. rewrite A in B. inversion B; reflexivity. }
  rewrite <- (Unsigned.of_to n), <- (Unsigned.of_to m), E. reflexivity.
Qed.

Lemma numbered_inj base n m : numbered base n = numbered base m -> n = m.
Proof. unfold numbered. intro H. apply append_inj_l in H. simpl in H. inversion H. apply dec_inj. assumption. Qed.

Lemma taken_in ps name version c : taken ps name version c = true -> In c (List.map p_id ps).
Proof.
  unfold taken. rewrite existsb_exists. intros (q & Hq & E). apply andb_true_iff in E. destruct E as [E _].
  apply String.eqb_eq in E. subst c. apply in_map, Hq.
Qed.

Lemma free_candidate (used : list string) base n0 :
  exists k, (k < S (List.length used))%nat /\ ~ In (numbered base (n0 + N.of_nat k)) used.
Proof.
  set (f := fun k => numbered base (n0 + N.of_nat k)).
  set (cands := List.map f (seq 0 (S (List.length used)))).
  assert (NoDup cands) as ND.
  { apply Injective_map_NoDup; [|apply seq_NoDup]. intros x y H. apply numbered_inj in H. lia. }
  destruct (existsb (fun c => negb (mem c used)) cands) eqn:E.
  - apply existsb_exists in E. destruct E as (c & Hc & Nc). apply in_map_iff in Hc. destruct Hc as (k & <- & Hk).
    apply in_seq in Hk. exists k. split; [lia|]. apply mem_false, negb_true_iff, Nc.
  - exfalso. assert (incl cands used) as I.
    { intros c Hc. destruct (mem c used) eqn:M; [apply mem_In, M|].
      assert (existsb (fun c => negb (mem c used)) cands = true) as X by (apply existsb_exists; exists c; rewrite M; tauto).
      congruence. }
    pose proof (NoDup_incl_length ND I) as L. unfold cands in L. rewrite map_length, seq_length in L. lia.
Qed.

Lemma pick_from_ok ps name version base : forall fuel n,
  (exists k, (k < fuel)%nat /\ ~ In (numbered base (n + N.of_nat k)) (List.map p_id ps)) ->
  exists c k, pick_from fuel ps name version base n = Ok c /\ c = numbered base (n + k) /\ taken ps name version c = false.
Proof.
  induction fuel as [|f IH]; intros n (k & Hk & Hn); [lia|]. cbn [pick_from].
  destruct (taken ps name version (numbered base n)) eqn:T.
  - destruct k as [|k].
    + exfalso. apply Hn. rewrite N.add_0_r. apply (taken_in _ _ _ _ T).
    + destruct (IH (n + 1)%N) as (c & j & A & B & C).
      { exists k. split; [lia|]. replace (n + 1 + N.of_nat k)%N with (n + N.of_nat (S k))%N by lia. exact Hn. }
      exists c, (1 + j)%N. split; [exact A|]. split; [rewrite B; f_equal; lia | exact C].
  - exists (numbered base n), 0%N. split; [reflexivity|]. split; [rewrite N.add_0_r; reflexivity | exact T].
Qed.

(* the identifier the repaired Generate gives the apk: the one it gives today,
   possibly with a numeric suffix, and not taken by a package with another name or version *)
Lemma pick_id_ok ps name version base :
  exists c sfx, pick_id ps name version base = Ok c /\ c = base +++ sfx /\ taken ps name version c = false.
Proof.
  unfold pick_id, pick_id_from. destruct (taken ps name version base) eqn:T.
  - destruct (pick_from_ok ps name version base (S (List.length ps)) 2) as (c & k & A & B & C).
    { rewrite <- (map_length p_id ps). apply free_candidate. }
    exists c, ("-" +++ dec (2 + k)). split; [exact A|]. split; [exact B | exact C].
  - exists base, "". split; [reflexivity|]. split; [rewrite app_str_nil_r; reflexivity | exact T].
Qed.

Lemma pick_id_free ps name version base : ~ In base (List.map p_id ps) -> pick_id ps name version base = Ok base.
Proof.
  intro H. unfold pick_id, pick_id_from. destruct (taken ps name version base) eqn:T; [|reflexivity].
  exfalso. apply H, (taken_in _ _ _ _ T).
Qed.

(* ---- the repaired Generate never runs out of fuel ------------------------------------------- *)
Lemma process_internal_r_fuel f3 perm fs d n v : process_internal_r f3 perm fs d n v <> OutOfFuel.
Proof.
  unfold process_internal_r. destruct (locate _ _) as [[e| |]|]; try discriminate.
  pose proof (copy_elements_fuel e d (targets n e) (proj1 (dedup_spec _))) as H.
  destruct (copy_elements _ _ _); simpl; try discriminate; congruence.
Qed.

Lemma process_apks_r_fuel f1 f3 perm fs nonce apks : forall d, process_apks_r f1 f3 perm fs nonce apks d <> OutOfFuel.
Proof.
  induction apks as [|a apks IH]; intro d; cbn [process_apks_r]; [discriminate|].
  assert (exists i, (if f1 then pick_id (d_pkgs d) (a_name a) (a_version a) (p_id (apk_package nonce a))
                     else Ok (p_id (apk_package nonce a))) = Ok i) as (i & ->).
  { destruct f1; [|eauto]. destruct (pick_id_ok (d_pkgs d) (a_name a) (a_version a) (p_id (apk_package nonce a))) as (c & _ & E & _). eauto. }
  cbn [rbind].
  match goal with |- rbind ?r _ <> _ =>
    pose proof (process_internal_r_fuel f3 perm fs _ (a_name a) (a_version a) : r <> OutOfFuel) as H; destruct r end;
    simpl; try discriminate; try congruence; try apply IH.
Qed.

Lemma generate_r_fuel f1 f3 perm g : generate_r f1 f3 perm g <> OutOfFuel.
Proof.
  unfold generate_r. destruct (g_layers g); [discriminate|].
  pose proof (process_apks_r_fuel f1 f3 perm (g_fs g) (nonce_of g) (g_apks g) (base_doc g)) as H.
  destruct (process_apks_r _ _ _ _ _ _ _); simpl; try discriminate; congruence.
Qed.

(* ---- [f3]: references resolve for EVERY embedded document and every visiting order -------------- *)
Lemma fold_r_refs pname tg : forall l d,
  RefsResolve d -> (List.length (d_desc d) <= 1)%nat ->
  (forall x, In x l -> In x tg) -> (forall x, In x tg -> In x (ids d)) ->
  RefsResolve (fold_left (replace_step_r true pname tg) l d) /\
  List.length (d_desc (fold_left (replace_step_r true pname tg) l d)) = List.length (d_desc d).
Proof.
  induction l as [|x l IH]; intros d R L Sub Tg; cbn [fold_left]; [tauto|].
  assert (RefsResolve (replace_step_r true pname tg d x) /\
          List.length (d_desc (replace_step_r true pname tg d x)) = List.length (d_desc d) /\
          (forall y, In y tg -> In y (ids (replace_step_r true pname tg d x)))) as (R2 & L2 & T2).
  { unfold replace_step_r. destruct (find _ (d_pkgs d)) as [q|] eqn:F; [|tauto].
    apply find_some in F. destruct F as [_ F]. apply andb_true_iff in F. destruct F as [_ F].
    apply negb_true_iff, mem_false in F.
    assert (In x tg) as Hx by (apply Sub; left; reflexivity).
    destruct (replace_package_refs d (p_id q) x R (Tg x Hx)) as [R2 L2]; [intro E; apply F; rewrite <- E; exact Hx | exact L|].
    split; [exact R2|]. split; [exact L2|]. intros y Hy. apply replace_package_keeps; [apply Tg, Hy|].
    intro E. apply F. rewrite <- E. exact Hy. }
  destruct (IH _ R2) as [R3 L3]; [lia | intros y Hy; apply Sub; right; exact Hy | exact T2|].
  split; [exact R3 | lia].
Qed.

Lemma process_internal_r_refs perm fs d pname pversion d' :
  RefsResolve d -> (List.length (d_desc d) <= 1)%nat -> (forall l x, In x (perm l) -> In x l) ->
  process_internal_r true perm fs d pname pversion = Ok d' ->
  RefsResolve d' /\ List.length (d_desc d') = List.length (d_desc d).
Proof.
  intros R L P H. unfold process_internal_r in H.
  destruct (locate fs (candidates pname pversion)) as [[e| |]|]; try discriminate H;
    try (inversion H; subst; tauto).
  apply rbind_ok in H. destruct H as (d1 & Hc & H). inversion H; subst; clear H.
  destruct (copy_elements_refs _ _ _ _ R Hc) as (R1 & D1 & I1 & _). rewrite <- D1.
  apply fold_r_refs; [exact R1 | rewrite D1; exact L | apply P | exact I1].
Qed.

Lemma process_apks_r_refs f1 perm fs nonce : (forall l x, In x (perm l) -> In x l) ->
  forall apks d d', RefsResolve d -> (List.length (d_desc d) <= 1)%nat ->
  process_apks_r f1 true perm fs nonce apks d = Ok d' -> RefsResolve d'.
Proof.
  intro P. induction apks as [|a apks IH]; intros d d' R L H; cbn [process_apks_r] in H.
  - inversion H; subst; exact R.
  - apply rbind_ok in H. destruct H as (i & _ & H). apply rbind_ok in H. destruct H as (d2 & H2 & H).
    pose proof (add_own_refs d (with_id (apk_package nonce a) i) R) as R1.
    destruct (process_internal_r_refs perm fs _ _ _ _ R1 L P H2) as [R2 L2].
    apply (IH d2 d' R2); [cbn [d_desc] in L2; lia | exact H].
Qed.

Lemma generate_r_refs f1 perm g d : (forall l x, In x (perm l) -> In x l) ->
  generate_r f1 true perm g = Ok d -> RefsResolve d.
Proof.
  intros P H. apply generate_r_inv in H. destruct H as (L & d0 & H0 & ->).
  pose proof (process_apks_r_refs f1 perm (g_fs g) (nonce_of g) P (g_apks g) (base_doc g) d0
                (base_doc_refs g L) (base_doc_desc g) H0) as R.
  apply (refs_resolve_more_pkgs d0); [exact R|]. intros x Hx. apply dedup_pkgs_spec. split; [exact Hx | intros []].
Qed.

(* the three witnesses of the unrepaired loop resolve in the repaired model, in both orders *)
Lemma repaired_witnesses : forall g, In g [three_target_witness; two_target_witness; replace_self_witness] ->
  forall perm, In perm [(fun l => l); @rev string] -> exists d, generate_r true true perm g = Ok d /\ RefsResolve d.
Proof.
  intros g Hg perm Hp. simpl in Hg, Hp.
  destruct Hg as [<-|[<-|[<-|[]]]]; destruct Hp as [<-|[<-|[]]];
    (eexists; split; [vm_compute; reflexivity | apply refs_resolve_b_iff; vm_compute; reflexivity]).
Qed.

(* ---- [f1]: exactly one element per installed apk, whatever the names ------------------------------ *)
Definition own_id (nonce : string) (a : apk) : string := p_id (apk_package nonce a).
Definition key (a : apk) : string * string := (a_name a, a_version a).

(* what the repaired apk loop appends when no apk carries an embedded document *)
Inductive chain (nonce : string) : list pkg -> list apk -> list pkg -> Prop :=
| chain_nil ps : chain nonce ps [] []
| chain_cons ps a apks p elems :
    ElemOf a p -> (exists sfx, p_id p = own_id nonce a +++ sfx) ->
    taken ps (a_name a) (a_version a) (p_id p) = false ->
    chain nonce (ps ++ [p]) apks elems -> chain nonce ps (a :: apks) (p :: elems).

Lemma process_apks_r_plain f3 perm fs nonce : forall apks d d',
  (forall a, In a apks -> locate fs (candidates (a_name a) (a_version a)) = None) ->
  process_apks_r true f3 perm fs nonce apks d = Ok d' ->
  exists elems, d_pkgs d' = d_pkgs d ++ elems /\ d_rels d' = d_rels d /\ d_desc d' = d_desc d /\
                chain nonce (d_pkgs d) apks elems.
Proof.
  induction apks as [|a apks IH]; intros d d' NE H; cbn [process_apks_r] in H.
  - inversion H; subst. exists []. rewrite app_nil_r. repeat split. constructor.
  - destruct (pick_id_ok (d_pkgs d) (a_name a) (a_version a) (p_id (apk_package nonce a))) as (c & sfx & E & Ec & T).
    rewrite E in H. cbn [rbind] in H. unfold process_internal_r in H at 1.
    rewrite (NE a (or_introl eq_refl)) in H. cbn [rbind] in H.
    apply IH in H; [|intros b Hb; apply NE; right; exact Hb].
    destruct H as (elems & P & Rl & Ds & Ch). cbn [d_pkgs d_rels d_desc] in *.
    exists (with_id (apk_package nonce a) c :: elems). split; [rewrite P, <- app_assoc; reflexivity|].
    split; [exact Rl|]. split; [exact Ds|]. constructor; [repeat split | exists sfx; exact Ec | exact T | exact Ch].
Qed.

Lemma existsb_false {A} (f : A -> bool) l x : existsb f l = false -> In x l -> f x = false.
Proof.
  intros E Hx. destruct (f x) eqn:F; [|reflexivity].
  assert (existsb f l = true) by (apply existsb_exists; eauto). congruence.
Qed.

Lemma chain_fresh nonce ps apks elems : chain nonce ps apks elems ->
  NoDup (List.map key apks) ->
  (forall q a sfx, In q ps -> In a apks -> p_name q = a_name a -> p_version q = a_version a ->
     p_id q <> own_id nonce a +++ sfx) ->
  NoDup (List.map p_id elems) /\ (forall p, In p elems -> ~ In (p_id p) (List.map p_id ps)) /\
  Forall2 (fun a p => ElemOf a p /\ exists sfx, p_id p = own_id nonce a +++ sfx) apks elems.
Proof.
  induction 1 as [ps | ps a apks p elems He Hid T Ch IH]; intros ND Ap.
  - split; [constructor|]. split; [intros p []| constructor].
  - cbn [List.map] in ND. inversion ND as [|? ? Hk ND']; subst.
    destruct IH as (N' & F' & A'); [exact ND'| |].
    { intros q b sfx Hq Hb Nq Vq. apply in_app_or in Hq. destruct Hq as [Hq|[<-|[]]].
      - apply Ap; [exact Hq | right; exact Hb | exact Nq | exact Vq].
      - exfalso. apply Hk. destruct He as (En & Ev & _).
        replace (key a) with (key b) by (unfold key; rewrite <- Nq, <- Vq, En, Ev; reflexivity).
        apply in_map, Hb. }
    assert (~ In (p_id p) (List.map p_id ps)) as Fp.
    { intro Hin. apply in_map_iff in Hin. destruct Hin as (q & Eq & Hq).
      pose proof (existsb_false _ _ q T Hq) as X. cbv beta in X. rewrite Eq, String.eqb_refl in X. cbn [andb] in X.
      apply negb_false_iff, andb_true_iff in X. destruct X as [Xn Xv].
      apply String.eqb_eq in Xn. apply String.eqb_eq in Xv. destruct Hid as (sfx & Hid).
      apply (Ap q a sfx Hq (or_introl eq_refl) Xn Xv). rewrite Eq. exact Hid. }
    split; [|split].
    + cbn [List.map]. constructor; [|exact N']. intro Hin. apply in_map_iff in Hin. destruct Hin as (p' & Ep & Hp').
      apply (F' p' Hp'). rewrite Ep, map_app, in_app_iff. right. left. reflexivity.
    + intros p' [<-|Hp']; [exact Fp|]. intro Hin. apply (F' p' Hp'). rewrite map_app, in_app_iff. left. exact Hin.
    + constructor; [split; [exact He | exact Hid] | exact A'].
Qed.

Lemma dedup_pkgs_app_fresh elems : NoDup (List.map p_id elems) -> forall l seen,
  (forall p, In p elems -> ~ In (p_id p) seen /\ ~ In (p_id p) (List.map p_id l)) ->
  dedup_pkgs seen (l ++ elems) = dedup_pkgs seen l ++ elems.
Proof.
  intro N. induction l as [|q l IH]; intros seen Fr; cbn [app dedup_pkgs].
  - apply dedup_pkgs_nodup_id; [exact N|]. intros x Hx. apply in_map_iff in Hx. destruct Hx as (p & <- & Hp). apply (Fr p Hp).
  - destruct (mem (p_id q) seen).
    + apply IH. intros p Hp. destruct (Fr p Hp) as [A B]. split; [exact A|]. intro H. apply B. right. exact H.
    + cbn [app]. f_equal. apply IH. intros p Hp. destruct (Fr p Hp) as [A B]. cbn [List.map In] in B. split.
      * intros [E|H]; [apply B; left; exact E | apply A, H].
      * intro H. apply B. right. exact H.
Qed.

Lemma Forall2_in_r {A B} (R : A -> B -> Prop) l l' : Forall2 R l l' -> forall y, In y l' -> exists x, In x l /\ R x y.
Proof.
  induction 1 as [|x y l l' Rxy F IH]; intros z Hz; [destruct Hz|].
  destruct Hz as [<-|Hz]; [exists x; split; [left; reflexivity | exact Rxy]|].
  destruct (IH z Hz) as (x' & Hx' & Rx'). exists x'. split; [right; exact Hx' | exact Rx'].
Qed.

Lemma matches_of_forall2 apks elems : Forall2 ElemOf apks elems -> NoDup (List.map key apks) ->
  MatchesInstalled apks elems.
Proof.
  intros F ND. split.
  - intros a Ha. apply in_split in Ha. destruct Ha as (l1 & l2 & ->).
    apply Forall2_app_inv_l in F. destruct F as (e1 & e2' & F1 & F2 & ->).
    inversion F2 as [|? p ? e2 Eap F2']; subst. exists e1, p, e2. split; [reflexivity|]. split; [exact Eap|].
    intros q Hq Eq. rewrite map_app in ND. cbn [List.map] in ND. apply NoDup_remove_2 in ND. apply ND.
    assert (exists b, In b (l1 ++ l2) /\ ElemOf b q) as (b & Hb & Eb).
    { apply in_app_or in Hq. destruct Hq as [Hq|Hq].
      - destruct (Forall2_in_r _ _ _ F1 q Hq) as (b & Hb & Eb). exists b. split; [apply in_or_app; left; exact Hb | exact Eb].
      - destruct (Forall2_in_r _ _ _ F2' q Hq) as (b & Hb & Eb). exists b. split; [apply in_or_app; right; exact Hb | exact Eb]. }
    rewrite <- map_app. replace (key a) with (key b); [apply in_map, Hb|].
    destruct Eq as (An & Av & _). destruct Eb as (Bn & Bv & _). unfold key. congruence.
  - intros p Hp. destruct (Forall2_in_r _ _ _ F p Hp) as (a & Ha & E). eauto.
Qed.

(* ---- no structural element (image, layers, source) that has an apk's name and version
        carries the id Generate would give that apk, numbered or not ------------------------------------- *)
Lemma str_len_app a b : String.length (a +++ b) = (String.length a + String.length b)%nat.
Proof. induction a as [|x a IH]; simpl; [reflexivity | rewrite IH; reflexivity]. Qed.

Lemma own_id_eq nonce a :
  own_id nonce a = pfx +++ sti nonce +++ "-" +++ sti (a_name a) +++ "-" +++ sti (a_version a).
Proof. unfold own_id, apk_package; cbn [p_id]. rewrite !sti_app, sti_pfx. reflexivity. Qed.

Lemma len_neq (a b : string) : String.length a <> String.length b -> a <> b.
Proof. intros H E. apply H. rewrite E. reflexivity. Qed.

Lemma layer_apart nonce osver h a sfx : p_name (layer_package osver h) = a_name a ->
  p_id (layer_package osver h) <> own_id nonce a +++ sfx.
Proof.
  intro N. cbn [layer_package p_name p_id] in *. apply len_neq. rewrite own_id_eq, <- N.
  rewrite !str_len_app. cbn [String.length]. lia.
Qed.

Lemma enc_head_S : forall c, (match enc c with String x _ => Ascii.eqb x "S" | EmptyString => true end) = true -> c = "S"%char.
Proof. intros [[] [] [] [] [] [] [] []] H; vm_compute in H; try discriminate H; reflexivity. Qed.

Lemma cut_at_spec sep : forall s x y, cut_at sep s = Some (x, y) -> s = x +++ String sep y.
Proof.
  induction s as [|c s IH]; intros x y H; cbn [cut_at] in H; [discriminate|].
  destruct (Ascii.eqb c sep) eqn:E.
  - inversion H; subst. apply Ascii.eqb_eq in E. subst. reflexivity.
  - destruct (cut_at sep s) as [[x' y']|]; [|discriminate]. inversion H; subst. simpl. rewrite (IH x' y eq_refl). reflexivity.
Qed.

Lemma trim_S p0 p x : p0 <> "S"%char -> trim_prefix (String p0 p) (String "S" x) = String "S" x.
Proof. intro H. unfold trim_prefix. simpl. destruct (ascii_dec p0 "S"); [contradiction | reflexivity]. Qed.

Lemma source_apart img vcs a sfx : img <> "" ->
  p_name (source_package vcs) = a_name a -> p_version (source_package vcs) = a_version a ->
  p_id (source_package vcs) <> own_id (p_id (image_package img)) a +++ sfx.
Proof.
  intros _ N V E. rewrite own_id_eq in E.
  assert (p_id (source_package vcs) = pfx +++ sti vcs) as Eid.
  { unfold source_package. destruct (cut_at "@" vcs) as [[u c]|]; reflexivity. }
  rewrite Eid in E. cbn [image_package p_id] in E. rewrite sti_idempotent, sti_pfx_app in E.
  rewrite !app_str_assoc in E. apply append_inj_l in E.
  (* the sanitised url starts with S: nothing is trimmed *)
  destruct vcs as [|c0 v]; [discriminate E|].
  assert (c0 = "S"%char) as ->.
  { apply enc_head_S. cbn [sti] in E. destruct (enc c0) as [|x r]; [reflexivity|]. simpl in E. inversion E. reflexivity. }
  unfold source_package in N, V. cbn [cut_at] in N, V. change (Ascii.eqb "S" "@") with false in N, V. cbv iota in N, V.
  destruct (cut_at "@" v) as [[x y]|] eqn:C.
  - cbn [p_name p_version] in N, V. rewrite !trim_S in N by (intro X; discriminate X).
    apply cut_at_spec in C. subst v.
    apply (f_equal String.length) in E. rewrite <- N, <- V in E.
    change (String "S" (x +++ String "@" y)) with (String "S" x +++ String "@" y) in E.
    rewrite sti_app in E. cbn [sti] in E. change (enc "@") with "C64" in E.
    rewrite !str_len_app in E. change (String.length pfx) with 16%nat in E. cbn [String.length] in E. lia.
  - cbn [p_name p_version] in N, V. rewrite !trim_S in N by (intro X; discriminate X).
    apply (f_equal String.length) in E. rewrite <- N, <- V in E.
    rewrite !str_len_app in E. change (String.length pfx) with 16%nat in E. cbn [String.length] in E. lia.
Qed.

Lemma image_apart img a sfx : p_id (image_package img) <> own_id (p_id (image_package img)) a +++ sfx.
Proof.
  apply len_neq. rewrite own_id_eq. cbn [image_package p_id]. rewrite sti_idempotent.
  rewrite !str_len_app. cbn [String.length]. lia.
Qed.

Lemma base_apart g q a sfx : In q (d_pkgs (base_doc g)) -> p_name q = a_name a -> p_version q = a_version a ->
  p_id q <> own_id (nonce_of g) a +++ sfx.
Proof.
  unfold base_doc, nonce_of. destruct (String.eqb (g_image g) "") eqn:EI; cbn [d_pkgs].
  - intros Hq N _. apply in_map_iff in Hq. destruct Hq as (h & <- & _). apply layer_apart, N.
  - apply String.eqb_neq in EI.
    assert (In q (image_package (g_image g) :: List.map (layer_package (g_osver g)) (g_layers g)) ->
            p_name q = a_name a -> p_id q <> own_id (p_id (image_package (g_image g))) a +++ sfx) as Main.
    { intros [<-|Hq] N; [apply image_apart|]. apply in_map_iff in Hq. destruct Hq as (h & <- & _). apply layer_apart, N. }
    destruct (String.eqb (g_vcs g) ""); cbn [d_pkgs add_source].
    + intros Hq N _. apply Main; assumption.
    + intros Hq N V. apply in_app_or in Hq. destruct Hq as [Hq|[<-|[]]]; [apply Main; assumption|].
      apply source_apart; assumption.
Qed.

(* FULL STATEMENT for the repaired Generate: without embedded SBOMs and for installed sets with
   pairwise distinct (name, version), whatever characters the names hold, the document's packages are
   the de-duplicated structural elements followed by exactly one element per installed apk, in order,
   carrying the apk's name, version and checksum; its id is the id Generate gives today, possibly
   with a numeric suffix *)
Lemma generate_r_one_per_apk f3 perm g d : NoEmbedded g -> NoDup (List.map key (g_apks g)) ->
  generate_r true f3 perm g = Ok d ->
  exists elems, d_pkgs d = dedup_pkgs [] (d_pkgs (base_doc g)) ++ elems /\
    Forall2 (fun a p => ElemOf a p /\ exists sfx, p_id p = own_id (nonce_of g) a +++ sfx) (g_apks g) elems /\
    MatchesInstalled (g_apks g) elems.
Proof.
  intros NE ND H. apply generate_r_inv in H. destruct H as (_ & d0 & H0 & ->).
  apply process_apks_r_plain in H0; [|exact NE]. destruct H0 as (elems & P & _ & _ & Ch).
  destruct (chain_fresh _ _ _ _ Ch ND) as (N & Fr & F2).
  { intros q a sfx Hq _ Nq Vq. apply base_apart; assumption. }
  exists elems. cbn [d_pkgs]. rewrite P. split; [|split; [exact F2|]].
  - apply dedup_pkgs_app_fresh; [exact N|]. intros p Hp. split; [intros [] | apply Fr, Hp].
  - apply matches_of_forall2; [|exact ND]. clear -F2. induction F2 as [|a p l l' [E _] F IH]; constructor; assumption.
Qed.

(* the collision witness of c11_one_per_apk_refuted now gets both elements *)
Lemma collide_witness_repaired : exists d, generate_r true true (fun l => l) collide_witness = Ok d /\
  List.map p_name (d_pkgs d) = ["sha256:ab"; "sha256:cd"; "gtk+"; "gtkC43"] /\ IdsUnique d /\
  Forall (fun x => valid_id_b x = true) (ids d).
Proof.
  eexists. split; [vm_compute; reflexivity|]. split; [reflexivity|].
  split; [apply nodup_b_iff; vm_compute; reflexivity | repeat constructor].
Qed.

(* the repair changes no identifier when today's identifiers are pairwise distinct *)
Lemma process_apks_r_conservative f3 perm fs nonce : forall apks d,
  (forall a, In a apks -> locate fs (candidates (a_name a) (a_version a)) = None) ->
  NoDup (ids d ++ List.map (own_id nonce) apks) ->
  process_apks_r true f3 perm fs nonce apks d =
    Ok {| d_pkgs := d_pkgs d ++ List.map (apk_package nonce) apks; d_rels := d_rels d; d_desc := d_desc d |}.
Proof.
  induction apks as [|a apks IH]; intros d NE ND; cbn [process_apks_r List.map].
  - rewrite app_nil_r. destruct d; reflexivity.
  - cbn [List.map] in ND. rewrite pick_id_free by (apply NoDup_remove_2 in ND; intro H; apply ND, in_or_app; left; exact H).
    cbn [rbind]. unfold process_internal_r at 1. rewrite (NE a (or_introl eq_refl)). cbn [rbind].
    rewrite IH; [|intros b Hb; apply NE; right; exact Hb|].
    + cbn [d_pkgs d_rels d_desc with_id apk_package p_id p_name p_version p_sums]. rewrite <- app_assoc. reflexivity.
    + unfold ids. cbn [d_pkgs]. rewrite map_app, <- app_assoc. exact ND.
Qed.

Lemma repair_conservative f3 perm g : NoEmbedded g -> NoDup (List.map p_id (own_elements g)) ->
  generate_r true f3 perm g = generate_u perm g.
Proof.
  intros NE ND. unfold generate_r, generate_u. destruct (g_layers g); [reflexivity|].
  rewrite process_apks_plain by exact NE. rewrite process_apks_r_conservative; [reflexivity | exact NE|].
  unfold own_elements in ND. rewrite map_app, map_map in ND. exact ND.
Qed.
