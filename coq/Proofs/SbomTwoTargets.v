(* C11 — embedded documents that describe TWO elements carrying the apk's name:
   the replace loop keeps references resolved when the two target ids are new to
   the document among the packages carrying that name (TargetsFresh), and does
   not otherwise (two_target_witness, finding C11-F4). *)
From Coq Require Import Permutation.
From Apko Require Import Base.Prelude Base.Regex Generated.Regexes Model.Sbom Spec.SbomSpec Proofs.SbomProofs.
Open Scope string_scope. Open Scope list_scope.

(* ---- replacePackage / one iteration of the loop ---------------------------------- *)
Lemma replace_package_pkgs_incl d o n q : In q (d_pkgs (replace_package d o n)) -> In q (d_pkgs d).
Proof.
  unfold replace_package; cbn [d_pkgs].
  destruct (filter _ (d_pkgs d)) as [|k kt] eqn:E; [tauto|].
  rewrite <- E. intro H. apply filter_In in H. tauto.
Qed.

Lemma replace_package_keeps d o n y : In y (ids d) -> y <> o -> In y (ids (replace_package d o n)).
Proof.
  intros Hy Hne. unfold ids in *. apply in_map_iff in Hy. destruct Hy as (p & <- & Hp).
  assert (In p (filter (fun p => negb (String.eqb (p_id p) o)) (d_pkgs d))) as K.
  { apply filter_In. split; [exact Hp | apply negb_true_iff, String.eqb_neq, Hne]. }
  unfold replace_package; cbn [d_pkgs].
  destruct (filter _ (d_pkgs d)) as [|k kt]; [destruct K|]. apply in_map, K.
Qed.

Definition name_not (pname id : string) (q : pkg) : bool :=
  String.eqb (p_name q) pname && negb (String.eqb (p_id q) id).

Lemma replace_step_unfold pname d id :
  replace_step pname d id =
  match find (name_not pname id) (d_pkgs d) with Some q => replace_package d (p_id q) id | None => d end.
Proof. reflexivity. Qed.

Lemma name_not_true pname id q : name_not pname id q = true <-> p_name q = pname /\ p_id q <> id.
Proof. unfold name_not. rewrite andb_true_iff, negb_true_iff, String.eqb_eq, String.eqb_neq. tauto. Qed.

Lemma replace_step_refs pname d id : RefsResolve d -> (List.length (d_desc d) <= 1)%nat -> In id (ids d) ->
  RefsResolve (replace_step pname d id) /\ List.length (d_desc (replace_step pname d id)) = List.length (d_desc d).
Proof.
  intros R L Hi. rewrite replace_step_unfold. destruct (find _ _) as [q|] eqn:F; [|tauto].
  apply find_some in F. destruct F as [_ F]. apply name_not_true in F. destruct F as [_ F].
  apply replace_package_refs; [exact R | exact Hi | congruence | exact L].
Qed.

Lemma replace_step_pkgs_incl pname d id q : In q (d_pkgs (replace_step pname d id)) -> In q (d_pkgs d).
Proof.
  rewrite replace_step_unfold. destruct (find _ _); [apply replace_package_pkgs_incl | tauto].
Qed.

Lemma replace_step_keeps pname d id y : In y (ids d) ->
  (forall q, find (name_not pname id) (d_pkgs d) = Some q -> p_id q <> y) ->
  In y (ids (replace_step pname d id)).
Proof.
  intros Hy Hq. rewrite replace_step_unfold. destruct (find _ _) as [q|] eqn:F; [|exact Hy].
  apply replace_package_keeps; [exact Hy|]. intro E. apply (Hq q eq_refl). congruence.
Qed.

Lemma fold_replace_pkgs_incl pname l : forall d q, In q (d_pkgs (fold_left (replace_step pname) l d)) -> In q (d_pkgs d).
Proof.
  induction l as [|x l IH]; intros d q H; simpl in H; [exact H|].
  apply IH in H. eapply replace_step_pkgs_incl, H.
Qed.

Lemma find_app {A} (f : A -> bool) l1 l2 :
  find f (l1 ++ l2) = match find f l1 with Some x => Some x | None => find f l2 end.
Proof. induction l1 as [|a l1 IH]; simpl; [reflexivity|]. destruct (f a); [reflexivity | exact IH]. Qed.

Lemma find_exists {A} (f : A -> bool) l : (exists p, In p l /\ f p = true) -> exists q, find f l = Some q.
Proof.
  intros (p & Hp & Fp). destruct (find f l) as [q|] eqn:E; [eauto|].
  pose proof (find_none f l E p Hp). congruence.
Qed.

(* ---- copySBOMElements only appends packages of the source document --------------------- *)
Lemma copy_elements_pkgs src tgt todo0 d : copy_elements src tgt todo0 = Ok d ->
  exists ps, d_pkgs d = d_pkgs tgt ++ ps /\ incl ps (d_pkgs src).
Proof.
  intro H. unfold copy_elements in H. apply rbind_ok in H. destruct H as (todo & _ & H).
  match type of H with (if ?c then _ else _) = _ => destruct c; [|discriminate H] end.
  inversion H; subst; clear H. eexists. split; [reflexivity|].
  intros q Hq. apply filter_In in Hq. tauto.
Qed.

(* ---- the loop over two fresh targets ------------------------------------------------------- *)
Lemma two_steps pname d0 d1 ps x y :
  RefsResolve d1 -> (List.length (d_desc d1) <= 1)%nat -> d_pkgs d1 = d_pkgs d0 ++ ps ->
  In x (ids d1) -> In y (ids d1) ->
  (exists p, In p (d_pkgs d0) /\ p_name p = pname) ->
  (forall q, In q (d_pkgs d0) -> p_name q = pname -> p_id q <> x /\ p_id q <> y) ->
  RefsResolve (replace_step pname (replace_step pname d1 x) y) /\
  List.length (d_desc (replace_step pname (replace_step pname d1 x) y)) = List.length (d_desc d1).
Proof.
  intros R L P Hx Hy (p & Hp & Np) Fr.
  destruct (replace_step_refs pname d1 x R L Hx) as [R2 L2].
  assert (In y (ids (replace_step pname d1 x))) as Hy2.
  { apply replace_step_keeps; [exact Hy|]. intros q Fq. rewrite P, find_app in Fq.
    destruct (find_exists (name_not pname x) (d_pkgs d0)) as (q0 & F0).
    { exists p. split; [exact Hp|]. apply name_not_true. split; [exact Np | apply (Fr p Hp Np)]. }
    rewrite F0 in Fq. inversion Fq; subst q0. apply find_some in F0. destruct F0 as [I0 N0].
    apply name_not_true in N0. apply (Fr q I0 (proj1 N0)). }
  destruct (replace_step_refs pname _ y R2 (eq_ind_r (fun n => (n <= 1)%nat) L L2) Hy2) as [R3 L3].
  split; [exact R3 | rewrite L3, L2; reflexivity].
Qed.

Lemma process_internal_refs_two perm fs d pname pversion e d' :
  RefsResolve d -> (List.length (d_desc d) <= 1)%nat ->
  locate fs (candidates pname pversion) = Some (FDoc e) ->
  List.length (targets pname e) = 2%nat ->
  (exists p, In p (d_pkgs d) /\ p_name p = pname) ->
  (forall q, In q (d_pkgs d) -> p_name q = pname -> ~ In (p_id q) (targets pname e)) ->
  (forall l, Permutation (perm l) l) ->
  process_internal perm fs d pname pversion = Ok d' ->
  RefsResolve d' /\ List.length (d_desc d') = List.length (d_desc d).
Proof.
  intros R L Loc T Own Fr P H. unfold process_internal in H. rewrite Loc in H.
  apply rbind_ok in H. destruct H as (d1 & Hc & H). inversion H; subst; clear H.
  destruct (copy_elements_refs _ _ _ _ R Hc) as (R1 & D1 & I1 & _).
  destruct (copy_elements_pkgs _ _ _ _ Hc) as (ps & P1 & _).
  specialize (P (targets pname e)).
  destruct (targets pname e) as [|a [|b [|c tl]]] eqn:ET; try discriminate T.
  assert (forall q, In q (d_pkgs d) -> p_name q = pname -> p_id q <> a /\ p_id q <> b) as Fr2.
  { intros q Hq Nq. specialize (Fr q Hq Nq). simpl in Fr. split; intro E; apply Fr; [left | right; left]; symmetry; exact E. }
  assert (In a (ids d1)) as Ha by (apply I1; left; reflexivity).
  assert (In b (ids d1)) as Hb by (apply I1; right; left; reflexivity).
  assert (List.length (d_desc d1) <= 1)%nat as L1 by (rewrite D1; exact L).
  apply Permutation_sym, Permutation_length_2_inv in P. destruct P as [-> | ->]; cbn [fold_left]; rewrite <- D1.
  - apply (two_steps pname d d1 ps a b R1 L1 P1 Ha Hb Own Fr2).
  - apply (two_steps pname d d1 ps b a R1 L1 P1 Hb Ha Own). intros q Hq Nq. destruct (Fr2 q Hq Nq). tauto.
Qed.

(* every package of the result was in the document or comes from the located document *)
Lemma process_internal_pkgs_incl perm fs d a d' :
  process_internal perm fs d (a_name a) (a_version a) = Ok d' ->
  forall q, In q (d_pkgs d') -> In q (d_pkgs d) \/ In q (pkgs_located_in fs a).
Proof.
  unfold process_internal, pkgs_located_in, located_in. intros H q Hq.
  destruct (locate fs (candidates (a_name a) (a_version a))) as [[e| |]|]; try discriminate H;
    try (inversion H; subst; left; exact Hq).
  apply rbind_ok in H. destruct H as (d1 & Hc & H). inversion H; subst; clear H.
  apply fold_replace_pkgs_incl in Hq. destruct (copy_elements_pkgs _ _ _ _ Hc) as (ps & P1 & Ips).
  rewrite P1 in Hq. apply in_app_or in Hq. destruct Hq as [Hq|Hq]; [left; exact Hq | right; apply Ips, Hq].
Qed.

(* ---- lifting to the apk loop ------------------------------------------------------------------- *)
Lemma process_apks_refs_two perm fs nonce : (forall l, Permutation (perm l) l) ->
  forall apks pool d d', RefsResolve d -> (List.length (d_desc d) <= 1)%nat ->
  (forall q, In q (d_pkgs d) -> In q pool) ->
  (forall a, In a apks -> forall e, locate fs (candidates (a_name a) (a_version a)) = Some (FDoc e) ->
     (List.length (targets (a_name a) e) <= 2)%nat) ->
  (forall l1 a l2 e, apks = l1 ++ a :: l2 ->
     locate fs (candidates (a_name a) (a_version a)) = Some (FDoc e) ->
     (2 <= List.length (targets (a_name a) e))%nat ->
     forall q, In q (pool ++ List.map (apk_package nonce) (l1 ++ [a]) ++ List.concat (List.map (pkgs_located_in fs) l1)) ->
       p_name q = a_name a -> ~ In (p_id q) (targets (a_name a) e)) ->
  process_apks_u perm fs nonce apks d = Ok d' -> RefsResolve d'.
Proof.
  intros P. induction apks as [|a apks IH]; intros pool d d' R L Inc T2 Fr H; simpl in H.
  - inversion H; subst; exact R.
  - apply rbind_ok in H. destruct H as (d2 & H2 & H).
    set (p := apk_package nonce a) in *.
    set (d1 := {| d_pkgs := d_pkgs d ++ [p]; d_rels := d_rels d; d_desc := d_desc d |}) in *.
    pose proof (add_own_refs d p R) as R1. fold d1 in R1.
    assert (RefsResolve d2 /\ List.length (d_desc d2) = List.length (d_desc d)) as [R2 L2].
    { destruct (locate fs (candidates (a_name a) (a_version a))) as [[e| |]|] eqn:Loc.
      - pose proof (T2 a (or_introl eq_refl) e Loc) as Tle.
        destruct (Nat.le_gt_cases (List.length (targets (a_name a) e)) 1) as [T1|T1].
        + apply (process_internal_refs perm fs d1 (a_name a) (a_version a) e d2 R1 L Loc T1 P H2).
        + apply (process_internal_refs_two perm fs d1 (a_name a) (a_version a) e d2 R1 L Loc); [lia | | | exact P | exact H2].
          * exists p. split; [apply in_or_app; right; left; reflexivity | reflexivity].
          * intros q Hq Nq. apply (Fr [] a apks e eq_refl Loc T1 q); [|exact Nq].
            cbn [d1 d_pkgs] in Hq. apply in_app_or in Hq. apply in_or_app.
            destruct Hq as [Hq|Hq]; [left; apply Inc, Hq | right; apply in_or_app; left; exact Hq].
      - unfold process_internal in H2. rewrite Loc in H2. inversion H2; subst. split; [exact R1 | reflexivity].
      - unfold process_internal in H2. rewrite Loc in H2. discriminate H2.
      - unfold process_internal in H2. rewrite Loc in H2. inversion H2; subst. split; [exact R1 | reflexivity]. }
    apply (IH (pool ++ [p] ++ pkgs_located_in fs a) d2 d' R2); [lia | | | | exact H].
    + intros q Hq. destruct (process_internal_pkgs_incl perm fs d1 a d2 H2 q Hq) as [Hq1|Hq1].
      * cbn [d1 d_pkgs] in Hq1. apply in_app_or in Hq1. rewrite !in_app_iff.
        destruct Hq1 as [Hq1|Hq1]; [left; apply Inc, Hq1 | right; left; exact Hq1].
      * rewrite !in_app_iff. right; right; exact Hq1.
    + intros b Hb. apply T2. right; exact Hb.
    + intros l1 b l2 e E Loc Tb q Hq. apply (Fr (a :: l1) b l2 e); [rewrite E; reflexivity | exact Loc | exact Tb|].
      cbn [app List.map List.concat]. fold p. rewrite !in_app_iff in *. cbn [In] in *. rewrite !in_app_iff. tauto.
Qed.

Lemma generate_refs_embedded perm g d : (forall l, Permutation (perm l) l) ->
  AtMostTwoTargets g -> TargetsFresh g -> generate_u perm g = Ok d -> RefsResolve d.
Proof.
  intros P T2 Fr H. apply generate_inv in H. destruct H as (L & d0 & H0 & ->).
  pose proof (process_apks_refs_two perm (g_fs g) (nonce_of g) P (g_apks g) (d_pkgs (base_doc g)) (base_doc g) d0
                (base_doc_refs g L) (base_doc_desc g) (fun q H => H) T2) as R.
  apply (refs_resolve_more_pkgs d0).
  - apply R; [|exact H0]. intros l1 a l2 e E Loc Tg q Hq Nq. exact (Fr l1 a l2 e E Loc Tg q Hq Nq).
  - intros x Hx. apply dedup_pkgs_spec. split; [exact Hx | intros []].
Qed.

(* the single-target envelope of c11_refs_resolve is inside this one *)
Lemma single_target_in_envelope g : SingleTarget g -> AtMostTwoTargets g /\ TargetsFresh g.
Proof.
  intro S. split.
  - intros a Ha e Loc. pose proof (S a Ha e Loc). lia.
  - intros l1 a l2 e E Loc T. assert (In a (g_apks g)) as Ha by (rewrite E; apply in_elt).
    pose proof (S a Ha e Loc). lia.
Qed.

(* ---- the validator for freshness --------------------------------------------------------------- *)
Lemma fresh_for_b_iff g l1 a tg : fresh_for_b g l1 a tg = true <-> fresh_for g l1 a tg.
Proof.
  unfold fresh_for_b, fresh_for. rewrite forallb_forall. split; intros H q Hq.
  - intros Nq Iq. specialize (H q Hq). apply negb_true_iff, andb_false_iff in H.
    destruct H as [H|H]; [apply String.eqb_neq in H; contradiction | apply mem_false in H; contradiction].
  - apply negb_true_iff, andb_false_iff. destruct (String.eqb (p_name q) (a_name a)) eqn:E; [|left; reflexivity].
    right. apply mem_false. apply String.eqb_eq in E. apply (H q Hq E).
Qed.

(* ---- refutation: two targets, one of them already the id of an element carrying the name --------- *)
Definition foodoc_elem := {| p_id := "SPDXRef-Package-foo-doc-1.0-r0"; p_name := "foo-doc"; p_version := "1.0-r0"; p_sums := [] |}.
Definition foo_up := {| p_id := "SPDXRef-Package-foo-upstream"; p_name := "foo"; p_version := "1.0"; p_sums := [] |}.
(* foo-doc's document records two elements named foo it depends on *)
Definition foodoc_sbom : doc :=
  {| d_pkgs := [foodoc_elem; foo_elem; foo_up];
     d_rels := [{| r_elem := p_id foodoc_elem; r_type := "DEPENDS_ON"; r_related := p_id foo_elem |};
                {| r_elem := p_id foodoc_elem; r_type := "DEPENDS_ON"; r_related := p_id foo_up |}];
     d_desc := [p_id foodoc_elem] |}.
(* foo's document describes two elements named foo; the second has the id foo-doc's document used *)
Definition two_sbom : doc := {| d_pkgs := [foo2; foo_elem]; d_rels := []; d_desc := [p_id foo2; p_id foo_elem] |}.
Definition two_target_witness : gen_in :=
  {| g_image := "sha256:ab"; g_layers := [("sha256", "cd")]; g_osver := "1"; g_vcs := "";
     g_apks := [ {| a_name := "foo-doc"; a_version := "1.0-r0"; a_sum := [1]%N |};
                 {| a_name := "foo"; a_version := "1.0-r0"; a_sum := [2]%N |} ];
     g_fs := [("foo-doc-1.0-r0.spdx.json", FDoc foodoc_sbom); ("foo-1.0-r0.spdx.json", FDoc two_sbom)] |}.

Lemma witness_docs_ok (l : list (string * fsent)) :
  forallb (fun kv => match snd kv with
                     | FDoc e => refs_resolve_b e && ids_unique_b e && forallb valid_id_b (ids e)
                     | _ => true end) l = true ->
  forall k e, In (k, FDoc e) l -> RefsResolve e /\ IdsUnique e /\ Forall ValidId (ids e).
Proof.
  intros H k e Hin. rewrite forallb_forall in H. specialize (H _ Hin). cbn [snd] in H.
  apply andb_true_iff in H. destruct H as [H V]. apply andb_true_iff in H. destruct H as [R U].
  split; [apply refs_resolve_b_iff, R|]. split; [apply nodup_b_iff, U|].
  apply Forall_forall. intros x Hx. rewrite forallb_forall in V. apply valid_id_b_iff, V, Hx.
Qed.

Lemma at_most_two_targets_b_iff g : at_most_two_targets_b g = true <-> AtMostTwoTargets g.
Proof.
  unfold at_most_two_targets_b, AtMostTwoTargets. rewrite forallb_forall. split.
  - intros H a Ha e Loc. specialize (H a Ha). unfold located, located_in in H. rewrite Loc in H. apply Nat.leb_le, H.
  - intros H a Ha. unfold located, located_in.
    destruct (locate (g_fs g) (candidates (a_name a) (a_version a))) as [[e| |]|] eqn:Loc; try reflexivity.
    apply Nat.leb_le, (H a Ha e Loc).
Qed.

Lemma targets_fresh_from_iff g rest : forall l1, targets_fresh_from g l1 rest = true <->
  (forall l1' a l2 e, rest = l1' ++ a :: l2 ->
     locate (g_fs g) (candidates (a_name a) (a_version a)) = Some (FDoc e) ->
     (2 <= List.length (targets (a_name a) e))%nat -> fresh_for g (l1 ++ l1') a (targets (a_name a) e)).
Proof.
  induction rest as [|a rest IH]; intro l1; cbn [targets_fresh_from].
  - split; [intros _ l1' a l2 e E; destruct l1'; discriminate E | reflexivity].
  - rewrite andb_true_iff, IH. split.
    + intros [Ha Ht] l1' b l2 e E Loc T. destruct l1' as [|a' l1']; cbn in E; inversion E; subst.
      * rewrite app_nil_r. unfold located, located_in in Ha. rewrite Loc in Ha. cbv zeta in Ha.
        apply Nat.leb_le in T. rewrite T in Ha. apply fresh_for_b_iff, Ha.
      * specialize (Ht l1' b l2 e eq_refl Loc T). rewrite <- app_assoc in Ht. exact Ht.
    + intro H. split.
      * unfold located, located_in.
        destruct (locate (g_fs g) (candidates (a_name a) (a_version a))) as [[e| |]|] eqn:Loc; try reflexivity.
        cbv zeta. destruct (Nat.leb 2 _) eqn:T; [|reflexivity]. apply Nat.leb_le in T.
        apply fresh_for_b_iff. specialize (H [] a rest e eq_refl Loc T). rewrite app_nil_r in H. exact H.
      * intros l1' b l2 e E Loc T. rewrite <- app_assoc. apply (H (a :: l1') b l2 e); [rewrite E; reflexivity | exact Loc | exact T].
Qed.

Lemma targets_fresh_b_iff g : targets_fresh_b g = true <-> TargetsFresh g.
Proof. unfold targets_fresh_b, TargetsFresh. rewrite targets_fresh_from_iff. cbn [app]. tauto. Qed.

Lemma two_targets_refuted : exists g d,
  (forall k e, In (k, FDoc e) (g_fs g) -> RefsResolve e /\ IdsUnique e /\ Forall ValidId (ids e)) /\
  AtMostTwoTargets g /\ generate_u (fun l => l) g = Ok d /\ ~ RefsResolve d.
Proof.
  exists two_target_witness. eexists. split; [|split; [|split; [vm_compute; reflexivity|]]].
  - apply witness_docs_ok. vm_compute. reflexivity.
  - apply at_most_two_targets_b_iff. vm_compute. reflexivity.
  - intro R. apply refs_resolve_b_iff in R. vm_compute in R. discriminate R.
Qed.

(* the other order of the same two targets resolves: the outcome depends on Go's map order *)
Lemma two_targets_other_order : exists d, generate_u (@rev string) two_target_witness = Ok d /\ RefsResolve d.
Proof. eexists. split; [vm_compute; reflexivity | apply refs_resolve_b_iff; vm_compute; reflexivity]. Qed.

(* the three-target witness of SbomProofs is inside TargetsFresh: with three targets freshness does not help *)
Lemma three_targets_fresh : TargetsFresh three_target_witness /\
  (exists a e, In a (g_apks three_target_witness) /\ located three_target_witness a = Some e /\
               List.length (targets (a_name a) e) = 3%nat).
Proof.
  split; [apply targets_fresh_b_iff; vm_compute; reflexivity|].
  eexists. eexists. split; [left; reflexivity|]. split; vm_compute; reflexivity.
Qed.

(* and the two-target witness is outside it *)
Lemma two_targets_not_fresh : ~ TargetsFresh two_target_witness.
Proof. intro H. apply targets_fresh_b_iff in H. vm_compute in H. discriminate H. Qed.

(* a document with two fresh targets (while an earlier document carries another element of that name) *)
Definition two_fresh_sbom : doc :=
  {| d_pkgs := [foo2; foo_elem; src_elem];
     d_rels := [{| r_elem := p_id foo_elem; r_type := "GENERATED_FROM"; r_related := p_id src_elem |};
                {| r_elem := p_id foo2; r_type := "DEPENDS_ON"; r_related := p_id foo_elem |}];
     d_desc := [p_id foo2; p_id foo_elem] |}.
Definition two_fresh_example : gen_in :=
  {| g_image := "sha256:ab"; g_layers := [("sha256", "cd")]; g_osver := "1"; g_vcs := "";
     g_apks := [ {| a_name := "foo-doc"; a_version := "1.0-r0"; a_sum := [1]%N |};
                 {| a_name := "foo"; a_version := "1.0-r0"; a_sum := [2]%N |} ];
     g_fs := [("foo-doc-1.0-r0.spdx.json",
               FDoc {| d_pkgs := [foodoc_elem; foo_up];
                       d_rels := [{| r_elem := p_id foodoc_elem; r_type := "DEPENDS_ON"; r_related := p_id foo_up |}];
                       d_desc := [p_id foodoc_elem] |});
              ("foo-1.0-r0.spdx.json", FDoc two_fresh_sbom)] |}.
