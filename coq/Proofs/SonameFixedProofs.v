(* C03 — evaluation of the repair of finding C03-F2 (fixes/C03-F2.patch) on the model: the repaired rewrite agrees with
   today's byte for byte on every string without operator characters and on every string whose operator run ends in its
   only "=" (=, >=, <=), and with it the verdict on a so: provide follows the order under ALL six operators. *)
From Coq Require Import ZifyBool ZifyN Lia.
From Apko Require Import Base.Prelude Base.Regex Spec.VersionSpec Model.Version Model.SonameFixed
  Proofs.VersionProofs Proofs.ConstraintProofs Proofs.VersionStringProofs Proofs.VersionPrefixProofs Proofs.SonameProofs
  Generated.Regexes Generated.VersionConsts Generated.C03Version Generated.C03Ladders.
Open Scope string_scope. Open Scope list_scope. Open Scope Z_scope.

Lemma resolve_with_today s0 : resolve_constraint s0 = resolve_with so_rewrite s0.
Proof. reflexivity. Qed.

Definition no_op (l : list N) : bool := forallb (fun c => negb (is_opchar c)) l.
Definition head_no_op (l : list N) : Prop := match l with c :: _ => is_opchar c = false | [] => True end.

Lemma no_op_no_eq l : no_op l = true -> no_eq l = true.
Proof. apply forallb_impl. intros c. unfold is_opchar. lia. Qed.

(* the repaired rewrite on name ++ ops ++ v *)
Lemma so_rewrite_fixed_split pre ops v :
  no_op (so_bytes ++ pre) = true -> ops <> [] -> forallb is_opchar ops = true -> head_no_op v ->
  so_rewrite_fixed (so_bytes ++ pre ++ ops ++ v) =
    if ends_release v then so_bytes ++ pre ++ ops ++ v else so_bytes ++ pre ++ ops ++ 48%N :: 46%N :: v.
Proof.
  intros Hp Ho1 Ho2 Hv. unfold so_rewrite_fixed. fold so_bytes. rewrite strip_prefix_app.
  rewrite (app_assoc so_bytes pre).
  rewrite (span_app (fun c => negb (is_opchar c)) (so_bytes ++ pre) (ops ++ v) Hp).
  2:{ destruct ops as [|o ops']; [congruence|]. cbn in *. apply andb_true_iff in Ho2. destruct Ho2 as [Ho _]. rewrite Ho. reflexivity. }
  rewrite (span_app is_opchar ops v Ho2).
  2:{ destruct v; [exact I | exact Hv]. }
  destruct ops as [|o ops']; [congruence|].
  fold (ends_release v). destruct (ends_release v); [reflexivity|].
  rewrite <- app_assoc. reflexivity.
Qed.

Lemma so_rewrite_fixed_no_op rest : no_op (so_bytes ++ rest) = true -> so_rewrite_fixed (so_bytes ++ rest) = so_bytes ++ rest.
Proof.
  intros H. unfold so_rewrite_fixed. fold so_bytes. rewrite strip_prefix_app.
  rewrite <- (app_nil_r (so_bytes ++ rest)) at 1.
  rewrite (span_app (fun c => negb (is_opchar c)) (so_bytes ++ rest) [] H I). reflexivity.
Qed.

Lemma so_rewrite_fixed_other s : strip_prefix so_bytes s = None -> so_rewrite_fixed s = s /\ so_rewrite s = s.
Proof. intros H. unfold so_rewrite_fixed, so_rewrite. fold so_bytes. rewrite H. split; reflexivity. Qed.

(* CONSERVATIVITY.  The repaired rewrite returns the same bytes as today's
   (1) on every string that does not start with "so:",
   (2) on every so: string without any operator character,
   (3) on every so: string  name ++ o ++ "=" ++ v  where the name has no operator character, o is a (possibly empty) run
       of operator characters without "=" and v does not start with an operator character: the operators =, >=, <= (and
       any other run that ends in its only "=").
   It differs exactly where finding C03-F2 lives: operator runs without "=" (>, <, ~), and malformed runs such as "==", "=>". *)
Theorem so_rewrite_fixed_conservative :
  (forall s, strip_prefix so_bytes s = None -> so_rewrite_fixed s = so_rewrite s) /\
  (forall rest, no_op (so_bytes ++ rest) = true -> so_rewrite_fixed (so_bytes ++ rest) = so_rewrite (so_bytes ++ rest)) /\
  (forall pre o v, no_op (so_bytes ++ pre) = true -> forallb is_opchar o = true -> no_eq o = true -> head_no_op v ->
     so_rewrite_fixed (so_bytes ++ pre ++ (o ++ [61%N]) ++ v) = so_rewrite (so_bytes ++ pre ++ (o ++ [61%N]) ++ v)).
Proof.
  split; [|split].
  - intros s H. destruct (so_rewrite_fixed_other s H) as [-> ->]. reflexivity.
  - intros rest H. rewrite (so_rewrite_fixed_no_op rest H).
    rewrite so_rewrite_no_eq; [reflexivity|].
    unfold no_op in H. rewrite forallb_app in H. apply andb_true_iff in H. apply no_op_no_eq. apply H.
  - intros pre o v Hp Ho No Hv.
    rewrite (so_rewrite_fixed_split pre (o ++ [61%N]) v Hp); [| destruct o; discriminate | rewrite forallb_app, Ho; reflexivity | exact Hv].
    replace (so_bytes ++ pre ++ (o ++ [61%N]) ++ v) with (so_bytes ++ (pre ++ o) ++ 61%N :: v)
      by (rewrite <- !app_assoc; reflexivity).
    rewrite so_rewrite_eq.
    + destruct (ends_release v); rewrite <- !app_assoc; reflexivity.
    + unfold no_op in Hp. rewrite forallb_app in Hp. apply andb_true_iff in Hp. destruct Hp as [_ Hp].
      rewrite no_eq_app, (no_op_no_eq pre Hp), No. reflexivity.
Qed.

(* hence ResolvePackageNameVersionPin itself is unchanged on those strings *)
Corollary resolve_fixed_conservative s0 :
  so_rewrite_fixed (bytes_of_string s0) = so_rewrite (bytes_of_string s0) ->
  resolve_constraint_fixed s0 = resolve_constraint s0.
Proof. intros H. unfold resolve_constraint_fixed, resolve_with. rewrite H. reflexivity. Qed.

(* ---------- what the repaired code resolves a so: string to ------------------------------ *)
Lemma resolve_with_rewritten rw s0 name ops v pin :
  rw (bytes_of_string s0) = name ++ ops ++ v ++ pin_tail pin ->
  clean name ops v pin ->
  resolve_with rw s0 =
    {| c_name := string_of_bytes name; c_version := string_of_bytes v;
       c_dep := dep_of_matcher (string_of_bytes ops); c_pin := string_of_bytes pin |}.
Proof.
  intros Hs Hc. unfold resolve_with. cbv zeta. rewrite Hs.
  unfold full_match. rewrite package_name_regex_body.
  rewrite bytes_roundtrip.
  2:{ destruct Hc as [Hb _ _ _ _]. destruct pin as [|p0 pin']; [exact Hb|].
      cbn [pin_tail]. rewrite !app_assoc in *. apply Forall_app in Hb. destruct Hb as [H1 H2].
      apply Forall_app. split; [exact H1|]. constructor; [unfold byte; lia | exact H2]. }
  rewrite (match_clean _ _ _ _ Hc). rewrite (split_clean _ _ _ _ Hc).
  destruct Hc as [_ _ [Ho _] _ _]. destruct ops; [congruence | reflexivity].
Qed.

Definition so_version_fixed (v : string) : string := if negb (ends_release_s v) then "0." ++ v else v.

Lemma namechars_no_op l : forallb is_namechar l = true -> no_op l = true.
Proof. apply forallb_impl. intros c. unfold is_namechar. lia. Qed.

Theorem resolve_so_fixed row nm v pv :
  In row matcher_table -> namechars nm -> parse_version v = Some pv ->
  resolve_constraint_fixed ("so:" ++ nm ++ fst row ++ v) =
    {| c_name := "so:" ++ nm; c_version := so_version_fixed v; c_dep := snd row; c_pin := "" |}.
Proof.
  intros Hin Hn Hp.
  destruct (op_row_facts row Hin) as (Ho1 & Ho2 & _).
  destruct (grammar_first_digits _ (parse_accept_grammar v pv Hp)) as (c & t & Hct & Hc).
  assert (Hrw : so_rewrite_fixed (bytes_of_string ("so:" ++ nm ++ fst row ++ v)) =
                if ends_release (bytes_of_string v)
                then so_bytes ++ bytes_of_string nm ++ bytes_of_string (fst row) ++ bytes_of_string v
                else so_bytes ++ bytes_of_string nm ++ bytes_of_string (fst row) ++ 48%N :: 46%N :: bytes_of_string v).
  { rewrite !bytes_app. apply so_rewrite_fixed_split; try assumption.
    - unfold no_op. rewrite forallb_app. fold (no_op so_bytes) (no_op (bytes_of_string nm)).
      rewrite (namechars_no_op _ so_bytes_namechars), (namechars_no_op _ Hn). reflexivity.
    - rewrite Hct. cbn. unfold is_digit, is_opchar in *. lia. }
  assert (Hres : forall vs m, parse_version vs = Some m ->
            so_rewrite_fixed (bytes_of_string ("so:" ++ nm ++ fst row ++ v)) =
              (so_bytes ++ bytes_of_string nm) ++ bytes_of_string (fst row) ++ bytes_of_string vs ++ pin_tail [] ->
            resolve_constraint_fixed ("so:" ++ nm ++ fst row ++ v) =
              {| c_name := "so:" ++ nm; c_version := vs; c_dep := snd row; c_pin := "" |}).
  { intros vs m Hvs Hr. unfold resolve_constraint_fixed.
    rewrite (resolve_with_rewritten _ _ _ _ _ _ Hr
               (clean_so nm _ vs m Hn Ho1 Ho2 (bytes_are_bytes _) Hvs)).
    unfold so_bytes. rewrite <- (bytes_app "so:" nm). rewrite !string_of_bytes_of_string. rewrite (dep_of_row row Hin). reflexivity. }
  unfold so_version_fixed, ends_release_s.
  destruct (ends_release (bytes_of_string v)); cbn [negb].
  - apply (Hres v pv Hp). rewrite Hrw. cbn [pin_tail]. rewrite app_nil_r, <- !app_assoc. reflexivity.
  - apply (Hres ("0." ++ v)%string (cons0m pv) (parse_zero_dot v pv Hp)).
    rewrite Hrw, bytes_zero_dot. cbn [pin_tail]. rewrite app_nil_r, <- !app_assoc. reflexivity.
Qed.

(* with the repair, every operator judges a so: provide by the order of the versions (same kind on both sides);
   in general both sides are scaled by the same rule *)
Theorem so_verdict_fixed row nm v w pv pw :
  In row matcher_table -> namechars nm -> parse_version v = Some pv -> parse_version w = Some pw ->
  exists a va vr, abs pw = Some va /\ abs pv = Some vr /\
    parse_version (c_version (resolve_constraint_fixed ("so:" ++ nm ++ "=" ++ w))) = Some a /\
    satisfied_by (resolve_constraint_fixed ("so:" ++ nm ++ fst row ++ v)) a =
      Some (spec_sat (vop_of_string (fst row)) (scaled (negb (ends_release_s w)) va) (scaled (negb (ends_release_s v)) vr)) /\
    (ends_release_s v = ends_release_s w ->
     satisfied_by (resolve_constraint_fixed ("so:" ++ nm ++ fst row ++ v)) a = Some (spec_sat (vop_of_string (fst row)) va vr)).
Proof.
  intros Hin Hn Hv Hw.
  destruct (parse_abs _ _ Hv) as [vr Hr]. destruct (parse_abs _ _ Hw) as [va Ha].
  pose proof (resolve_so_fixed ("=", dep_versionEqual) nm w pw eq_row_in Hn Hw) as Rw. cbn [fst snd] in Rw.
  pose proof (resolve_so_fixed row nm v pv Hin Hn Hv) as Rv.
  assert (P : forall x px vx, parse_version x = Some px -> abs px = Some vx ->
            exists m, parse_version (so_version_fixed x) = Some m /\ abs m = Some (scaled (negb (ends_release_s x)) vx)).
  { intros x px vx Hx Hax. unfold so_version_fixed, scaled. destruct (negb (ends_release_s x)).
    - exact (parse_zero_dot_abs x px vx Hx Hax).
    - exists px. split; assumption. }
  destruct (P w pw va Hw Ha) as (a & Pa & Aa). destruct (P v pv vr Hv Hr) as (r & Pr & Ar).
  exists a, va, vr. split; [exact Ha|]. split; [exact Hr|].
  rewrite Rw, Rv. cbn [c_version]. split; [exact Pa|].
  destruct (satisfied_by_is_spec row ("so:" ++ nm) "" (so_version_fixed v) r a Hin Pr _ Pa)
    as (va' & vr' & Ea & Er & S).
  rewrite Aa in Ea. rewrite Ar in Er. inversion Ea; inversion Er; subst va' vr'.
  split; [exact S|]. intros Hk. rewrite S, Hk. unfold scaled.
  destruct (negb (ends_release_s w)); [rewrite spec_sat_cons0|]; reflexivity.
Qed.

(* the witness of c03_soname_scale_refuted under the repair: 6 > 1 is answered true *)
Example so_fixed_witness :
  exists a, parse_version (c_version (resolve_constraint_fixed "so:libx.so.1=6")) = Some a /\
            satisfied_by (resolve_constraint_fixed "so:libx.so.1>1") a = Some true /\
            satisfied_by (resolve_constraint_fixed "so:libx.so.1<1") a = Some false /\
            satisfied_by (resolve_constraint_fixed "so:libx.so.1>=1") a = Some true /\
            resolve_constraint_fixed "so:libx.so.1>=1" = resolve_constraint "so:libx.so.1>=1" /\
            resolve_constraint_fixed "so:libx.so.1=6" = resolve_constraint "so:libx.so.1=6" /\
            resolve_constraint_fixed "so:libx.so.1" = resolve_constraint "so:libx.so.1".
Proof. eexists. repeat split; vm_compute; reflexivity. Qed.
