(* C03 — the HYPOTHETICAL OLD SHAPE of the so: rescaling (strings.Cut at the first "=", the code before fix C03-F2, commit
   0f275a6): [so_rewrite_old] / [resolve_constraint_old] of Model/SonameShapes.v.  Nothing here is about today's code; the
   statements record, for all names and versions, what the defect was (operators without "=" were not rescaled), and that the
   fix left every string without operators and every =, >=, <= string byte for byte alone.  If the fix is reverted goextract
   reads SoCutAt "=" "=0." again, so_rewrite becomes so_rewrite_old definitionally and these statements are about the code. *)
From Coq Require Import ZifyBool ZifyN Lia.
From Apko Require Import Base.Prelude Base.Regex Spec.VersionSpec Model.Version Model.SonameShapes
  Proofs.VersionProofs Proofs.ConstraintProofs Proofs.VersionStringProofs Proofs.VersionPrefixProofs Proofs.SonameProofs
  Generated.Regexes Generated.VersionConsts Generated.C03Version Generated.C03Ladders.
Open Scope string_scope. Open Scope list_scope. Open Scope Z_scope.

Lemma so_rewrite_old_unfold s :
  so_rewrite_old s =
    match strip_prefix so_bytes s with
    | None => s
    | Some _ => match cut_eq s with
                | Some (name, v) => if ends_release v then s else name ++ bytes_of_string "=0." ++ v
                | None => s
                end
    end.
Proof. reflexivity. Qed.

(* a revert of the fix makes the model this shape *)
Lemma so_rewrite_old_is_cut_shape s : so_rewrite_old s = so_rewrite_with (SoCutAt "=" "=0.") s.
Proof. reflexivity. Qed.

Lemma cut_eq_found a b : no_eq a = true -> cut_eq (a ++ 61%N :: b) = Some (a, b).
Proof.
  unfold cut_eq. induction a as [|c a IH]; cbn [app cut_byte no_eq forallb]; intros H.
  - reflexivity.
  - apply andb_true_iff in H. destruct H as [Hc Ha]. apply negb_true_iff in Hc. rewrite Hc.
    fold (no_eq a) in Ha. rewrite (IH Ha). reflexivity.
Qed.

Lemma cut_eq_none a : no_eq a = true -> cut_eq a = None.
Proof.
  unfold cut_eq. induction a as [|c a IH]; cbn [cut_byte no_eq forallb]; intros H; [reflexivity|].
  apply andb_true_iff in H. destruct H as [Hc Ha]. apply negb_true_iff in Hc. rewrite Hc.
  fold (no_eq a) in Ha. rewrite (IH Ha). reflexivity.
Qed.

Lemma namechars_no_eq l : forallb is_namechar l = true -> no_eq l = true.
Proof. apply forallb_impl. intros c. unfold is_namechar, is_opchar. lia. Qed.

Lemma no_op_no_eq l : no_op l = true -> no_eq l = true.
Proof. apply forallb_impl. intros c. unfold is_opchar. lia. Qed.

Lemma so_bytes_no_eq : no_eq so_bytes = true.
Proof. reflexivity. Qed.

(* old shape: "0." goes right behind the first "=" *)
Lemma so_rewrite_old_eq pre v : no_eq pre = true ->
  so_rewrite_old (so_bytes ++ pre ++ 61%N :: v) =
    if ends_release v then so_bytes ++ pre ++ 61%N :: v else so_bytes ++ pre ++ 61%N :: 48%N :: 46%N :: v.
Proof.
  intros Hp. rewrite so_rewrite_old_unfold. rewrite strip_prefix_app.
  rewrite app_assoc. rewrite cut_eq_found by (rewrite no_eq_app, Hp; reflexivity).
  destruct (ends_release v); [reflexivity|].
  rewrite <- app_assoc. reflexivity.
Qed.

(* ... and a string without any "=" was left untouched *)
Lemma so_rewrite_old_no_eq rest : no_eq rest = true -> so_rewrite_old (so_bytes ++ rest) = so_bytes ++ rest.
Proof.
  intros Hr. rewrite so_rewrite_old_unfold. rewrite strip_prefix_app.
  rewrite cut_eq_none by (rewrite no_eq_app, Hr; reflexivity). reflexivity.
Qed.

(* WHAT THE FIX CHANGED, AND WHAT IT DID NOT.  Today's rewrite returns the same bytes as the old shape
   (1) on every string that does not start with "so:",
   (2) on every so: string without any operator character,
   (3) on every so: string  name ++ o ++ "=" ++ v  where the name has no operator character, o is a (possibly empty) run
       of operator characters without "=" and v does not start with an operator character: the operators =, >=, <=.
   It differs where finding C03-F2 lived: operator runs without "=" (>, <, ~), and malformed runs such as "==", "=>". *)
Theorem so_rewrite_conservative :
  (forall s, strip_prefix so_bytes s = None -> so_rewrite s = so_rewrite_old s) /\
  (forall rest, no_op (so_bytes ++ rest) = true -> so_rewrite (so_bytes ++ rest) = so_rewrite_old (so_bytes ++ rest)) /\
  (forall pre o v, no_op (so_bytes ++ pre) = true -> forallb is_opchar o = true -> no_eq o = true -> head_no_op v ->
     so_rewrite (so_bytes ++ pre ++ (o ++ [61%N]) ++ v) = so_rewrite_old (so_bytes ++ pre ++ (o ++ [61%N]) ++ v)).
Proof.
  split; [|split].
  - intros s H. rewrite (so_rewrite_other s H), so_rewrite_old_unfold, H. reflexivity.
  - intros rest H. rewrite (so_rewrite_no_op rest H).
    rewrite so_rewrite_old_no_eq; [reflexivity|].
    unfold no_op in H. rewrite forallb_app in H. apply andb_true_iff in H. apply no_op_no_eq. apply H.
  - intros pre o v Hp Ho No Hv.
    rewrite (so_rewrite_split pre (o ++ [61%N]) v Hp); [| destruct o; discriminate | rewrite forallb_app, Ho; reflexivity | exact Hv].
    replace (so_bytes ++ pre ++ (o ++ [61%N]) ++ v) with (so_bytes ++ (pre ++ o) ++ 61%N :: v)
      by (rewrite <- !app_assoc; reflexivity).
    rewrite so_rewrite_old_eq.
    + destruct (ends_release v); rewrite <- !app_assoc; reflexivity.
    + unfold no_op in Hp. rewrite forallb_app in Hp. apply andb_true_iff in Hp. destruct Hp as [_ Hp].
      rewrite no_eq_app, (no_op_no_eq pre Hp), No. reflexivity.
Qed.

(* ---------- what the OLD shape resolved a so: string to ------------------------------------ *)
Definition so_version_old (op v : string) : string :=
  if has_eq op && negb (ends_release_s v) then "0." ++ v else v.

Theorem resolve_so_old row nm v pv :
  In row matcher_table -> namechars nm -> parse_version v = Some pv ->
  resolve_constraint_old ("so:" ++ nm ++ fst row ++ v) =
    {| c_name := "so:" ++ nm; c_version := so_version_old (fst row) v; c_dep := snd row; c_pin := "" |}.
Proof.
  intros Hin Hn Hp.
  destruct (op_row_facts row Hin) as (Ho1 & Ho2 & Hshape).
  assert (Hbytes : bytes_of_string ("so:" ++ nm ++ fst row ++ v) =
                   so_bytes ++ bytes_of_string nm ++ bytes_of_string (fst row) ++ bytes_of_string v).
  { rewrite !bytes_app. reflexivity. }
  assert (Hres : forall vs m, parse_version vs = Some m ->
            so_rewrite_old (bytes_of_string ("so:" ++ nm ++ fst row ++ v)) =
              (so_bytes ++ bytes_of_string nm) ++ bytes_of_string (fst row) ++ bytes_of_string vs ++ pin_tail [] ->
            resolve_constraint_old ("so:" ++ nm ++ fst row ++ v) =
              {| c_name := "so:" ++ nm; c_version := vs; c_dep := snd row; c_pin := "" |}).
  { intros vs m Hvs Hrw. unfold resolve_constraint_old.
    rewrite (resolve_with_rewritten _ _ _ _ _ _ Hrw
               (clean_so nm _ vs m Hn Ho1 Ho2 (bytes_are_bytes _) Hvs)).
    unfold so_bytes. rewrite <- (bytes_app "so:" nm). rewrite !string_of_bytes_of_string. rewrite (dep_of_row row Hin). reflexivity. }
  unfold so_version_old, ends_release_s.
  destruct (has_eq (fst row)) eqn:He.
  - destruct Hshape as (o & Eo & No & _).
    assert (Hrw : so_rewrite_old (bytes_of_string ("so:" ++ nm ++ fst row ++ v)) =
                  if ends_release (bytes_of_string v)
                  then so_bytes ++ (bytes_of_string nm ++ o) ++ 61%N :: bytes_of_string v
                  else so_bytes ++ (bytes_of_string nm ++ o) ++ 61%N :: 48%N :: 46%N :: bytes_of_string v).
    { rewrite Hbytes, Eo. rewrite <- so_rewrite_old_eq by (rewrite no_eq_app, (namechars_no_eq _ Hn), No; reflexivity).
      f_equal. rewrite <- !app_assoc. reflexivity. }
    destruct (ends_release (bytes_of_string v)); cbn [negb andb].
    + apply (Hres v pv Hp). rewrite Hrw, Eo. cbn [pin_tail]. rewrite app_nil_r, <- !app_assoc. reflexivity.
    + apply (Hres ("0." ++ v)%string (cons0m pv) (parse_zero_dot v pv Hp)).
      rewrite Hrw, Eo, bytes_zero_dot. cbn [pin_tail]. rewrite app_nil_r, <- !app_assoc. reflexivity.
  - destruct Hshape as (No & _). cbn [andb].
    apply (Hres v pv Hp). rewrite Hbytes.
    rewrite so_rewrite_old_no_eq.
    + cbn [pin_tail]. rewrite app_nil_r, <- !app_assoc. reflexivity.
    + rewrite !no_eq_app, (namechars_no_eq _ Hn), No. cbn [andb].
      pose proof (parsed_alphabet v pv Hp) as Hv. revert Hv. apply forallb_impl.
      intros x Hx. destruct (verchar_facts x Hx) as (_ & _ & _ & E & _). rewrite E. reflexivity.
Qed.

Lemma parse_so_version_old op v pv vr : parse_version v = Some pv -> abs pv = Some vr ->
  exists m, parse_version (so_version_old op v) = Some m /\
            abs m = Some (scaled (has_eq op && negb (ends_release_s v)) vr).
Proof.
  intros Hp Ha. unfold so_version_old, scaled.
  destruct (has_eq op && negb (ends_release_s v)).
  - exact (parse_zero_dot_abs v pv vr Hp Ha).
  - exists pv. split; assumption.
Qed.

(* what the old shape did, for every operator row, name and pair of version strings *)
Theorem so_verdict_old row nm v w pv pw :
  In row matcher_table -> namechars nm -> parse_version v = Some pv -> parse_version w = Some pw ->
  exists a va vr, abs pw = Some va /\ abs pv = Some vr /\
    parse_version (c_version (resolve_constraint_old ("so:" ++ nm ++ "=" ++ w))) = Some a /\
    satisfied_by (resolve_constraint_old ("so:" ++ nm ++ fst row ++ v)) a =
      Some (spec_sat (vop_of_string (fst row))
              (scaled (negb (ends_release_s w)) va)
              (scaled (has_eq (fst row) && negb (ends_release_s v)) vr)).
Proof.
  intros Hin Hn Hv Hw.
  destruct (parse_abs _ _ Hv) as [vr Hr]. destruct (parse_abs _ _ Hw) as [va Ha].
  pose proof (resolve_so_old ("=", dep_versionEqual) nm w pw eq_row_in Hn Hw) as Rw. cbn [fst snd] in Rw.
  pose proof (resolve_so_old row nm v pv Hin Hn Hv) as Rv.
  destruct (parse_so_version_old "=" w pw va Hw Ha) as (a & Pa & Aa).
  destruct (parse_so_version_old (fst row) v pv vr Hv Hr) as (r & Pr & Ar).
  exists a, va, vr. split; [exact Ha|]. split; [exact Hr|].
  rewrite Rw, Rv. cbn [c_version]. split; [exact Pa|].
  destruct (satisfied_by_is_spec row ("so:" ++ nm) "" (so_version_old (fst row) v) r a Hin Pr _ Pa)
    as (va' & vr' & Ea & Er & S).
  rewrite Aa in Ea. rewrite Ar in Er. inversion Ea; inversion Er; subst va' vr'.
  exact S.
Qed.

(* operators without "=" (>, <, ~), provide without release suffix: the provide was on the 0.W scale, the constraint was not *)
Corollary so_verdict_old_without_eq row nm v w pv pw :
  In row matcher_table -> has_eq (fst row) = false -> namechars nm ->
  parse_version v = Some pv -> parse_version w = Some pw ->
  ends_release_s w = false ->
  exists a va vr, abs pw = Some va /\ abs pv = Some vr /\
    parse_version (c_version (resolve_constraint_old ("so:" ++ nm ++ "=" ++ w))) = Some a /\
    satisfied_by (resolve_constraint_old ("so:" ++ nm ++ fst row ++ v)) a =
      Some (spec_sat (vop_of_string (fst row)) (cons0 va) vr).
Proof.
  intros Hin He Hn Hv Hw Hk.
  destruct (so_verdict_old row nm v w pv pw Hin Hn Hv Hw) as (a & va & vr & Ha & Hr & Pa & S).
  exists a, va, vr. repeat (split; [assumption|]). rewrite S, He, Hk. reflexivity.
Qed.

(* ... so against a constraint version whose first component is at least 1 the versions did not matter at all *)
Corollary so_verdict_old_without_eq_constant row nm v w pv pw :
  In row matcher_table -> has_eq (fst row) = false -> namechars nm ->
  parse_version v = Some pv -> parse_version w = Some pw ->
  ends_release_s w = false -> 0 < hd 0 (m_nums pv) ->
  exists a, parse_version (c_version (resolve_constraint_old ("so:" ++ nm ++ "=" ++ w))) = Some a /\
    satisfied_by (resolve_constraint_old ("so:" ++ nm ++ fst row ++ v)) a =
      Some (match vop_of_string (fst row) with OpLt => true | _ => false end).
Proof.
  intros Hin He Hn Hv Hw Hk Hpos.
  destruct (so_verdict_old_without_eq row nm v w pv pw Hin He Hn Hv Hw Hk) as (a & va & vr & Ha & Hr & Pa & S).
  exists a. split; [exact Pa|]. rewrite S. f_equal.
  assert (Hn' : nums vr = m_nums pv).
  { unfold abs in Hr. destruct (decode_pre (m_pre pv)); [|discriminate]. destruct (decode_post (m_post pv)); [|discriminate].
    inversion Hr; reflexivity. }
  destruct (m_nums pv) as [|x rest] eqn:En; cbn [hd] in Hpos; [lia|].
  assert (Hc : spec_cmp (cons0 va) vr = Lt).
  { unfold spec_cmp. cbn [cons0 nums]. rewrite Hn'. cbn [cmp_nums].
    replace (0 ?= x) with Lt by (symmetry; apply Z.compare_lt_iff; lia). reflexivity. }
  destruct (op_row_facts row Hin) as (_ & _ & Hshape). rewrite He in Hshape. destruct Hshape as (_ & [E|[E|E]]);
    rewrite E; cbn [spec_sat]; rewrite ?Hc; try reflexivity.
  unfold spec_tilde. cbn [cons0 nums]. rewrite Hn'. cbn [is_prefix_z].
  replace (x =? 0) with false by (symmetry; apply Z.eqb_neq; lia). reflexivity.
Qed.

(* the concrete witness of finding C03-F2, on the old shape (regression replay: the same strings are in the soname corpus) *)
Lemma so_old_witness :
  exists a, parse_version (c_version (resolve_constraint_old "so:libx.so.1=6")) = Some a /\
            satisfied_by (resolve_constraint_old "so:libx.so.1>1") a = Some false /\
            satisfied_by (resolve_constraint_old "so:libx.so.1>=1") a = Some true /\
            satisfied_by (resolve_constraint_old "so:libx.so.1<=1") a = Some false.
Proof. eexists. repeat split; vm_compute; reflexivity. Qed.
